(* RegexEval.v — a FUEL-FREE evaluator for the regexes of Model/Regex.v and the theorem that the backtracking engine,
   run with the fuel re_match / re_search / re_sub give it, computes exactly this evaluator:

     ev r pos rest c k      structural recursion on the regex; a repeat loops at most |rest|+2 times (every iteration
                            has to consume a character), so no global fuel is needed;
     m_ev                   rsize r * (|rest|+1) <= fuel, k never MFuel  ->  m fuel r pos rest c k = ev r pos rest c k
     re_match_ev            re_match r s = ev r 0 s [] kfin                         (EVERY regex, EVERY subject)
     m_at_ev                the call made by re_search_from / re_sub_from / re_split_from at a suffix of the subject
                            = ev r pos rest [] kfin.

   With these, "what does the engine answer on the regenerated regex R for an arbitrary subject" becomes a question
   about [ev R], which unfolds by computation on R (cbn [ev]) and is analysed by induction on the subject
   (star_atom_* below for greedy repeats of a one-character pattern).  Look-ahead is covered (ev has the same clause). *)
From Coq Require Import Lia.
From BS Require Import Model.Base Model.Regex Proofs.RegexFacts Proofs.RegexComplete Proofs.RegexShift.

Section Eval.
Variable UCL : uclass.

Definition kont := nat -> str -> caps -> mres.

Fixpoint ev_rep (body : nat -> str -> caps -> kont -> mres) (n mn : nat) (mx : option nat)
                (pos : nat) (rest : str) (c : caps) (k : kont) : mres :=
  match n with
  | O => MFuel
  | S n' =>
    match (match mx with
           | Some O => MNo
           | _ => body pos rest c (fun p r' c' => if Nat.eqb p pos then MNo
                                                   else ev_rep body n' (pred mn) (option_map pred mx) p r' c' k)
           end) with
    | MNo => match mn with O => k pos rest c | _ => MNo end
    | res => res
    end
  end.

Fixpoint ev (r : regex) (pos : nat) (rest : str) (c : caps) (k : kont) : mres :=
  match r with
  | REps => k pos rest c
  | RLit x => match rest with y :: t => if (y =? x)%N then k (S pos) t c else MNo | [] => MNo end
  | RNotLit x => match rest with y :: t => if (y =? x)%N then MNo else k (S pos) t c | [] => MNo end
  | RAny => match rest with y :: t => if (y =? 10)%N then MNo else k (S pos) t c | [] => MNo end
  | RIn neg items => match rest with y :: t => if class_match UCL neg items y then k (S pos) t c else MNo | [] => MNo end
  | RBol => if Nat.eqb pos 0 then k pos rest c else MNo
  | REol => match rest with [] => k pos rest c | [y] => if (y =? 10)%N then k pos rest c else MNo | _ => MNo end
  | RCat a b => ev a pos rest c (fun p r' c' => ev b p r' c' k)
  | RAlt a b => match ev a pos rest c k with MNo => ev b pos rest c k | res => res end
  | RRep mn mx a => ev_rep (ev a) (S (S (length rest))) mn mx pos rest c k
  | RGroup n a => ev a pos rest c (fun p r' c' => k p r' (cap_set n (pos, p) c'))
  | RLook a => match ev a pos rest c (fun p _ c' => MYes p c') with
               | MYes _ c' => k pos rest c'
               | MNo => MNo
               | MFuel => MFuel
               end
  end.

Definition reach (pos : nat) (rest : str) (p : nat) (r' : str) : Prop := pos <= p /\ p + length r' = pos + length rest.

Definition ev_ok (fuel : nat) : Prop :=
  forall r pos rest c k k', rsize r * (length rest + 1) <= fuel ->
    (forall p r' c', reach pos rest p r' -> k p r' c' = k' p r' c') ->
    (forall p r' c', reach pos rest p r' -> k' p r' c' <> MFuel) ->
    m UCL fuel r pos rest c k = ev r pos rest c k'.

Definition ev_rep_ok (fuel : nat) : Prop :=
  forall mn mx a n pos rest c k k', length rest < n -> S (rsize a) * (length rest + 1) <= fuel ->
    (forall p r' c', reach pos rest p r' -> k p r' c' = k' p r' c') ->
    (forall p r' c', reach pos rest p r' -> k' p r' c' <> MFuel) ->
    m UCL fuel (RRep mn mx a) pos rest c k = ev_rep (ev a) n mn mx pos rest c k'.

Lemma reach_refl pos rest : reach pos rest pos rest.
Proof. split; lia. Qed.
Lemma reach_step pos y t : reach pos (y :: t) (S pos) t.
Proof. split; cbn [length]; lia. Qed.
Lemma reach_trans pos rest p r' p2 r2 : reach pos rest p r' -> reach p r' p2 r2 -> reach pos rest p2 r2.
Proof. unfold reach. lia. Qed.

Lemma k_nofuel pos rest (k k' : kont) :
  (forall p r' c', reach pos rest p r' -> k p r' c' = k' p r' c') ->
  (forall p r' c', reach pos rest p r' -> k' p r' c' <> MFuel) ->
  forall p r' c', pos <= p -> p + length r' = pos + length rest -> k p r' c' <> MFuel.
Proof. intros A N p r' c' H1 H2. rewrite A by (split; assumption). apply N. split; assumption. Qed.

Lemma ev_ok_rep f : ev_ok f -> ev_rep_ok f -> ev_rep_ok (S f).
Proof.
  intros H1 H2 mn mx a n pos rest c k k' Ln F A N.
  destruct n as [|n']; [lia|]. rewrite m_rep_unfold. cbn [ev_rep].
  assert (KA : forall p r' c', reach pos rest p r' ->
             (if Nat.eqb p pos then MNo else m UCL f (RRep (pred mn) (option_map pred mx) a) p r' c' k) =
             (if Nat.eqb p pos then MNo else ev_rep (ev a) n' (pred mn) (option_map pred mx) p r' c' k')).
  { intros p r' c' [R1 R2]. destruct (Nat.eqb p pos) eqn:E; [reflexivity|]. apply Nat.eqb_neq in E.
    apply H2; [lia | cbn [rsize] in *; nia | |].
    - intros p2 r2 c2 R. apply A. eapply reach_trans; [split; eassumption | exact R].
    - intros p2 r2 c2 R. apply N. eapply reach_trans; [split; eassumption | exact R]. }
  assert (KN : forall p r' c', reach pos rest p r' ->
             (if Nat.eqb p pos then MNo else ev_rep (ev a) n' (pred mn) (option_map pred mx) p r' c' k') <> MFuel).
  { intros p r' c' R. rewrite <- KA by exact R. destruct R as [R1 R2].
    destruct (Nat.eqb p pos) eqn:E; [discriminate|]. apply Nat.eqb_neq in E.
    apply m_no_fuel; [cbn [rsize] in *; nia|]. intros p2 r2 c2 Q1 Q2.
    apply (k_nofuel pos rest k k' A N); lia. }
  assert (E : m UCL f a pos rest c (fun p r' c' => if Nat.eqb p pos then MNo
                 else m UCL f (RRep (pred mn) (option_map pred mx) a) p r' c' k) =
              ev a pos rest c (fun p r' c' => if Nat.eqb p pos then MNo
                 else ev_rep (ev a) n' (pred mn) (option_map pred mx) p r' c' k')).
  { apply H1; [nia | exact KA | exact KN]. }
  rewrite (A pos rest c (reach_refl pos rest)).
  destruct mx as [[|mx']|]; [reflexivity | rewrite E; reflexivity | rewrite E; reflexivity].
Qed.

Lemma ev_ok_step f : ev_ok f -> ev_rep_ok (S f) -> ev_ok (S f).
Proof.
  intros H1 H2 r pos rest c k k' F A N.
  destruct r; cbn [m ev]; cbn [rsize] in F.
  - apply A, reach_refl.
  - destruct rest as [|y t]; [reflexivity|]. destruct (y =? c0)%N; [|reflexivity]. apply A, reach_step.
  - destruct rest as [|y t]; [reflexivity|]. destruct (y =? c0)%N; [reflexivity|]. apply A, reach_step.
  - destruct rest as [|y t]; [reflexivity|]. destruct (y =? 10)%N; [reflexivity|]. apply A, reach_step.
  - destruct rest as [|y t]; [reflexivity|]. destruct (class_match UCL neg items y); [|reflexivity]. apply A, reach_step.
  - destruct (Nat.eqb pos 0); [|reflexivity]. apply A, reach_refl.
  - destruct rest as [|y [|z t]]; [apply A, reach_refl | destruct (y =? 10)%N; [apply A, reach_refl | reflexivity] | reflexivity].
  - (* RCat *)
    assert (KA : forall p r' c', reach pos rest p r' -> m UCL f r2 p r' c' k = ev r2 p r' c' k').
    { intros p r' c' [R1 R2]. apply H1; [nia | |].
      - intros p2 q2 c2 R. apply A. eapply reach_trans; [split; eassumption | exact R].
      - intros p2 q2 c2 R. apply N. eapply reach_trans; [split; eassumption | exact R]. }
    apply H1; [nia | exact KA |].
    intros p r' c' R. rewrite <- KA by exact R. destruct R as [R1 R2].
    apply m_no_fuel; [nia|]. intros p2 q2 c2 Q1 Q2. apply (k_nofuel pos rest k k' A N); lia.
  - (* RAlt *)
    rewrite (H1 r1 pos rest c k k') by (try nia; assumption).
    rewrite (H1 r2 pos rest c k k') by (try nia; assumption). reflexivity.
  - (* RRep *)
    apply H2; [lia | cbn [rsize]; lia | exact A | exact N].
  - (* RGroup *)
    apply H1; [nia | |].
    + intros p r' c' R. apply A. exact R.
    + intros p r' c' R. apply N. exact R.
  - (* RLook *)
    rewrite (H1 r pos rest c (fun p _ c' => MYes p c') (fun p _ c' => MYes p c')); [|nia|reflexivity|discriminate].
    destruct (ev r pos rest c (fun p _ c' => MYes p c')); [reflexivity | apply A, reach_refl | reflexivity].
Qed.

Lemma ev_ok_all : forall f, ev_ok f /\ ev_rep_ok f.
Proof.
  induction f as [|f [H1 H2]].
  - split.
    + intros r pos rest c k k' F. pose proof (rsize_pos r). nia.
    + intros mn mx a n pos rest c k k' _ F. nia.
  - pose proof (ev_ok_rep f H1 H2) as R. split; [apply ev_ok_step; assumption | exact R].
Qed.

(* the engine with enough fuel IS the evaluator *)
Theorem m_ev fuel r pos rest c k :
  rsize r * (length rest + 1) <= fuel ->
  (forall p r' c', pos <= p -> p + length r' = pos + length rest -> k p r' c' <> MFuel) ->
  m UCL fuel r pos rest c k = ev r pos rest c k.
Proof.
  intros F N. apply (proj1 (ev_ok_all fuel)); [exact F | reflexivity |].
  intros p r' c' [R1 R2]. apply N; assumption.
Qed.

Theorem re_match_ev r s : re_match UCL r s = ev r 0 s [] kfin.
Proof. unfold re_match, fuel_for. apply m_ev; [nia | discriminate]. Qed.

(* the call made at a suffix [rest] of the subject [whole] by re_search_from / re_sub_from / re_split_from *)
Theorem m_at_ev r whole pos rest : length rest <= length whole ->
  m UCL (fuel_for r whole) r pos rest [] (fun p _ c => MYes p c) = ev r pos rest [] kfin.
Proof. intros L. unfold fuel_for. apply m_ev; [nia | discriminate]. Qed.

(* ---------- continuations that agree give the same answer ---------- *)
Lemma ev_rep_ext body : (forall pos rest c k k', (forall p r' c', k p r' c' = k' p r' c') -> body pos rest c k = body pos rest c k') ->
  forall n mn mx pos rest c k k', (forall p r' c', k p r' c' = k' p r' c') ->
  ev_rep body n mn mx pos rest c k = ev_rep body n mn mx pos rest c k'.
Proof.
  intros B. induction n as [|n IH]; intros mn mx pos rest c k k' A; [reflexivity|]. cbn [ev_rep].
  rewrite (A pos rest c).
  rewrite (B pos rest c _ (fun p r' c' => if Nat.eqb p pos then MNo else ev_rep body n (pred mn) (option_map pred mx) p r' c' k')).
  - reflexivity.
  - intros p r' c'. destruct (Nat.eqb p pos); [reflexivity | apply IH; exact A].
Qed.

Lemma ev_ext : forall r pos rest c k k', (forall p r' c', k p r' c' = k' p r' c') -> ev r pos rest c k = ev r pos rest c k'.
Proof.
  induction r; intros pos rest cc k k' A; cbn [ev].
  - apply A.
  - destruct rest as [|y t]; [reflexivity|]. rewrite A. reflexivity.
  - destruct rest as [|y t]; [reflexivity|]. rewrite A. reflexivity.
  - destruct rest as [|y t]; [reflexivity|]. rewrite A. reflexivity.
  - destruct rest as [|y t]; [reflexivity|]. rewrite A. reflexivity.
  - rewrite A. reflexivity.
  - destruct rest as [|y [|z t]]; rewrite ?A; reflexivity.
  - apply IHr1. intros p r' c'. apply IHr2. exact A.
  - rewrite (IHr1 _ _ _ k k' A), (IHr2 _ _ _ k k' A). reflexivity.
  - apply ev_rep_ext; [exact IHr | exact A].
  - apply IHr. intros p r' c'. apply A.
  - destruct (ev r pos rest cc (fun p _ c' => MYes p c')); rewrite ?A; reflexivity.
Qed.

(* ---------- greedy repeat of a one-character pattern ---------- *)
(* [one a p]: the regex a reads exactly one character, accepted by p, and leaves the captures alone *)
Definition one (a : regex) (p : N -> bool) : Prop :=
  forall pos rest c k, ev a pos rest c k = match rest with y :: t => if p y then k (S pos) t c else MNo | [] => MNo end.

Lemma one_lit x : one (RLit x) (fun y => (y =? x)%N).
Proof. intros pos rest c k. reflexivity. Qed.
Lemma one_notlit x : one (RNotLit x) (fun y => negb (y =? x)%N).
Proof. intros pos rest c k. cbn [ev]. destruct rest as [|y t]; [reflexivity|]. destruct (y =? x)%N; reflexivity. Qed.
Lemma one_any : one RAny (fun y => negb (y =? 10)%N).
Proof. intros pos rest c k. cbn [ev]. destruct rest as [|y t]; [reflexivity|]. destruct (y =? 10)%N; reflexivity. Qed.
Lemma one_in neg items : one (RIn neg items) (class_match UCL neg items).
Proof. intros pos rest c k. reflexivity. Qed.

(* try the continuation after the longest run first, then after shorter and shorter ones *)
Fixpoint star_bt (p : N -> bool) (k : kont) (pos : nat) (rest : str) (c : caps) : mres :=
  match rest with
  | y :: t => if p y then match star_bt p k (S pos) t c with MNo => k pos rest c | res => res end
              else k pos rest c
  | [] => k pos rest c
  end.

Lemma neq_succ pos : Nat.eqb (S pos) pos = false.
Proof. apply Nat.eqb_neq. lia. Qed.

Lemma star_atom a p : one a p -> forall rest n pos c k, length rest < n ->
  ev_rep (ev a) n 0 None pos rest c k = star_bt p k pos rest c.
Proof.
  intros O. induction rest as [|y t IH]; intros n pos c k L; (destruct n as [|n]; [lia|]); cbn [ev_rep star_bt].
  - rewrite O. reflexivity.
  - rewrite O. destruct (p y); [|reflexivity]. rewrite neq_succ. cbn [pred option_map].
    rewrite IH by (cbn [length] in L; lia). reflexivity.
Qed.

Lemma ev_rep_S body n mn mx pos rest c k :
  ev_rep body (S n) mn mx pos rest c k =
  match (match mx with
         | Some O => MNo
         | _ => body pos rest c (fun p r' c' => if Nat.eqb p pos then MNo
                                                 else ev_rep body n (pred mn) (option_map pred mx) p r' c' k)
         end) with
  | MNo => match mn with O => k pos rest c | _ => MNo end
  | res => res
  end.
Proof. reflexivity. Qed.

Lemma ev_star a p : one a p -> forall pos rest c k, ev (RRep 0 None a) pos rest c k = star_bt p k pos rest c.
Proof. intros O pos rest c k. cbn [ev]. apply star_atom; [exact O | lia]. Qed.

Lemma ev_plus a p : one a p -> forall pos rest c k,
  ev (RRep 1 None a) pos rest c k = match rest with y :: t => if p y then star_bt p k (S pos) t c else MNo | [] => MNo end.
Proof.
  intros O pos rest c k. cbn [ev]. rewrite ev_rep_S. rewrite O. destruct rest as [|y t]; [reflexivity|].
  destruct (p y); [|reflexivity]. rewrite neq_succ. cbn [pred option_map].
  rewrite (star_atom a p O) by (cbn [length]; lia).
  destruct (star_bt p k (S pos) t c); reflexivity.
Qed.

(* a?  for any a *)
Lemma ev_opt a pos rest c k :
  ev (RRep 0 (Some 1) a) pos rest c k =
  match ev a pos rest c (fun p r' c' => if Nat.eqb p pos then MNo else k p r' c') with MNo => k pos rest c | res => res end.
Proof.
  cbn [ev]. rewrite ev_rep_S. cbn [pred option_map].
  rewrite (ev_ext a pos rest c _ (fun p r' c' => if Nat.eqb p pos then MNo else k p r' c')); [reflexivity|].
  intros p r' c'. destruct (Nat.eqb p pos); reflexivity.
Qed.

(* the longest run *)
Fixpoint span (p : N -> bool) (s : str) : nat * str :=
  match s with
  | y :: t => if p y then let '(n, r) := span p t in (S n, r) else (O, s)
  | [] => (O, [])
  end.

(* when the continuation accepts after the longest run, or refuses whatever starts with a character of the run *)
Lemma star_bt_longest p k : forall rest pos c,
  k (pos + fst (span p rest)) (snd (span p rest)) c <> MNo \/ (forall q y t c', p y = true -> k q (y :: t) c' = MNo) ->
  star_bt p k pos rest c = k (pos + fst (span p rest)) (snd (span p rest)) c.
Proof.
  induction rest as [|y t IH]; intros pos c; cbn [star_bt span].
  - intros _. cbn [fst snd]. rewrite Nat.add_0_r. reflexivity.
  - destruct (p y) eqn:E.
    + specialize (IH (S pos) c). destruct (span p t) as [n r]. cbn [fst snd] in *.
      replace (pos + S n) with (S pos + n) by lia. intros H. rewrite IH by exact H.
      destruct (k (S pos + n) r c) eqn:Ek; try reflexivity.
      destruct H as [H|H]; [congruence | apply H; exact E].
    + intros _. cbn [fst snd]. rewrite Nat.add_0_r. reflexivity.
Qed.

Lemma span_app p : forall s, s = firstn (fst (span p s)) s ++ snd (span p s).
Proof.
  induction s as [|y t IH]; cbn [span]; [reflexivity|]. destruct (p y); [|reflexivity].
  destruct (span p t) as [n r]. cbn [fst snd firstn] in *. cbn [app]. f_equal. exact IH.
Qed.

Lemma span_length p : forall s, fst (span p s) + length (snd (span p s)) = length s.
Proof.
  induction s as [|y t IH]; cbn [span]; [reflexivity|]. destruct (p y); [|reflexivity].
  destruct (span p t) as [n r]. cbn [fst snd length] in *. lia.
Qed.

Lemma span_stop p : forall s, match snd (span p s) with y :: _ => p y = false | [] => True end.
Proof.
  induction s as [|y t IH]; cbn [span]; [exact I|]. destruct (p y) eqn:E; [|exact E].
  destruct (span p t) as [n r]. exact IH.
Qed.

Lemma span_skipn p : forall s, snd (span p s) = skipn (fst (span p s)) s.
Proof.
  induction s as [|y t IH]; cbn [span]; [reflexivity|]. destruct (p y); [|reflexivity].
  destruct (span p t) as [n r]. exact IH.
Qed.

(* ---------- one-step equations (so that proofs rewrite instead of unfolding everything) ---------- *)
Lemma ev_cat a b pos rest c k : ev (RCat a b) pos rest c k = ev a pos rest c (fun p r' c' => ev b p r' c' k).
Proof. reflexivity. Qed.
Lemma ev_alt a b pos rest c k : ev (RAlt a b) pos rest c k = match ev a pos rest c k with MNo => ev b pos rest c k | res => res end.
Proof. reflexivity. Qed.
Lemma ev_group n a pos rest c k : ev (RGroup n a) pos rest c k = ev a pos rest c (fun p r' c' => k p r' (cap_set n (pos, p) c')).
Proof. reflexivity. Qed.
Lemma ev_look a pos rest c k :
  ev (RLook a) pos rest c k = match ev a pos rest c (fun p _ c' => MYes p c') with MYes _ c' => k pos rest c' | MNo => MNo | MFuel => MFuel end.
Proof. reflexivity. Qed.
Lemma ev_bol pos rest c k : ev RBol pos rest c k = if Nat.eqb pos 0 then k pos rest c else MNo.
Proof. reflexivity. Qed.
Lemma ev_eps pos rest c k : ev REps pos rest c k = k pos rest c.
Proof. reflexivity. Qed.
Lemma ev_eol pos rest c k :
  ev REol pos rest c k = match rest with [] => k pos rest c | [y] => if (y =? 10)%N then k pos rest c else MNo | _ => MNo end.
Proof. reflexivity. Qed.
Lemma ev_one a p : one a p -> forall pos rest c k,
  ev a pos rest c k = match rest with y :: t => if p y then k (S pos) t c else MNo | [] => MNo end.
Proof. intros O. exact O. Qed.

Lemma span_ext p q : (forall y, p y = q y) -> forall s, span p s = span q s.
Proof. intros E. induction s as [|y t IH]; cbn [span]; [reflexivity|]. rewrite E, IH. reflexivity. Qed.

End Eval.
