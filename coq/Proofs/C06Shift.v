(* Proofs/C06Shift.v — C06 "shift" clause for SIMPLE STATEMENT lines in front:
     prepending comment / blank / simple valid statement lines (assignment, expression statement, label, jump / jumpif,
     return — each a one-line statement that only appends ONE statement to the current list) moves every reported line
     number by exactly the number of prepended lines and changes nothing else: the error text, line text and column are
     the same, and an accepted script is  (the statements of the prefix) ++ (the script of the rest).

   The parser state keeps POSITIONS into the statement list under construction in its if-frames (the pending conditional
   jump that `endif` retargets).  So the commutation is with an explicit state shift  shift_ps P :
     * P is prepended to the GLOBAL statement list;
     * the frames that belong to the global list (all frames when no function is open; the bottom ps_fn_depth frames,
       suspended while a function is open) get their jump position moved by |P|; the frames of an open function body
       are untouched.
   kstep_shift: one lowering step (Model/Lower.v kstep, tied to Script.pstep by Proofs/C07eq.v) commutes with shift_ps P in
   every state whose frame stack splits as top ++ bot with |bot| = depth_floor (an invariant of the fold: Total.JInv), for
   every P that does not END in an include statement (an `include` line merges into a preceding include statement). *)
From Coq Require Import Lia.
From BS Require Import Model.Base Model.Regex Model.Num Model.ExprParser Model.Script Model.ScriptX Model.Lower
  Gen.Unicode Gen.Regexes Proofs.ScriptFacts Proofs.C06 Proofs.C07eq Proofs.C07 Proofs.Total.

Definition shf (d : nat) (f : frame) : frame :=
  match f with FIf pos a b c l n => FIf (d + pos) a b c l n | o => o end.

Definition shift_ps (P : list stmt) (ps : pstate) : pstate :=
  let t := match ps_fn ps with None => 0 | Some _ => length (ps_frames ps) - ps_fn_depth ps end in
  {| ps_global := P ++ ps_global ps; ps_fn := ps_fn ps; ps_fn_depth := ps_fn_depth ps;
     ps_frames := firstn t (ps_frames ps) ++ map (shf (length P)) (skipn t (ps_frames ps));
     ps_index := ps_index ps |}.

(* the frame stack splits into the frames of the current statement list and the suspended global frames *)
Definition Split (ps : pstate) : Prop :=
  exists top bot, ps_frames ps = top ++ bot /\ length bot = depth_floor ps.

Definition omap {A} (f : A -> A) (r : sres A) : sres A :=
  match r with ROk a => ROk (f a) | RErr e => RErr e | RHost w => RHost w | RFuel => RFuel end.

Lemma firstn_len_app {A} (a b : list A) : firstn (length a) (a ++ b) = a.
Proof. induction a as [|x a IH]; cbn; [reflexivity | rewrite IH; reflexivity]. Qed.
Lemma skipn_len_app {A} (a b : list A) : skipn (length a) (a ++ b) = b.
Proof. induction a as [|x a IH]; cbn; [reflexivity | exact IH]. Qed.

Lemma shf_loop d f : is_if_frame f = false -> shf d f = f.
Proof. destruct f; cbn; [discriminate | reflexivity | reflexivity]. Qed.
Lemma shf_is_if d f : is_if_frame (shf d f) = is_if_frame f.
Proof. destruct f; reflexivity. Qed.
Lemma shf_key d f : frame_key (shf d f) = frame_key f. Proof. destruct f; reflexivity. Qed.
Lemma shf_line d f : frame_line (shf d f) = frame_line f. Proof. destruct f; reflexivity. Qed.
Lemma shf_lineno d f : frame_lineno (shf d f) = frame_lineno f. Proof. destruct f; reflexivity. Qed.

Lemma find_loop_shf d : forall l k0, find_loop (map (shf d) l) k0 = find_loop l k0.
Proof.
  induction l as [|x l IH]; intros k0; [reflexivity|]. cbn [map find_loop]. rewrite shf_is_if.
  destruct (is_if_frame x) eqn:E; [apply IH | rewrite shf_loop by exact E; reflexivity].
Qed.

Lemma retarget_shift done P : forall pos o, retarget (length P + pos) done (P ++ o) = option_map (app P) (retarget pos done o).
Proof.
  induction P as [|s P IH]; intros pos o; cbn [length app Nat.add].
  - destruct (retarget pos done o); reflexivity.
  - rewrite retarget_S, IH. destruct (retarget pos done o); reflexivity.
Qed.

Lemma last_is_include_shift P o : last_is_include P = None ->
  last_is_include (P ++ o) = option_map (fun fi => (P ++ fst fi, snd fi)) (last_is_include o).
Proof.
  intros NI. unfold last_is_include in *. rewrite rev_app_distr.
  destruct (rev o) as [|x t] eqn:E.
  - cbn [app]. destruct (rev P) as [|[] ?]; try reflexivity. discriminate.
  - cbn [app]. destruct x; try reflexivity. cbn. rewrite rev_app_distr, rev_involutive. reflexivity.
Qed.

Section Shift.
Variable P : list stmt.
Notation S := (shift_ps P).
Notation d := (length P).

Definition shq (ps : pstate) : frame -> frame := match ps_fn ps with None => shf d | Some _ => fun f => f end.
Definition shp (ps : pstate) (pos : nat) : nat := match ps_fn ps with None => d + pos | Some _ => pos end.
Definition sho (ps : pstate) (o : list stmt) : list stmt := match ps_fn ps with None => P ++ o | Some _ => o end.

Lemma S_floor ps : depth_floor (S ps) = depth_floor ps. Proof. reflexivity. Qed.
Lemma S_cur ps : cur_stmts (S ps) = sho ps (cur_stmts ps).
Proof. destruct ps as [g [fo|] fd fr ix]; reflexivity. Qed.
Lemma S_len ps : length (ps_frames (S ps)) = length (ps_frames ps).
Proof. cbn. rewrite app_length, map_length, <- app_length, firstn_skipn. reflexivity. Qed.

Lemma S_frames ps top bot : ps_frames ps = top ++ bot -> length bot = depth_floor ps ->
  ps_frames (S ps) = map (shq ps) top ++ map (shf d) bot.
Proof.
  destruct ps as [g [fo|] fd fr ix]; unfold depth_floor, shq; cbn; intros -> L.
  - subst fd. rewrite app_length. replace (length top + length bot - length bot) with (length top) by lia.
    rewrite firstn_len_app, skipn_len_app, map_id. reflexivity.
  - destruct bot; [|discriminate]. rewrite app_nil_r. cbn. rewrite app_nil_r. reflexivity.
Qed.

Lemma S_put ps top bot o' top' n' : ps_frames ps = top ++ bot -> length bot = depth_floor ps ->
  S (put ps o' (top' ++ bot) n') = put (S ps) (sho ps o') (map (shq ps) top' ++ map (shf d) bot) n'.
Proof.
  destruct ps as [g [fo|] fd fr ix]; unfold depth_floor, shq, sho, put, shift_ps; cbn; intros -> L.
  - subst fd. rewrite app_length. replace (length top' + length bot - length bot) with (length top') by lia.
    rewrite firstn_len_app, skipn_len_app, map_id. reflexivity.
  - destruct bot; [|discriminate]. rewrite !app_nil_r. reflexivity.
Qed.

Lemma sho_app ps a b : sho ps (a ++ b) = sho ps a ++ b.
Proof. unfold sho. destruct (ps_fn ps); [reflexivity | apply app_assoc]. Qed.
Lemma shp_len ps o : shp ps (length o) = length (sho ps o).
Proof. unfold shp, sho. destruct (ps_fn ps); [reflexivity | rewrite app_length; reflexivity]. Qed.
Lemma shp_len2 ps o : shp ps (length o + 2) = length (sho ps o) + 2.
Proof. unfold shp, sho. destruct (ps_fn ps); [reflexivity | rewrite app_length; lia]. Qed.
Lemma shq_if ps pos a b c l n : shq ps (FIf pos a b c l n) = FIf (shp ps pos) a b c l n.
Proof. unfold shq, shp. destruct (ps_fn ps); reflexivity. Qed.
Lemma shq_loop ps f : is_if_frame f = false -> shq ps f = f.
Proof. unfold shq. destruct (ps_fn ps); [reflexivity | apply shf_loop]. Qed.
Lemma shq_key ps f : frame_key (shq ps f) = frame_key f. Proof. unfold shq. destruct (ps_fn ps); [reflexivity | apply shf_key]. Qed.
Lemma shq_line ps f : frame_line (shq ps f) = frame_line f. Proof. unfold shq. destruct (ps_fn ps); [reflexivity | apply shf_line]. Qed.
Lemma shq_lineno ps f : frame_lineno (shq ps f) = frame_lineno f. Proof. unfold shq. destruct (ps_fn ps); [reflexivity | apply shf_lineno]. Qed.
Lemma shq_is_if ps f : is_if_frame (shq ps f) = is_if_frame f. Proof. unfold shq. destruct (ps_fn ps); [reflexivity | apply shf_is_if]. Qed.

Lemma retarget_sho ps pos done o : retarget (shp ps pos) done (sho ps o) = option_map (sho ps) (retarget pos done o).
Proof. unfold shp, sho. destruct (ps_fn ps); [destruct (retarget pos done o); reflexivity | apply retarget_shift]. Qed.

Lemma find_loop_shq ps : forall l k0, find_loop (map (shq ps) l) k0 = find_loop l k0.
Proof. unfold shq. destruct (ps_fn ps); [intros; rewrite map_id; reflexivity | apply find_loop_shf]. Qed.

Lemma find_loop_S ps top bot k0 : find_loop (map (shq ps) top ++ map (shf d) bot) k0 = find_loop (top ++ bot) k0.
Proof. rewrite !find_loop_app, find_loop_shq, find_loop_shf, map_length. reflexivity. Qed.

Hypothesis NI : last_is_include P = None.

Lemma last_is_include_sho ps o :
  last_is_include (sho ps o) = option_map (fun fi => (sho ps (fst fi), snd fi)) (last_is_include o).
Proof.
  unfold sho. destruct (ps_fn ps); [destruct (last_is_include o) as [[? ?]|]; reflexivity | apply last_is_include_shift; exact NI].
Qed.

Lemma emit_shift ps l : Split ps -> emit (S ps) l = S (emit ps l).
Proof.
  intros (top & bot & Hfr & Hlen). rewrite !put_emit, S_cur, (S_frames ps top bot Hfr Hlen), Hfr, (S_put ps top bot) by assumption.
  rewrite sho_app. reflexivity.
Qed.

Theorem kstep_shift ps lineno line k : Split ps ->
  kstep (S ps) lineno line k = omap S (kstep ps lineno line k).
Proof.
  intros SP. pose proof SP as (top & bot & Hfr & Hlen).
  pose proof (S_frames ps top bot Hfr Hlen) as SF. pose proof (S_cur ps) as SC.
  pose proof (S_put ps top bot) as PUT. specialize (fun o' top' n' => PUT o' top' n' Hfr Hlen).
  assert (Hlen' : length (map (shf d) bot) = depth_floor (S ps)) by (rewrite map_length; exact Hlen).
  pose proof (visible_top (S ps) _ _ SF Hlen') as VT'. pose proof (visible_top ps _ _ Hfr Hlen) as VT.
  pose proof (leb_top (S ps) _ _ SF Hlen') as LT'. pose proof (leb_top ps _ _ Hfr Hlen) as LT.
  destruct k as [nm e|nm args asy la| |e|re| | |e| |vn ixn e| | | |name|name cnd|e|url sys|e]; cbn [kstep].
  - (* assignment *) cbn [omap]. rewrite emit_shift by exact SP. reflexivity.
  - (* function begin *)
    change (ps_fn (S ps)) with (ps_fn ps). destruct (ps_fn ps) eqn:Efn; [reflexivity|].
    destruct args as [a| | |]; try reflexivity. cbn [omap]. f_equal.
    destruct ps as [g fn fd fr ix]. cbn in Efn. subst fn. unfold shift_ps. cbn.
    rewrite map_length, Nat.sub_diag. reflexivity.
  - (* function end *)
    change (ps_fn (S ps)) with (ps_fn ps). destruct (ps_fn ps) as [fo|] eqn:Efn; [|reflexivity].
    change (ps_fn_depth (S ps)) with (ps_fn_depth ps). rewrite S_len.
    unfold depth_floor in Hlen. rewrite Efn in Hlen.
    destruct (Nat.ltb_spec (ps_fn_depth ps) (length (ps_frames ps))) as [Hlt|Hge].
    + rewrite SF, Hfr. rewrite Hfr, app_length in Hlt. destruct top as [|f top]; [cbn in Hlt; lia|].
      cbn [map app omap]. rewrite shq_key, shq_line, shq_lineno. reflexivity.
    + rewrite Hfr, app_length in Hge. destruct top; [|cbn in Hge; lia]. cbn [omap]. f_equal.
      rewrite SF. clear SF SC PUT VT VT' LT LT' SP Hlen' Hge Hlen.
      destruct ps as [g fn fd fr ix]. cbn in Efn, Hfr. subst fn fr. unfold shift_ps. cbn.
      rewrite app_assoc. reflexivity.
  - (* if *)
    cbn [omap]. f_equal. rewrite !put_emit, !put_set_frames, !put_bump, SC, SF, Hfr.
    change (?f :: top ++ bot) with ((f :: top) ++ bot). rewrite PUT. cbn [map]. rewrite shq_if, shp_len, sho_app. reflexivity.
  - (* elif *)
    rewrite VT', VT.
    destruct top as [|[pos p dn [|] ln lno| |] top]; cbn [map]; rewrite ?shq_if; rewrite ?shq_loop by reflexivity; try reflexivity.
    destruct re as [e| | |]; try reflexivity. cbn [omap]. f_equal.
    rewrite !put_emit, !put_set_frames, !put_bump, SC.
    change (?f :: top ++ bot) with ((f :: top) ++ bot). rewrite PUT. cbn [map]. rewrite shq_if, shp_len2, sho_app. reflexivity.
  - (* else *)
    rewrite VT', VT.
    destruct top as [|[pos p dn [|] ln lno| |] top]; cbn [map]; rewrite ?shq_if; rewrite ?shq_loop by reflexivity; try reflexivity.
    cbn [omap]. f_equal. rewrite !put_emit, !put_set_frames, SC.
    change (?f :: top ++ bot) with ((f :: top) ++ bot). rewrite PUT. cbn [map]. rewrite shq_if, sho_app. reflexivity.
  - (* endif *)
    rewrite VT', VT.
    destruct top as [|[pos p dn [|] ln lno| |] top]; cbn [map]; rewrite ?shq_if; rewrite ?shq_loop by reflexivity; try reflexivity.
    + cbn [omap]. f_equal. rewrite !put_set_stmts, !put_set_frames, SC, PUT, sho_app. reflexivity.
    + rewrite SC, retarget_sho. destruct (retarget pos dn (cur_stmts ps)) as [o'|]; cbn [option_map omap]; [|reflexivity].
      f_equal. rewrite !put_set_stmts, !put_set_frames, PUT, sho_app. reflexivity.
  - (* while *)
    cbn [omap]. f_equal. rewrite !put_emit, !put_set_frames, !put_bump, SC, SF, Hfr.
    change (?f :: top ++ bot) with ((f :: top) ++ bot). rewrite PUT. cbn [map]. rewrite shq_loop by reflexivity. rewrite sho_app. reflexivity.
  - (* endwhile *)
    rewrite LT', LT, SF, Hfr.
    destruct top as [|[|l c dn e hc ln lno|] top]; cbn [map app]; rewrite ?shq_if; rewrite ?shq_loop by reflexivity; try reflexivity.
    cbn [omap]. f_equal. rewrite !put_emit, !put_set_frames, SC, PUT, sho_app. reflexivity.
  - (* for *)
    cbn [omap]. f_equal. rewrite !put_emit, !put_set_frames, !put_bump, SC, SF, Hfr.
    change (?f :: top ++ bot) with ((f :: top) ++ bot). rewrite PUT. cbn [map]. rewrite shq_loop by reflexivity. rewrite sho_app. reflexivity.
  - (* endfor *)
    rewrite LT', LT, SF, Hfr.
    destruct top as [|[| |l c dn ix vs len v hc ln lno] top]; cbn [map app]; rewrite ?shq_if; rewrite ?shq_loop by reflexivity; try reflexivity.
    cbn [omap]. f_equal. rewrite !put_emit, !put_set_frames, SC, PUT, sho_app. reflexivity.
  - (* break *)
    rewrite SF, find_loop_S, <- Hfr, <- SF, S_len, S_floor.
    destruct (find_loop (ps_frames ps) 0) as [[k f]|]; [|reflexivity].
    destruct (Nat.ltb (length (ps_frames ps) - 1 - k) (depth_floor ps)); [reflexivity|].
    cbn [omap]. rewrite emit_shift by exact SP. reflexivity.
  - (* continue *)
    rewrite SF, find_loop_S, <- Hfr, <- SF, S_len, S_floor.
    destruct (find_loop (ps_frames ps) 0) as [[k f]|] eqn:E; [|reflexivity].
    destruct (Nat.ltb_spec (length (ps_frames ps) - 1 - k) (depth_floor ps)) as [Hlt|Hge]; [reflexivity|].
    cbn [omap]. f_equal.
    rewrite Hfr, find_loop_app in E. rewrite Hfr, app_length, <- Hlen in Hge.
    destruct (find_loop top 0) as [[k1 f1]|] eqn:E1.
    + injection E as <- <-. destruct (find_loop_split _ _ _ _ E1) as (pre & post & -> & Hif & ->).
      rewrite !put_emit_set_frames, SC, SF, Hfr. cbn [plus]. rewrite map_app. cbn [map]. rewrite <- !app_assoc. cbn [app].
      rewrite (shq_loop ps f1 Hif).
      rewrite <- (map_length (shq ps) pre) at 1. rewrite !set_nth_frame_split.
      change (pre ++ ?g :: post ++ bot) with (pre ++ (g :: post) ++ bot). rewrite (app_assoc pre).
      rewrite PUT, map_app. cbn [map]. rewrite shq_loop by (apply mark_continue_loop; exact Hif).
      rewrite <- app_assoc, sho_app. reflexivity.
    + destruct (find_loop_split _ _ _ _ E) as (pre & post & Hb & _ & Hk1). rewrite Hb, app_length in Hge. cbn in Hge, Hk1. lia.
  - (* label *) cbn [omap]. rewrite emit_shift by exact SP. reflexivity.
  - (* jump *) cbn [omap]. rewrite emit_shift by exact SP. reflexivity.
  - (* return *) cbn [omap]. rewrite emit_shift by exact SP. reflexivity.
  - (* include *)
    rewrite SC, last_is_include_sho.
    destruct (last_is_include (cur_stmts ps)) as [[front incs]|]; cbn [option_map fst snd omap].
    + f_equal. rewrite !put_set_stmts, SF, Hfr, PUT, sho_app. reflexivity.
    + rewrite emit_shift by exact SP. reflexivity.
  - (* expression *) cbn [omap]. rewrite emit_shift by exact SP. reflexivity.
Qed.

End Shift.

(* ================= the fold and the end-of-input checks ================= *)
Lemma JInv_Split ps : JInv ps -> Split ps.
Proof. intros (top & bot & A & B & _). exists top, bot. auto. Qed.

Theorem pstep_shift P ps n line : last_is_include P = None -> JInv ps ->
  pstep (shift_ps P ps) n line = omap (shift_ps P) (pstep ps n line).
Proof.
  intros NI J. rewrite !pstep_classify. destruct (Lower.classify n line); cbn [sbind omap]; try reflexivity.
  apply kstep_shift; [exact NI | apply JInv_Split; exact J].
Qed.

Lemma pfold_shift_ps P lls : last_is_include P = None -> forall ps start, JInv ps ->
  pfold lls (shift_ps P ps) start = omap (shift_ps P) (pfold lls ps start).
Proof.
  intros NI. induction lls as [|[i line] t IH]; intros ps start J; cbn [pfold]; [reflexivity|].
  rewrite pstep_shift by assumption. destruct (pstep ps (start + i) line) eqn:E; cbn [omap]; try reflexivity.
  apply IH. eapply pstep_jinv; eauto.
Qed.

Definition ftriple (f : frame) := (frame_key f, frame_line f, frame_lineno f).
Lemma map_ftriple_shift dd t l : map ftriple (firstn t l ++ map (shf dd) (skipn t l)) = map ftriple l.
Proof.
  rewrite map_app, map_map.
  rewrite (map_ext (fun x => ftriple (shf dd x)) ftriple) by (intros f; unfold ftriple; rewrite shf_key, shf_line, shf_lineno; reflexivity).
  rewrite <- map_app, firstn_skipn. reflexivity.
Qed.

Lemma pfinish_shift_ps P ls ps start : pfinish ls (shift_ps P ps) start = omap (app P) (pfinish ls ps start).
Proof.
  unfold pfinish. destruct (l_cont ls); [|reflexivity].
  assert (M : map ftriple (ps_frames (shift_ps P ps)) = map ftriple (ps_frames ps)) by apply map_ftriple_shift.
  change (ps_fn (shift_ps P ps)) with (ps_fn ps). change (ps_global (shift_ps P ps)) with (P ++ ps_global ps).
  destruct (ps_frames (shift_ps P ps)) as [|f' r'], (ps_frames ps) as [|f r]; try discriminate M.
  - destruct (ps_fn ps); reflexivity.
  - cbn [map] in M. unfold ftriple in M. injection M as K L N _. rewrite K, L, N. reflexivity.
Qed.

(* ================= the line front end with a prefix ================= *)
(* parse_lines from an arbitrary parser state (parse_lines = pl ps_init by Proofs/C06.v parse_lines_view) *)
Definition plx (ps0 : pstate) (lt : list (nat * str) * ltail) (start : nat) : sres script :=
  match pfold (fst lt) ps0 start with
  | ROk ps' =>
    match snd lt with
    | LDone ls' => pfinish ls' ps' start
    | LFail (RErr e) => RErr e
    | LFail (RHost w) => RHost w
    | LFail _ => RFuel
    end
  | RErr e => RErr e | RHost w => RHost w | RFuel => RFuel
  end.
Definition pl (ps0 : pstate) (lines : list str) (start : nat) : sres script := plx ps0 (llines lines 0 ls_init) start.

Lemma parse_lines_pl lines start : parse_lines lines start = pl ps_init lines start.
Proof. rewrite parse_lines_view. unfold pl, plx. destruct (llines lines 0 ls_init) as [lls t]. reflexivity. Qed.

Lemma plx_shift ps0 lines start : plx ps0 (llines lines 1 ls_init) start = plx ps0 (llines lines 0 ls_init) (S start).
Proof.
  assert (S0 : shifted ls_init ls_init) by (split; [reflexivity | intros N; exfalso; apply N; reflexivity]).
  destruct (llines_shift lines 0 ls_init ls_init S0) as [L1 L2]. unfold plx.
  destruct (llines lines 1 ls_init) as [y ty]; destruct (llines lines 0 ls_init) as [x tx]. cbn [fst snd] in *.
  subst y. rewrite pfold_shift. destruct (pfold x ps0 (S start)); try reflexivity.
  destruct tx as [ta|r]; destruct ty as [tb|r']; try contradiction.
  - apply pfinish_shift. exact L2.
  - subst r'. reflexivity.
Qed.

Lemma pl_comment ps0 c lines start : is_comment c = ROk true -> pl ps0 (c :: lines) start = pl ps0 lines (S start).
Proof.
  intros C. unfold pl.
  assert (E : llines (c :: lines) 0 ls_init = llines lines 1 ls_init) by (cbn [llines]; unfold lstep; rewrite C; reflexivity).
  rewrite E. apply plx_shift.
Qed.

Lemma str_eqb_refl s : str_eqb s s = true.
Proof. destruct (str_eqb_spec s s); congruence. Qed.

Lemma pl_line ps0 ps1 p lines start : is_comment p = ROk false -> strip_continuation p = ROk p ->
  pstep ps0 start p = ROk ps1 -> pl ps0 (p :: lines) start = pl ps1 lines (S start).
Proof.
  intros C N St. unfold pl. rewrite <- plx_shift.
  assert (E : llines (p :: lines) 0 ls_init = ((0, p) :: fst (llines lines 1 ls_init), snd (llines lines 1 ls_init))).
  { cbn [llines]. unfold lstep. rewrite C, N, str_eqb_refl. cbn.
    change {| l_cont := []; l_ix := 0 |} with ls_init. destruct (llines lines 1 ls_init); reflexivity. }
  rewrite E. unfold plx. cbn [fst snd pfold]. rewrite Nat.add_0_r, St. reflexivity.
Qed.

(* ================= simple statement lines ================= *)
Definition simple_kind (k : ScriptX.lkind) : option stmt :=
  match k with
  | ScriptX.KAssign name (EOk e) _ => Some (SExpr (Some name) e)
  | ScriptX.KExpr (EOk e) => Some (SExpr None e)
  | ScriptX.KLabel name => Some (SLabel name)
  | ScriptX.KJump name None _ => Some (SJump name None)
  | ScriptX.KJump name (Some (EOk e)) _ => Some (SJump name (Some e))
  | ScriptX.KReturn None _ => Some (SReturn None)
  | ScriptX.KReturn (Some (EOk e)) _ => Some (SReturn (Some e))
  | _ => None
  end.

(* a physical line that is one complete simple statement: not a comment, no continuation backslash, classified (by the
   regenerated statement regexes, Model/ScriptX.v classify = the cascade of Script.pstep) as an assignment / expression
   statement / label / jump / jumpif / return whose expression parses *)
Definition simple_line (p : str) (s : stmt) : Prop :=
  is_comment p = ROk false /\ strip_continuation p = ROk p /\
  exists k, ScriptX.classify p = ROk k /\ simple_kind k = Some s.

Lemma simple_line_step p s ps n : simple_line p s -> pstep ps n p = ROk (emit ps [s]).
Proof.
  intros (_ & _ & k & C & K). rewrite pstep_is_classify_apply. unfold pstep2. rewrite C.
  destruct k as [nm [e| | |] off| | |? ?|? ?| | |? ?| |? ? ? ?| | | |nm|nm [[e| | |]|] off|[[e| | |]|] off|? ?|[e| | |]];
    cbn [simple_kind] in K; try discriminate; injection K as <-; reflexivity.
Qed.

Lemma simple_line_not_include p s : simple_line p s -> forall i, s <> SInclude i.
Proof.
  intros (_ & _ & k & _ & K) i ->.
  destruct k as [nm [e| | |] off| | |? ?|? ?| | |? ?| |? ? ? ?| | | |nm|nm [[e| | |]|] off|[[e| | |]|] off|? ?|[e| | |]];
    cbn [simple_kind] in K; discriminate.
Qed.

(* the prefix: comment / blank lines and simple statement lines in any order; P = the statements of the simple ones *)
Inductive prefix_stmts : list str -> list stmt -> Prop :=
| PS_nil : prefix_stmts [] []
| PS_comment c pre P : is_comment c = ROk true -> prefix_stmts pre P -> prefix_stmts (c :: pre) P
| PS_simple p s pre P : simple_line p s -> prefix_stmts pre P -> prefix_stmts (p :: pre) (s :: P).

Lemma prefix_no_include pre P : prefix_stmts pre P -> Forall (fun s => forall i, s <> SInclude i) P.
Proof. induction 1; [constructor | assumption | constructor; [eapply simple_line_not_include; eassumption | assumption]]. Qed.

Lemma no_include_last P : Forall (fun s => forall i, s <> SInclude i) P -> last_is_include P = None.
Proof.
  intros F. unfold last_is_include. destruct (rev P) as [|x t] eqn:E; [reflexivity|].
  assert (I : In x P) by (apply in_rev; rewrite E; left; reflexivity).
  rewrite Forall_forall in F. specialize (F x I). destruct x; try reflexivity. exfalso. eapply F. reflexivity.
Qed.

Definition add_global (ps : pstate) (P : list stmt) : pstate :=
  {| ps_global := ps_global ps ++ P; ps_fn := ps_fn ps; ps_fn_depth := ps_fn_depth ps; ps_frames := ps_frames ps; ps_index := ps_index ps |}.

Lemma pl_prefix pre P : prefix_stmts pre P -> forall ps0 lines start, ps_fn ps0 = None ->
  pl ps0 (pre ++ lines) start = pl (add_global ps0 P) lines (length pre + start).
Proof.
  induction 1 as [|c pre P C _ IH|p s pre P SL _ IH]; intros ps0 lines start F; cbn [app length].
  - unfold add_global. rewrite app_nil_r. destruct ps0; reflexivity.
  - rewrite pl_comment by exact C. rewrite IH by exact F. f_equal. lia.
  - destruct SL as (C & N & K). rewrite (pl_line ps0 (emit ps0 [s])); [| exact C | exact N | apply simple_line_step; repeat split; assumption].
    rewrite IH by (destruct ps0 as [g fn fd fr ix]; cbn in F; subst fn; reflexivity).
    f_equal; [|lia]. destruct ps0 as [g fn fd fr ix]; cbn in F; subst fn. unfold add_global, emit. cbn. rewrite <- app_assoc. reflexivity.
Qed.

Lemma pl_shift_ps P lines start : last_is_include P = None ->
  pl (shift_ps P ps_init) lines start = omap (app P) (pl ps_init lines start).
Proof.
  intros NI. unfold pl, plx. rewrite (pfold_shift_ps P _ NI ps_init start JInv_init).
  destruct (pfold (fst (llines lines 0 ls_init)) ps_init start); cbn [omap]; try reflexivity.
  destruct (snd (llines lines 0 ls_init)) as [ls'|[| | |]]; try reflexivity. apply pfinish_shift_ps.
Qed.

(* THE SHIFT THEOREM: comment / blank / simple statement lines in front *)
Theorem parse_lines_prefix_shift pre P lines start : prefix_stmts pre P ->
  parse_lines (pre ++ lines) start = map_sres (fun n => length pre + n) (fun s => P ++ s) (parse_lines lines start).
Proof.
  intros PS. rewrite parse_lines_pl, (pl_prefix pre P PS) by reflexivity.
  assert (E : add_global ps_init P = shift_ps P ps_init) by (unfold add_global, shift_ps; cbn; rewrite app_nil_r; reflexivity).
  rewrite E, pl_shift_ps by (apply no_include_last; eapply prefix_no_include; exact PS).
  rewrite <- parse_lines_pl, parse_lines_start_shift.
  destruct (parse_lines lines start); reflexivity.
Qed.

(* spelled out *)
Corollary parse_lines_prefix_ok pre P lines start s : prefix_stmts pre P ->
  parse_lines lines start = ROk s -> parse_lines (pre ++ lines) start = ROk (P ++ s).
Proof. intros PS H. rewrite (parse_lines_prefix_shift pre P) by exact PS. rewrite H. reflexivity. Qed.

Corollary parse_lines_prefix_err pre P lines start e : prefix_stmts pre P ->
  parse_lines lines start = RErr e ->
  parse_lines (pre ++ lines) start =
  RErr {| e_msg := e_msg e; e_line := e_line e; e_col := e_col e; e_lineno := option_map (fun n => length pre + n) (e_lineno e) |}.
Proof. intros PS H. rewrite (parse_lines_prefix_shift pre P) by exact PS. rewrite H. reflexivity. Qed.

Corollary parse_lines_prefix_iff pre P lines start : prefix_stmts pre P ->
  ((exists e, parse_lines (pre ++ lines) start = RErr e) <-> (exists e, parse_lines lines start = RErr e)).
Proof.
  intros PS. rewrite (parse_lines_prefix_shift pre P) by exact PS.
  destruct (parse_lines lines start); cbn; split; intros [e' H]; try discriminate; eauto.
Qed.

(* ================= parse_script: the prefix as leading chunks ================= *)
From BS Require Import Proofs.C10 Proofs.TotalFuel.

Theorem parse_script_prefix_shift c1 c2 pre P start : split_chunks c1 = ROk pre -> prefix_stmts pre P ->
  parse_script (c1 ++ c2) start = map_sres (fun n => length pre + n) (fun s => P ++ s) (parse_script c2 start).
Proof.
  intros S1 PS. rewrite !parse_script_lines. destruct (split_chunks_ok c2) as [lines S2].
  rewrite (split_chunks_app c1 c2 pre lines S1 S2), S2. apply parse_lines_prefix_shift. exact PS.
Qed.
