(* Proofs/C06ShiftCont.v — the shift theorem of Proofs/C06Shift.v for a prefix given as LOGICAL lines: the prefix statements
   may themselves be spread over several physical lines by continuation backslashes (and interleaved with comment / blank
   lines, also inside a continued statement).  gprefix pre P: the line front end turns the physical lines `pre` into complete
   logical lines (no continuation pending at the end of pre), and each logical line TEXT is a simple statement (classified by
   the regenerated regexes as assignment / expression statement / label / jump / jumpif / return, expression parses);
   P = their statements.  Every reported line number moves by |pre| = the number of PHYSICAL lines. *)
From Coq Require Import Lia.
From BS Require Import Model.Base Model.Regex Model.Num Model.ExprParser Model.Script Model.ScriptX Model.Lower
  Gen.Unicode Gen.Regexes Proofs.ScriptFacts Proofs.C06 Proofs.C07eq Proofs.C07 Proofs.Total Proofs.C06Shift Proofs.C10 Proofs.TotalFuel.

Definition simple_text (line : str) (s : stmt) : Prop := exists k, ScriptX.classify line = ROk k /\ simple_kind k = Some s.

Definition gprefix (pre : list str) (P : list stmt) : Prop :=
  exists lls ls', llines pre 0 ls_init = (lls, LDone ls') /\ l_cont ls' = [] /\
                  Forall2 (fun il s => simple_text (snd il) s) lls P.

(* ---- front end: append, and shift by k physical lines ---- *)
Lemma llines_app a : forall b ix ls,
  llines (a ++ b) ix ls =
  match llines a ix ls with
  | (la, LDone ls') => let '(lb, tb) := llines b (ix + length a) ls' in (la ++ lb, tb)
  | (la, LFail r) => (la, LFail r)
  end.
Proof.
  induction a as [|part a IH]; intros b ix ls; cbn [app llines length].
  - rewrite Nat.add_0_r. destruct (llines b ix ls); reflexivity.
  - destruct (lstep ls ix part) as [ls1|ls1 i line|r].
    + rewrite IH. rewrite <- Nat.add_succ_comm. reflexivity.
    + rewrite IH. rewrite <- Nat.add_succ_comm. destruct (llines a (S ix) ls1) as [la [ls'|r]]; [|reflexivity].
      destruct (llines b (S ix + length a) ls'). reflexivity.
    + reflexivity.
Qed.

Definition Rk (k : nat) (ls ls' : lstate) : Prop := l_cont ls' = l_cont ls /\ (l_cont ls <> [] -> l_ix ls' = k + l_ix ls).

Lemma lstep_shiftk k ls ls' ix part : Rk k ls ls' ->
  match lstep ls ix part, lstep ls' (k + ix) part with
  | LSkip a, LSkip b => Rk k a b
  | LLine a i l, LLine b j l' => Rk k a b /\ j = k + i /\ l' = l
  | LBad r, LBad r' => r = r'
  | _, _ => False
  end.
Proof.
  intros [S1 S2]. unfold lstep. rewrite S1.
  destruct (is_comment part) as [[|]| | |]; try reflexivity; [split; assumption|].
  destruct (strip_continuation part) as [s| | |]; try reflexivity.
  destruct (negb (str_eqb part s)).
  - destruct (l_cont ls) eqn:C; cbn.
    + split; cbn; [reflexivity | intros _; reflexivity].
    + split; cbn; [reflexivity | intros _; apply S2; discriminate].
  - destruct (l_cont ls) eqn:C; cbn.
    + repeat split; cbn; congruence.
    + repeat split; cbn; try congruence. apply S2. discriminate.
Qed.

Definition shk (k : nat) (lls : list (nat * str)) : list (nat * str) := map (fun il => (k + fst il, snd il)) lls.

Lemma llines_shiftk k lines : forall ix ls ls', Rk k ls ls' ->
  fst (llines lines (k + ix) ls') = shk k (fst (llines lines ix ls)) /\
  match snd (llines lines ix ls), snd (llines lines (k + ix) ls') with
  | LDone a, LDone b => Rk k a b
  | LFail r, LFail r' => r = r'
  | _, _ => False
  end.
Proof.
  induction lines as [|part rest IH]; intros ix ls ls' Sh; cbn [llines].
  - cbn. split; [reflexivity | exact Sh].
  - pose proof (lstep_shiftk k ls ls' ix part Sh) as L.
    destruct (lstep ls ix part) as [a|a i l|r]; destruct (lstep ls' (k + ix) part) as [b|b j l'|r']; try contradiction.
    + rewrite <- Nat.add_succ_r. apply IH. exact L.
    + destruct L as (L1 & -> & ->). specialize (IH (S ix) a b L1). rewrite Nat.add_succ_r in IH.
      destruct (llines rest (S ix) a) as [x tx]; destruct (llines rest (S (k + ix)) b) as [y ty]. cbn [fst snd] in *.
      destruct IH as [I1 I2]. split; [rewrite I1; reflexivity | exact I2].
    + cbn. split; [reflexivity | exact L].
Qed.

Lemma pfold_app a : forall b ps start,
  pfold (a ++ b) ps start = match pfold a ps start with ROk ps' => pfold b ps' start | RErr e => RErr e | RHost w => RHost w | RFuel => RFuel end.
Proof.
  induction a as [|[i line] a IH]; intros b ps start; cbn [app pfold]; [reflexivity|].
  destruct (pstep ps (start + i) line); try reflexivity. apply IH.
Qed.

Lemma pfold_shk k lls : forall ps start, pfold (shk k lls) ps start = pfold lls ps (k + start).
Proof.
  induction lls as [|[i line] t IH]; intros ps start; [reflexivity|].
  cbn [shk map pfold fst snd]. replace (start + (k + i)) with (k + start + i) by lia.
  destruct (pstep ps (k + start + i) line); try reflexivity. apply IH.
Qed.

Lemma pfinish_shiftk k ls ls' ps start : Rk k ls ls' -> pfinish ls' ps start = pfinish ls ps (k + start).
Proof.
  intros [S1 S2]. unfold pfinish. rewrite S1. destruct (l_cont ls) eqn:C; [reflexivity|].
  rewrite S2 by discriminate. f_equal. f_equal. lia.
Qed.

Lemma simple_text_step line s ps n : simple_text line s -> pstep ps n line = ROk (emit ps [s]).
Proof.
  intros (k & C & K). rewrite pstep_is_classify_apply. unfold pstep2. rewrite C.
  destruct k as [nm [e| | |] off| | |? ?|? ?| | |? ?| |? ? ? ?| | | |nm|nm [[e| | |]|] off|[[e| | |]|] off|? ?|[e| | |]];
    cbn [simple_kind] in K; try discriminate; injection K as <-; reflexivity.
Qed.

Lemma simple_text_not_include line s : simple_text line s -> forall i, s <> SInclude i.
Proof.
  intros (k & _ & K) i ->.
  destruct k as [nm [e| | |] off| | |? ?|? ?| | |? ?| |? ? ? ?| | | |nm|nm [[e| | |]|] off|[[e| | |]|] off|? ?|[e| | |]];
    cbn [simple_kind] in K; discriminate.
Qed.

Lemma pfold_simple lls P : Forall2 (fun il s => simple_text (snd il) s) lls P -> forall ps0 start, ps_fn ps0 = None ->
  pfold lls ps0 start = ROk (add_global ps0 P).
Proof.
  induction 1 as [|[i line] s lls P ST _ IH]; intros ps0 start F; cbn [pfold].
  - unfold add_global. rewrite app_nil_r. destruct ps0; reflexivity.
  - cbn [snd] in ST. rewrite (simple_text_step line s ps0 (start + i) ST).
    rewrite IH by (destruct ps0 as [g fn fd fr ix]; cbn in F; subst fn; reflexivity).
    destruct ps0 as [g fn fd fr ix]; cbn in F; subst fn. unfold add_global, emit. cbn. rewrite <- app_assoc. reflexivity.
Qed.

Lemma gprefix_no_include pre P : gprefix pre P -> last_is_include P = None.
Proof.
  intros (lls & ls' & _ & _ & F). apply no_include_last.
  induction F; constructor; [eapply simple_text_not_include; eassumption | assumption].
Qed.

Lemma pl_gprefix pre P lines start ps0 : gprefix pre P -> ps_fn ps0 = None ->
  pl ps0 (pre ++ lines) start = pl (add_global ps0 P) lines (length pre + start).
Proof.
  intros (lls & ls' & L & C & F) Fn. unfold pl. rewrite llines_app, L. cbn [Nat.add].
  assert (R0 : Rk (length pre) ls_init ls') by (split; [exact C | intros N; exfalso; apply N; reflexivity]).
  destruct (llines_shiftk (length pre) lines 0 ls_init ls' R0) as [L1 L2]. rewrite Nat.add_0_r in L1, L2.
  destruct (llines lines (length pre) ls') as [y ty]; destruct (llines lines 0 ls_init) as [x tx]. cbn [fst snd] in *.
  subst y. unfold plx. cbn [fst snd]. rewrite pfold_app, (pfold_simple lls P F ps0 start Fn), pfold_shk.
  destruct (pfold x (add_global ps0 P) (length pre + start)); try reflexivity.
  destruct tx as [ta|r]; destruct ty as [tb|r']; try contradiction.
  - apply pfinish_shiftk. exact L2.
  - subst r'. reflexivity.
Qed.

(* THE SHIFT THEOREM, logical-line form *)
Theorem parse_lines_gprefix_shift pre P lines start : gprefix pre P ->
  parse_lines (pre ++ lines) start = map_sres (fun n => length pre + n) (fun s => P ++ s) (parse_lines lines start).
Proof.
  intros PS. rewrite parse_lines_pl, (pl_gprefix pre P lines start ps_init PS) by reflexivity.
  assert (E : add_global ps_init P = shift_ps P ps_init) by (unfold add_global, shift_ps; cbn; rewrite app_nil_r; reflexivity).
  rewrite E, pl_shift_ps by (eapply gprefix_no_include; exact PS).
  rewrite <- parse_lines_pl, parse_lines_start_shift.
  destruct (parse_lines lines start); reflexivity.
Qed.

Theorem parse_script_gprefix_shift c1 c2 pre P start : split_chunks c1 = ROk pre -> gprefix pre P ->
  parse_script (c1 ++ c2) start = map_sres (fun n => length pre + n) (fun s => P ++ s) (parse_script c2 start).
Proof.
  intros S1 PS. rewrite !parse_script_lines. destruct (split_chunks_ok c2) as [lines S2].
  rewrite (split_chunks_app c1 c2 pre lines S1 S2), S2. apply parse_lines_gprefix_shift. exact PS.
Qed.

(* the physical-line prefixes of Proofs/C06Shift.v are a special case *)
Lemma prefix_stmts_gprefix pre P : prefix_stmts pre P -> gprefix pre P.
Proof.
  unfold gprefix. intros PS.
  assert (H : forall ix ls, l_cont ls = [] -> exists lls ls', llines pre ix ls = (lls, LDone ls') /\ l_cont ls' = [] /\
                Forall2 (fun il s => simple_text (snd il) s) lls P).
  { induction PS as [|c pre P C _ IH|p s pre P SL _ IH]; intros ix ls Cn; cbn [llines].
    - exists [], ls. repeat split; [exact Cn | constructor].
    - unfold lstep. rewrite C. apply IH. exact Cn.
    - destruct SL as (C & N & K). unfold lstep. rewrite C, N, str_eqb_refl, Cn. cbn.
      destruct (IH (S ix) {| l_cont := []; l_ix := ix |} eq_refl) as (lls & ls' & L & C' & F).
      rewrite L. exists ((ix, p) :: lls), ls'. repeat split; [exact C' | constructor; [exact K | exact F]]. }
  apply H. reflexivity.
Qed.
