(* Proofs/Fuel.v — fuel monotonicity of the interpreter model: a run that does not run out of fuel gives the same
   result with any larger fuel.  (Fuel is the model's stand-in for "the Python call terminates"; this lemma is what lets
   results obtained with different fuels be combined.) *)
From Coq Require Import Lia.
From BS Require Import Model.Base Model.Num Model.Arith Model.ExprParser Model.Script Model.Interp Proofs.InterpEq.

Section Fuel.
Variable cfg : config.
Variable lib : caller -> str -> list value -> world -> lres * world.
Variable url_rel : str -> str -> str.
Variable lint_lines : script -> list str.

(* the run with less fuel either did exactly the same, or ran out of fuel *)
Definition F2 (r1 r2 : outcome * world) : Prop := r1 = r2 \/ fst r1 = OFuel.
Definition F3 (r1 r2 : xres) : Prop := r1 = r2 \/ fst (fst r1) = OFuel.
Definition FL (r1 r2 : lres * world) : Prop := r1 = r2 \/ fst r1 = LFuel.
Definition FA (r1 r2 : (outcome + list value) * world) : Prop := r1 = r2 \/ fst r1 = inl OFuel.
Definition FI (r1 r2 : option outcome * world) : Prop := r1 = r2 \/ fst r1 = Some OFuel.

Definition evF (a b : evalT) : Prop := forall e loc bi um w, F2 (a e loc bi um w) (b e loc bi um w).
Definition clF (a b : callT) : Prop := forall fv x um w, F2 (a fv x um w) (b fv x um w).
Definition exF (a b : execT) : Prop := forall code pc cache loc um w, F3 (a code pc cache loc um w) (b code pc cache loc um w).

(* PREMISE on the library: handed a callback that terminates more often, it behaves the same unless it had reported fuel exhaustion *)
Definition lib_fuel_monotone : Prop :=
  forall (cb1 cb2 : caller), (forall fv a w, F2 (cb1 fv a w) (cb2 fv a w)) ->
  forall name args w, FL (lib cb1 name args w) (lib cb2 name args w).
Hypothesis Hlib : lib_fuel_monotone.

Ltac out_of_fuel H := let o := fresh "o" in let w := fresh "wa" in
  match type of H with fst ?t = _ => destruct t as [o w] end; cbn [fst] in H; subst o; right; reflexivity.

Lemma eval_args_F ev1 ev2 loc bi um : evF ev1 ev2 ->
  forall l w acc, FA (eval_args ev1 loc bi um l w acc) (eval_args ev2 loc bi um l w acc).
Proof.
  intros Hev. induction l as [|a t IH]; intros w acc; cbn [eval_args]; [left; reflexivity|].
  destruct (Hev a loc bi um w) as [Heq|Hf].
  - rewrite Heq. destruct (ev2 a loc bi um w) as [o w1]. destruct o; try (left; reflexivity). apply IH.
  - out_of_fuel Hf.
Qed.

Lemma eval_body_F ev1 ev2 cl1 cl2 : evF ev1 ev2 -> clF cl1 cl2 -> evF (eval_body cfg ev1 cl1) (eval_body cfg ev2 cl2).
Proof.
  intros Hev Hcl e loc bi um w. destruct e as [n|s|x|name args|op l r|op e1|e1]; cbn [eval_body]; try (left; reflexivity).
  - destruct (op_is name "if").
    + cbv zeta. destruct (nth_error args 0) as [ve|].
      * destruct (Hev ve loc bi um w) as [Heq|Hf]; [|out_of_fuel Hf].
        rewrite Heq. destruct (ev2 ve loc bi um w) as [o w1]. destruct o; try (left; reflexivity).
        destruct (if truthy w1 v then nth_error args 1 else nth_error args 2) as [re|]; [apply Hev|left; reflexivity].
      * destruct (if truthy w (VBool false) then nth_error args 1 else nth_error args 2) as [re|]; [apply Hev|left; reflexivity].
    + destruct (eval_args_F ev1 ev2 loc bi um Hev args w []) as [Heq|Hf].
      * rewrite Heq. destruct (eval_args ev2 loc bi um args w []) as [[o|vs] w1]; [left; reflexivity|].
        destruct (lookup_fn name loc bi w1) as [fv|]; [|left; reflexivity].
        destruct fv; try (left; reflexivity);
          (match goal with |- context [cl1 ?f vs um w1] => destruct (Hcl f vs um w1) as [Heq2|Hf2] end;
           [rewrite Heq2; left; reflexivity|out_of_fuel Hf2]).
      * match type of Hf with fst ?t = _ => destruct t as [[o|vs] wa] end; cbn [fst] in Hf; [|discriminate].
        injection Hf as ->. right; reflexivity.
  - destruct (Hev l loc bi um w) as [Heq|Hf]; [|out_of_fuel Hf].
    rewrite Heq. destruct (ev2 l loc bi um w) as [o w1]. destruct o; try (left; reflexivity).
    destruct (op_is op "&&"). { destruct (truthy w1 v); [apply Hev|left; reflexivity]. }
    destruct (op_is op "||"). { destruct (truthy w1 v); [left; reflexivity|apply Hev]. }
    destruct (Hev r loc bi um w1) as [Heq2|Hf2]; [rewrite Heq2; left; reflexivity|out_of_fuel Hf2].
  - destruct (Hev e1 loc bi um w) as [Heq|Hf]; [rewrite Heq; left; reflexivity|out_of_fuel Hf].
  - apply Hev.
Qed.

Lemma call_body_F cl1 cl2 ex1 ex2 : clF cl1 cl2 -> exF ex1 ex2 -> clF (call_body lib cl1 ex1) (call_body lib cl2 ex2).
Proof.
  intros Hcl Hex fv a um w. unfold call_body. destruct fv as [ |b|n|s|us|l|l|f|id]; try (left; reflexivity).
  destruct f as [name|id].
  - destruct (Hlib (fun fv' args' w' => cl1 fv' args' um w') (fun fv' args' w' => cl2 fv' args' um w')
                   (fun fv' a' w' => Hcl fv' a' um w') name a w) as [Heq|Hf].
    + rewrite Heq. left; reflexivity.
    + match type of Hf with fst ?t = _ => destruct t as [r wa] end. cbn [fst] in Hf. subst r. right; reflexivity.
  - destruct (nth_error (w_funs w) id) as [fd|]; [|left; reflexivity].
    destruct (match fd_args fd with Some names => bind_args names (length names) 0 (fd_last fd) a w [] | None => ([], w) end) as [locals w1].
    destruct (Hex (fd_body fd) 0%nat [] (Some locals) um w1) as [Heq|Hf].
    + rewrite Heq. left; reflexivity.
    + destruct (ex1 (fd_body fd) 0%nat [] (Some locals) um w1) as [[o1 l1] w1']. cbn [fst] in Hf. subst o1. right; reflexivity.
Qed.

Lemma run_incs_F ex1 ex2 um : exF ex1 ex2 ->
  forall l w, FI (run_incs cfg url_rel lint_lines ex1 um l w) (run_incs cfg url_rel lint_lines ex2 um l w).
Proof.
  intros Hex. induction l as [|[u sys] t IH]; intros w; cbn [run_incs]; [left; reflexivity|].
  set (url := match sys, c_sysprefix cfg with true, Some p => url_rel p u | _, _ => if has_urlfn cfg um then apply_urlfn cfg url_rel um u else u end).
  destruct (c_fetch cfg) as [fetch|]; [|left; reflexivity].
  destruct (fetch url) as [txt|]; [|left; reflexivity].
  destruct (parse_script [txt] 1) as [sc|pe|what|]; try (left; reflexivity).
  set (w2 := if (c_debug cfg && c_haslog cfg)%bool then _ else _).
  destruct (Hex sc 0%nat [] None (UBase url) w2) as [Heq|Hf].
  - rewrite Heq. destruct (ex2 sc 0%nat [] None (UBase url) w2) as [[o l2] w3]. destruct o; try (left; reflexivity). apply IH.
  - destruct (ex1 sc 0%nat [] None (UBase url) w2) as [[o1 l1] w1']. cbn [fst] in Hf. subst o1. right; reflexivity.
Qed.

Lemma exec_body_F ev1 ev2 ex1 ex2 : evF ev1 ev2 -> exF ex1 ex2 ->
  exF (exec_body cfg url_rel lint_lines ev1 ex1) (exec_body cfg url_rel lint_lines ev2 ex2).
Proof.
  intros Hev Hex code pc cache loc um w. unfold exec_body.
  destruct (nth_error code pc) as [st|]; [|left; reflexivity]. cbv zeta.
  set (w0 := upd_count w (w_count w + 1)).
  destruct ((0 <? c_max cfg)%Z && (c_max cfg <? w_count w0)%Z)%bool; [left; reflexivity|].
  destruct st as [name e|label cond|re|lname|fname fargs fasync flast fbody|incs].
  - destruct (Hev e loc false um w0) as [Heq|Hf].
    + rewrite Heq. destruct (ev2 e loc false um w0) as [o w1]. destruct o; try (left; reflexivity).
      destruct name as [x|]; [destruct loc as [l|]|]; apply Hex.
    + destruct (ev1 e loc false um w0) as [o1 w1']. cbn [fst] in Hf. subst o1. right; reflexivity.
  - assert (Hj : forall w1, F3
      (match assoc label cache with
       | Some ix => ex1 code (S ix) cache loc um w1
       | None => match find_label label code with
                 | Some ix => ex1 code (S ix) ((label, ix) :: cache) loc um w1
                 | None => (ORt (msg_unknown_label label), loc, w1) end end)
      (match assoc label cache with
       | Some ix => ex2 code (S ix) cache loc um w1
       | None => match find_label label code with
                 | Some ix => ex2 code (S ix) ((label, ix) :: cache) loc um w1
                 | None => (ORt (msg_unknown_label label), loc, w1) end end)).
    { intros w1. destruct (assoc label cache); [apply Hex|]. destruct (find_label label code); [apply Hex|left; reflexivity]. }
    destruct cond as [c|]; [|apply Hj].
    destruct (Hev c loc false um w0) as [Heq|Hf].
    + rewrite Heq. destruct (ev2 c loc false um w0) as [o w1]. destruct o; try (left; reflexivity).
      destruct (truthy w1 v); [apply Hj|apply Hex].
    + destruct (ev1 c loc false um w0) as [o1 w1']. cbn [fst] in Hf. subst o1. right; reflexivity.
  - destruct re as [e|]; [|left; reflexivity].
    destruct (Hev e loc false um w0) as [Heq|Hf].
    + rewrite Heq. left; reflexivity.
    + destruct (ev1 e loc false um w0) as [o1 w1']. cbn [fst] in Hf. subst o1. right; reflexivity.
  - apply Hex.
  - apply Hex.
  - destruct (run_incs_F ex1 ex2 um Hex incs w0) as [Heq|Hf].
    + rewrite Heq. destruct (run_incs cfg url_rel lint_lines ex2 um incs w0) as [[o|] w1]; [left; reflexivity|apply Hex].
    + destruct (run_incs cfg url_rel lint_lines ex1 um incs w0) as [[o1|] w1']; cbn [fst] in Hf; [|discriminate].
      injection Hf as ->. right; reflexivity.
Qed.

Notation eval := (eval cfg lib url_rel lint_lines).
Notation call := (call cfg lib url_rel lint_lines).
Notation exec := (exec cfg lib url_rel lint_lines).

Lemma fuel_step : forall f, evF (eval f) (eval (S f)) /\ clF (call f) (call (S f)) /\ exF (exec f) (exec (S f)).
Proof.
  induction f as [|f (He & Hc & Hx)].
  - repeat split; intro; intros; right; reflexivity.
  - split; [|split].
    + intros e loc bi um w. rewrite (eval_S _ _ _ _ (S f)), (eval_S _ _ _ _ f). apply eval_body_F; assumption.
    + intros fv a um w. rewrite (call_S _ _ _ _ (S f)), (call_S _ _ _ _ f). apply call_body_F; assumption.
    + intros code pc cache loc um w. rewrite (exec_S _ _ _ _ (S f)), (exec_S _ _ _ _ f). apply exec_body_F; assumption.
Qed.

Theorem eval_fuel_mono : forall k f e loc bi um w o w',
  eval f e loc bi um w = (o, w') -> o <> OFuel -> eval (k + f) e loc bi um w = (o, w').
Proof.
  induction k as [|k IH]; intros f e loc bi um w o w' H Hn; [exact H|].
  cbn [Nat.add]. destruct (fuel_step (k + f)) as (He & _ & _).
  specialize (IH f e loc bi um w o w' H Hn). destruct (He e loc bi um w) as [Heq|Hf].
  - rewrite <- Heq. exact IH.
  - rewrite IH in Hf. cbn in Hf. contradiction.
Qed.

Theorem exec_fuel_mono : forall k f code pc cache loc um w r,
  exec f code pc cache loc um w = r -> fst (fst r) <> OFuel -> exec (k + f) code pc cache loc um w = r.
Proof.
  induction k as [|k IH]; intros f code pc cache loc um w r H Hn; [exact H|].
  cbn [Nat.add]. destruct (fuel_step (k + f)) as (_ & _ & Hx).
  specialize (IH f code pc cache loc um w r H Hn). destruct (Hx code pc cache loc um w) as [Heq|Hf].
  - rewrite <- Heq. exact IH.
  - rewrite IH in Hf. contradiction.
Qed.

Corollary eval_fuel_le : forall f f' e loc bi um w o w',
  f <= f' -> eval f e loc bi um w = (o, w') -> o <> OFuel -> eval f' e loc bi um w = (o, w').
Proof. intros f f' e loc bi um w o w' Hle H Hn. replace f' with ((f' - f) + f) by lia. apply eval_fuel_mono; assumption. Qed.

Corollary exec_fuel_le : forall f f' code pc cache loc um w r,
  f <= f' -> exec f code pc cache loc um w = r -> fst (fst r) <> OFuel -> exec f' code pc cache loc um w = r.
Proof. intros f f' code pc cache loc um w r Hle H Hn. replace f' with ((f' - f) + f) by lia. apply exec_fuel_mono; assumption. Qed.

End Fuel.

(* the premise holds for the modelled library functions (they never call back) *)
From BS Require Import Model.LibCore.
Lemma libcore_fuel_monotone cfg : lib_fuel_monotone (libcore cfg).
Proof. intros cb1 cb2 _ name args w. left. reflexivity. Qed.
