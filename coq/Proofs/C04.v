(* Proofs/C04.v — scoping, calling convention and host globals: parameter binding, lookup order, assignment
   target, library injection. *)
From Coq Require Import Lia ZArith.
From BS Require Import Model.Base Model.Num Model.Arith Model.ExprParser Model.Script Model.Interp Gen.Library Proofs.InterpEq Proofs.C08.

(* ---- association lists (Python dicts) ---- *)
Lemma str_eqb_sym a b : str_eqb a b = str_eqb b a.
Proof.
  revert b. induction a as [|x a IH]; intros [|y b]; cbn; try reflexivity. rewrite N.eqb_sym, IH. reflexivity.
Qed.

Lemma str_eqb_neq a b : str_eqb a b = false -> a <> b.
Proof. intros H E. subst. rewrite str_eqb_refl in H. discriminate. Qed.

Lemma env_get_set_same {A} k (v : A) e : env_get k (env_set k v e) = Some v.
Proof.
  unfold env_get. induction e as [|[k' v'] t IH]; cbn.
  - rewrite str_eqb_refl. reflexivity.
  - destruct (str_eqb k k') eqn:E; cbn; rewrite ?str_eqb_refl, ?E; [reflexivity|exact IH].
Qed.

Lemma env_get_set_other {A} k k' (v : A) e : str_eqb k' k = false -> env_get k' (env_set k v e) = env_get k' e.
Proof.
  unfold env_get. intros Hne. induction e as [|[k2 v2] t IH]; cbn.
  - rewrite Hne. reflexivity.
  - destruct (str_eqb k k2) eqn:E; cbn.
    + apply str_eqb_eq in E. subst k2. rewrite Hne. reflexivity.
    + destruct (str_eqb k' k2); [reflexivity|exact IH].
Qed.

(* ---- parameter binding ---- *)
(* what parameter number i receives: its positional argument, null when the argument is missing, and for the trailing
   "..." parameter a FRESH array holding the remaining arguments (empty when there are none) *)
Inductive bound := BVal (v : value) | BRest (vs : list value).

Definition expected_binding (n_names : nat) (last : bool) (args : list value) (i : nat) : bound :=
  if (last && Nat.eqb i (n_names - 1))%bool then BRest (skipn i args)
  else BVal (nth i args VNull).

Definition binding_is (w : world) (v : value) (b : bound) : Prop :=
  match b with
  | BVal x => v = x
  | BRest vs => exists l, v = VArr l /\ nth_error (w_arrs w) l = Some vs
  end.

Lemma skipn_all2 {A} (l : list A) n : (length l <= n)%nat -> skipn n l = [].
Proof. revert l. induction n; intros [|x l] H; cbn in *; try reflexivity; try lia. apply IHn. lia. Qed.

(* the heap only grows during binding: an array allocated for "..." is still there at the end *)
Lemma bind_args_heap_ext : forall names n ix last args w acc l vs,
  nth_error (w_arrs w) l = Some vs ->
  nth_error (w_arrs (snd (bind_args names n ix last args w acc))) l = Some vs.
Proof.
  induction names as [|nm rest IH]; intros n ix last args w acc l vs H; cbn [bind_args]; [exact H|].
  destruct (Nat.ltb ix (length args)); destruct (last && Nat.eqb ix (n - 1))%bool; cbn [alloc_arr];
    apply IH; cbn [w_arrs upd_arrs]; try exact H;
    (rewrite nth_error_app1; [exact H|apply nth_error_Some; congruence]).
Qed.

(* parameters with pairwise different names: each is bound as expected_binding says *)
Theorem bind_args_spec : forall names n ix last args w acc i p,
  NoDup names ->
  nth_error names i = Some p ->
  let r := bind_args names n ix last args w acc in
  exists v, env_get p (fst r) = Some v /\ binding_is (snd r) v (expected_binding n last args (ix + i)).
Proof.
  induction names as [|nm rest IH]; intros n ix last args w acc i p Hnd Hi; [destruct i; discriminate|].
  inversion Hnd as [|? ? Hnotin Hnd']; subst.
  cbn zeta. cbn [bind_args].
  destruct i as [|i].
  - (* this parameter: later parameters have other names, so the binding survives *)
    cbn in Hi. injection Hi as ->. replace (ix + 0)%nat with ix by lia.
    assert (Hkeep : forall w' acc' v, env_get p acc' = Some v ->
              env_get p (fst (bind_args rest n (S ix) last args w' acc')) = Some v).
    { clear - Hnotin. revert Hnotin. generalize (S ix). induction rest as [|q rest IHr]; intros k Hnotin w' acc' v Hg; cbn [bind_args]; [exact Hg|].
      assert (Hq : str_eqb p q = false).
      { destruct (str_eqb p q) eqn:E; [|reflexivity]. apply str_eqb_eq in E. subst. exfalso. apply Hnotin. left. reflexivity. }
      assert (Hn' : ~ In p rest) by (intros Hin; apply Hnotin; right; exact Hin).
      destruct (Nat.ltb k (length args)); destruct (last && Nat.eqb k (n - 1))%bool; cbn [alloc_arr];
        apply IHr; try exact Hn'; rewrite env_get_set_other by exact Hq; exact Hg. }
    unfold expected_binding.
    destruct (Nat.ltb ix (length args)) eqn:Hlt; destruct (last && Nat.eqb ix (n - 1))%bool eqn:Hlast; cbn [alloc_arr].
    + eexists. split; [apply Hkeep; apply env_get_set_same|]. cbn [binding_is].
      eexists. split; [reflexivity|]. apply bind_args_heap_ext. cbn [w_arrs upd_arrs].
      rewrite nth_error_app2 by lia. rewrite PeanoNat.Nat.sub_diag. reflexivity.
    + eexists. split; [apply Hkeep; apply env_get_set_same|]. reflexivity.
    + eexists. split; [apply Hkeep; apply env_get_set_same|]. cbn [binding_is].
      eexists. split; [reflexivity|]. apply bind_args_heap_ext. cbn [w_arrs upd_arrs].
      rewrite nth_error_app2 by lia. rewrite PeanoNat.Nat.sub_diag.
      apply PeanoNat.Nat.ltb_ge in Hlt. rewrite skipn_all2 by exact Hlt. reflexivity.
    + eexists. split; [apply Hkeep; apply env_get_set_same|]. cbn [binding_is].
      apply PeanoNat.Nat.ltb_ge in Hlt. rewrite nth_overflow by exact Hlt. reflexivity.
  - (* a later parameter *)
    cbn in Hi. replace (ix + S i)%nat with (S ix + i)%nat by lia.
    destruct (Nat.ltb ix (length args)); destruct (last && Nat.eqb ix (n - 1))%bool; cbn [alloc_arr];
      apply (IH n (S ix) last args _ _ i p Hnd' Hi).
Qed.

(* surplus arguments are ignored: they change nothing about what the parameters receive *)
Corollary surplus_arguments_ignored : forall (names : list str) last args extra i,
  (i < length names)%nat -> (length names <= length args)%nat -> last = false ->
  expected_binding (length names) last (args ++ extra) i = expected_binding (length names) last args i.
Proof.
  intros names last args extra i Hi Hle ->. unfold expected_binding. cbn [andb].
  rewrite app_nth1 by lia. reflexivity.
Qed.

(* ---- lookup order ---- *)
Lemma lookup_var_local_first x l w v :
  op_is x "null" = false -> op_is x "false" = false -> op_is x "true" = false ->
  env_get x l = Some v -> lookup_var x (Some l) w = v.
Proof. intros H1 H2 H3 H. unfold lookup_var. rewrite H1, H2, H3, H. reflexivity. Qed.

Lemma lookup_var_global_otherwise x loc w :
  op_is x "null" = false -> op_is x "false" = false -> op_is x "true" = false ->
  (match loc with Some l => env_get x l | None => None end) = None ->
  lookup_var x loc w = match env_get x (w_globals w) with Some v => v | None => VNull end.
Proof. intros H1 H2 H3 H. unfold lookup_var. rewrite H1, H2, H3. destruct loc as [l|]; [rewrite H|]; reflexivity. Qed.

Lemma lookup_fn_local_first name l bi w v : env_get name l = Some v -> lookup_fn name (Some l) bi w = Some v.
Proof. intros H. unfold lookup_fn. rewrite H. reflexivity. Qed.

Lemma lookup_fn_no_builtins_in_script_mode name loc w :
  (match loc with Some l => env_get name l | None => None end) = None ->
  env_get name (w_globals w) = None -> lookup_fn name loc false w = None.
Proof. intros Hl Hg. unfold lookup_fn. destruct loc as [l|]; [rewrite Hl|]; rewrite Hg; reflexivity. Qed.

(* ---- assignment target ---- *)
Section Assign.
Variable cfg : config.
Variable lib : caller -> str -> list value -> world -> lres * world.
Variable url_rel : str -> str -> str.
Variable lint_lines : script -> list str.
Notation eval := (eval cfg lib url_rel lint_lines).
Notation exec := (exec cfg lib url_rel lint_lines).

(* inside a function call (locals present) an assignment writes the call's locals and does not touch the globals *)
Lemma assign_in_function_is_local f code pc cache l um w x e v w1 :
  nth_error code pc = Some (SExpr (Some x) e) ->
  ((0 <? c_max cfg)%Z && (c_max cfg <? w_count w + 1)%Z)%bool = false ->
  eval f e (Some l) false um (upd_count w (w_count w + 1)) = (OVal v, w1) ->
  exec (S f) code pc cache (Some l) um w = exec f code (S pc) cache (Some (env_set x v l)) um w1.
Proof.
  intros Hn Hb He. rewrite exec_S. unfold exec_body. rewrite Hn. cbv zeta. cbn [w_count upd_count]. rewrite Hb, He. reflexivity.
Qed.

(* at top level (no locals) it writes the caller-supplied globals object *)
Lemma assign_at_top_level_is_global f code pc cache um w x e v w1 :
  nth_error code pc = Some (SExpr (Some x) e) ->
  ((0 <? c_max cfg)%Z && (c_max cfg <? w_count w + 1)%Z)%bool = false ->
  eval f e None false um (upd_count w (w_count w + 1)) = (OVal v, w1) ->
  exec (S f) code pc cache None um w = exec f code (S pc) cache None um (upd_globals w1 (env_set x v (w_globals w1))).
Proof.
  intros Hn Hb He. rewrite exec_S. unfold exec_body. rewrite Hn. cbv zeta. cbn [w_count upd_count]. rewrite Hb, He. reflexivity.
Qed.

End Assign.

(* ---- library injection ---- *)
Lemma inject_step_preserves g name k v :
  env_get k g = Some v ->
  env_get k (if env_has name g then g else g ++ [(name, VFun (FLib name))]) = Some v.
Proof.
  intros H. destruct (env_has name g); [exact H|]. unfold env_get in *.
  induction g as [|[k' v'] t IH]; cbn in *; [discriminate|]. destruct (str_eqb k k'); [exact H|apply IH; exact H].
Qed.

Definition inject_names (names : list str) (g : env) : env :=
  fold_left (fun acc name => if env_has name acc then acc else acc ++ [(name, VFun (FLib name))]) names g.

Lemma inject_names_preserves : forall names g k v, env_get k g = Some v -> env_get k (inject_names names g) = Some v.
Proof.
  unfold inject_names. induction names as [|n rest IH]; intros g k v H; cbn [fold_left]; [exact H|].
  apply IH. apply inject_step_preserves. exact H.
Qed.

(* the library is added without overwriting any name the caller supplied *)
Lemma inject_library_is_inject_names g : inject_library g = inject_names gen_script_functions g.
Proof. unfold inject_library, inject_names. reflexivity. Qed.

Theorem inject_preserves_host : forall g k v, env_get k g = Some v -> env_get k (inject_library g) = Some v.
Proof. intros g k v H. rewrite inject_library_is_inject_names. apply inject_names_preserves. exact H. Qed.

Lemma env_get_app_none {A} k (g : list (str * A)) x : env_get k g = None -> env_get k (g ++ [x]) = (if str_eqb k (fst x) then Some (snd x) else None).
Proof.
  unfold env_get. induction g as [|[k' v'] t IH]; cbn; intros H.
  - destruct x as [kx vx]. reflexivity.
  - destruct (str_eqb k k'); [discriminate|]. apply IH. exact H.
Qed.

(* ... and every library name the caller did not supply is bound to the library function of that name *)
Lemma inject_names_adds : forall names g k, env_get k g = None -> str_mem k names = true ->
  env_get k (inject_names names g) = Some (VFun (FLib k)).
Proof.
  induction names as [|n rest IH]; intros g k Hg Hin; [discriminate|].
  unfold inject_names. cbn [fold_left]. fold (inject_names rest).
  cbn [str_mem] in Hin. destruct (str_eqb k n) eqn:E.
  - apply str_eqb_eq in E. subst n.
    assert (Hh : env_has k g = false) by (unfold env_has, env_get in *; rewrite Hg; reflexivity).
    rewrite Hh. apply inject_names_preserves. rewrite env_get_app_none by exact Hg. cbn. rewrite str_eqb_refl. reflexivity.
  - cbn [orb] in Hin. apply IH; [|exact Hin].
    destruct (env_has n g); [exact Hg|]. rewrite env_get_app_none by exact Hg. cbn. rewrite E. reflexivity.
Qed.

Theorem inject_adds_missing : forall g k, env_get k g = None -> str_mem k gen_script_functions = true ->
  env_get k (inject_library g) = Some (VFun (FLib k)).
Proof. intros g k H1 H2. rewrite inject_library_is_inject_names. apply inject_names_adds; assumption. Qed.
