(* Proofs/C10stmtGaps10.v — ONE relation between two layouts of the same statement for every statement kind with inner gaps:
   stmt_spaced4 k l1 l2  =  stmt_spaced3 (assignment, if, elif, while, return <expr>, jump, jumpif, label, for, for with index)
   plus
     function begin     [w0 async] w1 function w2 name w3 ( w4 [a1 (u , v a_i)*] [w5 ...] w6 ) w7 : w8
                        same name, same argument NAMES (fn_names: the runs u v of the two layouts are unrelated), async / `...`
                        present in both or in neither; each layout with its own runs (fb_layout / fb_ok);
     include 'body'     w1 include w2 'body' w4      same body, every quote of it escaped;
     include <url>      w1 include w2 <url> w4       same url without `>`;
     label named if / elif / while    w1 KW w2 : w3  both runs w2 with only LF behind their first character (C10labelKw.v).
   stmt_spaced4 k l1 l2 -> classify n l1 = ROk k /\ classify n l2 = ROk k;  the relation is symmetric. *)
From Coq Require Import Lia.
From BS Require Import Model.Base Model.Regex Model.Num Model.NumText Model.ExprParser Model.Script Model.Lower Gen.Unicode Gen.Regexes
  Proofs.RegexFacts Proofs.RegexComplete Proofs.RegexShift Proofs.RegexEval Proofs.C02rx Proofs.C10ws Proofs.C10wsExpr
  Proofs.C10wsFull Proofs.C10wsIndent Proofs.C10wsIndent2 Proofs.C10tokSpaced Proofs.RegexTrail Proofs.C10tokTrail Proofs.RegexTrail2
  Proofs.RegexTrail3 Proofs.C10stmtTrail Proofs.C10parseNoeq Proofs.C10classifyTrail Proofs.C10stmtGaps Proofs.C10stmtGaps2
  Proofs.C10stmtGaps3 Proofs.C10stmtGaps4 Proofs.C10stmtGaps5 Proofs.C10stmtGaps6 Proofs.C02str Proofs.C10stmtGaps7 Proofs.C10stmtGaps8
  Proofs.C10stmtGaps9 Proofs.C10labelKw.

(* one layout of a function begin line: its runs and its argument list with ITS separators *)
Record fb_layout := {
  fb_asy : option str;                      (* Some w0 : `w0 async` in front *)
  fb_w1 : str; fb_w2 : str; fb_w3 : str; fb_w4 : str;
  fb_args : option (str * list arg3);       (* a1 and (u, v, a_i) for every further argument *)
  fb_dots : option str;                     (* Some w5 : `w5 ...` behind the arguments *)
  fb_w6 : str; fb_w7 : str; fb_w8 : str }.

Definition fb_line (name : str) (L : fb_layout) : str :=
  astext (fb_asy L) ++ fb_w1 L ++ KW_FUNCTION ++ fb_w2 L ++ name ++ fb_w3 L ++ 40%N :: fb_w4 L
  ++ atext (fb_args L) ++ dtext (fb_dots L) ++ CL (fb_w6 L) (fb_w7 L) (fb_w8 L).

Definition fb_ok (L : fb_layout) : Prop :=
  awhite (fb_asy L) /\ white (fb_w1 L) /\ white (fb_w2 L) /\ fb_w2 L <> [] /\ white (fb_w3 L) /\ white (fb_w4 L) /\
  aok (fb_args L) /\ dwhite (fb_dots L) /\ white (fb_w6 L) /\ white (fb_w7 L) /\ white (fb_w8 L) /\
  hd_ok is_sp (atext (fb_args L) ++ dtext (fb_dots L) ++ CL (fb_w6 L) (fb_w7 L) (fb_w8 L)).

Lemma classify_fb_layout n name L : ident name = true -> fb_ok L ->
  classify n (fb_line name L) = ROk (KFnBegin name (ROk (fn_names (fb_args L))) (is_some (fb_asy L)) (is_some (fb_dots L))).
Proof.
  intros ID (AW & W1 & W2 & N2 & W3 & W4 & AO & DW & W6 & W7 & W8 & HD). unfold fb_line.
  apply classify_fn_begin_names; assumption.
Qed.

Inductive stmt_spaced4 : line_kind -> str -> str -> Prop :=
| ss4_base k l1 l2 : stmt_spaced3 k l1 l2 -> stmt_spaced4 k l1 l2
| ss4_fn_begin name L1 L2 :
    ident name = true -> fb_ok L1 -> fb_ok L2 ->
    fn_names (fb_args L1) = fn_names (fb_args L2) ->
    is_some (fb_asy L1) = is_some (fb_asy L2) -> is_some (fb_dots L1) = is_some (fb_dots L2) ->
    stmt_spaced4 (KFnBegin name (ROk (fn_names (fb_args L1))) (is_some (fb_asy L1)) (is_some (fb_dots L1)))
      (fb_line name L1) (fb_line name L2)
| ss4_include_quoted w1 w2 w4 v1 v2 v4 body :
    white w1 -> white w2 -> w2 <> [] -> white w4 -> white v1 -> white v2 -> v2 <> [] -> white v4 -> quotes_escaped body = true ->
    stmt_spaced4 (KInclude (unescape_direct 39 body) false)
      (w1 ++ KW_INCLUDE ++ w2 ++ 39%N :: body ++ 39%N :: w4) (v1 ++ KW_INCLUDE ++ v2 ++ 39%N :: body ++ 39%N :: v4)
| ss4_include_system w1 w2 w4 v1 v2 v4 url :
    white w1 -> white w2 -> w2 <> [] -> white w4 -> white v1 -> white v2 -> v2 <> [] -> white v4 -> (forall c, In c url -> c <> 62%N) ->
    stmt_spaced4 (KInclude url true)
      (w1 ++ KW_INCLUDE ++ w2 ++ 60%N :: url ++ 62%N :: w4) (v1 ++ KW_INCLUDE ++ v2 ++ 60%N :: url ++ 62%N :: v4)
| ss4_label_kw w1 w2 w3 v1 v2 v3 kw :
    In kw kw_names -> white w1 -> white w2 -> white w3 -> white v1 -> white v2 -> white v3 ->
    all_lf (tl w2) = true -> all_lf (tl v2) = true ->
    stmt_spaced4 (KLabel kw) (w1 ++ kw ++ w2 ++ 58%N :: w3) (v1 ++ kw ++ v2 ++ 58%N :: v3).

Theorem stmt_spaced4_classify n k l1 l2 : stmt_spaced4 k l1 l2 -> classify n l1 = ROk k /\ classify n l2 = ROk k.
Proof.
  intros S. destruct S as [k l1 l2 S3 | name L1 L2 ID OK1 OK2 EN EA ED | w1 w2 w4 v1 v2 v4 body W1 W2 N2 W4 V1 V2 M2 V4 Q
                          | w1 w2 w4 v1 v2 v4 url W1 W2 N2 W4 V1 V2 M2 V4 NU | w1 w2 w3 v1 v2 v3 kw IK W1 W2 W3 V1 V2 V3 LW LV].
  - exact (stmt_spaced3_classify n k l1 l2 S3).
  - split; [exact (classify_fb_layout n name L1 ID OK1)|]. rewrite EN, EA, ED. exact (classify_fb_layout n name L2 ID OK2).
  - split; [exact (classify_include_quoted_direct n w1 w2 body w4 W1 W2 N2 W4 Q) | exact (classify_include_quoted_direct n v1 v2 body v4 V1 V2 M2 V4 Q)].
  - split; [exact (classify_include_system_shape n w1 w2 url w4 W1 W2 N2 W4 NU) | exact (classify_include_system_shape n v1 v2 url v4 V1 V2 M2 V4 NU)].
  - split; [exact (classify_label_kw_label n kw w1 w2 w3 IK W1 W2 W3 LW) | exact (classify_label_kw_label n kw v1 v2 v3 IK V1 V2 V3 LV)].
Qed.

Lemma stmt_spaced4_sym k l1 l2 : stmt_spaced4 k l1 l2 -> stmt_spaced4 k l2 l1.
Proof.
  intros S. destruct S as [k l1 l2 S3 | name L1 L2 ID OK1 OK2 EN EA ED | w1 w2 w4 v1 v2 v4 body W1 W2 N2 W4 V1 V2 M2 V4 Q
                          | w1 w2 w4 v1 v2 v4 url W1 W2 N2 W4 V1 V2 M2 V4 NU | w1 w2 w3 v1 v2 v3 kw IK W1 W2 W3 V1 V2 V3 LW LV].
  - apply ss4_base. exact (stmt_spaced3_sym k l1 l2 S3).
  - rewrite EN, EA, ED. apply ss4_fn_begin; try assumption; symmetry; assumption.
  - apply ss4_include_quoted; assumption.
  - apply ss4_include_system; assumption.
  - apply ss4_label_kw; assumption.
Qed.

(* two related lines classify alike *)
Corollary stmt_spaced4_same n k l1 l2 : stmt_spaced4 k l1 l2 -> classify n l1 = classify n l2.
Proof. intros S. destruct (stmt_spaced4_classify n k l1 l2 S) as [A B]. rewrite A, B. reflexivity. Qed.

(* ---------- non-vacuity ---------- *)
Definition fb_tight : fb_layout :=
  {| fb_asy := Some []; fb_w1 := U " "; fb_w2 := U " "; fb_w3 := []; fb_w4 := [];
     fb_args := Some (U "a", [([], [], U "b1"); ([], [], U "c")]); fb_dots := Some []; fb_w6 := []; fb_w7 := []; fb_w8 := [] |}.
Definition fb_loose : fb_layout :=
  {| fb_asy := Some (U "  "); fb_w1 := U " \000009"; fb_w2 := U "  "; fb_w3 := U " "; fb_w4 := U " ";
     fb_args := Some (U "a", [(U " ", [], U "b1"); (U " \000009 ", U " ", U "c")]); fb_dots := Some (U "  ");
     fb_w6 := U " "; fb_w7 := U " "; fb_w8 := U "  " |}.

Lemma fb_examples_ok : fb_ok fb_tight /\ fb_ok fb_loose /\
  fb_line (U "f1") fb_tight = U "async function f1(a,b1,c...):" /\
  fb_line (U "f1") fb_loose = U "  async \000009function  f1 ( a ,b1 \000009 , c  ... ) :  ".
Proof.
  split; [|split; [|split; reflexivity]]; unfold fb_ok; cbn [fb_asy fb_w1 fb_w2 fb_w3 fb_w4 fb_args fb_dots fb_w6 fb_w7 fb_w8 fb_tight fb_loose];
    cbn [awhite aok mok aok1 dwhite]; repeat split; try (apply whiteb_white; reflexivity); try reflexivity; try discriminate.
Qed.

Lemma stmt_spaced4_examples :
  stmt_spaced4 (KFnBegin (U "f1") (ROk (Some [U "a"; U "b1"; U "c"])) true true)
    (U "async function f1(a,b1,c...):") (U "  async \000009function  f1 ( a ,b1 \000009 , c  ... ) :  ") /\
  stmt_spaced4 (KInclude (U "it's") false) (U "include 'it\00005c's'") (U "  include \000009 'it\00005c's'  ") /\
  stmt_spaced4 (KInclude (U "a b.bare") true) (U "include <a b.bare>") (U " include \000009 <a b.bare>  ") /\
  stmt_spaced4 (KLabel (U "while")) (U "while:") (U " while\000009: ") /\
  stmt_spaced4 (KLabel (U "top")) (U "top:") (U " top\000009 :  ").
Proof.
  pose proof (whiteb_white [] eq_refl) as W0. pose proof (whiteb_white (U " ") eq_refl) as W1.
  pose proof (whiteb_white (U "  ") eq_refl) as W2. pose proof (whiteb_white (U "\000009") eq_refl) as WT.
  pose proof (whiteb_white (U " \000009 ") eq_refl) as W1T1.
  destruct fb_examples_ok as (OKT & OKL & _ & _).
  split; [|split; [|split; [|split]]].
  - exact (ss4_fn_begin (U "f1") fb_tight fb_loose eq_refl OKT OKL eq_refl eq_refl eq_refl).
  - change (U "include 'it\00005c's'") with ([] ++ KW_INCLUDE ++ U " " ++ 39%N :: U "it\00005c's" ++ 39%N :: []).
    change (U "  include \000009 'it\00005c's'  ") with (U "  " ++ KW_INCLUDE ++ U " \000009 " ++ 39%N :: U "it\00005c's" ++ 39%N :: U "  ").
    change (U "it's") with (unescape_direct 39 (U "it\00005c's")).
    apply ss4_include_quoted; try assumption; try discriminate; reflexivity.
  - change (U "include <a b.bare>") with ([] ++ KW_INCLUDE ++ U " " ++ 60%N :: U "a b.bare" ++ 62%N :: []).
    change (U " include \000009 <a b.bare>  ") with (U " " ++ KW_INCLUDE ++ U " \000009 " ++ 60%N :: U "a b.bare" ++ 62%N :: U "  ").
    apply ss4_include_system; try assumption; try discriminate.
    intros c I. cbn [In U] in I. vm_compute in I. repeat (destruct I as [<-|I]; [discriminate|]). contradiction.
  - change (U "while:") with ([] ++ KW_WHILE ++ [] ++ 58%N :: []).
    change (U " while\000009: ") with (U " " ++ KW_WHILE ++ U "\000009" ++ 58%N :: U " ").
    apply ss4_label_kw; try assumption; try reflexivity. right. right. left. reflexivity.
  - apply ss4_base. destruct stmt_spaced3_examples as (e & _ & L & _). exact L.
Qed.
