(* Proofs/C13.v — numbers survive conversion to text and back.

   Layers:
   A. the model of float() (Model/Num.v py_float) factors through [py_dec] (what the text denotes) followed by the
      decimal->binary conversion; value_parse_number never returns nan/inf;
   B. digit strings: what [scan_digits] / [span_d] / [span_p] do on  digits ++ rest;
   C. the grammar of repr(float) texts ([ReprG]); the boolean recogniser [repr_ok] is sound for it;
   D. [cleanup] (the meaning of  \.0*$  under re.sub) on every text of the grammar;
   E. consequences: the cleaned text denotes the same number, is accepted by float(), is (for x >= 0) a whole
      numeric literal, has no '.' when the value is integral and positional;
   F. Section CPython: with the shortest-repr / correctly-rounded-strtod contract as HYPOTHESES, the round trip;
   G. integers: value_parse_integer (str z) = z. *)
From Coq Require Import Lia ZifyBool SpecFloat.
From BS Require Import Model.Base Model.Num Model.Regex Model.NumText Gen.Unicode Gen.Regexes Proofs.BaseFacts Proofs.NumSpace.
Local Open Scope Z_scope.

(* ================================================================== A. float() = conversion after py_dec *)
Lemma py_float_body_dec neg s :
  py_float_body neg s = option_map (fun p => to_flt dec_to_sf (neg, p)) (py_dec_body s).
Proof.
  unfold py_float_body, py_dec_body.
  destruct (str_eqb (map lower_ascii s) (U "inf") || str_eqb (map lower_ascii s) (U "infinity")); [reflexivity|].
  destruct (str_eqb (map lower_ascii s) (U "nan")); [reflexivity|].
  destruct (scan_digits s 0 0 false) as [[[ip ni] r1]|]; [|reflexivity].
  destruct (match r1 with 46%N :: t => match scan_digits t 0 0 false with Some x => x | None => (0, 0, r1) end | _ => (0, 0, r1) end)
    as [[fp nf] r2].
  destruct (ni + nf =? 0); [reflexivity|].
  destruct r2 as [|e t]; [reflexivity|].
  destruct (lower_ascii e =? 101)%N; [|reflexivity].
  destruct (match t with 45%N :: t' => (true, t') | 43%N :: t' => (false, t') | _ => (false, t) end) as [eneg t'].
  destruct (scan_digits t' 0 0 false) as [[[ev ne] [|x r]]|]; try reflexivity.
  destruct (ne =? 0); reflexivity.
Qed.

(* the three-way sign dispatch shared by float() and int() *)
Lemma sign_match {X} (A B : str -> X) (C : X) (s : str) :
  (match s with 45%N :: t => A t | 43%N :: t => B t | _ => C end) =
  match s with
  | [] => C
  | c :: t => if (c =? 45)%N then A t else if (c =? 43)%N then B t else C
  end.
Proof.
  destruct s as [|c t]; [reflexivity|].
  destruct c as [|p]; [reflexivity|].
  do 7 (try destruct p as [p|p|]); reflexivity.
Qed.

Theorem py_float_factors s : py_float s = float_with dec_to_sf s.
Proof.
  unfold py_float, float_with, py_dec. rewrite !sign_match.
  destruct (fstrip s) as [|c t].
  - cbv beta iota. rewrite py_float_body_dec. destruct (py_dec_body []); reflexivity.
  - cbv beta iota. destruct (c =? 45)%N; [|destruct (c =? 43)%N]; rewrite py_float_body_dec;
      match goal with |- context [py_dec_body ?x] => destruct (py_dec_body x) end; reflexivity.
Qed.

Theorem value_parse_number_factors s : value_parse_number s = parse_number_with dec_to_sf s.
Proof. unfold value_parse_number, parse_number_with. rewrite py_float_factors. reflexivity. Qed.

(* never nan / inf *)
Theorem parse_number_finite strtod s f : parse_number_with strtod s = Some f -> sf_is_finite f = true.
Proof.
  unfold parse_number_with. destruct (float_with strtod s) as [g|]; [|discriminate].
  destruct (sf_is_finite g) eqn:E; [|discriminate]. intros H; inversion H; subst; exact E.
Qed.
Theorem value_parse_number_finite s f : value_parse_number s = Some f -> sf_is_finite f = true.
Proof. rewrite value_parse_number_factors. apply parse_number_finite. Qed.

(* ================================================================== B. digit strings *)
Definition dv (c : N) : Z := Z.of_N c - 48.
Definition dacc (acc : Z) (ds : str) : Z := fold_left (fun a c => a * 10 + dv c) ds acc.
Definition dval (ds : str) : Z := dacc 0 ds.
Definition all_zero (ds : str) : bool := forallb (fun c => (c =? 48)%N) ds.
Definition len (s : str) : Z := Z.of_nat (length s).

Lemma is_d_range c : is_d c = true <-> (48 <= c <= 57)%N.
Proof. unfold is_d. lia. Qed.

Lemma digit_val_d c : is_d c = true -> digit_val c = Some (c - 48)%N.
Proof.
  intros H. apply is_d_range in H. unfold digit_val.
  replace (c <? 128)%N with true by lia. replace ((48 <=? c)%N && (c <=? 57)%N) with true by lia. reflexivity.
Qed.

Lemma all_d_cons c ds : all_d (c :: ds) = true <-> is_d c = true /\ all_d ds = true.
Proof. unfold all_d. cbn. rewrite andb_true_iff. reflexivity. Qed.
Lemma all_d_app a b : all_d (a ++ b) = true <-> all_d a = true /\ all_d b = true.
Proof. unfold all_d. rewrite forallb_app, andb_true_iff. reflexivity. Qed.

Lemma dacc_cons acc c ds : dacc acc (c :: ds) = dacc (acc * 10 + dv c) ds.
Proof. reflexivity. Qed.
Lemma dacc_split ds : forall acc, dacc acc ds = acc * 10 ^ len ds + dval ds.
Proof.
  unfold dval, len. induction ds as [|c ds IH]; intros acc.
  - cbn. lia.
  - rewrite !dacc_cons. rewrite IH. rewrite (IH (0 * 10 + dv c)).
    replace (Z.of_nat (length (c :: ds))) with (Z.of_nat (length ds) + 1) by (cbn [length]; lia).
    rewrite Z.pow_add_r by lia. lia.
Qed.
Lemma dval_bounds ds : all_d ds = true -> 0 <= dval ds < 10 ^ len ds.
Proof.
  unfold len. induction ds as [|c ds IH]; intros H.
  - cbn. lia.
  - apply all_d_cons in H. destruct H as [Hc Hd]. apply is_d_range in Hc. specialize (IH Hd).
    unfold dval in *. rewrite dacc_cons, dacc_split. fold (dval ds).
    replace (Z.of_nat (length (c :: ds))) with (Z.of_nat (length ds) + 1) by (cbn [length]; lia).
    rewrite Z.pow_add_r by lia. unfold dv, len, dval in *.
    assert (0 < 10 ^ Z.of_nat (length ds)) by (apply Z.pow_pos_nonneg; lia). nia.
Qed.
Lemma dval_all_zero ds : all_zero ds = true -> dval ds = 0.
Proof.
  unfold all_zero. induction ds as [|c ds IH]; intros H; [reflexivity|].
  cbn in H. apply andb_true_iff in H. destruct H as [Hc Hd]. unfold dval in *. rewrite dacc_cons.
  replace (0 * 10 + dv c) with 0 by (unfold dv; lia). auto.
Qed.
Lemma dval_zero_all_zero ds : all_d ds = true -> dval ds = 0 -> all_zero ds = true.
Proof.
  unfold all_zero. induction ds as [|c ds IH]; intros H E; [reflexivity|].
  apply all_d_cons in H. destruct H as [Hc Hd]. pose proof (dval_bounds ds Hd) as B. apply is_d_range in Hc.
  unfold dval in E. rewrite dacc_cons, dacc_split in E. fold (dval ds) in E.
  assert (P : 0 < 10 ^ len ds) by (apply Z.pow_pos_nonneg; unfold len; lia).
  assert (dv c = 0 /\ dval ds = 0) as [E1 E2] by (unfold dv in *; nia).
  cbn. rewrite IH by auto. unfold dv in E1. replace (c =? 48)%N with true by lia. reflexivity.
Qed.
Lemma all_zero_all_d ds : all_zero ds = true -> all_d ds = true.
Proof.
  unfold all_zero, all_d. intros H. rewrite forallb_forall in *. intros c Hc. specialize (H c Hc). apply is_d_range. lia.
Qed.

(* what follows a run of digits in the texts considered here: the end, '.', 'e' *)
Definition stop (rest : str) : bool := match rest with [] => true | c :: _ => (c =? 46)%N || (c =? 101)%N end.

Lemma scan_digits_app ds : forall acc n us rest, all_d ds = true -> stop rest = true ->
  scan_digits (ds ++ rest) acc n us = Some (dacc acc ds, n + len ds, rest).
Proof.
  unfold len. induction ds as [|c ds IH]; intros acc n us rest Hd Hs.
  - cbn [app length dacc fold_left]. replace (n + Z.of_nat 0) with n by lia.
    destruct rest as [|c t]; [reflexivity|]. cbn in Hs.
    assert (Hc : c = 46%N \/ c = 101%N) by lia. destruct Hc; subst; reflexivity.
  - apply all_d_cons in Hd. destruct Hd as [Hc Hd]. cbn [app scan_digits]. rewrite (digit_val_d c Hc).
    rewrite IH by auto. rewrite dacc_cons. apply is_d_range in Hc. unfold dv.
    replace (Z.of_N (c - 48)) with (Z.of_N c - 48) by lia.
    replace (n + 1 + Z.of_nat (length ds)) with (n + Z.of_nat (length (c :: ds))) by (cbn [length]; lia). reflexivity.
Qed.

Definition nd (b : str) : bool := match b with [] => true | c :: _ => negb (is_d c) end.
Lemma span_d_spec s : forall a b, span_d s = (a, b) -> s = a ++ b /\ all_d a = true /\ nd b = true.
Proof.
  induction s as [|c t IH]; intros a b H; cbn in H.
  - inversion H; subst. repeat split; reflexivity.
  - destruct (is_d c) eqn:E.
    + destruct (span_d t) as [a' b'] eqn:S. inversion H; subst. destruct (IH a' b eq_refl) as [E1 [E2 E3]].
      subst t. repeat split; auto. apply all_d_cons; auto.
    + inversion H; subst. repeat split; auto. cbn. rewrite E. reflexivity.
Qed.
Lemma span_d_app ds rest : all_d ds = true -> nd rest = true -> span_d (ds ++ rest) = (ds, rest).
Proof.
  induction ds as [|c ds IH]; intros Hd Hn.
  - cbn. destruct rest as [|c t]; [reflexivity|]. cbn in Hn. cbn. destruct (is_d c); [discriminate|reflexivity].
  - apply all_d_cons in Hd. destruct Hd as [Hc Hd]. cbn. rewrite Hc, IH by auto. reflexivity.
Qed.

(* ================================================================== C. the repr grammar *)
Definition sgn (neg : bool) : str := if neg then [45%N] else [].
Definition frac (F : str) : str := match F with [] => [] | _ => 46%N :: F end.
Definition is_sign (c : N) : bool := ((c =? 43) || (c =? 45))%N.

Inductive ReprG : str -> Prop :=
| RG_pos neg I F : I <> [] -> all_d I = true -> F <> [] -> all_d F = true -> ReprG (sgn neg ++ I ++ 46%N :: F)
| RG_exp neg d F es E : is_d d = true -> all_d F = true -> is_sign es = true -> all_d E = true -> (2 <= length E)%nat ->
    ReprG (sgn neg ++ d :: frac F ++ 101%N :: es :: E).

Lemma exp_ok_inv r : exp_ok r = true -> exists es E, r = es :: E /\ is_sign es = true /\ all_d E = true /\ (2 <= length E)%nat.
Proof.
  destruct r as [|es E]; [discriminate|]. cbn [exp_ok]. intros H. exists es, E.
  apply andb_true_iff in H. destruct H as [H H3]. apply andb_true_iff in H. destruct H as [H1 H2].
  split; [reflexivity|]. split; [exact H1|]. split; [exact H2|]. apply Nat.leb_le. exact H3.
Qed.

Lemma repr_body_ok_inv s : repr_body_ok s = true -> ReprG s /\ nd s = false.
Proof.
  unfold repr_body_ok. destruct (span_d s) as [ip r1] eqn:S1. apply span_d_spec in S1. destruct S1 as [E1 [D1 N1]].
  destruct ip as [|d ip']; [destruct r1; discriminate|].
  assert (NS : nd s = false).
  { subst s. apply all_d_cons in D1. destruct D1 as [Hd _]. cbn. rewrite Hd. reflexivity. }
  intros H. split; [|exact NS]. clear NS.
  destruct r1 as [|c r1'].
  - destruct ip'; discriminate.
  - assert (C : c = 46%N \/ (c = 101%N /\ ip' = [])).
    { destruct ip' as [|x y]; destruct c as [|p]; try discriminate; do 7 (try destruct p as [p|p|]); try discriminate; auto. }
    destruct C as [->|[-> ->]].
    + destruct (span_d r1') as [fp r2] eqn:S2. apply span_d_spec in S2. destruct S2 as [E2 [D2 N2]].
      assert (H' : match fp with
                   | [] => false
                   | _ :: _ => match r2 with
                               | [] => true
                               | 101%N :: r3 => (length (d :: ip') =? 1)%nat && exp_ok r3
                               | _ => false
                               end
                   end = true) by (destruct ip'; exact H).
      clear H; rename H' into H.
      destruct fp as [|f fp']; [discriminate|].
      destruct r2 as [|c2 r3].
      * subst. rewrite app_nil_r. apply (RG_pos false (d :: ip') (f :: fp')); auto; discriminate.
      * assert (C2 : c2 = 101%N) by (destruct c2 as [|p]; try discriminate; do 7 (try destruct p as [p|p|]); try discriminate; auto).
        subst c2. apply andb_true_iff in H. destruct H as [L X]. apply exp_ok_inv in X. destruct X as [es [E [-> [Hs [HE HL]]]]].
        destruct ip' as [|x y]; [|discriminate]. subst. apply all_d_cons in D1. destruct D1 as [Hd _].
        change ([d] ++ 46%N :: (f :: fp') ++ 101%N :: es :: E) with (sgn false ++ d :: frac (f :: fp') ++ 101%N :: es :: E).
        apply RG_exp; auto.
    + apply exp_ok_inv in H. destruct H as [es [E [-> [Hs [HE HL]]]]]. subst. apply all_d_cons in D1. destruct D1 as [Hd _].
      change ([d] ++ 101%N :: es :: E) with (sgn false ++ d :: frac [] ++ 101%N :: es :: E). apply RG_exp; auto.
Qed.

Lemma ReprG_neg s : ReprG s -> nd s = false -> ReprG (45%N :: s).
Proof.
  intros H N. inversion H as [neg I F HI DI HF DF E|neg d F es E Hd DF Hs DE HL Eq]; subst.
  - destruct neg; [cbn in N; discriminate|]. apply (RG_pos true I F); auto.
  - destruct neg; [cbn in N; discriminate|]. apply (RG_exp true d F es E); auto.
Qed.

Lemma neg_match {X} (A : str -> X) (C : X) (s : str) :
  (match s with 45%N :: t => A t | _ => C end) =
  match s with [] => C | c :: t => if (c =? 45)%N then A t else C end.
Proof.
  destruct s as [|c t]; [reflexivity|]. destruct c as [|p]; [reflexivity|].
  do 7 (try destruct p as [p|p|]); reflexivity.
Qed.

Theorem repr_ok_sound s : repr_ok s = true -> ReprG s.
Proof.
  unfold repr_ok. rewrite neg_match.
  destruct s as [|c t]; [intros H; apply repr_body_ok_inv in H; tauto|].
  destruct (c =? 45)%N eqn:E.
  - assert (c = 45%N) by lia. subst. intros H. apply repr_body_ok_inv in H. destruct H. apply ReprG_neg; auto.
  - intros H; apply repr_body_ok_inv in H; tauto.
Qed.

(* ================================================================== D. cleanup on the grammar *)
Definition no_dot (s : str) : bool := forallb (fun c => negb (c =? 46)%N) s.

Lemma no_dot_app a b : no_dot (a ++ b) = no_dot a && no_dot b.
Proof. apply forallb_app. Qed.
Lemma all_d_no_dot ds : all_d ds = true -> no_dot ds = true.
Proof.
  unfold all_d, no_dot. intros H. rewrite forallb_forall in *. intros c Hc. specialize (H c Hc). apply is_d_range in H. lia.
Qed.
Lemma sgn_no_dot neg : no_dot (sgn neg) = true.
Proof. destruct neg; reflexivity. Qed.

Lemma cleanup_no_dot s : no_dot s = true -> cleanup s = s.
Proof.
  induction s as [|c t IH]; intros H; [reflexivity|]. cbn in H. apply andb_true_iff in H. destruct H as [Hc Ht].
  cbn [cleanup]. destruct (c =? 46)%N; [discriminate|]. rewrite IH by auto. reflexivity.
Qed.
Lemma cleanup_app pre t : no_dot pre = true -> cleanup (pre ++ t) = pre ++ cleanup t.
Proof.
  induction pre as [|c p IH]; intros H; [reflexivity|]. cbn in H. apply andb_true_iff in H. destruct H as [Hc Hp].
  cbn [app cleanup]. destruct (c =? 46)%N; [discriminate|]. rewrite IH by auto. reflexivity.
Qed.

Lemma zeros_to_end_cons c t :
  zeros_to_end (c :: t) =
  if (c =? 48)%N then zeros_to_end t
  else if (c =? 10)%N then match t with [] => Some [10%N] | _ => None end
  else None.
Proof.
  destruct c as [|p]; [destruct t; reflexivity|].
  do 7 (try destruct p as [p|p|]); try reflexivity; destruct t; reflexivity.
Qed.

Lemma zeros_to_end_digits F : all_d F = true -> zeros_to_end F = if all_zero F then Some [] else None.
Proof.
  induction F as [|c F IH]; intros H; [reflexivity|]. apply all_d_cons in H. destruct H as [Hc HF].
  rewrite zeros_to_end_cons. unfold all_zero. cbn [forallb]. fold (all_zero F). apply is_d_range in Hc.
  destruct (c =? 48)%N eqn:E; cbn [andb]; [apply IH; auto|]. replace (c =? 10)%N with false by lia. reflexivity.
Qed.
Lemma zeros_to_end_exp F r : all_d F = true -> zeros_to_end (F ++ 101%N :: r) = None.
Proof.
  induction F as [|c F IH]; intros H.
  - cbn [app]. rewrite zeros_to_end_cons. reflexivity.
  - apply all_d_cons in H. destruct H as [Hc HF]. cbn [app]. rewrite zeros_to_end_cons. apply is_d_range in Hc.
    destruct (c =? 48)%N; [apply IH; auto|]. replace (c =? 10)%N with false by lia. reflexivity.
Qed.

Lemma cleanup_dot t : cleanup (46%N :: t) = match zeros_to_end t with Some tail => tail | None => 46%N :: cleanup t end.
Proof. reflexivity. Qed.

(* positional text: the fraction goes away exactly when it is all zeros; otherwise nothing changes *)
Lemma cleanup_pos neg I F : all_d I = true -> all_d F = true ->
  cleanup (sgn neg ++ I ++ 46%N :: F) = sgn neg ++ I ++ (if all_zero F then [] else 46%N :: F).
Proof.
  intros HI HF. rewrite cleanup_app by apply sgn_no_dot. rewrite cleanup_app by (apply all_d_no_dot; auto).
  f_equal. f_equal. rewrite cleanup_dot. rewrite zeros_to_end_digits by auto.
  destruct (all_zero F); [reflexivity|]. rewrite cleanup_no_dot by (apply all_d_no_dot; auto). reflexivity.
Qed.

(* exponent text: never changed *)
Lemma is_sign_no_dot es : is_sign es = true -> negb (es =? 46)%N = true.
Proof. unfold is_sign. lia. Qed.
Lemma cleanup_exp neg d F es E : is_d d = true -> all_d F = true -> is_sign es = true -> all_d E = true ->
  cleanup (sgn neg ++ d :: frac F ++ 101%N :: es :: E) = sgn neg ++ d :: frac F ++ 101%N :: es :: E.
Proof.
  intros Hd HF Hs HE. rewrite cleanup_app by apply sgn_no_dot. f_equal.
  assert (Nd : negb (d =? 46)%N = true) by (apply is_d_range in Hd; lia).
  assert (Tail : no_dot (101%N :: es :: E) = true).
  { cbn. rewrite (is_sign_no_dot es Hs). apply (all_d_no_dot E HE). }
  cbn [cleanup]. destruct (d =? 46)%N; [discriminate|]. f_equal.
  destruct F as [|f F'].
  - cbn [frac app]. apply cleanup_no_dot. exact Tail.
  - change (frac (f :: F') ++ 101%N :: es :: E) with (46%N :: (f :: F') ++ 101%N :: es :: E).
    rewrite cleanup_dot. rewrite zeros_to_end_exp by auto. f_equal. apply cleanup_no_dot.
    rewrite no_dot_app. rewrite (all_d_no_dot _ HF). exact Tail.
Qed.

(* every text of the grammar *)
Inductive Cleaned : str -> str -> Prop :=
| CL_int neg I F : I <> [] -> all_d I = true -> F <> [] -> all_zero F = true -> Cleaned (sgn neg ++ I ++ 46%N :: F) (sgn neg ++ I)
| CL_same s : ReprG s -> Cleaned s s.

Theorem cleanup_grammar s : ReprG s -> Cleaned s (cleanup s).
Proof.
  intros H. inversion H as [neg I F HI DI HF DF E|neg d F es E Hd DF Hs DE HL Eq]; subst.
  - rewrite cleanup_pos by auto. destruct (all_zero F) eqn:Z.
    + rewrite app_nil_r. apply CL_int; auto.
    + apply CL_same. exact H.
  - rewrite cleanup_exp by auto. apply CL_same. exact H.
Qed.

(* ================================================================== E. what the texts denote *)
(* -- strip is the identity on texts without white space *)
Definition no_space (s : str) : bool := forallb (fun c => negb (U_space c)) s.
Lemma no_space_app a b : no_space (a ++ b) = no_space a && no_space b.
Proof. apply forallb_app. Qed.
Lemma U_space_d c : is_d c = true -> U_space c = false.
Proof.
  intros H. apply is_d_range in H. unfold U_space. replace (c <? 128)%N with true by lia.
  replace ((9 <=? c)%N && (c <=? 13)%N || (28 <=? c)%N && (c <=? 32)%N) with false by lia. reflexivity.
Qed.
Lemma all_d_no_space ds : all_d ds = true -> no_space ds = true.
Proof.
  unfold all_d, no_space. intros H. rewrite forallb_forall in *. intros c Hc. rewrite U_space_d; auto.
Qed.
Lemma sgn_no_space neg : no_space (sgn neg) = true.
Proof. destruct neg; reflexivity. Qed.
Lemma is_sign_no_space es : is_sign es = true -> U_space es = false.
Proof. unfold is_sign. intros H. assert (es = 43%N \/ es = 45%N) as [->| ->] by lia; reflexivity. Qed.

Lemma lstrip_no_space s : no_space s = true -> lstrip s = s.
Proof. destruct s as [|c t]; [reflexivity|]. cbn. intros H. apply andb_true_iff in H. destruct H as [H _]. destruct (U_space c); [discriminate|reflexivity]. Qed.
Lemma no_space_rev s : no_space (rev s) = no_space s.
Proof.
  unfold no_space. apply eq_true_iff_eq. rewrite !forallb_forall. split; intros H c Hc; apply H.
  - apply (proj1 (in_rev s c)). exact Hc.
  - apply (proj2 (in_rev s c)). exact Hc.
Qed.
Lemma strip_no_space s : no_space s = true -> strip s = s.
Proof.
  intros H. unfold strip, rstrip. rewrite (lstrip_no_space s H). rewrite lstrip_no_space by (rewrite no_space_rev; exact H).
  apply rev_involutive.
Qed.

Lemma fstrip_no_space s : no_space s = true -> fstrip s = s.
Proof.
  intros H. apply NumSpace.fstrip_id. apply Forall_forall. intros c Hc. unfold no_space in H. rewrite forallb_forall in H.
  specialize (H c Hc). destruct (U_space c); [discriminate|reflexivity].
Qed.

(* -- the three shapes *)
Lemma lower_ascii_d d : is_d d = true -> lower_ascii d = d.
Proof. intros H. apply is_d_range in H. unfold lower_ascii. replace ((65 <=? d)%N && (d <=? 90)%N) with false by lia. reflexivity. Qed.

Lemma not_a_word d t : is_d d = true ->
  str_eqb (map lower_ascii (d :: t)) (U "inf") || str_eqb (map lower_ascii (d :: t)) (U "infinity") = false /\
  str_eqb (map lower_ascii (d :: t)) (U "nan") = false.
Proof.
  intros H. cbn [map]. rewrite (lower_ascii_d d H). apply is_d_range in H.
  change (U "inf") with [105; 110; 102]%N. change (U "infinity") with [105; 110; 102; 105; 110; 105; 116; 121]%N.
  change (U "nan") with [110; 97; 110]%N. cbn [str_eqb].
  replace (d =? 105)%N with false by lia. replace (d =? 110)%N with false by lia. split; reflexivity.
Qed.

Lemma py_dec_body_pos I F : I <> [] -> all_d I = true -> all_d F = true ->
  py_dec_body (I ++ 46%N :: F) = Some (PDec (dval I * 10 ^ len F + dval F) (- len F)).
Proof.
  intros HI DI DF. destruct I as [|d I']; [congruence|]. pose proof DI as DI'. apply all_d_cons in DI'. destruct DI' as [Hd _].
  unfold py_dec_body. change ((d :: I') ++ 46%N :: F) with (d :: I' ++ 46%N :: F).
  destruct (not_a_word d (I' ++ 46%N :: F) Hd) as [W1 W2]. rewrite W1, W2.
  change (d :: I' ++ 46%N :: F) with ((d :: I') ++ 46%N :: F). rewrite scan_digits_app by auto.
  cbv iota beta. rewrite <- (app_nil_r F) at 1. rewrite scan_digits_app by auto.
  assert (L : 0 + len (d :: I') + (0 + len F) =? 0 = false) by (unfold len; cbn [length]; lia). rewrite L.
  unfold dval. replace (0 + len F) with (len F) by lia. reflexivity.
Qed.

Lemma py_dec_body_int I : I <> [] -> all_d I = true ->
  py_dec_body I = Some (PDec (dval I * 10 ^ 0 + 0) (- 0)).
Proof.
  intros HI DI. destruct I as [|d I']; [congruence|]. pose proof DI as DI'. apply all_d_cons in DI'. destruct DI' as [Hd _].
  unfold py_dec_body. destruct (not_a_word d I' Hd) as [W1 W2]. rewrite W1, W2.
  rewrite <- (app_nil_r (d :: I')) at 1. rewrite scan_digits_app by auto. cbv iota beta.
  assert (L : 0 + len (d :: I') + 0 =? 0 = false) by (unfold len; cbn [length]; lia). rewrite L. reflexivity.
Qed.

Definition exp_val (es : N) (E : str) : Z := if (es =? 45)%N then - dval E else dval E.

Lemma py_dec_body_exp d F es E : is_d d = true -> all_d F = true -> is_sign es = true -> all_d E = true -> E <> [] ->
  py_dec_body (d :: frac F ++ 101%N :: es :: E) = Some (PDec (dval [d] * 10 ^ len F + dval F) (exp_val es E - len F)).
Proof.
  intros Hd DF Hs DE HE. unfold py_dec_body.
  destruct (not_a_word d (frac F ++ 101%N :: es :: E) Hd) as [W1 W2]. rewrite W1, W2.
  assert (D1 : all_d [d] = true) by (apply all_d_cons; split; auto).
  assert (LE : 0 + len E =? 0 = false) by (unfold len; destruct E; [congruence|cbn [length]; lia]).
  assert (Tail : forall nf mant,
    (let '(eneg, t') := match es :: E with 45%N :: t' => (true, t') | 43%N :: t' => (false, t') | _ => (false, es :: E) end in
     match scan_digits t' 0 0 false with
     | Some (ev, ne, []) => if ne =? 0 then None else Some (PDec mant ((if eneg then - ev else ev) - nf))
     | _ => None
     end) = Some (PDec mant (exp_val es E - nf))).
  { intros nf mant. unfold exp_val, is_sign in *.
    assert (es = 43%N \/ es = 45%N) as [->| ->] by lia; cbv iota beta; cbn [N.eqb Pos.eqb];
      rewrite <- (app_nil_r E) at 1; rewrite scan_digits_app by auto; rewrite LE; reflexivity. }
  destruct F as [|f F'].
  - cbn [frac app]. change (d :: 101%N :: es :: E) with ([d] ++ 101%N :: es :: E). rewrite scan_digits_app by auto.
    cbv iota beta. assert (L : 0 + len [d] + 0 =? 0 = false) by reflexivity. rewrite L.
    change (lower_ascii 101 =? 101)%N with true. cbv iota. rewrite Tail. unfold len; cbn [length]. reflexivity.
  - change (d :: frac (f :: F') ++ 101%N :: es :: E) with ([d] ++ 46%N :: (f :: F') ++ 101%N :: es :: E).
    rewrite scan_digits_app by auto. cbv iota beta. rewrite scan_digits_app by auto.
    assert (L : 0 + len [d] + (0 + len (f :: F')) =? 0 = false) by (unfold len; cbn [length]; lia). rewrite L.
    change (lower_ascii 101 =? 101)%N with true. cbv iota. rewrite Tail. unfold dval. replace (0 + len (f :: F')) with (len (f :: F')) by lia.
    reflexivity.
Qed.

Lemma py_dec_sgn neg d t : is_d d = true -> no_space (d :: t) = true ->
  py_dec (sgn neg ++ d :: t) = option_map (pair neg) (py_dec_body (d :: t)).
Proof.
  intros Hd NS. unfold py_dec. rewrite fstrip_no_space by (rewrite no_space_app, sgn_no_space; exact NS).
  rewrite sign_match. destruct neg; cbn [sgn app].
  - reflexivity.
  - apply is_d_range in Hd. replace (d =? 45)%N with false by lia. replace (d =? 43)%N with false by lia. reflexivity.
Qed.

(* -- py_dec on every text of the grammar, and on its cleaned form *)
Lemma no_space_pos I F : all_d I = true -> all_d F = true -> no_space (I ++ 46%N :: F) = true.
Proof. intros. rewrite no_space_app, (all_d_no_space I) by auto. cbn. apply (all_d_no_space F); auto. Qed.
Lemma no_space_exp d F es E : is_d d = true -> all_d F = true -> is_sign es = true -> all_d E = true ->
  no_space (d :: frac F ++ 101%N :: es :: E) = true.
Proof.
  intros Hd DF Hs DE. change (d :: frac F ++ 101%N :: es :: E) with ([d] ++ frac F ++ [101%N; es] ++ E).
  rewrite !no_space_app. rewrite (all_d_no_space E DE). cbn. rewrite (U_space_d d Hd), (is_sign_no_space es Hs). cbn.
  destruct F; [reflexivity|]. cbn [frac]. change (46%N :: n :: F) with ([46%N] ++ n :: F). rewrite no_space_app, (all_d_no_space _ DF). reflexivity.
Qed.

Theorem py_dec_pos neg I F : I <> [] -> all_d I = true -> all_d F = true ->
  py_dec (sgn neg ++ I ++ 46%N :: F) = Some (neg, PDec (dval I * 10 ^ len F + dval F) (- len F)).
Proof.
  intros HI DI DF. pose proof (py_dec_body_pos I F HI DI DF) as B. pose proof (no_space_pos I F DI DF) as NS.
  destruct I as [|d I']; [congruence|]. apply all_d_cons in DI. destruct DI as [Hd _].
  change ((d :: I') ++ 46%N :: F) with (d :: I' ++ 46%N :: F) in *. rewrite py_dec_sgn by auto. rewrite B. reflexivity.
Qed.
Theorem py_dec_int neg I : I <> [] -> all_d I = true ->
  py_dec (sgn neg ++ I) = Some (neg, PDec (dval I * 10 ^ 0 + 0) (- 0)).
Proof.
  intros HI DI. pose proof (py_dec_body_int I HI DI) as B. pose proof (all_d_no_space I DI) as NS.
  destruct I as [|d I']; [congruence|]. apply all_d_cons in DI. destruct DI as [Hd _].
  rewrite py_dec_sgn by auto. rewrite B. reflexivity.
Qed.
Theorem py_dec_exp neg d F es E : is_d d = true -> all_d F = true -> is_sign es = true -> all_d E = true -> E <> [] ->
  py_dec (sgn neg ++ d :: frac F ++ 101%N :: es :: E) = Some (neg, PDec (dval [d] * 10 ^ len F + dval F) (exp_val es E - len F)).
Proof.
  intros Hd DF Hs DE HE. rewrite py_dec_sgn by (auto; apply no_space_exp; auto). rewrite py_dec_body_exp by auto. reflexivity.
Qed.

(* the same rational number: m * 10^e = m' * 10^e' *)
Definition same_value (m e m' e' : Z) : Prop :=
  m * 10 ^ (e - Z.min e e') = m' * 10 ^ (e' - Z.min e e').

(* cleanup keeps sign and value, and the result is a decimal float() accepts *)
Theorem cleanup_value s : ReprG s ->
  exists neg m e m' e', py_dec s = Some (neg, PDec m e) /\ py_dec (cleanup s) = Some (neg, PDec m' e') /\
                        same_value m e m' e' /\ exists k, 0 <= k /\ m = m' * 10 ^ k /\ e = e' - k.
Proof.
  intros H. inversion H as [neg I F HI DI HF DF Eq|neg d F es E Hd DF Hs DE HL Eq]; subst.
  - rewrite cleanup_pos by auto. destruct (all_zero F) eqn:Z.
    + rewrite app_nil_r. exists neg, (dval I * 10 ^ len F + dval F), (- len F), (dval I * 10 ^ 0 + 0), (- 0).
      rewrite py_dec_pos, py_dec_int by auto. rewrite (dval_all_zero F Z).
      assert (L : 0 <= len F) by (unfold len; lia).
      repeat split; auto.
      * unfold same_value. rewrite Z.min_l by lia. replace (- len F - - len F) with 0 by lia.
        replace (- 0 - - len F) with (len F) by lia. rewrite Z.pow_0_r. lia.
      * exists (len F). rewrite Z.pow_0_r. repeat split; lia.
    + exists neg, (dval I * 10 ^ len F + dval F), (- len F), (dval I * 10 ^ len F + dval F), (- len F).
      rewrite py_dec_pos by auto. repeat split; auto. exists 0. rewrite Z.pow_0_r. repeat split; lia.
  - rewrite cleanup_exp by auto.
    assert (HE : E <> []) by (destruct E; [cbn in HL; lia|discriminate]).
    exists neg, (dval [d] * 10 ^ len F + dval F), (exp_val es E - len F), (dval [d] * 10 ^ len F + dval F), (exp_val es E - len F).
    rewrite py_dec_exp by auto. repeat split; auto. exists 0. rewrite Z.pow_0_r. repeat split; lia.
Qed.

(* integral value in positional form <-> no '.' after cleanup *)
Definition positional (s : str) : bool := negb (existsb (fun c => (c =? 101)%N) s).

Lemma existsb_e_digits ds : all_d ds = true -> existsb (fun c => (c =? 101)%N) ds = false.
Proof.
  unfold all_d. induction ds as [|c ds IH]; intros H; [reflexivity|]. cbn in H. apply andb_true_iff in H. destruct H as [Hc Hd].
  cbn. rewrite IH by auto. apply is_d_range in Hc. replace (c =? 101)%N with false by lia. reflexivity.
Qed.

Lemma has_e a b : existsb (fun c => (c =? 101)%N) (a ++ 101%N :: b) = true.
Proof. induction a as [|c a IH]; cbn; [reflexivity|]. rewrite IH. apply orb_true_r. Qed.

Theorem integral_no_dot s : ReprG s -> positional s = true ->
  exists neg m e, py_dec s = Some (neg, PDec m e) /\ e <= 0 /\
    (m mod 10 ^ (- e) = 0 -> no_dot (cleanup s) = true /\ all_d (skipn (if neg then 1 else 0) (cleanup s)) = true) /\
    (m mod 10 ^ (- e) <> 0 -> cleanup s = s).
Proof.
  intros H P. inversion H as [neg I F HI DI HF DF Eq|neg d F es E Hd DF Hs DE HL Eq]; subst.
  - exists neg, (dval I * 10 ^ len F + dval F), (- len F). rewrite py_dec_pos by auto.
    assert (L : 0 <= len F) by (unfold len; lia). split; [reflexivity|]. split; [lia|].
    pose proof (dval_bounds F DF) as B. replace (- - len F) with (len F) by lia.
    assert (P10 : 0 < 10 ^ len F) by (apply Z.pow_pos_nonneg; lia).
    assert (M : (dval I * 10 ^ len F + dval F) mod 10 ^ len F = dval F).
    { rewrite Z.add_comm, Z.mod_add by lia. apply Z.mod_small. lia. }
    rewrite M. rewrite cleanup_pos by auto. split.
    + intros Z0. rewrite (dval_zero_all_zero F DF Z0). rewrite app_nil_r. split.
      * rewrite no_dot_app, sgn_no_dot. apply all_d_no_dot; auto.
      * destruct neg; cbn; exact DI.
    + intros NZ. destruct (all_zero F) eqn:Z; [|reflexivity]. rewrite (dval_all_zero F Z) in NZ. congruence.
  - exfalso. assert (X : sgn neg ++ d :: frac F ++ 101%N :: es :: E = (sgn neg ++ d :: frac F) ++ 101%N :: es :: E)
      by (rewrite <- app_assoc; reflexivity).
    rewrite X in P. unfold positional in P. rewrite has_e in P. discriminate.
Qed.

(* -- the numeric literal of the expression parser *)
Lemma is_digit_u_d c : is_d c = true -> is_digit_u c = true.
Proof.
  intros H. apply is_d_range in H. unfold is_digit_u, is_digit. replace (c <? 128)%N with true by lia.
  replace ((48 <=? c)%N && (c <=? 57)%N) with true by lia. reflexivity.
Qed.
Lemma is_space_u_d c : is_d c = true -> is_space_u c = false.
Proof.
  intros H. apply is_d_range in H. unfold is_space_u, is_space. replace (c <? 128)%N with true by lia.
  replace ((9 <=? c)%N && (c <=? 13)%N || (28 <=? c)%N && (c <=? 32)%N) with false by lia. reflexivity.
Qed.
Lemma span_p_digits ds rest : all_d ds = true -> stop rest = true -> span_p is_digit_u (ds ++ rest) = (length ds, rest).
Proof.
  induction ds as [|c ds IH]; intros Hd Hs.
  - cbn [app length]. destruct rest as [|c t]; [reflexivity|]. cbn in Hs.
    assert (c = 46%N \/ c = 101%N) as [->| ->] by lia; reflexivity.
  - apply all_d_cons in Hd. destruct Hd as [Hc Hd]. cbn [app span_p]. rewrite (is_digit_u_d c Hc), IH by auto. reflexivity.
Qed.

Lemma lit_match_head d t : is_d d = true ->
  lit_match (d :: t) =
  let '(ni, s3) := span_p is_digit_u (d :: t) in
  match ni with
  | O => None
  | _ =>
    let '(nf, s4) := match s3 with 46%N :: t => let '(n, r) := span_p is_digit_u t in (S n, r) | _ => (O, s3) end in
    let ne :=
      match s4 with
      | 101%N :: sg :: t =>
          if ((sg =? 43) || (sg =? 45))%N then
            match span_p is_digit_u t with (O, _) => O | (n, _) => S (S n) end
          else O
      | _ => O
      end in
    Some (O, (0 + 0 + ni + nf + ne)%nat)
  end.
Proof.
  intros H. unfold lit_match. cbn [span_p]. rewrite (is_space_u_d d H). cbv iota beta.
  apply is_d_range in H. replace ((d =? 43) || (d =? 45))%N with false by lia. reflexivity.
Qed.

Lemma lit_int I : I <> [] -> all_d I = true -> lit_match I = Some (O, length I).
Proof.
  intros HI DI. destruct I as [|d I']; [congruence|]. pose proof DI as DI'. apply all_d_cons in DI'. destruct DI' as [Hd _].
  rewrite lit_match_head by auto. rewrite <- (app_nil_r (d :: I')) at 1. rewrite span_p_digits by auto.
  cbn [length]. cbv iota beta. f_equal. f_equal. lia.
Qed.
Lemma lit_pos I F : I <> [] -> all_d I = true -> all_d F = true -> lit_match (I ++ 46%N :: F) = Some (O, length (I ++ 46%N :: F)).
Proof.
  intros HI DI DF. destruct I as [|d I']; [congruence|]. pose proof DI as DI'. apply all_d_cons in DI'. destruct DI' as [Hd _].
  change ((d :: I') ++ 46%N :: F) with (d :: I' ++ 46%N :: F). rewrite lit_match_head by auto.
  change (d :: I' ++ 46%N :: F) with ((d :: I') ++ 46%N :: F). rewrite span_p_digits by auto.
  cbn [length]. cbv iota beta. rewrite <- (app_nil_r F) at 1. rewrite span_p_digits by auto. cbv iota beta.
  rewrite app_length. cbn [length]. f_equal. f_equal. lia.
Qed.
Lemma lit_exp d F es E : is_d d = true -> all_d F = true -> is_sign es = true -> all_d E = true -> E <> [] ->
  lit_match (d :: frac F ++ 101%N :: es :: E) = Some (O, length (d :: frac F ++ 101%N :: es :: E)).
Proof.
  intros Hd DF Hs DE HE. rewrite lit_match_head by auto.
  assert (D1 : all_d [d] = true) by (apply all_d_cons; split; auto).
  assert (Tail : (match 101%N :: es :: E with
                  | 101%N :: sg :: t => if ((sg =? 43) || (sg =? 45))%N then match span_p is_digit_u t with (O, _) => O | (n, _) => S (S n) end else O
                  | _ => O end) = S (S (length E))).
  { cbv iota beta. unfold is_sign in Hs. rewrite Hs. rewrite <- (app_nil_r E) at 1. rewrite span_p_digits by auto.
    destruct E; [congruence|]. reflexivity. }
  destruct F as [|f F'].
  - cbn [frac app]. change (d :: 101%N :: es :: E) with ([d] ++ 101%N :: es :: E) at 1. rewrite span_p_digits by auto.
    cbn [length]. cbv iota beta. rewrite Tail. f_equal.
  - change (d :: frac (f :: F') ++ 101%N :: es :: E) with ([d] ++ 46%N :: (f :: F') ++ 101%N :: es :: E).
    rewrite span_p_digits by auto. cbn [length]. cbv iota beta. rewrite span_p_digits by auto. cbv iota beta. rewrite Tail.
    rewrite !app_length. cbn [length]. rewrite app_length. cbn [length].
    match goal with |- Some (O, ?a) = Some (O, ?b) => replace a with b by lia end. reflexivity.
Qed.

(* for x >= 0 the cleaned text is, as a whole, one numeric literal *)
Theorem cleanup_is_literal s : ReprG s -> is_neg_text s = false -> lit_match (cleanup s) = Some (O, length (cleanup s)).
Proof.
  intros H N. inversion H as [neg I F HI DI HF DF Eq|neg d F es E Hd DF Hs DE HL Eq]; subst.
  - assert (neg = false).
    { destruct neg; [cbn in N; discriminate|reflexivity]. }
    subst neg. rewrite cleanup_pos by auto. cbn [sgn app]. destruct (all_zero F).
    + rewrite app_nil_r. apply lit_int; auto.
    + apply lit_pos; auto.
  - assert (neg = false).
    { destruct neg; [cbn in N; discriminate|reflexivity]. }
    subst neg. rewrite cleanup_exp by auto. cbn [sgn app]. apply lit_exp; auto. destruct E; [cbn in HL; lia|discriminate].
Qed.

(* ================================================================== F. the round trip, given CPython's contract *)
Section CPython.
  (* repr(float) and the decimal->binary conversion used by float(): ANY functions satisfying the contract below *)
  Variable repr : flt -> str.
  Variable strtod : bool -> Z -> Z -> flt.
  (* David Gay's shortest repr: the text is in the grammar ... *)
  Hypothesis repr_in_grammar : forall x, sf_is_finite x = true -> repr_ok (repr x) = true.
  (* ... and float() reads it back exactly (correctly rounded strtod) *)
  Hypothesis repr_roundtrip : forall x, sf_is_finite x = true -> float_with strtod (repr x) = Some x.
  (* the conversion depends on the denoted number only, not on how mantissa and exponent split it *)
  Hypothesis strtod_by_value : forall neg m e k, 0 <= k -> strtod neg (m * 10 ^ k) (e - k) = strtod neg m e.

  Theorem roundtrip x : sf_is_finite x = true -> parse_number_with strtod (value_string_float (repr x)) = Some x.
  Proof.
    intros Fx. pose proof (repr_ok_sound _ (repr_in_grammar x Fx)) as G.
    destruct (cleanup_value _ G) as [neg [m [e [m' [e' [P1 [P2 [_ [k [Hk [Em Ee]]]]]]]]]]].
    pose proof (repr_roundtrip x Fx) as R. unfold float_with in R. rewrite P1 in R. cbn in R. assert (R' : strtod neg m e = x) by congruence. clear R.
    unfold parse_number_with, float_with, value_string_float. rewrite P2. cbn [option_map to_flt].
    subst m e. rewrite <- (strtod_by_value neg m' e' k Hk). rewrite R'. rewrite Fx. reflexivity.
  Qed.

  Theorem roundtrip_literal x : sf_is_finite x = true -> is_neg_text (repr x) = false ->
    let text := value_string_float (repr x) in
    lit_match text = Some (O, length text) /\ float_with strtod text = Some x.
  Proof.
    intros Fx N text. pose proof (repr_ok_sound _ (repr_in_grammar x Fx)) as G. split.
    - apply cleanup_is_literal; auto.
    - pose proof (roundtrip x Fx) as R. unfold parse_number_with in R. fold text in R.
      destruct (float_with strtod text) as [f|]; [|discriminate]. destruct (sf_is_finite f); [exact R|discriminate].
  Qed.
End CPython.

(* ================================================================== G. integers *)
Lemma dval_snoc ds c : dval (ds ++ [c]) = dval ds * 10 + dv c.
Proof. unfold dval, dacc. rewrite fold_left_app. reflexivity. Qed.

Lemma pos_digits_spec fuel : forall n acc, (n < 2 ^ N.of_nat fuel)%N -> (0 < n)%N ->
  exists ds, pos_digits_fuel fuel n acc = ds ++ acc /\ ds <> [] /\ all_d ds = true /\ dval ds = Z.of_N n.
Proof.
  induction fuel as [|f IH]; intros n acc Hn Hp.
  - cbn in Hn. lia.
  - cbn [pos_digits_fuel]. pose proof (N.div_mod n 10 ltac:(lia)) as DM. pose proof (N.mod_lt n 10 ltac:(lia)) as ML.
    set (d := (n mod 10)%N) in *. set (q := (n / 10)%N) in *.
    assert (Dd : is_d (48 + d) = true) by (apply is_d_range; lia).
    destruct (q =? 0)%N eqn:Q.
    + exists [(48 + d)%N]. repeat split; try discriminate.
      * apply all_d_cons; split; auto.
      * unfold dval, dacc, dv. cbn [fold_left]. lia.
    + assert (Hq : (q < 2 ^ N.of_nat f)%N).
      { rewrite Nat2N.inj_succ, N.pow_succ_r' in Hn. lia. }
      destruct (IH q ((48 + d)%N :: acc) Hq ltac:(lia)) as [ds [E [NE [AD DV]]]].
      exists (ds ++ [(48 + d)%N]). rewrite E. rewrite <- app_assoc. repeat split; auto.
      * destruct ds; discriminate.
      * apply all_d_app; split; auto. apply all_d_cons; split; auto.
      * rewrite dval_snoc, DV. unfold dv. lia.
Qed.

Lemma N_to_str_spec p : exists ds, N_to_str (Npos p) = ds /\ ds <> [] /\ all_d ds = true /\ dval ds = Zpos p.
Proof.
  unfold N_to_str. destruct (pos_digits_spec (S (N.to_nat (N.log2 (Npos p)))) (Npos p) []) as [ds [E [NE [AD DV]]]].
  - rewrite Nat2N.inj_succ, N2Nat.id. apply N.log2_spec. lia.
  - lia.
  - exists ds. rewrite E, app_nil_r. repeat split; auto.
Qed.

Lemma N_sign_match {X} (A B C : X) (d : N) :
  (match d with 43%N => A | 45%N => B | _ => C end) = if (d =? 45)%N then B else if (d =? 43)%N then A else C.
Proof. destruct d as [|p]; [reflexivity|]. do 7 (try destruct p as [p|p|]); reflexivity. Qed.

Theorem int_roundtrip z : value_parse_integer (value_string_int z) = Some z.
Proof.
  unfold value_string_int. destruct z as [|p|p]; [vm_compute; reflexivity| |]; cbn [Z_to_str];
    destruct (N_to_str_spec p) as [ds [-> [NE [AD DV]]]]; destruct ds as [|d ds']; try congruence;
    pose proof AD as AD'; apply all_d_cons in AD'; destruct AD' as [Hd _].
  - unfold value_parse_integer. rewrite fstrip_no_space by (apply all_d_no_space; auto).
    rewrite N_sign_match.
    apply is_d_range in Hd. replace (d =? 45)%N with false by lia. replace (d =? 43)%N with false by lia.
    rewrite <- (app_nil_r (d :: ds')). rewrite scan_digits_app by auto.
    assert (L : 0 + len (d :: ds') =? 0 = false) by (unfold len; cbn [length]; lia). rewrite L.
    unfold dval in DV. rewrite DV. reflexivity.
  - unfold value_parse_integer.
    rewrite fstrip_no_space by (change (45%N :: d :: ds') with ([45%N] ++ d :: ds'); rewrite no_space_app, (all_d_no_space _ AD); reflexivity).
    cbv iota beta. rewrite <- (app_nil_r (d :: ds')). rewrite scan_digits_app by auto.
    assert (L : 0 + len (d :: ds') =? 0 = false) by (unfold len; cbn [length]; lia). rewrite L.
    unfold dval in DV. rewrite DV. reflexivity.
Qed.

(* the text of an integer has no '.', and is the digits of |z| after an optional '-' *)
Theorem int_text_shape z : no_dot (value_string_int z) = true /\ all_d (skipn (if z <? 0 then 1 else 0) (value_string_int z)) = true.
Proof.
  unfold value_string_int. destruct z as [|p|p]; [split; reflexivity| |]; cbn [Z_to_str];
    destruct (N_to_str_spec p) as [ds [-> [NE [AD DV]]]].
  - split; [apply all_d_no_dot; auto|exact AD].
  - split; [cbn; apply all_d_no_dot; auto|exact AD].
Qed.

(* ================================================================== pins to the REGENERATED regexes *)
(* the direct functions above are the meaning of exactly these two patterns; a changed pattern breaks these *)
Example cleanup_regex_pin : R_NUMBER_CLEANUP = RCat (RLit 46%N) (RCat (RRep 0%nat None (RLit 48%N)) REol).
Proof. reflexivity. Qed.
Example literal_regex_pin :
  R_EXPR_NUMBER =
  (RCat RBol (RCat (RRep 0%nat None (RIn false [CCat CatSpace])) (RGroup 1%nat (RCat (RRep 0%nat (Some 1%nat) (RIn false [CLit 43%N; CLit 45%N])) (RCat (RRep 1%nat None (RIn false [CCat CatDigit])) (RCat (RRep 0%nat (Some 1%nat) (RCat (RLit 46%N) (RRep 0%nat None (RIn false [CCat CatDigit])))) (RRep 0%nat (Some 1%nat) (RCat (RLit 101%N) (RCat (RIn false [CLit 43%N; CLit 45%N]) (RRep 1%nat None (RIn false [CCat CatDigit]))))))))))).
Proof. reflexivity. Qed.

(* and the generic engine run on the regenerated patterns agrees with the direct functions (samples; the harness checks many more) *)
Definition sample_texts : list str :=
  [U "1.0"; U "-0.0"; U "123.456"; U "1e+16"; U "1.5e-07"; U "100.0"; U "0.000"; U "1.0e+16"; U "5e-324"; U "1.7976931348623157e+308";
   U "12.00\00000a"; U "1.0.0"; U "."; U ".0"; U "1..0"; []; U "10"; U "1e5"; U " 7"; U "+3.e-2x"; U "-"; U "1.e"; U "1e+"; U "\000661\000662"].
Example engine_agrees_on_samples :
  forallb (fun s => option_eqb str_eqb (cleanup_rx s) (Some (cleanup s))) sample_texts = true /\
  forallb (fun s => match lit_match_rx s, lit_match s with
                    | Some (Some (a, b)), Some (a', b') => Nat.eqb a a' && Nat.eqb b b'
                    | Some None, None => true
                    | _, _ => false end) sample_texts = true.
Proof. vm_compute. split; reflexivity. Qed.

(* non-vacuity: concrete texts of the grammar and what happens to them *)
Example repr_samples :
  forallb repr_ok [U "1.0"; U "-0.0"; U "123.456"; U "1e+16"; U "1.5e-07"; U "5e-324"; U "1.7976931348623157e+308"; U "-2.5e+300"] = true /\
  forallb (fun s => negb (repr_ok s)) [U "1"; U "1."; U ".5"; U "1e16"; U "1e+5"; U "inf"; U "nan"; U "1.0 "; U "--1.0"; U "1.5e"; U "12.5e+10"] = true /\
  map cleanup [U "1.0"; U "-0.0"; U "123.456"; U "1e+16"; U "100.0"; U "1e+20"; U "1.5e-10"] =
              [U "1"; U "-0"; U "123.456"; U "1e+16"; U "100"; U "1e+20"; U "1.5e-10"] /\
  value_parse_number (cleanup (U "1e+20")) = py_float (U "1e+20") /\
  value_parse_number (U "1e309") = None /\ value_parse_number (U "nan") = None /\ value_parse_number (U "-Infinity") = None /\
  value_parse_number (U "1_0") = py_float (U "10") /\ value_parse_integer (U " -1_2 ") = Some (-12) /\ value_parse_integer (U "0x10") = None.
Proof. vm_compute. repeat split; reflexivity. Qed.
