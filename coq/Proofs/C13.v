(* Proofs/C13.v — numbers survive conversion to text and back.

   Layers:
   A. the model of float() (Model/Num.v py_float) factors through [py_dec] (what the text denotes) followed by the
      decimal->binary conversion; value_parse_number never returns nan/inf;
   B. digit strings: what [scan_digits] / [span_d] / [span_p] do on  digits ++ rest;
   C. the grammar of repr(float) texts ([ReprG]); the boolean recogniser [repr_ok] is sound for it;
   D. [cleanup] (the meaning of  \.0*$  under re.sub) on every text of the grammar;
   E. consequences: the cleaned text denotes the same number, is accepted by float(), is (for x >= 0) a whole
      numeric literal, has no '.' when the value is integral and positional;
   F. Section CPython: with the shortest-repr / correctly-rounded-strtod contract as HYPOTHESES, the round trip;
   G. integers: value_parse_integer (str z) = z. *)
From Coq Require Import Lia ZifyBool SpecFloat.
From BS Require Import Model.Base Model.Num Model.Regex Model.NumText Gen.Unicode Gen.Regexes Proofs.BaseFacts.
Local Open Scope Z_scope.

(* ================================================================== A. float() = conversion after py_dec *)
Lemma py_float_body_dec neg s :
  py_float_body neg s = option_map (fun p => to_flt dec_to_sf (neg, p)) (py_dec_body s).
Proof.
  unfold py_float_body, py_dec_body.
  destruct (str_eqb (map lower_ascii s) (U "inf") || str_eqb (map lower_ascii s) (U "infinity")); [reflexivity|].
  destruct (str_eqb (map lower_ascii s) (U "nan")); [reflexivity|].
  destruct (scan_digits s 0 0 false) as [[[ip ni] r1]|]; [|reflexivity].
  destruct (match r1 with 46%N :: t => match scan_digits t 0 0 false with Some x => x | None => (0, 0, r1) end | _ => (0, 0, r1) end)
    as [[fp nf] r2].
  destruct (ni + nf =? 0); [reflexivity|].
  destruct r2 as [|e t]; [reflexivity|].
  destruct (lower_ascii e =? 101)%N; [|reflexivity].
  destruct (match t with 45%N :: t' => (true, t') | 43%N :: t' => (false, t') | _ => (false, t) end) as [eneg t'].
  destruct (scan_digits t' 0 0 false) as [[[ev ne] [|x r]]|]; try reflexivity.
  destruct (ne =? 0); reflexivity.
Qed.

(* the three-way sign dispatch shared by float() and int() *)
Lemma sign_match {X} (A B : str -> X) (C : X) (s : str) :
  (match s with 45%N :: t => A t | 43%N :: t => B t | _ => C end) =
  match s with
  | [] => C
  | c :: t => if (c =? 45)%N then A t else if (c =? 43)%N then B t else C
  end.
Proof.
  destruct s as [|c t]; [reflexivity|].
  destruct c as [|p]; [reflexivity|].
  do 7 (try destruct p as [p|p|]); reflexivity.
Qed.

Theorem py_float_factors s : py_float s = float_with dec_to_sf s.
Proof.
  unfold py_float, float_with, py_dec. rewrite !sign_match.
  destruct (strip s) as [|c t].
  - cbv beta iota. rewrite py_float_body_dec. destruct (py_dec_body []); reflexivity.
  - cbv beta iota. destruct (c =? 45)%N; [|destruct (c =? 43)%N]; rewrite py_float_body_dec;
      match goal with |- context [py_dec_body ?x] => destruct (py_dec_body x) end; reflexivity.
Qed.

Theorem value_parse_number_factors s : value_parse_number s = parse_number_with dec_to_sf s.
Proof. unfold value_parse_number, parse_number_with. rewrite py_float_factors. reflexivity. Qed.

(* never nan / inf *)
Theorem parse_number_finite strtod s f : parse_number_with strtod s = Some f -> sf_is_finite f = true.
Proof.
  unfold parse_number_with. destruct (float_with strtod s) as [g|]; [|discriminate].
  destruct (sf_is_finite g) eqn:E; [|discriminate]. intros H; inversion H; subst; exact E.
Qed.
Theorem value_parse_number_finite s f : value_parse_number s = Some f -> sf_is_finite f = true.
Proof. rewrite value_parse_number_factors. apply parse_number_finite. Qed.

(* ================================================================== B. digit strings *)
Definition dv (c : N) : Z := Z.of_N c - 48.
Definition dacc (acc : Z) (ds : str) : Z := fold_left (fun a c => a * 10 + dv c) ds acc.
Definition dval (ds : str) : Z := dacc 0 ds.
Definition all_zero (ds : str) : bool := forallb (fun c => (c =? 48)%N) ds.
Definition len (s : str) : Z := Z.of_nat (length s).

Lemma is_d_range c : is_d c = true <-> (48 <= c <= 57)%N.
Proof. unfold is_d. lia. Qed.

Lemma digit_val_d c : is_d c = true -> digit_val c = Some (c - 48)%N.
Proof.
  intros H. apply is_d_range in H. unfold digit_val.
  replace (c <? 128)%N with true by lia. replace ((48 <=? c)%N && (c <=? 57)%N) with true by lia. reflexivity.
Qed.

Lemma all_d_cons c ds : all_d (c :: ds) = true <-> is_d c = true /\ all_d ds = true.
Proof. unfold all_d. cbn. rewrite andb_true_iff. reflexivity. Qed.
Lemma all_d_app a b : all_d (a ++ b) = true <-> all_d a = true /\ all_d b = true.
Proof. unfold all_d. rewrite forallb_app, andb_true_iff. reflexivity. Qed.

Lemma dacc_cons acc c ds : dacc acc (c :: ds) = dacc (acc * 10 + dv c) ds.
Proof. reflexivity. Qed.
Lemma dacc_split ds : forall acc, dacc acc ds = acc * 10 ^ len ds + dval ds.
Proof.
  unfold dval, len. induction ds as [|c ds IH]; intros acc.
  - cbn. lia.
  - rewrite !dacc_cons. rewrite IH. rewrite (IH (0 * 10 + dv c)).
    replace (Z.of_nat (length (c :: ds))) with (Z.of_nat (length ds) + 1) by (cbn [length]; lia).
    rewrite Z.pow_add_r by lia. lia.
Qed.
Lemma dval_bounds ds : all_d ds = true -> 0 <= dval ds < 10 ^ len ds.
Proof.
  unfold len. induction ds as [|c ds IH]; intros H.
  - cbn. lia.
  - apply all_d_cons in H. destruct H as [Hc Hd]. apply is_d_range in Hc. specialize (IH Hd).
    unfold dval in *. rewrite dacc_cons, dacc_split. fold (dval ds).
    replace (Z.of_nat (length (c :: ds))) with (Z.of_nat (length ds) + 1) by (cbn [length]; lia).
    rewrite Z.pow_add_r by lia. unfold dv, len, dval in *.
    assert (0 < 10 ^ Z.of_nat (length ds)) by (apply Z.pow_pos_nonneg; lia). nia.
Qed.
Lemma dval_all_zero ds : all_zero ds = true -> dval ds = 0.
Proof.
  unfold all_zero. induction ds as [|c ds IH]; intros H; [reflexivity|].
  cbn in H. apply andb_true_iff in H. destruct H as [Hc Hd]. unfold dval in *. rewrite dacc_cons.
  replace (0 * 10 + dv c) with 0 by (unfold dv; lia). auto.
Qed.
Lemma dval_zero_all_zero ds : all_d ds = true -> dval ds = 0 -> all_zero ds = true.
Proof.
  unfold all_zero. induction ds as [|c ds IH]; intros H E; [reflexivity|].
  apply all_d_cons in H. destruct H as [Hc Hd]. pose proof (dval_bounds ds Hd) as B. apply is_d_range in Hc.
  unfold dval in E. rewrite dacc_cons, dacc_split in E. fold (dval ds) in E.
  assert (P : 0 < 10 ^ len ds) by (apply Z.pow_pos_nonneg; unfold len; lia).
  assert (dv c = 0 /\ dval ds = 0) as [E1 E2] by (unfold dv in *; nia).
  cbn. rewrite IH by auto. unfold dv in E1. replace (c =? 48)%N with true by lia. reflexivity.
Qed.
Lemma all_zero_all_d ds : all_zero ds = true -> all_d ds = true.
Proof.
  unfold all_zero, all_d. intros H. rewrite forallb_forall in *. intros c Hc. specialize (H c Hc). apply is_d_range. lia.
Qed.

(* what follows a run of digits in the texts considered here: the end, '.', 'e' *)
Definition stop (rest : str) : bool := match rest with [] => true | c :: _ => (c =? 46)%N || (c =? 101)%N end.

Lemma scan_digits_app ds : forall acc n us rest, all_d ds = true -> stop rest = true ->
  scan_digits (ds ++ rest) acc n us = Some (dacc acc ds, n + len ds, rest).
Proof.
  unfold len. induction ds as [|c ds IH]; intros acc n us rest Hd Hs.
  - cbn [app length dacc fold_left]. replace (n + Z.of_nat 0) with n by lia.
    destruct rest as [|c t]; [reflexivity|]. cbn in Hs.
    assert (Hc : c = 46%N \/ c = 101%N) by lia. destruct Hc; subst; reflexivity.
  - apply all_d_cons in Hd. destruct Hd as [Hc Hd]. cbn [app scan_digits]. rewrite (digit_val_d c Hc).
    rewrite IH by auto. rewrite dacc_cons. apply is_d_range in Hc. unfold dv.
    replace (Z.of_N (c - 48)) with (Z.of_N c - 48) by lia.
    replace (n + 1 + Z.of_nat (length ds)) with (n + Z.of_nat (length (c :: ds))) by (cbn [length]; lia). reflexivity.
Qed.

Definition nd (b : str) : bool := match b with [] => true | c :: _ => negb (is_d c) end.
Lemma span_d_spec s : forall a b, span_d s = (a, b) -> s = a ++ b /\ all_d a = true /\ nd b = true.
Proof.
  induction s as [|c t IH]; intros a b H; cbn in H.
  - inversion H; subst. repeat split; reflexivity.
  - destruct (is_d c) eqn:E.
    + destruct (span_d t) as [a' b'] eqn:S. inversion H; subst. destruct (IH a' b eq_refl) as [E1 [E2 E3]].
      subst t. repeat split; auto. apply all_d_cons; auto.
    + inversion H; subst. repeat split; auto. cbn. rewrite E. reflexivity.
Qed.
Lemma span_d_app ds rest : all_d ds = true -> nd rest = true -> span_d (ds ++ rest) = (ds, rest).
Proof.
  induction ds as [|c ds IH]; intros Hd Hn.
  - cbn. destruct rest as [|c t]; [reflexivity|]. cbn in Hn. cbn. destruct (is_d c); [discriminate|reflexivity].
  - apply all_d_cons in Hd. destruct Hd as [Hc Hd]. cbn. rewrite Hc, IH by auto. reflexivity.
Qed.

(* ================================================================== C. the repr grammar *)
Definition sgn (neg : bool) : str := if neg then [45%N] else [].
Definition frac (F : str) : str := match F with [] => [] | _ => 46%N :: F end.
Definition is_sign (c : N) : bool := ((c =? 43) || (c =? 45))%N.

Inductive ReprG : str -> Prop :=
| RG_pos neg I F : I <> [] -> all_d I = true -> F <> [] -> all_d F = true -> ReprG (sgn neg ++ I ++ 46%N :: F)
| RG_exp neg d F es E : is_d d = true -> all_d F = true -> is_sign es = true -> all_d E = true -> (2 <= length E)%nat ->
    ReprG (sgn neg ++ d :: frac F ++ 101%N :: es :: E).

Lemma exp_ok_inv r : exp_ok r = true -> exists es E, r = es :: E /\ is_sign es = true /\ all_d E = true /\ (2 <= length E)%nat.
Proof.
  destruct r as [|es E]; [discriminate|]. cbn [exp_ok]. intros H. exists es, E.
  apply andb_true_iff in H. destruct H as [H H3]. apply andb_true_iff in H. destruct H as [H1 H2].
  split; [reflexivity|]. split; [exact H1|]. split; [exact H2|]. apply Nat.leb_le. exact H3.
Qed.

Lemma repr_body_ok_inv s : repr_body_ok s = true -> ReprG s /\ nd s = false.
Proof.
  unfold repr_body_ok. destruct (span_d s) as [ip r1] eqn:S1. apply span_d_spec in S1. destruct S1 as [E1 [D1 N1]].
  destruct ip as [|d ip']; [destruct r1; discriminate|].
  assert (NS : nd s = false).
  { subst s. apply all_d_cons in D1. destruct D1 as [Hd _]. cbn. rewrite Hd. reflexivity. }
  intros H. split; [|exact NS]. clear NS.
  destruct r1 as [|c r1'].
  - destruct ip'; discriminate.
  - assert (C : c = 46%N \/ (c = 101%N /\ ip' = [])).
    { destruct ip' as [|x y]; destruct c as [|p]; try discriminate; do 7 (try destruct p as [p|p|]); try discriminate; auto. }
    destruct C as [->|[-> ->]].
    + destruct (span_d r1') as [fp r2] eqn:S2. apply span_d_spec in S2. destruct S2 as [E2 [D2 N2]].
      assert (H' : match fp with
                   | [] => false
                   | _ :: _ => match r2 with
                               | [] => true
                               | 101%N :: r3 => (length (d :: ip') =? 1)%nat && exp_ok r3
                               | _ => false
                               end
                   end = true) by (destruct ip'; exact H).
      clear H; rename H' into H.
      destruct fp as [|f fp']; [discriminate|].
      destruct r2 as [|c2 r3].
      * subst. rewrite app_nil_r. apply (RG_pos false (d :: ip') (f :: fp')); auto; discriminate.
      * assert (C2 : c2 = 101%N) by (destruct c2 as [|p]; try discriminate; do 7 (try destruct p as [p|p|]); try discriminate; auto).
        subst c2. apply andb_true_iff in H. destruct H as [L X]. apply exp_ok_inv in X. destruct X as [es [E [-> [Hs [HE HL]]]]].
        destruct ip' as [|x y]; [|discriminate]. subst. apply all_d_cons in D1. destruct D1 as [Hd _].
        change ([d] ++ 46%N :: (f :: fp') ++ 101%N :: es :: E) with (sgn false ++ d :: frac (f :: fp') ++ 101%N :: es :: E).
        apply RG_exp; auto.
    + apply exp_ok_inv in H. destruct H as [es [E [-> [Hs [HE HL]]]]]. subst. apply all_d_cons in D1. destruct D1 as [Hd _].
      change ([d] ++ 101%N :: es :: E) with (sgn false ++ d :: frac [] ++ 101%N :: es :: E). apply RG_exp; auto.
Qed.

Lemma ReprG_neg s : ReprG s -> nd s = false -> ReprG (45%N :: s).
Proof.
  intros H N. inversion H as [neg I F HI DI HF DF E|neg d F es E Hd DF Hs DE HL Eq]; subst.
  - destruct neg; [cbn in N; discriminate|]. apply (RG_pos true I F); auto.
  - destruct neg; [cbn in N; discriminate|]. apply (RG_exp true d F es E); auto.
Qed.

Lemma neg_match {X} (A : str -> X) (C : X) (s : str) :
  (match s with 45%N :: t => A t | _ => C end) =
  match s with [] => C | c :: t => if (c =? 45)%N then A t else C end.
Proof.
  destruct s as [|c t]; [reflexivity|]. destruct c as [|p]; [reflexivity|].
  do 7 (try destruct p as [p|p|]); reflexivity.
Qed.

Theorem repr_ok_sound s : repr_ok s = true -> ReprG s.
Proof.
  unfold repr_ok. rewrite neg_match.
  destruct s as [|c t]; [intros H; apply repr_body_ok_inv in H; tauto|].
  destruct (c =? 45)%N eqn:E.
  - assert (c = 45%N) by lia. subst. intros H. apply repr_body_ok_inv in H. destruct H. apply ReprG_neg; auto.
  - intros H; apply repr_body_ok_inv in H; tauto.
Qed.
