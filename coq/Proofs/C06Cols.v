(* Proofs/C06Cols.v — the column arithmetic of every statement kind IS "start of the expression group in the line":
   `len(line) - len(expr)` (assignment), `len(jump) - len(expr) - 1` (jumpif), `len(return) - len(expr)` (return) and
   `match.start(group)` (if/elif/while/for) all equal the offset at which the parsed expression text sits in the line.
   Obtained by inversion on the declarative match relation (Proofs/RegexFacts.v) for the REGENERATED regexes. *)
From Coq Require Import Lia.
From BS Require Import Model.Base Model.Regex Model.Num Model.ExprParser Model.Script Model.ScriptX
  Gen.Unicode Gen.Regexes Proofs.RegexFacts Proofs.ExprFacts Proofs.ScriptFacts.

Definition no_lf (l : str) : Prop := ~ In 10%N l.

(* the expression text parsed for this statement sits at offset off of the line *)
Definition group_at (line : str) (pe : eres) (off : nat) : Prop :=
  exists len, off + len <= length line /\ pe = parse_expression (sub_list line off len).

Definition kind_offsets (line : str) (k : lkind) : Prop :=
  match k with
  | KAssign _ pe off | KIf pe off | KElif pe off | KWhile pe off | KFor _ _ pe off => group_at line pe off
  | KJump _ (Some pe) off | KReturn (Some pe) off => group_at line pe off
  | KExpr pe => group_at line pe 0
  | _ => True
  end.

Lemma sub_list_len {A} (l : list A) a n : a + n <= length l -> length (sub_list l a n) = n.
Proof. intros H. unfold sub_list. rewrite firstn_length, skipn_length. lia. Qed.

Lemma group_at_gstart line c g : caps_in (length line) c ->
  group_at line (parse_expression (gtext line c g)) (gstart c g).
Proof.
  intros C. unfold gstart, gtext, group_text. destruct (cap_get g c) as [[a b]|] eqn:E.
  - specialize (C _ _ _ E). exists (b - a). split; [lia | reflexivity].
  - exists 0. split; [lia|]. unfold sub_list. reflexivity.
Qed.

Lemma eol_no_lf line pos p c c' : no_lf line -> Matches UC line REol pos p c c' -> p = pos /\ c' = c /\ pos = length line.
Proof.
  intros N H. inversion H; subst. split; [reflexivity|]. split; [reflexivity|].
  match goal with D : _ \/ _ |- _ => destruct D as [E|[_ E]] end; [exact E|].
  exfalso. apply N. eapply nth_error_In. exact E.
Qed.
Lemma eol_inv line pos p c c' : Matches UC line REol pos p c c' -> p = pos /\ c' = c.
Proof. intros H. inversion H; subst. split; reflexivity. Qed.

Ltac minv :=
  repeat match goal with
         | H : Matches _ _ (RCat _ _) _ _ _ _ |- _ => inversion H; subst; clear H
         | H : Matches _ _ (RGroup _ _) _ _ _ _ |- _ => inversion H; subst; clear H
         | H : Matches _ _ (RAlt _ _) _ _ _ _ |- _ => inversion H; subst; clear H
         | H : Matches _ _ REps _ _ _ _ |- _ => inversion H; subst; clear H
         | H : Matches _ _ RBol _ _ _ _ |- _ => inversion H; subst; clear H
         | H : Matches _ _ (RLit _) _ _ _ _ |- _ => inversion H; subst; clear H
         end.

Ltac eolinv := match goal with H : Matches _ _ REol _ _ _ _ |- _ => destruct (eol_inv _ _ _ _ _ H) as (-> & ->); clear H end.

Ltac nogroup :=
  repeat match goal with
         | H : Matches _ _ (RRep _ _ _) _ _ ?c ?c' |- _ =>
           let E := fresh "E" in
           assert (E : c' = c) by (eapply Matches_nogroup; [exact H | reflexivity]); subst c'
         | H : Matches _ _ (RIn _ _) _ _ ?c ?c' |- _ =>
           let E := fresh "E" in
           assert (E : c' = c) by (eapply Matches_nogroup; [exact H | reflexivity]); subst c'
         end.

(* assignment: the expr group runs to the end of the line *)
Lemma assignment_offsets line e c : no_lf line -> rxm R_SCRIPT_ASSIGNMENT line = MYes e c ->
  let ex := gtext line c R_SCRIPT_ASSIGNMENT__expr in
  group_at line (parse_expression ex) (length line - length ex).
Proof.
  intros N H. pose proof (rxm_caps_in _ _ _ _ H) as CI.
  apply (re_match_sound UC) in H. unfold R_SCRIPT_ASSIGNMENT in H. minv.
  match goal with H : Matches _ _ REol _ _ _ _ |- _ => destruct (eol_no_lf _ _ _ _ _ N H) as (-> & -> & EL); clear H end.
  nogroup.
  cbv zeta. unfold gtext, group_text, R_SCRIPT_ASSIGNMENT__expr. cbn [cap_get cap_set Nat.eqb].
  match goal with |- context [sub_list line ?a (?b - ?a)] =>
    assert (B : a <= b <= length line) by (apply (CI 2 a b); reflexivity);
    exists (b - a); rewrite sub_list_len by lia; split; [lia|]; replace (length line - (b - a)) with a by lia; reflexivity end.
Qed.

(* jumpif: the jump group ends right after the ")" that follows the expr group *)
Lemma jump_offsets line e c : rxm R_SCRIPT_JUMP line = MYes e c ->
  let ex := gtext line c R_SCRIPT_JUMP__expr in
  ex <> [] -> group_at line (parse_expression ex) (length (gtext line c R_SCRIPT_JUMP__jump) - length ex - 1).
Proof.
  intros H. pose proof (rxm_caps_in _ _ _ _ H) as CI.
  apply (re_match_sound UC) in H. unfold R_SCRIPT_JUMP in H. minv; eolinv; nogroup.
  all: cbv zeta; unfold gtext, group_text, R_SCRIPT_JUMP__expr, R_SCRIPT_JUMP__jump; cbn [cap_get cap_set Nat.eqb]; intros NE.
  - (* plain jump: no expr group *) congruence.
  - match goal with |- context [sub_list line ?a (?b - ?a)] =>
      assert (B : a <= b <= length line) by (apply (CI 2 a b); reflexivity) end.
    match goal with |- context [sub_list line 0 (?p - 0)] =>
      assert (P : 0 <= p <= length line) by (apply (CI 1 0 p); reflexivity) end.
    match goal with |- context [sub_list line ?a (?b - ?a)] =>
      exists (b - a); rewrite !sub_list_len by lia; split; [lia|]; replace (S b - 0 - (b - a) - 1) with a by lia; reflexivity end.
Qed.

(* return: the return group ends where the expr group ends *)
Lemma rep01_end line a pos p c c' :
  Matches UC line (RRep 0 (Some 1) a) pos p c c' -> (p = pos /\ c' = c) \/ Matches UC line a pos p c c'.
Proof.
  intros H. inversion H; subst; [left; split; reflexivity|]. right.
  cbn in *. match goal with H2 : Matches _ _ (RRep 0 (Some 0) _) _ _ _ _ |- _ => inversion H2; subst; [assumption | congruence] end.
Qed.

Lemma return_offsets line e c : rxm R_SCRIPT_RETURN line = MYes e c ->
  let ex := gtext line c R_SCRIPT_RETURN__expr in
  ex <> [] -> group_at line (parse_expression ex) (length (gtext line c R_SCRIPT_RETURN__return) - length ex).
Proof.
  intros H. pose proof (rxm_caps_in _ _ _ _ H) as CI.
  apply (re_match_sound UC) in H. unfold R_SCRIPT_RETURN in H. minv.
  match goal with H : Matches _ _ (RRep 0 (Some 1) _) _ _ _ _ |- _ => apply rep01_end in H; destruct H as [[-> ->]|H] end.
  - eolinv. nogroup.
    cbv zeta; unfold gtext, group_text, R_SCRIPT_RETURN__expr; cbn [cap_get cap_set Nat.eqb]. congruence.
  - minv. eolinv. nogroup.
    cbv zeta; unfold gtext, group_text, R_SCRIPT_RETURN__expr, R_SCRIPT_RETURN__return; cbn [cap_get cap_set Nat.eqb]; intros NE.
    match goal with |- context [sub_list line ?a (?b - ?a)] =>
      assert (B : a <= b <= length line) by (apply (CI 2 a b); reflexivity);
      exists (b - a); rewrite !sub_list_len by lia; split; [lia|]; replace (b - 0 - (b - a)) with a by lia; reflexivity end.
Qed.

Theorem classify_offsets line k : no_lf line -> classify line = ROk k -> kind_offsets line k.
Proof.
  intros N. unfold classify.
  repeat (match goal with
          | |- context [match rxm ?r ?l with _ => _ end] => destruct (rxm r l) as [|? ?|] eqn:?
          end; [ | | discriminate ]).
  all: intros H; try (inversion H; subst k; clear H; cbn [kind_offsets]; try exact I).
  all: try (match goal with
            | E : rxm _ ?l = MYes _ ?c |- context [gstart ?c ?g] => apply group_at_gstart; eapply rxm_caps_in; exact E
            end).
  - exists (length line). split; [lia|]. unfold sub_list. cbn [skipn]. rewrite firstn_all. reflexivity.
  - unfold unesc in H. destruct (re_sub _ _ _ _); inversion H. exact I.
  - destruct (gtext line c R_SCRIPT_RETURN__expr) eqn:G; [exact I|]. rewrite <- G.
    eapply return_offsets; [eassumption | rewrite G; discriminate].
  - destruct (gtext line c R_SCRIPT_JUMP__expr) eqn:G; [exact I|]. rewrite <- G.
    eapply jump_offsets; [eassumption | rewrite G; discriminate].
  - eapply assignment_offsets; eassumption.
Qed.

(* consequence: an error is either a whole-line error at column 1, or the error of parse_expression on the text that
   sits at [off, off+len) of the line, reported at off + (its column): column - 1 is the position IN THE LINE at which
   the unparsed remainder (rem characters) begins *)
Definition expr_error_at (line : str) (e : perr) : Prop :=
  exists off len msg c rem,
    off + len <= length line /\ parse_expression (sub_list line off len) = EErr msg c /\
    rem <= len /\ c + rem = len + 1 /\
    e_msg e = msg /\ e_line e = line /\ e_col e = off + c /\ e_col e - 1 + rem = off + len.

Lemma lift_err_at pe line off n e : lift pe line off n = RErr e -> group_at line pe off -> expr_error_at line e.
Proof.
  intros H (len & L & P). destruct pe as [x|m c|w|]; cbn in H; try discriminate. inversion H; subst e; clear H.
  symmetry in P. pose proof (parse_expression_column _ _ _ P) as (rem & R1 & R2). rewrite sub_list_len in R1, R2 by exact L.
  exists off, len, m, c, rem. cbn. repeat split; try assumption; lia.
Qed.

Local Arguments U : simpl never.
Local Arguments lbl : simpl never.
Local Arguments Nat.ltb : simpl never.
Local Arguments Nat.leb : simpl never.
Local Arguments retarget : simpl never.
Local Arguments last_is_include : simpl never.
Local Arguments find_loop : simpl never.

Theorem apply_kind_err_column ps n line k e :
  apply_kind ps n line k = RErr e -> kind_offsets line k -> e_col e = 1 \/ expr_error_at line e.
Proof.
  intros H K. destruct ps as [gl fn d fr ix]. destruct k; cbn in H, K; hsplit H.
  all: try (inversion H; subst; clear H; left; reflexivity).
  all: inversion H; subst; clear H; right; eapply lift_err_at; eassumption.
Qed.

Theorem pstep_err_column ps n line e :
  no_lf line -> pstep ps n line = RErr e -> e_col e = 1 \/ expr_error_at line e.
Proof.
  intros N. rewrite pstep_is_classify_apply. unfold pstep2. intros H.
  destruct (classify line) as [k| | |] eqn:C; try discriminate.
  - eapply apply_kind_err_column; [exact H | apply classify_offsets; assumption].
  - exfalso. eapply classify_not_err. exact C.
Qed.
