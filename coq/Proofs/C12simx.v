(* Proofs/C12simx.v — property C12: the simulation is not vacuous (concrete heaps in both spellings, evaluated), and
   plain EQUALITY of the outcomes is false (so "up to spelling" cannot be strengthened). *)
From Coq Require Import Lia ZifyBool SpecFloat.
From BS Require Import Model.Base Model.Num Model.LibVal Gen.ArgSpecs Model.LibSeq Proofs.BaseFacts
  Proofs.C15 Proofs.C12 Proofs.C12sim Proofs.C12simk Proofs.C12siml Proofs.C12simf.
Local Open Scope Z_scope.

Definition I (z : Z) : value := VNum (NInt z).
Definition F (z : Z) : value := VNum (NFlt (Z_to_sf z)).
(* a = [1, "a", 2, [3]] (cell 0; cell 1 is the inner array), o = {"k": 3, "a": a} (cell 2); once with ints, once with floats *)
Definition heap_int : heap := [CArr [I 1; VStr (U "a"); I 2; VArr 1%nat]; CArr [I 3]; CObj [(U "k", I 3); (U "a", VArr 0%nat)]].
Definition heap_flt : heap := [CArr [F 1; VStr (U "a"); F 2; VArr 1%nat]; CArr [F 3]; CObj [(U "k", F 3); (U "a", VArr 0%nat)]].

Lemma heap_flt_is_respelt : respell_heap heap_int = heap_flt.
Proof. vm_compute. reflexivity. Qed.
Lemma heaps_related : hsim heap_int heap_flt.
Proof. rewrite <- heap_flt_is_respelt. apply respell_heap_sim. Qed.
Lemma heaps_differ : heap_int <> heap_flt.
Proof. discriminate. Qed.
Lemma I_F_related : forall z, Z.abs z <= 2 ^ 53 -> vsim (I z) (F z).
Proof. intros z H. apply vs_num, nsim_int_float, Z_to_sf_integral, H. Qed.

(* arrayIndexOf(a, 2.0) over the int array and arrayIndexOf(a, 2) over the float array both find position 2;
   the needle [3.0] (a fresh array holding a float) is found equal to the stored [3] by the deep comparison *)
Example indexOf_both :
  lib (U "arrayIndexOf") [VArr 0%nat; F 2] heap_int = (LOk (I 2), heap_int) /\
  lib (U "arrayIndexOf") [VArr 0%nat; I 2] heap_flt = (LOk (I 2), heap_flt) /\
  lib (U "arrayLastIndexOf") [VArr 0%nat; F 2] heap_int = (LOk (I 2), heap_int) /\
  lib (U "arrayIndexOf") [VArr 0%nat; VArr 3%nat] (heap_int ++ [CArr [F 3]]) = (LOk (I 3), heap_int ++ [CArr [F 3]]).
Proof. repeat split; vm_compute; reflexivity. Qed.

(* arrayPush(a, 7) / arrayPush(a, 7.0): same result, heaps related but different *)
Example push_both :
  lib (U "arrayPush") [VArr 0%nat; I 7] heap_int
    = (LOk (VArr 0%nat), [CArr [I 1; VStr (U "a"); I 2; VArr 1%nat; I 7]; CArr [I 3]; CObj [(U "k", I 3); (U "a", VArr 0%nat)]]) /\
  lib (U "arrayPush") [VArr 0%nat; F 7] heap_flt
    = (LOk (VArr 0%nat), [CArr [F 1; VStr (U "a"); F 2; VArr 1%nat; F 7]; CArr [F 3]; CObj [(U "k", F 3); (U "a", VArr 0%nat)]]).
Proof. split; vm_compute; reflexivity. Qed.

(* arrayGet(a, 0.0) on the int heap returns the int 1, arrayGet(a, 0) on the float heap returns the float 1.0:
   related, NOT identical; objectGet(o, "k") likewise; a failing call fails the same way on both sides *)
Example get_both :
  lib (U "arrayGet") [VArr 0%nat; F 0] heap_int = (LOk (I 1), heap_int) /\
  lib (U "arrayGet") [VArr 0%nat; I 0] heap_flt = (LOk (F 1), heap_flt) /\
  lib (U "objectGet") [VObj 2%nat; VStr (U "k")] heap_int = (LOk (I 3), heap_int) /\
  lib (U "objectGet") [VObj 2%nat; VStr (U "k")] heap_flt = (LOk (F 3), heap_flt) /\
  lib (U "arrayGet") [VArr 0%nat; F 4] heap_int = (LArgsErr VNull, heap_int) /\
  lib (U "arrayGet") [VArr 0%nat; I 4] heap_flt = (LArgsErr VNull, heap_flt) /\
  lib (U "arraySet") [VArr 0%nat; F 9; I 5] heap_int = (LArgsErr VNull, heap_int) /\
  lib (U "arraySet") [VArr 0%nat; I 9; F 5] heap_flt = (LArgsErr VNull, heap_flt).
Proof. repeat split; vm_compute; reflexivity. Qed.

(* the design's statement with `=` instead of `~` is FALSE: respelling the heap changes the value returned *)
Example identical_results_refuted :
  hsim heap_int heap_flt /\
  fst (lib (U "arrayGet") [VArr 0%nat; I 0] heap_int) <> fst (lib (U "arrayGet") [VArr 0%nat; I 0] heap_flt).
Proof. split; [exact heaps_related | vm_compute; discriminate]. Qed.

(* a whole history in both spellings: b = arrayCopy(a); arrayPush(b, 4 | 4.0); i = arrayIndexOf(b, 4.0 | 4); x = arrayPop(b) *)
Definition hist (four four' : value) : list op :=
  [OCall (U "arrayCopy") [AVar 0%nat]; OCall (U "arrayPush") [AVar 1%nat; ALit four]; OCall (U "arrayIndexOf") [AVar 1%nat; ALit four'];
   OCall (U "arrayPop") [AVar 1%nat]].
Example history_both :
  run_ops (hist (I 4) (F 4)) ([VArr 0%nat], heap_int)
    = Some ([VArr 0%nat; VArr 3%nat; VArr 3%nat; I 4; I 4], heap_int ++ [CArr [I 1; VStr (U "a"); I 2; VArr 1%nat]]) /\
  run_ops (hist (F 4) (I 4)) ([VArr 0%nat], heap_flt)
    = Some ([VArr 0%nat; VArr 3%nat; VArr 3%nat; I 4; F 4], heap_flt ++ [CArr [F 1; VStr (U "a"); F 2; VArr 1%nat]]).
Proof. split; vm_compute; reflexivity. Qed.
Lemma hist_related : Forall2 opsim (hist (I 4) (F 4)) (hist (F 4) (I 4)).
Proof.
  assert (A : vsim (I 4) (F 4)) by (apply I_F_related; vm_compute; discriminate).
  unfold hist.
  repeat (apply Forall2_cons; [apply os_call; repeat (apply Forall2_cons; [first [apply as_var | apply as_lit; auto using vsim_sym]|]); apply Forall2_nil|]).
  apply Forall2_nil.
Qed.

Lemma sim_functions_cover :
  length modelled_functions = 37%nat /\ forallb (fun f => str_mem f modelled_functions) modelled_functions_listed = true
  /\ forallb (fun fa => str_mem (fst fa) modelled_functions || str_mem (fst fa) spelling_oracle_only) gen_integer_args = true.
Proof. repeat split; vm_compute; reflexivity. Qed.
Lemma respell_swaps : forall z, Z.abs z <= 2 ^ 53 ->
  respell (VNum (NInt z)) = VNum (NFlt (Z_to_sf z)) /\ integral (NFlt (Z_to_sf z)) z /\ respell (respell (VNum (NInt z))) = VNum (NInt z).
Proof.
  intros z H. unfold respell. rewrite (respell_num_int z H). split; [reflexivity|]. split; [apply Z_to_sf_integral, H|].
  rewrite (respell_num_float _ z (Z_to_sf_integral z H)). reflexivity.
Qed.
