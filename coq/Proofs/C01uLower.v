(* Proofs/C01uLower.v — [ucompile_real] (Proofs/C01uReal.v) IS the lowering that the parser performs, for the WHOLE unified block
   language INCLUDING `continue` and `for`: folding the parser's pure lowering step [kstep] (Model/Lower.v; Proofs/C07eq.v proves
   pstep = classify ; kstep) over the line kinds of a source tree appends exactly [ucompile] of the named tree to the statement
   list, advances the label counter as [uname] does, and leaves the frame stack as it was except that the innermost enclosing
   loop frame is marked `has continue` when the tree has a `continue` that binds to it ([markf]).  Global scope.
   (Proofs/C01c.v has this for the for-free fragment WITHOUT `continue`; the per-case decision check_lowering_n of the check is
   now backed by a general theorem.) *)
From Coq Require Import Lia List Bool.
From BS Require Import Model.Base Model.Num Model.ExprParser Model.Script Model.ScriptX Model.Lower Model.RunC01
                       Proofs.C01 Proofs.C01c Proofs.ScriptFacts Proofs.C07eq Proofs.C01d
                       Proofs.C01for Proofs.C01forN Proofs.C01forReal Proofs.C01u Proofs.C01uReal.
Import ListNotations.

(* the logical lines of a source tree, as classified line kinds *)
Fixpoint ukinds (s : unistmt) : list line_kind :=
  match s with
  | NSkip => []
  | NSeq a b => ukinds a ++ ukinds b
  | NAssign x e => [KAssign x e]
  | NExpr e => [KExpr e]
  | NReturn e => [KReturn e]
  | NBreak => [KBreak]
  | NContinue => [KContinue]
  | NIf c a rest => Lower.KIf c :: ukinds a ++ ukrest rest ++ [KEndif]
  | NElse b => ukinds b
  | NWhile c b => KWhile c :: ukinds b ++ [KEndwhile]
  | NFor _ _ idx x e body => KFor x idx e :: ukinds body ++ [KEndfor]
  end
with ukrest (rest : unistmt) : list line_kind :=
  match rest with
  | NIf c2 a2 rest2 => KElif (ROk c2) :: ukinds a2 ++ ukrest rest2
  | NElse b => KElse :: ukinds b
  | _ => []
  end.

(* shape conditions of a SOURCE tree (uwf without the condition on the names of the temporaries, which the parser chooses) *)
Fixpoint uwfs (inloop : bool) (s : unistmt) : bool :=
  match s with
  | NSeq a b => uwfs inloop a && uwfs inloop b
  | NIf _ a rest => uwfs inloop a && uwfs inloop rest && urest_ok rest
  | NElse b => uwfs inloop b
  | NWhile _ b => uwfs true b
  | NFor _ _ _ _ _ body => uwfs true body
  | NBreak | NContinue => inloop
  | _ => true
  end.

Lemma uwfs_shape : forall s inloop, uwfs inloop s = true -> ushape s = true.
Proof.
  induction s; intros inloop H; cbn [uwfs ushape] in *; try reflexivity;
    repeat match goal with H : (_ && _)%bool = true |- _ => apply andb_prop in H; destruct H end;
    repeat (apply andb_true_intro; split); eauto.
Qed.

(* marking the innermost loop frame `has continue` *)
Fixpoint markl (fr : list frame) : list frame :=
  match fr with
  | [] => []
  | f :: t => if is_if_frame f then f :: markl t else mark_continue f :: t
  end.
Definition markf (b : bool) (fr : list frame) : list frame := if b then markl fr else fr.

Lemma set_nth_markl : forall fr k0 k f, find_loop fr k0 = Some (k, f) -> k0 <= k /\ set_nth_frame fr (k - k0) (mark_continue f) = markl fr.
Proof.
  induction fr as [|x t IH]; intros k0 k f H; cbn [find_loop] in H; [discriminate|]. cbn [markl].
  destruct (is_if_frame x).
  - destruct (IH _ _ _ H) as [Hle E]. split; [lia|]. replace (k - k0) with (S (k - S k0)) by lia. cbn [set_nth_frame]. rewrite E. reflexivity.
  - injection H as <- <-. split; [lia|]. rewrite PeanoNat.Nat.sub_diag. reflexivity.
Qed.

Lemma mark_done f : frame_done (mark_continue f) = frame_done f. Proof. destruct f; reflexivity. Qed.
Lemma mark_cont f : frame_continue (mark_continue f) = frame_continue f. Proof. destruct f; reflexivity. Qed.
Lemma mark_is_if f : is_if_frame (mark_continue f) = is_if_frame f. Proof. destruct f; reflexivity. Qed.
Lemma mark_idem f : mark_continue (mark_continue f) = mark_continue f. Proof. destruct f; reflexivity. Qed.

Lemma ctx_of_markl fr : ctx_of (markl fr) = ctx_of fr.
Proof.
  unfold ctx_of. induction fr as [|x t IH]; [reflexivity|]. cbn [markl]. destruct (is_if_frame x) eqn:E.
  - cbn [find_loop]. rewrite E. rewrite !find_loop_shift. destruct (find_loop (markl t) 0) as [[k f]|]; destruct (find_loop t 0) as [[k' f']|];
      cbn [option_map fst snd] in *; congruence.
  - cbn [find_loop]. rewrite mark_is_if, E. rewrite mark_done, mark_cont. reflexivity.
Qed.
Lemma ctx_of_markf b fr : ctx_of (markf b fr) = ctx_of fr.
Proof. destruct b; [apply ctx_of_markl|reflexivity]. Qed.
Lemma markl_idem fr : markl (markl fr) = markl fr.
Proof.
  induction fr as [|x t IH]; [reflexivity|]. cbn [markl]. destruct (is_if_frame x) eqn:E; cbn [markl].
  - rewrite E, IH. reflexivity.
  - rewrite mark_is_if, E, mark_idem. reflexivity.
Qed.
Lemma markf_markf a b fr : markf b (markf a fr) = markf (a || b) fr.
Proof. destruct a, b; cbn [markf orb]; try reflexivity. apply markl_idem. Qed.
Lemma markf_if b pos jl done he l n fr : markf b (FIf pos jl done he l n :: fr) = FIf pos jl done he l n :: markf b fr.
Proof. destruct b; reflexivity. Qed.

Lemma ubranch_head_uname done jl c rest n : ubranch_head done jl c (fst (uname n rest)) = ubranch_head done jl c rest.
Proof.
  unfold ubranch_head. destruct rest; cbn [uname]; try reflexivity;
    repeat match goal with |- context [uname ?k ?t] => destruct (uname k t) end; reflexivity.
Qed.

Notation ucompileR := (ucompile real_lab real_labc).
Notation ucrestR := (ucrest real_lab real_labc).

Definition UPLow (s : unistmt) : Prop :=
  forall ann i code depth fr n, uwfs (is_some (ctx_of fr)) s = true ->
    kfold ann i (gstate code depth fr n) (ukinds s) =
    ROk (gstate (code ++ fst (ucompileR (ctx_of fr) n (fst (uname n s)))) depth (markf (uhas_cont s) fr) (snd (uname n s))).

(* after a branch body: the pending conditional jump of that branch sits at position |X| *)
Definition URLow (rest : unistmt) : Prop :=
  forall ann i X jl cc Y done depth fr m l0 n0, uwfs (is_some (ctx_of fr)) rest = true -> urest_ok rest = true ->
    kfold ann i (gstate (X ++ SJump jl cc :: Y) depth (FIf (length X) jl done false l0 n0 :: fr) m) (ukrest rest ++ [KEndif]) =
    ROk (gstate (X ++ SJump (match rest with NSkip => done | _ => jl end) cc :: Y ++ fst (ucrestR (ctx_of fr) done jl m (fst (uname m rest))) ++ [SLabel done])
                depth (markf (uhas_cont rest) fr) (snd (uname m rest))).

Lemma ulower_is_ucompile : forall s, UPLow s /\ URLow s.
Proof.
  assert (Hnrl : forall s, urest_ok s = false -> URLow s).
  { intros s H ann i X jl cc Y done depth fr m l0 n0 _ Hro. congruence. }
  induction s as [ |a [IHa _] b [IHb _]|x e|e|e| | |c a [IHa _] rest [IHr IHrr]|b [IHb _]|c b [IHb _]|vals len idx x e body [IHb _]];
    (split; [|try (apply Hnrl; reflexivity)]).
  - (* NSkip *) intros ann i code depth fr n _. cbn. rewrite app_nil_r. reflexivity.
  - (* NSkip as the rest of a chain: endif retargets the pending jump *)
    intros ann i X jl cc Y done depth fr m l0 n0 _ _. cbn [ukrest app kfold kstep]. gnorm. cbn [length Nat.ltb Nat.leb].
    rewrite retarget_at. gnorm. cbn [uname ucrest fst snd app kfold uhas_cont markf]. rewrite <- app_assoc. reflexivity.
  - (* NSeq *)
    intros ann i code depth fr n Hwf. cbn [ukinds uwfs uname uhas_cont] in *.
    apply andb_prop in Hwf. destruct Hwf as [Hwa Hwb].
    pose proof (IHa ann i code depth fr n Hwa) as Ha.
    pose proof (proj1 (uname_counter a n (uwfs_shape _ _ Hwa)) (ctx_of fr)) as Hca.
    destruct (uname n a) as [a' n1]. cbn [fst snd] in *.
    rewrite (kfold_app _ _ _ _ _ _ Ha).
    assert (Hwb' : uwfs (is_some (ctx_of (markf (uhas_cont a) fr))) b = true) by (rewrite ctx_of_markf; exact Hwb).
    pose proof (IHb ann (i + length (ukinds a)) (code ++ fst (ucompileR (ctx_of fr) n a')) depth (markf (uhas_cont a) fr) n1 Hwb') as Hb.
    rewrite ctx_of_markf in Hb. rewrite markf_markf in Hb.
    destruct (uname n1 b) as [b' n2]. cbn [fst snd] in *. rewrite Hb.
    rewrite ucompile_seq_eq. destruct (ucompileR (ctx_of fr) n a') as [ca m1]. cbn [fst snd] in *. subst m1.
    destruct (ucompileR (ctx_of fr) n1 b') as [cb m2]. cbn [fst snd]. rewrite app_assoc. reflexivity.
  - intros ann i code depth fr n _. reflexivity.
  - intros ann i code depth fr n _. reflexivity.
  - intros ann i code depth fr n _. reflexivity.
  - (* NBreak *)
    intros ann i code depth fr n Hwf. cbn [uwfs ukinds uname fst snd ucompile kfold kstep uhas_cont markf] in *. unfold ctx_of in *. gnorm.
    destruct (find_loop fr 0) as [[k f]|]; [|discriminate]. cbn [Nat.ltb]. gnorm. reflexivity.
  - (* NContinue: the innermost loop frame is marked *)
    intros ann i code depth fr n Hwf. cbn [uwfs ukinds uname fst snd ucompile kfold kstep uhas_cont markf] in *. unfold ctx_of in *. gnorm.
    destruct (find_loop fr 0) as [[k f]|] eqn:Ef; [|discriminate]. cbn [Nat.ltb]. gnorm.
    destruct (set_nth_markl _ _ _ _ Ef) as [_ E]. rewrite PeanoNat.Nat.sub_0_r in E. rewrite E. reflexivity.
  - (* NIf *)
    intros ann i code depth fr n Hwf. cbn [ukinds uwfs uname uhas_cont] in *.
    apply andb_prop in Hwf. destruct Hwf as [Hwf Hro]. apply andb_prop in Hwf. destruct Hwf as [Hwa Hwr].
    cbn [kfold kstep]. gnorm.
    set (fi := FIf (length code) (lbl L_If n) (lbl L_Done n) false (snd (ann i)) (fst (ann i))).
    assert (Hwa' : uwfs (is_some (ctx_of (fi :: fr))) a = true) by (unfold fi; rewrite ctx_of_if; exact Hwa).
    pose proof (IHa ann (S i) (code ++ [SJump (lbl L_If n) (Some (e_not c))]) depth (fi :: fr) (S n) Hwa') as Ha.
    pose proof (proj1 (uname_counter a (S n) (uwfs_shape _ _ Hwa)) (ctx_of fr)) as Hca.
    unfold fi in Ha. rewrite ctx_of_if, markf_if in Ha. fold fi in Ha.
    destruct (uname (S n) a) as [a' n1]. cbn [fst snd] in *.
    rewrite (kfold_app _ _ _ _ _ _ Ha).
    assert (Hwr' : uwfs (is_some (ctx_of (markf (uhas_cont a) fr))) rest = true) by (rewrite ctx_of_markf; exact Hwr).
    rewrite <- app_assoc. cbn [app]. unfold fi.
    change (lbl L_If n) with (real_lab C01.KIf n). change (lbl L_Done n) with (real_lab C01.KDone n).
    pose proof (IHrr ann (S i + length (ukinds a)) code (real_lab C01.KIf n) (Some (e_not c)) (fst (ucompileR (ctx_of fr) (S n) a'))
                  (real_lab C01.KDone n) depth (markf (uhas_cont a) fr) n1 (snd (ann i)) (fst (ann i)) Hwr' Hro) as Hr.
    rewrite ctx_of_markf, markf_markf in Hr. rewrite Hr.
    pose proof (proj2 (uname_counter rest n1 (uwfs_shape _ _ Hwr)) (ctx_of fr) (real_lab C01.KDone n) (real_lab C01.KIf n) Hro) as Hcr.
    pose proof (ubranch_head_uname (real_lab C01.KDone n) (real_lab C01.KIf n) c rest n1) as Hbh.
    destruct (uname n1 rest) as [r' n2]. cbn [fst snd] in *.
    rewrite ucompile_if_eq. destruct (ucompileR (ctx_of fr) (S n) a') as [ca m1]. cbn [fst snd] in *. subst m1.
    destruct (ucrestR (ctx_of fr) (real_lab C01.KDone n) (real_lab C01.KIf n) n1 r') as [cr m2]. cbn [fst snd] in *.
    rewrite Hbh. unfold ubranch_head. reflexivity.
  - (* NIf as the rest of a chain: elif *)
    intros ann i X jl cc Y done depth fr m l0 n0 Hwf _. cbn [ukrest uwfs uname uhas_cont] in *.
    apply andb_prop in Hwf. destruct Hwf as [Hwf Hro]. apply andb_prop in Hwf. destruct Hwf as [Hwa Hwr].
    cbn [app kfold kstep]. gnorm. cbn [length Nat.ltb Nat.leb]. gnorm.
    set (code1 := (X ++ SJump jl cc :: Y) ++ [SJump done None; SLabel jl; SJump (lbl L_If m) (Some (e_not c))]).
    set (fi := FIf (length (X ++ SJump jl cc :: Y) + 2) (lbl L_If m) done false l0 n0).
    assert (Hwa' : uwfs (is_some (ctx_of (fi :: fr))) a = true) by (unfold fi; rewrite ctx_of_if; exact Hwa).
    pose proof (IHa ann (S i) code1 depth (fi :: fr) (S m) Hwa') as Ha.
    pose proof (proj1 (uname_counter a (S m) (uwfs_shape _ _ Hwa)) (ctx_of fr)) as Hca.
    unfold fi in Ha. rewrite ctx_of_if, markf_if in Ha. fold fi in Ha.
    destruct (uname (S m) a) as [a' n1]. cbn [fst snd] in *.
    rewrite <- app_assoc.
    rewrite (kfold_app _ _ _ _ _ _ Ha).
    change (lbl L_If m) with (real_lab C01.KIf m) in *.
    set (X' := (X ++ SJump jl cc :: Y) ++ [SJump done None; SLabel jl]).
    assert (E1 : code1 ++ fst (ucompileR (ctx_of fr) (S m) a') = X' ++ SJump (real_lab C01.KIf m) (Some (e_not c)) :: fst (ucompileR (ctx_of fr) (S m) a')).
    { subst code1 X'. rewrite <- !app_assoc. reflexivity. }
    assert (E2 : length (X ++ SJump jl cc :: Y) + 2 = length X').
    { subst X'. rewrite (app_length (X ++ SJump jl cc :: Y)). reflexivity. }
    unfold fi. rewrite E1, E2.
    assert (Hwr' : uwfs (is_some (ctx_of (markf (uhas_cont a) fr))) rest = true) by (rewrite ctx_of_markf; exact Hwr).
    pose proof (IHrr ann (S i + length (ukinds a)) X' (real_lab C01.KIf m) (Some (e_not c)) (fst (ucompileR (ctx_of fr) (S m) a'))
                  done depth (markf (uhas_cont a) fr) n1 l0 n0 Hwr' Hro) as Hr.
    rewrite ctx_of_markf, markf_markf in Hr. rewrite Hr.
    pose proof (proj2 (uname_counter rest n1 (uwfs_shape _ _ Hwr)) (ctx_of fr) done (real_lab C01.KIf m) Hro) as Hcr.
    pose proof (ubranch_head_uname done (real_lab C01.KIf m) c rest n1) as Hbh.
    destruct (uname n1 rest) as [r' n2]. cbn [fst snd] in *.
    rewrite ucrest_if_eq. destruct (ucompileR (ctx_of fr) (S m) a') as [ca m1]. cbn [fst snd] in *. subst m1.
    destruct (ucrestR (ctx_of fr) done (real_lab C01.KIf m) n1 r') as [cr m2]. cbn [fst snd] in *.
    rewrite Hbh. subst X'. unfold ubranch_head. f_equal. unfold gstate. f_equal. repeat (rewrite <- app_assoc; cbn [app]). reflexivity.
  - (* NElse *)
    intros ann i code depth fr n Hwf. cbn [ukinds uwfs uname uhas_cont] in *.
    pose proof (IHb ann i code depth fr n Hwf) as Hb. destruct (uname n b) as [b' n1]. cbn [fst snd] in *.
    rewrite ucompile_else_eq. exact Hb.
  - (* NElse as the rest of a chain *)
    intros ann i X jl cc Y done depth fr m l0 n0 Hwf _. cbn [ukrest uwfs uname uhas_cont] in *.
    cbn [app kfold kstep]. gnorm. cbn [length Nat.ltb Nat.leb]. gnorm.
    set (fi := FIf (length X) jl done true l0 n0).
    assert (Hwb' : uwfs (is_some (ctx_of (fi :: fr))) b = true) by (unfold fi; rewrite ctx_of_if; exact Hwf).
    pose proof (IHb ann (S i) ((X ++ SJump jl cc :: Y) ++ [SJump done None; SLabel jl]) depth (fi :: fr) m Hwb') as Hb.
    unfold fi in Hb. rewrite ctx_of_if, markf_if in Hb.
    destruct (uname m b) as [b' n1]. cbn [fst snd] in *.
    rewrite (kfold_app _ _ _ _ _ _ Hb).
    rewrite ucrest_else_eq. destruct (ucompileR (ctx_of fr) m b') as [cb n2]. cbn [fst snd].
    cbn [kfold kstep]. gnorm. cbn [length Nat.ltb Nat.leb]. gnorm. cbn [kfold].
    unfold gstate. f_equal. f_equal. repeat (rewrite <- app_assoc; cbn [app]). reflexivity.
  - (* NWhile *)
    intros ann i code depth fr n Hwf. cbn [ukinds uwfs uname uhas_cont markf] in *.
    cbn [kfold kstep]. gnorm.
    set (fw := FWhile (lbl L_Loop n) (lbl L_Loop n) (lbl L_Done n) c false (snd (ann i)) (fst (ann i))).
    assert (Hctx : ctx_of (fw :: fr) = Some (real_lab C01.KDone n, real_lab C01.KLoop n)) by reflexivity.
    assert (Hwb' : uwfs (is_some (ctx_of (fw :: fr))) b = true) by (rewrite Hctx; exact Hwf).
    pose proof (IHb ann (S i) (code ++ [SJump (lbl L_Done n) (Some (e_not c)); SLabel (lbl L_Loop n)]) depth (fw :: fr) (S n) Hwb') as Hb.
    rewrite Hctx in Hb.
    destruct (uname (S n) b) as [b' n1]. cbn [fst snd] in *.
    rewrite (kfold_app _ _ _ _ _ _ Hb).
    rewrite ucompile_while_eq.
    destruct (ucompileR (Some (real_lab C01.KDone n, real_lab C01.KLoop n)) (S n) b') as [cb m1]. cbn [fst snd].
    cbn [kfold kstep]. gnorm. subst fw. destruct (uhas_cont b); cbn [markf markl is_if_frame mark_continue length Nat.leb]; cbv iota; gnorm; cbn [kfold];
      unfold gstate; f_equal; f_equal; repeat (rewrite <- app_assoc; cbn [app]); reflexivity.
  - (* NFor *)
    intros ann i code depth fr n Hwf. cbn [ukinds uwfs uname uhas_cont markf] in *.
    cbn [kfold kstep]. gnorm.
    set (index := match idx with [] => lbl L_Index n | a :: b0 => a :: b0 end).
    assert (Eidx : match idx with [] => lbl L_Index n | _ :: _ => idx end = index) by (unfold index; destruct idx; reflexivity).
    set (ff := Script.FFor (lbl L_Loop n) (lbl L_Continue n) (lbl L_Done n) index (lbl L_Values n) (lbl L_Length n) x false (snd (ann i)) (fst (ann i))).
    assert (Hctx : ctx_of (ff :: fr) = Some (real_lab C01.KDone n, real_labc n)) by reflexivity.
    assert (Hwb' : uwfs (is_some (ctx_of (ff :: fr))) body = true) by (rewrite Hctx; exact Hwf).
    match goal with |- kfold _ _ (gstate ?cd _ _ _) _ = _ => pose proof (IHb ann (S i) cd depth (ff :: fr) (S n) Hwb') as Hb end.
    rewrite Hctx in Hb.
    pose proof (uname_has_cont body (S n)) as Hhc.
    destruct (uname (S n) body) as [b' n1]. cbn [fst snd] in *.
    rewrite (kfold_app _ _ _ _ _ _ Hb).
    rewrite ucompile_for_eq. rewrite Eidx.
    destruct (ucompileR (Some (real_lab C01.KDone n, real_labc n)) (S n) b') as [cb m1]. cbn [fst snd].
    cbn [kfold kstep]. gnorm. subst ff. rewrite Hhc.
    destruct (uhas_cont body); cbn [markf markl is_if_frame mark_continue length Nat.leb]; cbv iota; gnorm; cbn [kfold];
      unfold gstate, C01forN.for_code, ARRLEN, ARRGET; f_equal; f_equal; repeat (rewrite <- app_assoc; cbn [app]); reflexivity.
Qed.

(* a whole global scope, from the parser's initial state: the parser's lowering of the lines of a source tree is [ucompile_real] *)
Theorem ulowering_of_a_scope : forall ann s, uwfs false s = true ->
  kfold ann 0 ps_init (ukinds s) = ROk (gstate (ucompile_real 0 s) 0 [] (snd (uname 0 s))).
Proof.
  intros ann s Hwf. destruct (ulower_is_ucompile s) as [HP _].
  pose proof (HP ann 0 [] 0 [] 0 Hwf) as H. cbn [app] in H. destruct (uhas_cont s); exact H.
Qed.

(* composition (as Proofs/C01d.v): whenever the logical lines of a text classify (statement regexes + expression parser) to the
   line kinds of a source tree, the parser model's output for that text IS [ucompile_real] of the tree *)
Theorem uparse_is_ucompile : forall lines start s lls ls',
  uwfs false s = true ->
  llines lines 0 {| l_cont := []; l_ix := 0 |} = (lls, LDone ls') -> l_cont ls' = [] ->
  Forall2 (fun il k => classify (start + fst il) (snd il) = ROk k) lls (ukinds s) ->
  match ploop lines 0 {| l_cont := []; l_ix := 0 |} ps_init start with
  | ROk (ls, ps) => pfinish ls ps start
  | RErr e => RErr e | RHost w => RHost w | RFuel => RFuel
  end = ROk (ucompile_real 0 s).
Proof.
  intros lines start s lls ls' Hwf Hll Hcont Hcl.
  rewrite ploop_factor. unfold ploop2. rewrite Hll.
  rewrite (pfold_is_kfold start lls (ukinds s) [] ps_init Hcl). cbn [length app].
  rewrite (ulowering_of_a_scope _ s Hwf).
  unfold pfinish. rewrite Hcont. reflexivity.
Qed.

(* the shape conditions of the named tree give those of the source tree *)
Lemma uwf_uname_uwfs : forall s n inloop, uwf inloop (fst (uname n s)) = true -> uwfs inloop s = true.
Proof.
  induction s as [ |a IHa b IHb|x e|e|e| | |c a IHa rest IHr|b IHb|c b IHb|vals len idx x e body IHb]; intros n inloop H; cbn [uname uwfs] in *;
    try exact H; try reflexivity.
  - specialize (IHa n inloop). destruct (uname n a) as [a' n1]. specialize (IHb n1 inloop). destruct (uname n1 b) as [b' n2].
    cbn [fst uwf] in *. apply andb_prop in H. destruct H as [H1 H2]. rewrite (IHa H1), (IHb H2). reflexivity.
  - specialize (IHa (S n) inloop). destruct (uname (S n) a) as [a' n1]. specialize (IHr n1 inloop).
    pose proof (uname_rest_ok rest n1) as Hro. destruct (uname n1 rest) as [r' n2].
    cbn [fst uwf] in *. apply andb_prop in H. destruct H as [H H3]. apply andb_prop in H. destruct H as [H1 H2].
    rewrite (IHa H1), (IHr H2), <- Hro, H3. reflexivity.
  - specialize (IHb n inloop). destruct (uname n b) as [b' n1]. cbn [fst uwf] in *. exact (IHb H).
  - specialize (IHb (S n) true). destruct (uname (S n) b) as [b' n1]. cbn [fst uwf] in *. exact (IHb H).
  - specialize (IHb (S n) true). destruct (uname (S n) body) as [b' n1]. cbn [fst uwf] in *.
    apply andb_prop in H. destruct H as [_ H]. exact (IHb H).
Qed.

(* END TO END: a text whose logical lines classify to the line kinds of a source tree parses (parser model) to a statement list on
   which the interpreter model does what the structured reading of the tree says.  Premises on the library only. *)
From BS Require Import Model.Interp Proofs.Fuel Proofs.C01b Proofs.Blind.
Theorem unified_end_to_end : forall cfg, c_max cfg = 0%Z ->
  forall lib url_rel lint_lines, lib_fuel_monotone lib -> lib_count_blind lib ->
  arrayLength_contract lib -> arrayGet_contract lib ->
  forall um lines start s lls ls',
  llines lines 0 {| l_cont := []; l_ix := 0 |} = (lls, LDone ls') -> l_cont ls' = [] ->
  Forall2 (fun il k => classify (start + fst il) (snd il) = ROk k) lls (ukinds s) ->
  forall loc w o loc' w',
  UExec cfg lib url_rel lint_lines um (fst (uname 0 s)) (loc, w) o (loc', w') ->
  uwf false (fst (uname 0 s)) = true -> uguard s = true ->
  forall wm, weq w wm ->
  exists code out wm',
    match ploop lines 0 {| l_cont := []; l_ix := 0 |} ps_init start with
    | ROk (ls, ps) => pfinish ls ps start
    | RErr e => RErr e | RHost w => RHost w | RFuel => RFuel
    end = ROk code /\
    scope_result o = Some out /\ weq w' wm' /\ Run cfg lib url_rel lint_lines um code 0 loc wm (out, loc', wm').
Proof.
  intros cfg Hunl lib url_rel lint_lines Hf Hb Hl Hg um lines start s lls ls' Hll Hcont Hcl loc w o loc' w' H Hwf Hgd wm Hw.
  destruct (unified_simulation cfg Hunl lib url_rel lint_lines Hf Hb Hl Hg um 0 s loc w o loc' w' H Hwf Hgd wm Hw) as (out & wm' & Ho & Hw' & Hr).
  exists (ucompile_real 0 s), out, wm'. split; [|split; [exact Ho|split; [exact Hw'|exact Hr]]].
  exact (uparse_is_ucompile lines start s lls ls' (uwf_uname_uwfs s 0 false Hwf) Hll Hcont Hcl).
Qed.
