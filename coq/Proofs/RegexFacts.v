(* RegexFacts.v — soundness of the backtracking matcher of Model/Regex.v with respect to a
   declarative "r matches s[pos..p) and turns the capture table c into c'" relation, and what
   follows for every regex at once: match ends and captured spans lie inside the subject.
   Specific regexes (Gen/Regexes.v) are then analysed by inversion on the relation. *)
From Coq Require Import Lia.
From BS Require Import Model.Base Model.Regex.

Section Sound.
Variable UCL : uclass.
Variable s : str.

Inductive Matches : regex -> nat -> nat -> caps -> caps -> Prop :=
| M_Eps pos c : Matches REps pos pos c c
| M_Lit x pos c : nth_error s pos = Some x -> Matches (RLit x) pos (S pos) c c
| M_NotLit x y pos c : nth_error s pos = Some y -> (y =? x)%N = false -> Matches (RNotLit x) pos (S pos) c c
| M_Any y pos c : nth_error s pos = Some y -> (y =? 10)%N = false -> Matches RAny pos (S pos) c c
| M_In neg items y pos c : nth_error s pos = Some y -> class_match UCL neg items y = true -> Matches (RIn neg items) pos (S pos) c c
| M_Bol c : Matches RBol 0 0 c c
| M_Eol pos c : pos = length s \/ (S pos = length s /\ nth_error s pos = Some 10%N) -> Matches REol pos pos c c
| M_Cat a b pos mid p c cm c' : Matches a pos mid c cm -> Matches b mid p cm c' -> Matches (RCat a b) pos p c c'
| M_AltL a b pos p c c' : Matches a pos p c c' -> Matches (RAlt a b) pos p c c'
| M_AltR a b pos p c c' : Matches b pos p c c' -> Matches (RAlt a b) pos p c c'
| M_Rep0 mx a pos c : Matches (RRep 0 mx a) pos pos c c
| M_RepS mn mx a pos mid p c cm c' :
    mx <> Some 0 -> Matches a pos mid c cm -> mid <> pos ->
    Matches (RRep (pred mn) (option_map pred mx) a) mid p cm c' -> Matches (RRep mn mx a) pos p c c'
| M_Group n a pos p c c' : Matches a pos p c c' -> Matches (RGroup n a) pos p c (cap_set n (pos, p) c')
| M_Look a pos p c c' : Matches a pos p c c' -> Matches (RLook a) pos pos c c'.

Lemma skipn_cons_nth (pos : nat) (y : N) (t : str) :
  skipn pos s = y :: t -> nth_error s pos = Some y /\ t = skipn (S pos) s.
Proof.
  revert pos. generalize s. intros l. induction l as [|x l IH]; intros pos H.
  - rewrite skipn_nil in H. discriminate.
  - destruct pos; cbn in H.
    + inversion H; subst. split; reflexivity.
    + apply IH in H. exact H.
Qed.

Lemma Matches_bounds r pos p c c' : Matches r pos p c c' -> pos <= length s -> pos <= p <= length s.
Proof.
  induction 1; intros L; try lia;
    try (assert (pos < length s) by (apply nth_error_Some; congruence); lia).
Qed.

(* every successful run of the matcher is a derivation of the relation, and the result is the
   one the continuation returned at the end of that derivation *)
Lemma m_sound fuel : forall r pos rest c k e cf,
  pos <= length s -> rest = skipn pos s ->
  m UCL fuel r pos rest c k = MYes e cf ->
  exists p c', Matches r pos p c c' /\ k p (skipn p s) c' = MYes e cf.
Proof.
  induction fuel as [|f IH]; intros r pos rest c k e cf L R H; [discriminate|].
  destruct r; cbn [m] in H.
  - (* REps *) exists pos, c. subst rest. split; [constructor | exact H].
  - (* RLit *) destruct rest as [|y t]; [discriminate|]. destruct (y =? c0)%N eqn:E; [|discriminate].
    apply N.eqb_eq in E. subst y. symmetry in R. apply skipn_cons_nth in R. destruct R as [R1 R2]. subst t.
    exists (S pos), c. split; [constructor; exact R1 | exact H].
  - (* RNotLit *) destruct rest as [|y t]; [discriminate|]. destruct (y =? c0)%N eqn:E; [discriminate|].
    symmetry in R. apply skipn_cons_nth in R. destruct R as [R1 R2]. subst t.
    exists (S pos), c. split; [econstructor; eassumption | exact H].
  - (* RAny *) destruct rest as [|y t]; [discriminate|]. destruct (y =? 10)%N eqn:E; [discriminate|].
    symmetry in R. apply skipn_cons_nth in R. destruct R as [R1 R2]. subst t.
    exists (S pos), c. split; [econstructor; eassumption | exact H].
  - (* RIn *) destruct rest as [|y t]; [discriminate|]. destruct (class_match UCL neg items y) eqn:E; [|discriminate].
    symmetry in R. apply skipn_cons_nth in R. destruct R as [R1 R2]. subst t.
    exists (S pos), c. split; [econstructor; eassumption | exact H].
  - (* RBol *) destruct (Nat.eqb pos 0) eqn:E; [|discriminate]. apply Nat.eqb_eq in E. subst pos rest.
    exists 0, c. split; [constructor | exact H].
  - (* REol *)
    assert (Hlen : length rest = length s - pos) by (subst rest; apply skipn_length).
    destruct rest as [|y [|z t]].
    + exists pos, c. split; [constructor; left; cbn in Hlen; lia | rewrite <- R; exact H].
    + destruct (y =? 10)%N eqn:E; [|discriminate]. apply N.eqb_eq in E. subst y.
      pose proof R as R'. symmetry in R'. apply skipn_cons_nth in R'. destruct R' as [R1 _].
      exists pos, c. split; [constructor; right; cbn in Hlen; split; [lia | exact R1] | rewrite <- R; exact H].
    + discriminate.
  - (* RCat *)
    apply IH in H; [|exact L|exact R]. destruct H as (mid & cm & M1 & H).
    pose proof (Matches_bounds _ _ _ _ _ M1 L) as B.
    apply IH in H; [|lia|reflexivity]. destruct H as (p & c' & M2 & H).
    exists p, c'. split; [econstructor; eassumption | exact H].
  - (* RAlt *)
    destruct (m UCL f r1 pos rest c k) as [|e1 c1|] eqn:E1.
    + apply IH in H; [|exact L|exact R]. destruct H as (p & c' & M2 & H). exists p, c'. split; [apply M_AltR; exact M2 | exact H].
    + inversion H; subst e1 c1. apply IH in E1; [|exact L|exact R]. destruct E1 as (p & c' & M1 & E1).
      exists p, c'. split; [apply M_AltL; exact M1 | exact E1].
    + discriminate.
  - (* RRep *)
    set (more := match mx with
                 | Some 0 => MNo
                 | _ => m UCL f r pos rest c (fun p r' c' => if Nat.eqb p pos then MNo
                           else m UCL f (RRep (pred mn) (option_map pred mx) r) p r' c' k)
                 end) in H.
    destruct more as [|e1 c1|] eqn:E1.
    + destruct mn; [|discriminate]. exists pos, c. subst rest. split; [constructor | exact H].
    + inversion H; subst e1 c1. clear H.
      assert (Hmx : mx <> Some 0) by (intros ->; subst more; discriminate).
      assert (E2 : m UCL f r pos rest c (fun p r' c' => if Nat.eqb p pos then MNo
                           else m UCL f (RRep (pred mn) (option_map pred mx) r) p r' c' k) = MYes e cf).
      { subst more. destruct mx as [[|?]|]; [congruence|exact E1|exact E1]. }
      apply IH in E2; [|exact L|exact R]. destruct E2 as (mid & cm & M1 & E2).
      destruct (Nat.eqb mid pos) eqn:Emp; [discriminate|]. apply Nat.eqb_neq in Emp.
      pose proof (Matches_bounds _ _ _ _ _ M1 L) as B.
      apply IH in E2; [|lia|reflexivity]. destruct E2 as (p & c' & M2 & E2).
      exists p, c'. split; [eapply M_RepS; eassumption | exact E2].
    + discriminate.
  - (* RGroup *)
    apply IH in H; [|exact L|exact R]. destruct H as (p & c' & M1 & H).
    exists p, (cap_set n (pos, p) c'). split; [constructor; exact M1 | exact H].
  - (* RLook *)
    destruct (m UCL f r pos rest c (fun p _ c' => MYes p c')) as [|e1 c1|] eqn:E1; [discriminate| |discriminate].
    apply IH in E1; [|exact L|exact R]. destruct E1 as (p & c' & M1 & E1). inversion E1; subst p c'.
    exists pos, c1. split; [econstructor; exact M1 | rewrite <- R; exact H].
Qed.

Lemma re_match_sound r e c : re_match UCL r s = MYes e c -> Matches r 0 e [] c.
Proof.
  unfold re_match. intros H. apply m_sound in H; [|lia|reflexivity].
  destruct H as (p & c' & M & H). inversion H; subst. exact M.
Qed.

(* captured spans lie inside the subject *)
Definition caps_in (n : nat) (c : caps) : Prop := forall g a b, cap_get g c = Some (a, b) -> a <= b <= n.

Lemma caps_in_nil n : caps_in n [].
Proof. intros g a b H. discriminate. Qed.

Lemma Matches_caps_in r pos p c c' :
  Matches r pos p c c' -> pos <= length s -> caps_in (length s) c -> caps_in (length s) c'.
Proof.
  induction 1; intros L C; auto.
  - pose proof (Matches_bounds _ _ _ _ _ H L). apply IHMatches2; [lia|]. apply IHMatches1; assumption.
  - pose proof (Matches_bounds _ _ _ _ _ H0 L). apply IHMatches2; [lia|]. apply IHMatches1; assumption.
  - pose proof (Matches_bounds _ _ _ _ _ H L). specialize (IHMatches L C).
    intros g x y G. unfold cap_set in G. cbn [cap_get] in G. destruct (Nat.eqb n g).
    + inversion G; subst. lia.
    + eapply IHMatches; exact G.
Qed.

Lemma re_match_bounds r e c : re_match UCL r s = MYes e c -> e <= length s /\ caps_in (length s) c.
Proof.
  intros H. apply re_match_sound in H. split.
  - pose proof (Matches_bounds _ _ _ _ _ H). lia.
  - eapply Matches_caps_in; [exact H | lia | apply caps_in_nil].
Qed.

(* a regex without capturing groups leaves the capture table alone *)
Fixpoint has_group (r : regex) : bool :=
  match r with
  | RCat a b | RAlt a b => has_group a || has_group b
  | RRep _ _ a | RLook a => has_group a
  | RGroup _ _ => true
  | _ => false
  end.

Lemma Matches_nogroup r pos p c c' : Matches r pos p c c' -> has_group r = false -> c' = c.
Proof.
  induction 1; cbn [has_group]; intros G; auto; try discriminate.
  - apply orb_false_iff in G. destruct G. rewrite IHMatches2, IHMatches1; auto.
  - apply orb_false_iff in G. destruct G. auto.
  - apply orb_false_iff in G. destruct G. auto.
  - rewrite IHMatches2, IHMatches1; auto.
Qed.

End Sound.
