(* Proofs/C06.v — the parser is total and its diagnostics point at the offending source.
   Everything is about Model/Script.v (parse_script, ploop, pstep, lstep, pfinish); Model/ScriptX.v
   only provides views proved equal to it in Proofs/ScriptFacts.v. *)
From Coq Require Import Lia.
From BS Require Import Model.Base Model.Regex Model.Num Model.ExprParser Model.Script Model.ScriptX Model.PErr
  Gen.Unicode Gen.Regexes Proofs.RegexFacts Proofs.ExprFacts Proofs.ScriptFacts Proofs.PErrFacts.

(* ---------- step level, on the shared model ---------- *)
Lemma classify_not_host line w : classify line <> RHost w.
Proof.
  unfold classify.
  repeat (match goal with
          | |- context [match rxm ?r ?l with _ => _ end] => destruct (rxm r l)
          end; [ | try discriminate | discriminate ]).
  - discriminate.
  - unfold unesc. destruct (re_sub _ _ _ _); discriminate.
Qed.

Theorem pstep_err ps n line e :
  pstep ps n line = RErr e ->
  1 <= e_col e <= length (e_line e) + 1 /\
  ((e_lineno e = Some n /\ e_line e = line) \/
   (exists f, In f (ps_frames ps) /\ e_lineno e = Some (frame_lineno f) /\ e_line e = frame_line f)).
Proof.
  rewrite pstep_is_classify_apply. unfold pstep2. intros H.
  destruct (classify line) as [k| | |] eqn:C; try discriminate.
  - eapply apply_kind_err; [exact H | apply classify_cols_ok; exact C].
  - exfalso. eapply classify_not_err. exact C.
Qed.

Theorem pstep_recorded ps n line ps' :
  pstep ps n line = ROk ps' -> incl (recorded ps') ((n, line) :: recorded ps).
Proof.
  rewrite pstep_is_classify_apply. unfold pstep2. intros H.
  destruct (classify line) as [k| | |] eqn:C; try discriminate.
  eapply apply_kind_recorded. exact H.
Qed.

(* the only host exceptions a step can produce *)
Theorem pstep_host ps n line w :
  pstep ps n line = RHost w ->
  exists k, classify line = ROk k /\ (kind_host k w \/ (k = KEndIf /\ w = U "model: pending jump not found")).
Proof.
  rewrite pstep_is_classify_apply. unfold pstep2. intros H.
  destruct (classify line) as [k| | |] eqn:C; try discriminate.
  - exists k. split; [reflexivity|]. eapply apply_kind_host. exact H.
  - exfalso. eapply classify_not_host. exact C.
Qed.

(* ---------- the line front end ---------- *)
Lemma is_comment_cases part : is_comment part = ROk true \/ is_comment part = ROk false \/ is_comment part = RFuel.
Proof. unfold is_comment. destruct (re_match _ _ _); auto. Qed.

Lemma strip_continuation_cases part : (exists s, strip_continuation part = ROk s) \/ strip_continuation part = RFuel.
Proof. unfold strip_continuation. destruct (re_sub _ _ _ _); eauto. Qed.

Lemma lstep_bad ls ix part r : lstep ls ix part = LBad r -> r = RFuel.
Proof.
  unfold lstep.
  destruct (is_comment_cases part) as [E|[E|E]]; rewrite E; try discriminate.
  - destruct (strip_continuation_cases part) as [[s E2]|E2]; rewrite E2.
    + destruct (negb (str_eqb part s)); [discriminate|]. destruct (negb _); discriminate.
    + intros H. inversion H. reflexivity.
  - intros H. inversion H. reflexivity.
Qed.

(* a pending continuation started strictly before the current physical line *)
Definition lok (ix : nat) (ls : lstate) : Prop := l_cont ls <> [] -> l_ix ls < ix.

Lemma lstep_skip_lok ls ix part ls' : lstep ls ix part = LSkip ls' -> lok ix ls -> lok (S ix) ls'.
Proof.
  unfold lstep, lok. intros H L.
  destruct (is_comment part) as [[|]| | |]; try discriminate.
  - inversion H; subst. intros N. specialize (L N). lia.
  - destruct (strip_continuation part) as [s| | |]; try discriminate.
    destruct (negb (str_eqb part s)).
    + inversion H; subst; cbn. intros _. destruct (l_cont ls); cbn in *; [lia|]. assert (l_ix ls < ix) by (apply L; discriminate). lia.
    + destruct (negb _); discriminate.
Qed.

Lemma lstep_line_lok ls ix part ls' i line : lstep ls ix part = LLine ls' i line -> lok ix ls -> i <= ix /\ l_cont ls' = [].
Proof.
  unfold lstep, lok. intros H L.
  destruct (is_comment part) as [[|]| | |]; try discriminate.
  destruct (strip_continuation part) as [s| | |]; try discriminate.
  destruct (negb (str_eqb part s)); [discriminate|].
  destruct (l_cont ls) eqn:C; cbn in H; inversion H; subst; cbn; split; try reflexivity; try lia.
  assert (l_ix ls < ix) by (apply L; discriminate). lia.
Qed.

Lemma llines_bounds lines : forall ix ls,
  lok ix ls ->
  (forall i t, In (i, t) (fst (llines lines ix ls)) -> i < ix + length lines) /\
  (forall ls', snd (llines lines ix ls) = LDone ls' -> lok (ix + length lines) ls') /\
  (forall r, snd (llines lines ix ls) = LFail r -> r = RFuel).
Proof.
  induction lines as [|part rest IH]; intros ix ls L; cbn [llines].
  - cbn. repeat split; try (intros; contradiction); try discriminate.
    intros ls' H. inversion H; subst. rewrite Nat.add_0_r. exact L.
  - destruct (lstep ls ix part) as [ls'|ls' i line|r] eqn:E.
    + apply lstep_skip_lok in E; [|exact L]. destruct (IH (S ix) ls' E) as (A & B & C).
      cbn [length]. rewrite <- Nat.add_succ_comm. repeat split; assumption.
    + apply lstep_line_lok in E; [|exact L]. destruct E as [Ei Ec].
      assert (L' : lok (S ix) ls') by (unfold lok; rewrite Ec; congruence).
      destruct (IH (S ix) ls' L') as (A & B & C).
      destruct (llines rest (S ix) ls') as [l t]. cbn [fst snd length] in *. rewrite <- Nat.add_succ_comm.
      repeat split; try assumption.
      intros i0 t0 [H|H]; [inversion H; subst; lia | apply A in H; exact H].
    + apply lstep_bad in E. subst r. cbn. repeat split; try (intros; contradiction); try discriminate.
      intros r H. inversion H. reflexivity.
Qed.

Lemma lok_init : lok 0 ls_init.
Proof. unfold lok, ls_init. cbn. congruence. Qed.

(* ---------- the fold of pstep over the logical lines ---------- *)
Definition absl (start : nat) (lls : list (nat * str)) : list (nat * str) := map (fun il => (start + fst il, snd il)) lls.

Lemma pfold_recorded lls : forall ps start ps' S,
  pfold lls ps start = ROk ps' -> incl (recorded ps) S -> incl (recorded ps') (absl start lls ++ S).
Proof.
  induction lls as [|[i line] t IH]; intros ps start ps' S H I; cbn [pfold] in H.
  - inversion H; subst. exact I.
  - destruct (pstep ps (start + i) line) as [ps1| | |] eqn:E; try discriminate.
    apply pstep_recorded in E.
    specialize (IH ps1 start ps' ((start + i, line) :: S) H).
    assert (I1 : incl (recorded ps1) ((start + i, line) :: S)).
    { intros x Hx. apply E in Hx. destruct Hx as [Hx|Hx]; [left; exact Hx | right; apply I; exact Hx]. }
    specialize (IH I1). intros x Hx. apply IH in Hx. cbn. rewrite in_app_iff in *. cbn in Hx. tauto.
Qed.

Lemma frame_in_recorded f ps : In f (ps_frames ps) -> In (frame_lineno f, frame_line f) (recorded ps).
Proof. intros H. unfold recorded. apply in_or_app. left. apply (in_map (fun f => (frame_lineno f, frame_line f))). exact H. Qed.

Lemma pfold_err lls : forall ps start e S,
  pfold lls ps start = RErr e -> incl (recorded ps) S ->
  1 <= e_col e <= length (e_line e) + 1 /\
  exists n, e_lineno e = Some n /\ In (n, e_line e) (absl start lls ++ S).
Proof.
  induction lls as [|[i line] t IH]; intros ps start e S H I; cbn [pfold] in H; [discriminate|].
  destruct (pstep ps (start + i) line) as [ps1|e1| |] eqn:E; try discriminate.
  - pose proof (pstep_recorded _ _ _ _ E) as R.
    assert (I1 : incl (recorded ps1) ((start + i, line) :: S)).
    { intros x Hx. apply R in Hx. destruct Hx as [Hx|Hx]; [left; exact Hx | right; apply I; exact Hx]. }
    destruct (IH ps1 start e _ H I1) as (C & n & N1 & N2). split; [exact C|]. exists n. split; [exact N1|].
    cbn. rewrite in_app_iff in *. cbn in N2. tauto.
  - inversion H; subst e1. apply pstep_err in E. destruct E as (C & [[E1 E2]|(f & F1 & F2 & F3)]).
    + split; [exact C|]. exists (start + i). split; [exact E1|]. rewrite E2. cbn. left. reflexivity.
    + split; [exact C|]. exists (frame_lineno f). split; [exact F2|]. rewrite F3.
      cbn. right. apply in_or_app. right. apply I. apply frame_in_recorded. exact F1.
Qed.

Lemma pfold_host lls : forall ps start w,
  pfold lls ps start = RHost w ->
  exists i line k, In (i, line) lls /\ classify line = ROk k /\
    (kind_host k w \/ (k = KEndIf /\ w = U "model: pending jump not found")).
Proof.
  induction lls as [|[i line] t IH]; intros ps start w H; cbn [pfold] in H; [discriminate|].
  destruct (pstep ps (start + i) line) as [ps1| |w1|] eqn:E; try discriminate.
  - destruct (IH _ _ _ H) as (i0 & l0 & k & A & B & C). exists i0, l0, k. split; [right; exact A | split; assumption].
  - inversion H; subst w1. apply pstep_host in E. destruct E as (k & A & B). exists i, line, k. split; [left; reflexivity | split; assumption].
Qed.

Lemma absl_in start lls n t : In (n, t) (absl start lls) -> exists i, n = start + i /\ In (i, t) lls.
Proof.
  unfold absl. intros H. apply in_map_iff in H. destruct H as ([i t'] & E & H). cbn in E. inversion E; subst.
  exists i. split; [reflexivity | exact H].
Qed.

(* ---------- parse_lines / parse_script ---------- *)
Lemma split_lines_cases text : (exists l, split_lines text = ROk l) \/ split_lines text = RFuel.
Proof. unfold split_lines. destruct (re_split _ _ _); eauto. Qed.

Lemma split_chunks_cases chunks : (exists l, split_chunks chunks = ROk l) \/ split_chunks chunks = RFuel.
Proof.
  induction chunks as [|c t IH]; [left; eexists; reflexivity|].
  change (split_chunks (c :: t)) with
    (match split_lines c, split_chunks t with
     | ROk a, ROk b => ROk (a ++ b)
     | RFuel, _ | _, RFuel => RFuel
     | RHost w, _ | _, RHost w => RHost w
     | RErr e, _ | _, RErr e => RErr e
     end).
  destruct (split_lines_cases c) as [[a E1]|E1]; destruct IH as [[b E2]|E2]; rewrite E1; try rewrite E2; cbn; eauto.
Qed.

Lemma parse_script_lines chunks start :
  parse_script chunks start =
  match split_chunks chunks with ROk lines => parse_lines lines start | RErr e => RErr e | RHost w => RHost w | RFuel => RFuel end.
Proof. reflexivity. Qed.

Lemma parse_lines_view lines start :
  parse_lines lines start =
  let '(lls, t) := llines lines 0 ls_init in
  match pfold lls ps_init start with
  | ROk ps' =>
    match t with
    | LDone ls' => pfinish ls' ps' start
    | LFail (RErr e) => RErr e
    | LFail (RHost w) => RHost w
    | LFail _ => RFuel
    end
  | RErr e => RErr e | RHost w => RHost w | RFuel => RFuel
  end.
Proof.
  unfold parse_lines. rewrite ploop_factor. unfold ploop2.
  destruct (llines lines 0 ls_init) as [lls t].
  destruct (pfold lls ps_init start); try reflexivity.
  destruct t as [ls'|[| | |]]; reflexivity.
Qed.

(* (2) position *)
Definition err_position_ok (lines : list str) (start : nat) (e : perr) : Prop :=
  1 <= e_col e <= length (e_line e) + 1 /\
  exists i, e_lineno e = Some (start + i) /\ i < length lines /\
    (In (i, e_line e) (fst (llines lines 0 ls_init)) \/
     (exists ls, snd (llines lines 0 ls_init) = LDone ls /\ l_cont ls <> [] /\ i = l_ix ls /\
                 e_line e = join_with [32%N] (l_cont ls) /\ e_col e = 1)).

Theorem parse_lines_position lines start e : parse_lines lines start = RErr e -> err_position_ok lines start e.
Proof.
  rewrite parse_lines_view. unfold err_position_ok.
  destruct (llines_bounds lines 0 ls_init lok_init) as (B1 & B2 & B3). cbn [Nat.add] in *.
  destruct (llines lines 0 ls_init) as [lls t]. cbn [fst snd] in *.
  destruct (pfold lls ps_init start) as [ps'|e1| |] eqn:P; try discriminate.
  - destruct t as [ls'|r].
    + (* end-of-input checks *)
      pose proof (pfold_recorded lls ps_init start ps' [] P (fun x Hx => match Hx with end)) as R.
      rewrite app_nil_r in R.
      unfold pfinish. destruct (l_cont ls') as [|c0 ct] eqn:C.
      * destruct (ps_frames ps') as [|f fr] eqn:F.
        -- destruct (ps_fn ps') as [fo|] eqn:G; [|discriminate]. intros H. inversion H; subst e; clear H. cbn.
           split; [lia|].
           assert (I : In (fo_lineno fo, fo_line fo) (recorded ps')) by (unfold recorded; rewrite G; apply in_or_app; right; left; reflexivity).
           apply R, absl_in in I. destruct I as (i & I1 & I2). exists i. rewrite I1. split; [reflexivity|]. split; [eapply B1; exact I2 | left; exact I2].
        -- intros H. inversion H; subst e; clear H. cbn. split; [lia|].
           assert (I : In (frame_lineno f, frame_line f) (recorded ps')) by (apply frame_in_recorded; rewrite F; left; reflexivity).
           apply R, absl_in in I. destruct I as (i & I1 & I2). exists i. rewrite I1. split; [reflexivity|]. split; [eapply B1; exact I2 | left; exact I2].
      * intros H. inversion H; subst e; clear H. cbn. split; [lia|].
        exists (l_ix ls'). split; [reflexivity|].
        assert (L : l_ix ls' < length lines) by (apply (B2 ls' eq_refl); rewrite C; discriminate).
        split; [exact L|]. right. exists ls'. rewrite C. repeat split; try reflexivity. discriminate.
    + specialize (B3 r eq_refl). subst r. discriminate.
  - intros H. inversion H; subst e1; clear H.
    destruct (pfold_err lls ps_init start e [] P (fun x Hx => match Hx with end)) as (C & n & N1 & N2).
    rewrite app_nil_r in N2. apply absl_in in N2. destruct N2 as (i & I1 & I2). subst n.
    split; [exact C|]. exists i. split; [exact N1|]. split; [eapply B1; exact I2 | left; exact I2].
Qed.

Theorem parse_script_position chunks start e :
  parse_script chunks start = RErr e ->
  exists lines, split_chunks chunks = ROk lines /\ err_position_ok lines start e.
Proof.
  rewrite parse_script_lines. destruct (split_chunks_cases chunks) as [[l E]|E]; rewrite E; [|discriminate].
  intros H. exists l. split; [reflexivity|]. apply parse_lines_position. exact H.
Qed.

(* (1) accounting *)
Theorem parse_script_accounts chunks start s :
  parse_script chunks start = ROk s ->
  exists lines ls ps,
    split_chunks chunks = ROk lines /\
    ploop lines 0 ls_init ps_init start = ROk (ls, ps) /\
    (* nothing is left open at end of input *)
    l_cont ls = [] /\ ps_frames ps = [] /\ ps_fn ps = None /\ s = ps_global ps /\
    (* every logical line was folded exactly once, in order *)
    llines lines 0 ls_init = (fst (llines lines 0 ls_init), LDone ls) /\
    pfold (fst (llines lines 0 ls_init)) ps_init start = ROk ps /\
    snd (ploop_count lines 0 ls_init ps_init start 0) = length (fst (llines lines 0 ls_init)).
Proof.
  rewrite parse_script_lines. destruct (split_chunks_cases chunks) as [[lines E]|E]; rewrite E; [|discriminate].
  unfold parse_lines. intros H.
  destruct (ploop lines 0 ls_init ps_init start) as [[ls ps]| | |] eqn:P; try discriminate.
  exists lines, ls, ps. split; [reflexivity|]. split; [exact P|].
  unfold pfinish in H.
  destruct (l_cont ls) eqn:C; [|discriminate]. destruct (ps_frames ps) eqn:F; [|discriminate]. destruct (ps_fn ps) eqn:G; [discriminate|].
  inversion H; subst s. repeat (split; [reflexivity|]).
  pose proof P as P2. rewrite ploop_factor in P2. unfold ploop2 in P2.
  destruct (llines lines 0 ls_init) as [lls t] eqn:L. cbn [fst].
  destruct (pfold lls ps_init start) as [ps'| | |] eqn:Q; try discriminate.
  destruct t as [ls'|[| | |]]; try discriminate. inversion P2; subst ls' ps'.
  split; [reflexivity|]. split; [reflexivity|].
  pose proof (ploop_count_snd lines 0 ls_init ps_init start 0 (ls, ps)) as N.
  rewrite ploop_count_fst in N. specialize (N P). rewrite N, L. reflexivity.
Qed.

(* (3) shift: a comment / blank line in front *)
Definition shifted (ls ls' : lstate) : Prop := l_cont ls' = l_cont ls /\ (l_cont ls <> [] -> l_ix ls' = S (l_ix ls)).

Lemma lstep_shift ls ls' ix part : shifted ls ls' ->
  match lstep ls ix part, lstep ls' (S ix) part with
  | LSkip a, LSkip b => shifted a b
  | LLine a i l, LLine b j l' => shifted a b /\ j = S i /\ l' = l
  | LBad r, LBad r' => r = r'
  | _, _ => False
  end.
Proof.
  intros [S1 S2]. unfold lstep. rewrite S1.
  destruct (is_comment part) as [[|]| | |]; try reflexivity; [split; assumption|].
  destruct (strip_continuation part) as [s| | |]; try reflexivity.
  destruct (negb (str_eqb part s)).
  - destruct (l_cont ls) eqn:C; cbn.
    + split; cbn; [reflexivity | intros _; reflexivity].
    + split; cbn; [reflexivity | intros _; apply S2; discriminate].
  - destruct (l_cont ls) eqn:C; cbn.
    + repeat split; cbn; congruence.
    + repeat split; cbn; try congruence. apply S2. discriminate.
Qed.

Definition shl (lls : list (nat * str)) : list (nat * str) := map (fun il => (S (fst il), snd il)) lls.

Lemma llines_shift lines : forall ix ls ls', shifted ls ls' ->
  fst (llines lines (S ix) ls') = shl (fst (llines lines ix ls)) /\
  match snd (llines lines ix ls), snd (llines lines (S ix) ls') with
  | LDone a, LDone b => shifted a b
  | LFail r, LFail r' => r = r'
  | _, _ => False
  end.
Proof.
  induction lines as [|part rest IH]; intros ix ls ls' Sh; cbn [llines].
  - cbn. split; [reflexivity | exact Sh].
  - pose proof (lstep_shift ls ls' ix part Sh) as L.
    destruct (lstep ls ix part) as [a|a i l|r]; destruct (lstep ls' (S ix) part) as [b|b j l'|r']; try contradiction.
    + apply IH. exact L.
    + destruct L as (L1 & -> & ->). specialize (IH (S ix) a b L1).
      destruct (llines rest (S ix) a) as [x tx]; destruct (llines rest (S (S ix)) b) as [y ty]. cbn [fst snd] in *.
      destruct IH as [I1 I2]. split; [rewrite I1; reflexivity | exact I2].
    + cbn. split; [reflexivity | exact L].
Qed.

Lemma pfold_shift lls : forall ps start, pfold (shl lls) ps start = pfold lls ps (S start).
Proof.
  induction lls as [|[i line] t IH]; intros ps start; [reflexivity|].
  cbn [shl map pfold fst snd]. rewrite Nat.add_succ_r. cbn [Nat.add].
  destruct (pstep ps (S (start + i)) line); try reflexivity. apply IH.
Qed.

Lemma pfinish_shift ls ls' ps start : shifted ls ls' -> pfinish ls' ps start = pfinish ls ps (S start).
Proof.
  intros [S1 S2]. unfold pfinish. rewrite S1. destruct (l_cont ls) eqn:C; [reflexivity|].
  rewrite S2 by discriminate. rewrite Nat.add_succ_r. reflexivity.
Qed.

Theorem parse_lines_comment_shift c lines start :
  is_comment c = ROk true -> parse_lines (c :: lines) start = parse_lines lines (S start).
Proof.
  intros C. rewrite !parse_lines_view.
  assert (E : llines (c :: lines) 0 ls_init = llines lines 1 ls_init).
  { cbn [llines]. unfold lstep. rewrite C. reflexivity. }
  rewrite E.
  assert (S0 : shifted ls_init ls_init) by (split; [reflexivity | intros N; exfalso; apply N; reflexivity]).
  destruct (llines_shift lines 0 ls_init ls_init S0) as [L1 L2].
  destruct (llines lines 1 ls_init) as [y ty]; destruct (llines lines 0 ls_init) as [x tx]. cbn [fst snd] in *.
  subst y. rewrite pfold_shift. destruct (pfold x ps_init (S start)); try reflexivity.
  destruct tx as [ta|r]; destruct ty as [tb|r']; try contradiction.
  - apply pfinish_shift. exact L2.
  - subst r'. reflexivity.
Qed.

(* (3) shift: the caller's start line only renumbers *)
Lemma pstep_map g ps n line : pstep (map_ps g ps) (g n) line = map_sres g (map_ps g) (pstep ps n line).
Proof.
  rewrite !pstep_is_classify_apply. unfold pstep2.
  destruct (classify line) as [k|e| |] eqn:C; try reflexivity.
  - apply apply_kind_map.
  - exfalso. eapply classify_not_err. exact C.
Qed.

Lemma pfold_renumber g start start' lls : (forall i, g (start + i) = start' + i) ->
  forall ps, pfold lls (map_ps g ps) start' = map_sres g (map_ps g) (pfold lls ps start).
Proof.
  intros G. induction lls as [|[i line] t IH]; intros ps; [reflexivity|].
  cbn [pfold]. rewrite <- G, pstep_map.
  destruct (pstep ps (start + i) line); try reflexivity. cbn [map_sres]. apply IH.
Qed.

Lemma pfinish_renumber g start start' ls ps : (forall i, g (start + i) = start' + i) ->
  pfinish ls (map_ps g ps) start' = map_sres g (fun s => s) (pfinish ls ps start).
Proof.
  intros G. unfold pfinish. destruct (l_cont ls).
  - destruct ps as [gl fn d fr ix]. cbn. destruct fr as [|f fr]; cbn.
    + destruct fn; reflexivity.
    + destruct f; reflexivity.
  - cbn. unfold map_err, err. cbn. rewrite G. reflexivity.
Qed.

Theorem parse_lines_renumber g start start' lines : (forall i, g (start + i) = start' + i) ->
  parse_lines lines start' = map_sres g (fun s => s) (parse_lines lines start).
Proof.
  intros G. rewrite !parse_lines_view.
  destruct (llines_bounds lines 0 ls_init lok_init) as (_ & _ & B3).
  destruct (llines lines 0 ls_init) as [lls t]. cbn [snd] in B3.
  change ps_init with (map_ps g ps_init) at 1. rewrite (pfold_renumber g start start' lls G).
  destruct (pfold lls ps_init start) as [ps'| | |]; try reflexivity. cbn [map_sres].
  destruct t as [ls'|r]; [apply pfinish_renumber; exact G|].
  rewrite (B3 r eq_refl). reflexivity.
Qed.

Corollary parse_lines_start_shift d start lines :
  parse_lines lines (d + start) = map_sres (fun n => d + n) (fun s => s) (parse_lines lines start).
Proof. apply parse_lines_renumber. intros i. lia. Qed.

(* k comment/blank lines in front: every reported line number moves by exactly k, nothing else changes *)
Theorem parse_lines_comments_shift pre lines start :
  Forall (fun c => is_comment c = ROk true) pre ->
  parse_lines (pre ++ lines) start = map_sres (fun n => length pre + n) (fun s => s) (parse_lines lines start).
Proof.
  intros F. rewrite <- parse_lines_start_shift. revert start.
  induction F as [|c pre C F IH]; intros start; [reflexivity|].
  cbn [app length]. rewrite parse_lines_comment_shift by exact C. rewrite IH. f_equal. lia.
Qed.

(* (4) totality: which host exceptions the model can report at all *)
Lemma classify_host line k w : classify line = ROk k -> kind_host k w -> w = U "ValueError".
Proof.
  unfold classify.
  repeat (match goal with
          | |- context [match rxm ?r ?l with _ => _ end] => destruct (rxm r l) as [|? ?|]
          end; [ | | discriminate ]).
  all: intros H; try (inversion H; subst k; clear H; cbn [kind_host]; try contradiction; try apply parse_expression_host).
  - unfold unesc in H. destruct (re_sub _ _ _ _); inversion H. contradiction.
  - destruct (gtext line c R_SCRIPT_RETURN__expr); [contradiction | apply parse_expression_host].
  - destruct (gtext line c R_SCRIPT_JUMP__expr); [contradiction | apply parse_expression_host].
Qed.

Lemma pfinish_not_host ls ps start w : pfinish ls ps start <> RHost w.
Proof. unfold pfinish. destruct (l_cont ls); [|discriminate]. destruct (ps_frames ps); [|discriminate]. destruct (ps_fn ps); discriminate. Qed.

Theorem parse_script_host chunks start w :
  parse_script chunks start = RHost w ->
  exists lines i line k,
    split_chunks chunks = ROk lines /\ In (i, line) (fst (llines lines 0 ls_init)) /\ classify line = ROk k /\
    ((kind_host k w /\ w = U "ValueError") \/ (k = KEndIf /\ w = U "model: pending jump not found")).
Proof.
  rewrite parse_script_lines. destruct (split_chunks_cases chunks) as [[lines E]|E]; rewrite E; [|discriminate].
  rewrite parse_lines_view.
  destruct (llines_bounds lines 0 ls_init lok_init) as (_ & _ & B3).
  destruct (llines lines 0 ls_init) as [lls t] eqn:L. cbn [fst snd] in *.
  destruct (pfold lls ps_init start) as [ps'| |w1|] eqn:P; try discriminate.
  - destruct t as [ls'|r]; [intros H; exfalso; eapply pfinish_not_host; exact H|].
    rewrite (B3 r eq_refl). discriminate.
  - intros H. inversion H; subst w1. apply pfold_host in P. destruct P as (i & line & k & A & B & C).
    exists lines, i, line, k. split; [reflexivity|]. rewrite L. split; [exact A|]. split; [exact B|].
    destruct C as [C|C]; [left; split; [exact C | eapply classify_host; eassumption] | right; exact C].
Qed.

(* label_defs.pop() on an empty list (IndexError) cannot happen *)
Corollary parse_script_no_index_error chunks start : parse_script chunks start <> RHost (U "IndexError").
Proof.
  intros H. apply parse_script_host in H. destruct H as (_ & _ & _ & _ & _ & _ & _ & [[_ H]|[_ H]]); vm_compute in H; discriminate.
Qed.

(* (5) caret, for every error parse_script can raise *)
Theorem parse_script_caret chunks start e :
  parse_script chunks start = RErr e ->
  exists header shown k,
    format_perr e = header ++ [10%N] ++ shown ++ [10%N] ++ repeat 32%N k ++ [94%N; 10%N] /\
    k <= length shown /\
    nth_error shown k = nth_error (e_line e) (e_col e - 1).
Proof.
  intros H. apply parse_script_position in H. destruct H as (lines & _ & (C & _)).
  unfold format_perr.
  destruct (perr_message_caret (e_msg e) (e_line e) (Z.of_nat (e_col e)) (option_map Z.of_nat (e_lineno e))) as (h & s & k & A & B & D); [lia|].
  exists h, s, k. split; [exact A|]. split; [exact B|]. rewrite D. f_equal. lia.
Qed.
