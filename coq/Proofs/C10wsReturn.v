(* Proofs/C10wsReturn.v — a bare `return` with ANY indentation and ANY trailing whitespace is the statement `return`
   (finding F19: `return` followed by two or more whitespace characters used to be a syntax error, the optional expr group
   backtracked to a single blank; fixed by making the group start with a non-space).  Tied to the REGENERATED R_SCRIPT_RETURN:
       classify n (ws1 ++ "return" ++ ws2) = ROk (KReturn None).
   (a) the earlier regexes of the cascade need a character that is neither whitespace nor in "return";
   (b) R_SCRIPT_RETURN matches (a derivation is built; the engine is complete for look-ahead free regexes);
   (c) in EVERY derivation the optional part (whitespace, then the expr group starting with a non-space) is absent, because its `\S` would have to read a whitespace
       character of ws2, so whatever match the engine returns, the expr group is unset. *)
From Coq Require Import Lia.
From BS Require Import Model.Base Model.Regex Model.Num Model.ExprParser Model.Script Model.Lower
  Gen.Unicode Gen.Regexes Proofs.RegexFacts Proofs.RegexComplete Proofs.RegexShift Proofs.C10ws Proofs.C06Cols.

Definition kwret : str := U "return".
Definition ret_opt : regex :=
  RRep 0 (Some 1) (RCat (RRep 1 None (RIn false [CCat CatSpace])) (RGroup 2 (RCat (RIn false [CCat CatNotSpace]) (RRep 0 None RAny)))).

Lemma shape_return : R_SCRIPT_RETURN = RCat RBol (RCat (RGroup 1 (RCat sp (lits kwret ret_opt))) (RCat sp REol)).
Proof. reflexivity. Qed.

(* a run matched by \s* consists of whitespace *)
Lemma sp_run s r pos p c c' : Matches UC s r pos p c c' -> r = sp ->
  c' = c /\ forall q y, pos <= q < p -> nth_error s q = Some y -> is_space UC y = true.
Proof.
  induction 1; intros E; try discriminate E.
  - split; [reflexivity|]. intros q y B. lia.
  - unfold sp in E. injection E as -> -> ->. cbn [pred option_map] in *.
    destruct (IHMatches2 eq_refl) as [-> R2].
    inversion H0; subst. split; [reflexivity|]. intros q y0 B Hq.
    destruct (Nat.eq_dec q pos) as [->|NE].
    + match goal with H1 : nth_error s pos = Some ?z, H2 : class_match _ _ _ ?z = true |- _ =>
        rewrite H1 in Hq; injection Hq as <-; unfold class_match in H2; cbn [existsb item_match cat_match] in H2;
        destruct (is_space UC z); [reflexivity | discriminate H2] end.
    + apply (R2 q y0); [lia | exact Hq].
Qed.

Lemma lits_inv s kw tail : forall pos p c c', Matches UC s (lits kw tail) pos p c c' ->
  Matches UC s tail (pos + length kw) p c c' /\ forall i x, nth_error kw i = Some x -> nth_error s (pos + i) = Some x.
Proof.
  induction kw as [|x kw IH]; intros pos p c c' M; cbn [lits length] in *.
  - rewrite Nat.add_0_r. split; [exact M|]. intros i y H. destruct i; discriminate.
  - inversion M; subst. match goal with H : Matches _ _ (RLit x) _ _ _ _ |- _ => inversion H; subst end.
    match goal with H : Matches _ _ (lits kw tail) _ _ _ _ |- _ => destruct (IH _ _ _ _ H) as [T N] end.
    split; [replace (pos + S (length kw)) with (S pos + length kw) by lia; exact T|].
    intros i y Hi. destruct i as [|i]; cbn in Hi.
    + injection Hi as <-. rewrite Nat.add_0_r. assumption.
    + replace (pos + S i) with (S pos + i) by lia. apply N. exact Hi.
Qed.

Lemma return_bare_caps ws1 ws2 e c : white ws1 -> white ws2 ->
  Matches UC (ws1 ++ kwret ++ ws2) R_SCRIPT_RETURN 0 e [] c -> cap_get 2 c = None.
Proof.
  intros W1 W2 M. rewrite shape_return in M.
  inversion M; subst; clear M. match goal with H : Matches _ _ RBol _ _ _ _ |- _ => inversion H; subst; clear H end.
  match goal with H : Matches _ _ (RCat (RGroup 1 _) _) _ _ _ _ |- _ => inversion H; subst; clear H end.
  match goal with H : Matches _ _ (RGroup 1 _) _ _ _ _ |- _ => inversion H; subst; clear H end.
  match goal with H : Matches _ _ (RCat sp _) 0 _ [] _ |- _ => inversion H; subst; clear H end.
  match goal with H : Matches _ _ sp 0 ?j _ _ |- _ => destruct (sp_run _ _ _ _ _ _ H eq_refl) as [-> RUN]; rename j into j0 end.
  match goal with H : Matches _ _ (RCat (RLit 114) _) _ _ _ _ |- _ => destruct (lits_inv _ kwret ret_opt _ _ _ _ H) as [OPT KW] end.
  (* the keyword starts right after ws1 *)
  assert (Ej : j0 = length ws1).
  { pose proof (KW 0 114%N eq_refl) as K0. rewrite Nat.add_0_r in K0.
    destruct (Nat.lt_trichotomy j0 (length ws1)) as [Lt|[E|Gt]]; [|exact E|].
    - exfalso. rewrite nth_error_app1 in K0 by exact Lt.
      pose proof (W1 _ (nth_error_In _ _ K0)) as Sp. vm_compute in Sp. discriminate.
    - exfalso. assert (Hr : nth_error (ws1 ++ kwret ++ ws2) (length ws1) = Some 114%N) by apply nth_error_mid.
      pose proof (RUN (length ws1) 114%N ltac:(lia) Hr) as Sp. vm_compute in Sp. discriminate. }
  subst j0.
  (* the optional part *)
  apply rep01_end in OPT. destruct OPT as [[-> ->]|OPT].
  - match goal with H : Matches _ _ (RCat sp REol) _ _ _ _ |- _ => inversion H; subst; clear H end.
    match goal with H : Matches _ _ sp _ _ _ _ |- _ => destruct (sp_run _ _ _ _ _ _ H eq_refl) as [-> _] end.
    match goal with H : Matches _ _ REol _ _ _ _ |- _ => inversion H; subst; clear H end. reflexivity.
  - exfalso. inversion OPT; subst; clear OPT.
    match goal with H : Matches _ _ (RRep 1 None _) ?a ?b _ _ |- _ => pose proof (Matches_le UC _ _ _ _ _ _ H) as Lq end.
    match goal with H : Matches _ _ (RGroup 2 _) _ _ _ _ |- _ => inversion H; subst; clear H end.
    match goal with H : Matches _ _ (RCat (RIn false [CCat CatNotSpace]) _) _ _ _ _ |- _ => inversion H; subst; clear H end.
    match goal with H : Matches _ _ (RIn false [CCat CatNotSpace]) ?q _ _ _ |- _ => inversion H; subst; clear H end.
    match goal with Hn : nth_error (ws1 ++ kwret ++ ws2) ?q = Some ?y, Hc : class_match UC false [CCat CatNotSpace] ?y = true |- _ =>
      assert (Sp : is_space UC y = true);
      [ rewrite app_assoc in Hn; rewrite nth_error_app2 in Hn by (rewrite app_length; cbn [length kwret] in *; cbn in *; lia);
        exact (W2 _ (nth_error_In _ _ Hn))
      | unfold class_match in Hc; cbn [existsb item_match cat_match] in Hc; rewrite Sp in Hc; cbn in Hc; discriminate Hc ] end.
Qed.

Lemma return_match ws1 ws2 : white ws1 -> white ws2 -> exists e c, rxm R_SCRIPT_RETURN (ws1 ++ kwret ++ ws2) = MYes e c.
Proof.
  intros W1 W2. set (s := ws1 ++ kwret ++ ws2). unfold rxm. rewrite shape_return.
  apply (re_match_complete UC s _ (length s) (cap_set 1 (0, length (ws1 ++ kwret)) [])).
  - cbn [no_look]. rewrite no_look_lits. reflexivity.
  - apply (M_Cat UC s _ _ 0 0 (length s) [] [] _); [apply M_Bol|].
    apply (M_Cat UC s _ _ 0 (length (ws1 ++ kwret)) (length s) [] (cap_set 1 (0, length (ws1 ++ kwret)) []) _).
    + apply M_Group. apply (M_Cat UC s _ _ 0 (length ws1) _ [] [] []).
      * apply (Matches_sp s ws1 [] (kwret ++ ws2) [] W1). reflexivity.
      * apply (Matches_lits s kwret ws1 ws2); [reflexivity|]. rewrite <- app_length. apply M_Rep0.
    + apply (Matches_sp_eol s (ws1 ++ kwret) ws2 _ W2). subst s. rewrite <- app_assoc. reflexivity.
Qed.

Ltac no r kw Ov := rewrite (over_nomatch kw r _ (eq_refl : missing kw r = true) Ov).
Ltac over3 := repeat first [apply over_app | apply over_white; assumption | apply over_sub; intros ? I; exact I].

Theorem classify_return_bare n ws1 ws2 : white ws1 -> white ws2 ->
  classify n (ws1 ++ U "return" ++ ws2) = ROk (KReturn None).
Proof.
  intros W1 W2. pose (kw := U "return").
  assert (Ov : over kw (ws1 ++ kw ++ ws2)) by over3.
  destruct (return_match ws1 ws2 W1 W2) as (e & c & Y).
  assert (G2 : gtext (ws1 ++ kw ++ ws2) c R_SCRIPT_RETURN__expr = []).
  { unfold gtext, group_text, R_SCRIPT_RETURN__expr. rewrite (return_bare_caps ws1 ws2 e c W1 W2); [reflexivity|].
    apply (re_match_sound UC). exact Y. }
  unfold classify. fold kw.
  no R_SCRIPT_ASSIGNMENT kw Ov. no R_SCRIPT_FUNCTION_BEGIN kw Ov. no R_SCRIPT_FUNCTION_END kw Ov.
  no R_SCRIPT_IF_BEGIN kw Ov. no R_SCRIPT_IF_ELSE_IF kw Ov. no R_SCRIPT_IF_ELSE kw Ov. no R_SCRIPT_IF_END kw Ov.
  no R_SCRIPT_WHILE_BEGIN kw Ov. no R_SCRIPT_WHILE_END kw Ov. no R_SCRIPT_FOR_BEGIN kw Ov. no R_SCRIPT_FOR_END kw Ov.
  no R_SCRIPT_BREAK kw Ov. no R_SCRIPT_CONTINUE kw Ov. no R_SCRIPT_LABEL kw Ov. no R_SCRIPT_JUMP kw Ov.
  change (ws1 ++ kwret ++ ws2) with (ws1 ++ kw ++ ws2) in Y. rewrite Y. cbv zeta. rewrite G2. reflexivity.
Qed.
