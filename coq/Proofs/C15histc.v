(* Proofs/C15histc.v — C15 history, part 3: step lemmas for the object functions. *)
From Coq Require Import Lia ZifyBool SpecFloat.
From BS Require Import Model.Base Model.Num Model.LibVal Gen.ArgSpecs Model.LibSeq Proofs.BaseFacts Proofs.C15 Proofs.C15spec
  Proofs.C15hist.
Local Open Scope Z_scope.

Lemma step_objectNew : refines (U "objectNew") sp_objectNew.
Proof.
  intros args h. unfold lib. change (assoc (U "objectNew") raw_table) with (Some raw_objectNew). cbv beta iota.
  unfold raw_objectNew, sp_objectNew.
  match goal with |- context [?g args [] (S (length args))] => set (go := g) end.
  assert (G : forall fuel a acc, (length a < fuel)%nat -> go a acc fuel = kv_of_args a acc).
  { induction fuel as [|fuel IH]; intros a acc L; [lia|].
    destruct a as [|x t]; [reflexivity|]. destruct x; try reflexivity.
    destruct t as [|v t']; [reflexivity|].
    change (go t' (dict_set acc s v) fuel = kv_of_args t' (dict_set acc s v)). apply IH. simpl in L. lia. }
  rewrite G by lia. destruct (kv_of_args args []) as [kv|]; [|reflexivity]. fin.
Qed.

Lemma step_objectCopy : refines (U "objectCopy") sp_objectCopy.
Proof.
  intros args h. destruct args as [|a1 [|a2 rest]].
  - lib_open (U "objectCopy") k_objectCopy. reflexivity.
  - bad_first (U "objectCopy") k_objectCopy a1.
    lib_open (U "objectCopy") k_objectCopy. unfold k_objectCopy, sp_objectCopy. rewrite with_map_abs.
    destruct (hget h l) as [[xs|kv]|]; try reflexivity. fin.
  - destruct a1; lib_open (U "objectCopy") k_objectCopy; reflexivity.
Qed.

Lemma step_objectKeys : refines (U "objectKeys") sp_objectKeys.
Proof.
  intros args h. destruct args as [|a1 [|a2 rest]].
  - lib_open (U "objectKeys") k_objectKeys. reflexivity.
  - bad_first (U "objectKeys") k_objectKeys a1.
    lib_open (U "objectKeys") k_objectKeys. unfold k_objectKeys, sp_objectKeys. rewrite with_map_abs.
    destruct (hget h l) as [[xs|kv]|]; try reflexivity. fin.
  - destruct a1; lib_open (U "objectKeys") k_objectKeys; reflexivity.
Qed.

Lemma step_objectGet : refines (U "objectGet") sp_objectGet.
Proof.
  intros args h. destruct args as [|a1 [|a2 [|a3 [|a4 rest]]]].
  - lib_open (U "objectGet") k_objectGet. reflexivity.
  - destruct a1; lib_open (U "objectGet") k_objectGet; reflexivity.
  - bad_first (U "objectGet") k_objectGet a1. bad_first (U "objectGet") k_objectGet a2.
    lib_open (U "objectGet") k_objectGet. unfold k_objectGet, sp_objectGet. rewrite with_map_abs.
    destruct (hget h l) as [[xs|kv]|]; reflexivity.
  - bad_first (U "objectGet") k_objectGet a1. bad_first (U "objectGet") k_objectGet a2.
    lib_open (U "objectGet") k_objectGet. unfold k_objectGet, sp_objectGet. rewrite with_map_abs.
    destruct (hget h l) as [[xs|kv]|]; reflexivity.
  - bad_first (U "objectGet") k_objectGet a1. destruct a2; lib_open (U "objectGet") k_objectGet; reflexivity.
Qed.

Lemma step_objectHas : refines (U "objectHas") sp_objectHas.
Proof.
  intros args h. destruct args as [|a1 [|a2 [|a3 rest]]].
  - lib_open (U "objectHas") k_objectHas. reflexivity.
  - destruct a1; lib_open (U "objectHas") k_objectHas; reflexivity.
  - bad_first (U "objectHas") k_objectHas a1. bad_first (U "objectHas") k_objectHas a2.
    lib_open (U "objectHas") k_objectHas. unfold k_objectHas, sp_objectHas. rewrite with_map_abs.
    destruct (hget h l) as [[xs|kv]|]; reflexivity.
  - bad_first (U "objectHas") k_objectHas a1. destruct a2; lib_open (U "objectHas") k_objectHas; reflexivity.
Qed.

Lemma step_objectSet : refines (U "objectSet") sp_objectSet.
Proof.
  intros args h. destruct args as [|a1 [|a2 [|a3 [|a4 rest]]]].
  - lib_open (U "objectSet") k_objectSet. reflexivity.
  - destruct a1; lib_open (U "objectSet") k_objectSet; reflexivity.
  - bad_first (U "objectSet") k_objectSet a1. bad_first (U "objectSet") k_objectSet a2.
    lib_open (U "objectSet") k_objectSet. unfold k_objectSet, sp_objectSet. rewrite with_map_abs.
    destruct (hget h l) as [[xs|kv]|]; try reflexivity. fin.
  - bad_first (U "objectSet") k_objectSet a1. bad_first (U "objectSet") k_objectSet a2.
    lib_open (U "objectSet") k_objectSet. unfold k_objectSet, sp_objectSet. rewrite with_map_abs.
    destruct (hget h l) as [[xs|kv]|]; try reflexivity. fin.
  - bad_first (U "objectSet") k_objectSet a1. destruct a2; lib_open (U "objectSet") k_objectSet; reflexivity.
Qed.

Lemma step_objectDelete : refines (U "objectDelete") sp_objectDelete.
Proof.
  intros args h. destruct args as [|a1 [|a2 [|a3 rest]]].
  - lib_open (U "objectDelete") k_objectDelete. reflexivity.
  - destruct a1; lib_open (U "objectDelete") k_objectDelete; reflexivity.
  - bad_first (U "objectDelete") k_objectDelete a1. bad_first (U "objectDelete") k_objectDelete a2.
    lib_open (U "objectDelete") k_objectDelete. unfold k_objectDelete, sp_objectDelete. rewrite with_map_abs.
    destruct (hget h l) as [[xs|kv]|]; try reflexivity. fin.
  - bad_first (U "objectDelete") k_objectDelete a1. destruct a2; lib_open (U "objectDelete") k_objectDelete; reflexivity.
Qed.

Lemma step_objectAssign : refines (U "objectAssign") sp_objectAssign.
Proof.
  intros args h. destruct args as [|a1 [|a2 [|a3 rest]]].
  - lib_open (U "objectAssign") k_objectAssign. reflexivity.
  - destruct a1; lib_open (U "objectAssign") k_objectAssign; reflexivity.
  - bad_first (U "objectAssign") k_objectAssign a1. bad_first (U "objectAssign") k_objectAssign a2.
    lib_open (U "objectAssign") k_objectAssign. unfold k_objectAssign, sp_objectAssign. rewrite with_map_abs.
    destruct (hget h l) as [[xs|kv]|]; try reflexivity; rewrite ?with_map_abs;
      destruct (hget h l0) as [[ys|kv2]|]; try reflexivity. fin.
  - bad_first (U "objectAssign") k_objectAssign a1. destruct a2; lib_open (U "objectAssign") k_objectAssign; reflexivity.
Qed.
