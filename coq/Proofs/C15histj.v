(* Proofs/C15histj.v — C15 history, searches (end): no LFuel on well-formed acyclic heaps; the relational machine is
   deterministic; HISTORY for OPS_X = OPS + strings + arrayIndexOf + arrayLastIndexOf under "no LFuel". *)
From Coq Require Import Lia ZifyBool SpecFloat.
From BS Require Import Model.Base Model.Num Model.LibVal Gen.ArgSpecs Model.LibSeq Proofs.BaseFacts Proofs.C15 Proofs.C15spec
  Proofs.C15hist Proofs.C15histd Proofs.C15spec2 Proofs.C15hists Proofs.C15histt Proofs.C15histg Proofs.C15aeq Proofs.C15histh
  Proofs.C15histi.
Local Open Scope Z_scope.
Local Opaque compare_fuel.

(* ====================================================================== acyclic => never LFuel *)
Lemma index_of_total : forall h v t pos, (forall x, In x t -> veq (compare_fuel h) h x v <> None) -> index_of h t v pos <> None.
Proof.
  induction t as [|a t IH]; intros pos H; cbn [index_of]; [discriminate|].
  destruct (veq (compare_fuel h) h a v) as [[]|] eqn:E; [discriminate | apply IH; intros; apply H; right; assumption |].
  exfalso. apply (H a); [left; reflexivity | exact E].
Qed.
Lemma last_index_of_total : forall h v t pos best, (forall x, In x t -> veq (compare_fuel h) h x v <> None) ->
  last_index_of h t v pos best <> None.
Proof.
  induction t as [|a t IH]; intros pos best H; cbn [last_index_of]; [discriminate|].
  destruct (veq (compare_fuel h) h a v) as [[]|] eqn:E; try (apply IH; intros; apply H; right; assumption).
  exfalso. apply (H a); [left; reflexivity | exact E].
Qed.
Lemma heap_ok_elems : forall h l xs x, heap_ok h = true -> hget h l = Some (CArr xs) -> In x xs -> val_ok h x = true.
Proof.
  intros h l xs x W G I. unfold heap_ok in W. rewrite forallb_forall in W.
  assert (C : cell_ok h (CArr xs) = true) by (apply W; unfold hget in G; eapply nth_error_In; eauto).
  simpl in C. rewrite forallb_forall in C. auto.
Qed.
Lemma In_skipn_ : forall {A} n (l : list A) x, In x (skipn n l) -> In x l.
Proof. induction n; intros [|y l] x H; simpl in *; try tauto. eauto. Qed.
Lemma In_firstn_ : forall {A} n (l : list A) x, In x (firstn n l) -> In x l.
Proof. induction n; intros [|y l] x H; simpl in *; try tauto. destruct H; eauto. Qed.

Lemma first_nofuel_core : forall h l v vi, heap_ok h = true -> acyclic h -> val_ok h v = true ->
  fst (k_arrayIndexOf h [AV (VArr l); AV v; AV vi]) <> LFuel.
Proof.
  intros h l v vi W A V. unfold k_arrayIndexOf, stuck. destruct (hget h l) as [[xs|kv]|] eqn:G; try (cbn [fst]; discriminate).
  destruct (index_guard vi (length xs)) as [[z|]|]; try (cbn [fst]; discriminate).
  destruct (fun_or_not v) as [[id ->]|N]; [cbn [fst]; discriminate|]. rewrite (not_fun_match v) by exact N.
  match goal with |- context [index_of h ?t v ?p] => destruct (index_of h t v p) as [[q|]|] eqn:E end; try (cbn [fst]; discriminate).
  exfalso. revert E. apply index_of_total. intros x I. apply veq_acyclic_answers; auto.
  apply In_skipn_ in I. eapply heap_ok_elems; eauto.
Qed.
Lemma last_nofuel_core : forall h l v vi, heap_ok h = true -> acyclic h -> val_ok h v = true ->
  fst (k_arrayLastIndexOf h [AV (VArr l); AV v; AV vi]) <> LFuel.
Proof.
  intros h l v vi W A V. unfold k_arrayLastIndexOf, stuck. destruct (hget h l) as [[xs|kv]|] eqn:G; try (cbn [fst]; discriminate).
  match goal with |- context [index_guard ?a ?b] => destruct (index_guard a b) as [[z|]|] end; try (cbn [fst]; discriminate).
  destruct (fun_or_not v) as [[id ->]|N]; [cbn [fst]; discriminate|]. rewrite (not_fun_match v) by exact N.
  destruct (z <? 0); [cbn [fst]; discriminate|].
  match goal with |- context [last_index_of h ?t v ?p ?b] => destruct (last_index_of h t v p b) as [[q|]|] eqn:E end;
    try (cbn [fst]; discriminate).
  exfalso. revert E. apply last_index_of_total. intros x I. apply veq_acyclic_answers; auto.
  apply In_firstn_ in I. eapply heap_ok_elems; eauto.
Qed.

Ltac disc := let X := fresh "X" in intro X; cbn [fst] in X; discriminate X.
Ltac goN name k := lib_open name k; repeat first [ disc | progress validate_step | num_cases ].
Ltac split_V A := cbn [forallb] in A; repeat (let H := fresh "V" in apply andb_true_iff in A; destruct A as [H A]).

Lemma nofuel_arrayIndexOf : forall args h, heap_ok h = true -> acyclic h -> forallb (val_ok h) args = true ->
  fst (lib (U "arrayIndexOf") args h) <> LFuel.
Proof.
  intros args h W A V. destruct args as [|a1 [|a2 [|a3 [|a4 rest]]]]; split_V V.
  - goN (U "arrayIndexOf") k_arrayIndexOf.
  - destruct a1; try (goN (U "arrayIndexOf") k_arrayIndexOf; fail).
    lib_open (U "arrayIndexOf") k_arrayIndexOf. apply first_nofuel_core; auto.
  - destruct a1; try (goN (U "arrayIndexOf") k_arrayIndexOf; fail).
    lib_open (U "arrayIndexOf") k_arrayIndexOf. apply first_nofuel_core; auto.
  - destruct a1; try (goN (U "arrayIndexOf") k_arrayIndexOf; fail).
    destruct a3; try (goN (U "arrayIndexOf") k_arrayIndexOf; fail).
    lib_open (U "arrayIndexOf") k_arrayIndexOf. num_cases; try disc. validate_step. apply first_nofuel_core; auto.
  - destruct a1; try (goN (U "arrayIndexOf") k_arrayIndexOf; fail).
    destruct a3; goN (U "arrayIndexOf") k_arrayIndexOf.
Qed.
Lemma nofuel_arrayLastIndexOf : forall args h, heap_ok h = true -> acyclic h -> forallb (val_ok h) args = true ->
  fst (lib (U "arrayLastIndexOf") args h) <> LFuel.
Proof.
  intros args h W A V. destruct args as [|a1 [|a2 [|a3 [|a4 rest]]]]; split_V V.
  - goN (U "arrayLastIndexOf") k_arrayLastIndexOf.
  - destruct a1; try (goN (U "arrayLastIndexOf") k_arrayLastIndexOf; fail).
    lib_open (U "arrayLastIndexOf") k_arrayLastIndexOf. apply last_nofuel_core; auto.
  - destruct a1; try (goN (U "arrayLastIndexOf") k_arrayLastIndexOf; fail).
    lib_open (U "arrayLastIndexOf") k_arrayLastIndexOf. apply last_nofuel_core; auto.
  - destruct a1; try (goN (U "arrayLastIndexOf") k_arrayLastIndexOf; fail).
    destruct a3; try (goN (U "arrayLastIndexOf") k_arrayLastIndexOf; fail).
    + lib_open (U "arrayLastIndexOf") k_arrayLastIndexOf. apply last_nofuel_core; auto.
    + lib_open (U "arrayLastIndexOf") k_arrayLastIndexOf. num_cases; try disc. validate_step. apply last_nofuel_core; auto.
  - destruct a1; try (goN (U "arrayLastIndexOf") k_arrayLastIndexOf; fail).
    destruct a3; goN (U "arrayLastIndexOf") k_arrayLastIndexOf.
Qed.

Lemma is_search_cases : forall f rq, search_rq f = Some rq ->
  (f = U "arrayIndexOf" /\ rq = rq_arrayIndexOf) \/ (f = U "arrayLastIndexOf" /\ rq = rq_arrayLastIndexOf).
Proof.
  unfold search_rq. intros f rq H.
  destruct (str_eqb f (U "arrayIndexOf")) eqn:E1; [apply str_eqb_eq in E1; inv H; auto|].
  destruct (str_eqb f (U "arrayLastIndexOf")) eqn:E2; [apply str_eqb_eq in E2; inv H; auto|]. discriminate.
Qed.

Theorem search_no_fuel_acyclic : forall f args h, is_search f = true -> heap_ok h = true -> acyclic h ->
  forallb (val_ok h) args = true -> fst (lib f args h) <> LFuel.
Proof.
  intros f args h S W A V. unfold is_search in S. destruct (search_rq f) as [rq|] eqn:R; [|discriminate].
  destruct (is_search_cases f rq R) as [[-> _]|[-> _]]; [apply nofuel_arrayIndexOf | apply nofuel_arrayLastIndexOf]; auto.
Qed.

Theorem search_rq_refines : forall f rq, search_rq f = Some rq -> refinesR f rq.
Proof. intros f rq R. destruct (is_search_cases f rq R) as [[-> ->]|[-> ->]]; [exact stepR_arrayIndexOf | exact stepR_arrayLastIndexOf]. Qed.

(* ====================================================================== the relational machine is deterministic *)
Lemma first_match_det : forall m xs v from r1 r2, first_match m xs v from r1 -> first_match m xs v from r2 -> r1 = r2.
Proof.
  intros m xs v from r1 r2 H1 H2.
  destruct H1 as [[E1 A1]|(i1 & x1 & E1 & L1 & N1 & T1 & F1)]; destruct H2 as [[E2 A2]|(i2 & x2 & E2 & L2 & N2 & T2 & F2)]; subst; auto.
  - pose proof (aeq_det _ _ _ _ _ (A1 i2 x2 L2 N2) T2). discriminate.
  - pose proof (aeq_det _ _ _ _ _ (A2 i1 x1 L1 N1) T1). discriminate.
  - destruct (lt_eq_lt_dec i1 i2) as [[Lt| -> ]|Lt]; [| reflexivity |].
    + pose proof (aeq_det _ _ _ _ _ (F2 i1 x1 (conj L1 Lt) N1) T1). discriminate.
    + pose proof (aeq_det _ _ _ _ _ (F1 i2 x2 (conj L2 Lt) N2) T2). discriminate.
Qed.
Lemma last_match_det : forall m xs v upto r1 r2, last_match m xs v upto r1 -> last_match m xs v upto r2 -> r1 = r2.
Proof.
  intros m xs v from r1 r2 H1 H2.
  destruct H1 as [[E1 A1]|(i1 & x1 & E1 & L1 & N1 & T1 & F1)]; destruct H2 as [[E2 A2]|(i2 & x2 & E2 & L2 & N2 & T2 & F2)]; subst; auto.
  - pose proof (aeq_det _ _ _ _ _ (A1 i2 x2 L2 N2) T2). discriminate.
  - pose proof (aeq_det _ _ _ _ _ (A2 i1 x1 L1 N1) T1). discriminate.
  - destruct (lt_eq_lt_dec i1 i2) as [[Lt| -> ]|Lt]; [| reflexivity |].
    + pose proof (aeq_det _ _ _ _ _ (F1 i2 x2 (conj Lt L2) N2) T2). discriminate.
    + pose proof (aeq_det _ _ _ _ _ (F2 i1 x1 (conj Lt L1) N1) T1). discriminate.
Qed.
Lemma search_out_det : forall m rq o1 o2, search_out m rq o1 -> search_out m rq o2 -> o1 = o2.
Proof.
  intros m rq o1 o2 H1 H2. destruct H1; inv H2; try reflexivity.
  - f_equal. f_equal. f_equal. eapply first_match_det; eauto.
  - f_equal. f_equal. f_equal. eapply last_match_det; eauto.
Qed.
Lemma search_not_ops : forall f rq, search_rq f = Some rq -> in_OPS_s f = false.
Proof. intros f rq R. destruct (is_search_cases f rq R) as [[-> _]|[-> _]]; vm_compute; reflexivity. Qed.
Lemma callR_det : forall f args m o1 o2, callR f args m o1 -> callR f args m o2 -> o1 = o2.
Proof.
  intros f args m o1 o2 H1 H2. destruct H1 as [I1|rq1 out1 R1 S1]; destruct H2 as [I2|rq2 out2 R2 S2].
  - reflexivity.
  - rewrite (search_not_ops _ _ R2) in I1. discriminate.
  - rewrite (search_not_ops _ _ R1) in I2. discriminate.
  - rewrite R1 in R2. inv R2. eapply search_out_det; eauto.
Qed.
Theorem stepR_det : forall s o a b, stepR s o a -> stepR s o b -> a = b.
Proof.
  intros s o a b H1 H2. destruct H1; inv H2; try reflexivity; try congruence.
  match goal with A : eval_args _ _ = Some ?v1, B : eval_args _ _ = Some ?v2 |- _ => rewrite A in B; inv B end.
  f_equal. eapply callR_det; eauto.
Qed.
Theorem runR_det : forall ops s a b, runR s ops a -> runR s ops b -> a = b.
Proof.
  induction ops as [|o ops IH]; intros s a b H1 H2; inv H1; inv H2; [reflexivity|].
  match goal with A : stepR s o ?x, B : stepR s o ?y |- _ => pose proof (stepR_det _ _ _ _ A B); subst end. eauto.
Qed.

(* ====================================================================== HISTORY for OPS_X *)
Lemma wrapper_bind : forall e r h',
  abs_st (match wrapper r with Some v => Some (e ++ [v], h') | None => None end) = bind_result e (abs_call (r, h')).
Proof. destruct r; reflexivity. Qed.

Lemma stepR_refines : forall s o, op_in_OPS_x o = true -> op_no_fuel s o -> stepR (abs_st s) o (abs_st (run_op s o)).
Proof.
  intros [[e h]|] o O NF; [|apply stepR_none]. destruct o as [f l|n|v]; cbn [run_op abs_st].
  - destruct (eval_args e l) as [vs|] eqn:Ev; [|apply stepR_noargs; exact Ev].
    cbn [op_no_fuel] in NF. rewrite Ev in NF. destruct (lib f vs h) as [r h'] eqn:L. rewrite wrapper_bind.
    apply stepR_call with (vs := vs); [exact Ev|].
    cbn [op_in_OPS_x] in O. unfold in_OPS_x in O. apply orb_true_iff in O. destruct O as [O|O].
    + rewrite <- L, (spec_call_s_refines f O). apply callR_fun. exact O.
    + unfold is_search in O. destruct (search_rq f) as [rq|] eqn:R; [|discriminate].
      apply callR_search with (rq := rq); [exact R|]. rewrite <- L. apply (search_rq_refines f rq R). rewrite L. exact NF.
  - pose proof (stepR_alias e (abs h) n) as X. destruct (nth_error e n); exact X.
  - apply stepR_lit.
Qed.

Theorem history_search : forall ops s, forallb op_in_OPS_x ops = true -> no_fuel ops s ->
  runR (abs_st s) ops (abs_st (fold_left run_op ops s)).
Proof.
  induction ops as [|o ops IH]; intros s O NF; [apply runR_nil|].
  cbn [forallb] in O. apply andb_true_iff in O. destruct O as [Oo O]. destruct NF as [NFo NF].
  cbn [fold_left]. eapply runR_cons; [apply stepR_refines; eauto | apply IH; auto].
Qed.

(* on functions of OPS_S the relational machine is the functional one *)
Lemma stepR_functional_on_OPS_s : forall st o, op_in_OPS_s o = true -> stepR st o (spec_step_s st o).
Proof.
  intros [[e m]|] o O; [|apply stepR_none]. destruct o as [f l|n|v]; cbn [spec_step_s step_in].
  - unfold spec_step_s, step_in. destruct (eval_args e l) as [vs|] eqn:Ev; [|apply stepR_noargs; exact Ev].
    change (match call_in spec_table_s f vs m with Some (r, m') => Some (e ++ [sres_value r], m') | None => None end)
      with (bind_result e (spec_call_s f vs m)).
    apply stepR_call with (vs := vs); [exact Ev | apply callR_fun; exact O].
  - apply stepR_alias.
  - apply stepR_lit.
Qed.
