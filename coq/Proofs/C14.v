(* Proofs/C14.v — lemmas and proofs for property C14 (JSON serialisation is faithful):
   assembly of the layers (Proofs/C14a.v strings, C14b.v clean-up, C14c.v reader). *)
From Coq Require Import Lia ZifyBool Permutation.
From BS Require Import Model.Base Model.Regex Model.Json Model.JsonRe Gen.Regexes Proofs.C14a Proofs.C14b Proofs.C14c.

(* ---- the regenerated clean-up regex and the scanner the theorems are about are the same
   function on every string of length <= 5 over {quote, backslash, point, zero, comma, a, newline}
   (19608 strings; evaluated by vm_compute on the regex as it is in value.py NOW) *)
Lemma cleanup_regex_is_scanner_small :
  forallb cleanup_agree (all_strings [34; 92; 46; 48; 44; 97; 10]%N 5) = true.
Proof. vm_compute. reflexivity. Qed.

(* ---------------------------------------------------------------- well-formedness is kept by the layers *)
Lemma forallb_ins_key {A} (P : str * A -> bool) kv l : forallb P (ins_key kv l) = P kv && forallb P l.
Proof.
  induction l as [|kv' t IH]; [reflexivity|]. simpl. destruct (key_leb (fst kv) (fst kv')); [reflexivity|].
  simpl. rewrite IH. destruct (P kv), (P kv'); reflexivity.
Qed.
Lemma forallb_sort_keys {A} (P : str * A -> bool) l : forallb P (sort_keys l) = forallb P l.
Proof. induction l as [|kv t IH]; [reflexivity|]. simpl. rewrite forallb_ins_key, IH. reflexivity. Qed.

Lemma forallb_map_Forall {A B} (P : B -> bool) (Q : A -> bool) (f : A -> B) l :
  Forall (fun x => Q x = true -> P (f x) = true) l -> forallb Q l = true -> forallb P (map f l) = true.
Proof.
  induction 1 as [|x t Hx Ht IH]; [reflexivity|]. simpl. intros H. apply andb_prop in H. destruct H as [H1 H2].
  rewrite Hx by exact H1. apply IH. exact H2.
Qed.

Lemma wf_sortv v : wf v = true -> wf (sortv v) = true.
Proof.
  induction v as [| b | n | s | l IH | m IH] using jvalue_ind'; intros H; try exact H.
  - simpl in *. apply (forallb_map_Forall wf wf sortv l IH H).
  - simpl in *. rewrite forallb_sort_keys.
    apply (forallb_map_Forall _ (fun kv => scalar_str (fst kv) && wf (snd kv)) (fun kv => (fst kv, sortv (snd kv)))); [|exact H].
    eapply Forall_impl; [|exact IH]. intros [k x] Hx Hk. cbn [fst snd] in *. apply andb_prop in Hk. destruct Hk as [Hk1 Hk2].
    rewrite Hk1. apply Hx. exact Hk2.
Qed.

Lemma strip_num_ok n : num_ok n = true -> num_ok (strip_num n) = true.
Proof.
  destruct n as [neg ip fr ex]. unfold strip_num, num_ok. cbn [n_neg n_int n_frac n_exp].
  destruct fr as [f|]; [|auto]. destruct ex as [[sg e]|]; [auto|]. destruct (all_zero f); [|auto].
  cbn [n_neg n_int n_frac n_exp]. intros H. apply andb_prop in H. destruct H as [H _]. apply andb_prop in H. destruct H as [H _].
  rewrite H. reflexivity.
Qed.

Lemma wf_stripv v : wf v = true -> wf (stripv v) = true.
Proof.
  induction v as [| b | n | s | l IH | m IH] using jvalue_ind'; intros H; try exact H.
  - simpl in *. apply strip_num_ok. exact H.
  - simpl in *. apply (forallb_map_Forall wf wf stripv l IH H).
  - simpl in *.
    apply (forallb_map_Forall _ (fun kv => scalar_str (fst kv) && wf (snd kv)) (fun kv => (fst kv, stripv (snd kv)))); [|exact H].
    eapply Forall_impl; [|exact IH]. intros [k x] Hx Hk. cbn [fst snd] in *. apply andb_prop in Hk. destruct Hk as [Hk1 Hk2].
    rewrite Hk1. apply Hx. exact Hk2.
Qed.

Lemma wf_canon v : wf v = true -> wf (canon v) = true.
Proof. intros H. apply wf_stripv, wf_sortv, H. Qed.

(* ---------------------------------------------------------------- the reader's fuel is covered by the text length *)
Lemma cost_le_length ind v : wf v = true -> forall lvl, (cost v <= length (render ind lvl v))%nat.
Proof.
  induction v as [| b | n | s | l IH | m IH] using jvalue_ind'; intros Hwf lvl.
  - simpl. lia.
  - destruct b; simpl; lia.
  - simpl in Hwf. unfold num_ok in Hwf. apply andb_prop in Hwf. destruct Hwf as [H _]. apply andb_prop in H. destruct H as [H _].
    destruct (int_ok_head _ H) as [c [t [E _]]]. simpl. unfold num_text. rewrite E. rewrite !app_length. simpl. lia.
  - simpl. lia.
  - destruct l as [|x t]; [simpl; lia|].
    rewrite render_arr_cons. simpl in Hwf. apply andb_prop in Hwf. destruct Hwf as [Wx Wt]. inversion IH as [|? ? Hx Ht]; subst.
    assert (Htl : (fold_right (fun x a => S (cost x + a)) 0 t
                  <= length (flat_map (fun y => 44%N :: nl ind (S lvl) ++ render ind (S lvl) y) t))%nat).
    { clear Hx Wx IH. induction t as [|y t IHt]; [simpl; lia|].
      inversion Ht as [|? ? Hy Ht']; subst. simpl in Wt. apply andb_prop in Wt. destruct Wt as [Wy Wt].
      cbn [fold_right flat_map]. rewrite app_length. cbn [length]. rewrite app_length.
      specialize (Hy Wy (S lvl)). specialize (IHt Wt Ht'). lia. }
    specialize (Hx Wx (S lvl)). cbn [cost fold_right length]. rewrite !app_length. cbn [length]. lia.
  - destruct m as [|kx t]; [simpl; lia|].
    rewrite render_obj_cons. simpl in Hwf. apply andb_prop in Hwf. destruct Hwf as [Wx Wt]. apply andb_prop in Wx. destruct Wx as [_ Wx].
    inversion IH as [|? ? Hx Ht]; subst.
    assert (Htl : (fold_right (fun kv a => S (cost (snd kv) + a)) 0 t
                  <= length (flat_map (fun ky => 44%N :: nl ind (S lvl) ++ esc_string (fst ky) ++ colon ind ++ render ind (S lvl) (snd ky)) t))%nat).
    { clear Hx Wx IH. induction t as [|y t IHt]; [simpl; lia|].
      inversion Ht as [|? ? Hy Ht']; subst. simpl in Wt. apply andb_prop in Wt. destruct Wt as [Wy Wt].
      apply andb_prop in Wy. destruct Wy as [_ Wy].
      cbn [fold_right flat_map]. rewrite app_length. cbn [length]. rewrite !app_length.
      specialize (Hy Wy (S lvl)). specialize (IHt Wt Ht'). lia. }
    specialize (Hx Wx (S lvl)). cbn [cost fold_right length]. rewrite !app_length. cbn [length]. lia.
Qed.

(* ---------------------------------------------------------------- C14: the round trip *)
Lemma encode_is_render_canon indent v : wf v = true ->
  encode indent v = render (norm_indent indent) 0 (canon v).
Proof.
  intros H. unfold encode, encode_raw, cleanup, canon.
  rewrite <- (app_nil_r (render (norm_indent indent) 0 (sortv v))).
  rewrite scan_render by (try apply wf_sortv; auto). simpl. apply app_nil_r.
Qed.

Lemma roundtrip indent v : wf v = true -> decode (encode indent v) = DecOk (canon v).
Proof.
  intros H. rewrite encode_is_render_canon by exact H.
  pose proof (wf_canon v H) as Hc.
  unfold decode.
  set (text := render (norm_indent indent) 0 (canon v)).
  assert (Hs : skip_ws text = text).
  { apply skip_ws_start. unfold text. rewrite <- (app_nil_r (render _ _ _)). apply render_starts. exact Hc. }
  rewrite Hs. unfold text at 2. rewrite <- (app_nil_r (render _ _ _)).
  rewrite (render_reads_back (norm_indent indent) (canon v) Hc 0%nat [] (S (2 * length text))).
  - reflexivity.
  - reflexivity.
  - pose proof (cost_le_length (norm_indent indent) (canon v) Hc 0%nat). unfold text. lia.
Qed.

Lemma encode_injective indent v1 v2 : wf v1 = true -> wf v2 = true ->
  encode indent v1 = encode indent v2 -> canon v1 = canon v2.
Proof.
  intros H1 H2 E. pose proof (roundtrip indent v1 H1) as R1. pose proof (roundtrip indent v2 H2) as R2.
  rewrite E in R1. rewrite R1 in R2. inversion R2. reflexivity.
Qed.

(* ---------------------------------------------------------------- keys come out sorted *)
Fixpoint keys_sorted (l : list str) : bool :=
  match l with
  | [] => true
  | a :: t => match t with [] => true | b :: _ => key_leb a b end && keys_sorted t
  end.
Fixpoint all_sorted (v : jvalue) : bool :=
  match v with
  | JArr l => forallb all_sorted l
  | JObj m => keys_sorted (map fst m) && forallb (fun kv => all_sorted (snd kv)) m
  | _ => true
  end.

Lemma str_compare_antisym a : forall b, str_compare b a = CompOpp (str_compare a b).
Proof.
  induction a as [|x a IH]; intros [|y b]; try reflexivity.
  simpl. rewrite (N.compare_antisym x y). destruct (x ?= y)%N; simpl; auto.
Qed.
Lemma key_leb_total a b : key_leb a b = false -> key_leb b a = true.
Proof. unfold key_leb. rewrite (str_compare_antisym a b). destruct (str_compare a b); simpl; congruence. Qed.

Lemma ins_sorted {A} (kv : str * A) l : keys_sorted (map fst l) = true -> keys_sorted (map fst (ins_key kv l)) = true.
Proof.
  induction l as [|kv' t IH]; [reflexivity|]. intros H.
  cbn [ins_key]. destruct (key_leb (fst kv) (fst kv')) eqn:E.
  - cbn [map keys_sorted] in *. rewrite E. exact H.
  - apply key_leb_total in E. destruct t as [|kv'' t'].
    + cbn [ins_key map keys_sorted]. rewrite E. reflexivity.
    + cbn [map keys_sorted] in H. apply andb_prop in H. destruct H as [H1 H2].
      specialize (IH H2). cbn [ins_key] in *. destruct (key_leb (fst kv) (fst kv'')) eqn:E2.
      * cbn [map keys_sorted]. rewrite E, E2. exact H2.
      * cbn [map keys_sorted] in *. rewrite H1. exact IH.
Qed.
Lemma sort_keys_sorted {A} (l : list (str * A)) : keys_sorted (map fst (sort_keys l)) = true.
Proof. induction l as [|kv t IH]; [reflexivity|]. simpl. apply ins_sorted. exact IH. Qed.

Lemma forallb_map_all {A B} (P : B -> bool) (f : A -> B) l : Forall (fun x => P (f x) = true) l -> forallb P (map f l) = true.
Proof. induction 1 as [|x t Hx Ht IH]; [reflexivity|]. simpl. rewrite Hx. exact IH. Qed.

Lemma sortv_sorted v : all_sorted (sortv v) = true.
Proof.
  induction v as [| b | n | s | l IH | m IH] using jvalue_ind'; try reflexivity.
  - simpl. apply forallb_map_all. exact IH.
  - simpl. rewrite sort_keys_sorted. rewrite forallb_sort_keys. apply forallb_map_all. exact IH.
Qed.

Lemma map_fst_strip (m : list (str * jvalue)) : map fst (map (fun kv => (fst kv, stripv (snd kv))) m) = map fst m.
Proof. induction m as [|kv t IH]; [reflexivity|]. simpl. rewrite IH. reflexivity. Qed.

Lemma stripv_sorted v : all_sorted v = true -> all_sorted (stripv v) = true.
Proof.
  induction v as [| b | n | s | l IH | m IH] using jvalue_ind'; intros H; try reflexivity.
  - simpl in *. apply (forallb_map_Forall all_sorted all_sorted stripv l IH H).
  - simpl in *. apply andb_prop in H. destruct H as [H1 H2]. rewrite map_fst_strip, H1.
    apply (forallb_map_Forall (fun kv => all_sorted (snd kv)) (fun kv => all_sorted (snd kv)) (fun kv => (fst kv, stripv (snd kv)))); [|exact H2].
    exact IH.
Qed.

Lemma canon_sorted v : all_sorted (canon v) = true.
Proof. apply stripv_sorted, sortv_sorted. Qed.

(* ---------------------------------------------------------------- no integral fraction survives *)
Definition frac_kept_ok (n : jnum) : bool :=
  match n_frac n, n_exp n with Some f, None => negb (all_zero f) | _, _ => true end.
Fixpoint no_zero_fraction (v : jvalue) : bool :=
  match v with
  | JNum n => frac_kept_ok n
  | JArr l => forallb no_zero_fraction l
  | JObj m => forallb (fun kv => no_zero_fraction (snd kv)) m
  | _ => true
  end.
Lemma strip_num_frac n : frac_kept_ok (strip_num n) = true.
Proof.
  destruct n as [neg ip fr ex]. unfold strip_num, frac_kept_ok. cbn [n_neg n_int n_frac n_exp].
  destruct fr as [f|]; [|reflexivity]. destruct ex as [[sg e]|]; [reflexivity|]. destruct (all_zero f) eqn:E; cbn [n_frac n_exp]; [reflexivity|].
  rewrite E. reflexivity.
Qed.
Lemma stripv_no_zero_fraction v : no_zero_fraction (stripv v) = true.
Proof.
  induction v as [| b | n | s | l IH | m IH] using jvalue_ind'; try reflexivity.
  - simpl. apply strip_num_frac.
  - simpl. apply forallb_map_all. exact IH.
  - simpl. apply forallb_map_all. exact IH.
Qed.
Lemma canon_no_zero_fraction v : no_zero_fraction (canon v) = true.
Proof. apply stripv_no_zero_fraction. Qed.

(* ---------------------------------------------------------------- canon v is the same JSON value as v *)
(* numbers: the decimal value mant * 10^exp10 of a token *)
Definition dval (s : str) (acc : Z) : Z := fold_left (fun a c => (a * 10 + (Z.of_N c - 48))%Z) s acc.
Definition num_mant (n : jnum) : Z :=
  let m := dval (n_int n ++ match n_frac n with Some f => f | None => [] end) 0 in if n_neg n then (- m)%Z else m.
Definition num_exp10 (n : jnum) : Z :=
  ((match n_exp n with Some (ESMinus, e) => - dval e 0 | Some (_, e) => dval e 0 | None => 0 end)
   - Z.of_nat (length (match n_frac n with Some f => f | None => [] end)))%Z.

Lemma dval_zeros f : forall acc, all_zero f = true -> dval f acc = (acc * 10 ^ Z.of_nat (length f))%Z.
Proof.
  induction f as [|c f IH]; intros acc H.
  - simpl. lia.
  - unfold all_zero in H. simpl in H. apply andb_prop in H. destruct H as [Hc Hf].
    assert (c = 48%N) by lia. subst c. unfold dval in *. cbn [fold_left length]. rewrite IH by exact Hf.
    rewrite Nat2Z.inj_succ, Z.pow_succ_r by lia. change (Z.of_N 48 - 48)%Z with 0%Z. ring.
Qed.

(* mant(n) * 10^exp10(n) = mant(strip n) * 10^exp10(strip n), written without fractions of integers *)
Lemma strip_num_value n :
  (num_exp10 n <= num_exp10 (strip_num n))%Z /\
  num_mant n = (num_mant (strip_num n) * 10 ^ (num_exp10 (strip_num n) - num_exp10 n))%Z.
Proof.
  destruct n as [neg ip fr ex]. unfold strip_num. cbn [n_neg n_int n_frac n_exp].
  assert (Hsame : forall m : jnum, (num_exp10 m <= num_exp10 m)%Z /\ num_mant m = (num_mant m * 10 ^ (num_exp10 m - num_exp10 m))%Z).
  { intros m. split; [lia|]. rewrite Z.sub_diag. simpl. lia. }
  destruct fr as [f|]; [|apply Hsame]. destruct ex as [[sg e]|]; [apply Hsame|]. destruct (all_zero f) eqn:E; [|apply Hsame].
  unfold num_exp10, num_mant. cbn [n_neg n_int n_frac n_exp length]. rewrite app_nil_r.
  split; [lia|].
  assert (Hd : dval (ip ++ f) 0 = (dval ip 0 * 10 ^ Z.of_nat (length f))%Z).
  { unfold dval at 1. rewrite fold_left_app. fold (dval ip 0). fold (dval f (dval ip 0)). apply dval_zeros. exact E. }
  rewrite Hd.
  replace (0 - Z.of_nat 0 - (0 - Z.of_nat (length f)))%Z with (Z.of_nat (length f)) by lia.
  destruct neg; ring.
Qed.

Inductive same_value : jvalue -> jvalue -> Prop :=
| SV_null : same_value JNull JNull
| SV_bool b : same_value (JBool b) (JBool b)
| SV_num n : same_value (JNum n) (JNum (strip_num n))          (* same decimal value: strip_num_value *)
| SV_str s : same_value (JStr s) (JStr s)
| SV_arr l l' : Forall2 same_value l l' -> same_value (JArr l) (JArr l')
| SV_obj m m1 m' :
    Forall2 (fun kv kv' => fst kv = fst kv' /\ same_value (snd kv) (snd kv')) m m1 ->
    Permutation m1 m' -> same_value (JObj m) (JObj m').

Lemma ins_key_perm {A} (kv : str * A) l : Permutation (ins_key kv l) (kv :: l).
Proof.
  induction l as [|kv' t IH]; [apply Permutation_refl|]. simpl. destruct (key_leb (fst kv) (fst kv')).
  - apply Permutation_refl.
  - eapply Permutation_trans; [apply perm_skip, IH|]. apply perm_swap.
Qed.
Lemma sort_keys_perm {A} (l : list (str * A)) : Permutation (sort_keys l) l.
Proof.
  induction l as [|kv t IH]; [apply Permutation_refl|]. simpl.
  eapply Permutation_trans; [apply ins_key_perm|]. apply perm_skip, IH.
Qed.

Lemma canon_same_value v : same_value v (canon v).
Proof.
  induction v as [| b | n | s | l IH | m IH] using jvalue_ind'; try (constructor; fail).
  - unfold canon. simpl. rewrite map_map. apply SV_arr.
    induction IH as [|x t Hx Ht IHt]; constructor; [exact Hx|exact IHt].
  - unfold canon. cbn [sortv stripv].
    apply (SV_obj m (map (fun kv => (fst kv, canon (snd kv))) m)).
    + induction IH as [|kv t Hx Ht IHt]; constructor; [split; [reflexivity|exact Hx]|exact IHt].
    + replace (map (fun kv => (fst kv, canon (snd kv))) m)
        with (map (fun kv : str * jvalue => (fst kv, stripv (snd kv))) (map (fun kv => (fst kv, sortv (snd kv))) m))
        by (rewrite map_map; reflexivity).
      apply Permutation_map. apply Permutation_sym. apply sort_keys_perm.
Qed.

(* ---------------------------------------------------------------- witnesses *)
Lemma surrogate_pair_witness :
  wf (JStr [55357; 56832]%N) = false /\
  decode (encode None (JStr [55357; 56832]%N)) = DecOk (JStr [128512%N]).
Proof. split; vm_compute; reflexivity. Qed.

Definition nonvac_value : jvalue :=
  JObj [(U "b", JArr [JNum (JN false (U "1") (Some (U "0")) None); JStr (U "etc., x.0]"); JNull; JArr []; JObj [];
                      JNum (JN false (U "1") (Some (U "50")) (Some (ESPlus, U "16")))]);
        (U "a.0,", JNum (JN true (U "0") (Some (U "0")) None));
        ([128512%N; 92%N], JStr [34%N; 92%N; 10%N; 233%N; 65535%N; 1114111%N])].
Definition nonvac_text : str :=
  U "{\000022a.0,\000022:-0,\000022b\000022:[1,\000022etc., x.0]\000022,null,[],{},1.50e+16],\000022\00005cud83d\00005cude00\00005c\00005c\000022:\000022\00005c\000022\00005c\00005c\00005cn\00005cu00e9\00005cuffff\00005cudbff\00005cudfff\000022}".
Lemma nonvacuous :
  wf nonvac_value = true /\ decode (encode (Some 3%nat) nonvac_value) = DecOk (canon nonvac_value)
  /\ jvalue_eqb (canon nonvac_value) nonvac_value = false /\ encode None nonvac_value = nonvac_text.
Proof. split; [|split; [|split]]; vm_compute; reflexivity. Qed.
