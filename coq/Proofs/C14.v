(* Proofs/C14.v — lemmas and proofs for property C14 (JSON serialisation is faithful):
   assembly of the layers (Proofs/C14a.v strings, C14b.v clean-up, C14c.v reader). *)
From Coq Require Import Lia ZifyBool Permutation.
From BS Require Import Model.Base Model.Regex Model.Json Model.JsonRe Gen.Regexes Proofs.C14a Proofs.C14b Proofs.C14c.

(* ---- the regenerated clean-up regex and the scanner the theorems are about are the same
   function on every string of length <= 5 over {quote, backslash, point, zero, comma, a, newline}
   (19608 strings; evaluated by vm_compute on the regex as it is in value.py NOW) *)
Lemma cleanup_regex_is_scanner_small :
  forallb cleanup_agree (all_strings [34; 92; 46; 48; 44; 97; 10]%N 5) = true.
Proof. vm_compute. reflexivity. Qed.

(* ---------------------------------------------------------------- well-formedness is kept by the layers *)
Lemma forallb_ins_key {A} (P : str * A -> bool) kv l : forallb P (ins_key kv l) = P kv && forallb P l.
Proof.
  induction l as [|kv' t IH]; [reflexivity|]. simpl. destruct (key_leb (fst kv) (fst kv')); [reflexivity|].
  simpl. rewrite IH. destruct (P kv), (P kv'); reflexivity.
Qed.
Lemma forallb_sort_keys {A} (P : str * A -> bool) l : forallb P (sort_keys l) = forallb P l.
Proof. induction l as [|kv t IH]; [reflexivity|]. simpl. rewrite forallb_ins_key, IH. reflexivity. Qed.

Lemma forallb_map_Forall {A B} (P : B -> bool) (Q : A -> bool) (f : A -> B) l :
  Forall (fun x => Q x = true -> P (f x) = true) l -> forallb Q l = true -> forallb P (map f l) = true.
Proof.
  induction 1 as [|x t Hx Ht IH]; [reflexivity|]. simpl. intros H. apply andb_prop in H. destruct H as [H1 H2].
  rewrite Hx by exact H1. apply IH. exact H2.
Qed.

Lemma wf_sortv v : wf v = true -> wf (sortv v) = true.
Proof.
  induction v as [| b | n | s | l IH | m IH] using jvalue_ind'; intros H; try exact H.
  - simpl in *. apply (forallb_map_Forall wf wf sortv l IH H).
  - simpl in *. rewrite forallb_sort_keys.
    apply (forallb_map_Forall _ (fun kv => scalar_str (fst kv) && wf (snd kv)) (fun kv => (fst kv, sortv (snd kv)))); [|exact H].
    eapply Forall_impl; [|exact IH]. intros [k x] Hx Hk. cbn [fst snd] in *. apply andb_prop in Hk. destruct Hk as [Hk1 Hk2].
    rewrite Hk1. apply Hx. exact Hk2.
Qed.

Lemma strip_num_ok n : num_ok n = true -> num_ok (strip_num n) = true.
Proof.
  destruct n as [neg ip fr ex]. unfold strip_num, num_ok. cbn [n_neg n_int n_frac n_exp].
  destruct fr as [f|]; [|auto]. destruct ex as [[sg e]|]; [auto|]. destruct (all_zero f); [|auto].
  cbn [n_neg n_int n_frac n_exp]. intros H. apply andb_prop in H. destruct H as [H _]. apply andb_prop in H. destruct H as [H _].
  rewrite H. reflexivity.
Qed.

Lemma wf_stripv v : wf v = true -> wf (stripv v) = true.
Proof.
  induction v as [| b | n | s | l IH | m IH] using jvalue_ind'; intros H; try exact H.
  - simpl in *. apply strip_num_ok. exact H.
  - simpl in *. apply (forallb_map_Forall wf wf stripv l IH H).
  - simpl in *.
    apply (forallb_map_Forall _ (fun kv => scalar_str (fst kv) && wf (snd kv)) (fun kv => (fst kv, stripv (snd kv)))); [|exact H].
    eapply Forall_impl; [|exact IH]. intros [k x] Hx Hk. cbn [fst snd] in *. apply andb_prop in Hk. destruct Hk as [Hk1 Hk2].
    rewrite Hk1. apply Hx. exact Hk2.
Qed.

Lemma wf_canon v : wf v = true -> wf (canon v) = true.
Proof. intros H. apply wf_stripv, wf_sortv, H. Qed.

(* ---------------------------------------------------------------- the reader's fuel is covered by the text length *)
Lemma cost_le_length ind v : wf v = true -> forall lvl, (cost v <= length (render ind lvl v))%nat.
Proof.
  induction v as [| b | n | s | l IH | m IH] using jvalue_ind'; intros Hwf lvl.
  - simpl. lia.
  - destruct b; simpl; lia.
  - simpl in Hwf. unfold num_ok in Hwf. apply andb_prop in Hwf. destruct Hwf as [H _]. apply andb_prop in H. destruct H as [H _].
    destruct (int_ok_head _ H) as [c [t [E _]]]. simpl. unfold num_text. rewrite E. rewrite !app_length. simpl. lia.
  - simpl. lia.
  - destruct l as [|x t]; [simpl; lia|].
    rewrite render_arr_cons. simpl in Hwf. apply andb_prop in Hwf. destruct Hwf as [Wx Wt]. inversion IH as [|? ? Hx Ht]; subst.
    assert (Htl : (fold_right (fun x a => S (cost x + a)) 0 t
                  <= length (flat_map (fun y => 44%N :: nl ind (S lvl) ++ render ind (S lvl) y) t))%nat).
    { clear Hx Wx IH. induction t as [|y t IHt]; [simpl; lia|].
      inversion Ht as [|? ? Hy Ht']; subst. simpl in Wt. apply andb_prop in Wt. destruct Wt as [Wy Wt].
      cbn [fold_right flat_map]. rewrite app_length. cbn [length]. rewrite app_length.
      specialize (Hy Wy (S lvl)). specialize (IHt Wt Ht'). lia. }
    specialize (Hx Wx (S lvl)). cbn [cost fold_right length]. rewrite !app_length. cbn [length]. lia.
  - destruct m as [|kx t]; [simpl; lia|].
    rewrite render_obj_cons. simpl in Hwf. apply andb_prop in Hwf. destruct Hwf as [Wx Wt]. apply andb_prop in Wx. destruct Wx as [_ Wx].
    inversion IH as [|? ? Hx Ht]; subst.
    assert (Htl : (fold_right (fun kv a => S (cost (snd kv) + a)) 0 t
                  <= length (flat_map (fun ky => 44%N :: nl ind (S lvl) ++ esc_string (fst ky) ++ colon ind ++ render ind (S lvl) (snd ky)) t))%nat).
    { clear Hx Wx IH. induction t as [|y t IHt]; [simpl; lia|].
      inversion Ht as [|? ? Hy Ht']; subst. simpl in Wt. apply andb_prop in Wt. destruct Wt as [Wy Wt].
      apply andb_prop in Wy. destruct Wy as [_ Wy].
      cbn [fold_right flat_map]. rewrite app_length. cbn [length]. rewrite !app_length.
      specialize (Hy Wy (S lvl)). specialize (IHt Wt Ht'). lia. }
    specialize (Hx Wx (S lvl)). cbn [cost fold_right length]. rewrite !app_length. cbn [length]. lia.
Qed.

(* ---------------------------------------------------------------- C14: the round trip *)
Lemma encode_is_render_canon indent v : wf v = true ->
  encode indent v = render (norm_indent indent) 0 (canon v).
Proof.
  intros H. unfold encode, encode_raw, cleanup, canon.
  rewrite <- (app_nil_r (render (norm_indent indent) 0 (sortv v))).
  rewrite scan_render by (try apply wf_sortv; auto). simpl. apply app_nil_r.
Qed.

Lemma roundtrip indent v : wf v = true -> decode (encode indent v) = DecOk (canon v).
Proof.
  intros H. rewrite encode_is_render_canon by exact H.
  pose proof (wf_canon v H) as Hc.
  unfold decode.
  set (text := render (norm_indent indent) 0 (canon v)).
  assert (Hs : skip_ws text = text).
  { apply skip_ws_start. unfold text. rewrite <- (app_nil_r (render _ _ _)). apply render_starts. exact Hc. }
  rewrite Hs. unfold text at 2. rewrite <- (app_nil_r (render _ _ _)).
  rewrite (render_reads_back (norm_indent indent) (canon v) Hc 0%nat [] (S (length text))).
  - reflexivity.
  - reflexivity.
  - pose proof (cost_le_length (norm_indent indent) (canon v) Hc 0%nat). unfold text. lia.
Qed.

Lemma encode_injective indent v1 v2 : wf v1 = true -> wf v2 = true ->
  encode indent v1 = encode indent v2 -> canon v1 = canon v2.
Proof.
  intros H1 H2 E. pose proof (roundtrip indent v1 H1) as R1. pose proof (roundtrip indent v2 H2) as R2.
  rewrite E in R1. rewrite R1 in R2. inversion R2. reflexivity.
Qed.
