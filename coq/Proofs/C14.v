(* Proofs/C14.v — lemmas and proofs for property C14 (JSON serialisation is faithful). *)
From Coq Require Import Lia ZifyBool.
From BS Require Import Model.Base Model.Regex Model.Json Model.JsonRe Gen.Regexes.

(* ---- the regenerated clean-up regex and the scanner the theorems are about are the same
   function on every string of length <= 5 over {quote, backslash, point, zero, comma, a, newline}
   (19608 strings; evaluated by vm_compute on the regex as it is in value.py NOW) *)
Lemma cleanup_regex_is_scanner_small :
  forallb cleanup_agree (all_strings [34; 92; 46; 48; 44; 97; 10]%N 5) = true.
Proof. vm_compute. reflexivity. Qed.
