(* Proofs/C01.v — structured control flow vs. its lowering to labels and jumps, on the REAL statement type and the
   REAL interpreter model (Model/Interp.v exec).  Fragment: sequencing, assignment, expression statement, return,
   if / elif / else chains (with the endif retargeting of the last conditional jump), while (the lowering as it is:
   header test, loop label, footer test), break, continue.  `for` is not in the proved fragment (it needs the library
   contracts of arrayLength/arrayGet and the reserved temporaries); it is covered by the check only. *)
From Coq Require Import Lia List Bool.
From BS Require Import Model.Base Model.Num Model.Arith Model.ExprParser Model.Script Model.Interp
                       Proofs.InterpEq Proofs.Fuel Proofs.C08.
Import ListNotations.

(* ---------------------------------------------------------------- structured source *)
Inductive sstmt :=
| TSkip
| TSeq (a b : sstmt)
| TAssign (x : str) (e : expr)
| TExpr (e : expr)
| TReturn (e : option expr)
| TBreak
| TContinue
| TIf (c : expr) (a : sstmt) (rest : sstmt)   (* rest: TSkip = endif, TElse b = else branch, TIf .. = elif chain *)
| TElse (b : sstmt)
| TWhile (c : expr) (b : sstmt).

Inductive sout := SNormal | SBreak | SContinue | SStop (o : outcome).

Inductive lkind := KIf | KDone | KLoop.

Lemma sstmt_skip_dec (s : sstmt) : {s = TSkip} + {s <> TSkip}.
Proof. destruct s; [left; reflexivity|..]; right; discriminate. Qed.

Lemma sout_normal_dec (o : sout) : {o = SNormal} + {o <> SNormal}.
Proof. destruct o; [left; reflexivity|right; discriminate|right; discriminate|right; discriminate]. Qed.

Section Sim.
Variable cfg : config.
Hypothesis Hunl : c_max cfg = 0%Z.                       (* unlimited budget *)
Variable lib : caller -> str -> list value -> world -> lres * world.
Variable url_rel : str -> str -> str.
Variable lint_lines : script -> list str.
Hypothesis Hlib : lib_fuel_monotone lib.
Variable um : umode.

(* the reserved label names: any injective naming (instantiated with Script.lbl in Props/C01.v) *)
Variable lab : lkind -> nat -> str.
Hypothesis lab_inj : forall k n k' n', lab k n = lab k' n' -> k = k' /\ n = n'.

Notation eval := (eval cfg lib url_rel lint_lines).
Notation exec := (exec cfg lib url_rel lint_lines).

Definition tick (w : world) : world := upd_count w (w_count w + 1).

(* terminating evaluation / execution (fuel hidden) *)
Definition Ev (e : expr) (loc : option env) (w : world) (o : outcome) (w' : world) : Prop :=
  exists f, eval f e loc false um w = (o, w') /\ o <> OFuel.
Definition Run (code : list stmt) (pc : nat) (loc : option env) (w : world) (r : xres) : Prop :=
  exists f, exec f code pc [] loc um w = r /\ fst (fst r) <> OFuel.

Definition is_val (o : outcome) : bool := match o with OVal _ => true | _ => false end.

Lemma head_ok w : ((0 <? c_max cfg)%Z && (c_max cfg <? w_count (upd_count w (w_count w + 1)))%Z)%bool = false.
Proof. rewrite Hunl. reflexivity. Qed.

(* ---- derived big-step rules of the machine ---- *)
Lemma run_end code pc loc w : nth_error code pc = None -> Run code pc loc w (OVal VNull, loc, w).
Proof. intros H. exists 1. split; [|cbn; discriminate]. rewrite exec_S. unfold exec_body. rewrite H. reflexivity. Qed.

Lemma run_label code pc loc w l r : nth_error code pc = Some (SLabel l) -> Run code (S pc) loc (tick w) r -> Run code pc loc w r.
Proof.
  intros H (f & Hr & Hn). exists (S f). split; [|exact Hn].
  rewrite exec_S. unfold exec_body. rewrite H. cbv zeta. rewrite head_ok. exact Hr.
Qed.

Definition assign (x : str) (v : value) (loc : option env) (w : world) : option env * world :=
  match loc with
  | Some l => (Some (env_set x v l), w)
  | None => (None, upd_globals w (env_set x v (w_globals w)))
  end.

Lemma run_expr code pc loc w name e v w1 r :
  nth_error code pc = Some (SExpr name e) -> Ev e loc (tick w) (OVal v) w1 ->
  (match name with
   | None => Run code (S pc) loc w1 r
   | Some x => Run code (S pc) (fst (assign x v loc w1)) (snd (assign x v loc w1)) r
   end) -> Run code pc loc w r.
Proof.
  intros H (f1 & He & _) HR.
  assert (HR' : exists f2 loc2 w2, exec f2 code (S pc) [] loc2 um w2 = r /\ fst (fst r) <> OFuel /\
           match name with None => loc2 = loc /\ w2 = w1 | Some x => loc2 = fst (assign x v loc w1) /\ w2 = snd (assign x v loc w1) end).
  { destruct name as [x|]; destruct HR as (f2 & Hr & Hn); eauto 8. }
  destruct HR' as (f2 & loc2 & w2 & Hr & Hn & Hlw).
  exists (S (f1 + f2)). split; [|exact Hn].
  rewrite exec_S. unfold exec_body. rewrite H. cbv zeta. rewrite head_ok.
  fold (tick w). rewrite (eval_fuel_le cfg lib url_rel lint_lines Hlib f1 (f1 + f2)) with (o := OVal v) (w' := w1); [|lia|exact He|discriminate].
  destruct name as [x|].
  - destruct Hlw as [-> ->]. destruct loc as [l|]; cbn [assign fst snd] in *;
      apply (exec_fuel_le cfg lib url_rel lint_lines Hlib f2 (f1 + f2)); [lia|exact Hr|exact Hn|lia|exact Hr|exact Hn].
  - destruct Hlw as [-> ->]. apply (exec_fuel_le cfg lib url_rel lint_lines Hlib f2 (f1 + f2)); [lia|exact Hr|exact Hn].
Qed.

Lemma run_expr_stop code pc loc w name e o w1 :
  nth_error code pc = Some (SExpr name e) -> Ev e loc (tick w) o w1 -> is_val o = false ->
  Run code pc loc w (o, loc, w1).
Proof.
  intros H (f1 & He & Hn) Hv. exists (S f1). split; [|exact Hn].
  rewrite exec_S. unfold exec_body. rewrite H. cbv zeta. rewrite head_ok. fold (tick w). rewrite He.
  destruct o; try reflexivity. discriminate.
Qed.

Lemma run_return code pc loc w e o w1 :
  nth_error code pc = Some (SReturn (Some e)) -> Ev e loc (tick w) o w1 -> Run code pc loc w (o, loc, w1).
Proof.
  intros H (f1 & He & Hn). exists (S f1). split; [|exact Hn].
  rewrite exec_S. unfold exec_body. rewrite H. cbv zeta. rewrite head_ok. fold (tick w). rewrite He. reflexivity.
Qed.

Lemma run_return_none code pc loc w :
  nth_error code pc = Some (SReturn None) -> Run code pc loc w (OVal VNull, loc, tick w).
Proof.
  intros H. exists 1. split; [|cbn; discriminate].
  rewrite exec_S. unfold exec_body. rewrite H. cbv zeta. rewrite head_ok. reflexivity.
Qed.

Lemma run_jump code pc loc w l k r :
  nth_error code pc = Some (SJump l None) -> find_label l code = Some k -> Run code (S k) loc (tick w) r -> Run code pc loc w r.
Proof.
  intros H Hf (f & Hr & Hn). exists (S f). split; [|exact Hn].
  rewrite exec_S. unfold exec_body. rewrite H. cbv zeta. rewrite head_ok. cbn [assoc]. rewrite Hf.
  rewrite exec_cache_irrelevant; [exact Hr|]. apply cache_ok_cons; [apply cache_ok_nil|exact Hf].
Qed.

Lemma run_jumpif code pc loc w l c v w1 r :
  nth_error code pc = Some (SJump l (Some c)) -> Ev c loc (tick w) (OVal v) w1 ->
  (if truthy w1 v then exists k, find_label l code = Some k /\ Run code (S k) loc w1 r else Run code (S pc) loc w1 r) ->
  Run code pc loc w r.
Proof.
  intros H (f1 & He & _) HR.
  assert (HR' : exists f2, fst (fst r) <> OFuel /\
            if truthy w1 v then exists k, find_label l code = Some k /\ exec f2 code (S k) [] loc um w1 = r else exec f2 code (S pc) [] loc um w1 = r).
  { destruct (truthy w1 v); [destruct HR as (k & Hf & f2 & Hr & Hn)|destruct HR as (f2 & Hr & Hn)]; eauto. }
  destruct HR' as (f2 & Hn & HR2).
  exists (S (f1 + f2)). split; [|exact Hn].
  rewrite exec_S. unfold exec_body. rewrite H. cbv zeta. rewrite head_ok. fold (tick w).
  rewrite (eval_fuel_le cfg lib url_rel lint_lines Hlib f1 (f1 + f2)) with (o := OVal v) (w' := w1); [|lia|exact He|discriminate].
  destruct (truthy w1 v).
  - destruct HR2 as (k & Hf & Hr). cbn [assoc]. rewrite Hf.
    rewrite exec_cache_irrelevant; [|apply cache_ok_cons; [apply cache_ok_nil|exact Hf]].
    apply (exec_fuel_le cfg lib url_rel lint_lines Hlib f2 (f1 + f2)); [lia|exact Hr|exact Hn].
  - apply (exec_fuel_le cfg lib url_rel lint_lines Hlib f2 (f1 + f2)); [lia|exact HR2|exact Hn].
Qed.

Lemma run_jumpif_stop code pc loc w l c o w1 :
  nth_error code pc = Some (SJump l (Some c)) -> Ev c loc (tick w) o w1 -> is_val o = false ->
  Run code pc loc w (o, loc, w1).
Proof.
  intros H (f1 & He & Hn) Hv. exists (S f1). split; [|exact Hn].
  rewrite exec_S. unfold exec_body. rewrite H. cbv zeta. rewrite head_ok. fold (tick w). rewrite He.
  destruct o; try reflexivity. discriminate.
Qed.

(* `!c` as the lowering writes it *)
Lemma Ev_not c loc w v w1 : Ev c loc w (OVal v) w1 -> Ev (e_not c) loc w (OVal (VBool (negb (truthy w1 v)))) w1.
Proof.
  intros (f & He & _). exists (S f). split; [|discriminate].
  rewrite eval_S. unfold e_not. cbn [eval_body]. rewrite He. reflexivity.
Qed.
Lemma Ev_not_stop c loc w o w1 : Ev c loc w o w1 -> is_val o = false -> Ev (e_not c) loc w o w1.
Proof.
  intros (f & He & Hn) Hv. exists (S f). split; [|exact Hn].
  rewrite eval_S. unfold e_not. cbn [eval_body]. rewrite He. destruct o; try reflexivity. discriminate.
Qed.

(* ---------------------------------------------------------------- structured big-step semantics *)
(* worlds are compared up to the statement counter, which the structured reading does not have *)
Definition weq (a b : world) : Prop := upd_count a 0 = upd_count b 0.
Lemma weq_refl a : weq a a. Proof. reflexivity. Qed.
Lemma weq_tick a b : weq a b -> weq a (tick b).
Proof. unfold weq, tick. intros H. rewrite H. reflexivity. Qed.
Lemma weq_fields a b : weq a b -> w_globals a = w_globals b /\ w_arrs a = w_arrs b /\ w_objs a = w_objs b /\ w_funs a = w_funs b /\ w_log a = w_log b.
Proof. unfold weq, upd_count. intros H. injection H. intros. repeat split; assumption. Qed.
Lemma truthy_weq a b v : weq a b -> truthy a v = truthy b v.
Proof. intros H. destruct (weq_fields _ _ H) as (_ & Ha & _). unfold truthy. rewrite Ha. reflexivity. Qed.
Lemma assign_weq x v loc a b : weq a b -> fst (assign x v loc a) = fst (assign x v loc b) /\ weq (snd (assign x v loc a)) (snd (assign x v loc b)).
Proof.
  intros H. destruct loc as [l|]; cbn [assign fst snd]; [split; [reflexivity|exact H]|].
  split; [reflexivity|]. destruct (weq_fields _ _ H) as (Hg & _). unfold weq, upd_globals, upd_count in *. cbn in *.
  injection H. intros. rewrite Hg. congruence.
Qed.

(* PREMISE: expression evaluation does not depend on the statement counter (nothing in the library reads it) *)
Hypothesis Ev_blind : forall e loc w o w' wm, Ev e loc w o w' -> weq w wm -> exists wm', Ev e loc wm o wm' /\ weq w' wm'.

Definition sstate := (option env * world)%type.

Inductive SExec : sstmt -> sstate -> sout -> sstate -> Prop :=
| E_Skip s : SExec TSkip s SNormal s
| E_SeqN a b s s1 o s2 : SExec a s SNormal s1 -> SExec b s1 o s2 -> SExec (TSeq a b) s o s2
| E_SeqA a b s o s1 : SExec a s o s1 -> o <> SNormal -> SExec (TSeq a b) s o s1
| E_Assign x e loc w v w1 : Ev e loc w (OVal v) w1 -> SExec (TAssign x e) (loc, w) SNormal (assign x v loc w1)
| E_AssignStop x e loc w o w1 : Ev e loc w o w1 -> is_val o = false -> SExec (TAssign x e) (loc, w) (SStop o) (loc, w1)
| E_Expr e loc w v w1 : Ev e loc w (OVal v) w1 -> SExec (TExpr e) (loc, w) SNormal (loc, w1)
| E_ExprStop e loc w o w1 : Ev e loc w o w1 -> is_val o = false -> SExec (TExpr e) (loc, w) (SStop o) (loc, w1)
| E_Return e loc w o w1 : Ev e loc w o w1 -> SExec (TReturn (Some e)) (loc, w) (SStop o) (loc, w1)
| E_ReturnNone s : SExec (TReturn None) s (SStop (OVal VNull)) s
| E_Break s : SExec TBreak s SBreak s
| E_Continue s : SExec TContinue s SContinue s
(* an if chain runs exactly the first branch whose condition is truthy *)
| E_IfT c a rest loc w v w1 o s2 : Ev c loc w (OVal v) w1 -> truthy w1 v = true -> SExec a (loc, w1) o s2 -> SExec (TIf c a rest) (loc, w) o s2
| E_IfF c a rest loc w v w1 o s2 : Ev c loc w (OVal v) w1 -> truthy w1 v = false -> SExec rest (loc, w1) o s2 -> SExec (TIf c a rest) (loc, w) o s2
| E_IfStop c a rest loc w o w1 : Ev c loc w o w1 -> is_val o = false -> SExec (TIf c a rest) (loc, w) (SStop o) (loc, w1)
| E_Else b s o s1 : SExec b s o s1 -> SExec (TElse b) s o s1
(* a loop condition is re-tested before every iteration; break / continue bind to the innermost loop *)
| E_WhileF c b loc w v w1 : Ev c loc w (OVal v) w1 -> truthy w1 v = false -> SExec (TWhile c b) (loc, w) SNormal (loc, w1)
| E_WhileStop c b loc w o w1 : Ev c loc w o w1 -> is_val o = false -> SExec (TWhile c b) (loc, w) (SStop o) (loc, w1)
| E_WhileT c b loc w v w1 o s2 o3 s3 : Ev c loc w (OVal v) w1 -> truthy w1 v = true -> SExec b (loc, w1) o s2 ->
    (o = SNormal \/ o = SContinue) -> SExec (TWhile c b) s2 o3 s3 -> SExec (TWhile c b) (loc, w) o3 s3
| E_WhileB c b loc w v w1 s2 : Ev c loc w (OVal v) w1 -> truthy w1 v = true -> SExec b (loc, w1) SBreak s2 ->
    SExec (TWhile c b) (loc, w) SNormal s2
| E_WhileS c b loc w v w1 o s2 : Ev c loc w (OVal v) w1 -> truthy w1 v = true -> SExec b (loc, w1) (SStop o) s2 ->
    SExec (TWhile c b) (loc, w) (SStop o) s2.

(* ---------------------------------------------------------------- the lowering, as parse_script performs it *)
(* the conditional jump that opens a branch: the LAST branch of a chain without else jumps to the chain's done label
   (this is the jump that endif retargets), every other one to its own If label *)
Definition branch_head (done jl : str) (c : expr) (rest : sstmt) : stmt :=
  SJump (match rest with TSkip => done | _ => jl end) (Some (e_not c)).

(* ctx = (break label, continue label) of the innermost enclosing loop *)
Fixpoint compile (ctx : option (str * str)) (n : nat) (s : sstmt) {struct s} : list stmt * nat :=
  match s with
  | TSkip => ([], n)
  | TSeq a b => let '(ca, n1) := compile ctx n a in let '(cb, n2) := compile ctx n1 b in (ca ++ cb, n2)
  | TAssign x e => ([SExpr (Some x) e], n)
  | TExpr e => ([SExpr None e], n)
  | TReturn e => ([SReturn e], n)
  | TBreak => (match ctx with Some (brk, _) => [SJump brk None] | None => [] end, n)
  | TContinue => (match ctx with Some (_, cnt) => [SJump cnt None] | None => [] end, n)
  | TIf c a rest =>
    let done := lab KDone n in
    let jl := lab KIf n in
    let '(ca, n1) := compile ctx (S n) a in
    let '(cr, n2) := crest ctx done jl n1 rest in
    (branch_head done jl c rest :: ca ++ cr ++ [SLabel done], n2)
  | TElse b => compile ctx n b
  | TWhile c b =>
    let '(cb, n1) := compile (Some (lab KDone n, lab KLoop n)) (S n) b in
    ([SJump (lab KDone n) (Some (e_not c)); SLabel (lab KLoop n)] ++ cb ++ [SJump (lab KLoop n) (Some c); SLabel (lab KDone n)], n1)
  end
(* what follows a branch body inside an if chain: nothing (endif), `else`, or `elif` (jl = the If label of the branch before) *)
with crest (ctx : option (str * str)) (done jl : str) (n : nat) (rest : sstmt) {struct rest} : list stmt * nat :=
  match rest with
  | TIf c2 a2 rest2 =>
    let jl2 := lab KIf n in
    let '(ca2, n1) := compile ctx (S n) a2 in
    let '(cr2, n2) := crest ctx done jl2 n1 rest2 in
    ([SJump done None; SLabel jl] ++ branch_head done jl2 c2 rest2 :: ca2 ++ cr2, n2)
  | TElse b => let '(cb, n2) := compile ctx n b in ([SJump done None; SLabel jl] ++ cb, n2)
  | _ => ([], n)
  end.

Definition rest_ok (rest : sstmt) : bool := match rest with TSkip | TElse _ | TIf _ _ _ => true | _ => false end.

(* break/continue only inside loops; the rest position of an if holds endif, else or elif *)
Fixpoint wf (inloop : bool) (s : sstmt) : bool :=
  match s with
  | TSeq a b => wf inloop a && wf inloop b
  | TIf _ a rest => wf inloop a && wf inloop rest && rest_ok rest
  | TElse b => wf inloop b
  | TWhile _ b => wf true b
  | TBreak | TContinue => inloop
  | _ => true
  end.

(* the guard of the known finding F7: no `continue` whose innermost loop is a `while` (in this fragment: none inside a while) *)
Fixpoint no_continue (s : sstmt) : bool :=
  match s with
  | TSeq a b => no_continue a && no_continue b
  | TIf _ a rest => no_continue a && no_continue rest
  | TElse b => no_continue b
  | TWhile _ b => no_continue b
  | TContinue => false
  | _ => true
  end.
Fixpoint guard (s : sstmt) : bool :=
  match s with
  | TSeq a b => guard a && guard b
  | TIf _ a rest => guard a && guard rest
  | TElse b => guard b
  | TWhile _ b => no_continue b && guard b
  | _ => true
  end.

Lemma no_continue_sound s st o st' : SExec s st o st' -> no_continue s = true -> o <> SContinue.
Proof.
  induction 1; cbn [no_continue]; intros Hg; try discriminate;
    repeat match goal with H : (_ && _)%bool = true |- _ => apply andb_prop in H; destruct H end; auto.
Qed.

(* ---------------------------------------------------------------- layout facts *)
Definition code_at (code : list stmt) (pc : nat) (cs : list stmt) : Prop :=
  exists pre post, code = pre ++ cs ++ post /\ length pre = pc.

Lemma code_at_app code pc a b : code_at code pc (a ++ b) -> code_at code pc a /\ code_at code (pc + length a) b.
Proof.
  intros (pre & post & -> & <-). split.
  - exists pre, (b ++ post). rewrite <- app_assoc. auto.
  - exists (pre ++ a), post. rewrite <- !app_assoc. rewrite app_length. auto.
Qed.
Lemma code_at_cons code pc i r : code_at code pc (i :: r) -> nth_error code pc = Some i /\ code_at code (S pc) r.
Proof.
  intros H. change (i :: r) with ([i] ++ r) in H. apply code_at_app in H. destruct H as [(pre & post & -> & <-) H2].
  split; [rewrite nth_error_app2 by lia; rewrite PeanoNat.Nat.sub_diag; reflexivity|].
  cbn in H2. replace (S (length pre)) with (length pre + 1) by lia. exact H2.
Qed.
Lemma code_at_nil code pc : pc <= length code -> code_at code pc [].
Proof. intros H. exists (firstn pc code), (skipn pc code). cbn. rewrite firstn_skipn, firstn_length. split; [reflexivity|lia]. Qed.
Lemma code_at_len code pc cs : code_at code pc cs -> pc + length cs <= length code.
Proof. intros (pre & post & -> & <-). rewrite !app_length. lia. Qed.

Definition labels (code : list stmt) : list str :=
  flat_map (fun i => match i with SLabel l => [l] | _ => [] end) code.
Lemma labels_app a b : labels (a ++ b) = labels a ++ labels b.
Proof. unfold labels. apply flat_map_app. Qed.

Lemma find_from_notin l a b i : ~ In l (labels a) -> find_from l (a ++ b) i = find_from l b (length a + i).
Proof.
  revert i. induction a as [|s a IH]; intros i H; cbn [app find_from length]; [reflexivity|].
  assert (H' : ~ In l (labels a)) by (intros Hin; apply H; unfold labels in *; cbn; apply in_or_app; right; exact Hin).
  destruct s; try (rewrite IH by exact H'; f_equal; lia).
  destruct (str_eqb name l) eqn:E.
  - exfalso. apply H. apply str_eqb_eq in E. subst. cbn. left. reflexivity.
  - rewrite IH by exact H'. f_equal. lia.
Qed.

Lemma find_unique code pc l : NoDup (labels code) -> nth_error code pc = Some (SLabel l) -> find_label l code = Some pc.
Proof.
  intros N H. apply nth_error_split in H. destruct H as (pre & post & -> & <-).
  rewrite labels_app in N. cbn in N. apply NoDup_remove_2 in N.
  rewrite find_label_unfold, find_from_notin.
  - cbn [find_from]. rewrite str_eqb_refl. f_equal. lia.
  - intros Hin. apply N. apply in_or_app. left. exact Hin.
Qed.


(* ---------------------------------------------------------------- label indices of compiled code *)
Definition in_range (n n' : nat) (l : str) : Prop := exists k i, l = lab k i /\ n <= i < n'.

Lemma in_range_mono a b a' b' l : in_range a b l -> a' <= a -> b <= b' -> in_range a' b' l.
Proof. intros (k & i & -> & Hi) H1 H2. exists k, i. split; [reflexivity|lia]. Qed.

Lemma Forall_range_mono a b a' b' ls : Forall (in_range a b) ls -> a' <= a -> b <= b' -> Forall (in_range a' b') ls.
Proof. intros H H1 H2. eapply Forall_impl; [|exact H]. intros l Hl. eapply in_range_mono; eassumption. Qed.

Lemma range_disjoint a b c l : in_range a b l -> in_range b c l -> False.
Proof. intros (k & i & -> & Hi) (k' & i' & E & Hi'). apply lab_inj in E. destruct E as [_ ->]. lia. Qed.

Lemma NoDup_app_intro {A} (l1 l2 : list A) : NoDup l1 -> NoDup l2 -> (forall x, In x l1 -> In x l2 -> False) -> NoDup (l1 ++ l2).
Proof.
  induction l1 as [|x l1 IH]; intros N1 N2 D; cbn; [exact N2|].
  inversion N1 as [|? ? Hx N1']; subst. constructor.
  - intros Hin. apply in_app_or in Hin. destruct Hin as [Hin|Hin]; [exact (Hx Hin)|]. apply (D x); [left; reflexivity|exact Hin].
  - apply IH; [exact N1'|exact N2|]. intros y H1 H2. apply (D y); [right; exact H1|exact H2].
Qed.

Definition LC (s : sstmt) : Prop :=
  forall ctx n, n <= snd (compile ctx n s) /\ Forall (in_range n (snd (compile ctx n s))) (labels (fst (compile ctx n s))) /\
                NoDup (labels (fst (compile ctx n s))).
Definition LR (s : sstmt) : Prop :=
  forall ctx done jl n, n <= snd (crest ctx done jl n s) /\
    Forall (fun l => l = jl \/ in_range n (snd (crest ctx done jl n s)) l) (labels (fst (crest ctx done jl n s))) /\
    ((forall l, in_range n (snd (crest ctx done jl n s)) l -> l <> jl) -> NoDup (labels (fst (crest ctx done jl n s)))).

Lemma labels_cons_nonlabel i r : (forall l, i <> SLabel l) -> labels (i :: r) = labels r.
Proof. intros H. unfold labels. cbn. destruct i; try reflexivity. exfalso. eapply H. reflexivity. Qed.

Lemma labels_cons_label l r : labels (SLabel l :: r) = l :: labels r.
Proof. reflexivity. Qed.

Lemma branch_head_not_label done jl c rest l : branch_head done jl c rest <> SLabel l.
Proof. unfold branch_head. discriminate. Qed.

Lemma compile_labels : forall s, LC s /\ LR s.
Proof.
  assert (Htriv : forall s, (forall ctx done jl n, crest ctx done jl n s = ([], n)) -> LR s).
  { intros s H ctx done jl n. rewrite H. cbn. repeat split; [lia|constructor|intros _; constructor]. }
  induction s as [ |a [IHa _] b [IHb _]|x e|e|e| | |c a [IHa _] rest [IHr IHrr]|b [IHb _]|c b [IHb _]];
    (split; [|try (apply Htriv; intros; reflexivity)]).
  - intros ctx n. cbn. repeat split; [lia|constructor|constructor].
  - intros ctx n. cbn [compile]. destruct (IHa ctx n) as (Ha1 & Ha2 & Ha3). destruct (compile ctx n a) as [ca n1]. cbn [fst snd] in *.
    destruct (IHb ctx n1) as (Hb1 & Hb2 & Hb3). destruct (compile ctx n1 b) as [cb n2]. cbn [fst snd] in *.
    rewrite labels_app. repeat split; [lia| |].
    + apply Forall_app. split; [eapply Forall_range_mono; [exact Ha2|lia|lia]|eapply Forall_range_mono; [exact Hb2|lia|lia]].
    + apply NoDup_app_intro; [exact Ha3|exact Hb3|]. intros x H1 H2.
      rewrite Forall_forall in Ha2, Hb2. exact (range_disjoint _ _ _ _ (Ha2 _ H1) (Hb2 _ H2)).
  - intros ctx n. cbn. repeat split; [lia|constructor|constructor].
  - intros ctx n. cbn. repeat split; [lia|constructor|constructor].
  - intros ctx n. cbn. repeat split; [lia|constructor|constructor].
  - intros ctx n. cbn. destruct ctx as [[? ?]|]; cbn; repeat split; try lia; constructor.
  - intros ctx n. cbn. destruct ctx as [[? ?]|]; cbn; repeat split; try lia; constructor.
  - (* TIf, compile *)
    intros ctx n. cbn [compile]. destruct (IHa ctx (S n)) as (Ha1 & Ha2 & Ha3). destruct (compile ctx (S n) a) as [ca n1]. cbn [fst snd] in *.
    destruct (IHrr ctx (lab KDone n) (lab KIf n) n1) as (Hr1 & Hr2 & Hr3). destruct (crest ctx (lab KDone n) (lab KIf n) n1 rest) as [cr n2]. cbn [fst snd] in *.
    rewrite labels_cons_nonlabel by apply branch_head_not_label. rewrite !labels_app. rewrite labels_cons_label. change (labels []) with (@nil str).
    assert (Hdone : in_range n n2 (lab KDone n)) by (exists KDone, n; split; [reflexivity|lia]).
    assert (Hr3' : NoDup (labels cr)).
    { apply Hr3. intros l (k & i & -> & Hi) E. apply lab_inj in E. destruct E as [_ ->]. lia. }
    rewrite Forall_forall in Ha2, Hr2.
    repeat split; [lia| |].
    + apply Forall_app. split; [apply Forall_forall; intros l Hl; eapply in_range_mono; [apply Ha2; exact Hl|lia|lia]|].
      apply Forall_app. split; [|repeat constructor; exact Hdone].
      apply Forall_forall. intros l Hl. destruct (Hr2 _ Hl) as [->|Hl2]; [exists KIf, n; split; [reflexivity|lia]|eapply in_range_mono; [exact Hl2|lia|lia]].
    + apply NoDup_app_intro; [exact Ha3| |].
      * apply NoDup_app_intro; [exact Hr3'|repeat constructor; intros []|].
        intros x H1 [<-|[]]. destruct (Hr2 _ H1) as [E|(k & i & E & Hi)]; apply lab_inj in E; destruct E as [E1 E2]; [discriminate|lia].
      * intros x H1 H2. destruct (Ha2 _ H1) as (k & i & -> & Hi). apply in_app_or in H2. destruct H2 as [H2|[E|[]]].
        -- destruct (Hr2 _ H2) as [E|(k' & i' & E & Hi')]; apply lab_inj in E; destruct E as [_ E2]; lia.
        -- apply lab_inj in E. destruct E as [_ E2]. lia.
  - (* TIf, crest *)
    intros ctx done jl n. cbn [crest]. destruct (IHa ctx (S n)) as (Ha1 & Ha2 & Ha3). destruct (compile ctx (S n) a) as [ca n1]. cbn [fst snd] in *.
    destruct (IHrr ctx done (lab KIf n) n1) as (Hr1 & Hr2 & Hr3). destruct (crest ctx done (lab KIf n) n1 rest) as [cr n2]. cbn [fst snd] in *.
    cbn [app]. rewrite (labels_cons_nonlabel (SJump done None)) by discriminate. rewrite labels_cons_label.
    rewrite labels_cons_nonlabel by apply branch_head_not_label. rewrite labels_app.
    assert (Hr3' : NoDup (labels cr)).
    { apply Hr3. intros l (k & i & -> & Hi) E. apply lab_inj in E. destruct E as [_ ->]. lia. }
    rewrite Forall_forall in Ha2, Hr2.
    repeat split; [lia| |].
    + constructor; [left; reflexivity|]. apply Forall_app. split.
      * apply Forall_forall. intros l Hl. right. eapply in_range_mono; [apply Ha2; exact Hl|lia|lia].
      * apply Forall_forall. intros l Hl. right. destruct (Hr2 _ Hl) as [->|Hl2]; [exists KIf, n; split; [reflexivity|lia]|eapply in_range_mono; [exact Hl2|lia|lia]].
    + intros Hjl. constructor.
      * intros Hin. apply in_app_or in Hin. destruct Hin as [Hin|Hin].
        -- apply (Hjl jl); [eapply in_range_mono; [apply Ha2; exact Hin|lia|lia]|reflexivity].
        -- destruct (Hr2 _ Hin) as [E|Hl2]; [apply (Hjl jl); [exists KIf, n; split; [exact E|lia]|reflexivity]|].
           apply (Hjl jl); [eapply in_range_mono; [exact Hl2|lia|lia]|reflexivity].
      * apply NoDup_app_intro; [exact Ha3|exact Hr3'|].
        intros x H1 H2. destruct (Ha2 _ H1) as (k & i & -> & Hi).
        destruct (Hr2 _ H2) as [E|(k' & i' & E & Hi')]; apply lab_inj in E; destruct E as [_ E2]; lia.
  - (* TElse, compile *) intros ctx n. cbn [compile]. apply IHb.
  - (* TElse, crest *)
    intros ctx done jl n. cbn [crest]. destruct (IHb ctx n) as (Hb1 & Hb2 & Hb3). destruct (compile ctx n b) as [cb n2]. cbn [fst snd] in *.
    cbn [app]. rewrite (labels_cons_nonlabel (SJump done None)) by discriminate. rewrite labels_cons_label.
    rewrite Forall_forall in Hb2. repeat split; [lia| |].
    + constructor; [left; reflexivity|]. apply Forall_forall. intros l Hl. right. apply Hb2. exact Hl.
    + intros Hjl. constructor; [|exact Hb3]. intros Hin. apply (Hjl jl); [apply Hb2; exact Hin|reflexivity].
  - (* TWhile *)
    intros ctx n. cbn [compile]. destruct (IHb (Some (lab KDone n, lab KLoop n)) (S n)) as (Hb1 & Hb2 & Hb3).
    destruct (compile (Some (lab KDone n, lab KLoop n)) (S n) b) as [cb n1]. cbn [fst snd] in *.
    cbn [app]. rewrite (labels_cons_nonlabel (SJump (lab KDone n) (Some (e_not c)))) by discriminate. rewrite labels_cons_label.
    rewrite labels_app. rewrite (labels_cons_nonlabel (SJump (lab KLoop n) (Some c))) by discriminate. rewrite labels_cons_label.
    change (labels []) with (@nil str).
    rewrite Forall_forall in Hb2. repeat split; [lia| |].
    + constructor; [exists KLoop, n; split; [reflexivity|lia]|]. apply Forall_app. split.
      * apply Forall_forall. intros l Hl. eapply in_range_mono; [apply Hb2; exact Hl|lia|lia].
      * repeat constructor. exists KDone, n. split; [reflexivity|lia].
    + constructor.
      * intros Hin. apply in_app_or in Hin. destruct Hin as [Hin|[E|[]]].
        -- destruct (Hb2 _ Hin) as (k & i & E & Hi). apply lab_inj in E. destruct E as [_ E2]. lia.
        -- apply lab_inj in E. destruct E as [E1 _]. discriminate.
      * apply NoDup_app_intro; [exact Hb3|repeat constructor; intros []|].
        intros x H1 [<-|[]]. destruct (Hb2 _ H1) as (k & i & E & Hi). apply lab_inj in E. destruct E as [_ E2]. lia.
Qed.

Corollary compile_NoDup ctx n s : NoDup (labels (fst (compile ctx n s))).
Proof. destruct (compile_labels s) as [H _]. apply H. Qed.


(* ---------------------------------------------------------------- the simulation *)
Definition is_some {A} (o : option A) : bool := match o with Some _ => true | None => false end.

(* positions of the innermost loop's break / continue labels in the code *)
Definition cont_ok (code : list stmt) (ctx : option (str * str)) (cpos : option (nat * nat)) : Prop :=
  match ctx, cpos with
  | Some (brk, cnt), Some (ib, ic) => nth_error code ib = Some (SLabel brk) /\ nth_error code ic = Some (SLabel cnt)
  | None, None => True
  | _, _ => False
  end.

(* what the machine does from (pc, loc, wm) when the structured statement ends with outcome o in (loc', wm'):
   continuation-passing form over the big-step machine *)
Definition post (code : list stmt) (cpos : option (nat * nat)) (pc_end : nat) (o : sout) (loc' : option env) (wm' : world)
           (pc : nat) (loc : option env) (wm : world) : Prop :=
  match o with
  | SNormal => forall r, Run code pc_end loc' wm' r -> Run code pc loc wm r
  | SBreak => match cpos with Some (ib, _) => forall r, Run code (S ib) loc' wm' r -> Run code pc loc wm r | None => False end
  | SContinue => match cpos with Some (_, ic) => forall r, Run code (S ic) loc' wm' r -> Run code pc loc wm r | None => False end
  | SStop out => Run code pc loc wm (out, loc', wm')
  end.

Lemma post_pre code cpos e o loc' wm' pc1 loc1 w1 pc loc w :
  (forall r, Run code pc1 loc1 w1 r -> Run code pc loc w r) ->
  post code cpos e o loc' wm' pc1 loc1 w1 -> post code cpos e o loc' wm' pc loc w.
Proof. intros F H. destruct o; cbn [post] in *; [auto| | |auto]; destruct cpos as [[ib ic]|]; auto. Qed.

Lemma post_end_irrel code cpos e1 e2 o loc' wm' pc loc w :
  o <> SNormal -> post code cpos e1 o loc' wm' pc loc w -> post code cpos e2 o loc' wm' pc loc w.
Proof. intros Hn H. destruct o; [congruence| | |]; exact H. Qed.

Lemma post_normal_then code cpos e1 e2 o loc' wm' wm2 pc loc w :
  (forall r, Run code e2 loc' wm2 r -> Run code e1 loc' wm' r) ->
  post code cpos e1 o loc' wm' pc loc w -> o = SNormal -> post code cpos e2 o loc' wm2 pc loc w.
Proof. intros F H ->. cbn [post] in *. intros r Hr. apply H. apply F. exact Hr. Qed.

Definition PP (s : sstmt) (st : sstate) (o : sout) (st' : sstate) : Prop :=
  forall code ctx cpos n pc wm, NoDup (labels code) -> cont_ok code ctx cpos -> wf (is_some ctx) s = true -> guard s = true ->
    code_at code pc (fst (compile ctx n s)) -> weq (snd st) wm ->
    exists wm', weq (snd st') wm' /\ post code cpos (pc + length (fst (compile ctx n s))) o (fst st') wm' pc (fst st) wm.

Definition IFB (c : expr) (a rest : sstmt) (st : sstate) (o : sout) (st' : sstate) : Prop :=
  forall code ctx cpos done jl n pc wm, NoDup (labels code) -> cont_ok code ctx cpos ->
    wf (is_some ctx) (TIf c a rest) = true -> guard (TIf c a rest) = true ->
    code_at code pc (branch_head done jl c rest :: fst (compile ctx (S n) a) ++ fst (crest ctx done jl (snd (compile ctx (S n) a)) rest) ++ [SLabel done]) ->
    weq (snd st) wm ->
    exists wm', weq (snd st') wm' /\
      post code cpos (pc + S (length (fst (compile ctx (S n) a)) + length (fst (crest ctx done jl (snd (compile ctx (S n) a)) rest)) + 1))
           o (fst st') wm' pc (fst st) wm.

Definition QQ (s : sstmt) (st : sstate) (o : sout) (st' : sstate) : Prop :=
  forall code ctx cpos done jl n pc wm, NoDup (labels code) -> cont_ok code ctx cpos -> wf (is_some ctx) s = true -> guard s = true ->
    rest_ok s = true -> s <> TSkip ->
    code_at code pc (fst (crest ctx done jl n s) ++ [SLabel done]) -> weq (snd st) wm ->
    exists wm', weq (snd st') wm' /\ post code cpos (pc + length (fst (crest ctx done jl n s)) + 1) o (fst st') wm' (pc + 2) (fst st) wm.

Definition WW (s : sstmt) (st : sstate) (o : sout) (st' : sstate) : Prop :=
  forall c b, s = TWhile c b -> forall code ctx cpos n pc wm, NoDup (labels code) -> cont_ok code ctx cpos ->
    wf true b = true -> no_continue b = true -> guard b = true ->
    code_at code pc (fst (compile ctx n (TWhile c b))) -> weq (snd st) wm ->
    exists wm', weq (snd st') wm' /\
      post code cpos (pc + length (fst (compile ctx n (TWhile c b)))) o (fst st') wm'
           (pc + 2 + length (fst (compile (Some (lab KDone n, lab KLoop n)) (S n) b))) (fst st) wm.

(* P and Q of an if statement follow from its body form *)
Lemma if_PQ c a rest st o st' : IFB c a rest st o st' -> PP (TIf c a rest) st o st' /\ QQ (TIf c a rest) st o st'.
Proof.
  intros HB. split.
  - intros code ctx cpos n pc wm HN Hc Hwf Hg Hat Hw. cbn [compile] in Hat |- *.
    specialize (HB code ctx cpos (lab KDone n) (lab KIf n) n pc wm HN Hc Hwf Hg).
    destruct (compile ctx (S n) a) as [ca n1]. cbn [fst snd] in *.
    destruct (crest ctx (lab KDone n) (lab KIf n) n1 rest) as [cr n2]. cbn [fst snd] in *.
    destruct (HB Hat Hw) as (wm' & Hw' & Hp). exists wm'. split; [exact Hw'|].
    cbn [length]. rewrite !app_length. cbn [length]. replace (pc + S (length ca + (length cr + 1))) with (pc + S (length ca + length cr + 1)) by lia. exact Hp.
  - intros code ctx cpos done jl n pc wm HN Hc Hwf Hg _ _ Hat Hw. cbn [crest] in Hat |- *.
    specialize (HB code ctx cpos done (lab KIf n) n (pc + 2) wm HN Hc Hwf Hg).
    destruct (compile ctx (S n) a) as [ca n1]. cbn [fst snd] in *.
    destruct (crest ctx done (lab KIf n) n1 rest) as [cr n2]. cbn [fst snd] in *.
    assert (Hat2 : code_at code (pc + 2) (branch_head done (lab KIf n) c rest :: ca ++ cr ++ [SLabel done])).
    { rewrite <- app_assoc in Hat. apply code_at_app in Hat. destruct Hat as [_ Hat]. cbn [length] in Hat.
      rewrite <- app_comm_cons in Hat. rewrite <- app_assoc in Hat. exact Hat. }
    destruct (HB Hat2 Hw) as (wm' & Hw' & Hp). exists wm'. split; [exact Hw'|].
    rewrite app_length. cbn [length]. rewrite app_length.
    replace (pc + (2 + S (length ca + length cr)) + 1) with (pc + 2 + S (length ca + length cr + 1)) by lia. exact Hp.
Qed.

(* shape of what follows a branch body when the chain goes on *)
Lemma crest_shape ctx done jl n rest : rest_ok rest = true -> rest <> TSkip ->
  exists tl, fst (crest ctx done jl n rest) = SJump done None :: SLabel jl :: tl.
Proof.
  intros Hro Hne. destruct rest; try discriminate Hro; [congruence| |]; cbn [crest].
  - destruct (compile ctx (S n) rest1) as [ca2 n3]. destruct (crest ctx done (lab KIf n) n3 rest2) as [cr2 n4]. cbn. eauto.
  - destruct (compile ctx n rest) as [cb n3]. cbn. eauto.
Qed.

Lemma rest_layout code p cr done jl tl : cr = SJump done None :: SLabel jl :: tl -> code_at code p (cr ++ [SLabel done]) ->
  nth_error code p = Some (SJump done None) /\ nth_error code (S p) = Some (SLabel jl) /\ nth_error code (p + length cr) = Some (SLabel done).
Proof.
  intros E Hat. apply code_at_app in Hat. destruct Hat as [Hc Hd]. apply code_at_cons in Hd. destruct Hd as [Hd _].
  rewrite E in Hc. apply code_at_cons in Hc. destruct Hc as [H0 Hc]. apply code_at_cons in Hc. destruct Hc as [H1 _]. auto.
Qed.

(* layout of a compiled while *)
Lemma while_layout code ctx n pc c b :
  code_at code pc (fst (compile ctx n (TWhile c b))) ->
  let cb := fst (compile (Some (lab KDone n, lab KLoop n)) (S n) b) in
  nth_error code pc = Some (SJump (lab KDone n) (Some (e_not c))) /\
  nth_error code (S pc) = Some (SLabel (lab KLoop n)) /\
  code_at code (pc + 2) cb /\
  nth_error code (pc + 2 + length cb) = Some (SJump (lab KLoop n) (Some c)) /\
  nth_error code (S (pc + 2 + length cb)) = Some (SLabel (lab KDone n)) /\
  length (fst (compile ctx n (TWhile c b))) = length cb + 4.
Proof.
  cbv zeta. cbn [compile]. destruct (compile (Some (lab KDone n, lab KLoop n)) (S n) b) as [cb n1]. cbn [fst snd]. intros Hat.
  cbn [app] in Hat. apply code_at_cons in Hat. destruct Hat as [H0 Hat]. apply code_at_cons in Hat. destruct Hat as [H1 Hat].
  apply code_at_app in Hat. destruct Hat as [Hb Hat]. apply code_at_cons in Hat. destruct Hat as [H2 Hat].
  apply code_at_cons in Hat. destruct Hat as [H3 _].
  replace (S (S pc)) with (pc + 2) in * by lia.
  repeat split; try assumption. cbn [app length]. rewrite app_length. cbn [length]. lia.
Qed.

Ltac run_at H := match type of H with Run ?code ?p ?l ?w ?r => match goal with |- Run code ?q l w r => replace q with p by lia; exact H end end.
Ltac nth_at H := match type of H with nth_error ?code ?p = ?x => match goal with |- nth_error code ?q = x => replace q with p by lia; exact H end end.
Ltac triv_Q := let Hr := fresh in intros ? ? ? ? ? ? ? ? _ _ _ _ Hr; discriminate Hr.
Ltac triv_W := let E := fresh in intros ? ? E; discriminate E.

Theorem sim : forall s st o st', SExec s st o st' -> PP s st o st' /\ QQ s st o st' /\ WW s st o st'.
Proof.
  induction 1 as
    [ st
    | a b st st1 o st2 Ha IHa Hb IHb
    | a b st o st1 Ha IHa Hno
    | x e loc w v w1 He
    | x e loc w o w1 He Hv
    | e loc w v w1 He
    | e loc w o w1 He Hv
    | e loc w o w1 He
    | st
    | st
    | st
    | c a rest loc w v w1 o st2 He Ht Ha IHa
    | c a rest loc w v w1 o st2 He Ht Hr IHr
    | c a rest loc w o w1 He Hv
    | b st o st1 Hb IHb
    | c b loc w v w1 He Ht
    | c b loc w o w1 He Hv
    | c b loc w v w1 o st2 o3 st3 He Ht Hb IHb Ho Hwh IHw
    | c b loc w v w1 st2 He Ht Hb IHb
    | c b loc w v w1 o st2 He Ht Hb IHb ].
  - (* Skip *)
    split; [|split; [|triv_W]].
    + intros code ctx cpos n pc wm _ _ _ _ _ Hw. exists wm. split; [exact Hw|]. cbn. rewrite PeanoNat.Nat.add_0_r. auto.
    + intros code ctx cpos done jl n pc wm _ _ _ _ _ Hne. congruence.
  - (* Seq, first part normal *)
    destruct IHa as [IHa _]. destruct IHb as [IHb _]. split; [|split; [triv_Q|triv_W]].
    intros code ctx cpos n pc wm HN Hc Hwf Hg Hat Hw. cbn [compile wf guard] in *.
    apply andb_prop in Hwf. destruct Hwf as [Hwa Hwb]. apply andb_prop in Hg. destruct Hg as [Hga Hgb].
    specialize (IHa code ctx cpos n pc wm HN Hc Hwa Hga).
    destruct (compile ctx n a) as [ca n1]. cbn [fst snd] in *.
    specialize (IHb code ctx cpos n1 (pc + length ca)).
    destruct (compile ctx n1 b) as [cb n2]. cbn [fst snd] in *.
    apply code_at_app in Hat. destruct Hat as [Hata Hatb].
    destruct (IHa Hata Hw) as (wm1 & Hw1 & Hp1). cbn [post] in Hp1.
    destruct (IHb wm1 HN Hc Hwb Hgb Hatb Hw1) as (wm2 & Hw2 & Hp2).
    exists wm2. split; [exact Hw2|]. rewrite app_length. rewrite PeanoNat.Nat.add_assoc.
    eapply post_pre; [exact Hp1|exact Hp2].
  - (* Seq, first part abrupt *)
    destruct IHa as [IHa _]. split; [|split; [triv_Q|triv_W]].
    intros code ctx cpos n pc wm HN Hc Hwf Hg Hat Hw. cbn [compile wf guard] in *.
    apply andb_prop in Hwf. destruct Hwf as [Hwa Hwb]. apply andb_prop in Hg. destruct Hg as [Hga Hgb].
    specialize (IHa code ctx cpos n pc wm HN Hc Hwa Hga).
    destruct (compile ctx n a) as [ca n1]. cbn [fst snd] in *. destruct (compile ctx n1 b) as [cb n2]. cbn [fst snd] in *.
    apply code_at_app in Hat. destruct Hat as [Hata _].
    destruct (IHa Hata Hw) as (wm1 & Hw1 & Hp1). exists wm1. split; [exact Hw1|].
    eapply post_end_irrel; [exact Hno|exact Hp1].
  - (* Assign *)
    split; [|split; [triv_Q|triv_W]].
    intros code ctx cpos n pc wm _ _ _ _ Hat Hw. cbn [compile fst length] in *. apply code_at_cons in Hat. destruct Hat as [Hn _].
    destruct (Ev_blind _ _ _ _ _ (tick wm) He (weq_tick _ _ Hw)) as (wm1 & He1 & Hw1).
    destruct (assign_weq x v loc _ _ Hw1) as [Ef Ew].
    exists (snd (assign x v loc wm1)). split; [exact Ew|]. cbn [post]. rewrite Ef. cbn [fst].
    intros r Hr. eapply run_expr; [exact Hn|exact He1|]. cbn beta iota. replace (pc + 1) with (S pc) in Hr by lia. exact Hr.
  - (* Assign, evaluation stops *)
    split; [|split; [triv_Q|triv_W]].
    intros code ctx cpos n pc wm _ _ _ _ Hat Hw. cbn [compile fst length] in *. apply code_at_cons in Hat. destruct Hat as [Hn _].
    destruct (Ev_blind _ _ _ _ _ (tick wm) He (weq_tick _ _ Hw)) as (wm1 & He1 & Hw1).
    exists wm1. split; [exact Hw1|]. cbn [post fst]. eapply run_expr_stop; eassumption.
  - (* Expr *)
    split; [|split; [triv_Q|triv_W]].
    intros code ctx cpos n pc wm _ _ _ _ Hat Hw. cbn [compile fst length] in *. apply code_at_cons in Hat. destruct Hat as [Hn _].
    destruct (Ev_blind _ _ _ _ _ (tick wm) He (weq_tick _ _ Hw)) as (wm1 & He1 & Hw1).
    exists wm1. split; [exact Hw1|]. cbn [post fst]. intros r Hr. eapply run_expr; [exact Hn|exact He1|].
    cbn beta iota. replace (pc + 1) with (S pc) in Hr by lia. exact Hr.
  - (* Expr, evaluation stops *)
    split; [|split; [triv_Q|triv_W]].
    intros code ctx cpos n pc wm _ _ _ _ Hat Hw. cbn [compile fst length] in *. apply code_at_cons in Hat. destruct Hat as [Hn _].
    destruct (Ev_blind _ _ _ _ _ (tick wm) He (weq_tick _ _ Hw)) as (wm1 & He1 & Hw1).
    exists wm1. split; [exact Hw1|]. cbn [post fst]. eapply run_expr_stop; eassumption.
  - (* Return e *)
    split; [|split; [triv_Q|triv_W]].
    intros code ctx cpos n pc wm _ _ _ _ Hat Hw. cbn [compile fst length] in *. apply code_at_cons in Hat. destruct Hat as [Hn _].
    destruct (Ev_blind _ _ _ _ _ (tick wm) He (weq_tick _ _ Hw)) as (wm1 & He1 & Hw1).
    exists wm1. split; [exact Hw1|]. cbn [post fst]. eapply run_return; eassumption.
  - (* Return *)
    split; [|split; [triv_Q|triv_W]].
    intros code ctx cpos n pc wm _ _ _ _ Hat Hw. cbn [compile fst length] in *. apply code_at_cons in Hat. destruct Hat as [Hn _].
    exists (tick wm). split; [apply weq_tick; exact Hw|]. cbn [post]. apply run_return_none. exact Hn.
  - (* Break *)
    split; [|split; [triv_Q|triv_W]].
    intros code ctx cpos n pc wm HN Hc Hwf _ Hat Hw. cbn [wf] in Hwf.
    destruct ctx as [[brk cnt]|]; [|discriminate]. destruct cpos as [[ib ic]|]; [|contradiction]. destruct Hc as [Hib Hic].
    cbn [compile fst length] in *. apply code_at_cons in Hat. destruct Hat as [Hn _].
    exists (tick wm). split; [apply weq_tick; exact Hw|]. cbn [post]. intros r Hr.
    eapply run_jump; [exact Hn|apply find_unique; eassumption|exact Hr].
  - (* Continue *)
    split; [|split; [triv_Q|triv_W]].
    intros code ctx cpos n pc wm HN Hc Hwf _ Hat Hw. cbn [wf] in Hwf.
    destruct ctx as [[brk cnt]|]; [|discriminate]. destruct cpos as [[ib ic]|]; [|contradiction]. destruct Hc as [Hib Hic].
    cbn [compile fst length] in *. apply code_at_cons in Hat. destruct Hat as [Hn _].
    exists (tick wm). split; [apply weq_tick; exact Hw|]. cbn [post]. intros r Hr.
    eapply run_jump; [exact Hn|apply find_unique; eassumption|exact Hr].
  - (* If, condition truthy *)
    destruct IHa as [IHa _].
    assert (HB : IFB c a rest (loc, w) o st2).
    { intros code ctx cpos done jl n pc wm HN Hc Hwf Hg Hat Hw. cbn [wf guard] in Hwf, Hg.
      apply andb_prop in Hwf. destruct Hwf as [Hwf Hro]. apply andb_prop in Hwf. destruct Hwf as [Hwa Hwr].
      apply andb_prop in Hg. destruct Hg as [Hga Hgr]. cbn [fst snd] in *.
      specialize (IHa code ctx cpos (S n) (S pc)).
      destruct (compile ctx (S n) a) as [ca n1]. cbn [fst snd] in *.
      remember (crest ctx done jl n1 rest) as crp eqn:Ecr. destruct crp as [cr n2]. cbn [fst snd] in *.
      apply code_at_cons in Hat. destruct Hat as [Hhead Hat]. apply code_at_app in Hat. destruct Hat as [Hata Hatr].
      destruct (Ev_blind _ _ _ _ _ (tick wm) He (weq_tick _ _ Hw)) as (wm1 & He1 & Hw1).
      rewrite (truthy_weq _ _ v Hw1) in Ht.
      destruct (IHa wm1 HN Hc Hwa Hga Hata Hw1) as (wm2 & Hw2 & Hp2).
      assert (Hin : forall r, Run code (S pc) loc wm1 r -> Run code pc loc wm r).
      { intros r Hr. unfold branch_head in Hhead. eapply run_jumpif; [exact Hhead|apply Ev_not; exact He1|].
        rewrite Ht. cbn [negb truthy]. exact Hr. }
      (* after the taken branch: to the end of the chain *)
      assert (Hout : forall loc2 r, Run code (pc + S (length ca + length cr + 1)) loc2 (tick wm2) r -> Run code (S pc + length ca) loc2 wm2 r).
      { intros loc2 r Hr. destruct (sstmt_skip_dec rest) as [Hs|Hne].
        - (* endif *) subst rest. cbn [crest] in Ecr. injection Ecr as -> ->. cbn [app length] in *.
          apply code_at_cons in Hatr. destruct Hatr as [Hd _].
          eapply run_label; [exact Hd|]. run_at Hr.
        - (* elif / else: jump over the rest of the chain *)
          destruct (crest_shape ctx done jl n1 rest Hro Hne) as (tl & Etl). rewrite <- Ecr in Etl. cbn [fst] in Etl.
          destruct (rest_layout _ _ _ _ _ _ Etl Hatr) as (Hj & _ & Hd).
          eapply run_jump; [exact Hj|apply find_unique; [exact HN|exact Hd]|].
          run_at Hr. }
      destruct o.
      - exists (tick wm2). split; [apply weq_tick; exact Hw2|]. cbn [post] in *. intros r Hr. apply Hin. apply Hp2. apply Hout. exact Hr.
      - exists wm2. split; [exact Hw2|]. eapply post_pre; [exact Hin|]. eapply post_end_irrel; [discriminate|exact Hp2].
      - exists wm2. split; [exact Hw2|]. eapply post_pre; [exact Hin|]. eapply post_end_irrel; [discriminate|exact Hp2].
      - exists wm2. split; [exact Hw2|]. eapply post_pre; [exact Hin|]. eapply post_end_irrel; [discriminate|exact Hp2]. }
    destruct (if_PQ _ _ _ _ _ _ HB) as [HP HQ]. split; [exact HP|split; [exact HQ|triv_W]].
  - (* If, condition falsy: the rest of the chain *)
    destruct IHr as (IHrP & IHrQ & _).
    assert (HB : IFB c a rest (loc, w) o st2).
    { intros code ctx cpos done jl n pc wm HN Hc Hwf Hg Hat Hw. cbn [wf guard] in Hwf, Hg.
      apply andb_prop in Hwf. destruct Hwf as [Hwf Hro]. apply andb_prop in Hwf. destruct Hwf as [Hwa Hwr].
      apply andb_prop in Hg. destruct Hg as [Hga Hgr]. cbn [fst snd] in *.
      destruct (compile ctx (S n) a) as [ca n1]. cbn [fst snd] in *.
      specialize (IHrQ code ctx cpos done jl n1 (S pc + length ca)).
      remember (crest ctx done jl n1 rest) as crp eqn:Ecr. destruct crp as [cr n2]. cbn [fst snd] in *.
      apply code_at_cons in Hat. destruct Hat as [Hhead Hat]. apply code_at_app in Hat. destruct Hat as [Hata Hatr].
      destruct (Ev_blind _ _ _ _ _ (tick wm) He (weq_tick _ _ Hw)) as (wm1 & He1 & Hw1).
      rewrite (truthy_weq _ _ v Hw1) in Ht.
      destruct (sstmt_skip_dec rest) as [Hs|Hne].
      - (* endif: the retargeted jump goes to the done label *)
        subst rest. inversion Hr; subst. cbn [crest] in Ecr. injection Ecr as -> ->. cbn [app length] in *.
        apply code_at_cons in Hatr. destruct Hatr as [Hd _].
        exists wm1. split; [exact Hw1|]. cbn [post fst]. intros r Hr'.
        unfold branch_head in Hhead. eapply run_jumpif; [exact Hhead|apply Ev_not; exact He1|].
        rewrite Ht. cbn [negb truthy]. eexists; split; [apply find_unique; [exact HN|exact Hd]|].
        run_at Hr'.
      - (* elif / else: the jump goes to this branch's If label, right before the rest of the chain *)
        destruct (IHrQ wm1 HN Hc Hwr Hgr Hro Hne Hatr Hw1) as (wm2 & Hw2 & Hp2).
        exists wm2. split; [exact Hw2|].
        replace (pc + S (length ca + length cr + 1)) with (S pc + length ca + length cr + 1) by lia.
        eapply post_pre; [|exact Hp2]. intros r Hr'.
        destruct (crest_shape ctx done jl n1 rest Hro Hne) as (tl & Etl). rewrite <- Ecr in Etl. cbn [fst] in Etl.
        destruct (rest_layout _ _ _ _ _ _ Etl Hatr) as (_ & Hl & _).
        assert (Hh : nth_error code pc = Some (SJump jl (Some (e_not c)))).
        { unfold branch_head in Hhead. destruct rest; try exact Hhead. congruence. }
        eapply run_jumpif; [exact Hh|apply Ev_not; exact He1|].
        rewrite Ht. cbn [negb truthy]. eexists; split; [apply find_unique; [exact HN|exact Hl]|].
        run_at Hr'. }
    destruct (if_PQ _ _ _ _ _ _ HB) as [HP HQ]. split; [exact HP|split; [exact HQ|triv_W]].
  - (* If, the condition's evaluation stops *)
    assert (HB : IFB c a rest (loc, w) (SStop o) (loc, w1)).
    { intros code ctx cpos done jl n pc wm HN Hc Hwf Hg Hat Hw. cbn [fst snd] in *.
      apply code_at_cons in Hat. destruct Hat as [Hhead _].
      destruct (Ev_blind _ _ _ _ _ (tick wm) He (weq_tick _ _ Hw)) as (wm1 & He1 & Hw1).
      exists wm1. split; [exact Hw1|]. cbn [post]. unfold branch_head in Hhead.
      eapply run_jumpif_stop; [exact Hhead|apply Ev_not_stop; eassumption|exact Hv]. }
    destruct (if_PQ _ _ _ _ _ _ HB) as [HP HQ]. split; [exact HP|split; [exact HQ|triv_W]].
  - (* Else *)
    destruct IHb as [IHb _]. split; [|split; [|triv_W]].
    + intros code ctx cpos n pc wm HN Hc Hwf Hg Hat Hw. cbn [compile wf guard] in *. apply IHb; assumption.
    + intros code ctx cpos done jl n pc wm HN Hc Hwf Hg _ _ Hat Hw. cbn [crest wf guard] in *.
      specialize (IHb code ctx cpos n (pc + 2) wm HN Hc Hwf Hg).
      destruct (compile ctx n b) as [cb n2]. cbn [fst snd] in *.
      rewrite <- app_assoc in Hat. apply code_at_app in Hat. destruct Hat as [_ Hat]. cbn [length] in Hat.
      apply code_at_app in Hat. destruct Hat as [Hatb Hd]. apply code_at_cons in Hd. destruct Hd as [Hd _].
      destruct (IHb Hatb Hw) as (wm1 & Hw1 & Hp1).
      destruct (sout_normal_dec o) as [->|Hno].
      * exists (tick wm1). split; [apply weq_tick; exact Hw1|]. cbn [post] in *. intros r Hr. apply Hp1.
        eapply run_label; [exact Hd|]. rewrite app_length in Hr. cbn [length] in Hr.
        run_at Hr.
      * exists wm1. split; [exact Hw1|]. eapply post_end_irrel; [exact Hno|exact Hp1].
  - (* While, condition falsy *)
    assert (HW : WW (TWhile c b) (loc, w) SNormal (loc, w1) /\ PP (TWhile c b) (loc, w) SNormal (loc, w1)).
    { split.
      - intros c' b' E code ctx cpos n pc wm HN Hc Hwb Hnc Hgb Hat Hw. injection E as <- <-.
        destruct (while_layout _ _ _ _ _ _ Hat) as (H0 & H1 & Hb & H2 & H3 & Hlen). cbn zeta in *.
        destruct (Ev_blind _ _ _ _ _ (tick wm) He (weq_tick _ _ Hw)) as (wm1 & He1 & Hw1).
        rewrite (truthy_weq _ _ v Hw1) in Ht. cbn [fst snd].
        exists (tick wm1). split; [apply weq_tick; exact Hw1|]. cbn [post]. intros r Hr.
        eapply run_jumpif; [exact H2|exact He1|]. rewrite Ht.
        eapply run_label; [exact H3|].
        rewrite Hlen in Hr. run_at Hr.
      - intros code ctx cpos n pc wm HN Hc Hwf Hg Hat Hw. cbn [wf guard] in Hwf, Hg.
        destruct (while_layout _ _ _ _ _ _ Hat) as (H0 & H1 & Hb & H2 & H3 & Hlen). cbn zeta in *.
        destruct (Ev_blind _ _ _ _ _ (tick wm) He (weq_tick _ _ Hw)) as (wm1 & He1 & Hw1).
        rewrite (truthy_weq _ _ v Hw1) in Ht. cbn [fst snd].
        exists wm1. split; [exact Hw1|]. cbn [post]. intros r Hr.
        eapply run_jumpif; [exact H0|apply Ev_not; exact He1|]. rewrite Ht. cbn [negb truthy].
        eexists; split; [apply find_unique; [exact HN|exact H3]|].
        rewrite Hlen in Hr. run_at Hr. }
    destruct HW as [HW HP]. split; [exact HP|split; [triv_Q|exact HW]].
  - (* While, the condition's evaluation stops *)
    split; [|split; [triv_Q|]].
    + intros code ctx cpos n pc wm HN Hc Hwf Hg Hat Hw.
      destruct (while_layout _ _ _ _ _ _ Hat) as (H0 & _). cbn zeta in *.
      destruct (Ev_blind _ _ _ _ _ (tick wm) He (weq_tick _ _ Hw)) as (wm1 & He1 & Hw1).
      exists wm1. split; [exact Hw1|]. cbn [post fst]. eapply run_jumpif_stop; [exact H0|apply Ev_not_stop; eassumption|exact Hv].
    + intros c' b' E code ctx cpos n pc wm HN Hc Hwb Hnc Hgb Hat Hw. injection E as <- <-.
      destruct (while_layout _ _ _ _ _ _ Hat) as (_ & _ & _ & H2 & _). cbn zeta in *.
      destruct (Ev_blind _ _ _ _ _ (tick wm) He (weq_tick _ _ Hw)) as (wm1 & He1 & Hw1).
      exists wm1. split; [exact Hw1|]. cbn [post fst]. eapply run_jumpif_stop; eassumption.
  - (* While, one more iteration *)
    destruct IHb as [IHb _]. destruct IHw as (_ & _ & IHw).
    assert (Hcore : forall code ctx cpos n pc wm1, NoDup (labels code) -> wf true b = true -> no_continue b = true -> guard b = true ->
              code_at code pc (fst (compile ctx n (TWhile c b))) -> weq w1 wm1 -> cont_ok code ctx cpos ->
              exists wm', weq (snd st3) wm' /\ post code cpos (pc + length (fst (compile ctx n (TWhile c b)))) o3 (fst st3) wm' (pc + 2) loc wm1).
    { intros code ctx cpos n pc wm1 HN Hwb Hnc Hgb Hat Hw1 Hc.
      destruct (while_layout _ _ _ _ _ _ Hat) as (H0 & H1 & Hatb & H2 & H3 & Hlen). cbn zeta in *.
      assert (Hcb : cont_ok code (Some (lab KDone n, lab KLoop n)) (Some (S (pc + 2 + length (fst (compile (Some (lab KDone n, lab KLoop n)) (S n) b))), S pc))).
      { split; assumption. }
      destruct (IHb code _ _ (S n) (pc + 2) wm1 HN Hcb Hwb Hgb Hatb Hw1) as (wm2 & Hw2 & Hp2).
      assert (Hoc : o = SNormal).
      { destruct Ho as [->| ->]; [reflexivity|]. exfalso. exact (no_continue_sound _ _ _ _ Hb Hnc eq_refl). }
      subst o. cbn [post] in Hp2.
      destruct (IHw c b eq_refl code ctx cpos n pc wm2 HN Hc Hwb Hnc Hgb Hat Hw2) as (wm3 & Hw3 & Hp3).
      exists wm3. split; [exact Hw3|]. eapply post_pre; [exact Hp2|exact Hp3]. }
    split; [|split; [triv_Q|]].
    + intros code ctx cpos n pc wm HN Hc Hwf Hg Hat Hw. cbn [wf guard] in Hwf, Hg. apply andb_prop in Hg. destruct Hg as [Hnc Hgb].
      destruct (while_layout _ _ _ _ _ _ Hat) as (H0 & H1 & _). cbn zeta in *.
      destruct (Ev_blind _ _ _ _ _ (tick wm) He (weq_tick _ _ Hw)) as (wm1 & He1 & Hw1).
      rewrite (truthy_weq _ _ v Hw1) in Ht.
      destruct (Hcore code ctx cpos n pc (tick wm1) HN Hwf Hnc Hgb Hat (weq_tick _ _ Hw1) Hc) as (wm3 & Hw3 & Hp3).
      exists wm3. split; [exact Hw3|]. cbn [fst snd] in *. eapply post_pre; [|exact Hp3]. intros r Hr.
      eapply run_jumpif; [exact H0|apply Ev_not; exact He1|]. rewrite Ht. cbn [negb truthy].
      eapply run_label; [exact H1|]. run_at Hr.
    + intros c' b' E code ctx cpos n pc wm HN Hc Hwb Hnc Hgb Hat Hw. injection E as <- <-.
      destruct (while_layout _ _ _ _ _ _ Hat) as (_ & H1 & _ & H2 & _). cbn zeta in *.
      destruct (Ev_blind _ _ _ _ _ (tick wm) He (weq_tick _ _ Hw)) as (wm1 & He1 & Hw1).
      rewrite (truthy_weq _ _ v Hw1) in Ht.
      destruct (Hcore code ctx cpos n pc wm1 HN Hwb Hnc Hgb Hat Hw1 Hc) as (wm3 & Hw3 & Hp3).
      exists wm3. split; [exact Hw3|]. cbn [fst snd] in *. eapply post_pre; [|exact Hp3]. intros r Hr.
      eapply run_jumpif; [exact H2|exact He1|]. rewrite Ht. eexists; split; [apply find_unique; [exact HN|exact H1]|].
      run_at Hr.
  - (* While, the body breaks *)
    destruct IHb as [IHb _].
    assert (Hcore : forall code ctx n pc wm1, NoDup (labels code) -> wf true b = true -> guard b = true ->
              code_at code pc (fst (compile ctx n (TWhile c b))) -> weq w1 wm1 ->
              exists wm', weq (snd st2) wm' /\ forall r, Run code (pc + length (fst (compile ctx n (TWhile c b)))) (fst st2) wm' r -> Run code (pc + 2) loc wm1 r).
    { intros code ctx n pc wm1 HN Hwb Hgb Hat Hw1.
      destruct (while_layout _ _ _ _ _ _ Hat) as (H0 & H1 & Hatb & H2 & H3 & Hlen). cbn zeta in *.
      assert (Hcb : cont_ok code (Some (lab KDone n, lab KLoop n)) (Some (S (pc + 2 + length (fst (compile (Some (lab KDone n, lab KLoop n)) (S n) b))), S pc))).
      { split; assumption. }
      destruct (IHb code _ _ (S n) (pc + 2) wm1 HN Hcb Hwb Hgb Hatb Hw1) as (wm2 & Hw2 & Hp2). cbn [post] in Hp2.
      exists wm2. split; [exact Hw2|]. intros r Hr. apply Hp2. rewrite Hlen in Hr.
      run_at Hr. }
    split; [|split; [triv_Q|]].
    + intros code ctx cpos n pc wm HN Hc Hwf Hg Hat Hw. cbn [wf guard] in Hwf, Hg. apply andb_prop in Hg. destruct Hg as [Hnc Hgb].
      destruct (while_layout _ _ _ _ _ _ Hat) as (H0 & H1 & _). cbn zeta in *.
      destruct (Ev_blind _ _ _ _ _ (tick wm) He (weq_tick _ _ Hw)) as (wm1 & He1 & Hw1).
      rewrite (truthy_weq _ _ v Hw1) in Ht.
      destruct (Hcore code ctx n pc (tick wm1) HN Hwf Hgb Hat (weq_tick _ _ Hw1)) as (wm3 & Hw3 & Hp3).
      exists wm3. split; [exact Hw3|]. cbn [post fst snd] in *. intros r Hr.
      eapply run_jumpif; [exact H0|apply Ev_not; exact He1|]. rewrite Ht. cbn [negb truthy].
      eapply run_label; [exact H1|]. replace (S (S pc)) with (pc + 2) by lia. apply Hp3. exact Hr.
    + intros c' b' E code ctx cpos n pc wm HN Hc Hwb Hnc Hgb Hat Hw. injection E as <- <-.
      destruct (while_layout _ _ _ _ _ _ Hat) as (_ & H1 & _ & H2 & _). cbn zeta in *.
      destruct (Ev_blind _ _ _ _ _ (tick wm) He (weq_tick _ _ Hw)) as (wm1 & He1 & Hw1).
      rewrite (truthy_weq _ _ v Hw1) in Ht.
      destruct (Hcore code ctx n pc wm1 HN Hwb Hgb Hat Hw1) as (wm3 & Hw3 & Hp3).
      exists wm3. split; [exact Hw3|]. cbn [post fst snd] in *. intros r Hr.
      eapply run_jumpif; [exact H2|exact He1|]. rewrite Ht. eexists; split; [apply find_unique; [exact HN|exact H1]|].
      replace (S (S pc)) with (pc + 2) by lia. apply Hp3. exact Hr.
  - (* While, the body stops (return / error) *)
    destruct IHb as [IHb _].
    assert (Hcore : forall code ctx n pc wm1, NoDup (labels code) -> wf true b = true -> guard b = true ->
              code_at code pc (fst (compile ctx n (TWhile c b))) -> weq w1 wm1 ->
              exists wm', weq (snd st2) wm' /\ Run code (pc + 2) loc wm1 (o, fst st2, wm')).
    { intros code ctx n pc wm1 HN Hwb Hgb Hat Hw1.
      destruct (while_layout _ _ _ _ _ _ Hat) as (H0 & H1 & Hatb & H2 & H3 & Hlen). cbn zeta in *.
      assert (Hcb : cont_ok code (Some (lab KDone n, lab KLoop n)) (Some (S (pc + 2 + length (fst (compile (Some (lab KDone n, lab KLoop n)) (S n) b))), S pc))).
      { split; assumption. }
      destruct (IHb code _ _ (S n) (pc + 2) wm1 HN Hcb Hwb Hgb Hatb Hw1) as (wm2 & Hw2 & Hp2). cbn [post] in Hp2.
      exists wm2. split; [exact Hw2|exact Hp2]. }
    split; [|split; [triv_Q|]].
    + intros code ctx cpos n pc wm HN Hc Hwf Hg Hat Hw. cbn [wf guard] in Hwf, Hg. apply andb_prop in Hg. destruct Hg as [Hnc Hgb].
      destruct (while_layout _ _ _ _ _ _ Hat) as (H0 & H1 & _). cbn zeta in *.
      destruct (Ev_blind _ _ _ _ _ (tick wm) He (weq_tick _ _ Hw)) as (wm1 & He1 & Hw1).
      rewrite (truthy_weq _ _ v Hw1) in Ht.
      destruct (Hcore code ctx n pc (tick wm1) HN Hwf Hgb Hat (weq_tick _ _ Hw1)) as (wm3 & Hw3 & Hp3).
      exists wm3. split; [exact Hw3|]. cbn [post fst snd] in *.
      eapply run_jumpif; [exact H0|apply Ev_not; exact He1|]. rewrite Ht. cbn [negb truthy].
      eapply run_label; [exact H1|]. run_at Hp3.
    + intros c' b' E code ctx cpos n pc wm HN Hc Hwb Hnc Hgb Hat Hw. injection E as <- <-.
      destruct (while_layout _ _ _ _ _ _ Hat) as (_ & H1 & _ & H2 & _). cbn zeta in *.
      destruct (Ev_blind _ _ _ _ _ (tick wm) He (weq_tick _ _ Hw)) as (wm1 & He1 & Hw1).
      rewrite (truthy_weq _ _ v Hw1) in Ht.
      destruct (Hcore code ctx n pc wm1 HN Hwb Hgb Hat Hw1) as (wm3 & Hw3 & Hp3).
      exists wm3. split; [exact Hw3|]. cbn [post fst snd] in *.
      eapply run_jumpif; [exact H2|exact He1|]. rewrite Ht. eexists; split; [apply find_unique; [exact HN|exact H1]|].
      run_at Hp3.
Qed.

End Sim.
