(* Proofs/C18Lib.v — the premise [lib_sim] of the C18 soundness theorems holds for the library model Model/LibCore.v:
   it never looks at the function table or the statement counter. *)
From Coq Require Import Lia ZArith.
From BS Require Import Model.Base Model.Num Model.Arith Model.ExprParser Model.Script Model.Interp Model.LibCore Model.Lint
     Proofs.C18 Proofs.C18Sim.

(* the world with another function table and counter *)
Definition wframe (w : world) (fu : list fundef) (ct : Z) : world := upd_count (upd_funs w fu) ct.

Lemma truthy_wframe w fu ct v : truthy (wframe w fu ct) v = truthy w v.
Proof. destruct v; reflexivity. Qed.

Lemma validate_wframe w fu ct : forall specs args, validate (wframe w fu ct) specs args = validate w specs args.
Proof.
  induction specs as [|sp rest IH]; intros args; cbn [validate]; [reflexivity|].
  destruct args as [|a t]; rewrite ?IH, ?truthy_wframe; reflexivity.
Qed.

Lemma vcompare_wframe w fu ct fuel a b : vcompare fuel (wframe w fu ct) a b = vcompare fuel w a b.
Proof. apply vcompare_rel; reflexivity. Qed.

Lemma minmax_wframe w fu ct want : forall vals cur, minmax (wframe w fu ct) want vals cur = minmax w want vals cur.
Proof.
  induction vals as [|v t IH]; intros cur; cbn [minmax]; [reflexivity|]. destruct cur as [c|]; [|apply IH].
  change (cmp_fuel (wframe w fu ct)) with (cmp_fuel w). rewrite (vcompare_wframe w fu ct (cmp_fuel w) v c).
  destruct (vcompare (cmp_fuel w) w v c); [apply IH|reflexivity].
Qed.

Lemma libcore_wframe cfg cb name args w fu ct :
  libcore cfg cb name args (wframe w fu ct) = (fst (libcore cfg cb name args w), wframe (snd (libcore cfg cb name args w)) fu ct).
Proof.
  unfold libcore. rewrite !validate_wframe, !minmax_wframe, ?truthy_wframe.
  change (cmp_fuel (wframe w fu ct)) with (cmp_fuel w). rewrite ?(vcompare_wframe w fu ct (cmp_fuel w)).
  unfold alloc_arr, alloc_obj, set_arr, set_obj, get_arr, get_obj, add_log, upd_globals, upd_arrs, upd_objs, wframe, upd_count, upd_funs.
  cbn [w_globals w_arrs w_objs w_funs w_log w_count w_fetched]. cbv beta iota.
  repeat match goal with
  | |- context [vcompare ?f ?W ?x ?y] => lazymatch W with w => fail | _ => rewrite (vcompare_rel W w eq_refl eq_refl f x y) end
  | |- context [if ?b then _ else _] => destruct b
  | |- context [match ?x with _ => _ end] => destruct x
  end; reflexivity.
Qed.

Lemma libcore_funs cfg cb name args w : w_funs (snd (libcore cfg cb name args w)) = w_funs w.
Proof.
  unfold libcore, alloc_arr, alloc_obj. cbv beta iota.
  repeat match goal with
  | |- context [if ?b then _ else _] => destruct b
  | |- context [match ?x with _ => _ end] => destruct x
  | |- context [let '(_, _) := ?x in _] => destruct x
  end; try reflexivity.
Qed.

(* the library model satisfies the premise of the soundness theorems, for every ok / pair of names *)
Theorem libcore_lib_sim ok xo xn cfg : lib_sim ok xo xn (libcore cfg).
Proof.
  intros cb cb' _ name args w w' Hw. right.
  assert (E : w' = wframe w (w_funs w') (w_count w')).
  { destruct w, w'. destruct Hw as (Hg & Ha & Ho & Hl & Hft & _). cbn in *. subst. reflexivity. }
  change (libcore cfg cb' name args w') with (libcore cfg cb name args w'). rewrite E, libcore_wframe. cbn [fst snd].
  split; [reflexivity|]. destruct Hw as (_ & _ & _ & _ & _ & Hfu).
  repeat split; try reflexivity. cbn. rewrite libcore_funs. exact Hfu.
Qed.

Theorem libcore_lib_ok cfg ok : lib_ok (libcore cfg) ok.
Proof. intros xo xn. apply libcore_lib_sim. Qed.
