(* Proofs/RegexShiftG.v — m_shift of Proofs/RegexShift.v generalised for a whitespace prefix that sits INSIDE a capture
   group opened at the start of the line:  ^(\s*Y)Z  (jump / jumpif, return)  and  ^(\s*A)?\s*F  (function begin).
   On  ws ++ text  the engine answers as on  text  with every position moved by d = |ws| EXCEPT the start of the outer
   group g, which stays where it was (0):  shiftcg.  Also: the continuation only has to agree at positions the regex can
   reach (pos + minlen r <= p), which is what removes the `p == pos` test of an optional group. *)
From Coq Require Import Lia.
From BS Require Import Model.Base Model.Regex Proofs.RegexFacts Proofs.RegexComplete Proofs.RegexShift Proofs.ExprFuel.

Section ShiftG.
Variable UCL : uclass.
Variable d g : nat.

Definition shg (x : nat * (nat * nat)) : nat * (nat * nat) :=
  (fst x, ((if Nat.eqb (fst x) g then fst (snd x) else d + fst (snd x)), d + snd (snd x))).
Definition shiftcg (c : caps) : caps := map shg c.
Definition shiftrg (r : mres) : mres := match r with MYes e c => MYes (d + e) (shiftcg c) | x => x end.

Fixpoint nogrp (r : regex) : bool :=
  match r with
  | RGroup n a => negb (Nat.eqb n g) && nogrp a
  | RCat a b | RAlt a b => nogrp a && nogrp b
  | RRep _ _ a | RLook a => nogrp a
  | _ => true
  end.

Lemma m_shiftg : forall f r pos rest c k k', no_bol r = true -> nogrp r = true ->
  (forall p r' c', pos + minlen r <= p -> k' (d + p) r' (shiftcg c') = shiftrg (k p r' c')) ->
  m UCL f r (d + pos) rest (shiftcg c) k' = shiftrg (m UCL f r pos rest c k).
Proof.
  induction f as [|f IH]; intros r pos rest c k k' NB NG K; [reflexivity|].
  destruct r; cbn [m]; cbn [no_bol] in NB; cbn [nogrp] in NG; cbn [minlen] in K.
  - apply K. lia.
  - destruct rest as [|y t]; [reflexivity|]. destruct (y =? c0)%N; [|reflexivity]. rewrite <- Nat.add_succ_r. apply K. lia.
  - destruct rest as [|y t]; [reflexivity|]. destruct (y =? c0)%N; [reflexivity|]. rewrite <- Nat.add_succ_r. apply K. lia.
  - destruct rest as [|y t]; [reflexivity|]. destruct (y =? 10)%N; [reflexivity|]. rewrite <- Nat.add_succ_r. apply K. lia.
  - destruct rest as [|y t]; [reflexivity|]. destruct (class_match UCL neg items y); [|reflexivity]. rewrite <- Nat.add_succ_r. apply K. lia.
  - discriminate.
  - destruct rest as [|y [|z t]]; [apply K; lia | destruct (y =? 10)%N; [apply K; lia | reflexivity] | reflexivity].
  - apply andb_true_iff in NB. destruct NB as [NA NB]. apply andb_true_iff in NG. destruct NG as [GA GB].
    apply IH; [exact NA | exact GA |]. intros p r' c' Hp. apply IH; [exact NB | exact GB |]. intros p2 q2 c2 Hp2. apply K. lia.
  - apply andb_true_iff in NB. destruct NB as [NA NB]. apply andb_true_iff in NG. destruct NG as [GA GB].
    assert (KA : forall p r' c', pos + minlen r1 <= p -> k' (d + p) r' (shiftcg c') = shiftrg (k p r' c')) by (intros; apply K; lia).
    assert (KB : forall p r' c', pos + minlen r2 <= p -> k' (d + p) r' (shiftcg c') = shiftrg (k p r' c')) by (intros; apply K; lia).
    rewrite (IH r1 pos rest c k k' NA GA KA).
    destruct (m UCL f r1 pos rest c k); cbn [shiftrg]; [apply IH; assumption | reflexivity | reflexivity].
  - set (more := match mx with
                 | Some 0 => MNo
                 | _ => m UCL f r pos rest c (fun p r' c' => if Nat.eqb p pos then MNo
                           else m UCL f (RRep (pred mn) (option_map pred mx) r) p r' c' k)
                 end).
    set (more' := match mx with
                 | Some 0 => MNo
                 | _ => m UCL f r (d + pos) rest (shiftcg c) (fun p r' c' => if Nat.eqb p (d + pos) then MNo
                           else m UCL f (RRep (pred mn) (option_map pred mx) r) p r' c' k')
                 end).
    assert (A : more' = shiftrg more).
    { subst more more'. destruct mx as [[|?]|]; [reflexivity| |];
        (apply IH; [exact NB | exact NG |]; intros p r' c' Hp; rewrite eqb_add_l; destruct (Nat.eqb p pos); [reflexivity|];
         apply IH; [exact NB | exact NG |]; intros p2 q2 c2 Hp2; apply K; cbn [minlen] in Hp2; destruct mn; cbn [pred] in *; nia). }
    rewrite A. destruct more; cbn [shiftrg]; [destruct mn; [apply K; lia | reflexivity] | reflexivity | reflexivity].
  - apply andb_true_iff in NG. destruct NG as [GN GA]. apply negb_true_iff in GN.
    apply IH; [exact NB | exact GA |]. intros p r' c' Hp.
    assert (E : shiftcg (cap_set n (pos, p) c') = cap_set n (d + pos, d + p) (shiftcg c')).
    { unfold shiftcg, cap_set. cbn [map]. unfold shg at 1. cbn [fst snd]. rewrite GN. reflexivity. }
    rewrite <- E. apply K. exact Hp.
  - rewrite (IH r pos rest c (fun p _ c' => MYes p c') (fun p _ c' => MYes p c') NB NG (fun _ _ _ _ => eq_refl)).
    destruct (m UCL f r pos rest c (fun p _ c' => MYes p c')); cbn [shiftrg]; [reflexivity | apply K; lia | reflexivity].
Qed.

(* ---- a whitespace prefix in front of  \s* K  where K rejects a rest that starts with whitespace ---- *)
Lemma rsp_prefix ws text G (K : nat -> str -> caps -> mres) :
  (forall y, In y ws -> is_space UCL y = true) ->
  length ws = d ->
  d + 3 * (length (ws ++ text) + 1) <= G ->
  (forall p y rest' c', is_space UCL y = true -> length (y :: rest') <= length (ws ++ text) -> K p (y :: rest') c' = MNo) ->
  (forall p r' c', length r' <= length text -> K p r' c' <> MFuel) ->
  (forall p r' c', K (d + p) r' (shiftcg c') = shiftrg (K p r' c')) ->
  m UCL G rsp 0 (ws ++ text) [] K = shiftrg (m UCL G rsp 0 text [] K).
Proof.
  intros W Ld HG Kf Kn Ks.
  assert (Lapp : length (ws ++ text) = d + length text) by (rewrite app_length; lia).
  replace G with (length ws + (G - d)) at 1 by lia.
  rewrite (sp_skip UCL text K (length (ws ++ text)) ws (G - d) 0 [] W (Nat.le_refl _)).
  2:{ intros p y rest' c' Hy HL. apply Kf; assumption. }
  rewrite (m_fuel_irrel UCL (G - d) G rsp (0 + length ws) text [] K).
  2:{ unfold rsp. cbn [rsize]. lia. }
  2:{ unfold rsp. cbn [rsize]. lia. }
  2:{ intros p r' c' Hp Hl. apply Kn. lia. }
  rewrite Ld. replace (0 + d) with (d + 0) by lia. change (@nil (nat * (nat * nat))) with (shiftcg []) at 1.
  apply m_shiftg; [reflexivity | reflexivity |]. intros p r' c' _. apply Ks.
Qed.

(* a regex that fails on a whitespace character, operationally *)
Lemma fails_on_space_m B G p y rest' c k : fails_on_space UCL B -> is_space UCL y = true ->
  m UCL G B p (y :: rest') c k <> MFuel -> m UCL G B p (y :: rest') c k = MNo.
Proof.
  intros FS Hy NF. destruct (m UCL G B p (y :: rest') c k) as [|e cf|] eqn:E; [reflexivity | | congruence].
  exfalso. set (s := repeat 0%N p ++ y :: rest').
  assert (Lp : length (repeat 0%N p) = p) by apply repeat_length.
  assert (Sk : skipn p s = y :: rest') by (unfold s; rewrite <- Lp at 1; apply skipn_pre).
  assert (Nt : nth_error s p = Some y).
  { unfold s. rewrite nth_error_app2 by lia. rewrite Lp, Nat.sub_diag. reflexivity. }
  apply (m_sound UCL s G B p (y :: rest') c k e cf) in E.
  - destruct E as (p' & c'' & M & _). exact (FS _ _ _ _ _ _ M Nt Hy).
  - unfold s. rewrite app_length, Lp. cbn [length]. lia.
  - symmetry. exact Sk.
Qed.

Lemma cap_get_shiftcg n c : Nat.eqb n g = false ->
  cap_get n (shiftcg c) = option_map (fun ab => (d + fst ab, d + snd ab)) (cap_get n c).
Proof.
  intros NE. induction c as [|[k [a b]] t IH]; [reflexivity|]. cbn [shiftcg map cap_get]. unfold shg at 1. cbn [fst snd].
  destruct (Nat.eqb k n) eqn:E.
  - apply Nat.eqb_eq in E. subst k. rewrite NE. reflexivity.
  - exact IH.
Qed.

Lemma cap_get_shiftcg_has n c : (match cap_get n (shiftcg c) with Some _ => true | None => false end) =
                                (match cap_get n c with Some _ => true | None => false end).
Proof.
  induction c as [|[k [a b]] t IH]; [reflexivity|]. cbn [shiftcg map cap_get]. unfold shg at 1. cbn [fst snd].
  destruct (Nat.eqb k n); [reflexivity | exact IH].
Qed.

End ShiftG.

Lemma group_text_shiftg g ws text c n : Nat.eqb n g = false ->
  group_text (ws ++ text) (shiftcg (length ws) g c) n = group_text text c n.
Proof.
  intros NE. unfold group_text. rewrite cap_get_shiftcg by exact NE. destruct (cap_get n c) as [[a b]|]; [|reflexivity].
  cbn [option_map fst snd]. unfold sub_list. rewrite skipn_pad.
  replace (length ws + b - (length ws + a)) with (b - a) by lia. reflexivity.
Qed.

(* ---- one-step unfoldings of the matcher (definitional; stated once so that proofs rewrite instead of converting) ---- *)
Lemma m_cat U f a b pos rest c k : m U (S f) (RCat a b) pos rest c k = m U f a pos rest c (fun p r' c' => m U f b p r' c' k).
Proof. reflexivity. Qed.
Lemma m_bol0 U f rest c k : m U (S f) RBol 0 rest c k = k 0 rest c.
Proof. reflexivity. Qed.
Lemma m_group U f n a pos rest c k : m U (S f) (RGroup n a) pos rest c k = m U f a pos rest c (fun p r' c' => k p r' (cap_set n (pos, p) c')).
Proof. reflexivity. Qed.
Lemma m_rep01 U f a pos rest c k : m U (S f) (RRep 0 (Some 1) a) pos rest c k =
  match m U f a pos rest c (fun p r' c' => if Nat.eqb p pos then MNo else m U f (RRep 0 (Some 0) a) p r' c' k) with
  | MNo => k pos rest c | res => res end.
Proof. rewrite m_rep_unfold. cbn [pred option_map]. destruct (m U f a pos rest c _); reflexivity. Qed.

(* ^(\s*Y)Z *)
Lemma grp_unfold U f g Y Z s :
  m U (S (S (S (S f)))) (RCat RBol (RCat (RGroup g (RCat rsp Y)) Z)) 0 s [] kfin =
  m U f rsp 0 s [] (fun p r' c' => m U f Y p r' c' (fun p2 r2 c2 => m U (S (S f)) Z p2 r2 (cap_set g (0, p2) c2) kfin)).
Proof. rewrite m_cat, m_bol0, m_cat, m_group, m_cat. reflexivity. Qed.

(* ^(\s*A)?\s*F *)
Lemma opt_unfold U f g A Fr s :
  m U (S (S (S (S (S f))))) (RCat RBol (RCat (RRep 0 (Some 1) (RGroup g (RCat rsp A))) (RCat rsp Fr))) 0 s [] kfin =
  match m U f rsp 0 s [] (fun p r' c' => m U f A p r' c' (fun p2 r2 c2 =>
          if Nat.eqb p2 0 then MNo else m U (S (S (S f))) (RCat rsp Fr) p2 r2 (cap_set g (0, p2) c2) kfin)) with
  | MNo => m U (S (S f)) rsp 0 s [] (fun p r' c' => m U (S (S f)) Fr p r' c' kfin)
  | res => res end.
Proof.
  rewrite m_cat, m_bol0, m_cat, m_rep01, m_group, m_cat. rewrite (m_cat U (S (S f)) rsp Fr 0 s [] kfin). reflexivity.
Qed.
