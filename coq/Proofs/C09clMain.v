(* Proofs/C09clMain.v — THE CLAUSE for the combined library libfull2, no premise on the library: from every world that
   satisfies the closure invariant (Proofs/C09clInv.v closures_wf; in particular every closure-free world) every run under a
   positive statement limit terminates, and the final world satisfies the invariant again.
   Pieces: C09clLib (LibCore, systemPartial), C09clSim (arraySort, closure call, the combined library), C09clTower (eval / call /
   exec, the induction on the fuel), C09clMore (LibMore), C09clSeqV + C09clSeq + C09clEnc (the lifted LibSeq functions). *)
From Coq Require Import List Lia ZArith.
From BS Require Import Model.Base Model.Interp Model.LibAll Model.LibPartial Proofs.C09term Proofs.C09termClosure
                       Proofs.C09clInv Proofs.C09clLib Proofs.C09clSim Proofs.C09clTower Proofs.C09clMore Proofs.C09clSeq Proofs.C09clEnc.
Import ListNotations.

Theorem libfull2_run_terminates cfg cfg' url_rel lint_lines : (0 < c_max cfg)%Z ->
  forall sc w, closures_wf w ->
  exists fuel r, (forall bot fuel', (fuel <= fuel')%nat ->
                    execute_script_bot cfg (libfull2 cfg') url_rel lint_lines bot fuel' sc w = r) /\
                 closures_wf (snd r).
Proof. exact (libfull2_run_terminates_wf lift_seq_pres_holds libmore_pres cfg cfg' url_rel lint_lines). Qed.

Theorem libfull2_in_step poison cfg : LibSim poison (libfull2g cfg) (libfull2 cfg).
Proof. exact (libfull2_sim poison lift_seq_pres_holds libmore_pres cfg). Qed.

(* the run with the unguarded library IS the run with the guarded one, from the fuel at which the guarded run has settled *)
Theorem libfull2_run_is_guarded_run cfg cfg' url_rel lint_lines : (0 < c_max cfg)%Z ->
  forall sc w, closures_wf w ->
  exists fuel, forall bot fuel', (fuel <= fuel')%nat ->
    execute_script_bot cfg (libfull2 cfg') url_rel lint_lines bot fuel' sc w =
    execute_script_bot cfg (libfull2g cfg') url_rel lint_lines bot fuel' sc w.
Proof.
  intros Hpos sc w Hw.
  destruct (libfull2_run_terminates cfg cfg' url_rel lint_lines Hpos sc w Hw) as (f1 & r1 & H1 & _).
  destruct (libfull2g_run_terminates cfg cfg' url_rel lint_lines Hpos sc w) as (f2 & r2 & H2).
  assert (E : r1 = r2).
  { destruct Hw as [H Hw]. set (poison := match fst r2 with ORt m => 0%N :: m | _ => [] end).
    assert (Np : fst r2 <> ORt poison).
    { unfold poison. destruct (fst r2) as [v|m| | | |]; try discriminate. intros X. injection X as X.
      apply (f_equal (@length N)) in X. cbn in X. lia. }
    destruct (script_sim poison cfg url_rel lint_lines (libfull2g cfg') (libfull2 cfg') (libfull2_in_step poison cfg') OFuel (Nat.max f1 f2) sc H w Hw)
      as [P|[E _]].
    - rewrite (H2 (ORt poison) (Nat.max f1 f2) (Nat.le_max_r _ _)) in P. contradiction.
    - rewrite (H2 (ORt poison) (Nat.max f1 f2) (Nat.le_max_r _ _)), (H1 OFuel (Nat.max f1 f2) (Nat.le_max_l _ _)) in E. exact E. }
  exists (Nat.max f1 f2). intros bot fuel' Hf. rewrite (H1 bot fuel') by lia. rewrite (H2 bot fuel') by lia. exact E.
Qed.
