(* Proofs/TotalFuel.v — the parser model never runs out of its own fuel:
       forall chunks start, parse_script chunks start <> RFuel
   hence (with Proofs/Total.v: never RHost) parse_script ALWAYS returns a script or a BareScriptParserError.
   Sources of RFuel in Model/Script.v and how each is closed:
     * the regex engine answering MFuel            — Proofs/RegexComplete.v re_match_no_fuel (any regex, any subject);
     * re.sub / re.split running out (None)        — re_sub_some (Proofs/ExprFuel.v), re_split_some (here);
     * parse_expression answering EFuel            — Proofs/ExprFuel.v parse_expression_no_fuel. *)
From Coq Require Import Lia.
From BS Require Import Model.Base Model.Regex Model.Num Model.ExprParser Model.Script Model.ScriptX
  Gen.Unicode Gen.Regexes Proofs.RegexFacts Proofs.RegexComplete Proofs.ExprFacts Proofs.ExprFuel
  Proofs.ScriptFacts Proofs.C06 Proofs.Total.

(* ---- re.split never runs out ---- *)
Lemma re_split_from_some UCL r whole : forall fuel pos rest cur, length rest <= length whole ->
  re_split_from UCL r whole fuel pos rest cur <> None.
Proof.
  induction fuel as [|f IH]; intros pos rest cur L; cbn [re_split_from]; [discriminate|].
  destruct rest as [|y t]; [discriminate|].
  assert (NF : m UCL (fuel_for r whole) r pos (y :: t) [] (fun p _ c => MYes p c) <> MFuel).
  { apply m_no_fuel; [unfold fuel_for; nia | discriminate]. }
  assert (T : re_split_from UCL r whole f (S pos) t (y :: cur) <> None) by (apply IH; cbn [length] in L; lia).
  destruct (m UCL (fuel_for r whole) r pos (y :: t) [] (fun p _ c => MYes p c)) as [|p c|]; [exact T | | congruence].
  destruct (Nat.ltb pos p); [|exact T].
  assert (L2 : length (skipn (p - pos) (y :: t)) <= length whole) by (rewrite skipn_length; lia).
  pose proof (IH p (skipn (p - pos) (y :: t)) [] L2) as I.
  destruct (re_split_from UCL r whole f p (skipn (p - pos) (y :: t)) []); [discriminate | congruence].
Qed.

Lemma re_split_some UCL r s : re_split UCL r s <> None.
Proof. unfold re_split. apply re_split_from_some. lia. Qed.

(* ---- the line front end ---- *)
Lemma split_lines_ok text : exists l, split_lines text = ROk l.
Proof.
  unfold split_lines. pose proof (re_split_some UC R_SCRIPT_LINE_SPLIT text) as H.
  destruct (re_split UC R_SCRIPT_LINE_SPLIT text); [eauto | congruence].
Qed.

Lemma split_chunks_ok chunks : exists l, split_chunks chunks = ROk l.
Proof.
  induction chunks as [|c t [b IH]]; [eexists; reflexivity|].
  destruct (split_lines_ok c) as [a E]. exists (a ++ b). cbn [split_chunks]. rewrite E, IH. reflexivity.
Qed.

Lemma rxm_nofuel r s : rxm r s <> MFuel.
Proof. apply re_match_no_fuel. Qed.

Lemma is_comment_ok part : exists b, is_comment part = ROk b.
Proof.
  unfold is_comment. pose proof (re_match_no_fuel UC R_SCRIPT_COMMENT part) as H.
  destruct (re_match UC R_SCRIPT_COMMENT part); [eauto | eauto | congruence].
Qed.

Lemma strip_continuation_ok part : exists s, strip_continuation part = ROk s.
Proof.
  unfold strip_continuation. pose proof (re_sub_some UC R_SCRIPT_CONTINUATION (fun _ _ => []) part) as H.
  destruct (re_sub UC R_SCRIPT_CONTINUATION (fun _ _ => []) part); [eauto | congruence].
Qed.

Lemma lstep_not_bad ls ix part r : lstep ls ix part <> LBad r.
Proof.
  unfold lstep. destruct (is_comment_ok part) as [b E]. rewrite E. destruct b; [discriminate|].
  destruct (strip_continuation_ok part) as [s E2]. rewrite E2.
  destruct (negb (str_eqb part s)); [discriminate|]. destruct (negb _); discriminate.
Qed.

Lemma llines_done lines : forall ix ls, exists ls', snd (llines lines ix ls) = LDone ls'.
Proof.
  induction lines as [|part rest IH]; intros ix ls; cbn [llines]; [eexists; reflexivity|].
  pose proof (lstep_not_bad ls ix part) as NB.
  destruct (lstep ls ix part) as [ls'|ls' i line|r]; [apply IH | | exfalso; eapply NB; reflexivity].
  destruct (IH (S ix) ls') as [l2 E]. destruct (llines rest (S ix) ls') as [l t]. cbn [snd] in *. eauto.
Qed.

(* ---- one step ---- *)
Lemma unesc_ok r s : exists t, unesc r s = ROk t.
Proof.
  unfold unesc. pose proof (re_sub_some UC r (fun whole c => gtext whole c 1) s) as H.
  destruct (re_sub UC r (fun whole c => gtext whole c 1) s); [eauto | congruence].
Qed.

Definition kind_nofuel (k : lkind) : Prop :=
  match k with
  | KAssign _ pe _ | KIf pe _ | KElif pe _ | KWhile pe _ | KFor _ _ pe _ | KExpr pe => pe <> EFuel
  | KJump _ (Some pe) _ | KReturn (Some pe) _ => pe <> EFuel
  | KFnBegin _ args _ _ => args <> None
  | _ => True
  end.

Lemma classify_not_fuel line : classify line <> RFuel.
Proof.
  unfold classify.
  repeat (match goal with
          | |- context [match rxm ?r ?l with _ => _ end] =>
            let NF := fresh "NF" in pose proof (rxm_nofuel r l) as NF; destruct (rxm r l) as [|? ?|]; [ | | congruence]
          end); try discriminate.
  destruct (unesc_ok R_EXPR_STRING_ESCAPE (gtext line c R_SCRIPT_INCLUDE__url)) as [t E]. rewrite E. discriminate.
Qed.

Lemma classify_kind_nofuel line k : classify line = ROk k -> kind_nofuel k.
Proof.
  unfold classify.
  repeat (match goal with
          | |- context [match rxm ?r ?l with _ => _ end] => destruct (rxm r l) as [|? ?|]
          end; [ | | discriminate ]).
  all: intros H; try (inversion H; subst k; clear H; cbn [kind_nofuel]; try exact I; try apply parse_expression_no_fuel).
  - unfold unesc in H. destruct (re_sub _ _ _ _); inversion H. exact I.
  - destruct (gtext line c R_SCRIPT_RETURN__expr); [exact I | apply parse_expression_no_fuel].
  - destruct (gtext line c R_SCRIPT_JUMP__expr); [exact I | apply parse_expression_no_fuel].
  - destruct (ghas c R_SCRIPT_FUNCTION_BEGIN__args); [|discriminate].
    pose proof (re_split_some UC R_SCRIPT_FUNCTION_ARG_SPLIT (gtext line c R_SCRIPT_FUNCTION_BEGIN__args)) as S0.
    destruct (re_split UC R_SCRIPT_FUNCTION_ARG_SPLIT (gtext line c R_SCRIPT_FUNCTION_BEGIN__args)); [discriminate | congruence].
Qed.

Lemma lift_fuel pe line off n : lift pe line off n = RFuel -> pe = EFuel.
Proof. destruct pe; cbn; intros H; try discriminate. reflexivity. Qed.

Local Arguments U : simpl never.
Local Arguments lbl : simpl never.
Local Arguments Nat.ltb : simpl never.
Local Arguments Nat.leb : simpl never.
Local Arguments retarget : simpl never.
Local Arguments last_is_include : simpl never.
Local Arguments find_loop : simpl never.

Ltac hsplit H :=
  repeat match type of H with
         | context [match lift ?a ?b ?c ?d with _ => _ end] => destruct (lift a b c d) eqn:?
         | context [if ?b then _ else _] => destruct b eqn:?
         | context [match ?x with _ => _ end] => destruct x eqn:?
         end; try discriminate H.

Lemma apply_kind_not_fuel ps n line k : kind_nofuel k -> apply_kind ps n line k <> RFuel.
Proof.
  intros K H. destruct ps as [gl fn d fr ix]. destruct k; cbn in H, K; hsplit H.
  all: try (match goal with L : lift _ _ _ _ = RFuel |- _ => apply lift_fuel in L end; congruence).
  all: try congruence.
Qed.

Theorem pstep_not_fuel ps n line : pstep ps n line <> RFuel.
Proof.
  rewrite pstep_is_classify_apply. unfold pstep2. intros H.
  destruct (classify line) as [k| | |] eqn:C; try discriminate.
  - eapply apply_kind_not_fuel; [eapply classify_kind_nofuel; exact C | exact H].
  - eapply classify_not_fuel. exact C.
Qed.

Lemma pfold_not_fuel lls : forall ps start, pfold lls ps start <> RFuel.
Proof.
  induction lls as [|[i line] t IH]; intros ps start; cbn [pfold]; [discriminate|].
  pose proof (pstep_not_fuel ps (start + i) line) as N.
  destruct (pstep ps (start + i) line); try discriminate; [apply IH | congruence].
Qed.

Lemma pfinish_not_fuel ls ps start : pfinish ls ps start <> RFuel.
Proof. unfold pfinish. destruct (l_cont ls); [|discriminate]. destruct (ps_frames ps); [|discriminate]. destruct (ps_fn ps); discriminate. Qed.

Theorem parse_lines_no_fuel lines start : parse_lines lines start <> RFuel.
Proof.
  rewrite parse_lines_view. destruct (llines_done lines 0 ls_init) as [ls' D].
  destruct (llines lines 0 ls_init) as [lls t]. cbn [snd] in D. subst t.
  pose proof (pfold_not_fuel lls ps_init start) as P.
  destruct (pfold lls ps_init start); try discriminate; [apply pfinish_not_fuel | congruence].
Qed.

Theorem parse_script_no_fuel chunks start : parse_script chunks start <> RFuel.
Proof.
  rewrite parse_script_lines. destruct (split_chunks_ok chunks) as [lines E]. rewrite E. apply parse_lines_no_fuel.
Qed.

(* FULL totality: a script or a BareScriptParserError, nothing else *)
Theorem parse_script_returns chunks start :
  (exists s, parse_script chunks start = ROk s) \/ (exists e, parse_script chunks start = RErr e).
Proof.
  pose proof (parse_script_no_fuel chunks start) as F. pose proof (parse_script_total chunks start) as Hh.
  destruct (parse_script chunks start) as [s|e|w|]; [eauto | eauto | exfalso; eapply Hh; reflexivity | congruence].
Qed.

Theorem parse_expression_returns text :
  (exists e, parse_expression text = EOk e) \/ (exists msg c, parse_expression text = EErr msg c).
Proof.
  pose proof (parse_expression_no_fuel text) as F. pose proof (expr_parser_no_host text) as Hh.
  destruct (parse_expression text) as [e|m c|w|]; [eauto | eauto | exfalso; eapply Hh; reflexivity | congruence].
Qed.
