(* ExprFacts.v — what parse_expression reports is a position INSIDE its text: the unparsed
   remainder carried by every error of the expression parser is never longer than the text
   (so the natural-number subtraction of the column arithmetic is exact), and the reported
   column is in 1 .. length text + 1. *)
From Coq Require Import Lia.
From BS Require Import Model.Base Model.Regex Model.Num Model.ExprParser Gen.Regexes.

Definition len_post {A} (text : str) (r : pres (A * str)) : Prop :=
  match r with
  | POk (_, rest) => length rest <= length text
  | PErr _ n => n <= length text
  | _ => True
  end.

Lemma skipn_le {A} n (l : list A) : length (skipn n l) <= length l.
Proof. rewrite skipn_length. lia. Qed.

Lemma parser_len : forall fuel,
  (forall text left, len_post text (parse_binary fuel text left)) /\
  (forall text, len_post text (parse_unary fuel text)) /\
  (forall text acc, len_post text (parse_args fuel text acc)).
Proof.
  induction fuel as [|f (IHb & IHu & IHa)]; [repeat split; intros; exact I|].
  split; [|split].
  - intros text left. cbn [parse_binary].
    assert (Hleft : len_post text (match left with Some l => POk (l, text) | None => parse_unary f text end)).
    { destruct left; [cbn [len_post]; lia | apply IHu]. }
    destruct (match left with Some l => POk (l, text) | None => parse_unary f text end) as [[le bt]|msg n|w|]; cbn [len_post] in Hleft |- *; auto.
    destruct (rx R_EXPR_BINARY_OP bt) as [|e c|]; cbn [len_post]; auto.
    pose proof (IHu (skipn e bt)) as U1. pose proof (skipn_le e bt).
    destruct (parse_unary f (skipn e bt)) as [[re nt]|msg n|w|]; cbn [len_post] in U1 |- *; auto; try lia.
    pose proof (IHb nt (Some (insert le (grp bt c 1) re))) as B1.
    destruct (parse_binary f nt (Some (insert le (grp bt c 1) re))) as [[res rest]|msg n|w|]; cbn [len_post] in B1 |- *; auto; lia.
  - intros text. cbn [parse_unary].
    destruct (rx R_EXPR_GROUP_OPEN text) as [|e c|]; cbn [len_post]; auto.
    2:{ pose proof (IHb (skipn e text) None) as B1. pose proof (skipn_le e text).
        destruct (parse_binary f (skipn e text) None) as [[ex nt]|msg n|w|]; cbn [len_post] in B1 |- *; auto; try lia.
        destruct (rx R_EXPR_GROUP_CLOSE nt) as [|e2 c2|]; cbn [len_post]; auto. pose proof (skipn_le e2 nt). lia. }
    destruct (rx R_EXPR_UNARY_OP text) as [|e c|]; cbn [len_post]; auto.
    2:{ pose proof (IHu (skipn e text)) as U1. pose proof (skipn_le e text).
        destruct (parse_unary f (skipn e text)) as [[ex nt]|msg n|w|]; cbn [len_post] in U1 |- *; auto; lia. }
    destruct (rx R_EXPR_FUNCTION_OPEN text) as [|e c|]; cbn [len_post]; auto.
    2:{ pose proof (IHa (skipn e text) []) as A1. pose proof (skipn_le e text).
        destruct (parse_args f (skipn e text) []) as [[args rest]|msg n|w|]; cbn [len_post] in A1 |- *; auto; lia. }
    destruct (rx R_EXPR_NUMBER text) as [|e c|]; cbn [len_post]; auto.
    2:{ destruct (py_float (grp text c 1)); cbn [len_post]; auto. apply skipn_le. }
    destruct (rx R_EXPR_STRING text) as [|e c|]; cbn [len_post]; auto.
    2:{ destruct (unescape R_EXPR_STRING_ESCAPE (grp text c 1)); cbn [len_post]; auto. apply skipn_le. }
    destruct (rx R_EXPR_STRING_DOUBLE text) as [|e c|]; cbn [len_post]; auto.
    2:{ destruct (unescape R_EXPR_STRING_DOUBLE_ESCAPE (grp text c 1)); cbn [len_post]; auto. apply skipn_le. }
    destruct (rx R_EXPR_VARIABLE text) as [|e c|]; cbn [len_post]; auto.
    2:{ apply skipn_le. }
    destruct (rx R_EXPR_VARIABLE_EX text) as [|e c|]; cbn [len_post]; auto.
    destruct (unescape R_EXPR_VARIABLE_EX_ESCAPE (grp text c 1)); cbn [len_post]; auto. apply skipn_le.
  - intros text acc. cbn [parse_args].
    destruct (rx R_EXPR_FUNCTION_CLOSE text) as [|e c|]; cbn [len_post]; auto.
    2:{ apply skipn_le. }
    assert (Hsep : match (match acc with
                | [] => POk text
                | _ :: _ => match rx R_EXPR_FUNCTION_SEPARATOR text with
                            | MNo => PErr syntax_error (length text)
                            | MYes e _ => POk (skipn e text)
                            | MFuel => PFuel
                            end
                end) with POk t' => length t' <= length text | PErr _ n => n <= length text | _ => True end).
    { destruct acc; [lia|]. destruct (rx R_EXPR_FUNCTION_SEPARATOR text); auto. apply skipn_le. }
    destruct (match acc with [] => POk text | _ :: _ => _ end) as [t'|msg n|w|]; cbn [len_post]; auto.
    pose proof (IHb t' None) as B1.
    destruct (parse_binary f t' None) as [[a nt]|msg n|w|]; cbn [len_post] in B1 |- *; auto; try lia.
    pose proof (IHa nt (a :: acc)) as A1.
    destruct (parse_args f nt (a :: acc)) as [[args rest]|msg n|w|]; cbn [len_post] in A1 |- *; auto; lia.
Qed.

(* parse_expression: an error column c means "the unparsed remainder starts at offset c-1":
   there is a remainder length n <= length text with c = length text - n + 1 *)
Theorem parse_expression_column text msg c :
  parse_expression text = EErr msg c ->
  exists n, n <= length text /\ c + n = length text + 1.
Proof.
  unfold parse_expression. intros H.
  destruct (parser_len (expr_fuel text)) as (Hb & _ & _). specialize (Hb text None).
  destruct (parse_binary (expr_fuel text) text None) as [[e nt]|m n|w|]; cbn in Hb; try discriminate.
  - destruct (strip nt); [discriminate|]. inversion H; subst. exists (length nt). lia.
  - inversion H; subst. exists n. lia.
Qed.

Corollary parse_expression_column_range text msg c :
  parse_expression text = EErr msg c -> 1 <= c <= length text + 1.
Proof. intros H. apply parse_expression_column in H. destruct H as (n & H1 & H2). lia. Qed.

(* the only host exception the expression parser model can report is float() rejecting the text
   of a matched number literal *)
Definition host_post {A} (r : pres A) : Prop := match r with PHost w => w = U "ValueError" | _ => True end.

Lemma parser_host : forall fuel,
  (forall text left, host_post (parse_binary fuel text left)) /\
  (forall text, host_post (parse_unary fuel text)) /\
  (forall text acc, host_post (parse_args fuel text acc)).
Proof.
  induction fuel as [|f (IHb & IHu & IHa)]; [repeat split; intros; exact I|].
  split; [|split].
  - intros text left. cbn [parse_binary].
    assert (Hleft : host_post (match left with Some l => POk (l, text) | None => parse_unary f text end)).
    { destruct left; [exact I | apply IHu]. }
    destruct (match left with Some l => POk (l, text) | None => parse_unary f text end) as [[le bt]|msg n|w|]; cbn [host_post] in Hleft |- *; auto.
    destruct (rx R_EXPR_BINARY_OP bt) as [|e c|]; cbn [host_post]; auto.
    pose proof (IHu (skipn e bt)) as U1.
    destruct (parse_unary f (skipn e bt)) as [[re nt]|msg n|w|]; cbn [host_post] in U1 |- *; auto; try apply IHb.
  - intros text. cbn [parse_unary].
    destruct (rx R_EXPR_GROUP_OPEN text) as [|e c|]; cbn [host_post]; auto.
    2:{ pose proof (IHb (skipn e text) None) as B1.
        destruct (parse_binary f (skipn e text) None) as [[ex nt]|msg n|w|]; cbn [host_post] in B1 |- *; auto.
        destruct (rx R_EXPR_GROUP_CLOSE nt) as [|e2 c2|]; cbn [host_post]; auto. }
    destruct (rx R_EXPR_UNARY_OP text) as [|e c|]; cbn [host_post]; auto.
    2:{ pose proof (IHu (skipn e text)) as U1.
        destruct (parse_unary f (skipn e text)) as [[ex nt]|msg n|w|]; cbn [host_post] in U1 |- *; auto. }
    destruct (rx R_EXPR_FUNCTION_OPEN text) as [|e c|]; cbn [host_post]; auto.
    2:{ pose proof (IHa (skipn e text) []) as A1.
        destruct (parse_args f (skipn e text) []) as [[args rest]|msg n|w|]; cbn [host_post] in A1 |- *; auto. }
    destruct (rx R_EXPR_NUMBER text) as [|e c|]; cbn [host_post]; auto.
    2:{ destruct (py_float (grp text c 1)); cbn [host_post]; auto. }
    destruct (rx R_EXPR_STRING text) as [|e c|]; cbn [host_post]; auto.
    2:{ destruct (unescape R_EXPR_STRING_ESCAPE (grp text c 1)); cbn [host_post]; auto. }
    destruct (rx R_EXPR_STRING_DOUBLE text) as [|e c|]; cbn [host_post]; auto.
    2:{ destruct (unescape R_EXPR_STRING_DOUBLE_ESCAPE (grp text c 1)); cbn [host_post]; auto. }
    destruct (rx R_EXPR_VARIABLE text) as [|e c|]; cbn [host_post]; auto.
    destruct (rx R_EXPR_VARIABLE_EX text) as [|e c|]; cbn [host_post]; auto.
    destruct (unescape R_EXPR_VARIABLE_EX_ESCAPE (grp text c 1)); cbn [host_post]; auto.
  - intros text acc. cbn [parse_args].
    destruct (rx R_EXPR_FUNCTION_CLOSE text) as [|e c|]; cbn [host_post]; auto.
    assert (Hsep : host_post (match acc with
                | [] => POk text
                | _ :: _ => match rx R_EXPR_FUNCTION_SEPARATOR text with
                            | MNo => PErr syntax_error (length text)
                            | MYes e _ => POk (skipn e text)
                            | MFuel => PFuel
                            end
                end)).
    { destruct acc; [exact I|]. destruct (rx R_EXPR_FUNCTION_SEPARATOR text); exact I. }
    destruct (match acc with [] => POk text | _ :: _ => _ end) as [t'|msg n|w|]; cbn [host_post] in Hsep |- *; auto.
    pose proof (IHb t' None) as B1.
    destruct (parse_binary f t' None) as [[a nt]|msg n|w|]; cbn [host_post] in B1 |- *; auto; try apply IHa.
Qed.

Theorem parse_expression_host text w : parse_expression text = EHost w -> w = U "ValueError".
Proof.
  unfold parse_expression. intros H.
  destruct (parser_host (expr_fuel text)) as (Hb & _ & _). specialize (Hb text None).
  destruct (parse_binary (expr_fuel text) text None) as [[e nt]|m n|w'|]; cbn in Hb; try discriminate.
  - destruct (strip nt); discriminate.
  - injection H as <-. exact Hb.
Qed.
