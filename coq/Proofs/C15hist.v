(* Proofs/C15hist.v — C15 history: the model of the array / object functions REFINES the abstract machine of
   Proofs/C15spec.v (finite map reference -> pure sequence | pure association list), call by call and over
   any history.  Part 1: the commuting square (unconditional: ill-formed states are stuck on both sides). *)
From Coq Require Import Lia ZifyBool SpecFloat.
From BS Require Import Model.Base Model.Num Model.LibVal Gen.ArgSpecs Model.LibSeq Proofs.BaseFacts Proofs.C15 Proofs.C15spec.
Local Open Scope Z_scope.

(* ====================================================================== abs: lookups, updates, allocation *)
Lemma alookup_abs_from : forall h n l,
  alookup (abs_from n h) l = if (l <? n)%nat then None else option_map abs_cell (nth_error h (l - n)).
Proof.
  induction h as [|c h IH]; intros n l; simpl.
  - destruct (l <? n)%nat; [reflexivity|]. destruct (l - n)%nat; reflexivity.
  - destruct (Nat.eqb_spec l n) as [->|N].
    + rewrite Nat.ltb_irrefl, Nat.sub_diag. reflexivity.
    + rewrite IH. destruct (Nat.ltb_spec l n).
      * replace (l <? S n)%nat with true by (symmetry; apply Nat.ltb_lt; lia). reflexivity.
      * replace (l <? S n)%nat with false by (symmetry; apply Nat.ltb_ge; lia).
        replace (l - n)%nat with (S (l - S n)) by lia. reflexivity.
Qed.

Lemma alookup_abs : forall h l, alookup (abs h) l = option_map abs_cell (hget h l).
Proof. intros. unfold abs, hget. rewrite alookup_abs_from. simpl. rewrite Nat.sub_0_r. reflexivity. Qed.

Lemma aupdate_abs_from : forall h n l c, (n <= l)%nat ->
  aupdate (abs_from n h) l (abs_cell c) = abs_from n (hset h (l - n)%nat c).
Proof.
  induction h as [|x h IH]; intros n l c L; simpl; [reflexivity|].
  destruct (Nat.eqb_spec l n) as [->|N].
  - rewrite Nat.sub_diag. reflexivity.
  - replace (l - n)%nat with (S (l - S n)) by lia. simpl. rewrite IH by lia. reflexivity.
Qed.

Lemma aupdate_abs : forall h l c, aupdate (abs h) l (abs_cell c) = abs (hset h l c).
Proof. intros. unfold abs. rewrite aupdate_abs_from by lia. rewrite Nat.sub_0_r. reflexivity. Qed.
Lemma aupdate_abs_seq : forall h l xs, aupdate (abs h) l (ASeq xs) = abs (hset h l (CArr xs)).
Proof. intros. apply (aupdate_abs h l (CArr xs)). Qed.
Lemma aupdate_abs_map : forall h l kv, aupdate (abs h) l (AMap kv) = abs (hset h l (CObj kv)).
Proof. intros. apply (aupdate_abs h l (CObj kv)). Qed.

Lemma abs_from_length : forall h n, length (abs_from n h) = length h.
Proof. induction h; intros; simpl; auto. Qed.
Lemma abs_length : forall h, length (abs h) = length h.
Proof. intros. apply abs_from_length. Qed.

Lemma abs_from_app : forall h n c, abs_from n (h ++ [c]) = abs_from n h ++ [((n + length h)%nat, abs_cell c)].
Proof.
  induction h as [|x h IH]; intros n c; simpl.
  - rewrite Nat.add_0_r. reflexivity.
  - rewrite IH. replace (S n + length h)%nat with (n + S (length h))%nat by lia. reflexivity.
Qed.

Lemma aalloc_abs : forall h c, aalloc (abs h) (abs_cell c) = (abs (h ++ [c]), length h).
Proof. intros. unfold aalloc, abs. rewrite abs_from_app, abs_from_length. reflexivity. Qed.

Lemma alloc_ret_seq : forall h xs, alloc_ret (abs h) (ASeq xs) = Some (SOk (VArr (length h)), abs (h ++ [CArr xs])).
Proof. intros. unfold alloc_ret. pose proof (aalloc_abs h (CArr xs)) as A. cbn [abs_cell] in A. rewrite A. reflexivity. Qed.
Lemma alloc_ret_map : forall h kv, alloc_ret (abs h) (AMap kv) = Some (SOk (VObj (length h)), abs (h ++ [CObj kv])).
Proof. intros. unfold alloc_ret. pose proof (aalloc_abs h (CObj kv)) as A. cbn [abs_cell] in A. rewrite A. reflexivity. Qed.

Lemma abs_from_inj : forall h1 h2 n, abs_from n h1 = abs_from n h2 -> h1 = h2.
Proof.
  induction h1 as [|c1 h1 IH]; intros [|c2 h2] n H; simpl in H; try discriminate; auto.
  inv H. f_equal; [|eauto]. destruct c1, c2; simpl in *; congruence.
Qed.
Lemma abs_inj : forall h1 h2, abs h1 = abs h2 -> h1 = h2.
Proof. intros. eapply abs_from_inj; eauto. Qed.

Lemma with_seq_abs : forall h l k,
  with_seq (abs h) l k = match hget h l with Some (CArr xs) => k xs | _ => None end.
Proof. intros. unfold with_seq. rewrite alookup_abs. destruct (hget h l) as [[]|]; reflexivity. Qed.
Lemma with_map_abs : forall h l k,
  with_map (abs h) l k = match hget h l with Some (CObj kv) => k kv | _ => None end.
Proof. intros. unfold with_map. rewrite alookup_abs. destruct (hget h l) as [[]|]; reflexivity. Qed.

(* ====================================================================== numbers *)
Lemma int_of_num_integral : forall n z, int_of_num n = Some z -> integral n z.
Proof.
  unfold int_of_num, integral. intros n z H. destruct (py_int n) as [w|]; [|discriminate].
  destruct (num_eq (NInt w) n) eqn:E; inv H. auto.
Qed.

(* an `integer, >= 0` position of the table: it is passed exactly by the values `arg_index` accepts *)
Lemma number_fails_cases : forall sp n, index_spec sp ->
  match arg_index (VNum n) with
  | Some z => integral n z /\ 0 <= z /\ number_fails sp n = Some false
  | None => number_fails sp n = None \/ number_fails sp n = Some true
  end.
Proof.
  intros sp n I. unfold arg_index. destruct (int_of_num n) as [z|] eqn:E.
  - apply int_of_num_integral in E. rewrite (number_fails_index sp n z I E).
    destruct (Z.ltb_spec z 0); [right; reflexivity | split; [exact E | split; [lia | reflexivity]]].
  - destruct I as (I & A & B & C & D). unfold number_fails. rewrite I. unfold int_of_num in E.
    destruct (py_int n) as [w|]; [|auto]. destruct (num_eq (NInt w) n); [discriminate|]. simpl. auto.
Qed.

Ltac num_cases :=
  match goal with
  | |- context [number_fails ?sp ?n] =>
      let Q := fresh "Q" in
      pose proof (number_fails_cases sp n ltac:(repeat split; reflexivity)) as Q;
      let z := fresh "z" in
      destruct (arg_index (VNum n)) as [z|];
      [ let Hi := fresh "Hi" in let Hz := fresh "Hz" in let Hf := fresh "Hf" in
        destruct Q as (Hi & Hz & Hf); rewrite Hf; clear Hf
      | destruct Q as [Q|Q]; rewrite Q; clear Q ]
  end.

Ltac lib_open name k := open_lib name; table_entry name k; validate_step.

(* ====================================================================== the step lemma, one operation at a time
   `refines f g`: for EVERY argument list (any length, any types, dangling references included) and every heap, the
   model's call, seen abstractly, is the abstract operation on the abstracted heap. *)
Definition refines (name : str) (g : spfun) : Prop := forall args h, abs_call (lib name args h) = g args (abs h).

Ltac fin :=
  unfold abs_call, ok, fail, failv, halloc; cbn [fst snd res_abs];
  rewrite ?aupdate_abs_seq, ?aupdate_abs_map, ?alloc_ret_seq, ?alloc_ret_map; try reflexivity.

Lemma step_arrayNew : refines (U "arrayNew") sp_arrayNew.
Proof. intros args h. unfold sp_arrayNew. rewrite alloc_ret_seq. reflexivity. Qed.

Lemma step_arrayPop : refines (U "arrayPop") sp_arrayPop.
Proof.
  intros args h. destruct args as [|a1 [|a2 rest]].
  - lib_open (U "arrayPop") k_arrayPop. reflexivity.
  - destruct a1; try (lib_open (U "arrayPop") k_arrayPop; reflexivity).
    lib_open (U "arrayPop") k_arrayPop. unfold k_arrayPop, sp_arrayPop. rewrite with_seq_abs.
    destruct (hget h l) as [[xs|kv]|]; try reflexivity.
    destruct (rev xs) as [|v r] eqn:R; [reflexivity|].
    apply (f_equal (@rev value)) in R. rewrite rev_involutive in R. simpl in R. subst xs. rewrite removelast_last. fin.
  - destruct a1; lib_open (U "arrayPop") k_arrayPop; reflexivity.
Qed.

Ltac crunch := repeat first [ reflexivity | progress validate_step | num_cases ].
Ltac bad_first name k a1 := destruct a1; try (lib_open name k; crunch; fail).

Lemma step_arrayShift : refines (U "arrayShift") sp_arrayShift.
Proof.
  intros args h. destruct args as [|a1 [|a2 rest]].
  - lib_open (U "arrayShift") k_arrayShift. reflexivity.
  - bad_first (U "arrayShift") k_arrayShift a1.
    lib_open (U "arrayShift") k_arrayShift. unfold k_arrayShift, sp_arrayShift. rewrite with_seq_abs.
    destruct (hget h l) as [[[|v xs]|kv]|]; try reflexivity. fin.
  - destruct a1; lib_open (U "arrayShift") k_arrayShift; reflexivity.
Qed.

Lemma step_arrayCopy : refines (U "arrayCopy") sp_arrayCopy.
Proof.
  intros args h. destruct args as [|a1 [|a2 rest]].
  - lib_open (U "arrayCopy") k_arrayCopy. reflexivity.
  - bad_first (U "arrayCopy") k_arrayCopy a1.
    lib_open (U "arrayCopy") k_arrayCopy. unfold k_arrayCopy, sp_arrayCopy. rewrite with_seq_abs.
    destruct (hget h l) as [[xs|kv]|]; try reflexivity. fin.
  - destruct a1; lib_open (U "arrayCopy") k_arrayCopy; reflexivity.
Qed.

Lemma step_arrayLength : refines (U "arrayLength") sp_arrayLength.
Proof.
  intros args h. destruct args as [|a1 [|a2 rest]].
  - lib_open (U "arrayLength") k_arrayLength. reflexivity.
  - bad_first (U "arrayLength") k_arrayLength a1.
    lib_open (U "arrayLength") k_arrayLength. unfold k_arrayLength, sp_arrayLength. rewrite with_seq_abs.
    destruct (hget h l) as [[xs|kv]|]; try reflexivity.
  - destruct a1; lib_open (U "arrayLength") k_arrayLength; reflexivity.
Qed.

Lemma step_arrayPush : refines (U "arrayPush") sp_arrayPush.
Proof.
  intros args h. destruct args as [|a1 vs].
  - lib_open (U "arrayPush") k_arrayPush. reflexivity.
  - bad_first (U "arrayPush") k_arrayPush a1.
    destruct vs; lib_open (U "arrayPush") k_arrayPush; unfold k_arrayPush, sp_arrayPush; rewrite with_seq_abs;
      (destruct (hget h l) as [[xs|kv]|]; try reflexivity; fin).
Qed.

Lemma step_arrayExtend : refines (U "arrayExtend") sp_arrayExtend.
Proof.
  intros args h. destruct args as [|a1 [|a2 [|a3 rest]]].
  - lib_open (U "arrayExtend") k_arrayExtend. reflexivity.
  - destruct a1; lib_open (U "arrayExtend") k_arrayExtend; reflexivity.
  - bad_first (U "arrayExtend") k_arrayExtend a1. bad_first (U "arrayExtend") k_arrayExtend a2.
    lib_open (U "arrayExtend") k_arrayExtend. unfold k_arrayExtend, sp_arrayExtend. rewrite with_seq_abs.
    destruct (hget h l) as [[xs|kv]|]; try reflexivity; rewrite ?with_seq_abs;
      destruct (hget h l0) as [[ys|kv2]|]; try reflexivity. fin.
  - bad_first (U "arrayExtend") k_arrayExtend a1. destruct a2; lib_open (U "arrayExtend") k_arrayExtend; reflexivity.
Qed.

Lemma nth_error_none_ge : forall {A} (xs : list A) z, Z.of_nat (length xs) <= z -> nth_error xs (Z.to_nat z) = None.
Proof. intros. apply nth_error_None. lia. Qed.

Lemma step_arrayGet : refines (U "arrayGet") sp_arrayGet.
Proof.
  intros args h. destruct args as [|a1 [|a2 [|a3 rest]]].
  - lib_open (U "arrayGet") k_arrayGet. reflexivity.
  - destruct a1; lib_open (U "arrayGet") k_arrayGet; reflexivity.
  - bad_first (U "arrayGet") k_arrayGet a1. bad_first (U "arrayGet") k_arrayGet a2.
    lib_open (U "arrayGet") k_arrayGet. unfold sp_arrayGet. num_cases; try reflexivity.
    validate_step. unfold k_arrayGet. rewrite with_seq_abs. destruct (hget h l) as [[xs|kv]|]; try reflexivity.
    rewrite (index_guard_integral n z _ Hi). destruct (Z.leb_spec (Z.of_nat (length xs)) z).
    + rewrite nth_error_none_ge by lia. reflexivity.
    + rewrite py_index_in_range by lia. destruct (nth_error xs (Z.to_nat z)) eqn:E; [reflexivity|].
      apply nth_error_None in E. lia.
  - bad_first (U "arrayGet") k_arrayGet a1. destruct a2; lib_open (U "arrayGet") k_arrayGet; crunch.
Qed.

Lemma arraySet_core : forall h l n z v, integral n z -> 0 <= z ->
  abs_call (k_arraySet h [AV (VArr l); AV (VNum n); AV v])
  = with_seq (abs h) l (fun xs => if z <? len xs then ok v (aupdate (abs h) l (ASeq (set_nth xs (Z.to_nat z) v))) else fail (abs h)).
Proof.
  intros h l n z v Hi Hz. unfold k_arraySet. rewrite with_seq_abs. destruct (hget h l) as [[xs|kv]|]; try reflexivity.
  rewrite (index_guard_integral n z _ Hi). unfold len. destruct (Z.leb_spec (Z.of_nat (length xs)) z).
  - replace (z <? Z.of_nat (length xs)) with false by lia. reflexivity.
  - replace (z <? Z.of_nat (length xs)) with true by lia. rewrite py_index_in_range by lia. fin.
Qed.

Lemma step_arraySet : refines (U "arraySet") sp_arraySet.
Proof.
  intros args h. destruct args as [|a1 [|a2 [|a3 [|a4 rest]]]].
  - lib_open (U "arraySet") k_arraySet. reflexivity.
  - destruct a1; lib_open (U "arraySet") k_arraySet; reflexivity.
  - bad_first (U "arraySet") k_arraySet a1. bad_first (U "arraySet") k_arraySet a2.
    lib_open (U "arraySet") k_arraySet. unfold sp_arraySet, sp_arraySet_at. num_cases; try reflexivity.
    validate_step. apply arraySet_core; auto.
  - bad_first (U "arraySet") k_arraySet a1. bad_first (U "arraySet") k_arraySet a2.
    lib_open (U "arraySet") k_arraySet. unfold sp_arraySet, sp_arraySet_at. num_cases; try reflexivity.
    validate_step. apply arraySet_core; auto.
  - bad_first (U "arraySet") k_arraySet a1. destruct a2; lib_open (U "arraySet") k_arraySet; crunch.
Qed.

Lemma step_arrayDelete : refines (U "arrayDelete") sp_arrayDelete.
Proof.
  intros args h. destruct args as [|a1 [|a2 [|a3 rest]]].
  - lib_open (U "arrayDelete") k_arrayDelete. reflexivity.
  - destruct a1; lib_open (U "arrayDelete") k_arrayDelete; reflexivity.
  - bad_first (U "arrayDelete") k_arrayDelete a1. bad_first (U "arrayDelete") k_arrayDelete a2.
    lib_open (U "arrayDelete") k_arrayDelete. unfold sp_arrayDelete. num_cases; try reflexivity.
    validate_step. unfold k_arrayDelete. rewrite with_seq_abs. destruct (hget h l) as [[xs|kv]|]; try reflexivity.
    rewrite (index_guard_integral n z _ Hi). unfold len. destruct (Z.leb_spec (Z.of_nat (length xs)) z).
    + replace (z <? Z.of_nat (length xs)) with false by lia. reflexivity.
    + replace (z <? Z.of_nat (length xs)) with true by lia. rewrite py_index_in_range by lia. fin.
  - bad_first (U "arrayDelete") k_arrayDelete a1. destruct a2; lib_open (U "arrayDelete") k_arrayDelete; crunch.
Qed.
