(* Proofs/C18LibFull.v — the library premise of the C18 soundness theorems ([lib_sim] / [lib_ok] of Proofs/C18Sim.v and
   [lib_sim] / [lib_okR] of Proofs/C18SimR.v) holds for the library the checks really run: Model/LibPartial.v [libfull2] =
   LibCore + arraySort WITH callbacks + the lifted functions of LibSeq / LibMore + systemPartial closures.

   Both world relations have the same shape: globals, the two heaps, the log and the fetched URLs are EQUAL (function values
   are indices into the function table, so values - also those stored in arrays, also the hidden arrays of closures - are
   equal on both sides), the statement counter is free and the function tables are related by some relation.  One generic
   theorem over that relation [FR] gives both instances.
     * functions that ignore the callback (LibCore, lift_seq, lift_pure, systemPartial itself): they commute with replacing
       the function table and the counter ([wframe]) and leave the table alone;
     * arraySort: Proofs/LibCall.v lib_sort_rel (two sorts in step) with R = the world relation and
       "run 1 stopped undefined" as the divergence;
     * calling a closure: the hidden array is the same on both sides, then ONE related callback call. *)
From Coq Require Import List ZArith Lia Bool.
From BS Require Import Model.Base Model.Num Model.Arith Model.ExprParser Model.Script Model.Interp Model.LibCore Model.LibCall
                       Model.LibMore Model.LibAll Model.LibPartial Model.Lint
                       Proofs.LibCall Proofs.LibAll Proofs.C18 Proofs.C18Sim Proofs.C18Lib.
From BS Require Proofs.C18SimR.
Local Open Scope Z_scope.

(* ---- frames: the functions that ignore the callback commute with [wframe] and keep the function table ---- *)
Lemma wframe_upd_heaps w fu ct a o : upd_objs (upd_arrs (wframe w fu ct) a) o = wframe (upd_objs (upd_arrs w a) o) fu ct.
Proof. reflexivity. Qed.

Lemma lift_seq_wframe cfg name args w fu ct :
  lift_seq cfg name args (wframe w fu ct) = (fst (lift_seq cfg name args w), wframe (snd (lift_seq cfg name args w)) fu ct).
Proof.
  unfold lift_seq. change (heap_of (wframe w fu ct)) with (heap_of w).
  change (w_arrs (wframe w fu ct)) with (w_arrs w). change (w_objs (wframe w fu ct)) with (w_objs w).
  destruct (Q.lib name (map (to_v (length (w_arrs w))) args) (heap_of w)) as [r h'].
  destruct r; try destruct (c_debug cfg); reflexivity.
Qed.

Lemma lift_seq_funs cfg name args w : w_funs (snd (lift_seq cfg name args w)) = w_funs w.
Proof.
  unfold lift_seq.
  destruct (Q.lib name (map (to_v (length (w_arrs w))) args) (heap_of w)) as [r h'].
  destruct r; try destruct (c_debug cfg); reflexivity.
Qed.

Lemma fold_add_log_wframe lg : forall w fu ct, fold_left add_log lg (wframe w fu ct) = wframe (fold_left add_log lg w) fu ct.
Proof. induction lg as [|s lg IH]; intros w fu ct; [reflexivity|]. cbn [fold_left]. rewrite <- IH. reflexivity. Qed.

Lemma fold_add_log_funs lg : forall w, w_funs (fold_left add_log lg w) = w_funs w.
Proof. induction lg as [|s lg IH]; intros w; [reflexivity|]. cbn [fold_left]. rewrite IH. reflexivity. Qed.

Lemma lift_pure_wframe p name args w fu ct :
  lift_pure p name args (wframe w fu ct) = (fst (lift_pure p name args w), wframe (snd (lift_pure p name args w)) fu ct).
Proof.
  unfold lift_pure. change (w_arrs (wframe w fu ct)) with (w_arrs w). change (w_objs (wframe w fu ct)) with (w_objs w).
  destruct (p name args (w_arrs w) (w_objs w)) as [r [[a o] lg]]. cbn [fst snd].
  rewrite wframe_upd_heaps, fold_add_log_wframe. reflexivity.
Qed.

Lemma lift_pure_funs p name args w : w_funs (snd (lift_pure p name args w)) = w_funs w.
Proof.
  unfold lift_pure. destruct (p name args (w_arrs w) (w_objs w)) as [r [[a o] lg]]. cbn [snd].
  rewrite fold_add_log_funs. reflexivity.
Qed.

Lemma partial_new_wframe args w fu ct :
  lib_partial_new args (wframe w fu ct) = (fst (lib_partial_new args w), wframe (snd (lib_partial_new args w)) fu ct).
Proof.
  unfold lib_partial_new, alloc_arr. rewrite validate_wframe. change (w_arrs (wframe w fu ct)) with (w_arrs w).
  destruct (validate w [A TFunction; ALast] args) as [va| |]; try reflexivity.
  destruct va as [|[f|] va]; try reflexivity. destruct va as [|[|rest] va]; try reflexivity.
  destruct va; try reflexivity. destruct rest; reflexivity.
Qed.

Lemma partial_new_funs args w : w_funs (snd (lib_partial_new args w)) = w_funs w.
Proof.
  unfold lib_partial_new, alloc_arr.
  destruct (validate w [A TFunction; ALast] args) as [va| |]; try reflexivity.
  destruct va as [|[f|] va]; try reflexivity. destruct va as [|[|rest] va]; try reflexivity.
  destruct va; try reflexivity. destruct rest; reflexivity.
Qed.

(* ---- the generic simulation ---- *)
Section Gen.
Variable ok : bool.
Variable FR : list fundef -> list fundef -> Prop.          (* how the two function tables are related *)

Definition WR (w w' : world) : Prop :=
  w_globals w = w_globals w' /\ w_arrs w = w_arrs w' /\ w_objs w = w_objs w' /\ w_log w = w_log w' /\ w_fetched w = w_fetched w' /\
  FR (w_funs w) (w_funs w').
Definition undefG (o : outcome) : Prop := o = OFuel \/ (ok = true /\ o = OOracle).
Definition undefLG (r : Interp.lres) : Prop := r = LFuel \/ (ok = true /\ r = LOracle).
Definition S2 (r r' : outcome * world) : Prop := undefG (fst r) \/ (fst r' = fst r /\ WR (snd r) (snd r')).
Definition SL (r r' : Interp.lres * world) : Prop := undefLG (fst r) \/ (fst r' = fst r /\ WR (snd r) (snd r')).

Lemma WR_wframe w w' : WR w w' -> w' = wframe w (w_funs w') (w_count w').
Proof. destruct w, w'. intros (Hg & Ha & Ho & Hl & Hft & _). cbn in *. subst. reflexivity. Qed.

(* a function that commutes with [wframe] and keeps the table is simulated *)
Lemma framed_SL (g : world -> Interp.lres * world) :
  (forall w fu ct, g (wframe w fu ct) = (fst (g w), wframe (snd (g w)) fu ct)) ->
  (forall w, w_funs (snd (g w)) = w_funs w) ->
  forall w w', WR w w' -> SL (g w) (g w').
Proof.
  intros Hfr Hfu w w' Hw. right. rewrite (WR_wframe w w' Hw), Hfr. cbn [fst snd]. split; [reflexivity|].
  destruct Hw as (_ & _ & _ & _ & _ & HF). repeat split; try reflexivity. cbn. rewrite Hfu. exact HF.
Qed.

Lemma WR_set_arr w w' l x : WR w w' -> WR (set_arr w l x) (set_arr w' l x).
Proof. intros (Hg & Ha & Ho & Hl & Hft & HF). unfold set_arr. repeat split; try assumption. cbn. rewrite Ha. reflexivity. Qed.

Lemma WR_get_arr w w' l : WR w w' -> get_arr w l = get_arr w' l.
Proof. intros (_ & Ha & _). unfold get_arr. rewrite Ha. reflexivity. Qed.

Lemma WR_validate w w' specs args : WR w w' -> validate w specs args = validate w' specs args.
Proof. intros Hw. rewrite (WR_wframe w w' Hw), validate_wframe. reflexivity. Qed.

Lemma WR_vcompare w w' x y : WR w w' -> vcompare (cmp_fuel w) w x y = vcompare (cmp_fuel w') w' x y.
Proof.
  intros (_ & Ha & Ho & _). unfold cmp_fuel. rewrite <- Ha, <- Ho. apply vcompare_rel; assumption.
Qed.

Section Cb.
Variable cfg : config.
Variables cb cb' : caller.
Hypothesis Hcb : forall fv a w w', WR w w' -> S2 (cb fv a w) (cb' fv a w').

Lemma sort_SL args w w' : WR w w' -> SL (lib_sort cfg cb args w) (lib_sort cfg cb' args w').
Proof.
  intros Hw.
  pose (Dv := fun (r : Interp.lres) (_ : world) => undefLG r).
  pose (Le := fun _ _ : world => True).
  assert (A1 : forall a, Le a a) by (intro; exact I).
  assert (A2 : forall a b c, Le a b -> Le b c -> Le a c) by (intros; exact I).
  assert (A3 : forall fv a w0, Le w0 (snd (cb' fv a w0))) by (intros; exact I).
  assert (A4 : forall r a b, Dv r a -> Le a b -> Dv r b) by (intros r a b H _; exact H).
  assert (A5 : forall r w0 l x, Dv r w0 -> Dv r (set_arr w0 l x)) by (intros r w0 l x H; exact H).
  assert (A6 : forall r w0, Dv r w0 -> match r with LRaise _ => False | _ => True end).
  { intros r w0 [H|[_ H]]; subst r; exact I. }
  assert (A11 : forall f x y w0 wm, WR w0 wm ->
    (fst (islt_cb cb f x y w0) = fst (islt_cb cb' f x y wm) /\ WR (snd (islt_cb cb f x y w0)) (snd (islt_cb cb' f x y wm)))
    \/ (exists r, fst (islt_cb cb f x y w0) = CStop r /\ Dv r (snd (islt_cb cb' f x y wm)))).
  { intros f x y w0 wm H0. unfold islt_cb. destruct (Hcb f [x; y] w0 wm H0) as [Hu|[Ho Hr]].
    - right. destruct (cb f [x; y] w0) as [o w1]. cbn [fst] in Hu. destruct Hu as [->|[Hk ->]].
      + exists LFuel. split; [reflexivity|left; reflexivity].
      + exists LOracle. split; [reflexivity|right; split; [exact Hk|reflexivity]].
    - left. destruct (cb f [x; y] w0) as [o w1], (cb' f [x; y] wm) as [o' w1']. cbn [fst snd] in Ho, Hr. subst o'.
      destruct o as [v| | | | |]; try (split; [reflexivity|exact Hr]). destruct v; (split; [reflexivity|exact Hr]). }
  destruct (lib_sort_rel cfg cb cb' WR Dv Le A1 A2 A3 A4 A5 A6
              (fun w0 wm specs a H => WR_validate w0 wm specs a H) (fun w0 wm l H => WR_get_arr w0 wm l H)
              (fun w0 wm l x H => WR_set_arr w0 wm l x H) (fun w0 wm x y H => WR_vcompare w0 wm x y H) A11 args w w' Hw)
    as [[H1 H2]|H].
  - right. split; [symmetry; exact H1|exact H2].
  - left. exact H.
Qed.

Lemma partial_call_SL l args w w' : WR w w' -> SL (lib_partial_call cb l args w) (lib_partial_call cb' l args w').
Proof.
  intros Hw. unfold lib_partial_call. rewrite <- (WR_get_arr w w' l Hw).
  destruct (get_arr w l) as [|f bound]; [right; split; [reflexivity|exact Hw]|].
  destruct (Hcb f (bound ++ args) w w' Hw) as [Hu|[Ho Hr]].
  - left. destruct (cb f (bound ++ args) w) as [o w1]. cbn [fst] in Hu. destruct Hu as [->|[Hk ->]].
    + left. reflexivity.
    + right. split; [exact Hk|reflexivity].
  - right. destruct (cb f (bound ++ args) w) as [o w1], (cb' f (bound ++ args) w') as [o' w1']. cbn [fst snd] in Ho, Hr. subst o'.
    destruct o; (split; [reflexivity|exact Hr]).
Qed.

Lemma libfull_SL name args w w' : WR w w' -> SL (libfull cfg cb name args w) (libfull cfg cb' name args w').
Proof.
  intros Hw. rewrite !libfull_unfold.
  destruct (text_override name args).
  { apply (framed_SL (libmore cfg name args)); [intros; apply lift_pure_wframe|intros; apply lift_pure_funs|exact Hw]. }
  destruct (str_mem name core_names).
  { change (libcore cfg cb' name args w') with (libcore cfg cb name args w').
    apply (framed_SL (libcore cfg cb name args)); [intros; apply libcore_wframe|intros; apply libcore_funs|exact Hw]. }
  destruct (op_is name "arraySort"); [apply sort_SL; exact Hw|].
  destruct (str_mem name Q.modelled_functions).
  { apply (framed_SL (lift_seq cfg name args)); [intros; apply lift_seq_wframe|intros; apply lift_seq_funs|exact Hw]. }
  destruct (str_mem name more_names).
  { apply (framed_SL (libmore cfg name args)); [intros; apply lift_pure_wframe|intros; apply lift_pure_funs|exact Hw]. }
  right. split; [reflexivity|exact Hw].
Qed.

Lemma libfull2_SL name args w w' : WR w w' -> SL (libfull2 cfg cb name args w) (libfull2 cfg cb' name args w').
Proof.
  intros Hw. unfold libfull2.
  destruct (op_is name "systemPartial").
  { apply (framed_SL (lib_partial_new args)); [intros; apply partial_new_wframe|intros; apply partial_new_funs|exact Hw]. }
  destruct (partial_loc name) as [l|]; [apply partial_call_SL; exact Hw|apply libfull_SL; exact Hw].
Qed.
End Cb.
End Gen.

(* ---- the two instances ---- *)
Theorem libfull_lib_sim ok xo xn cfg : lib_sim ok xo xn (libfull cfg).
Proof. intros cb cb' Hcb name args w w' Hw. exact (libfull_SL ok (Forall2 (fdrel ok xo xn)) cfg cb cb' Hcb name args w w' Hw). Qed.

Theorem libfull2_lib_sim ok xo xn cfg : lib_sim ok xo xn (libfull2 cfg).
Proof. intros cb cb' Hcb name args w w' Hw. exact (libfull2_SL ok (Forall2 (fdrel ok xo xn)) cfg cb cb' Hcb name args w w' Hw). Qed.

Theorem libfull_lib_ok cfg ok : lib_ok (libfull cfg) ok.
Proof. intros xo xn. apply libfull_lib_sim. Qed.

Theorem libfull2_lib_ok cfg ok : lib_ok (libfull2 cfg) ok.
Proof. intros xo xn. apply libfull2_lib_sim. Qed.

Theorem libfull_lib_simR ok okr xo xn cfg : C18SimR.lib_sim ok okr xo xn (libfull cfg).
Proof.
  intros cb cb' Hcb name args w w' Hw.
  exact (libfull_SL ok (Forall2 (C18SimR.fdrel ok okr xo xn)) cfg cb cb' Hcb name args w w' Hw).
Qed.

Theorem libfull2_lib_simR ok okr xo xn cfg : C18SimR.lib_sim ok okr xo xn (libfull2 cfg).
Proof.
  intros cb cb' Hcb name args w w' Hw.
  exact (libfull2_SL ok (Forall2 (C18SimR.fdrel ok okr xo xn)) cfg cb cb' Hcb name args w w' Hw).
Qed.

Theorem libfull_lib_okR cfg ok : C18SimR.lib_okR (libfull cfg) ok.
Proof. intros okr xo xn. apply libfull_lib_simR. Qed.

Theorem libfull2_lib_okR cfg ok : C18SimR.lib_okR (libfull2 cfg) ok.
Proof. intros okr xo xn. apply libfull2_lib_simR. Qed.
