(* Proofs/LibCall.v — arraySort (Model/LibCall.v lib_sort), the library function that calls back, meets the four
   premises the interpreter theorems put on the library: so those premises are satisfiable by a function that really
   runs script code through its callback, not only by functions that ignore it.
   One generic lemma: two sorts whose comparison steps are related stay related, or the first one stops at a
   divergence that the rest of the second run cannot undo. *)
From Coq Require Import List ZArith Lia Bool.
From BS Require Import Model.Base Model.Num Model.Arith Model.ExprParser Model.Script Model.Interp Model.LibCore Model.LibCall
                       Proofs.Fuel Proofs.C01 Proofs.Blind Proofs.C09.
Local Open Scope Z_scope.

(* ---- the world only moves forward along a preorder every comparison step respects ---- *)
Section Forward.
Variable islt : isltT.
Variable Le : world -> world -> Prop.
Hypothesis Le_refl : forall a, Le a a.
Hypothesis Le_trans : forall a b c, Le a b -> Le b c -> Le a c.
Hypothesis Le_step : forall x y w, Le w (snd (islt x y w)).

Lemma run_ext_Le desc : forall rest prev n w, Le w (snd (run_ext islt desc prev rest n w)).
Proof.
  induction rest as [|x t IH]; intros prev n w; cbn [run_ext]; [apply Le_refl|].
  pose proof (Le_step x prev w) as H. destruct (islt x prev w) as [c w1]. cbn [snd] in H.
  destruct c as [b|r]; [|exact H]. destruct (Bool.eqb b desc); [|exact H].
  eapply Le_trans; [exact H|apply IH].
Qed.

Lemma bsearch_Le : forall fuel pivot pre l r w, Le w (snd (bsearch islt fuel pivot pre l r w)).
Proof.
  induction fuel as [|f IH]; intros pivot pre l r w; cbn [bsearch]; [apply Le_refl|].
  destruct (Nat.ltb l r); [|apply Le_refl].
  pose proof (Le_step pivot (nth (l + Nat.div2 (r - l)) pre VNull) w) as H.
  destruct (islt pivot (nth (l + Nat.div2 (r - l)) pre VNull) w) as [c w1]. cbn [snd] in H.
  destruct c as [[|]|r0]; [| |exact H]; (eapply Le_trans; [exact H|apply IH]).
Qed.

Lemma binsort_Le : forall todo sorted w, Le w (snd (binsort islt sorted todo w)).
Proof.
  induction todo as [|pivot t IH]; intros sorted w; cbn [binsort]; [apply Le_refl|].
  pose proof (bsearch_Le (S (length sorted)) pivot sorted 0 (length sorted) w) as H.
  destruct (bsearch islt (S (length sorted)) pivot sorted 0 (length sorted) w) as [[pos|r] w1]; cbn [snd] in H; [|exact H].
  eapply Le_trans; [exact H|apply IH].
Qed.

Lemma small_sort_Le xs w : Le w (snd (small_sort islt xs w)).
Proof.
  unfold small_sort. destruct xs as [|x0 [|x1 rest]]; try apply Le_refl.
  pose proof (Le_step x1 x0 w) as H. destruct (islt x1 x0 w) as [c w1]. cbn [snd] in H.
  destruct c as [desc|r]; [|exact H].
  pose proof (run_ext_Le desc rest x1 2 w1) as H2.
  destruct (run_ext islt desc x1 rest 2 w1) as [[n|r] w2]; cbn [snd] in H2; [|eapply Le_trans; eassumption].
  eapply Le_trans; [exact H|]. eapply Le_trans; [exact H2|]. apply binsort_Le.
Qed.
End Forward.

(* ---- two sorts in step ---- *)
Section InStep.
Variables islt1 islt2 : isltT.
Variable R : world -> world -> Prop.          (* how the two worlds are related while the runs agree *)
Variable Dv : lres -> world -> Prop.          (* run 1 stopped with this result while run 2 went on to this world *)
Variable Le : world -> world -> Prop.
Hypothesis Le_refl : forall a, Le a a.
Hypothesis Le_trans : forall a b c, Le a b -> Le b c -> Le a c.
Hypothesis Le_step : forall x y w, Le w (snd (islt2 x y w)).
Hypothesis Dv_up : forall r a b, Dv r a -> Le a b -> Dv r b.
Hypothesis Hrel : forall x y w wm, R w wm ->
  (fst (islt1 x y w) = fst (islt2 x y wm) /\ R (snd (islt1 x y w)) (snd (islt2 x y wm)))
  \/ (exists r, fst (islt1 x y w) = CStop r /\ Dv r (snd (islt2 x y wm))).

Definition SR (r1 r2 : (nat + lres) * world) : Prop :=
  (fst r1 = fst r2 /\ R (snd r1) (snd r2)) \/ (exists r, fst r1 = inr r /\ Dv r (snd r2)).
Definition TR (r1 r2 : list value * option lres * world) : Prop :=
  (fst r1 = fst r2 /\ R (snd r1) (snd r2)) \/ (exists r, snd (fst r1) = Some r /\ Dv r (snd r2)).

Lemma run_ext_rel desc : forall rest prev n w wm, R w wm ->
  SR (run_ext islt1 desc prev rest n w) (run_ext islt2 desc prev rest n wm).
Proof.
  induction rest as [|x t IH]; intros prev n w wm HR; cbn [run_ext]; [left; split; [reflexivity|exact HR]|].
  destruct (Hrel x prev w wm HR) as [[Hc HR1]|[r [Hc Hd]]].
  - destruct (islt1 x prev w) as [c1 w1]. destruct (islt2 x prev wm) as [c2 w2]. cbn [fst snd] in *. subst c2.
    destruct c1 as [b|r]; [|left; split; [reflexivity|exact HR1]].
    destruct (Bool.eqb b desc); [apply IH; exact HR1|left; split; [reflexivity|exact HR1]].
  - destruct (islt1 x prev w) as [c1 w1]. cbn [fst] in Hc. subst c1. right. exists r. split; [reflexivity|].
    pose proof (run_ext_Le islt2 Le Le_refl Le_trans Le_step desc t x (S n)) as HL.
    destruct (islt2 x prev wm) as [c2 w2]. cbn [snd] in *.
    destruct c2 as [b|r2]; [|exact Hd]. destruct (Bool.eqb b desc); [|exact Hd].
    eapply Dv_up; [exact Hd|apply HL].
Qed.

Lemma bsearch_rel : forall fuel pivot pre l r w wm, R w wm ->
  SR (bsearch islt1 fuel pivot pre l r w) (bsearch islt2 fuel pivot pre l r wm).
Proof.
  induction fuel as [|f IH]; intros pivot pre l r w wm HR; cbn [bsearch]; [left; split; [reflexivity|exact HR]|].
  destruct (Nat.ltb l r); [|left; split; [reflexivity|exact HR]].
  set (p := (l + Nat.div2 (r - l))%nat).
  destruct (Hrel pivot (nth p pre VNull) w wm HR) as [[Hc HR1]|[r0 [Hc Hd]]].
  - destruct (islt1 pivot (nth p pre VNull) w) as [c1 w1]. destruct (islt2 pivot (nth p pre VNull) wm) as [c2 w2].
    cbn [fst snd] in *. subst c2.
    destruct c1 as [[|]|r0]; [apply IH; exact HR1|apply IH; exact HR1|left; split; [reflexivity|exact HR1]].
  - destruct (islt1 pivot (nth p pre VNull) w) as [c1 w1]. cbn [fst] in Hc. subst c1. right. exists r0. split; [reflexivity|].
    pose proof (bsearch_Le islt2 Le Le_refl Le_trans Le_step f pivot pre) as HL.
    destruct (islt2 pivot (nth p pre VNull) wm) as [c2 w2]. cbn [snd] in *.
    destruct c2 as [[|]|r2]; [| |exact Hd]; (eapply Dv_up; [exact Hd|apply HL]).
Qed.

Lemma binsort_rel : forall todo sorted w wm, R w wm -> TR (binsort islt1 sorted todo w) (binsort islt2 sorted todo wm).
Proof.
  induction todo as [|pivot t IH]; intros sorted w wm HR; cbn [binsort]; [left; split; [reflexivity|exact HR]|].
  destruct (bsearch_rel (S (length sorted)) pivot sorted 0 (length sorted) w wm HR) as [[Hc HR1]|[r [Hc Hd]]].
  - destruct (bsearch islt1 (S (length sorted)) pivot sorted 0 (length sorted) w) as [c1 w1].
    destruct (bsearch islt2 (S (length sorted)) pivot sorted 0 (length sorted) wm) as [c2 w2].
    cbn [fst snd] in *. subst c2. destruct c1 as [pos|r]; [apply IH; exact HR1|left; split; [reflexivity|exact HR1]].
  - destruct (bsearch islt1 (S (length sorted)) pivot sorted 0 (length sorted) w) as [c1 w1]. cbn [fst] in Hc. subst c1.
    right. exists r. split; [reflexivity|].
    pose proof (binsort_Le islt2 Le Le_refl Le_trans Le_step t) as HL.
    destruct (bsearch islt2 (S (length sorted)) pivot sorted 0 (length sorted) wm) as [c2 w2]. cbn [snd] in *.
    destruct c2 as [pos|r2]; [|exact Hd]. eapply Dv_up; [exact Hd|apply HL].
Qed.

Lemma small_sort_rel xs w wm : R w wm -> TR (small_sort islt1 xs w) (small_sort islt2 xs wm).
Proof.
  intros HR. unfold small_sort. destruct xs as [|x0 [|x1 rest]]; try (left; split; [reflexivity|exact HR]).
  destruct (Hrel x1 x0 w wm HR) as [[Hc HR1]|[r [Hc Hd]]].
  - destruct (islt1 x1 x0 w) as [c1 w1]. destruct (islt2 x1 x0 wm) as [c2 w2]. cbn [fst snd] in *. subst c2.
    destruct c1 as [desc|r]; [|left; split; [reflexivity|exact HR1]].
    destruct (run_ext_rel desc rest x1 2 w1 w2 HR1) as [[Hc2 HR2]|[r [Hc2 Hd2]]].
    + destruct (run_ext islt1 desc x1 rest 2 w1) as [d1 w1']. destruct (run_ext islt2 desc x1 rest 2 w2) as [d2 w2'].
      cbn [fst snd] in *. subst d2. destruct d1 as [n|r]; [apply binsort_rel; exact HR2|left; split; [reflexivity|exact HR2]].
    + destruct (run_ext islt1 desc x1 rest 2 w1) as [d1 w1']. cbn [fst] in Hc2. subst d1. right. exists r. split; [reflexivity|].
      pose proof (binsort_Le islt2 Le Le_refl Le_trans Le_step) as HL.
      destruct (run_ext islt2 desc x1 rest 2 w2) as [d2 w2']. cbn [snd] in *.
      destruct d2 as [n|r2]; [|exact Hd2]. eapply Dv_up; [exact Hd2|apply HL].
  - destruct (islt1 x1 x0 w) as [c1 w1]. cbn [fst] in Hc. subst c1. right. exists r. split; [reflexivity|].
    pose proof (run_ext_Le islt2 Le Le_refl Le_trans Le_step) as HL1.
    pose proof (binsort_Le islt2 Le Le_refl Le_trans Le_step) as HL2.
    destruct (islt2 x1 x0 wm) as [c2 w2]. cbn [snd] in *. destruct c2 as [desc|r2]; [|exact Hd].
    specialize (HL1 desc rest x1 2%nat w2).
    destruct (run_ext islt2 desc x1 rest 2 w2) as [d2 w2']. cbn [snd] in *.
    destruct d2 as [n|r2]; [|eapply Dv_up; eassumption].
    eapply Dv_up; [exact Hd|]. eapply Le_trans; [exact HL1|apply HL2].
Qed.
End InStep.

(* ---- arraySort itself ---- *)
Section SortStep.
Variable cfg : config.
Variables cb1 cb2 : caller.
Variable R : world -> world -> Prop.
Variable Dv : lres -> world -> Prop.
Variable Le : world -> world -> Prop.
Hypothesis Le_refl : forall a, Le a a.
Hypothesis Le_trans : forall a b c, Le a b -> Le b c -> Le a c.
Hypothesis Le_cb : forall fv a w, Le w (snd (cb2 fv a w)).
Hypothesis Dv_up : forall r a b, Dv r a -> Le a b -> Dv r b.
Hypothesis Dv_set : forall r w l x, Dv r w -> Dv r (set_arr w l x).
Hypothesis Dv_not_raise : forall r w, Dv r w -> match r with LRaise _ => False | _ => True end.
Hypothesis R_valid : forall w wm specs args, R w wm -> validate w specs args = validate wm specs args.
Hypothesis R_get : forall w wm l, R w wm -> get_arr w l = get_arr wm l.
Hypothesis R_set : forall w wm l x, R w wm -> R (set_arr w l x) (set_arr wm l x).
Hypothesis R_cmp : forall w wm x y, R w wm -> vcompare (cmp_fuel w) w x y = vcompare (cmp_fuel wm) wm x y.
Hypothesis Hcb : forall f x y w wm, R w wm ->
  (fst (islt_cb cb1 f x y w) = fst (islt_cb cb2 f x y wm) /\ R (snd (islt_cb cb1 f x y w)) (snd (islt_cb cb2 f x y wm)))
  \/ (exists r, fst (islt_cb cb1 f x y w) = CStop r /\ Dv r (snd (islt_cb cb2 f x y wm))).

Definition LR (r1 r2 : lres * world) : Prop :=
  (fst r1 = fst r2 /\ R (snd r1) (snd r2)) \/ Dv (fst r1) (snd r2).

Lemma islt_cb_Le f x y w : Le w (snd (islt_cb cb2 f x y w)).
Proof.
  unfold islt_cb. pose proof (Le_cb f [x; y] w) as H. destruct (cb2 f [x; y] w) as [o w1]. cbn [snd] in H.
  destruct o as [v| | | | |]; try exact H. destruct v; exact H.
Qed.

Lemma islt_cmp_rel x y w wm : R w wm ->
  (fst (islt_cmp x y w) = fst (islt_cmp x y wm) /\ R (snd (islt_cmp x y w)) (snd (islt_cmp x y wm)))
  \/ (exists r, fst (islt_cmp x y w) = CStop r /\ Dv r (snd (islt_cmp x y wm))).
Proof.
  intros HR. left. unfold islt_cmp. rewrite (R_cmp w wm x y HR).
  destruct (vcompare (cmp_fuel wm) wm x y) as [[| |]|]; split; try reflexivity; exact HR.
Qed.

Lemma islt_cmp_Le x y w : Le w (snd (islt_cmp x y w)).
Proof. unfold islt_cmp. destruct (vcompare (cmp_fuel w) w x y) as [[| |]|]; apply Le_refl. Qed.

Theorem lib_sort_rel args w wm : R w wm -> LR (lib_sort cfg cb1 args w) (lib_sort cfg cb2 args wm).
Proof.
  intros HR. unfold lib_sort. rewrite (R_valid w wm _ args HR).
  destruct (validate wm [A TArray; AFunN] args) as [va| |]; try (left; split; [reflexivity|exact HR]).
  destruct va as [|[a0|] va]; try (left; split; [reflexivity|exact HR]).
  destruct a0 as [| | | | |l| | |]; try (left; split; [reflexivity|exact HR]).
  destruct va as [|[f|] va]; try (left; split; [reflexivity|exact HR]).
  destruct va; try (left; split; [reflexivity|exact HR]).
  rewrite (R_get w wm l HR).
  assert (Hpure : LR
    (match small_sort islt_cmp (get_arr wm l) w with
     | (cur, None, w1) => (LVal (VArr l), set_arr w1 l cur) | (cur, Some r, w1) => (r, set_arr w1 l cur) end)
    (match small_sort islt_cmp (get_arr wm l) wm with
     | (cur, None, w1) => (LVal (VArr l), set_arr w1 l cur) | (cur, Some r, w1) => (r, set_arr w1 l cur) end)).
  { destruct (small_sort_rel islt_cmp islt_cmp R Dv Le Le_refl Le_trans islt_cmp_Le Dv_up islt_cmp_rel (get_arr wm l) w wm HR)
      as [[Hc HR1]|[r [Hc Hd]]].
    - destruct (small_sort islt_cmp (get_arr wm l) w) as [[cur1 s1] w1]. destruct (small_sort islt_cmp (get_arr wm l) wm) as [[cur2 s2] w2].
      cbn [fst snd] in *. injection Hc as <- <-. left. destruct s1; cbn [fst snd]; (split; [reflexivity|apply R_set; exact HR1]).
    - destruct (small_sort islt_cmp (get_arr wm l) w) as [[cur1 s1] w1]. cbn [fst snd] in Hc. subst s1.
      right. cbn [fst]. destruct (small_sort islt_cmp (get_arr wm l) wm) as [[cur2 s2] w2]. cbn [snd] in Hd.
      destruct s2; cbn [snd]; apply Dv_set; exact Hd. }
  assert (Hcall : LR
    (if Nat.leb 64 (length (get_arr wm l)) then (LOracle, w) else
     match small_sort (islt_cb cb1 f) (get_arr wm l) (set_arr w l []) with
     | (cur, Some r, w1) => match r with LRaise _ => if c_debug cfg then (LOracle, w1) else (r, set_arr w1 l cur) | _ => (r, set_arr w1 l cur) end
     | (cur, None, w1) => if is_nil (get_arr w1 l) then (LVal (VArr l), set_arr w1 l cur)
                          else if c_debug cfg then (LOracle, w1) else (LRaise (U "list modified during sort"), set_arr w1 l cur)
     end)
    (if Nat.leb 64 (length (get_arr wm l)) then (LOracle, wm) else
     match small_sort (islt_cb cb2 f) (get_arr wm l) (set_arr wm l []) with
     | (cur, Some r, w1) => match r with LRaise _ => if c_debug cfg then (LOracle, w1) else (r, set_arr w1 l cur) | _ => (r, set_arr w1 l cur) end
     | (cur, None, w1) => if is_nil (get_arr w1 l) then (LVal (VArr l), set_arr w1 l cur)
                          else if c_debug cfg then (LOracle, w1) else (LRaise (U "list modified during sort"), set_arr w1 l cur)
     end)).
  { destruct (Nat.leb 64 (length (get_arr wm l))); [left; split; [reflexivity|exact HR]|].
    destruct (small_sort_rel (islt_cb cb1 f) (islt_cb cb2 f) R Dv Le Le_refl Le_trans (islt_cb_Le f) Dv_up (Hcb f)
                (get_arr wm l) (set_arr w l []) (set_arr wm l []) (R_set w wm l [] HR)) as [[Hc HR1]|[r [Hc Hd]]].
    - destruct (small_sort (islt_cb cb1 f) (get_arr wm l) (set_arr w l [])) as [[cur1 s1] w1].
      destruct (small_sort (islt_cb cb2 f) (get_arr wm l) (set_arr wm l [])) as [[cur2 s2] w2].
      cbn [fst snd] in *. injection Hc as <- <-. left. rewrite (R_get w1 w2 l HR1).
      destruct s1 as [r|].
      + destruct r; cbn [fst snd]; try (split; [reflexivity|apply R_set; exact HR1]).
        destruct (c_debug cfg); cbn [fst snd]; (split; [reflexivity|try apply R_set; exact HR1]).
      + destruct (is_nil (get_arr w2 l)); cbn [fst snd]; [split; [reflexivity|apply R_set; exact HR1]|].
        destruct (c_debug cfg); cbn [fst snd]; (split; [reflexivity|try apply R_set; exact HR1]).
    - destruct (small_sort (islt_cb cb1 f) (get_arr wm l) (set_arr w l [])) as [[cur1 s1] w1]. cbn [fst snd] in Hc. subst s1.
      right. pose proof (Dv_not_raise r _ Hd) as Hnr.
      assert (E : fst (match r with LRaise _ => if c_debug cfg then (LOracle, w1) else (r, set_arr w1 l cur1) | _ => (r, set_arr w1 l cur1) end) = r)
        by (destruct r; try reflexivity; contradiction).
      rewrite E. clear E.
      destruct (small_sort (islt_cb cb2 f) (get_arr wm l) (set_arr wm l [])) as [[cur2 s2] w2]. cbn [snd] in Hd.
      destruct s2 as [r2|].
      + destruct r2; cbn [snd]; try (apply Dv_set; exact Hd). destruct (c_debug cfg); cbn [snd]; [exact Hd|apply Dv_set; exact Hd].
      + destruct (is_nil (get_arr w2 l)); cbn [snd]; [apply Dv_set; exact Hd|].
        destruct (c_debug cfg); cbn [snd]; [exact Hd|apply Dv_set; exact Hd]. }
  destruct f; try exact Hcall. exact Hpure.
Qed.
End SortStep.
