(* Proofs/C09.v — the statement budget: the counter only grows, the limit is tested at the head of every
   statement, and a limited run proceeds in lock step with the unlimited run until it is aborted. *)
From Coq Require Import Lia ZArith.
From BS Require Import Model.Base Model.Num Model.Arith Model.ExprParser Model.Script Model.Interp Proofs.InterpEq.
Local Open Scope Z_scope.

(* ---- bookkeeping: which world updates leave the counter alone ---- *)
Lemma count_log_if cfg b w s : w_count (log_if cfg b w s) = w_count w.
Proof. unfold log_if. destruct (b && c_haslog cfg); reflexivity. Qed.

Lemma count_alloc_arr w l : w_count (snd (alloc_arr w l)) = w_count w.
Proof. reflexivity. Qed.

Lemma count_bind_args : forall names n ix last args w acc,
  w_count (snd (bind_args names n ix last args w acc)) = w_count w.
Proof.
  induction names as [|nm rest IH]; intros; cbn [bind_args]; [reflexivity|].
  destruct (Nat.ltb ix (length args)); destruct (last && Nat.eqb ix (n - 1))%bool; cbn [alloc_arr]; rewrite IH; reflexivity.
Qed.

Lemma count_fold_log : forall ws w, w_count (fold_left (fun acc s => add_log acc (U "BareScript:     " ++ s)) ws w) = w_count w.
Proof. induction ws as [|s ws IH]; intros w; cbn [fold_left]; [reflexivity|]. rewrite IH. reflexivity. Qed.

Section Budget.
Variable lib : caller -> str -> list value -> world -> lres * world.
Variable url_rel : str -> str -> str.
Variable lint_lines : script -> list str.

(* monotone functions (the counter never decreases) *)
Definition evmono (ev : evalT) : Prop := forall e loc bi um w, w_count w <= w_count (snd (ev e loc bi um w)).
Definition clmono (cl : callT) : Prop := forall fv a um w, w_count w <= w_count (snd (cl fv a um w)).
Definition exmono (ex : execT) : Prop := forall code pc cache loc um w, w_count w <= w_count (snd (ex code pc cache loc um w)).

(* PREMISE on the library: it changes the statement counter only through the callbacks it is given *)
Definition lib_monotone : Prop :=
  forall (cb : caller), (forall fv a w, w_count w <= w_count (snd (cb fv a w))) ->
  forall name args w, w_count w <= w_count (snd (lib cb name args w)).

Hypothesis Hlib : lib_monotone.

Section OneConfig.
Variable cfg : config.

Lemma eval_args_mono ev loc bi um : evmono ev -> forall l w acc, w_count w <= w_count (snd (eval_args ev loc bi um l w acc)).
Proof.
  intros Hev. induction l as [|a t IH]; intros w acc; cbn [eval_args]; [cbn; lia|].
  specialize (Hev a loc bi um w). destruct (ev a loc bi um w) as [o w1]. cbn [snd] in Hev.
  destruct o; cbn [snd]; try lia. specialize (IH w1 (v :: acc)). lia.
Qed.

Lemma eval_body_mono ev cl : evmono ev -> clmono cl -> evmono (eval_body cfg ev cl).
Proof.
  intros Hev Hcl e loc bi um w. destruct e as [n|s|x|name args|op l r|op e1|e1]; cbn [eval_body snd]; try lia.
  - (* ECall *)
    destruct (op_is name "if").
    + cbv zeta.
      assert (H0 : w_count w <= w_count (snd (match nth_error args 0 with Some ve => ev ve loc bi um w | None => (OVal (VBool false), w) end))).
      { destruct (nth_error args 0); [apply Hev|cbn; lia]. }
      destruct (match nth_error args 0 with Some ve => ev ve loc bi um w | None => (OVal (VBool false), w) end) as [o w1].
      cbn [snd] in H0. destruct o; cbn [snd]; try lia.
      destruct (if truthy w1 v then nth_error args 1 else nth_error args 2) as [re|]; cbn [snd]; [|lia].
      specialize (Hev re loc bi um w1). lia.
    + pose proof (eval_args_mono ev loc bi um Hev args w []) as H0.
      destruct (eval_args ev loc bi um args w []) as [[o|vs] w1]; cbn [snd] in H0 |- *; [lia|].
      destruct (lookup_fn name loc bi w1) as [fv|]; cbn [snd]; [|lia].
      pose proof (Hcl fv vs um w1) as H1.
      destruct fv; cbn [snd]; try lia;
        (destruct (cl _ vs um w1) as [o w2]; cbn [snd] in H1; destruct o; cbn [snd]; rewrite ?count_log_if; lia).
  - (* EBin *)
    pose proof (Hev l loc bi um w) as H0. destruct (ev l loc bi um w) as [o w1]. cbn [snd] in H0.
    destruct o; cbn [snd]; try lia.
    destruct (op_is op "&&").
    { destruct (truthy w1 v); cbn [snd]; [|lia]. specialize (Hev r loc bi um w1). lia. }
    destruct (op_is op "||").
    { destruct (truthy w1 v); cbn [snd]; [lia|]. specialize (Hev r loc bi um w1). lia. }
    pose proof (Hev r loc bi um w1) as H1. destruct (ev r loc bi um w1) as [o2 w2]. cbn [snd] in H1.
    destruct o2; cbn [snd]; lia.
  - (* EUn *)
    pose proof (Hev e1 loc bi um w) as H0. destruct (ev e1 loc bi um w) as [o w1]. cbn [snd] in H0. destruct o; cbn [snd]; lia.
  - (* EGroup *) apply Hev.
Qed.

Lemma call_body_mono cl ex : clmono cl -> exmono ex -> clmono (call_body lib cl ex).
Proof.
  intros Hcl Hex fv a um w. unfold call_body. destruct fv as [ |b|n|s|us|l|l|f|id]; cbn [snd]; try lia.
  destruct f as [name|id].
  - assert (H0 := Hlib (fun fv' args' w' => cl fv' args' um w') (fun fv' a' w' => Hcl fv' a' um w') name a w).
    destruct (lib _ name a w) as [r w1]. cbn [snd] in H0. destruct r; cbn [snd]; lia.
  - destruct (nth_error (w_funs w) id) as [fd|]; cbn [snd]; [|lia].
    assert (H0 : w_count (snd (match fd_args fd with Some names => bind_args names (length names) 0 (fd_last fd) a w [] | None => ([], w) end)) = w_count w).
    { destruct (fd_args fd); [apply count_bind_args|reflexivity]. }
    destruct (match fd_args fd with Some names => bind_args names (length names) 0 (fd_last fd) a w [] | None => ([], w) end) as [locals w1].
    cbn [snd] in H0. pose proof (Hex (fd_body fd) 0%nat [] (Some locals) um w1) as H1.
    destruct (ex (fd_body fd) 0%nat [] (Some locals) um w1) as [[o l2] w2]. cbn [snd] in H1 |- *. lia.
Qed.

Lemma run_incs_mono ex um : exmono ex -> forall l w, w_count w <= w_count (snd (run_incs cfg url_rel lint_lines ex um l w)).
Proof.
  intros Hex. induction l as [|[u sys] t IH]; intros w; cbn [run_incs]; [cbn; lia|].
  set (url := match sys, c_sysprefix cfg with true, Some p => url_rel p u | _, _ => if has_urlfn cfg um then apply_urlfn cfg url_rel um u else u end).
  destruct (c_fetch cfg) as [fetch|]; cbn [snd]; [|lia].
  destruct (fetch url) as [txt|]; cbn [snd]; [|cbn; lia].
  destruct (parse_script [txt] 1) as [sc|pe|what|]; cbn [snd]; try (cbn; lia).
  set (w2 := if (c_debug cfg && c_haslog cfg)%bool then _ else _).
  assert (H2 : w_count w2 = w_count w).
  { subst w2. destruct (c_debug cfg && c_haslog cfg)%bool; [|reflexivity].
    destruct (lint_lines sc); [reflexivity|]. rewrite count_fold_log. reflexivity. }
  pose proof (Hex sc 0%nat [] None (UBase url) w2) as H3.
  destruct (ex sc 0%nat [] None (UBase url) w2) as [[o l2] w3]. cbn [snd] in H3.
  destruct o; cbn [snd]; try lia. specialize (IH w3). lia.
Qed.

(* one statement: the counter is incremented first, then never decreases *)
Lemma exec_body_mono_strong ev ex : evmono ev -> exmono ex -> forall code pc cache loc um w st,
  nth_error code pc = Some st ->
  w_count w + 1 <= w_count (snd (exec_body cfg url_rel lint_lines ev ex code pc cache loc um w)).
Proof.
  intros Hev Hex code pc cache loc um w st Hn. unfold exec_body. rewrite Hn. cbv zeta.
  set (w0 := upd_count w (w_count w + 1)). assert (H0 : w_count w0 = w_count w + 1) by reflexivity.
  destruct ((0 <? c_max cfg) && (c_max cfg <? w_count w0))%bool; [cbn [snd]; lia|].
  destruct st as [name e|label cond|re|lname|fname fargs fasync flast fbody|incs].
  - pose proof (Hev e loc false um w0) as H1. destruct (ev e loc false um w0) as [o w1]. cbn [snd] in H1.
    destruct o; cbn [snd]; try lia.
    destruct name as [x|]; [destruct loc as [l|]|];
      match goal with |- _ <= w_count (snd (ex ?c ?p ?k ?l ?u ?ww)) => pose proof (Hex c p k l u ww) end; cbn [w_count upd_globals] in *; lia.
  - assert (H1 : w_count w0 <= w_count (snd (match cond with
                 | None => (inr true, w0)
                 | Some c => match ev c loc false um w0 with (OVal v, w1) => (inr (truthy w1 v), w1) | (o, w1) => (inl o, w1) end
                 end : (outcome + bool) * world))).
    { destruct cond as [c|]; [|cbn; lia]. pose proof (Hev c loc false um w0) as H1. destruct (ev c loc false um w0) as [o w1].
      cbn [snd] in H1. destruct o; cbn [snd]; lia. }
    destruct (match cond with
              | None => (inr true, w0)
              | Some c => match ev c loc false um w0 with (OVal v, w1) => (inr (truthy w1 v), w1) | (o, w1) => (inl o, w1) end
              end : (outcome + bool) * world) as [[o|b] w1]; cbn [snd] in H1 |- *; [lia|].
    destruct b.
    + destruct (assoc label cache) as [ix|].
      * pose proof (Hex code (S ix) cache loc um w1). lia.
      * destruct (find_label label code) as [ix|]; cbn [snd]; [|lia]. pose proof (Hex code (S ix) ((label, ix) :: cache) loc um w1). lia.
    + pose proof (Hex code (S pc) cache loc um w1). lia.
  - destruct re as [e|]; cbn [snd]; [|lia].
    pose proof (Hev e loc false um w0) as H1. destruct (ev e loc false um w0) as [o w1]. cbn [snd] in H1 |- *. lia.
  - pose proof (Hex code (S pc) cache loc um w0). lia.
  - match goal with |- _ <= w_count (snd (ex ?c ?p ?k ?l ?u ?ww)) => pose proof (Hex c p k l u ww) as H1 end.
    cbn [w_count upd_globals upd_funs] in H1. lia.
  - pose proof (run_incs_mono ex um Hex incs w0) as H1.
    destruct (run_incs cfg url_rel lint_lines ex um incs w0) as [[o|] w1]; cbn [snd] in H1 |- *; [lia|].
    pose proof (Hex code (S pc) cache loc um w1). lia.
Qed.

Lemma exec_body_mono ev ex : evmono ev -> exmono ex -> exmono (exec_body cfg url_rel lint_lines ev ex).
Proof.
  intros Hev Hex code pc cache loc um w. destruct (nth_error code pc) as [st|] eqn:Hn.
  - pose proof (exec_body_mono_strong ev ex Hev Hex code pc cache loc um w st Hn). lia.
  - unfold exec_body. rewrite Hn. cbn. lia.
Qed.

Notation eval := (eval cfg lib url_rel lint_lines).
Notation call := (call cfg lib url_rel lint_lines).
Notation exec := (exec cfg lib url_rel lint_lines).

Lemma all_mono : forall fuel, evmono (eval fuel) /\ clmono (call fuel) /\ exmono (exec fuel).
Proof.
  induction fuel as [|f (He & Hc & Hx)].
  - repeat split; intro; intros; cbn; lia.
  - split; [|split].
    + intros e loc bi um w. rewrite eval_S. apply eval_body_mono; assumption.
    + intros fv a um w. rewrite call_S. apply call_body_mono; assumption.
    + intros code pc cache loc um w. rewrite exec_S. apply exec_body_mono; assumption.
Qed.

(* the counter never decreases during a run, and every started statement adds one *)
Theorem count_monotone_exec : forall fuel code pc cache loc um w,
  w_count w <= w_count (snd (exec fuel code pc cache loc um w)).
Proof. intros. apply all_mono. Qed.

Theorem statement_start_counts_one : forall fuel code pc cache loc um w st,
  nth_error code pc = Some st ->
  w_count w + 1 <= w_count (snd (exec (S fuel) code pc cache loc um w)).
Proof.
  intros. rewrite exec_S. destruct (all_mono fuel) as (He & _ & Hx). eapply exec_body_mono_strong; eassumption.
Qed.

(* the limit test at the head of a statement: statement L+1 never starts *)
Theorem abort_exactly_at_limit : forall fuel code pc cache loc um w st,
  nth_error code pc = Some st -> 0 < c_max cfg -> c_max cfg <= w_count w ->
  exec (S fuel) code pc cache loc um w = (ORt (msg_exceeded (c_max cfg)), loc, upd_count w (w_count w + 1)).
Proof.
  intros fuel code pc cache loc um w st Hn Hpos Hle. rewrite exec_S. unfold exec_body. rewrite Hn. cbv zeta. cbn [w_count upd_count].
  replace (0 <? c_max cfg) with true by (symmetry; apply Z.ltb_lt; lia).
  replace (c_max cfg <? w_count w + 1) with true by (symmetry; apply Z.ltb_lt; lia). reflexivity.
Qed.

End OneConfig.

(* ================= limited run vs unlimited run: lock step until the abort ================= *)
Definition unlimited (cfg : config) : config :=
  {| c_max := 0; c_debug := c_debug cfg; c_haslog := c_haslog cfg; c_sysprefix := c_sysprefix cfg; c_fetch := c_fetch cfg; c_urlfn := c_urlfn cfg |}.

Section LockStep.
Variable cfg : config.
Hypothesis Hpos : 0 < c_max cfg.
Let L := c_max cfg.
Let xm := msg_exceeded L.
Let cfg0 := unlimited cfg.

(* the limited run either did exactly what the unlimited run did, or it was aborted with the budget error at a point
   the unlimited run went past (so the unlimited run started more than L statements) *)
Definition Rel2 (r1 r2 : outcome * world) : Prop := r1 = r2 \/ (fst r1 = ORt xm /\ L < w_count (snd r2)).
Definition Rel3 (r1 r2 : xres) : Prop := r1 = r2 \/ (fst (fst r1) = ORt xm /\ L < w_count (snd r2)).
Definition RelL (r1 r2 : lres * world) : Prop := r1 = r2 \/ (fst r1 = LRt xm /\ L < w_count (snd r2)).
Definition RelA (r1 r2 : (outcome + list value) * world) : Prop := r1 = r2 \/ (fst r1 = inl (ORt xm) /\ L < w_count (snd r2)).
Definition RelI (r1 r2 : option outcome * world) : Prop := r1 = r2 \/ (fst r1 = Some (ORt xm) /\ L < w_count (snd r2)).

Definition evrel (a b : evalT) : Prop := forall e loc bi um w, Rel2 (a e loc bi um w) (b e loc bi um w).
Definition clrel (a b : callT) : Prop := forall fv x um w, Rel2 (a fv x um w) (b fv x um w).
Definition exrel (a b : execT) : Prop := forall code pc cache loc um w, Rel3 (a code pc cache loc um w) (b code pc cache loc um w).

(* PREMISE on the library: given callbacks that are in lock step it stays in lock step, passing a budget error on *)
Definition lib_lockstep : Prop :=
  forall (cb1 cb2 : caller), (forall fv a w, Rel2 (cb1 fv a w) (cb2 fv a w)) -> (forall fv a w, w_count w <= w_count (snd (cb2 fv a w))) ->
  forall name args w, RelL (lib cb1 name args w) (lib cb2 name args w).

Hypothesis Hlock : lib_lockstep.

Lemma has_urlfn_unl um : has_urlfn cfg0 um = has_urlfn cfg um.
Proof. destruct um; reflexivity. Qed.
Lemma apply_urlfn_unl um u : apply_urlfn cfg0 url_rel um u = apply_urlfn cfg url_rel um u.
Proof. destruct um; reflexivity. Qed.
Lemma log_if_unl b w s : log_if cfg0 b w s = log_if cfg b w s.
Proof. reflexivity. Qed.

Ltac aborted H := let o := fresh "o" in let w := fresh "wa" in
  match type of H with fst ?t = _ => destruct t as [o w] end; cbn [fst] in H; subst o.

Lemma eval_args_rel ev1 ev2 loc bi um : evrel ev1 ev2 -> evmono ev2 ->
  forall l w acc, RelA (eval_args ev1 loc bi um l w acc) (eval_args ev2 loc bi um l w acc).
Proof.
  intros Hev Hm. induction l as [|a t IH]; intros w acc; cbn [eval_args]; [left; reflexivity|].
  pose proof (Hm a loc bi um w) as M0.
  destruct (Hev a loc bi um w) as [Heq|[Hab Hcnt]].
  - rewrite Heq. destruct (ev2 a loc bi um w) as [o w1]. destruct o; try (left; reflexivity). apply IH.
  - aborted Hab. right. split; [reflexivity|].
    destruct (ev2 a loc bi um w) as [o w1]. cbn [snd] in *. destruct o; cbn [snd]; try lia.
    pose proof (eval_args_mono ev2 loc bi um Hm t w1 (v :: acc)). lia.
Qed.

Lemma eval_body_rel ev1 ev2 cl1 cl2 : evrel ev1 ev2 -> clrel cl1 cl2 -> evmono ev2 -> clmono cl2 ->
  evrel (eval_body cfg ev1 cl1) (eval_body cfg0 ev2 cl2).
Proof.
  intros Hev Hcl Hm Hmc e loc bi um w. destruct e as [n|s|x|name args|op l r|op e1|e1]; cbn [eval_body]; try (left; reflexivity).
  - (* ECall *)
    destruct (op_is name "if").
    + cbv zeta. destruct (nth_error args 0) as [ve|].
      * pose proof (Hm ve loc bi um w) as M0.
        destruct (Hev ve loc bi um w) as [Heq|[Hab Hcnt]].
        -- rewrite Heq. destruct (ev2 ve loc bi um w) as [o w1]. destruct o; try (left; reflexivity).
           destruct (if truthy w1 v then nth_error args 1 else nth_error args 2) as [re|]; [apply Hev|left; reflexivity].
        -- aborted Hab. right. split; [reflexivity|].
           destruct (ev2 ve loc bi um w) as [o w1]. cbn [snd] in *. destruct o; cbn [snd]; try lia.
           destruct (if truthy w1 v then nth_error args 1 else nth_error args 2) as [re|]; cbn [snd]; [|lia].
           pose proof (Hm re loc bi um w1). lia.
      * destruct (if truthy w (VBool false) then nth_error args 1 else nth_error args 2) as [re|]; [apply Hev|left; reflexivity].
    + pose proof (eval_args_mono ev2 loc bi um Hm args w []) as M0.
      destruct (eval_args_rel ev1 ev2 loc bi um Hev Hm args w []) as [Heq|[Hab Hcnt]].
      * rewrite Heq. destruct (eval_args ev2 loc bi um args w []) as [[o|vs] w1]; [left; reflexivity|].
        destruct (lookup_fn name loc bi w1) as [fv|]; [|left; reflexivity].
        pose proof (Hmc fv vs um w1) as M1.
        destruct fv; try (left; reflexivity);
          (match goal with |- context [cl1 ?f vs um w1] => destruct (Hcl f vs um w1) as [Heq2|[Hab2 Hcnt2]] end;
           [ rewrite Heq2; left; reflexivity
           | aborted Hab2; right; split; [reflexivity|];
             match goal with |- context [cl2 ?f vs um w1] => destruct (cl2 f vs um w1) as [o2 w2] end;
             cbn [snd] in *; destruct o2; cbn [snd]; rewrite ?log_if_unl, ?count_log_if; lia ]).
      * aborted Hab. right. split; [reflexivity|].
        destruct (eval_args ev2 loc bi um args w []) as [[o|vs] w1]; cbn [snd] in *; [lia|].
        destruct (lookup_fn name loc bi w1) as [fv|]; cbn [snd]; [|lia].
        pose proof (Hmc fv vs um w1) as M1.
        destruct fv; cbn [snd]; try lia;
          (match goal with |- context [cl2 ?f vs um w1] => destruct (cl2 f vs um w1) as [o2 w2] end;
           cbn [snd] in *; destruct o2; cbn [snd]; rewrite ?log_if_unl, ?count_log_if; lia).
  - (* EBin *)
    pose proof (Hm l loc bi um w) as M0.
    destruct (Hev l loc bi um w) as [Heq|[Hab Hcnt]].
    + rewrite Heq. destruct (ev2 l loc bi um w) as [o w1]. cbn [snd] in M0.
      destruct o; try (left; reflexivity).
      destruct (op_is op "&&"). { destruct (truthy w1 v); [apply Hev|left; reflexivity]. }
      destruct (op_is op "||"). { destruct (truthy w1 v); [left; reflexivity|apply Hev]. }
      pose proof (Hm r loc bi um w1) as M1.
      destruct (Hev r loc bi um w1) as [Heq2|[Hab2 Hcnt2]].
      * rewrite Heq2. left; reflexivity.
      * aborted Hab2. right. split; [reflexivity|].
        destruct (ev2 r loc bi um w1) as [o2 w2]. cbn [snd] in *. destruct o2; cbn [snd]; lia.
    + aborted Hab. right. split; [reflexivity|].
      destruct (ev2 l loc bi um w) as [o w1]. cbn [snd] in *. destruct o; cbn [snd]; try lia.
      destruct (op_is op "&&"). { destruct (truthy w1 v); cbn [snd]; [pose proof (Hm r loc bi um w1); lia|lia]. }
      destruct (op_is op "||"). { destruct (truthy w1 v); cbn [snd]; [lia|pose proof (Hm r loc bi um w1); lia]. }
      pose proof (Hm r loc bi um w1). destruct (ev2 r loc bi um w1) as [o2 w2]. cbn [snd] in *. destruct o2; cbn [snd]; lia.
  - (* EUn *)
    destruct (Hev e1 loc bi um w) as [Heq|[Hab Hcnt]].
    + rewrite Heq. left; reflexivity.
    + aborted Hab. right. split; [reflexivity|].
      destruct (ev2 e1 loc bi um w) as [o w1]. cbn [snd] in *. destruct o; cbn [snd]; lia.
  - (* EGroup *) apply Hev.
Qed.

Lemma call_body_rel cl1 cl2 ex1 ex2 : clrel cl1 cl2 -> exrel ex1 ex2 -> clmono cl2 -> exmono ex2 ->
  clrel (call_body lib cl1 ex1) (call_body lib cl2 ex2).
Proof.
  intros Hcl Hex Hmc Hmx fv a um w. unfold call_body. destruct fv as [ |b|n|s|us|l|l|f|id]; try (left; reflexivity).
  destruct f as [name|id].
  - destruct (Hlock (fun fv' args' w' => cl1 fv' args' um w') (fun fv' args' w' => cl2 fv' args' um w')
                    (fun fv' a' w' => Hcl fv' a' um w') (fun fv' a' w' => Hmc fv' a' um w') name a w) as [Heq|[Hab Hcnt]].
    + rewrite Heq. left; reflexivity.
    + aborted Hab. right. split; [reflexivity|].
      destruct (lib _ name a w) as [r w1]. cbn [snd] in *. destruct r; cbn [snd]; lia.
  - destruct (nth_error (w_funs w) id) as [fd|]; [|left; reflexivity].
    destruct (match fd_args fd with Some names => bind_args names (length names) 0 (fd_last fd) a w [] | None => ([], w) end) as [locals w1].
    destruct (Hex (fd_body fd) 0%nat [] (Some locals) um w1) as [Heq|[Hab Hcnt]].
    + rewrite Heq. left; reflexivity.
    + destruct (ex1 (fd_body fd) 0%nat [] (Some locals) um w1) as [[o1 l1] w1']. cbn [fst] in Hab. subst o1.
      right. split; [reflexivity|].
      destruct (ex2 (fd_body fd) 0%nat [] (Some locals) um w1) as [[o2 l2] w2]. cbn [snd] in *. lia.
Qed.

Lemma run_incs_rel ex1 ex2 um : exrel ex1 ex2 -> exmono ex2 ->
  forall l w, RelI (run_incs cfg url_rel lint_lines ex1 um l w) (run_incs cfg0 url_rel lint_lines ex2 um l w).
Proof.
  intros Hex Hmx. induction l as [|[u sys] t IH]; intros w; cbn [run_incs]; [left; reflexivity|].
  rewrite has_urlfn_unl, apply_urlfn_unl. cbn [c_sysprefix c_fetch c_debug c_haslog cfg0 unlimited].
  set (url := match sys, c_sysprefix cfg with true, Some p => url_rel p u | _, _ => if has_urlfn cfg um then apply_urlfn cfg url_rel um u else u end).
  destruct (c_fetch cfg) as [fetch|]; [|left; reflexivity].
  destruct (fetch url) as [txt|]; [|left; reflexivity].
  destruct (parse_script [txt] 1) as [sc|pe|what|]; try (left; reflexivity).
  set (w2 := if (c_debug cfg && c_haslog cfg)%bool then _ else _).
  destruct (Hex sc 0%nat [] None (UBase url) w2) as [Heq|[Hab Hcnt]].
  - rewrite Heq. destruct (ex2 sc 0%nat [] None (UBase url) w2) as [[o l2] w3]. destruct o; try (left; reflexivity). apply IH.
  - destruct (ex1 sc 0%nat [] None (UBase url) w2) as [[o1 l1] w1']. cbn [fst] in Hab. subst o1.
    right. split; [reflexivity|].
    destruct (ex2 sc 0%nat [] None (UBase url) w2) as [[o l2] w3]. cbn [snd] in *. destruct o; cbn [snd]; try lia.
    pose proof (run_incs_mono cfg0 ex2 um Hmx t w3). lia.
Qed.

Lemma exec_body_rel ev1 ev2 ex1 ex2 : evrel ev1 ev2 -> exrel ex1 ex2 -> evmono ev2 -> exmono ex2 ->
  exrel (exec_body cfg url_rel lint_lines ev1 ex1) (exec_body cfg0 url_rel lint_lines ev2 ex2).
Proof.
  intros Hev Hex Hm Hmx code pc cache loc um w.
  destruct (nth_error code pc) as [st|] eqn:Hn; [|unfold exec_body; rewrite Hn; left; reflexivity].
  pose proof (exec_body_mono_strong cfg0 ev2 ex2 Hm Hmx code pc cache loc um w st Hn) as Mstrong.
  unfold exec_body in *. rewrite Hn in *. cbv zeta in *. cbn [c_max cfg0 unlimited] in *.
  set (w0 := upd_count w (w_count w + 1)) in *. assert (H0 : w_count w0 = w_count w + 1) by reflexivity.
  change (0 <? 0) with false in *. cbn [andb] in *.
  destruct ((0 <? c_max cfg) && (c_max cfg <? w_count w0))%bool eqn:Hab0.
  { right. split; [reflexivity|]. apply andb_prop in Hab0. destruct Hab0 as [_ Hlt]. apply Z.ltb_lt in Hlt. fold L in Hlt. lia. }
  clear Mstrong.
  destruct st as [name e|label cond|re|lname|fname fargs fasync flast fbody|incs].
  - (* SExpr *)
    pose proof (Hm e loc false um w0) as M0.
    destruct (Hev e loc false um w0) as [Heq|[Hab Hcnt]].
    + rewrite Heq. destruct (ev2 e loc false um w0) as [o w1]. destruct o; try (left; reflexivity).
      destruct name as [x|]; [destruct loc as [l|]|]; apply Hex.
    + aborted Hab. right. split; [reflexivity|].
      destruct (ev2 e loc false um w0) as [o w1]. cbn [snd] in *. destruct o; cbn [snd]; try lia.
      destruct name as [x|]; [destruct loc as [l|]|];
        match goal with |- _ < w_count (snd (ex2 ?c ?p ?k ?l ?u ?ww)) => pose proof (Hmx c p k l u ww) end; cbn [w_count upd_globals] in *; lia.
  - (* SJump *)
    assert (Hj : forall w1, Rel3
      (match assoc label cache with
       | Some ix => ex1 code (S ix) cache loc um w1
       | None => match find_label label code with
                 | Some ix => ex1 code (S ix) ((label, ix) :: cache) loc um w1
                 | None => (ORt (msg_unknown_label label), loc, w1) end end)
      (match assoc label cache with
       | Some ix => ex2 code (S ix) cache loc um w1
       | None => match find_label label code with
                 | Some ix => ex2 code (S ix) ((label, ix) :: cache) loc um w1
                 | None => (ORt (msg_unknown_label label), loc, w1) end end)).
    { intros w1. destruct (assoc label cache); [apply Hex|]. destruct (find_label label code); [apply Hex|left; reflexivity]. }
    assert (Hjm : forall w1, w_count w1 <= w_count (snd
      (match assoc label cache with
       | Some ix => ex2 code (S ix) cache loc um w1
       | None => match find_label label code with
                 | Some ix => ex2 code (S ix) ((label, ix) :: cache) loc um w1
                 | None => (ORt (msg_unknown_label label), loc, w1) end end))).
    { intros w1. destruct (assoc label cache); [apply Hmx|]. destruct (find_label label code); [apply Hmx|cbn; lia]. }
    destruct cond as [c|]; [|apply Hj].
    pose proof (Hm c loc false um w0) as M0.
    destruct (Hev c loc false um w0) as [Heq|[Hab Hcnt]].
    + rewrite Heq. destruct (ev2 c loc false um w0) as [o w1]. destruct o; try (left; reflexivity).
      destruct (truthy w1 v); [apply Hj|apply Hex].
    + aborted Hab. right. split; [reflexivity|].
      destruct (ev2 c loc false um w0) as [o w1]. cbn [snd] in *. destruct o; cbn [snd]; try lia.
      destruct (truthy w1 v); cbv beta iota; [eapply Z.lt_le_trans; [exact Hcnt|apply Hjm]|pose proof (Hmx code (S pc) cache loc um w1); lia].
  - (* SReturn *)
    destruct re as [e|]; [|left; reflexivity].
    destruct (Hev e loc false um w0) as [Heq|[Hab Hcnt]].
    + rewrite Heq. left; reflexivity.
    + aborted Hab. right. split; [reflexivity|].
      destruct (ev2 e loc false um w0) as [o w1]. cbn [snd] in *. lia.
  - apply Hex.
  - apply Hex.
  - (* SInclude *)
    destruct (run_incs_rel ex1 ex2 um Hex Hmx incs w0) as [Heq|[Hab Hcnt]].
    + rewrite Heq. destruct (run_incs cfg0 url_rel lint_lines ex2 um incs w0) as [[o|] w1]; [left; reflexivity|apply Hex].
    + aborted Hab. right. split; [reflexivity|].
      destruct (run_incs cfg0 url_rel lint_lines ex2 um incs w0) as [[o|] w1]; cbn [snd] in *; [lia|].
      pose proof (Hmx code (S pc) cache loc um w1). lia.
Qed.

Theorem lockstep : forall fuel,
  evrel (eval cfg lib url_rel lint_lines fuel) (eval cfg0 lib url_rel lint_lines fuel) /\
  clrel (call cfg lib url_rel lint_lines fuel) (call cfg0 lib url_rel lint_lines fuel) /\
  exrel (exec cfg lib url_rel lint_lines fuel) (exec cfg0 lib url_rel lint_lines fuel).
Proof.
  induction fuel as [|f (He & Hc & Hx)].
  - repeat split; intro; intros; left; reflexivity.
  - destruct (all_mono cfg0 f) as (Me & Mc & Mx). split; [|split].
    + intros e loc bi um w. rewrite !eval_S. apply eval_body_rel; assumption.
    + intros fv a um w. rewrite !call_S. apply call_body_rel; assumption.
    + intros code pc cache loc um w. rewrite !exec_S. apply exec_body_rel; assumption.
Qed.

(* MONOTONE: a run that completes after N <= L statements behaves identically under the limit L *)
Theorem limit_above_N_is_invisible : forall fuel sc w o w',
  execute_script cfg0 lib url_rel lint_lines fuel sc w = (o, w') ->
  w_count w' <= L ->
  execute_script cfg lib url_rel lint_lines fuel sc w = (o, w').
Proof.
  unfold execute_script. intros fuel sc w o w' H HN.
  set (w1 := upd_count _ 0) in *.
  destruct (lockstep fuel) as (_ & _ & Hx). specialize (Hx sc 0%nat [] None UHost w1).
  destruct (exec cfg0 lib url_rel lint_lines fuel sc 0%nat [] None UHost w1) as [[o2 l2] w2] eqn:E2.
  injection H as <- <-. destruct Hx as [Heq|[_ Hcnt]].
  - rewrite Heq. reflexivity.
  - cbn [snd] in Hcnt. lia.
Qed.

(* EXACT: under a limit smaller than the statement count of the unlimited run, the limited run either is cut off with
   exactly the budget error, or (it never is) agrees; it can never produce a different result *)
Theorem limited_run_agrees_or_is_aborted : forall fuel sc w,
  let r1 := execute_script cfg lib url_rel lint_lines fuel sc w in
  let r0 := execute_script cfg0 lib url_rel lint_lines fuel sc w in
  r1 = r0 \/ (fst r1 = ORt xm /\ L < w_count (snd r0)).
Proof.
  unfold execute_script. intros fuel sc w. cbv zeta.
  set (w1 := upd_count _ 0).
  destruct (lockstep fuel) as (_ & _ & Hx). specialize (Hx sc 0%nat [] None UHost w1).
  destruct (exec cfg0 lib url_rel lint_lines fuel sc 0%nat [] None UHost w1) as [[o2 l2] w2].
  destruct (exec cfg lib url_rel lint_lines fuel sc 0%nat [] None UHost w1) as [[o1 l1] w1'].
  destruct Hx as [Heq|[Hab Hcnt]].
  - injection Heq as -> -> ->. left; reflexivity.
  - cbn [fst snd] in *. right. split; assumption.
Qed.

End LockStep.
End Budget.

(* ---- the premises are satisfiable: the library functions of Model/LibCore.v meet both of them ---- *)
From BS Require Import Model.LibCore.

Lemma libcore_count cfg cb name args w : w_count (snd (libcore cfg cb name args w)) = w_count w.
Proof.
  unfold libcore, alloc_arr, alloc_obj. cbv beta iota.
  repeat match goal with
  | |- context [if ?b then _ else _] => destruct b
  | |- context [match ?x with _ => _ end] => destruct x
  | |- context [let '(_, _) := ?x in _] => destruct x
  end; try reflexivity.
Qed.

Lemma libcore_monotone cfg : lib_monotone (libcore cfg).
Proof. intros cb _ name args w. rewrite libcore_count. lia. Qed.

Lemma libcore_lockstep cfg : lib_lockstep (libcore cfg) cfg.
Proof. intros cb1 cb2 _ _ name args w. left. reflexivity. Qed.
