(* Proofs/C10ws.v — indentation / trailing whitespace of the keyword-only statements does not change the statement:
       classify n (ws1 ++ kw ++ ws2) = ROk K        for every pair of whitespace strings ws1 ws2
   for  else:  endif  endwhile  endfor  endfunction  break  continue   (and `else ws :` with whitespace before the colon).
   Route (Proofs/RegexComplete.v): re_match never runs out of fuel, is sound and (no look-ahead) complete for the relation
   Matches, so   (a) the statement's own regex  ^\s*kw\s*$  matches because a derivation is built for the padded text, and
   (b) every EARLIER regex of parse_script's cascade does not match because it requires (req) a non-space character that
   occurs neither in the keyword nor in whitespace.  Both are tied to the REGENERATED regex values of Gen/Regexes.v. *)
From Coq Require Import Lia.
From BS Require Import Model.Base Model.Regex Model.Num Model.ExprParser Model.Script Model.Lower
  Gen.Unicode Gen.Regexes Proofs.RegexFacts Proofs.RegexComplete.

(* a whitespace string: every character is `\s` for the engine (any of them, also LF/CR/FF/NBSP...) *)
Definition white (w : str) : Prop := forall c, In c w -> is_space UC c = true.

Lemma white_nil : white [].
Proof. intros c []. Qed.

Lemma white_cons y w : white (y :: w) -> is_space UC y = true /\ white w.
Proof. intros H. split; [apply H; left; reflexivity | intros c I; apply H; right; exact I]. Qed.

(* ================= (b) the earlier regexes do not match ================= *)
(* a text made of whitespace and of the characters of kw *)
Definition over (kw : str) (line : str) : Prop := forall c, In c line -> is_space UC c = true \/ In c kw.

Lemma over_white kw w : white w -> over kw w.
Proof. intros H c I. left. apply H. exact I. Qed.
Lemma over_sub kw k : (forall c, In c k -> In c kw) -> over kw k.
Proof. intros H c I. right. apply H. exact I. Qed.
Lemma over_app kw a b : over kw a -> over kw b -> over kw (a ++ b).
Proof. intros A B c I. apply in_app_or in I. destruct I; auto. Qed.

Definition memN (x : N) (l : str) : bool := existsb (N.eqb x) l.
Lemma memN_false x l : memN x l = false -> ~ In x l.
Proof.
  intros H I. unfold memN in H. assert (E : existsb (N.eqb x) l = true).
  { apply existsb_exists. exists x. split; [exact I | apply N.eqb_refl]. }
  congruence.
Qed.

(* r requires a character that is neither whitespace nor in kw *)
Definition missing (kw : str) (r : regex) : bool :=
  existsb (fun x => negb (is_space UC x) && negb (memN x kw)) (req r).

Lemma over_nomatch kw r line : missing kw r = true -> over kw line -> rxm r line = MNo.
Proof.
  intros Mi Ov. unfold missing in Mi. apply existsb_exists in Mi. destruct Mi as (x & I & Hx).
  apply andb_true_iff in Hx. destruct Hx as [H1 H2]. apply negb_true_iff in H1. apply negb_true_iff in H2.
  unfold rxm. apply (re_match_req_missing UC line r x I).
  intros Il. destruct (Ov _ Il) as [S|K]; [congruence | exact (memN_false _ _ H2 K)].
Qed.

(* ================= (a) ^\s*kw\s*$ matches ws1 ++ kw ++ ws2 ================= *)
Definition sp : regex := RRep 0 None (RIn false [CCat CatSpace]).
Fixpoint lits (kw : str) (tail : regex) : regex :=
  match kw with [] => tail | x :: t => RCat (RLit x) (lits t tail) end.

Lemma no_look_lits kw tail : no_look (lits kw tail) = no_look tail.
Proof. induction kw as [|x t IH]; [reflexivity | exact IH]. Qed.

Lemma nth_error_mid {A} (pre : list A) y post : nth_error (pre ++ y :: post) (length pre) = Some y.
Proof. rewrite nth_error_app2 by lia. rewrite Nat.sub_diag. reflexivity. Qed.

Lemma Matches_sp s w : forall pre post c, white w -> s = pre ++ w ++ post ->
  Matches UC s sp (length pre) (length pre + length w) c c.
Proof.
  induction w as [|y w IH]; intros pre post c W E.
  - cbn [length]. rewrite Nat.add_0_r. apply M_Rep0.
  - apply white_cons in W. destruct W as [Wy Ww].
    apply (M_RepS UC s 0 None _ (length pre) (S (length pre)) _ c c c).
    + discriminate.
    + apply (M_In UC s false _ y).
      * subst s. apply nth_error_mid.
      * unfold class_match. cbn [existsb item_match cat_match]. rewrite Wy. reflexivity.
    + lia.
    + specialize (IH (pre ++ [y]) post c Ww).
      rewrite app_length in IH. cbn [length] in IH. cbn [length].
      change (RRep (Init.Nat.pred 0) (option_map Init.Nat.pred None) (RIn false [CCat CatSpace])) with sp.
      replace (length pre + S (length w)) with (length pre + 1 + length w) by lia.
      replace (S (length pre)) with (length pre + 1) by lia.
      apply IH. subst s. rewrite <- app_assoc. reflexivity.
Qed.

Lemma Matches_lits s kw : forall pre post tail p c c', s = pre ++ kw ++ post ->
  Matches UC s tail (length pre + length kw) p c c' -> Matches UC s (lits kw tail) (length pre) p c c'.
Proof.
  induction kw as [|x kw IH]; intros pre post tail p c c' E M.
  - cbn [length] in M. rewrite Nat.add_0_r in M. exact M.
  - cbn [lits]. apply (M_Cat UC s _ _ (length pre) (S (length pre)) p c c c').
    + apply M_Lit. subst s. apply nth_error_mid.
    + specialize (IH (pre ++ [x]) post tail p c c').
      rewrite app_length in IH. cbn [length] in IH.
      replace (S (length pre)) with (length pre + 1) by lia.
      apply IH; [subst s; rewrite <- app_assoc; reflexivity|].
      replace (length pre + 1 + length kw) with (length pre + length (x :: kw)) by (cbn [length]; lia). exact M.
Qed.

(* \s*$ at the start of a trailing whitespace run *)
Lemma Matches_sp_eol s pre w c : white w -> s = pre ++ w ->
  Matches UC s (RCat sp REol) (length pre) (length s) c c.
Proof.
  intros W E. apply (M_Cat UC s _ _ (length pre) (length s) (length s) c c c).
  - replace (length s) with (length pre + length w) by (subst s; rewrite app_length; reflexivity).
    apply (Matches_sp s w pre [] c W). rewrite app_nil_r. exact E.
  - apply M_Eol. left. reflexivity.
Qed.

Definition kw_re (kw : str) : regex := RCat RBol (RCat sp (lits kw (RCat sp REol))).
Definition kw2_re (k1 k2 : str) : regex := RCat RBol (RCat sp (lits k1 (RCat sp (lits k2 (RCat sp REol))))).

Lemma kw_match kw ws1 ws2 : white ws1 -> white ws2 ->
  exists e c, rxm (kw_re kw) (ws1 ++ kw ++ ws2) = MYes e c.
Proof.
  intros W1 W2. set (s := ws1 ++ kw ++ ws2). unfold rxm.
  apply (re_match_complete UC s (kw_re kw) (length s) []).
  - unfold kw_re. cbn [no_look]. rewrite no_look_lits. reflexivity.
  - unfold kw_re. apply (M_Cat UC s _ _ 0 0 (length s) [] [] []); [apply M_Bol|].
    apply (M_Cat UC s _ _ 0 (length ws1) (length s) [] [] []).
    + apply (Matches_sp s ws1 [] (kw ++ ws2) [] W1). reflexivity.
    + apply (Matches_lits s kw ws1 ws2); [reflexivity|].
      replace (length ws1 + length kw) with (length (ws1 ++ kw)) by apply app_length.
      apply (Matches_sp_eol s (ws1 ++ kw) ws2 [] W2). subst s. rewrite <- app_assoc. reflexivity.
Qed.

Lemma kw2_match k1 k2 ws1 ws2 ws3 : white ws1 -> white ws2 -> white ws3 ->
  exists e c, rxm (kw2_re k1 k2) (ws1 ++ k1 ++ ws2 ++ k2 ++ ws3) = MYes e c.
Proof.
  intros W1 W2 W3. set (s := ws1 ++ k1 ++ ws2 ++ k2 ++ ws3). unfold rxm.
  apply (re_match_complete UC s (kw2_re k1 k2) (length s) []).
  - unfold kw2_re. cbn [no_look]. rewrite no_look_lits. cbn [no_look]. rewrite no_look_lits. reflexivity.
  - unfold kw2_re. apply (M_Cat UC s _ _ 0 0 (length s) [] [] []); [apply M_Bol|].
    apply (M_Cat UC s _ _ 0 (length ws1) (length s) [] [] []).
    + apply (Matches_sp s ws1 [] (k1 ++ ws2 ++ k2 ++ ws3) [] W1). reflexivity.
    + apply (Matches_lits s k1 ws1 (ws2 ++ k2 ++ ws3)); [reflexivity|].
      replace (length ws1 + length k1) with (length (ws1 ++ k1)) by apply app_length.
      apply (M_Cat UC s _ _ _ (length (ws1 ++ k1) + length ws2) (length s) [] [] []).
      * apply (Matches_sp s ws2 (ws1 ++ k1) (k2 ++ ws3) [] W2). subst s. rewrite <- app_assoc. reflexivity.
      * replace (length (ws1 ++ k1) + length ws2) with (length ((ws1 ++ k1) ++ ws2)) by apply app_length.
        apply (Matches_lits s k2 ((ws1 ++ k1) ++ ws2) ws3); [subst s; rewrite <- !app_assoc; reflexivity|].
        replace (length ((ws1 ++ k1) ++ ws2) + length k2) with (length (((ws1 ++ k1) ++ ws2) ++ k2)) by apply app_length.
        apply (Matches_sp_eol s _ ws3 [] W3). subst s. rewrite <- !app_assoc. reflexivity.
Qed.

(* ================= the statements' regexes have this shape (regenerated values) ================= *)
Lemma shape_function_end : R_SCRIPT_FUNCTION_END = kw_re (U "endfunction"). Proof. reflexivity. Qed.
Lemma shape_if_else : R_SCRIPT_IF_ELSE = kw2_re (U "else") (U ":"). Proof. reflexivity. Qed.
Lemma shape_if_end : R_SCRIPT_IF_END = kw_re (U "endif"). Proof. reflexivity. Qed.
Lemma shape_while_end : R_SCRIPT_WHILE_END = kw_re (U "endwhile"). Proof. reflexivity. Qed.
Lemma shape_for_end : R_SCRIPT_FOR_END = kw_re (U "endfor"). Proof. reflexivity. Qed.
Lemma shape_break : R_SCRIPT_BREAK = kw_re (U "break"). Proof. reflexivity. Qed.
Lemma shape_continue : R_SCRIPT_CONTINUE = kw_re (U "continue"). Proof. reflexivity. Qed.

(* ================= classify ================= *)
Ltac no r kw Ov := rewrite (over_nomatch kw r _ (eq_refl : missing kw r = true) Ov).
Ltac over3 := repeat first [apply over_app | apply over_white; assumption | apply over_sub; intros ? I; exact I].

Lemma classify_endfunction n ws1 ws2 : white ws1 -> white ws2 ->
  classify n (ws1 ++ U "endfunction" ++ ws2) = ROk KFnEnd.
Proof.
  intros W1 W2. pose (kw := U "endfunction").
  assert (Ov : over kw (ws1 ++ kw ++ ws2)) by over3.
  destruct (kw_match kw ws1 ws2 W1 W2) as (e & c & Y). change (kw_re kw) with R_SCRIPT_FUNCTION_END in Y.
  unfold classify. fold kw.
  no R_SCRIPT_ASSIGNMENT kw Ov. no R_SCRIPT_FUNCTION_BEGIN kw Ov. rewrite Y. reflexivity.
Qed.

Lemma classify_else_gap n ws1 ws2 ws3 : white ws1 -> white ws2 -> white ws3 ->
  classify n (ws1 ++ U "else" ++ ws2 ++ U ":" ++ ws3) = ROk KElse.
Proof.
  intros W1 W2 W3. pose (kw := U "else:"). pose (k1 := U "else"). pose (k2 := U ":").
  assert (Ov : over kw (ws1 ++ k1 ++ ws2 ++ k2 ++ ws3)).
  { repeat first [apply over_app | apply over_white; assumption].
    - apply over_sub. intros c I. apply (in_or_app k1 k2). left. exact I.
    - apply over_sub. intros c I. apply (in_or_app k1 k2). right. exact I. }
  destruct (kw2_match k1 k2 ws1 ws2 ws3 W1 W2 W3) as (e & c & Y). change (kw2_re k1 k2) with R_SCRIPT_IF_ELSE in Y.
  unfold classify. fold k1 k2.
  no R_SCRIPT_ASSIGNMENT kw Ov. no R_SCRIPT_FUNCTION_BEGIN kw Ov. no R_SCRIPT_FUNCTION_END kw Ov.
  no R_SCRIPT_IF_BEGIN kw Ov. no R_SCRIPT_IF_ELSE_IF kw Ov. rewrite Y. reflexivity.
Qed.

Lemma classify_else n ws1 ws2 : white ws1 -> white ws2 -> classify n (ws1 ++ U "else:" ++ ws2) = ROk KElse.
Proof. intros W1 W2. exact (classify_else_gap n ws1 [] ws2 W1 white_nil W2). Qed.

Lemma classify_endif n ws1 ws2 : white ws1 -> white ws2 -> classify n (ws1 ++ U "endif" ++ ws2) = ROk KEndif.
Proof.
  intros W1 W2. pose (kw := U "endif").
  assert (Ov : over kw (ws1 ++ kw ++ ws2)) by over3.
  destruct (kw_match kw ws1 ws2 W1 W2) as (e & c & Y). change (kw_re kw) with R_SCRIPT_IF_END in Y.
  unfold classify. fold kw.
  no R_SCRIPT_ASSIGNMENT kw Ov. no R_SCRIPT_FUNCTION_BEGIN kw Ov. no R_SCRIPT_FUNCTION_END kw Ov.
  no R_SCRIPT_IF_BEGIN kw Ov. no R_SCRIPT_IF_ELSE_IF kw Ov. no R_SCRIPT_IF_ELSE kw Ov. rewrite Y. reflexivity.
Qed.

Lemma classify_endwhile n ws1 ws2 : white ws1 -> white ws2 -> classify n (ws1 ++ U "endwhile" ++ ws2) = ROk KEndwhile.
Proof.
  intros W1 W2. pose (kw := U "endwhile").
  assert (Ov : over kw (ws1 ++ kw ++ ws2)) by over3.
  destruct (kw_match kw ws1 ws2 W1 W2) as (e & c & Y). change (kw_re kw) with R_SCRIPT_WHILE_END in Y.
  unfold classify. fold kw.
  no R_SCRIPT_ASSIGNMENT kw Ov. no R_SCRIPT_FUNCTION_BEGIN kw Ov. no R_SCRIPT_FUNCTION_END kw Ov.
  no R_SCRIPT_IF_BEGIN kw Ov. no R_SCRIPT_IF_ELSE_IF kw Ov. no R_SCRIPT_IF_ELSE kw Ov. no R_SCRIPT_IF_END kw Ov.
  no R_SCRIPT_WHILE_BEGIN kw Ov. rewrite Y. reflexivity.
Qed.

Lemma classify_endfor n ws1 ws2 : white ws1 -> white ws2 -> classify n (ws1 ++ U "endfor" ++ ws2) = ROk KEndfor.
Proof.
  intros W1 W2. pose (kw := U "endfor").
  assert (Ov : over kw (ws1 ++ kw ++ ws2)) by over3.
  destruct (kw_match kw ws1 ws2 W1 W2) as (e & c & Y). change (kw_re kw) with R_SCRIPT_FOR_END in Y.
  unfold classify. fold kw.
  no R_SCRIPT_ASSIGNMENT kw Ov. no R_SCRIPT_FUNCTION_BEGIN kw Ov. no R_SCRIPT_FUNCTION_END kw Ov.
  no R_SCRIPT_IF_BEGIN kw Ov. no R_SCRIPT_IF_ELSE_IF kw Ov. no R_SCRIPT_IF_ELSE kw Ov. no R_SCRIPT_IF_END kw Ov.
  no R_SCRIPT_WHILE_BEGIN kw Ov. no R_SCRIPT_WHILE_END kw Ov. no R_SCRIPT_FOR_BEGIN kw Ov. rewrite Y. reflexivity.
Qed.

Lemma classify_break n ws1 ws2 : white ws1 -> white ws2 -> classify n (ws1 ++ U "break" ++ ws2) = ROk KBreak.
Proof.
  intros W1 W2. pose (kw := U "break").
  assert (Ov : over kw (ws1 ++ kw ++ ws2)) by over3.
  destruct (kw_match kw ws1 ws2 W1 W2) as (e & c & Y). change (kw_re kw) with R_SCRIPT_BREAK in Y.
  unfold classify. fold kw.
  no R_SCRIPT_ASSIGNMENT kw Ov. no R_SCRIPT_FUNCTION_BEGIN kw Ov. no R_SCRIPT_FUNCTION_END kw Ov.
  no R_SCRIPT_IF_BEGIN kw Ov. no R_SCRIPT_IF_ELSE_IF kw Ov. no R_SCRIPT_IF_ELSE kw Ov. no R_SCRIPT_IF_END kw Ov.
  no R_SCRIPT_WHILE_BEGIN kw Ov. no R_SCRIPT_WHILE_END kw Ov. no R_SCRIPT_FOR_BEGIN kw Ov. no R_SCRIPT_FOR_END kw Ov.
  rewrite Y. reflexivity.
Qed.

Lemma classify_continue n ws1 ws2 : white ws1 -> white ws2 -> classify n (ws1 ++ U "continue" ++ ws2) = ROk KContinue.
Proof.
  intros W1 W2. pose (kw := U "continue").
  assert (Ov : over kw (ws1 ++ kw ++ ws2)) by over3.
  destruct (kw_match kw ws1 ws2 W1 W2) as (e & c & Y). change (kw_re kw) with R_SCRIPT_CONTINUE in Y.
  unfold classify. fold kw.
  no R_SCRIPT_ASSIGNMENT kw Ov. no R_SCRIPT_FUNCTION_BEGIN kw Ov. no R_SCRIPT_FUNCTION_END kw Ov.
  no R_SCRIPT_IF_BEGIN kw Ov. no R_SCRIPT_IF_ELSE_IF kw Ov. no R_SCRIPT_IF_ELSE kw Ov. no R_SCRIPT_IF_END kw Ov.
  no R_SCRIPT_WHILE_BEGIN kw Ov. no R_SCRIPT_WHILE_END kw Ov. no R_SCRIPT_FOR_BEGIN kw Ov. no R_SCRIPT_FOR_END kw Ov.
  no R_SCRIPT_BREAK kw Ov. rewrite Y. reflexivity.
Qed.

(* the keyword-only statements and their kinds *)
Definition keyword_lines : list (str * line_kind) :=
  [(U "else:", KElse); (U "endif", KEndif); (U "endwhile", KEndwhile); (U "endfor", KEndfor);
   (U "endfunction", KFnEnd); (U "break", KBreak); (U "continue", KContinue)].

Lemma classify_keyword_padded l k : In (l, k) keyword_lines ->
  forall n ws1 ws2, white ws1 -> white ws2 -> classify n (ws1 ++ l ++ ws2) = ROk k.
Proof.
  intros I n ws1 ws2 W1 W2. unfold keyword_lines in I. cbn [In] in I.
  repeat (destruct I as [I|I]; [inversion I; subst l k|]); try contradiction.
  - apply classify_else; assumption.
  - apply classify_endif; assumption.
  - apply classify_endwhile; assumption.
  - apply classify_endfor; assumption.
  - apply classify_endfunction; assumption.
  - apply classify_break; assumption.
  - apply classify_continue; assumption.
Qed.

Theorem ws_keyword_lines l k : In (l, k) keyword_lines ->
  forall n ws1 ws2, white ws1 -> white ws2 ->
  classify n (ws1 ++ l ++ ws2) = classify n l /\ classify n l = ROk k.
Proof.
  intros I n ws1 ws2 W1 W2.
  assert (B : classify n l = ROk k).
  { pose proof (classify_keyword_padded l k I n [] [] white_nil white_nil) as H.
    cbn [app] in H. rewrite app_nil_r in H. exact H. }
  split; [|exact B]. rewrite B. apply classify_keyword_padded; assumption.
Qed.
