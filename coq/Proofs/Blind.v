(* Proofs/Blind.v — with an unlimited budget the interpreter never READS the statement counter: runs started on two
   worlds that differ only in options['statementCount'] give the same outcome and end in worlds that again differ only in
   the counter.  This discharges the premise Ev_blind of the C01 simulation from a premise about the library alone. *)
From Coq Require Import Lia List Bool ZArith.
From BS Require Import Model.Base Model.Num Model.Arith Model.ExprParser Model.Script Model.Interp Proofs.InterpEq Proofs.C01.
Import ListNotations.

(* two worlds that differ at most in the counter *)
Lemma weq_sym a b : weq a b -> weq b a.
Proof. unfold weq. auto. Qed.
Lemma weq_trans a b c : weq a b -> weq b c -> weq a c.
Proof. unfold weq. congruence. Qed.
Lemma weq_repr a b : weq a b -> b = upd_count a (w_count b).
Proof. unfold weq, upd_count. destruct a, b. cbn. intros H. injection H. intros. subst. reflexivity. Qed.
Lemma weq_upd a k : weq a (upd_count a k).
Proof. reflexivity. Qed.

Lemma vcompare_blind f w k : forall a b, vcompare f (upd_count w k) a b = vcompare f w a b.
Proof.
  induction f as [|f IH]; intros a b; [reflexivity|]. cbn [vcompare].
  destruct a, b; try reflexivity; cbn [w_arrs w_objs upd_count].
  - destruct (nth_error (w_arrs w) l) as [lx|]; [|reflexivity]. destruct (nth_error (w_arrs w) l0) as [ly|]; [|reflexivity].
    revert ly. induction lx as [|p lx IHl]; intros [|q ly]; try reflexivity. rewrite IH. destruct (vcompare f w p q) as [[]|]; auto.
  - destruct (nth_error (w_objs w) l) as [lx|]; [|reflexivity]. destruct (nth_error (w_objs w) l0) as [ly|]; [|reflexivity].
    generalize (sort_kv lx) (sort_kv ly). intros sx. induction sx as [|[k1 p] sx IHl]; intros [|[k2 q] sy]; try reflexivity.
    destruct (str_compare k1 k2); try reflexivity. rewrite IH. destruct (vcompare f w p q) as [[]|]; auto.
Qed.

Lemma truthy_blind w k v : truthy (upd_count w k) v = truthy w v.
Proof. destruct v; reflexivity. Qed.
Lemma unop_blind op w k v : unop op (upd_count w k) v = unop op w v.
Proof. unfold unop. rewrite truthy_blind. reflexivity. Qed.
Lemma binop_blind op w k a b : binop op (upd_count w k) a b = binop op w a b.
Proof.
  unfold binop, relop, cmp_fuel. cbn [w_arrs w_objs upd_count]. rewrite !vcompare_blind. reflexivity.
Qed.
Lemma lookup_var_blind x loc w k : lookup_var x loc (upd_count w k) = lookup_var x loc w.
Proof. reflexivity. Qed.
Lemma lookup_fn_blind n loc bi w k : lookup_fn n loc bi (upd_count w k) = lookup_fn n loc bi w.
Proof. reflexivity. Qed.

Lemma lookup_var_weq x loc a b : weq a b -> lookup_var x loc a = lookup_var x loc b.
Proof. intros H. rewrite (weq_repr _ _ H). reflexivity. Qed.
Lemma lookup_fn_weq n loc bi a b : weq a b -> lookup_fn n loc bi a = lookup_fn n loc bi b.
Proof. intros H. rewrite (weq_repr _ _ H). reflexivity. Qed.
Lemma unop_weq op a b v : weq a b -> unop op a v = unop op b v.
Proof. intros H. rewrite (weq_repr _ _ H). symmetry. apply unop_blind. Qed.
Lemma binop_weq op a b x y : weq a b -> binop op a x y = binop op b x y.
Proof. intros H. rewrite (weq_repr _ _ H). symmetry. apply binop_blind. Qed.

Section Blind.
Variable cfg : config.
Hypothesis Hunl : c_max cfg = 0%Z.
Variable lib : caller -> str -> list value -> world -> lres * world.
Variable url_rel : str -> str -> str.
Variable lint_lines : script -> list str.

Definition B2 (r1 r2 : outcome * world) : Prop := fst r1 = fst r2 /\ weq (snd r1) (snd r2).
Definition B3 (r1 r2 : xres) : Prop := fst (fst r1) = fst (fst r2) /\ snd (fst r1) = snd (fst r2) /\ weq (snd r1) (snd r2).
Definition BL (r1 r2 : lres * world) : Prop := fst r1 = fst r2 /\ weq (snd r1) (snd r2).

Definition evB (a b : evalT) : Prop := forall e loc bi um w wm, weq w wm -> B2 (a e loc bi um w) (b e loc bi um wm).
Definition clB (a b : callT) : Prop := forall fv x um w wm, weq w wm -> B2 (a fv x um w) (b fv x um wm).
Definition exB (a b : execT) : Prop := forall code pc cache loc um w wm, weq w wm -> B3 (a code pc cache loc um w) (b code pc cache loc um wm).

(* PREMISE on the library: it does not read the statement counter (it may run callbacks, which count) *)
Definition lib_count_blind : Prop :=
  forall (cb1 cb2 : caller), (forall fv a w wm, weq w wm -> B2 (cb1 fv a w) (cb2 fv a wm)) ->
  forall name args w wm, weq w wm -> BL (lib cb1 name args w) (lib cb2 name args wm).
Hypothesis Hlib : lib_count_blind.

Lemma weq_log_if b w wm s : weq w wm -> weq (log_if cfg b w s) (log_if cfg b wm s).
Proof. intros H. rewrite (weq_repr _ _ H). unfold log_if. destruct (b && c_haslog cfg)%bool; reflexivity. Qed.

Lemma eval_args_B ev1 ev2 loc bi um : evB ev1 ev2 ->
  forall l w wm acc, weq w wm ->
  fst (eval_args ev1 loc bi um l w acc) = fst (eval_args ev2 loc bi um l wm acc) /\
  weq (snd (eval_args ev1 loc bi um l w acc)) (snd (eval_args ev2 loc bi um l wm acc)).
Proof.
  intros Hev. induction l as [|a t IH]; intros w wm acc Hw; cbn [eval_args]; [split; [reflexivity|exact Hw]|].
  destruct (Hev a loc bi um w wm Hw) as [Ho Hw1].
  destruct (ev1 a loc bi um w) as [o1 w1]. destruct (ev2 a loc bi um wm) as [o2 w2]. cbn [fst snd] in *. subst o2.
  destruct o1; try (split; [reflexivity|exact Hw1]). apply IH. exact Hw1.
Qed.

Ltac related H := let o1 := fresh "o" in let w1 := fresh "wa" in let o2 := fresh "o" in let w2 := fresh "wb" in
  let Ho := fresh "Ho" in let Hw := fresh "Hwq" in
  destruct H as [Ho Hw];
  match type of Ho with fst ?t1 = fst ?t2 => destruct t1 as [o1 w1]; destruct t2 as [o2 w2] end;
  cbn [fst snd] in Ho, Hw; subst o2.

Lemma eval_body_B ev1 ev2 cl1 cl2 : evB ev1 ev2 -> clB cl1 cl2 -> evB (eval_body cfg ev1 cl1) (eval_body cfg ev2 cl2).
Proof.
  intros Hev Hcl e loc bi um w wm Hw. destruct e as [n|s|x|name args|op l r|op e1|e1]; cbn [eval_body].
  - split; [reflexivity|exact Hw].
  - split; [reflexivity|exact Hw].
  - split; [|exact Hw]. cbn [fst]. rewrite (lookup_var_weq _ _ _ _ Hw). reflexivity.
  - destruct (op_is name "if").
    + cbv zeta. destruct (nth_error args 0) as [ve|].
      * pose proof (Hev ve loc bi um w wm Hw) as H. related H.
        destruct o; try (split; [reflexivity|exact Hwq]).
        rewrite (truthy_weq _ _ v Hwq).
        destruct (if truthy wb v then nth_error args 1 else nth_error args 2) as [re|]; [apply Hev; exact Hwq|split; [reflexivity|exact Hwq]].
      * rewrite (truthy_weq _ _ (VBool false) Hw).
        destruct (if truthy wm (VBool false) then nth_error args 1 else nth_error args 2) as [re|]; [apply Hev; exact Hw|split; [reflexivity|exact Hw]].
    + destruct (eval_args_B ev1 ev2 loc bi um Hev args w wm [] Hw) as [Ho Hw1].
      destruct (eval_args ev1 loc bi um args w []) as [[o|vs] w1]; destruct (eval_args ev2 loc bi um args wm []) as [[o'|vs'] w1'];
        cbn [fst snd] in *; try discriminate; [injection Ho as ->; split; [reflexivity|exact Hw1]|]. injection Ho as <-.
      rewrite (lookup_fn_weq name loc bi _ _ Hw1).
      destruct (lookup_fn name loc bi w1') as [fv|]; [|split; [reflexivity|exact Hw1]].
      destruct fv; try (split; [reflexivity|exact Hw1]);
        (match goal with |- context [cl1 ?f vs um w1] => pose proof (Hcl f vs um w1 w1' Hw1) as H end;
         related H; destruct o; (split; [reflexivity|]); cbn [snd]; try exact Hwq; apply weq_log_if; exact Hwq).
  - pose proof (Hev l loc bi um w wm Hw) as H. related H.
    destruct o; try (split; [reflexivity|exact Hwq]).
    rewrite (truthy_weq _ _ v Hwq).
    destruct (op_is op "&&"). { destruct (truthy wb v); [apply Hev; exact Hwq|split; [reflexivity|exact Hwq]]. }
    destruct (op_is op "||"). { destruct (truthy wb v); [split; [reflexivity|exact Hwq]|apply Hev; exact Hwq]. }
    pose proof (Hev r loc bi um wa wb Hwq) as H2. related H2.
    destruct o; try (split; [reflexivity|exact Hwq0]). cbn [fst snd]. split; [|exact Hwq0].
    rewrite (binop_weq op _ _ v v0 Hwq0). reflexivity.
  - pose proof (Hev e1 loc bi um w wm Hw) as H. related H.
    destruct o; try (split; [reflexivity|exact Hwq]). cbn [fst snd]. split; [|exact Hwq].
    rewrite (unop_weq op _ _ v Hwq). reflexivity.
  - apply Hev. exact Hw.
Qed.

Lemma bind_args_B : forall names n ix last args w wm acc, weq w wm ->
  fst (bind_args names n ix last args w acc) = fst (bind_args names n ix last args wm acc) /\
  weq (snd (bind_args names n ix last args w acc)) (snd (bind_args names n ix last args wm acc)).
Proof.
  induction names as [|nm rest IH]; intros n ix last args w wm acc Hw; cbn [bind_args]; [split; [reflexivity|exact Hw]|].
  assert (Ha : forall l, fst (alloc_arr w l) = fst (alloc_arr wm l) /\ weq (snd (alloc_arr w l)) (snd (alloc_arr wm l))).
  { intros l. rewrite (weq_repr _ _ Hw). split; reflexivity. }
  destruct (Nat.ltb ix (length args)); destruct (last && Nat.eqb ix (n - 1))%bool.
  - destruct (Ha (skipn ix args)) as [E1 E2]. destruct (alloc_arr w (skipn ix args)) as [v w1]. destruct (alloc_arr wm (skipn ix args)) as [v' w1'].
    cbn [fst snd] in *. subst v'. apply IH. exact E2.
  - apply IH. exact Hw.
  - destruct (Ha []) as [E1 E2]. destruct (alloc_arr w []) as [v w1]. destruct (alloc_arr wm []) as [v' w1'].
    cbn [fst snd] in *. subst v'. apply IH. exact E2.
  - apply IH. exact Hw.
Qed.

Lemma call_body_B cl1 cl2 ex1 ex2 : clB cl1 cl2 -> exB ex1 ex2 -> clB (call_body lib cl1 ex1) (call_body lib cl2 ex2).
Proof.
  intros Hcl Hex fv a um w wm Hw. unfold call_body. destruct fv as [ |b|n|s|us|l|l|f|id]; try (split; [reflexivity|exact Hw]).
  destruct f as [name|id].
  - pose proof (Hlib (fun fv' args' w' => cl1 fv' args' um w') (fun fv' args' w' => cl2 fv' args' um w')
                     (fun fv' a' w' wm' Hw' => Hcl fv' a' um w' wm' Hw') name a w wm Hw) as H.
    destruct H as [Ho Hw1]. destruct (lib _ name a w) as [r1 w1]. destruct (lib _ name a wm) as [r2 w2]. cbn [fst snd] in *. subst r2.
    destruct r1; split; try reflexivity; exact Hw1.
  - destruct (weq_fields _ _ Hw) as (_ & _ & _ & Hfuns & _). rewrite Hfuns.
    destruct (nth_error (w_funs wm) id) as [fd|]; [|split; [reflexivity|exact Hw]].
    assert (Hb : fst (match fd_args fd with Some names => bind_args names (length names) 0 (fd_last fd) a w [] | None => ([], w) end) =
                 fst (match fd_args fd with Some names => bind_args names (length names) 0 (fd_last fd) a wm [] | None => ([], wm) end) /\
                 weq (snd (match fd_args fd with Some names => bind_args names (length names) 0 (fd_last fd) a w [] | None => ([], w) end))
                     (snd (match fd_args fd with Some names => bind_args names (length names) 0 (fd_last fd) a wm [] | None => ([], wm) end))).
    { destruct (fd_args fd); [apply bind_args_B; exact Hw|split; [reflexivity|exact Hw]]. }
    destruct Hb as [E1 E2].
    destruct (match fd_args fd with Some names => bind_args names (length names) 0 (fd_last fd) a w [] | None => ([], w) end) as [locals w1].
    destruct (match fd_args fd with Some names => bind_args names (length names) 0 (fd_last fd) a wm [] | None => ([], wm) end) as [locals' w1'].
    cbn [fst snd] in *. subst locals'.
    destruct (Hex (fd_body fd) 0%nat [] (Some locals) um w1 w1' E2) as (Ho & _ & Hw2).
    destruct (ex1 (fd_body fd) 0%nat [] (Some locals) um w1) as [[o1 l1] w2]. destruct (ex2 (fd_body fd) 0%nat [] (Some locals) um w1') as [[o2 l2] w2'].
    cbn [fst snd] in *. subst o2. split; [reflexivity|exact Hw2].
Qed.

Lemma weq_add_fetched w wm u : weq w wm -> weq (add_fetched w u) (add_fetched wm u).
Proof. intros H. rewrite (weq_repr _ _ H). reflexivity. Qed.
Lemma weq_add_log w wm s : weq w wm -> weq (add_log w s) (add_log wm s).
Proof. intros H. rewrite (weq_repr _ _ H). reflexivity. Qed.
Lemma weq_fold_log : forall ws w wm, weq w wm ->
  weq (fold_left (fun acc s => add_log acc (U "BareScript:     " ++ s)) ws w) (fold_left (fun acc s => add_log acc (U "BareScript:     " ++ s)) ws wm).
Proof. induction ws as [|s ws IH]; intros w wm H; cbn [fold_left]; [exact H|]. apply IH. apply weq_add_log. exact H. Qed.

Lemma run_incs_B ex1 ex2 um : exB ex1 ex2 -> forall l w wm, weq w wm ->
  fst (run_incs cfg url_rel lint_lines ex1 um l w) = fst (run_incs cfg url_rel lint_lines ex2 um l wm) /\
  weq (snd (run_incs cfg url_rel lint_lines ex1 um l w)) (snd (run_incs cfg url_rel lint_lines ex2 um l wm)).
Proof.
  intros Hex. induction l as [|[u sys] t IH]; intros w wm Hw; cbn [run_incs]; [split; [reflexivity|exact Hw]|].
  set (url := match sys, c_sysprefix cfg with true, Some p => url_rel p u | _, _ => if has_urlfn cfg um then apply_urlfn cfg url_rel um u else u end).
  destruct (c_fetch cfg) as [fetch|]; [|split; [reflexivity|exact Hw]].
  destruct (fetch url) as [txt|]; [|split; [reflexivity|apply weq_add_fetched; exact Hw]].
  destruct (parse_script [txt] 1) as [sc|pe|what|]; try (split; [reflexivity|apply weq_add_fetched; exact Hw]).
  set (w2 := if (c_debug cfg && c_haslog cfg)%bool then _ else add_fetched w url).
  set (w2' := if (c_debug cfg && c_haslog cfg)%bool then _ else add_fetched wm url).
  assert (H2 : weq w2 w2').
  { subst w2 w2'. destruct (c_debug cfg && c_haslog cfg)%bool; [|apply weq_add_fetched; exact Hw].
    destruct (lint_lines sc); [apply weq_add_fetched; exact Hw|]. apply weq_fold_log. apply weq_add_log. apply weq_add_fetched. exact Hw. }
  destruct (Hex sc 0%nat [] None (UBase url) w2 w2' H2) as (Ho & _ & Hw3).
  destruct (ex1 sc 0%nat [] None (UBase url) w2) as [[o1 l1] w3]. destruct (ex2 sc 0%nat [] None (UBase url) w2') as [[o2 l2] w3'].
  cbn [fst snd] in *. subst o2. destruct o1; try (split; [reflexivity|exact Hw3]). apply IH. exact Hw3.
Qed.

Lemma weq_tick w wm : weq w wm -> weq (upd_count w (w_count w + 1)) (upd_count wm (w_count wm + 1)).
Proof. intros H. rewrite (weq_repr _ _ H). reflexivity. Qed.
Lemma weq_upd_globals w wm g : weq w wm -> weq (upd_globals w g) (upd_globals wm g).
Proof. intros H. rewrite (weq_repr _ _ H). reflexivity. Qed.
Lemma weq_upd_funs w wm g : weq w wm -> weq (upd_funs w g) (upd_funs wm g).
Proof. intros H. rewrite (weq_repr _ _ H). reflexivity. Qed.

Lemma exec_body_B ev1 ev2 ex1 ex2 : evB ev1 ev2 -> exB ex1 ex2 ->
  exB (exec_body cfg url_rel lint_lines ev1 ex1) (exec_body cfg url_rel lint_lines ev2 ex2).
Proof.
  intros Hev Hex code pc cache loc um w wm Hw. unfold exec_body.
  destruct (nth_error code pc) as [st|]; [|split; [reflexivity|split; [reflexivity|exact Hw]]]. cbv zeta.
  rewrite Hunl. cbn [Z.ltb Z.compare andb].
  pose proof (weq_tick _ _ Hw) as Hw0.
  set (w0 := upd_count w (w_count w + 1)) in *. set (wm0 := upd_count wm (w_count wm + 1)) in *.
  destruct st as [name e|label cond|re|lname|fname fargs fasync flast fbody|incs].
  - pose proof (Hev e loc false um w0 wm0 Hw0) as H. related H.
    destruct o; try (split; [reflexivity|split; [reflexivity|exact Hwq]]).
    destruct name as [x|]; [destruct loc as [l|]|]; try (apply Hex; exact Hwq).
    destruct (weq_fields _ _ Hwq) as (Hg & _). rewrite Hg. apply Hex. apply weq_upd_globals. exact Hwq.
  - assert (Hj : forall w1 w1', weq w1 w1' -> B3
      (match assoc label cache with
       | Some ix => ex1 code (S ix) cache loc um w1
       | None => match find_label label code with
                 | Some ix => ex1 code (S ix) ((label, ix) :: cache) loc um w1
                 | None => (ORt (msg_unknown_label label), loc, w1) end end)
      (match assoc label cache with
       | Some ix => ex2 code (S ix) cache loc um w1'
       | None => match find_label label code with
                 | Some ix => ex2 code (S ix) ((label, ix) :: cache) loc um w1'
                 | None => (ORt (msg_unknown_label label), loc, w1') end end)).
    { intros w1 w1' H1. destruct (assoc label cache); [apply Hex; exact H1|].
      destruct (find_label label code); [apply Hex; exact H1|split; [reflexivity|split; [reflexivity|exact H1]]]. }
    destruct cond as [c|]; [|apply Hj; exact Hw0].
    pose proof (Hev c loc false um w0 wm0 Hw0) as H. related H.
    destruct o; try (split; [reflexivity|split; [reflexivity|exact Hwq]]).
    rewrite (truthy_weq _ _ v Hwq).
    destruct (truthy wb v); [apply Hj; exact Hwq|apply Hex; exact Hwq].
  - destruct re as [e|]; [|split; [reflexivity|split; [reflexivity|exact Hw0]]].
    pose proof (Hev e loc false um w0 wm0 Hw0) as H. related H. split; [reflexivity|split; [reflexivity|exact Hwq]].
  - apply Hex. exact Hw0.
  - destruct (weq_fields _ _ Hw0) as (Hg & _ & _ & Hfuns & _). cbn [w_globals upd_funs]. rewrite Hg, Hfuns. apply Hex.
    apply weq_upd_globals. apply weq_upd_funs. exact Hw0.
  - destruct (run_incs_B ex1 ex2 um Hex incs w0 wm0 Hw0) as [Ho Hw1].
    destruct (run_incs cfg url_rel lint_lines ex1 um incs w0) as [o1 w1]. destruct (run_incs cfg url_rel lint_lines ex2 um incs wm0) as [o2 w1'].
    cbn [fst snd] in *. subst o2. destruct o1; [split; [reflexivity|split; [reflexivity|exact Hw1]]|apply Hex; exact Hw1].
Qed.

Notation eval := (eval cfg lib url_rel lint_lines).
Notation call := (call cfg lib url_rel lint_lines).
Notation exec := (exec cfg lib url_rel lint_lines).

Theorem count_blind : forall f, evB (eval f) (eval f) /\ clB (call f) (call f) /\ exB (exec f) (exec f).
Proof.
  induction f as [|f (He & Hc & Hx)].
  - repeat split; cbn; auto.
  - split; [|split].
    + intros e loc bi um w wm Hw. rewrite !eval_S. apply eval_body_B; assumption.
    + intros fv a um w wm Hw. rewrite !call_S. apply call_body_B; assumption.
    + intros code pc cache loc um w wm Hw. rewrite !exec_S. apply exec_body_B; assumption.
Qed.

(* the premise of the C01 simulation *)
Corollary Ev_blind_holds : forall um e loc w o w' wm, Ev cfg lib url_rel lint_lines um e loc w o w' -> weq w wm ->
  exists wm', Ev cfg lib url_rel lint_lines um e loc wm o wm' /\ weq w' wm'.
Proof.
  intros um e loc w o w' wm (f & He & Hn) Hw. destruct (count_blind f) as (Hev & _ & _).
  destruct (Hev e loc false um w wm Hw) as [Ho Hw1]. rewrite He in Ho, Hw1. cbn [fst snd] in *.
  destruct (eval f e loc false um wm) as [o2 w2] eqn:E2. cbn [fst snd] in *. subst o2.
  exists w2. split; [exists f; split; [exact E2|exact Hn]|exact Hw1].
Qed.

End Blind.

(* the premise holds for the modelled library functions *)
From BS Require Import Model.LibCore.

Lemma validate_blind w k : forall specs args, validate (upd_count w k) specs args = validate w specs args.
Proof.
  induction specs as [|sp rest IH]; intros args; cbn [validate]; [reflexivity|].
  destruct args as [|a t]; rewrite ?IH; [reflexivity|]. rewrite truthy_blind. reflexivity.
Qed.

Lemma minmax_blind w k want : forall vals cur, minmax (upd_count w k) want vals cur = minmax w want vals cur.
Proof.
  induction vals as [|v t IH]; intros cur; cbn [minmax]; [reflexivity|]. destruct cur as [c|]; [|apply IH].
  unfold cmp_fuel. cbn [w_arrs w_objs upd_count]. rewrite vcompare_blind.
  destruct (vcompare _ w v c); [apply IH|reflexivity].
Qed.

Lemma libcore_blind cfg cb name args w k :
  libcore cfg cb name args (upd_count w k) = (fst (libcore cfg cb name args w), upd_count (snd (libcore cfg cb name args w)) k).
Proof.
  unfold libcore, alloc_arr, alloc_obj, get_arr, get_obj, set_arr, set_obj, cmp_fuel.
  cbn [w_arrs w_objs w_globals upd_count]. rewrite ?validate_blind, ?minmax_blind, ?vcompare_blind, ?truthy_blind. cbv beta iota.
  repeat match goal with
  | |- context [vcompare ?f (upd_count ?w0 ?k0) ?a ?b] => rewrite (vcompare_blind f w0 k0 a b)
  | |- context [if ?b then _ else _] => destruct b
  | |- context [match ?x with _ => _ end] => destruct x
  end; try reflexivity.
Qed.

Lemma libcore_count_blind cfg : lib_count_blind (libcore cfg).
Proof.
  intros cb1 cb2 _ name args w wm Hw. rewrite (weq_repr _ _ Hw). rewrite libcore_blind.
  assert (E : libcore cfg cb1 name args w = libcore cfg cb2 name args w) by reflexivity. rewrite E.
  split; [reflexivity|]. cbn [snd]. apply weq_upd.
Qed.
