(* the MODEL parser (Model/Script.v over the regenerated regexes) accepts the shipped include args.bare as it is in the
   tree now (text regenerated into Gen/Includes.v on every run); one file per include so that make -j runs them in parallel *)
From BS Require Import Model.Base Model.Script Model.Includes Gen.Inc_args.
Lemma parses_args : include_parses inc_args = true.
Proof. vm_cast_no_check (eq_refl true). Qed.
