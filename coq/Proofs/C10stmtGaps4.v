(* Proofs/C10stmtGaps4.v — INNER gaps, continued: the label line  name :.

     classify_label_shape   classify n (w1 ++ name ++ w2 ++ ":" ++ w3) = ROk (KLabel name)

   for ALL white runs w1 w2 w3 and every identifier name that is not one of  if elif else while  (label_keywords).
   The side condition is what classify's order needs: `else :` is KElse (always); `if  :`, `elif  :`, `while  :` are an
   if / elif / while whose expression text is a white run whenever w2 has a second character that is not LF (the group
   `(.+)` takes it), so these three names are excluded altogether (with w2 of at most one character they ARE labels:
   label_kw_examples).  Every other regex that classify tries before the label regex rejects the line for EVERY name:
   the assignment (the character after name and run is `:` and not `=`), function begin (no `(` in the line), the six
   keyword-only regexes `^\s*KW\s*$` (a match reads the whole line and they read no colon: rxm_only_nomatch), and
   for (`for :` has no variable name, and a longer name continues with a word character where `\s+` is required). *)
From Coq Require Import Lia.
From BS Require Import Model.Base Model.Regex Model.Num Model.NumText Model.ExprParser Model.Script Model.Lower Gen.Unicode Gen.Regexes
  Proofs.RegexFacts Proofs.RegexComplete Proofs.RegexShift Proofs.RegexEval Proofs.C02rx Proofs.C10ws Proofs.C10wsExpr
  Proofs.C10wsFull Proofs.C10wsIndent Proofs.C10wsIndent2 Proofs.C10tokSpaced Proofs.RegexTrail Proofs.C10tokTrail Proofs.RegexTrail2
  Proofs.RegexTrail3 Proofs.C10stmtTrail Proofs.C10parseNoeq Proofs.C10classifyTrail Proofs.C10stmtGaps Proofs.C10stmtGaps2
  Proofs.C10stmtGaps3.

(* ---------- a regex whose atoms read only characters with P, and that ends with `$` ---------- *)
Fixpoint Only (P : N -> Prop) (r : regex) : Prop :=
  match r with
  | RLit x => P x
  | RNotLit _ | RAny => False
  | RIn neg items => forall y, class_match UC neg items y = true -> P y
  | RCat a b | RAlt a b => Only P a /\ Only P b
  | RRep _ _ a | RGroup _ a => Only P a
  | _ => True
  end.

Lemma Matches_only P s r pos p c c' : Matches UC s r pos p c c' -> Only P r ->
  forall i, pos <= i < p -> exists y, nth_error s i = Some y /\ P y.
Proof.
  induction 1; cbn [Only]; intros O i L; try contradiction; try lia.
  - assert (i = pos) by lia. subst i. exists x. split; [exact H | exact O].
  - assert (i = pos) by lia. subst i. exists y. split; [exact H | exact (O y H0)].
  - destruct O as [O1 O2]. destruct (le_lt_dec mid i) as [G|G]; [apply IHMatches2; [exact O2 | lia] | apply IHMatches1; [exact O1 | lia]].
  - apply IHMatches; [exact (proj1 O) | exact L].
  - apply IHMatches; [exact (proj2 O) | exact L].
  - destruct (le_lt_dec mid i) as [G|G]; [apply IHMatches2; [exact O | lia] | apply IHMatches1; [exact O | lia]].
  - apply IHMatches; [exact O | exact L].
Qed.

Fixpoint ends_eol (r : regex) : bool :=
  match r with REol => true | RCat _ b => ends_eol b | _ => false end.

Lemma Matches_ends_eol s r pos p c c' : Matches UC s r pos p c c' -> ends_eol r = true ->
  p = length s \/ (S p = length s /\ nth_error s p = Some 10%N).
Proof. induction 1; cbn [ends_eol]; intros E; try discriminate; [exact H | exact (IHMatches2 E)]. Qed.

Lemma rxm_only_nomatch (P : N -> Prop) R s i y : Only P R -> ends_eol R = true -> nth_error s i = Some y -> ~ P y -> y <> 10%N ->
  rxm R s = MNo.
Proof.
  intros O E Hi NP NL. unfold rxm. apply re_match_none. intros e c M.
  assert (Li : i < length s) by (apply nth_error_Some; congruence).
  destruct (Matches_ends_eol _ _ _ _ _ _ M E) as [Ee|[Ee En]].
  - destruct (Matches_only P _ _ _ _ _ _ M O i ltac:(lia)) as (y' & Hy & Py). rewrite Hi in Hy. inversion Hy; subst. exact (NP Py).
  - destruct (Nat.eq_dec i e) as [->|NE].
    + rewrite Hi in En. inversion En. exact (NL H0).
    + destruct (Matches_only P _ _ _ _ _ _ M O i ltac:(lia)) as (y' & Hy & Py). rewrite Hi in Hy. inversion Hy; subst. exact (NP Py).
Qed.

Definition not58 (y : N) : Prop := y <> 58%N.

Lemma only_sp58 : forall y, class_match UC false [CCat CatSpace] y = true -> not58 y.
Proof. intros y H. fold cmWs in H. rewrite cmWs_is in H. intros ->. unfold is_sp in H. rewrite sp58 in H. discriminate. Qed.

Ltac only58 := cbn [Only]; repeat split; try exact only_sp58; try (intros H; discriminate H).

Lemma only_fn_end : Only not58 R_SCRIPT_FUNCTION_END. Proof. unfold R_SCRIPT_FUNCTION_END. only58. Qed.
Lemma only_if_end : Only not58 R_SCRIPT_IF_END. Proof. unfold R_SCRIPT_IF_END. only58. Qed.
Lemma only_while_end : Only not58 R_SCRIPT_WHILE_END. Proof. unfold R_SCRIPT_WHILE_END. only58. Qed.
Lemma only_for_end : Only not58 R_SCRIPT_FOR_END. Proof. unfold R_SCRIPT_FOR_END. only58. Qed.
Lemma only_break : Only not58 R_SCRIPT_BREAK. Proof. unfold R_SCRIPT_BREAK. only58. Qed.
Lemma only_continue : Only not58 R_SCRIPT_CONTINUE. Proof. unfold R_SCRIPT_CONTINUE. only58. Qed.

(* a line with a colon is none of the six keyword-only statements *)
Lemma kwonly_colon pre post :
  rxm R_SCRIPT_FUNCTION_END (pre ++ 58%N :: post) = MNo /\ rxm R_SCRIPT_IF_END (pre ++ 58%N :: post) = MNo /\
  rxm R_SCRIPT_WHILE_END (pre ++ 58%N :: post) = MNo /\ rxm R_SCRIPT_FOR_END (pre ++ 58%N :: post) = MNo /\
  rxm R_SCRIPT_BREAK (pre ++ 58%N :: post) = MNo /\ rxm R_SCRIPT_CONTINUE (pre ++ 58%N :: post) = MNo.
Proof.
  pose proof (nth_error_mid pre 58%N post) as Hi.
  assert (NP : ~ not58 58%N) by (intros H; exact (H eq_refl)).
  assert (NL : 58%N <> 10%N) by discriminate.
  repeat split.
  - exact (rxm_only_nomatch not58 _ _ _ _ only_fn_end eq_refl Hi NP NL).
  - exact (rxm_only_nomatch not58 _ _ _ _ only_if_end eq_refl Hi NP NL).
  - exact (rxm_only_nomatch not58 _ _ _ _ only_while_end eq_refl Hi NP NL).
  - exact (rxm_only_nomatch not58 _ _ _ _ only_for_end eq_refl Hi NP NL).
  - exact (rxm_only_nomatch not58 _ _ _ _ only_break eq_refl Hi NP NL).
  - exact (rxm_only_nomatch not58 _ _ _ _ only_continue eq_refl Hi NP NL).
Qed.

(* ---------- ^\s*KW tail  on a line that starts with a word ---------- *)
Lemma rxm_kw_start kw tail y t : is_sp y = false ->
  rxm (RCat RBol (RCat rsp (lits kw tail))) (y :: t) = ev UC (lits kw tail) 0 (y :: t) [] kfin.
Proof.
  intros Y. unfold rxm. rewrite re_match_ev, ev_cat, ev_bol. cbn [Nat.eqb]. rewrite ev_cat.
  unfold rsp at 1. rewrite (ev_star UC _ _ (one_in UC false _)). fold cmWs. cbn [star_bt]. rewrite cmWs_is, Y. reflexivity.
Qed.

Lemma lits_name_refuse kw tail : forallb is_word_u kw = true ->
  (forall p z t c k, is_word_u z = true -> ev UC tail p (z :: t) c k = MNo) ->
  forall name rest p c k, forallb is_word_u name = true -> hd_ok is_word_u rest -> name <> kw ->
  ev UC (lits kw tail) p (name ++ rest) c k = MNo.
Proof.
  intros KW T. induction kw as [|x kw IH]; intros name rest p c k NM HR NE.
  - cbn [lits]. destruct name as [|z n']; [congruence|]. cbn [forallb] in NM. apply andb_true_iff in NM. exact (T _ _ _ _ _ (proj1 NM)).
  - cbn [forallb] in KW. apply andb_true_iff in KW. destruct KW as [Kx KW]. cbn [lits]. rewrite ev_cat.
    rewrite (ev_one UC _ _ (one_lit UC x)). destruct name as [|a n']; cbn [app].
    + destruct rest as [|z t]; [reflexivity|]. cbn [hd_ok] in HR. destruct (z =? x)%N eqn:E; [|reflexivity].
      apply N.eqb_eq in E. subst z. congruence.
    + destruct (a =? x)%N eqn:E; [|reflexivity]. apply N.eqb_eq in E. subst a.
      cbn [forallb] in NM. apply andb_true_iff in NM. apply (IH KW); [exact (proj2 NM) | exact HR | congruence].
Qed.

Lemma plus_sp_refuses_word X p z t c k : is_word_u z = true -> ev UC (RCat plus_sp X) p (z :: t) c k = MNo.
Proof.
  intros Wz. rewrite ev_cat. unfold plus_sp. rewrite (ev_plus UC _ _ (one_in UC false _)). fold cmWs. rewrite cmWs_is.
  unfold is_sp. change (is_space UC z) with (is_space_u z). rewrite (word_not_space z Wz). reflexivity.
Qed.

Lemma TAILC_refuses_word p z t c k : is_word_u z = true -> ev UC TAILC p (z :: t) c k = MNo.
Proof.
  intros Wz. unfold TAILC. rewrite ev_cat. unfold rsp at 1. rewrite (ev_star UC _ _ (one_in UC false _)). fold cmWs. cbn [star_bt].
  rewrite cmWs_is. unfold is_sp. change (is_space UC z) with (is_space_u z). rewrite (word_not_space z Wz).
  rewrite ev_cat, (ev_one UC _ _ (one_lit UC 58)). destruct (z =? 58)%N eqn:E; [|reflexivity].
  apply N.eqb_eq in E. subst z. rewrite word58 in Wz. discriminate.
Qed.

Definition KW_ELSE : str := [101; 108; 115; 101]%N.
Definition KW_FOR : str := [102; 111; 114]%N.

Lemma shape_else : R_SCRIPT_IF_ELSE = RCat RBol (RCat rsp (lits KW_ELSE TAILC)). Proof. reflexivity. Qed.

(* the for regex behind  ^\s*for\s+  *)
Definition IDG (g : nat) : regex := RGroup g (RCat (RIn false [CRange 65 90; CRange 97 122; CLit 95]) (RRep 0 None (RIn false [CCat CatWord]))).
Definition FOR_IN : regex := RCat plus_sp (RCat (RLit 105) (RCat (RLit 110) (RCat plus_sp (RCat (RGroup 3 (RRep 1 None RAny)) TAILC)))).
Definition FOR_IX : regex := RRep 0 (Some 1) (RCat rsp (RCat (RLit 44) (RCat rsp (IDG 2)))).
Definition FORT : regex := RCat (IDG 1) (RCat FOR_IX FOR_IN).
Lemma shape_for : R_SCRIPT_FOR_BEGIN = RCat RBol (RCat rsp (lits KW_FOR (RCat plus_sp FORT))). Proof. reflexivity. Qed.

Lemma IDG_start g X p z t c k : idstart z = false -> ev UC (RCat (IDG g) X) p (z :: t) c k = MNo.
Proof.
  intros Z. unfold IDG. rewrite ev_cat, ev_group, ev_cat. rewrite (ev_one UC _ _ (one_in UC false _)). fold idstart. rewrite Z. reflexivity.
Qed.

Lemma idstart58 : idstart 58 = false. Proof. vm_compute. reflexivity. Qed.

(* `for <run> : ...` : no variable name *)
Lemma for_colon_nomatch p w2 w3 c k : white w2 -> ev UC (RCat plus_sp FORT) p (w2 ++ 58%N :: w3) c k = MNo.
Proof.
  intros W2. rewrite ev_cat. unfold plus_sp. rewrite (ev_plus UC _ _ (one_in UC false _)). fold cmWs.
  destruct w2 as [|z2 w2']; cbn [app].
  - rewrite cmWs_is. unfold is_sp. rewrite sp58. reflexivity.
  - destruct (white_cons _ _ W2) as [S2 W2']. rewrite cmWs_is. unfold is_sp at 1. rewrite S2.
    rewrite star_bt_longest.
    + rewrite span_cmWs, (span_sp_stop w2' 58 w3 W2' sp58). cbn [fst snd]. unfold FORT. apply IDG_start. exact idstart58.
    + right. intros q z t c' Sz. rewrite cmWs_is in Sz. unfold FORT. apply IDG_start. exact (idstart_not_space z Sz).
Qed.

(* ====================================================== label *)
Definition label_keywords : list str := [[105; 102]; [101; 108; 105; 102]; KW_ELSE; [119; 104; 105; 108; 101]]%N.

Lemma idstart_word y : idstart y = true -> is_word_u y = true.
Proof.
  intros H. destruct (idstart_ascii y H) as [A|[A|A]]; unfold is_word_u, is_word.
  - assert (L : (y <? 128)%N = true) by (apply N.ltb_lt; lia). rewrite L.
    assert (E1 : (65 <=? y)%N = true) by (apply N.leb_le; lia). assert (E2 : (y <=? 90)%N = true) by (apply N.leb_le; lia).
    rewrite E1, E2. cbn [andb orb]. rewrite orb_true_r. reflexivity.
  - assert (L : (y <? 128)%N = true) by (apply N.ltb_lt; lia). rewrite L.
    assert (E1 : (97 <=? y)%N = true) by (apply N.leb_le; lia). assert (E2 : (y <=? 122)%N = true) by (apply N.leb_le; lia).
    rewrite E1, E2. cbn [andb orb]. rewrite !orb_true_r. reflexivity.
  - subst y. reflexivity.
Qed.

Theorem rxm_label_shape w1 y nm w2 w3 : white w1 -> idstart y = true -> forallb is_word_u nm = true -> white w2 -> white w3 ->
  rxm R_SCRIPT_LABEL (w1 ++ y :: nm ++ w2 ++ 58%N :: w3)
  = MYes (length w1 + 1 + length nm + length w2 + 1 + length w3) (cap_set 1 (length w1, length w1 + 1 + length nm) []).
Proof.
  intros W1 Y NM W2 W3. unfold rxm. rewrite re_match_ev, (ev_cut_at 3 _ _ _ cut_label).
  assert (H1 : hd_ok is_word_u (w2 ++ 58%N :: w3)).
  { destruct w2 as [|z w2']; cbn [app hd_ok]; [exact word58|]. destruct (white_cons _ _ W2) as [S _]. exact (space_not_word z S). }
  etransitivity.
  - apply (A_assign_read w1 y nm w2 (58%N :: w3) (fun p r c => ev UC T_label p r c kfin) W1 Y NM W2 H1 sp58).
    intros q z t c Hz. rewrite kL_read. destruct (z =? 58)%N eqn:E; [|reflexivity]. apply N.eqb_eq in E. subst z.
    destruct Hz as [Hz|Hz]; [unfold is_sp in Hz; rewrite sp58 in Hz | rewrite word58 in Hz]; discriminate.
  - cbv beta. rewrite kL_read, N.eqb_refl. rewrite ev_eol_tail, (white_forallb_sp w3 W3). f_equal. lia.
Qed.

Theorem classify_label_shape n w1 name w2 w3 : white w1 -> white w2 -> white w3 -> ident name = true ->
  ~ In name label_keywords -> classify n (w1 ++ name ++ w2 ++ 58%N :: w3) = ROk (KLabel name).
Proof.
  intros W1 W2 W3 ID NK. apply classify_indent_all; [exact W1 | reflexivity|].
  destruct name as [|y nm]; [discriminate|]. cbn [ident] in ID. apply andb_true_iff in ID. destruct ID as [Y NM].
  assert (Ysp : is_sp y = false).
  { destruct (is_sp y) eqn:E; [|reflexivity]. unfold is_sp in E. rewrite (idstart_not_space y E) in Y. discriminate. }
  assert (NMW : forallb is_word_u (y :: nm) = true) by (cbn [forallb]; rewrite (idstart_word y Y), NM; reflexivity).
  assert (HR : hd_ok is_word_u (w2 ++ 58%N :: w3)).
  { destruct w2 as [|z w2']; cbn [app hd_ok]; [exact word58|]. destruct (white_cons _ _ W2) as [S _]. exact (space_not_word z S). }
  set (line := (y :: nm) ++ w2 ++ 58%N :: w3).
  assert (EA : rxm R_SCRIPT_ASSIGNMENT line = MNo).
  { pose proof (rxm_assign_read [] y nm w2 (58%N :: w3) white_nil Y NM W2 HR sp58) as H. cbn [app] in H. subst line. cbn [app].
    rewrite H. rewrite kA_read. reflexivity. }
  assert (N40 : ~ In 40%N line).
  { subst line. intros I. apply in_app_or in I. destruct I as [I|I].
    - rewrite forallb_forall in NMW. specialize (NMW _ I). rewrite word40 in NMW. discriminate.
    - apply in_app_or in I. destruct I as [I|[I|I]]; [| discriminate I |].
      + pose proof (W2 _ I) as S. rewrite sp40 in S. discriminate.
      + pose proof (W3 _ I) as S. rewrite sp40 in S. discriminate. }
  assert (EB : rxm R_SCRIPT_FUNCTION_BEGIN line = MNo).
  { unfold rxm. apply (re_match_req_missing UC line R_SCRIPT_FUNCTION_BEGIN 40%N); [vm_compute; tauto | exact N40]. }
  destruct (kwonly_colon ((y :: nm) ++ w2) w3) as (E1 & E5 & E7 & E9 & E10 & E11).
  rewrite <- app_assoc in E1, E5, E7, E9, E10, E11. fold line in E1, E5, E7, E9, E10, E11.
  assert (E2 : rxm R_SCRIPT_IF_BEGIN line = MNo).
  { rewrite shape_if. unfold kwc_re. subst line. cbn [app]. rewrite rxm_kw_start by exact Ysp.
    apply (lits_name_refuse [105; 102]%N _ eq_refl (plus_sp_refuses_word _) (y :: nm) _ 0 [] kfin NMW HR).
    intros E. apply NK. rewrite E. left. reflexivity. }
  assert (E3 : rxm R_SCRIPT_IF_ELSE_IF line = MNo).
  { rewrite shape_elif. unfold kwc_re. subst line. cbn [app]. rewrite rxm_kw_start by exact Ysp.
    apply (lits_name_refuse [101; 108; 105; 102]%N _ eq_refl (plus_sp_refuses_word _) (y :: nm) _ 0 [] kfin NMW HR).
    intros E. apply NK. rewrite E. right. left. reflexivity. }
  assert (E4 : rxm R_SCRIPT_IF_ELSE line = MNo).
  { rewrite shape_else. subst line. cbn [app]. rewrite rxm_kw_start by exact Ysp.
    apply (lits_name_refuse KW_ELSE _ eq_refl TAILC_refuses_word (y :: nm) _ 0 [] kfin NMW HR).
    intros E. apply NK. rewrite E. right. right. left. reflexivity. }
  assert (E6 : rxm R_SCRIPT_WHILE_BEGIN line = MNo).
  { rewrite shape_while. unfold kwc_re. subst line. cbn [app]. rewrite rxm_kw_start by exact Ysp.
    apply (lits_name_refuse [119; 104; 105; 108; 101]%N _ eq_refl (plus_sp_refuses_word _) (y :: nm) _ 0 [] kfin NMW HR).
    intros E. apply NK. rewrite E. right. right. right. left. reflexivity. }
  assert (E8 : rxm R_SCRIPT_FOR_BEGIN line = MNo).
  { rewrite shape_for. subst line. cbn [app]. rewrite rxm_kw_start by exact Ysp.
    destruct (list_eq_dec N.eq_dec (y :: nm) KW_FOR) as [E|NE].
    - change (y :: nm ++ w2 ++ 58%N :: w3) with ((y :: nm) ++ w2 ++ 58%N :: w3). rewrite E. rewrite ev_lits.
      apply for_colon_nomatch. exact W2.
    - exact (lits_name_refuse KW_FOR _ eq_refl (plus_sp_refuses_word _) (y :: nm) _ 0 [] kfin NMW HR NE). }
  assert (EL : rxm R_SCRIPT_LABEL line
               = MYes (length (@nil N) + 1 + length nm + length w2 + 1 + length w3) (cap_set 1 (0, 0 + 1 + length nm) [])).
  { exact (rxm_label_shape [] y nm w2 w3 white_nil Y NM W2 W3). }
  assert (G1 : gtext line (cap_set 1 (0, 0 + 1 + length nm) []) R_SCRIPT_LABEL__name = y :: nm).
  { unfold gtext, group_text. change R_SCRIPT_LABEL__name with 1. cbn [cap_get cap_set Nat.eqb].
    replace (0 + 1 + length nm - 0) with (length (y :: nm)) by (cbn [length]; lia).
    subst line. exact (sub_list_at [] (y :: nm) (w2 ++ 58%N :: w3)). }
  unfold classify. rewrite EA, EB, E1, E2, E3, E4, E5, E6, E7, E8, E9, E10, E11, EL, G1. reflexivity.
Qed.

(* the three excluded names with at most one separating character are labels all the same; with two they are not *)
Lemma label_kw_examples :
  classify 1 (U "if :") = ROk (KLabel (U "if")) /\ classify 1 (U "while:") = ROk (KLabel (U "while")) /\
  classify 1 (U "elif : ") = ROk (KLabel (U "elif")) /\
  classify 1 (U "else :") = ROk KElse /\ classify 1 (U "endif :") = ROk (KLabel (U "endif")) /\
  classify 1 (U "for :") = ROk (KLabel (U "for")) /\ classify 1 (U "function :") = ROk (KLabel (U "function")) /\
  (exists e, classify 1 (U "if  :") = RErr e).
Proof. repeat split; try (vm_compute; reflexivity). eexists. vm_compute. reflexivity. Qed.
