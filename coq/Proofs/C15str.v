(* Proofs/C15str.v — C15, strings: the model's transliterated Python string algorithms (str.find / rfind / split / replace /
   strip / startswith / endswith, s * n) compute the plain list specifications of Proofs/C15spec2.v. *)
From Coq Require Import Lia.
From BS Require Import Model.Base Model.Num Model.LibVal Model.LibSeq Proofs.BaseFacts Proofs.C15 Proofs.C15spec Proofs.C15spec2.
Local Open Scope nat_scope.

(* ====================================================================== list facts *)
Lemma find_map : forall {A B} (g : A -> B) (P : B -> bool) l, find P (map g l) = option_map g (find (fun x => P (g x)) l).
Proof. induction l as [|x l IH]; simpl; [reflexivity|]. destruct (P (g x)); [reflexivity|exact IH]. Qed.
Lemma find_app' : forall {A} (P : A -> bool) l1 l2, find P (l1 ++ l2) = match find P l1 with Some x => Some x | None => find P l2 end.
Proof. induction l1 as [|x l1 IH]; intros; simpl; [reflexivity|]. destruct (P x); auto. Qed.
Lemma find_ext_in : forall {A} (P Q : A -> bool) l, (forall x, In x l -> P x = Q x) -> find P l = find Q l.
Proof.
  induction l as [|x l IH]; intros H; simpl; [reflexivity|]. rewrite (H x (or_introl eq_refl)).
  destruct (Q x); [reflexivity|]. apply IH. intros y I. apply H. right. exact I.
Qed.
Lemma find_none_all : forall {A} (P : A -> bool) l, (forall x, In x l -> P x = false) -> find P l = None.
Proof. induction l as [|x l IH]; intros H; simpl; [reflexivity|]. rewrite (H x (or_introl eq_refl)). apply IH. intros; apply H; right; auto. Qed.
Lemma skipn_skipn' : forall {A} x y (l : list A), skipn x (skipn y l) = skipn (x + y) l.
Proof.
  induction y as [|y IH]; intros l; [rewrite Nat.add_0_r; reflexivity|].
  rewrite Nat.add_succ_r. destruct l as [|a t]; [rewrite !skipn_nil; reflexivity|]. simpl. apply IH.
Qed.
Lemma seq_offset : forall n a, seq a n = map (fun k => a + k) (seq 0 n).
Proof.
  induction n as [|n IH]; intros a; simpl; [reflexivity|]. rewrite Nat.add_0_r. f_equal.
  rewrite <- (seq_shift n 0), map_map, (IH (S a)). apply map_ext. intros; lia.
Qed.

(* ====================================================================== prefixes and suffixes *)
Lemma str_prefix_iff : forall p s, str_prefix p s = true <-> exists t, s = p ++ t.
Proof.
  induction p as [|x p IH]; intros s; simpl.
  - split; eauto.
  - destruct s as [|y s].
    + split; [discriminate | intros [t H]; discriminate].
    + rewrite andb_true_iff, N.eqb_eq, IH. split.
      * intros [-> [t ->]]. eauto.
      * intros [t H]. inv H. eauto.
Qed.
Lemma starts_with_iff : forall p s, starts_with p s = true <-> exists t, s = p ++ t.
Proof.
  unfold starts_with. intros. rewrite str_eqb_eq. split.
  - intros H. exists (skipn (length p) s). pose proof (firstn_skipn (length p) s) as E. rewrite H in E. symmetry. exact E.
  - intros [t ->]. rewrite firstn_app, Nat.sub_diag, firstn_all. simpl. apply app_nil_r.
Qed.
Lemma str_prefix_starts : forall p s, str_prefix p s = starts_with p s.
Proof. intros. apply Bool.eq_true_iff_eq. rewrite str_prefix_iff, starts_with_iff. reflexivity. Qed.

Lemma ends_with_iff : forall p s, ends_with p s = true <-> exists t, s = t ++ p.
Proof.
  unfold ends_with. intros. rewrite andb_true_iff, Nat.leb_le, str_eqb_eq. split.
  - intros [L H]. exists (firstn (length s - length p) s).
    pose proof (firstn_skipn (length s - length p) s) as E. rewrite H in E. symmetry. exact E.
  - intros [t ->]. rewrite app_length. split; [lia|].
    replace (length t + length p - length p) with (length t) by lia.
    rewrite skipn_app, skipn_all, Nat.sub_diag. reflexivity.
Qed.
Lemma str_suffix_ends : forall p s, str_suffix p s = ends_with p s.
Proof.
  intros. apply Bool.eq_true_iff_eq. unfold str_suffix. rewrite str_prefix_iff, ends_with_iff. split.
  - intros [t H]. exists (rev t). apply (f_equal (@rev N)) in H. rewrite rev_involutive, rev_app_distr, rev_involutive in H. exact H.
  - intros [t ->]. exists (rev t). apply rev_app_distr.
Qed.

(* ====================================================================== str.find *)
Lemma find_from_spec : forall sub t pos,
  find_from sub t pos = option_map (fun k => pos + k) (find (fun k => str_prefix sub (skipn k t)) (seq 0 (S (length t)))).
Proof.
  induction t as [|c t IH]; intros pos.
  - simpl. destruct (str_prefix sub []); simpl; [rewrite Nat.add_0_r|]; reflexivity.
  - cbn [find_from length]. change (seq 0 (S (S (length t)))) with (0 :: seq 1 (S (length t))). cbn [find skipn].
    destruct (str_prefix sub (c :: t)); [simpl; rewrite Nat.add_0_r; reflexivity|].
    rewrite IH, <- seq_shift, find_map. cbn [skipn].
    destruct (find _ (seq 0 (S (length t)))); simpl; [f_equal; lia|reflexivity].
Qed.

Lemma occurs_at_shift : forall sub s st k, st + k <= length s ->
  occurs_at sub s (st + k) = str_prefix sub (skipn k (skipn st s)).
Proof.
  intros. unfold occurs_at. replace (st + k <=? length s) with true by (symmetry; apply Nat.leb_le; lia).
  rewrite skipn_skipn', str_prefix_starts, (Nat.add_comm k st). reflexivity.
Qed.

Lemma find_from_first_occ : forall sub s st, st <= length s ->
  find_from sub (skipn st s) st = first_occ sub s st.
Proof.
  intros sub s st L. rewrite find_from_spec. unfold first_occ. rewrite skipn_length.
  replace (S (length s) - st) with (S (length s - st)) by lia.
  rewrite (seq_offset (S (length s - st)) st), find_map. f_equal.
  apply find_ext_in. intros k I. apply in_seq in I. symmetry. apply occurs_at_shift. lia.
Qed.

Lemma py_find_spec : forall sub s z, (0 <= z < len s)%Z -> py_find sub s z = pos_or_minus1 (first_occ sub s (Z.to_nat z)).
Proof.
  intros sub s z H. unfold len in H. unfold py_find. rewrite py_bound_in_range by lia.
  replace (Z.of_nat (length s) <? z)%Z with false by lia.
  rewrite find_from_first_occ by lia. reflexivity.
Qed.

(* ====================================================================== str.rfind *)
Lemma rfind_from_spec : forall sub t pos best,
  rfind_from sub t pos best
  = match find (fun k => str_prefix sub (skipn k t)) (rev (seq 0 (S (length t)))) with Some k => Some (pos + k) | None => best end.
Proof.
  induction t as [|c t IH]; intros pos best.
  - simpl. destruct (str_prefix sub []); [rewrite Nat.add_0_r|]; reflexivity.
  - cbn [rfind_from length]. rewrite IH.
    change (seq 0 (S (S (length t)))) with (0 :: seq 1 (S (length t))). cbn [rev].
    rewrite find_app', <- seq_shift, <- map_rev, find_map. cbn [skipn].
    destruct (find _ (rev (seq 0 (S (length t))))); simpl; [f_equal; lia|].
    destruct (str_prefix sub (c :: t)); [rewrite Nat.add_0_r|]; reflexivity.
Qed.

(* an occurrence inside the window s[0 : E] at a position k <= z, when E = min (z + |sub|, |s|) *)
Lemma window_occurrence : forall sub s z E k, E <= length s -> E <= z + length sub -> (z + length sub <= E \/ E = length s) ->
  k <= z -> k <= E -> str_prefix sub (skipn k (firstn E s)) = occurs_at sub s k.
Proof.
  intros sub s z E k L1 L2 L3 Kz KE. unfold occurs_at.
  replace (k <=? length s) with true by (symmetry; apply Nat.leb_le; lia). cbn [andb].
  apply Bool.eq_true_iff_eq. rewrite str_prefix_iff, starts_with_iff. split.
  - intros [t H]. exists (t ++ skipn E s).
    rewrite <- (firstn_skipn E s) at 1. rewrite skipn_app, firstn_length, H.
    replace (k - Nat.min E (length s)) with 0 by lia. simpl. rewrite app_assoc. reflexivity.
  - intros [t H]. assert (Len : length s - k = length sub + length t) by (rewrite <- skipn_length, H, app_length; reflexivity).
    rewrite skipn_firstn_comm, H, firstn_app, (firstn_all2 sub) by lia. eauto.
Qed.
Lemma window_no_occurrence : forall sub s z E k, E <= z + length sub -> z < k -> k <= E ->
  str_prefix sub (skipn k (firstn E s)) = false.
Proof.
  intros sub s z E k L2 Kz KE. destruct (str_prefix sub (skipn k (firstn E s))) eqn:P; [|reflexivity].
  apply str_prefix_iff in P. destruct P as [t H]. apply (f_equal (@length N)) in H.
  rewrite skipn_length, firstn_length, app_length in H. lia.
Qed.

Lemma py_rfind0_spec : forall sub s z, (0 <= z < len s)%Z ->
  py_rfind0 sub s (z + len sub) = pos_or_minus1 (last_occ sub s (Z.to_nat z)).
Proof.
  intros sub s z H. unfold len in *. unfold py_rfind0, last_occ.
  set (E := py_bound (length s) (z + Z.of_nat (length sub))).
  assert (HE : E = Nat.min (Z.to_nat z + length sub) (length s)).
  { unfold E, py_bound. cbv zeta. replace (z + Z.of_nat (length sub) <? 0)%Z with false by lia. cbv iota.
    replace (z + Z.of_nat (length sub) <? 0)%Z with false by lia.
    destruct (Z.ltb_spec (Z.of_nat (length s)) (z + Z.of_nat (length sub))); lia. }
  set (z' := Z.to_nat z) in *.
  rewrite rfind_from_spec. rewrite firstn_length. replace (Nat.min E (length s)) with E by lia.
  replace (S E) with (S z' + (E - z')) by lia. rewrite seq_app, rev_app_distr, find_app'.
  rewrite find_none_all.
  2:{ intros k I. apply in_rev, in_seq in I. apply (window_no_occurrence sub s z'); lia. }
  rewrite (find_ext_in _ (occurs_at sub s)).
  2:{ intros k I. apply in_rev, in_seq in I. apply (window_occurrence sub s z'); lia. }
  destruct (find _ _); reflexivity.
Qed.

(* the empty string with the index omitted (index = length - 1 = -1): position 0 is the only candidate *)
Lemma py_rfind0_empty : forall sub, py_rfind0 sub [] (-1 + len sub) = pos_or_minus1 (last_occ sub [] 0).
Proof.
  intros sub. unfold py_rfind0, last_occ. rewrite firstn_nil. simpl.
  unfold occurs_at. simpl. rewrite str_prefix_starts. destruct (starts_with sub []); reflexivity.
Qed.

(* ====================================================================== s * n *)
Lemma repeat_str_concat : forall s n, repeat_str s n = concat (repeat s n).
Proof. induction n; simpl; [reflexivity|]. rewrite IHn. reflexivity. Qed.

(* ====================================================================== str.split (non-empty separator) *)
Lemma first_occ_nil : forall sep, sep <> [] -> first_occ sep [] 0 = None.
Proof. intros [|x sep] H; [congruence|reflexivity]. Qed.
Lemma first_occ_here : forall sep c t, str_prefix sep (c :: t) = true -> first_occ sep (c :: t) 0 = Some 0.
Proof.
  intros sep c t P. unfold first_occ. cbn [length Nat.sub seq find]. unfold occurs_at. cbn [Nat.leb skipn andb].
  rewrite <- str_prefix_starts, P. reflexivity.
Qed.
Lemma first_occ_later : forall sep c t, str_prefix sep (c :: t) = false ->
  first_occ sep (c :: t) 0 = option_map S (first_occ sep t 0).
Proof.
  intros sep c t P. unfold first_occ. cbn [length Nat.sub]. change (seq 0 (S (S (length t)))) with (0 :: seq 1 (S (length t))).
  cbn [find]. unfold occurs_at at 1. cbn [Nat.leb skipn andb]. rewrite <- str_prefix_starts, P.
  rewrite <- seq_shift, find_map. reflexivity.
Qed.

Lemma split_spec_fuel : forall sep, sep <> [] -> forall f1 f2 s, length s <= f1 -> length s <= f2 ->
  split_spec f1 sep s = split_spec f2 sep s.
Proof.
  intros sep NE. assert (L : 1 <= length sep) by (destruct sep; [congruence|simpl; lia]).
  induction f1 as [|a IH]; intros f2 s H1 H2.
  - destruct s; [|simpl in H1; lia]. destruct f2; simpl; [reflexivity|]. rewrite first_occ_nil by exact NE. reflexivity.
  - destruct f2 as [|b].
    + destruct s; [|simpl in H2; lia]. simpl. rewrite first_occ_nil by exact NE. reflexivity.
    + simpl. destruct (first_occ sep s 0) as [i|]; [|reflexivity]. f_equal. apply IH; rewrite skipn_length; lia.
Qed.

Lemma split_go_skip : forall sep t cur k, split_go sep t cur k = split_go sep (skipn k t) cur 0.
Proof. induction t as [|c t IH]; intros cur k; [destruct k; reflexivity|]. destruct k; [reflexivity|]. simpl. apply IH. Qed.

Definition glue (p : str) (l : list str) : list str := match l with x :: r => (p ++ x) :: r | [] => [p] end.
Lemma split_spec_cons : forall f sep s, exists x r, split_spec f sep s = x :: r.
Proof. intros. destruct f; simpl; [eauto|]. destruct (first_occ sep s 0); eauto. Qed.

Lemma split_go_spec : forall sep, sep <> [] -> forall f s cur, length s <= f ->
  split_go sep s cur 0 = glue (rev cur) (split_spec f sep s).
Proof.
  intros sep NE. induction f as [|f IH]; intros s cur L.
  - destruct s; [|simpl in L; lia]. simpl. rewrite app_nil_r. reflexivity.
  - destruct s as [|c t].
    + simpl. rewrite first_occ_nil by exact NE. simpl. rewrite app_nil_r. reflexivity.
    + simpl in L. cbn [split_go split_spec]. destruct (str_prefix sep (c :: t)) eqn:P.
      * rewrite (first_occ_here _ _ _ P). cbn [firstn glue Nat.add]. rewrite app_nil_r. f_equal.
        rewrite split_go_skip, IH by (rewrite skipn_length; lia).
        destruct sep as [|x sep']; [congruence|]. cbn [length skipn].
        replace (S (length sep') - 1) with (length sep') by lia.
        destruct (split_spec_cons f (x :: sep') (skipn (length sep') t)) as (y & r & ->). reflexivity.
      * rewrite (first_occ_later _ _ _ P), IH by lia. cbn [rev].
        destruct f as [|g].
        { destruct t; [|simpl in L; lia]. rewrite first_occ_nil by exact NE. simpl. rewrite <- app_assoc. reflexivity. }
        cbn [split_spec]. destruct (first_occ sep t 0) as [j|]; cbn [option_map glue].
        -- cbn [firstn skipn Nat.add]. rewrite <- app_assoc. cbn [app]. f_equal.
           assert (1 <= length sep) by (destruct sep; [congruence|simpl; lia]).
           apply (split_spec_fuel sep NE g (S g) (skipn (j + length sep) t)); rewrite skipn_length; lia.
        -- rewrite <- app_assoc. reflexivity.
Qed.

Theorem py_split_spec : forall s sep, sep <> [] -> py_split s sep = split_on sep s.
Proof.
  intros s sep NE. unfold py_split, split_on. rewrite (split_go_spec sep NE (length s)) by lia.
  destruct (split_spec_cons (length s) sep s) as (y & r & ->). reflexivity.
Qed.

(* ====================================================================== str.replace *)
Lemma replace_empty_old : forall (new s : str), new ++ flat_map (fun c => c :: new) s = concat (map (fun c => new ++ [c]) s) ++ new.
Proof.
  intros new. induction s as [|c t IH]; simpl; [apply app_nil_r|].
  rewrite IH, <- !app_assoc. reflexivity.
Qed.
Theorem py_replace_spec : forall s old new, py_replace s old new = replace_all s old new.
Proof.
  intros s old new. destruct old as [|x old'].
  - apply replace_empty_old.
  - rewrite replace_is_split_join, py_split_spec by discriminate. reflexivity.
Qed.

(* ====================================================================== str.strip *)
Lemma lstrip_drop_white : forall s, lstrip s = drop_white s.
Proof. induction s as [|c t IH]; simpl; [reflexivity|]. rewrite IH. reflexivity. Qed.
Theorem strip_trim : forall s, strip s = trim s.
Proof. intros. unfold strip, rstrip, trim. rewrite !lstrip_drop_white. reflexivity. Qed.

(* ====================================================================== what the specifications mean (sanity of the SPEC itself) *)
(* first_occ returns the least position >= from at which sub occurs *)
Lemma find_seq_least : forall (P : nat -> bool) n a i, find P (seq a n) = Some i ->
  a <= i < a + n /\ P i = true /\ forall j, a <= j < i -> P j = false.
Proof.
  induction n as [|n IH]; intros a i H; simpl in H; [discriminate|].
  destruct (P a) eqn:Pa.
  - inv H. repeat split; try lia. exact Pa.
  - apply IH in H. destruct H as (R & Pi & Lt). repeat split; try lia; [exact Pi|].
    intros j Hj. destruct (Nat.eq_dec j a) as [->|N]; [exact Pa | apply Lt; lia].
Qed.
Lemma find_seq_none : forall (P : nat -> bool) n a, find P (seq a n) = None -> forall j, a <= j < a + n -> P j = false.
Proof.
  induction n as [|n IH]; intros a H j Hj; simpl in *; [lia|].
  destruct (P a) eqn:Pa; [discriminate|]. destruct (Nat.eq_dec j a) as [->|N]; [exact Pa | apply (IH (S a)); [exact H|lia]].
Qed.
Theorem first_occ_least : forall sub s from i, first_occ sub s from = Some i ->
  from <= i <= length s /\ (exists t, skipn i s = sub ++ t) /\ forall j, from <= j < i -> ~ exists t, skipn j s = sub ++ t.
Proof.
  unfold first_occ. intros sub s from i H. apply find_seq_least in H. destruct H as (R & Pi & Lt).
  unfold occurs_at in Pi. apply andb_true_iff in Pi. destruct Pi as [_ Pi]. apply starts_with_iff in Pi.
  split; [lia|]. split; [exact Pi|]. intros j Hj X. specialize (Lt j Hj). unfold occurs_at in Lt.
  apply starts_with_iff in X. rewrite X, andb_true_r in Lt. apply Nat.leb_gt in Lt. lia.
Qed.
Theorem first_occ_none : forall sub s from, first_occ sub s from = None ->
  forall j, from <= j <= length s -> ~ exists t, skipn j s = sub ++ t.
Proof.
  unfold first_occ. intros sub s from H j Hj X. pose proof (find_seq_none _ _ _ H j ltac:(lia)) as F.
  unfold occurs_at in F. apply starts_with_iff in X. rewrite X, andb_true_r in F. apply Nat.leb_gt in F. lia.
Qed.
(* trim: white code points dropped at both ends, nothing else *)
Lemma drop_white_split : forall s, exists a, s = a ++ drop_white s /\ forallb U_space a = true
  /\ match drop_white s with c :: _ => U_space c = false | [] => True end.
Proof.
  induction s as [|c t IH]; simpl.
  - exists []. auto.
  - destruct (U_space c) eqn:W.
    + destruct IH as (a & E & A & F). exists (c :: a). simpl. rewrite W, A. split; [f_equal; exact E | auto].
    + exists []. auto.
Qed.
Theorem trim_sound : forall s, exists a b, s = a ++ trim s ++ b /\ forallb U_space a = true /\ forallb U_space b = true
  /\ match trim s with c :: _ => U_space c = false | [] => True end
  /\ match rev (trim s) with c :: _ => U_space c = false | [] => True end.
Proof.
  intros s. unfold trim. destruct (drop_white_split s) as (a & E1 & A & F1).
  destruct (drop_white_split (rev (drop_white s))) as (b & E2 & B & F2).
  set (u := drop_white (rev (drop_white s))) in *.
  assert (E3 : drop_white s = rev u ++ rev b).
  { apply (f_equal (@rev N)) in E2. rewrite rev_involutive, rev_app_distr in E2. exact E2. }
  exists a, (rev b). split; [rewrite <- E3; exact E1|]. split; [exact A|]. split.
  - rewrite forallb_forall in *. intros x I. apply B. apply in_rev. exact I.
  - split; [|rewrite rev_involutive; exact F2].
    destruct (rev u) as [|c r] eqn:R; [exact I|]. rewrite E3 in F1. exact F1.
Qed.
