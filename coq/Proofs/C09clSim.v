(* Proofs/C09clSim.v — along the closure invariant (Proofs/C09clInv.v) a run with the combined library libfull2 IS the run
   with the guarded library libfull2g (Proofs/C09termClosure.v), for which the termination clause is proved in every world.

   The two towers are compared with DIFFERENT depth-0 answers: the guarded tower T answers the budget-style error
   [ORt poison] at depth 0, the unguarded tower U answers an arbitrary [bot] (which may be a forged closure, so nothing can be
   said about U after it consulted depth 0).  By induction on the fuel, from every well-formed state:

       T's answer is ORt poison   \/   (U's answer = T's answer  /\  the answer is well-formed again).

   ORt poison passes through every construct of the interpreter and through arraySort and the closure call unchanged, so
   the left case is inherited upward.  At a fuel where T has settled to an answer r that does not depend on its depth-0 answer,
   choosing poison different from r excludes the left case: U's answer is r, whatever U's bot.

   Library part: arraySort (the list being permuted and the stop reason are carried along the growing hidden set), the
   closure call (the guard holds by the invariant), systemPartial and LibCore (Proofs/C09clLib.v); the lifted functions
   (lift_seq, libmore) enter through the two premises [seq_pres], [more_pres]. *)
From Coq Require Import List Lia ZArith Bool NArith.
From BS Require Import Model.Base Model.Num Model.Arith Model.ExprParser Model.Script Model.Interp Model.LibCore Model.LibCall
                       Model.LibMore Model.LibAll Model.LibPartial Gen.Library
                       Proofs.BaseFacts Proofs.InterpEq Proofs.C09 Proofs.C09term Proofs.LibAll Proofs.C09termClosure
                       Proofs.C09clInv Proofs.C09clLib.
Import ListNotations.

(* the premises on the lifted functions: they preserve the invariant (unary; they do not call back) *)
Definition seq_pres : Prop := forall cfg H name args w, wf H w -> Forall (val_ok H (nA w)) args -> GoodL H w (lift_seq cfg name args w).
Definition more_pres : Prop := forall cfg H name args w, wf H w -> Forall (val_ok H (nA w)) args -> GoodL H w (libmore cfg name args w).

Lemma Forall_firstn' {A} (P : A -> Prop) n : forall l, Forall P l -> Forall P (firstn n l).
Proof. induction n as [|n IH]; intros l F; [constructor|]. destruct F; cbn; constructor; auto. Qed.
Lemma Forall_skipn' {A} (P : A -> Prop) n : forall l, Forall P l -> Forall P (skipn n l).
Proof. induction n as [|n IH]; intros l F; [exact F|]. destruct F; cbn; [constructor|auto]. Qed.

Section Sim.
Variable poison : str.

Definition R2 (H : hid) (w : world) (rT rU : outcome * world) : Prop := fst rT = ORt poison \/ (rU = rT /\ Good2 H w rT).
Definition R3 (H : hid) (w : world) (rT rU : xres) : Prop := fst (fst rT) = ORt poison \/ (rU = rT /\ Good3 H w rT).
Definition RL (H : hid) (w : world) (rT rU : lres * world) : Prop := fst rT = LRt poison \/ (rU = rT /\ GoodL H w rT).

Definition cbR (cbT cbU : caller) : Prop :=
  forall H fv a w, wf H w -> val_ok H (nA w) fv -> Forall (val_ok H (nA w)) a -> R2 H w (cbT fv a w) (cbU fv a w).

Lemma Good2_ext H w H1 w1 r : ext H (nA w) H1 (nA w1) -> Good2 H1 w1 r -> Good2 H w r.
Proof. intros E (H2 & E2 & W & O). exists H2. split; [eapply ext_trans; eassumption|split; assumption]. Qed.
Lemma Good3_ext H w H1 w1 r : ext H (nA w) H1 (nA w1) -> Good3 H1 w1 r -> Good3 H w r.
Proof. intros E (H2 & E2 & W & O). exists H2. split; [eapply ext_trans; eassumption|split; assumption]. Qed.
Lemma GoodL_ext H w H1 w1 r : ext H (nA w) H1 (nA w1) -> GoodL H1 w1 r -> GoodL H w r.
Proof. intros E (H2 & E2 & W & O). exists H2. split; [eapply ext_trans; eassumption|split; assumption]. Qed.
Lemma R2_ext H w H1 w1 a b : ext H (nA w) H1 (nA w1) -> R2 H1 w1 a b -> R2 H w a b.
Proof. intros E [P|[Q G]]; [left; exact P|right; split; [exact Q|eapply Good2_ext; eassumption]]. Qed.
Lemma R3_ext H w H1 w1 a b : ext H (nA w) H1 (nA w1) -> R3 H1 w1 a b -> R3 H w a b.
Proof. intros E [P|[Q G]]; [left; exact P|right; split; [exact Q|eapply Good3_ext; eassumption]]. Qed.
Lemma RL_ext H w H1 w1 a b : ext H (nA w) H1 (nA w1) -> RL H1 w1 a b -> RL H w a b.
Proof. intros E [P|[Q G]]; [left; exact P|right; split; [exact Q|eapply GoodL_ext; eassumption]]. Qed.

(* ======================= arraySort ======================= *)
Section SortSim.
Variables (H0 : hid) (n0 : nat).
Notation okk := (val_ok H0 n0).

(* the state while sorting: a later hidden set, a well-formed world, a well-formed stop reason *)
Definition StR (r : option lres) (w : world) : Prop :=
  exists H', ext H0 n0 H' (nA w) /\ wf H' w /\ match r with Some r => lres_ok H' (nA w) r | None => True end.
Definition stop_c (c : cres) : option lres := match c with CStop r => Some r | CLt _ => None end.
Definition stop_s (s : nat + lres) : option lres := match s with inr r => Some r | inl _ => None end.

Lemma StR_None r w : StR r w -> StR None w.
Proof. intros (H' & E & W & _). exists H'. auto. Qed.

Variables iT iU : isltT.
Hypothesis Hislt : forall x y w, okk x -> okk y -> StR None w ->
  fst (iT x y w) = CStop (LRt poison) \/ (iU x y w = iT x y w /\ StR (stop_c (fst (iT x y w))) (snd (iT x y w))).

Lemma run_ext_sim desc : forall rest prev n w, Forall okk rest -> okk prev -> StR None w ->
  fst (run_ext iT desc prev rest n w) = inr (LRt poison) \/
  (run_ext iU desc prev rest n w = run_ext iT desc prev rest n w /\
   StR (stop_s (fst (run_ext iT desc prev rest n w))) (snd (run_ext iT desc prev rest n w))).
Proof.
  induction rest as [|x t IH]; intros prev n w F Hp S; cbn [run_ext]; [right; split; [reflexivity|exact S]|].
  apply Forall_cons_iff in F. destruct F as [Hx Ft].
  destruct (Hislt x prev w Hx Hp S) as [P|[E S1]].
  - left. destruct (iT x prev w) as [c w1]. cbn in P. subst c. reflexivity.
  - rewrite E. destruct (iT x prev w) as [c w1]. cbn [fst snd] in S1. destruct c as [b|r]; cbn [stop_c] in S1.
    + destruct (Bool.eqb b desc); [apply IH; assumption|right; split; [reflexivity|exact S1]].
    + right. split; [reflexivity|exact S1].
Qed.

Lemma bsearch_sim : forall fuel pivot pre l r w, okk pivot -> Forall okk pre -> StR None w ->
  fst (bsearch iT fuel pivot pre l r w) = inr (LRt poison) \/
  (bsearch iU fuel pivot pre l r w = bsearch iT fuel pivot pre l r w /\
   StR (stop_s (fst (bsearch iT fuel pivot pre l r w))) (snd (bsearch iT fuel pivot pre l r w))).
Proof.
  induction fuel as [|f IH]; intros pivot pre l r w Hp F S; cbn [bsearch]; [right; split; [reflexivity|exact S]|].
  destruct (Nat.ltb l r); [|right; split; [reflexivity|exact S]].
  set (p := (l + Nat.div2 (r - l))%nat).
  assert (Hn : okk (nth p pre VNull)) by (apply nth_ok; exact F).
  destruct (Hislt pivot (nth p pre VNull) w Hp Hn S) as [P|[E S1]].
  - left. destruct (iT pivot (nth p pre VNull) w) as [c w1]. cbn in P. subst c. reflexivity.
  - rewrite E. destruct (iT pivot (nth p pre VNull) w) as [c w1]. cbn [fst snd] in S1. destruct c as [[|]|r0]; cbn [stop_c] in S1.
    + apply IH; assumption.
    + apply IH; assumption.
    + right. split; [reflexivity|exact S1].
Qed.

Lemma binsort_sim : forall todo sorted w, Forall okk todo -> Forall okk sorted -> StR None w ->
  snd (fst (binsort iT sorted todo w)) = Some (LRt poison) \/
  (binsort iU sorted todo w = binsort iT sorted todo w /\
   StR (snd (fst (binsort iT sorted todo w))) (snd (binsort iT sorted todo w)) /\
   Forall okk (fst (fst (binsort iT sorted todo w)))).
Proof.
  induction todo as [|pivot t IH]; intros sorted w Ft Fs S; cbn [binsort]; [right; split; [reflexivity|split; [exact S|exact Fs]]|].
  apply Forall_cons_iff in Ft. destruct Ft as [Hp Ft].
  destruct (bsearch_sim (Datatypes.S (length sorted)) pivot sorted 0 (length sorted) w Hp Fs S) as [P|[E S1]].
  - left. destruct (bsearch iT (Datatypes.S (length sorted)) pivot sorted 0 (length sorted) w) as [[pos|r] w1]; cbn in P; [discriminate|].
    injection P as ->. reflexivity.
  - rewrite E. destruct (bsearch iT (Datatypes.S (length sorted)) pivot sorted 0 (length sorted) w) as [[pos|r] w1]; cbn [fst snd stop_s] in S1.
    + apply IH; [exact Ft| |exact S1]. apply Forall_app. split; [apply Forall_firstn'; exact Fs|].
      constructor; [exact Hp|apply Forall_skipn'; exact Fs].
    + right. split; [reflexivity|]. split; [exact S1|]. cbn [fst]. apply Forall_app. split; [exact Fs|constructor; assumption].
Qed.

Lemma small_sort_sim xs w : Forall okk xs -> StR None w ->
  snd (fst (small_sort iT xs w)) = Some (LRt poison) \/
  (small_sort iU xs w = small_sort iT xs w /\
   StR (snd (fst (small_sort iT xs w))) (snd (small_sort iT xs w)) /\
   Forall okk (fst (fst (small_sort iT xs w)))).
Proof.
  intros F S. unfold small_sort. destruct xs as [|x0 [|x1 rest]]; try (right; split; [reflexivity|split; [exact S|exact F]]).
  pose proof F as F'. apply Forall_cons_iff in F'. destruct F' as [H0' F']. apply Forall_cons_iff in F'. destruct F' as [H1' Fr].
  destruct (Hislt x1 x0 w H1' H0' S) as [P|[E S1]].
  - left. destruct (iT x1 x0 w) as [c w1]. cbn in P. subst c. reflexivity.
  - rewrite E. destruct (iT x1 x0 w) as [c w1]. cbn [fst snd] in S1. destruct c as [desc|r]; cbn [stop_c] in S1.
    2:{ right. split; [reflexivity|]. split; [exact S1|exact F]. }
    destruct (run_ext_sim desc rest x1 2 w1 Fr H1' S1) as [P|[E2 S2]].
    + left. destruct (run_ext iT desc x1 rest 2 w1) as [[n|r] w2]; cbn in P; [discriminate|]. injection P as ->. reflexivity.
    + rewrite E2. destruct (run_ext iT desc x1 rest 2 w1) as [[n|r] w2]; cbn [fst snd stop_s] in S2.
      * apply binsort_sim; [apply Forall_skipn'; exact F| |exact S2].
        destruct desc; [apply Forall_rev|]; apply Forall_firstn'; exact F.
      * right. split; [reflexivity|]. split; [exact S2|exact F].
Qed.
End SortSim.

Lemma snd_islt_cb cb f x y w : snd (islt_cb cb f x y w) = snd (cb f [x; y] w).
Proof. unfold islt_cb. destruct (cb f [x; y] w) as [o w1]. destruct o as [v| | | | |]; try reflexivity. destruct v; reflexivity. Qed.

Lemma islt_cb_sim H0 n0 cbT cbU f : cbR cbT cbU -> val_ok H0 n0 f ->
  forall x y w, val_ok H0 n0 x -> val_ok H0 n0 y -> StR H0 n0 None w ->
  fst (islt_cb cbT f x y w) = CStop (LRt poison) \/
  (islt_cb cbU f x y w = islt_cb cbT f x y w /\ StR H0 n0 (stop_c (fst (islt_cb cbT f x y w))) (snd (islt_cb cbT f x y w))).
Proof.
  intros Hcb Hf x y w Hx Hy (H1 & E1 & W1 & _).
  assert (A : Forall (val_ok H1 (nA w)) [x; y]) by (repeat constructor; eapply val_ok_mono; eassumption).
  destruct (Hcb H1 f [x; y] w W1 (val_ok_mono _ _ _ _ _ E1 Hf) A) as [P|[E G]].
  - left. unfold islt_cb. destruct (cbT f [x; y] w) as [o w1]. cbn in P. subst o. reflexivity.
  - right. unfold islt_cb. rewrite E. split; [reflexivity|].
    destruct (cbT f [x; y] w) as [o w1]. destruct G as (H2 & E2 & W2 & O2). cbn [fst snd] in *.
    assert (S : forall r, lres_ok H2 (nA w1) r -> StR H0 n0 (Some r) w1).
    { intros r Hr. exists H2. split; [eapply ext_trans; eassumption|split; assumption]. }
    assert (N : StR H0 n0 None w1) by (exists H2; split; [eapply ext_trans; eassumption|split; [assumption|exact I]]).
    destruct o as [v| | | | |]; cbn [fst snd stop_c].
    1:{ destruct v; cbn [fst snd stop_c]; try exact N; apply S; exact I. }
    all: try (apply S; exact O2); try (apply S; exact I).
Qed.

Lemma islt_cmp_sim H0 n0 x y w : StR H0 n0 None w ->
  fst (islt_cmp x y w) = CStop (LRt poison) \/
  (islt_cmp x y w = islt_cmp x y w /\ StR H0 n0 (stop_c (fst (islt_cmp x y w))) (snd (islt_cmp x y w))).
Proof.
  intros S. right. split; [reflexivity|]. unfold islt_cmp. destruct (vcompare (cmp_fuel w) w x y) as [[| |]|]; cbn; exact S.
Qed.

Lemma StR_set_arr H0 n0 r w l xs : StR H0 n0 r w -> val_ok H0 n0 (VArr l) -> Forall (val_ok H0 n0) xs -> StR H0 n0 r (set_arr w l xs).
Proof.
  intros (H1 & E1 & W1 & R1) Hl F. exists H1. rewrite nA_set_arr. split; [exact E1|]. split; [|exact R1].
  pose proof (val_ok_mono _ _ _ _ _ E1 Hl) as [_ Hn]. apply wf_set_arr; [exact W1|exact Hn|eapply vals_ok_mono; eassumption].
Qed.

Lemma StR_GoodL H w r w1 : StR H (nA w) (Some r) w1 -> GoodL H w (r, w1).
Proof. intros (H1 & E1 & W1 & R1). exists H1. cbn [fst snd]. auto. Qed.
Lemma StR_GoodL_none H w r w1 : StR H (nA w) None w1 -> (forall H1, lres_ok H1 (nA w1) r) -> GoodL H w (r, w1).
Proof. intros (H1 & E1 & W1 & _) R. exists H1. cbn [fst snd]. auto. Qed.

Theorem lib_sort_sim cfg cbT cbU : cbR cbT cbU ->
  forall H args w, wf H w -> Forall (val_ok H (nA w)) args -> RL H w (lib_sort cfg cbT args w) (lib_sort cfg cbU args w).
Proof.
  intros Hcb H args w Hw Hargs. unfold lib_sort.
  assert (Same : forall r, lres_ok H (nA w) r -> RL H w (r, w) (r, w)).
  { intros r Hr. right. split; [reflexivity|apply goodL_id; assumption]. }
  destruct (validate w [A TArray; AFunN] args) as [va| |] eqn:Ev; try (apply Same; exact I).
  apply (validate_ok _ _ _ _ _ Hargs) in Ev.
  destruct va as [|[a0|] va]; try (apply Same; exact I).
  destruct a0 as [| | | | |l| | |]; try (apply Same; exact I).
  destruct va as [|[f|] va]; try (apply Same; exact I).
  destruct va; try (apply Same; exact I).
  inv_ok.
  match goal with X : val_ok H (nA w) (VArr l) |- _ => rename X into Hl end.
  match goal with X : val_ok H (nA w) f |- _ => rename X into Hf end.
  assert (S0 : StR H (nA w) None w) by (exists H; split; [apply ext_refl|split; [exact Hw|exact I]]).
  pose proof (wf_get_arr H w l Hw) as Fxs.
  assert (Hpure : RL H w
    (match small_sort islt_cmp (get_arr w l) w with
     | (cur, None, w1) => (LVal (VArr l), set_arr w1 l cur) | (cur, Some r, w1) => (r, set_arr w1 l cur) end)
    (match small_sort islt_cmp (get_arr w l) w with
     | (cur, None, w1) => (LVal (VArr l), set_arr w1 l cur) | (cur, Some r, w1) => (r, set_arr w1 l cur) end)).
  { destruct (small_sort_sim H (nA w) islt_cmp islt_cmp (fun x y w' _ _ S => islt_cmp_sim H (nA w) x y w' S) (get_arr w l) w Fxs S0)
      as [P|(_ & S1 & Fc)].
    - left. destruct (small_sort islt_cmp (get_arr w l) w) as [[cur s] w1]. cbn in P. subst s. reflexivity.
    - right. split; [reflexivity|]. destruct (small_sort islt_cmp (get_arr w l) w) as [[cur s] w1]. cbn [fst snd] in *.
      destruct s as [r|].
      + apply StR_GoodL. apply StR_set_arr; assumption.
      + apply StR_GoodL. apply StR_set_arr; try assumption.
        destruct S1 as (H1 & E1 & W1 & _). exists H1. split; [exact E1|split; [exact W1|]]. exact (val_ok_mono _ _ _ _ (VArr l) E1 Hl). }
  assert (Hcall : RL H w
    (if Nat.leb 64 (length (get_arr w l)) then (LOracle, w) else
     match small_sort (islt_cb cbT f) (get_arr w l) (set_arr w l []) with
     | (cur, Some r, w1) => match r with LRaise _ => if c_debug cfg then (LOracle, w1) else (r, set_arr w1 l cur) | _ => (r, set_arr w1 l cur) end
     | (cur, None, w1) => if is_nil (get_arr w1 l) then (LVal (VArr l), set_arr w1 l cur)
                          else if c_debug cfg then (LOracle, w1) else (LRaise (U "list modified during sort"), set_arr w1 l cur)
     end)
    (if Nat.leb 64 (length (get_arr w l)) then (LOracle, w) else
     match small_sort (islt_cb cbU f) (get_arr w l) (set_arr w l []) with
     | (cur, Some r, w1) => match r with LRaise _ => if c_debug cfg then (LOracle, w1) else (r, set_arr w1 l cur) | _ => (r, set_arr w1 l cur) end
     | (cur, None, w1) => if is_nil (get_arr w1 l) then (LVal (VArr l), set_arr w1 l cur)
                          else if c_debug cfg then (LOracle, w1) else (LRaise (U "list modified during sort"), set_arr w1 l cur)
     end)).
  { destruct (Nat.leb 64 (length (get_arr w l))); [apply Same; exact I|].
    assert (S0' : StR H (nA w) None (set_arr w l [])) by (apply StR_set_arr; [exact S0|exact Hl|constructor]).
    destruct (small_sort_sim H (nA w) (islt_cb cbT f) (islt_cb cbU f) (islt_cb_sim H (nA w) cbT cbU f Hcb Hf) (get_arr w l) (set_arr w l []) Fxs S0')
      as [P|(E & S1 & Fc)].
    - left. destruct (small_sort (islt_cb cbT f) (get_arr w l) (set_arr w l [])) as [[cur s] w1]. cbn in P. subst s. reflexivity.
    - right. rewrite E. split; [reflexivity|].
      destruct (small_sort (islt_cb cbT f) (get_arr w l) (set_arr w l [])) as [[cur s] w1]. cbn [fst snd] in *.
      assert (SL : StR H (nA w) (Some (LVal (VArr l))) w1).
      { destruct S1 as (H1 & E1 & W1 & _). exists H1. split; [exact E1|split; [exact W1|exact (val_ok_mono _ _ _ _ (VArr l) E1 Hl)]]. }
      assert (SR : forall m, StR H (nA w) (Some (LRaise m)) w1).
      { intros m. destruct S1 as (H1 & E1 & W1 & _). exists H1. split; [exact E1|split; [exact W1|exact I]]. }
      assert (SO : StR H (nA w) (Some LOracle) w1).
      { destruct S1 as (H1 & E1 & W1 & _). exists H1. split; [exact E1|split; [exact W1|exact I]]. }
      destruct s as [r|].
      + destruct r; try (apply StR_GoodL; apply StR_set_arr; assumption).
        destruct (c_debug cfg); [apply StR_GoodL; exact SO|apply StR_GoodL; apply StR_set_arr; assumption].
      + destruct (is_nil (get_arr w1 l)); [apply StR_GoodL; apply StR_set_arr; assumption|].
        destruct (c_debug cfg); [apply StR_GoodL; exact SO|apply StR_GoodL; apply StR_set_arr; [apply SR|assumption|assumption]]. }
  destruct f; try exact Hcall. exact Hpure.
Qed.

(* ======================= the closure call ======================= *)
Lemma lres_of_outcome_poison w1 : fst (lres_of_outcome (ORt poison, w1)) = LRt poison.
Proof. reflexivity. Qed.

Lemma GoodL_of_Good2 H w r : Good2 H w r -> GoodL H w (lres_of_outcome r).
Proof.
  intros (H1 & E1 & W1 & O1). exists H1. destruct r as [o w1]. cbn [fst snd] in *.
  destruct o; cbn [lres_of_outcome fst snd]; auto.
Qed.

Theorem partial_call_sim cbT cbU : cbR cbT cbU ->
  forall H l extra w, wf H w -> H l -> Forall (val_ok H (nA w)) extra ->
  RL H w (lib_partial_call cbT l extra w) (lib_partial_call cbU l extra w).
Proof.
  intros Hcb H l extra w Hw Hl Hx. unfold lib_partial_call.
  pose proof (wf_get_arr H w l Hw) as F. destruct (get_arr w l) as [|f bound].
  - right. split; [reflexivity|apply goodL_id; [exact Hw|exact I]].
  - apply Forall_cons_iff in F. destruct F as [Hf Fb].
    assert (A : Forall (val_ok H (nA w)) (bound ++ extra)) by (apply Forall_app; split; assumption).
    destruct (Hcb H f (bound ++ extra) w Hw Hf A) as [P|[E G]].
    + left. destruct (cbT f (bound ++ extra) w) as [o w1]. cbn in P. subst o. reflexivity.
    + right. rewrite E. split; [reflexivity|apply GoodL_of_Good2; exact G].
Qed.

(* ======================= the combined library ======================= *)
Section LibSim.
Hypothesis Hseq : seq_pres.
Hypothesis Hmore : more_pres.

Definition LibSim (libT libU : caller -> str -> list value -> world -> lres * world) : Prop :=
  forall cbT cbU, cbR cbT cbU ->
  forall H name args w, wf H w -> fn_ok H (FLib name) -> Forall (val_ok H (nA w)) args ->
  RL H w (libT cbT name args w) (libU cbU name args w).

Theorem libfull2_sim cfg : LibSim (libfull2g cfg) (libfull2 cfg).
Proof.
  intros cbT cbU Hcb H name args w Hw Hn Hargs. unfold libfull2g, libfull2.
  assert (Same : forall r, GoodL H w r -> RL H w r r) by (intros r G; right; split; [reflexivity|exact G]).
  destruct (op_is name "systemPartial"); [apply Same; apply partial_new_pres; assumption|].
  cbn [fn_ok] in Hn. destruct (partial_loc name) as [l|] eqn:Pl.
  - rewrite (wf_closure_ok H w l Hw Hn). apply partial_call_sim; assumption.
  - rewrite !libfull_unfold.
    destruct (text_override name args); [apply Same; apply Hmore; assumption|].
    destruct (str_mem name core_names); [apply Same; apply libcore_pres; assumption|].
    destruct (op_is name "arraySort"); [apply lib_sort_sim; assumption|].
    destruct (str_mem name Q.modelled_functions); [apply Same; apply Hseq; assumption|].
    destruct (str_mem name more_names); [apply Same; apply Hmore; assumption|].
    apply Same. apply goodL_id; [exact Hw|exact I].
Qed.
End LibSim.

End Sim.
