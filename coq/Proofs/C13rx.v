(* Proofs/C13rx.v — the two "pins" of C13 as THEOREMS about the regex engine, for every text:

     cleanup_rx_is_cleanup   re_sub (R_NUMBER_CLEANUP regenerated, through Model/Regex.v) deletes exactly what the
                             direct function [cleanup] deletes:   cleanup_rx s = Some (cleanup s)
     lit_match_rx_is_lit     re_match on the regenerated _R_EXPR_NUMBER answers what the direct recogniser
                             [lit_match] answers:                 lit_match_rx s = Some (lit_match s)
                             (and the full engine answer: end position + the capture table [(1, (start, end))]).

   Route: Proofs/RegexEval.v (the engine with the fuel it is given = the fuel-free evaluator [ev]); then [ev] on the
   regenerated regex VALUE is unfolded clause by clause and the greedy repeats are analysed by star_bt_longest.
   Both theorems are stated about the generated constants: if value.py / parser.py change the pattern, the proofs break. *)
From Coq Require Import Lia.
From BS Require Import Model.Base Model.Num Model.Regex Model.NumText Gen.Unicode Gen.Regexes
  Proofs.RegexFacts Proofs.RegexComplete Proofs.RegexShift Proofs.RegexEval Proofs.NumLit Proofs.C13.

(* ================================================================== A.  \.0*$  under re.sub *)
Definition is0 (y : N) : bool := (y =? 48)%N.
Definition k_eol : kont := fun p r' c' => ev UC REol p r' c' kfin.

Lemma k_eol_zero q y t c' : is0 y = true -> k_eol q (y :: t) c' = MNo.
Proof. unfold is0, k_eol. intros H. apply N.eqb_eq in H. subst. destruct t; reflexivity. Qed.

Lemma span0_cons c t : span is0 (c :: t) = if (c =? 48)%N then (S (fst (span is0 t)), snd (span is0 t)) else (O, c :: t).
Proof. cbn [span]. unfold is0 at 1. destruct (c =? 48)%N; [|reflexivity]. destruct (span is0 t); reflexivity. Qed.

Lemma zte_some : forall t tail, zeros_to_end t = Some tail -> snd (span is0 t) = tail /\ (tail = [] \/ tail = [10%N]).
Proof.
  induction t as [|c t IH]; intros tail H.
  - cbn in H. inversion H. split; [reflexivity | left; reflexivity].
  - rewrite zeros_to_end_cons in H. rewrite span0_cons. destruct (c =? 48)%N eqn:E.
    + cbn [snd]. apply IH. exact H.
    + destruct (c =? 10)%N eqn:E2; [|discriminate]. apply N.eqb_eq in E2. subst c.
      destruct t; [|discriminate]. inversion H. split; [reflexivity | right; reflexivity].
Qed.

Lemma zte_none : forall t q c, zeros_to_end t = None -> k_eol q (snd (span is0 t)) c = MNo.
Proof.
  induction t as [|c t IH]; intros q c0 H; [discriminate|].
  rewrite zeros_to_end_cons in H. rewrite span0_cons. destruct (c =? 48)%N eqn:E.
  - cbn [snd]. apply IH. exact H.
  - cbn [snd]. unfold k_eol. rewrite ev_eol. destruct t as [|z t].
    + destruct (c =? 10)%N; [discriminate | reflexivity].
    + reflexivity.
Qed.

(* the engine's answer for the clean-up pattern at any position of any text *)
Lemma ev_cleanup pos rest :
  ev UC R_NUMBER_CLEANUP pos rest [] kfin =
  match rest with
  | y :: t => if (y =? 46)%N then
                match zeros_to_end t with
                | Some tail => MYes (S pos + fst (span is0 t)) []
                | None => MNo
                end
              else MNo
  | [] => MNo
  end.
Proof.
  rewrite cleanup_regex_pin. rewrite ev_cat. rewrite (ev_one UC _ _ (one_lit UC 46)).
  destruct rest as [|y t]; [reflexivity|]. destruct (y =? 46)%N; [|reflexivity].
  rewrite ev_cat. rewrite (ev_star UC _ _ (one_lit UC 48)). fold is0. fold k_eol.
  rewrite star_bt_longest by (right; intros q z t' c' Hz; apply k_eol_zero; exact Hz).
  destruct (zeros_to_end t) as [tail|] eqn:Z.
  - destruct (zte_some t tail Z) as [-> [T|T]]; rewrite T; reflexivity.
  - apply zte_none. exact Z.
Qed.

Lemma cleanup_tail tail : tail = [] \/ tail = [10%N] -> cleanup tail = tail.
Proof. intros [->| ->]; reflexivity. Qed.

Lemma sub_cleanup whole : forall f rest pos, length rest < f -> length rest <= length whole ->
  re_sub_from UC R_NUMBER_CLEANUP (fun _ => []) whole f pos rest = Some (cleanup rest).
Proof.
  induction f as [|f IH]; intros rest pos Lf Lw; [lia|].
  cbn [re_sub_from]. rewrite m_at_ev by exact Lw. rewrite ev_cleanup.
  destruct rest as [|y t]; [reflexivity|]. cbn [cleanup]. cbn [length] in Lf, Lw.
  destruct (y =? 46)%N.
  - destruct (zeros_to_end t) as [tail|] eqn:Z.
    + destruct (zte_some t tail Z) as [Sp T].
      assert (Hlt : Nat.ltb pos (S pos + fst (span is0 t)) = true) by (apply Nat.ltb_lt; lia).
      rewrite Hlt. replace (S pos + fst (span is0 t) - pos) with (S (fst (span is0 t))) by lia.
      cbn [skipn]. rewrite <- span_skipn. rewrite Sp.
      pose proof (span_length is0 t) as SL. rewrite Sp in SL.
      rewrite IH by lia. rewrite (cleanup_tail tail T). reflexivity.
    + rewrite IH by lia. reflexivity.
  - rewrite IH by lia. reflexivity.
Qed.

Theorem cleanup_rx_is_cleanup s : cleanup_rx s = Some (cleanup s).
Proof. unfold cleanup_rx, re_sub. apply sub_cleanup; lia. Qed.

(* ================================================================== B.  ^\s*([+-]?\d+(?:\.\d* )?(?:e[+-]\d+)?)  under re.match *)
Definition cmS : N -> bool := class_match UC false [CLit 43%N; CLit 45%N].
Definition cmD : N -> bool := class_match UC false [CCat CatDigit].
Definition cmW : N -> bool := class_match UC false [CCat CatSpace].
Definition rSG : regex := RIn false [CLit 43%N; CLit 45%N].
Definition rDG : regex := RIn false [CCat CatDigit].
Definition rFRAC : regex := RRep 0 (Some 1) (RCat (RLit 46%N) (RRep 0 None rDG)).
Definition rEXP : regex := RRep 0 (Some 1) (RCat (RLit 101%N) (RCat rSG (RRep 1 None rDG))).
Definition rBODY : regex := RCat (RRep 0 (Some 1) rSG) (RCat (RRep 1 None rDG) (RCat rFRAC rEXP)).

Lemma number_regex_shape : R_EXPR_NUMBER = RCat RBol (RCat (RRep 0 None (RIn false [CCat CatSpace])) (RGroup 1 rBODY)).
Proof. reflexivity. Qed.

Lemma cmS_is y : cmS y = ((y =? 43) || (y =? 45))%N.
Proof. unfold cmS, class_match. rewrite Bool.xorb_false_l. cbn [existsb item_match]. rewrite orb_false_r. reflexivity. Qed.
Lemma cmD_is y : cmD y = is_digit_u y.
Proof. unfold cmD, class_match, is_digit_u. rewrite Bool.xorb_false_l. cbn [existsb item_match cat_match]. rewrite orb_false_r. reflexivity. Qed.
Lemma cmW_is y : cmW y = is_space_u y.
Proof. unfold cmW, class_match, is_space_u. rewrite Bool.xorb_false_l. cbn [existsb item_match cat_match]. rewrite orb_false_r. reflexivity. Qed.

Lemma span_p_span p : forall s, span_p p s = span p s.
Proof. induction s as [|y t IH]; [reflexivity|]. cbn [span_p span]. destruct (p y); [|reflexivity]. rewrite <- IH. reflexivity. Qed.
Lemma spanD s : span cmD s = span_p is_digit_u s.
Proof. change (span cmD s = span is_digit_u s). apply span_ext. exact cmD_is. Qed.
Lemma spanW s : span cmW s = span_p is_space_u s.
Proof. change (span cmW s = span is_space_u s). apply span_ext. exact cmW_is. Qed.

Lemma space_not_digit_u y : is_space_u y = true -> is_digit_u y = false.
Proof.
  unfold is_space_u, is_digit_u. intros S. destruct (is_digit UC y) eqn:D; [|reflexivity]. exfalso.
  destruct (isdig_facts y D) as [S' _]. change (U_space y) with (is_space UC y) in S'. congruence.
Qed.
Lemma space_not_sign y : is_space_u y = true -> cmS y = false.
Proof.
  intros S. rewrite cmS_is. destruct (y =? 43)%N eqn:E1; [apply N.eqb_eq in E1; subst; discriminate|].
  destruct (y =? 45)%N eqn:E2; [apply N.eqb_eq in E2; subst; discriminate|]. reflexivity.
Qed.
Lemma sign_not_digit y : cmS y = true -> cmD y = false.
Proof.
  rewrite cmS_is, cmD_is. intros H. apply orb_true_iff in H. destruct H as [H|H]; apply N.eqb_eq in H; subst; reflexivity.
Qed.

(* matches on character literals as tests *)
Lemma match46 {A} (r : str) (f : str -> A) (d : A) :
  match r with 46%N :: t => f t | _ => d end = match r with y :: t => if (y =? 46)%N then f t else d | [] => d end.
Proof.
  destruct r as [|y t]; [reflexivity|]. destruct (y =? 46)%N eqn:E; [apply N.eqb_eq in E; subst; reflexivity|].
  destruct y as [|p]; [reflexivity|]. do 7 (try destruct p as [p|p|]); try reflexivity; discriminate.
Qed.
Lemma match101 {A} (r : str) (f : N -> str -> A) (d : A) :
  match r with 101%N :: sg :: t => f sg t | _ => d end =
  match r with y :: sg :: t => if (y =? 101)%N then f sg t else d | _ => d end.
Proof.
  destruct r as [|y [|sg t]]; [reflexivity| |].
  - destruct y as [|p]; [reflexivity|]. do 8 (try destruct p as [p|p|]); reflexivity.
  - destruct (y =? 101)%N eqn:E; [apply N.eqb_eq in E; subst; reflexivity|].
    destruct y as [|p]; [reflexivity|]. do 8 (try destruct p as [p|p|]); try reflexivity; discriminate.
Qed.

(* the pieces of lit_match *)
Definition sign_len (s1 : str) : nat * str :=
  match s1 with c :: t => if ((c =? 43) || (c =? 45))%N then (1, t) else (O, s1) | [] => (O, s1) end.
Definition frac_len (s3 : str) : nat * str :=
  match s3 with 46%N :: t => let '(n, r) := span_p is_digit_u t in (S n, r) | _ => (O, s3) end.
Definition exp_len (s4 : str) : nat :=
  match s4 with
  | 101%N :: sg :: t =>
      if ((sg =? 43) || (sg =? 45))%N then
        match span_p is_digit_u t with (O, _) => O | (n, _) => S (S n) end
      else O
  | _ => O
  end.
Definition lit_body (s1 : str) : option nat :=
  let '(nsg, s2) := sign_len s1 in
  let '(ni, s3) := span_p is_digit_u s2 in
  match ni with
  | O => None
  | _ => let '(nf, s4) := frac_len s3 in Some (nsg + ni + nf + exp_len s4)
  end.

Lemma lit_match_body s :
  lit_match s = let '(nsp, s1) := span_p is_space_u s in option_map (fun n => (nsp, nsp + n)) (lit_body s1).
Proof.
  unfold lit_match, lit_body. destruct (span_p is_space_u s) as [nsp s1].
  fold (sign_len s1). destruct (sign_len s1) as [nsg s2]. destruct (span_p is_digit_u s2) as [ni s3].
  destruct ni as [|ni]; [reflexivity|]. fold (frac_len s3). destruct (frac_len s3) as [nf s4]. fold (exp_len s4).
  cbn [option_map]. f_equal. f_equal. lia.
Qed.

(* continuation of group 1 opened at position a: the match ends here *)
Definition kg (a : nat) : kont := fun p _ c => MYes p (cap_set 1 (a, p) c).

(* (?:e[+-]\d+)?  then the end *)
Lemma ev_exp a q r c : ev UC rEXP q r c (kg a) = MYes (q + exp_len r) (cap_set 1 (a, q + exp_len r) c).
Proof.
  unfold rEXP. rewrite ev_opt. rewrite ev_cat. rewrite (ev_one UC _ _ (one_lit UC 101)).
  unfold exp_len. rewrite match101.
  destruct r as [|y r]; [unfold kg; rewrite Nat.add_0_r; reflexivity|].
  destruct (y =? 101)%N.
  2:{ destruct r; unfold kg; rewrite Nat.add_0_r; reflexivity. }
  rewrite ev_cat. unfold rSG at 1. rewrite (ev_one UC _ _ (one_in UC false _)). fold cmS.
  destruct r as [|sg t]; [unfold kg; rewrite Nat.add_0_r; reflexivity|].
  rewrite <- cmS_is. destruct (cmS sg); [|unfold kg; rewrite Nat.add_0_r; reflexivity].
  unfold rDG. rewrite (ev_plus UC _ _ (one_in UC false _)). fold cmD.
  rewrite <- spanD. destruct t as [|d t']; [unfold kg; cbn [span]; rewrite Nat.add_0_r; reflexivity|].
  cbn [span]. destruct (cmD d); [|unfold kg; rewrite Nat.add_0_r; reflexivity].
  rewrite star_bt_longest.
  - destruct (span cmD t') as [n r'] eqn:Es. cbn [fst snd].
    assert (N : Nat.eqb (S (S (S q)) + n) q = false) by (apply Nat.eqb_neq; lia). rewrite N.
    unfold kg. replace (S (S (S q)) + n) with (q + S (S (S n))) by lia. reflexivity.
  - left. assert (N : Nat.eqb (S (S (S q)) + fst (span cmD t')) q = false) by (apply Nat.eqb_neq; lia). rewrite N.
    unfold kg. discriminate.
Qed.

(* (?:\.\d* )? (?:e[+-]\d+)?  then the end *)
Lemma ev_frac_exp a q r c :
  ev UC (RCat rFRAC rEXP) q r c (kg a) =
  MYes (q + fst (frac_len r) + exp_len (snd (frac_len r))) (cap_set 1 (a, q + fst (frac_len r) + exp_len (snd (frac_len r))) c).
Proof.
  rewrite ev_cat. unfold rFRAC. rewrite ev_opt. rewrite ev_cat. rewrite (ev_one UC _ _ (one_lit UC 46)).
  unfold frac_len. rewrite match46.
  destruct r as [|y t]; [cbn [fst snd]; rewrite ev_exp; replace (q + 0) with q by lia; reflexivity|].
  destruct (y =? 46)%N; [|cbn [fst snd]; rewrite ev_exp; replace (q + 0) with q by lia; reflexivity].
  unfold rDG. rewrite (ev_star UC _ _ (one_in UC false _)). fold cmD. rewrite <- spanD.
  rewrite star_bt_longest.
  - destruct (span cmD t) as [n r'] eqn:Es. cbn [fst snd].
    assert (N : Nat.eqb (S q + n) q = false) by (apply Nat.eqb_neq; lia). rewrite N.
    rewrite ev_exp. replace (S q + n) with (q + S n) by lia. reflexivity.
  - left. assert (N : Nat.eqb (S q + fst (span cmD t)) q = false) by (apply Nat.eqb_neq; lia). rewrite N.
    rewrite ev_exp. discriminate.
Qed.

(* \d+ (?:\.\d* )? (?:e[+-]\d+)?  then the end *)
Definition int_body (s2 : str) : option nat :=
  let '(ni, s3) := span_p is_digit_u s2 in
  match ni with O => None | _ => Some (ni + fst (frac_len s3) + exp_len (snd (frac_len s3))) end.

Lemma ev_int a q r c :
  ev UC (RCat (RRep 1 None rDG) (RCat rFRAC rEXP)) q r c (kg a) =
  match int_body r with Some n => MYes (q + n) (cap_set 1 (a, q + n) c) | None => MNo end.
Proof.
  rewrite ev_cat. unfold rDG at 1. rewrite (ev_plus UC _ _ (one_in UC false _)). fold cmD.
  unfold int_body. rewrite <- spanD.
  destruct r as [|y t]; [reflexivity|]. cbn [span]. destruct (cmD y); [|reflexivity].
  rewrite star_bt_longest by (left; rewrite ev_frac_exp; discriminate).
  destruct (span cmD t) as [n r3]. cbn [fst snd]. rewrite ev_frac_exp.
  replace (S q + n + fst (frac_len r3) + exp_len (snd (frac_len r3)))
     with (q + (S n + fst (frac_len r3) + exp_len (snd (frac_len r3)))) by lia. reflexivity.
Qed.

Lemma int_body_nondigit y t : cmD y = false -> int_body (y :: t) = None.
Proof. intros H. unfold int_body. rewrite <- spanD. cbn [span]. rewrite H. reflexivity. Qed.

Lemma lit_body_int s1 : lit_body s1 =
  match int_body (snd (sign_len s1)) with Some n => Some (fst (sign_len s1) + n) | None => None end.
Proof.
  unfold lit_body, int_body. destruct (sign_len s1) as [nsg s2]. cbn [fst snd].
  destruct (span_p is_digit_u s2) as [ni s3]. destruct ni as [|ni]; [reflexivity|].
  destruct (frac_len s3) as [nf s4]. cbn [fst snd]. f_equal. lia.
Qed.

(* [+-]? \d+ ...  inside group 1 opened at a = q *)
Lemma ev_body q r c :
  ev UC rBODY q r c (kg q) = match lit_body r with Some n => MYes (q + n) (cap_set 1 (q, q + n) c) | None => MNo end.
Proof.
  unfold rBODY. rewrite ev_cat. rewrite ev_opt. unfold rSG at 1. rewrite (ev_one UC _ _ (one_in UC false _)). fold cmS.
  rewrite lit_body_int. unfold sign_len.
  destruct r as [|y t].
  - cbn [fst snd]. rewrite ev_int. destruct (int_body []); [rewrite Nat.add_0_l|]; reflexivity.
  - rewrite <- cmS_is. destruct (cmS y) eqn:Sg; cbn [fst snd].
    + rewrite neq_succ. rewrite !ev_int. rewrite (int_body_nondigit y t (sign_not_digit y Sg)).
      destruct (int_body t) as [n|]; [|reflexivity].
      replace (S q + n) with (q + (1 + n)) by lia. reflexivity.
    + rewrite ev_int. destruct (int_body (y :: t)); [rewrite Nat.add_0_l|]; reflexivity.
Qed.

Lemma ev_body_space q y t c : is_space_u y = true -> ev UC rBODY q (y :: t) c (kg q) = MNo.
Proof.
  intros S. rewrite ev_body. rewrite lit_body_int. unfold sign_len. rewrite <- cmS_is.
  rewrite (space_not_sign y S). cbn [fst snd]. rewrite int_body_nondigit; [reflexivity|].
  rewrite cmD_is. apply space_not_digit_u. exact S.
Qed.

(* the engine's full answer on the regenerated _R_EXPR_NUMBER *)
Theorem number_regex_answer s :
  re_match UC R_EXPR_NUMBER s = match lit_match s with Some (a, e) => MYes e [(1%nat, (a, e))] | None => MNo end.
Proof.
  rewrite re_match_ev. rewrite number_regex_shape. rewrite ev_cat, ev_bol. cbn [Nat.eqb].
  rewrite ev_cat. rewrite (ev_star UC _ _ (one_in UC false _)). fold cmW.
  rewrite star_bt_longest.
  2:{ right. intros q y t c' Hy. rewrite ev_group. apply (ev_body_space q y t c'). rewrite <- cmW_is. exact Hy. }
  rewrite ev_group. rewrite lit_match_body. rewrite <- spanW. destruct (span cmW s) as [nsp s1]. cbn [fst snd Nat.add].
  change (fun (p : nat) (r' : str) (c' : caps) => kfin p r' (cap_set 1 (nsp, p) c')) with (kg nsp).
  rewrite ev_body. destruct (lit_body s1) as [n|]; reflexivity.
Qed.

Theorem lit_match_rx_is_lit s : lit_match_rx s = Some (lit_match s).
Proof.
  unfold lit_match_rx. rewrite number_regex_answer. destruct (lit_match s) as [[a e]|]; [|reflexivity].
  cbn [cap_get Nat.eqb]. reflexivity.
Qed.

(* ================================================================== C.  the property theorems, about the engine-run regexes *)
Local Open Scope Z_scope.

(* value_string on a float as the code computes it: R_NUMBER_CLEANUP.sub('', repr) through the engine *)
Definition value_string_float_rx (repr_text : str) : option str := cleanup_rx repr_text.

Lemma value_string_float_rx_is s : value_string_float_rx s = Some (value_string_float s).
Proof. apply cleanup_rx_is_cleanup. Qed.

Theorem cleanup_grammar_rx s : repr_ok s = true -> exists t, cleanup_rx s = Some t /\ Cleaned s t.
Proof. intros H. exists (cleanup s). split; [apply cleanup_rx_is_cleanup | exact (cleanup_grammar s (repr_ok_sound s H))]. Qed.

Theorem cleanup_value_rx s : repr_ok s = true ->
  exists t neg m e m' e', cleanup_rx s = Some t /\ py_dec s = Some (neg, PDec m e) /\ py_dec t = Some (neg, PDec m' e') /\
                          same_value m e m' e' /\ exists k, 0 <= k /\ m = m' * 10 ^ k /\ e = e' - k.
Proof.
  intros H. destruct (cleanup_value s (repr_ok_sound s H)) as (neg & m & e & m' & e' & P).
  exists (cleanup s), neg, m, e, m', e'. split; [apply cleanup_rx_is_cleanup | exact P].
Qed.

(* the cleaned text of a non-negative number is, as a whole, what the regenerated _R_EXPR_NUMBER matches: the engine
   answers "match, ending at the end of the text, group 1 = the whole text" *)
Theorem cleanup_is_literal_rx s : repr_ok s = true -> is_neg_text s = false ->
  exists t, cleanup_rx s = Some t /\ re_match UC R_EXPR_NUMBER t = MYes (length t) [(1%nat, (O, length t))].
Proof.
  intros H N. exists (cleanup s). split; [apply cleanup_rx_is_cleanup|].
  rewrite number_regex_answer. rewrite (cleanup_is_literal s (repr_ok_sound s H) N). reflexivity.
Qed.

Theorem integral_no_dot_rx s : repr_ok s = true -> positional s = true ->
  exists t neg m e, cleanup_rx s = Some t /\ py_dec s = Some (neg, PDec m e) /\ e <= 0 /\
    (m mod 10 ^ (- e) = 0 -> no_dot t = true /\ all_d (skipn (if neg then 1 else 0) t) = true) /\
    (m mod 10 ^ (- e) <> 0 -> t = s).
Proof.
  intros H P. destruct (integral_no_dot s (repr_ok_sound s H) P) as (neg & m & e & Q).
  exists (cleanup s), neg, m, e. split; [apply cleanup_rx_is_cleanup | exact Q].
Qed.

Theorem roundtrip_rx (repr : flt -> str) (strtod : bool -> Z -> Z -> flt) :
  (forall x, sf_is_finite x = true -> repr_ok (repr x) = true) ->
  (forall x, sf_is_finite x = true -> float_with strtod (repr x) = Some x) ->
  (forall neg m e k, 0 <= k -> strtod neg (m * 10 ^ k) (e - k) = strtod neg m e) ->
  forall x, sf_is_finite x = true ->
  exists text, value_string_float_rx (repr x) = Some text /\ parse_number_with strtod text = Some x.
Proof.
  intros H1 H2 H3 x Fx. exists (value_string_float (repr x)).
  split; [apply value_string_float_rx_is | exact (roundtrip repr strtod H1 H2 H3 x Fx)].
Qed.

Theorem roundtrip_literal_rx (repr : flt -> str) (strtod : bool -> Z -> Z -> flt) :
  (forall x, sf_is_finite x = true -> repr_ok (repr x) = true) ->
  (forall x, sf_is_finite x = true -> float_with strtod (repr x) = Some x) ->
  (forall neg m e k, 0 <= k -> strtod neg (m * 10 ^ k) (e - k) = strtod neg m e) ->
  forall x, sf_is_finite x = true -> is_neg_text (repr x) = false ->
  exists text, value_string_float_rx (repr x) = Some text /\
    re_match UC R_EXPR_NUMBER text = MYes (length text) [(1%nat, (O, length text))] /\ float_with strtod text = Some x.
Proof.
  intros H1 H2 H3 x Fx Nx. exists (value_string_float (repr x)).
  destruct (roundtrip_literal repr strtod H1 H2 H3 x Fx Nx) as [L F].
  split; [apply value_string_float_rx_is|]. split; [|exact F].
  rewrite number_regex_answer. cbv zeta in L. rewrite L. reflexivity.
Qed.
