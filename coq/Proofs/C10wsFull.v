(* Proofs/C10wsFull.v — the whitespace theorems of Proofs/C10wsExpr.v WITHOUT the premise `parse_expression text <> EFuel`:
   the model's fuel always suffices (Proofs/ExprFuel.v). *)
From BS Require Import Model.Base Model.Regex Model.ExprParser Proofs.C10ws Proofs.C10wsExpr Proofs.ExprFuel.

Theorem parse_expression_ws_full ws text : white ws ->
  eres_ws (length ws) (parse_expression text) (parse_expression (ws ++ text)).
Proof. intros W. apply parse_expression_ws; [exact W | apply parse_expression_no_fuel]. Qed.

(* an error stays an error with the same text; its column moves with the text or stays 1 *)
Corollary parse_expression_ws_err ws text msg c : white ws -> parse_expression text = EErr msg c ->
  parse_expression (ws ++ text) = EErr msg (c + length ws) \/ (c = 1 /\ parse_expression (ws ++ text) = EErr msg 1).
Proof.
  intros W H. pose proof (parse_expression_ws_full ws text W) as R. rewrite H in R.
  destruct (parse_expression (ws ++ text)); cbn [eres_ws] in R; try contradiction.
  destruct R as [<- [->|[-> ->]]]; [left; reflexivity | right; split; reflexivity].
Qed.
