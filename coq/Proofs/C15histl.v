(* Proofs/C15histl.v — C15 history, searches: only the two searches can answer LFuel; the checkable condition `fuel_safe`
   (Proofs/C15spec3.v) implies `no_fuel`; hence the history theorem for OPS_X under a decidable hypothesis. *)
From Coq Require Import Lia.
From BS Require Import Model.Base Model.Num Model.LibVal Gen.ArgSpecs Model.LibSeq Proofs.BaseFacts Proofs.C15 Proofs.C15spec
  Proofs.C15hist Proofs.C15spec2 Proofs.C15spec3 Proofs.C15aeq Proofs.C15histj.

(* ---- only arrayIndexOf / arrayLastIndexOf answer LFuel *)
Lemma lib_table_nofuel : Forall (fun p => forall h va h', snd p h va = (LFuel, h') -> is_search (fst p) = true) lib_table.
Proof.
  unfold lib_table.
  repeat (apply Forall_cons; [cbn [fst snd]; intros h va h' H;
    first [ reflexivity
          | exfalso; first [ progress unfold k_urlEncodeGen in H | match type of H with ?k _ _ = _ => unfold k in H end ];
            kcrush; discriminate ] |]).
  apply Forall_nil.
Qed.

Theorem only_searches_give_up : forall f args h h', lib f args h = (LFuel, h') -> is_search f = true.
Proof.
  unfold lib. intros f args h h' H.
  destruct (assoc f raw_table) as [g|] eqn:R.
  - exfalso. apply assoc_raw in R. destruct R as [[-> ->]|[[-> ->]|[-> ->]]].
    + apply raw_arrayNew_shape in H. destruct H as [_ H]. discriminate.
    + apply raw_objectNew_shape in H. destruct H as [(kv & _ & H)|[_ H]]; discriminate.
    + apply raw_stringFromCharCode_shape in H. destruct H as [_ [H|[H|[s H]]]]; discriminate.
  - destruct (assoc f lib_table) as [k|] eqn:T; [|discriminate].
    apply validated_cases in H. destruct H as [[_ [H|[H|H]]]|(specs & fv & va & E & V & K)]; try discriminate.
    pose proof lib_table_nofuel as Q. rewrite Forall_forall in Q. specialize (Q (f, k) (assoc_In f lib_table k T)). simpl in Q. eapply Q; eauto.
Qed.

(* ---- the computed rank certifies acyclicity *)
Lemma numbered_In : forall (h : heap) n l c, nth_error h l = Some c -> In ((n + l)%nat, c) (combine (seq n (length h)) h).
Proof.
  induction h as [|x h IH]; intros n l c H; [destruct l; discriminate|].
  destruct l as [|l]; simpl in *.
  - inv H. left. rewrite Nat.add_0_r. reflexivity.
  - right. replace (n + S l)%nat with (S n + l)%nat by lia. apply IH. exact H.
Qed.
Theorem rank_ok_acyclic : forall h rk, rank_ok h rk = true -> acyclic h.
Proof.
  intros h rk H. exists (fun l => nth l rk O). intros l c x l' G I V.
  unfold rank_ok in H. rewrite forallb_forall in H.
  specialize (H (l, c) (numbered_In h 0 l c G)). cbn [fst snd] in H. rewrite forallb_forall in H.
  specialize (H x I). rewrite V in H. apply Nat.ltb_lt in H. exact H.
Qed.
Theorem acyclic_b_sound : forall h, acyclic_b h = true -> acyclic h.
Proof. intros h H. eapply rank_ok_acyclic; eauto. Qed.

(* ---- fuel_safe => no_fuel *)
Lemma op_fuel_safe_sound : forall st o, op_fuel_safe st o = true -> op_no_fuel st o.
Proof.
  intros [[e h]|] o H; [|exact I]. destruct o as [f l|n|v]; try exact I. cbn [op_fuel_safe op_no_fuel] in *.
  destruct (eval_args e l) as [vs|] eqn:Ev; [|exact I].
  destruct (is_search f) eqn:S.
  - apply andb_true_iff in H. destruct H as [H V]. apply andb_true_iff in H. destruct H as [W A].
    apply search_no_fuel_acyclic; auto. apply acyclic_b_sound. exact A.
  - intros E. destruct (lib f vs h) as [r h'] eqn:L. simpl in E. subst r.
    apply only_searches_give_up in L. congruence.
Qed.
Theorem fuel_safe_no_fuel : forall ops st, fuel_safe ops st = true -> no_fuel ops st.
Proof.
  induction ops as [|o ops IH]; intros st H; [exact I|].
  cbn [fuel_safe] in H. apply andb_true_iff in H. destruct H as [Ho H]. split; [apply op_fuel_safe_sound; exact Ho | apply IH; exact H].
Qed.

Theorem history_search_checked : forall ops s, forallb op_in_OPS_x ops = true -> fuel_safe ops s = true ->
  runR (abs_st s) ops (abs_st (fold_left run_op ops s)).
Proof. intros ops s O F. apply history_search; [exact O | apply fuel_safe_no_fuel; exact F]. Qed.
