(* Proofs/C10stmtGaps2.v — INNER gaps, continued (same method as Proofs/C10stmtGaps.v): return with an expression, jump.

     classify_return_shape   classify n (w1 ++ "return" ++ w2 ++ T)           = ROk (KReturn (Some e))
     classify_jump_shape     classify n (w1 ++ "jump" ++ w2 ++ name ++ w4)    = ROk (KJump name None)

   for all white runs w1 w2 w4 (w2 non-empty), every identifier name, every LF-free T starting with a non-space character
   with parse_expression T = EOk e. *)
From Coq Require Import Lia.
From BS Require Import Model.Base Model.Regex Model.Num Model.NumText Model.ExprParser Model.Script Model.Lower Gen.Unicode Gen.Regexes
  Proofs.RegexFacts Proofs.RegexComplete Proofs.RegexShift Proofs.RegexEval Proofs.C02rx Proofs.C10ws Proofs.C10wsExpr
  Proofs.C10wsFull Proofs.C10wsIndent Proofs.C10wsIndent2 Proofs.C10tokSpaced Proofs.RegexTrail Proofs.C10tokTrail Proofs.RegexTrail2
  Proofs.RegexTrail3 Proofs.C10stmtTrail Proofs.C10parseNoeq Proofs.C10classifyTrail Proofs.C10stmtGaps.

(* ---------- an expression does not start with a character that all eight operand regexes reject ---------- *)
Definition operand_rejects (y : N) : bool :=
  rejects R_EXPR_GROUP_OPEN y && rejects R_EXPR_UNARY_OP y && rejects R_EXPR_FUNCTION_OPEN y && rejects R_EXPR_NUMBER y &&
  rejects R_EXPR_STRING y && rejects R_EXPR_STRING_DOUBLE y && rejects R_EXPR_VARIABLE y && rejects R_EXPR_VARIABLE_EX y.

Lemma parse_hd_rejected y t e : operand_rejects y = true -> parse_expression (y :: t) <> EOk e.
Proof.
  unfold operand_rejects. intros H. repeat (apply andb_true_iff in H; destruct H as [H ?]).
  unfold parse_expression. unfold expr_fuel. replace (2 * length (y :: t) + 4) with (S (S (2 * length (y :: t) + 2))) by lia.
  cbn [parse_binary parse_unary]. unfold rx.
  fold (rxm R_EXPR_GROUP_OPEN (y :: t)). rewrite (rxm_rejects R_EXPR_GROUP_OPEN y t) by assumption.
  fold (rxm R_EXPR_UNARY_OP (y :: t)). rewrite (rxm_rejects R_EXPR_UNARY_OP y t) by assumption.
  fold (rxm R_EXPR_FUNCTION_OPEN (y :: t)). rewrite (rxm_rejects R_EXPR_FUNCTION_OPEN y t) by assumption.
  fold (rxm R_EXPR_NUMBER (y :: t)). rewrite (rxm_rejects R_EXPR_NUMBER y t) by assumption.
  fold (rxm R_EXPR_STRING (y :: t)). rewrite (rxm_rejects R_EXPR_STRING y t) by assumption.
  fold (rxm R_EXPR_STRING_DOUBLE (y :: t)). rewrite (rxm_rejects R_EXPR_STRING_DOUBLE y t) by assumption.
  fold (rxm R_EXPR_VARIABLE (y :: t)). rewrite (rxm_rejects R_EXPR_VARIABLE y t) by assumption.
  fold (rxm R_EXPR_VARIABLE_EX (y :: t)). rewrite (rxm_rejects R_EXPR_VARIABLE_EX y t) by assumption.
  discriminate.
Qed.

(* ---------- the label regex does not match  name <white> x...  when x is not a colon ---------- *)
Definition T_label : regex := RCat (RLit 58) (RCat rsp REol).
Lemma cut_label : cut_at 3 R_SCRIPT_LABEL = Some (A_assign, T_label).
Proof. reflexivity. Qed.

Lemma word58 : is_word_u 58 = false. Proof. vm_compute. reflexivity. Qed.

Lemma kL_read p r c : ev UC T_label p r c kfin =
  match r with y :: t => if (y =? 58)%N then ev UC (RCat rsp REol) (S p) t c kfin else MNo | [] => MNo end.
Proof. unfold T_label. rewrite ev_cat. reflexivity. Qed.

Lemma label_nomatch w1 y nm w2 x r : white w1 -> idstart y = true -> forallb is_word_u nm = true -> white w2 ->
  hd_ok is_word_u (w2 ++ x :: r) -> is_sp x = false -> x <> 58%N ->
  rxm R_SCRIPT_LABEL (w1 ++ (y :: nm) ++ w2 ++ x :: r) = MNo.
Proof.
  intros W1 Y NM W2 H1 X NE. change (w1 ++ (y :: nm) ++ w2 ++ x :: r) with (w1 ++ y :: nm ++ w2 ++ x :: r).
  unfold rxm. rewrite re_match_ev, (ev_cut_at 3 _ _ _ cut_label).
  etransitivity.
  - apply (A_assign_read w1 y nm w2 (x :: r) (fun p r c => ev UC T_label p r c kfin) W1 Y NM W2 H1 X).
    intros q z t c Hz. rewrite kL_read. destruct (z =? 58)%N eqn:E; [|reflexivity]. apply N.eqb_eq in E. subst z.
    destruct Hz as [Hz|Hz]; [unfold is_sp in Hz; rewrite sp58 in Hz | rewrite word58 in Hz]; discriminate.
  - cbv beta. rewrite kL_read. destruct (x =? 58)%N eqn:E; [apply N.eqb_eq in E; congruence | reflexivity].
Qed.

Ltac tokno R W1 := eapply (tok_nomatch R); [reflexivity | reflexivity | exact W1 | reflexivity].

(* ====================================================== return <expr> *)
Lemma A_ret_read w1 r k : white w1 ->
  ev UC A_ret 0 (w1 ++ 114%N :: 101%N :: 116%N :: 117%N :: 114%N :: r) [] k = k (length w1 + 5) r [].
Proof.
  intros W1. unfold A_ret. rewrite ev_cat. unfold rsp at 1. rewrite (ev_star UC _ _ (one_in UC false _)). fold cmWs.
  rewrite star_bt_longest.
  2:{ right. intros q z t c Sz. rewrite cmWs_is in Sz. rewrite ev_cat. rewrite (ev_one UC _ _ (one_lit UC _)).
      destruct (z =? 114)%N eqn:E; [|reflexivity]. apply N.eqb_eq in E. subst z. vm_compute in Sz. discriminate. }
  rewrite span_cmWs, (span_sp_stop w1 114 _ W1 eq_refl). cbn [fst snd].
  rewrite ev_cat, (ev_one UC _ _ (one_lit UC _)), N.eqb_refl.
  rewrite ev_cat, (ev_one UC _ _ (one_lit UC _)), N.eqb_refl.
  rewrite ev_cat, (ev_one UC _ _ (one_lit UC _)), N.eqb_refl.
  rewrite ev_cat, (ev_one UC _ _ (one_lit UC _)), N.eqb_refl.
  rewrite (ev_one UC _ _ (one_lit UC _)), N.eqb_refl. f_equal. lia.
Qed.

Theorem classify_return_shape n w1 w2 T e : white w1 -> white w2 -> w2 <> [] -> nolf w2 -> nolf T -> hd_ok is_sp T ->
  parse_expression T = EOk e -> classify n (w1 ++ U "return" ++ w2 ++ T) = ROk (KReturn (Some e)).
Proof.
  intros W1 W2 N2 NW NT HT PT.
  destruct w2 as [|z2 w2']; [congruence|]. destruct T as [|x T']; [exfalso; exact (parse_nil_not_ok e PT)|]. cbn [hd_ok] in HT.
  assert (X61 : x <> 61%N) by (intros ->; exact (parse_hd_noeq T' e PT)).
  assert (X58 : x <> 58%N) by (intros ->; exact (parse_hd_rejected 58 T' e eq_refl PT)).
  change (U "return") with [114; 101; 116; 117; 114; 110]%N.
  pose proof (assign_nomatch_kw w1 114 [101; 116; 117; 114; 110]%N z2 w2' x T' W1 eq_refl eq_refl W2 HT X61) as EA.
  assert (EL : rxm R_SCRIPT_LABEL (w1 ++ [114; 101; 116; 117; 114; 110]%N ++ (z2 :: w2') ++ x :: T') = MNo).
  { apply label_nomatch; try assumption; try reflexivity. cbn [app hd_ok]. destruct (white_cons _ _ W2) as [S _]. exact (space_not_word z2 S). }
  cbn [app] in *.
  set (t0 := 101%N :: 116%N :: 117%N :: 114%N :: 110%N :: z2 :: w2' ++ x :: T') in *.
  assert (EB : rxm R_SCRIPT_FUNCTION_BEGIN (w1 ++ 114%N :: t0) = MNo) by (apply fn_begin_nomatch; [exact W1 | apply rxm_rejects; reflexivity]).
  assert (E1 : rxm R_SCRIPT_FUNCTION_END (w1 ++ 114%N :: t0) = MNo) by tokno R_SCRIPT_FUNCTION_END W1.
  assert (E2 : rxm R_SCRIPT_IF_BEGIN (w1 ++ 114%N :: t0) = MNo) by tokno R_SCRIPT_IF_BEGIN W1.
  assert (E3 : rxm R_SCRIPT_IF_ELSE_IF (w1 ++ 114%N :: t0) = MNo) by tokno R_SCRIPT_IF_ELSE_IF W1.
  assert (E4 : rxm R_SCRIPT_IF_ELSE (w1 ++ 114%N :: t0) = MNo) by tokno R_SCRIPT_IF_ELSE W1.
  assert (E5 : rxm R_SCRIPT_IF_END (w1 ++ 114%N :: t0) = MNo) by tokno R_SCRIPT_IF_END W1.
  assert (E6 : rxm R_SCRIPT_WHILE_BEGIN (w1 ++ 114%N :: t0) = MNo) by tokno R_SCRIPT_WHILE_BEGIN W1.
  assert (E7 : rxm R_SCRIPT_WHILE_END (w1 ++ 114%N :: t0) = MNo) by tokno R_SCRIPT_WHILE_END W1.
  assert (E8 : rxm R_SCRIPT_FOR_BEGIN (w1 ++ 114%N :: t0) = MNo) by tokno R_SCRIPT_FOR_BEGIN W1.
  assert (E9 : rxm R_SCRIPT_FOR_END (w1 ++ 114%N :: t0) = MNo) by tokno R_SCRIPT_FOR_END W1.
  assert (E10 : rxm R_SCRIPT_BREAK (w1 ++ 114%N :: t0) = MNo) by tokno R_SCRIPT_BREAK W1.
  assert (E11 : rxm R_SCRIPT_CONTINUE (w1 ++ 114%N :: t0) = MNo) by tokno R_SCRIPT_CONTINUE W1.
  assert (EJ : rxm R_SCRIPT_JUMP (w1 ++ 114%N :: t0) = MNo) by (apply jump_nomatch; [exact W1 | apply rxm_rejects; reflexivity]).
  (* the return regex itself *)
  set (p := length w1 + 5).
  assert (ER : rxm R_SCRIPT_RETURN (w1 ++ 114%N :: t0)
               = MYes (S p + length (z2 :: w2' ++ x :: T'))
                   (cap_set 1 (0, S p + length (z2 :: w2' ++ x :: T'))
                      (cap_set 2 (S p + length (z2 :: w2'), S p + length (z2 :: w2' ++ x :: T')) []))).
  { rewrite rxm_return. subst t0. rewrite (A_ret_read w1 _ kR W1). fold p. rewrite kR_read, N.eqb_refl.
    rewrite (optE_read (S p) (z2 :: w2' ++ x :: T') []).
    - change (z2 :: w2' ++ x :: T') with ((z2 :: w2') ++ x :: T').
      rewrite (span_sp_stop (z2 :: w2') x T' W2 HT). cbn [fst snd length]. reflexivity.
    - change (z2 :: w2' ++ x :: T') with ((z2 :: w2') ++ x :: T'). apply nolf_app; assumption. }
  assert (LL : length (w1 ++ 114%N :: t0) = S p + length (z2 :: w2' ++ x :: T')).
  { subst t0 p. rewrite app_length. cbn [length]. lia. }
  assert (G2 : gtext (w1 ++ 114%N :: t0)
                 (cap_set 1 (0, S p + length (z2 :: w2' ++ x :: T'))
                    (cap_set 2 (S p + length (z2 :: w2'), S p + length (z2 :: w2' ++ x :: T')) [])) R_SCRIPT_RETURN__expr = x :: T').
  { change R_SCRIPT_RETURN__expr with 2. rewrite (gtext_to_end _ _ 2 (S p + length (z2 :: w2'))) by (rewrite LL; reflexivity).
    subst t0 p.
    replace (w1 ++ 114%N :: 101%N :: 116%N :: 117%N :: 114%N :: 110%N :: z2 :: w2' ++ x :: T')
      with ((w1 ++ [114; 101; 116; 117; 114; 110]%N ++ z2 :: w2') ++ x :: T') by (rewrite <- !app_assoc; reflexivity).
    replace (S (length w1 + 5) + length (z2 :: w2')) with (length (w1 ++ [114; 101; 116; 117; 114; 110]%N ++ z2 :: w2') + 0)
      by (rewrite !app_length; cbn [length]; lia).
    rewrite skipn_app. rewrite Nat.add_0_r, Nat.sub_diag, skipn_all. reflexivity. }
  unfold classify. rewrite EA, EB, E1, E2, E3, E4, E5, E6, E7, E8, E9, E10, E11, EL, EJ, ER. cbv zeta. rewrite G2.
  unfold stmt_expr. rewrite PT. reflexivity.
Qed.

(* ====================================================== jump <name> *)
Lemma sp106 : is_space UC 106 = false. Proof. vm_compute. reflexivity. Qed.

Theorem rxm_jump_shape w1 z2 w2 y nm w4 : white w1 -> white (z2 :: w2) -> idstart y = true -> forallb is_word_u nm = true -> white w4 ->
  rxm R_SCRIPT_JUMP (w1 ++ [106; 117; 109; 112]%N ++ (z2 :: w2) ++ (y :: nm) ++ w4)
  = MYes (length w1 + 4 + length (z2 :: w2) + length (y :: nm) + length w4)
         (cap_set 3 (length w1 + 4 + length (z2 :: w2), length w1 + 4 + length (z2 :: w2) + length (y :: nm))
            (cap_set 1 (0, length w1 + 4) [])).
Proof.
  intros W1 W2 Y NM W4. unfold rxm. rewrite re_match_ev, (ev_cut_at 2 _ _ _ cut_jump).
  unfold A_jump. rewrite ev_cat, ev_bol. cbn [Nat.eqb]. rewrite ev_cat, ev_group, ev_cat.
  unfold rsp at 1. rewrite (ev_star UC _ _ (one_in UC false _)). fold cmWs.
  rewrite star_bt_longest.
  2:{ right. intros q z t c Sz. rewrite cmWs_is in Sz. rewrite ev_cat. rewrite (ev_one UC _ _ (one_lit UC _)).
      destruct (z =? 106)%N eqn:E; [|reflexivity]. apply N.eqb_eq in E. subst z. unfold is_sp in Sz. rewrite sp106 in Sz. discriminate. }
  cbn [app]. rewrite span_cmWs, (span_sp_stop w1 106 _ W1 sp106). cbn [fst snd].
  rewrite ev_cat, (ev_one UC _ _ (one_lit UC _)), N.eqb_refl.
  rewrite ev_cat, (ev_one UC _ _ (one_lit UC _)), N.eqb_refl.
  rewrite ev_cat, (ev_one UC _ _ (one_lit UC _)), N.eqb_refl.
  rewrite ev_cat, (ev_one UC _ _ (one_lit UC _)), N.eqb_refl.
  rewrite ev_alt, ev_eps.
  rewrite (ev_plus UC _ _ (one_in UC false _)). fold cmWs. rewrite cmWs_is.
  destruct (white_cons _ _ W2) as [S2 W2']. unfold is_sp at 1. rewrite S2.
  rewrite star_bt_longest.
  2:{ right. intros q z t c Sz. rewrite cmWs_is in Sz. rewrite kJ_read. unfold is_sp in Sz. rewrite (idstart_not_space z Sz). reflexivity. }
  assert (Ysp : is_sp y = false).
  { destruct (is_sp y) eqn:E; [|reflexivity]. unfold is_sp in E. rewrite (idstart_not_space y E) in Y. discriminate. }
  rewrite span_cmWs. change (w2 ++ y :: nm ++ w4) with (w2 ++ y :: (nm ++ w4)). rewrite (span_sp_stop w2 y (nm ++ w4) W2' Ysp). cbn [fst snd].
  rewrite kJ_read, Y. rewrite span_cmWord.
  rewrite (span_word_stop nm w4 NM).
  2:{ destruct w4 as [|z w4']; [exact I|]. cbn [hd_ok]. destruct (white_cons _ _ W4) as [S _]. exact (space_not_word z S). }
  cbn [fst snd]. rewrite (white_forallb_sp w4 W4). cbn [length]. unfold cap_set. repeat (f_equal; try lia).
Qed.

Theorem classify_jump_shape n w1 w2 name w4 : white w1 -> white w2 -> w2 <> [] -> ident name = true -> white w4 ->
  classify n (w1 ++ U "jump" ++ w2 ++ name ++ w4) = ROk (KJump name None).
Proof.
  intros W1 W2 N2 ID W4.
  destruct w2 as [|z2 w2']; [congruence|]. destruct name as [|y nm]; [discriminate|].
  cbn [ident] in ID. apply andb_true_iff in ID. destruct ID as [Y NM].
  assert (Ysp : is_sp y = false).
  { destruct (is_sp y) eqn:E; [|reflexivity]. unfold is_sp in E. rewrite (idstart_not_space y E) in Y. discriminate. }
  assert (Y61 : y <> 61%N) by (intros ->; vm_compute in Y; discriminate).
  assert (Y58 : y <> 58%N) by (intros ->; vm_compute in Y; discriminate).
  change (U "jump") with [106; 117; 109; 112]%N.
  pose proof (assign_nomatch_kw w1 106 [117; 109; 112]%N z2 w2' y (nm ++ w4) W1 eq_refl eq_refl W2 Ysp Y61) as EA.
  assert (EL : rxm R_SCRIPT_LABEL (w1 ++ [106; 117; 109; 112]%N ++ (z2 :: w2') ++ y :: nm ++ w4) = MNo).
  { apply label_nomatch; try assumption; try reflexivity. cbn [app hd_ok]. destruct (white_cons _ _ W2) as [S _]. exact (space_not_word z2 S). }
  pose proof (rxm_jump_shape w1 z2 w2' y nm w4 W1 W2 Y NM W4) as EJ.
  assert (G3 : gtext (w1 ++ [106; 117; 109; 112]%N ++ (z2 :: w2') ++ (y :: nm) ++ w4)
                 (cap_set 3 (length w1 + 4 + length (z2 :: w2'), length w1 + 4 + length (z2 :: w2') + length (y :: nm))
                    (cap_set 1 (0, length w1 + 4) [])) R_SCRIPT_JUMP__name = y :: nm).
  { unfold gtext, group_text. change R_SCRIPT_JUMP__name with 3. cbn [cap_get cap_set Nat.eqb].
    replace (length w1 + 4 + length (z2 :: w2') + length (y :: nm) - (length w1 + 4 + length (z2 :: w2'))) with (length (y :: nm)) by lia.
    replace (w1 ++ [106; 117; 109; 112]%N ++ (z2 :: w2') ++ (y :: nm) ++ w4)
      with ((w1 ++ [106; 117; 109; 112]%N ++ (z2 :: w2')) ++ (y :: nm) ++ w4) by (rewrite <- !app_assoc; reflexivity).
    replace (length w1 + 4 + length (z2 :: w2')) with (length (w1 ++ [106; 117; 109; 112]%N ++ (z2 :: w2')))
      by (rewrite !app_length; cbn [length]; lia).
    apply sub_list_at. }
  assert (G2 : gtext (w1 ++ [106; 117; 109; 112]%N ++ (z2 :: w2') ++ (y :: nm) ++ w4)
                 (cap_set 3 (length w1 + 4 + length (z2 :: w2'), length w1 + 4 + length (z2 :: w2') + length (y :: nm))
                    (cap_set 1 (0, length w1 + 4) [])) R_SCRIPT_JUMP__expr = []) by reflexivity.
  cbn [app] in *.
  set (t0 := 117%N :: 109%N :: 112%N :: z2 :: w2' ++ y :: nm ++ w4) in *.
  assert (EB : rxm R_SCRIPT_FUNCTION_BEGIN (w1 ++ 106%N :: t0) = MNo) by (apply fn_begin_nomatch; [exact W1 | apply rxm_rejects; reflexivity]).
  assert (E1 : rxm R_SCRIPT_FUNCTION_END (w1 ++ 106%N :: t0) = MNo) by tokno R_SCRIPT_FUNCTION_END W1.
  assert (E2 : rxm R_SCRIPT_IF_BEGIN (w1 ++ 106%N :: t0) = MNo) by tokno R_SCRIPT_IF_BEGIN W1.
  assert (E3 : rxm R_SCRIPT_IF_ELSE_IF (w1 ++ 106%N :: t0) = MNo) by tokno R_SCRIPT_IF_ELSE_IF W1.
  assert (E4 : rxm R_SCRIPT_IF_ELSE (w1 ++ 106%N :: t0) = MNo) by tokno R_SCRIPT_IF_ELSE W1.
  assert (E5 : rxm R_SCRIPT_IF_END (w1 ++ 106%N :: t0) = MNo) by tokno R_SCRIPT_IF_END W1.
  assert (E6 : rxm R_SCRIPT_WHILE_BEGIN (w1 ++ 106%N :: t0) = MNo) by tokno R_SCRIPT_WHILE_BEGIN W1.
  assert (E7 : rxm R_SCRIPT_WHILE_END (w1 ++ 106%N :: t0) = MNo) by tokno R_SCRIPT_WHILE_END W1.
  assert (E8 : rxm R_SCRIPT_FOR_BEGIN (w1 ++ 106%N :: t0) = MNo) by tokno R_SCRIPT_FOR_BEGIN W1.
  assert (E9 : rxm R_SCRIPT_FOR_END (w1 ++ 106%N :: t0) = MNo) by tokno R_SCRIPT_FOR_END W1.
  assert (E10 : rxm R_SCRIPT_BREAK (w1 ++ 106%N :: t0) = MNo) by tokno R_SCRIPT_BREAK W1.
  assert (E11 : rxm R_SCRIPT_CONTINUE (w1 ++ 106%N :: t0) = MNo) by tokno R_SCRIPT_CONTINUE W1.
  unfold classify. rewrite EA, EB, E1, E2, E3, E4, E5, E6, E7, E8, E9, E10, E11, EL, EJ. cbv zeta. rewrite G2, G3. reflexivity.
Qed.

(* ====================================================== jumpif (<expr>) <name> *)
Definition KJ (p : nat) (r : str) (c : caps) : mres := ev UC T_jump p r c kfin.

Lemma jump_tail p z2 w2 y nm w4 c : white (z2 :: w2) -> idstart y = true -> forallb is_word_u nm = true -> white w4 ->
  ev UC (RRep 1 None (RIn false [CCat CatSpace])) p ((z2 :: w2) ++ (y :: nm) ++ w4) c KJ
  = MYes (p + length (z2 :: w2) + length (y :: nm) + length w4)
         (cap_set 3 (p + length (z2 :: w2), p + length (z2 :: w2) + length (y :: nm)) c).
Proof.
  intros W2 Y NM W4. rewrite (ev_plus UC _ _ (one_in UC false _)). fold cmWs. cbn [app]. rewrite cmWs_is.
  destruct (white_cons _ _ W2) as [S2 W2']. unfold is_sp at 1. rewrite S2.
  rewrite star_bt_longest.
  2:{ right. intros q z t c0 Sz. rewrite cmWs_is in Sz. unfold KJ. rewrite kJ_read. unfold is_sp in Sz. rewrite (idstart_not_space z Sz). reflexivity. }
  assert (Ysp : is_sp y = false).
  { destruct (is_sp y) eqn:E; [|reflexivity]. unfold is_sp in E. rewrite (idstart_not_space y E) in Y. discriminate. }
  rewrite span_cmWs. change (w2 ++ y :: nm ++ w4) with (w2 ++ y :: (nm ++ w4)). rewrite (span_sp_stop w2 y (nm ++ w4) W2' Ysp). cbn [fst snd].
  unfold KJ. rewrite kJ_read, Y. rewrite span_cmWord.
  rewrite (span_word_stop nm w4 NM).
  2:{ destruct w4 as [|z w4']; [exact I|]. cbn [hd_ok]. destruct (white_cons _ _ W4) as [S _]. exact (space_not_word z S). }
  cbn [fst snd]. rewrite (white_forallb_sp w4 W4). cbn [length]. unfold cap_set. repeat (f_equal; try lia).
Qed.

Definition no41 (s : str) : Prop := forall c, In c s -> c <> 41%N.

Lemma sp40 : is_space UC 40 = false. Proof. vm_compute. reflexivity. Qed.
Lemma sp41 : is_space UC 41 = false. Proof. vm_compute. reflexivity. Qed.
Lemma word41 : is_word_u 41 = false. Proof. vm_compute. reflexivity. Qed.
Lemma word40 : is_word_u 40 = false. Proof. vm_compute. reflexivity. Qed.
Lemma sp105 : is_space UC 105 = false. Proof. vm_compute. reflexivity. Qed.

Lemma white_no41 w : white w -> no41 w.
Proof. intros W c I ->. pose proof (W _ I) as S. rewrite sp41 in S. discriminate. Qed.

Lemma no41_app a b : no41 a -> no41 b -> no41 (a ++ b).
Proof. intros A B c I. apply in_app_or in I. destruct I; auto. Qed.

Lemma suffix_hd_no41 (b1 b2 rest : str) : 41%N :: rest = b1 ++ b2 -> b1 <> [] -> no41 rest -> hd_ok (fun c => (c =? 41)%N) b2.
Proof.
  intros E NE N. destruct b1 as [|z b1']; [congruence|]. cbn [app] in E. inversion E; subst.
  destruct b2 as [|c b2']; [exact I|]. cbn [hd_ok]. destruct (c =? 41)%N eqn:Ec; [|reflexivity].
  apply N.eqb_eq in Ec. subst c. exfalso. apply (N 41%N); [apply in_or_app; right; left; reflexivity | reflexivity].
Qed.

Theorem rxm_jumpif_shape w1 g x T' z2 w2 y nm w4 : white w1 -> white g -> nolf (x :: T') -> white (z2 :: w2) -> idstart y = true ->
  forallb is_word_u nm = true -> white w4 ->
  let p2 := length w1 + 6 + length g + 1 in
  let p3 := p2 + length (x :: T') + 1 in
  rxm R_SCRIPT_JUMP (w1 ++ [106; 117; 109; 112; 105; 102]%N ++ g ++ 40%N :: (x :: T') ++ 41%N :: (z2 :: w2) ++ (y :: nm) ++ w4)
  = MYes (p3 + length (z2 :: w2) + length (y :: nm) + length w4)
         (cap_set 3 (p3 + length (z2 :: w2), p3 + length (z2 :: w2) + length (y :: nm))
            (cap_set 1 (0, p3) (cap_set 2 (p2, p2 + length (x :: T')) []))).
Proof.
  intros W1 Wg NT W2 Y NM W4 p2 p3. unfold rxm. rewrite re_match_ev, (ev_cut_at 2 _ _ _ cut_jump).
  fold KJ. unfold A_jump. rewrite ev_cat, ev_bol. cbn [Nat.eqb]. rewrite ev_cat, ev_group, ev_cat.
  unfold rsp at 1. rewrite (ev_star UC _ _ (one_in UC false _)). fold cmWs.
  rewrite star_bt_longest.
  2:{ right. intros q z t c Sz. rewrite cmWs_is in Sz. rewrite ev_cat. rewrite (ev_one UC _ _ (one_lit UC _)).
      destruct (z =? 106)%N eqn:E; [|reflexivity]. apply N.eqb_eq in E. subst z. unfold is_sp in Sz. rewrite sp106 in Sz. discriminate. }
  cbn [app]. rewrite span_cmWs, (span_sp_stop w1 106 _ W1 sp106). cbn [fst snd].
  rewrite ev_cat, (ev_one UC _ _ (one_lit UC _)), N.eqb_refl.
  rewrite ev_cat, (ev_one UC _ _ (one_lit UC _)), N.eqb_refl.
  rewrite ev_cat, (ev_one UC _ _ (one_lit UC _)), N.eqb_refl.
  rewrite ev_cat, (ev_one UC _ _ (one_lit UC _)), N.eqb_refl.
  rewrite ev_alt, ev_eps.
  (* the first alternative (plain jump) fails: `i` is not white space *)
  rewrite (ev_plus UC _ _ (one_in UC false _)). fold cmWs. rewrite cmWs_is. unfold is_sp at 1. rewrite sp105.
  (* if \s* ( *)
  rewrite ev_cat, (ev_one UC _ _ (one_lit UC _)), N.eqb_refl.
  rewrite ev_cat, (ev_one UC _ _ (one_lit UC _)), N.eqb_refl.
  rewrite ev_cat. unfold rsp at 1. rewrite (ev_star UC _ _ (one_in UC false _)). fold cmWs.
  rewrite star_bt_longest.
  2:{ right. intros q z t c Sz. rewrite cmWs_is in Sz. rewrite ev_cat. rewrite (ev_one UC _ _ (one_lit UC _)).
      destruct (z =? 40)%N eqn:E; [|reflexivity]. apply N.eqb_eq in E. subst z. unfold is_sp in Sz. rewrite sp40 in Sz. discriminate. }
  rewrite span_cmWs, (span_sp_stop g 40 _ Wg sp40). cbn [fst snd].
  rewrite ev_cat, (ev_one UC _ _ (one_lit UC _)), N.eqb_refl.
  rewrite ev_cat, ev_group. rewrite (ev_plus UC _ _ (one_any UC)).
  unfold nolf in NT. cbn [forallb] in NT. apply andb_true_iff in NT. destruct NT as [N1 N2]. unfold notLF in N1. rewrite N1.
  change (fun y0 : N => negb (y0 =? 10)%N) with notLF.
  set (rest := (z2 :: w2) ++ (y :: nm) ++ w4).
  assert (NR : no41 rest).
  { subst rest. apply no41_app; [exact (white_no41 _ W2)|]. apply no41_app; [|exact (white_no41 _ W4)].
    intros c [<-|I] E; [subst; vm_compute in Y; discriminate|]. subst c.
    rewrite forallb_forall in NM. specialize (NM _ I). rewrite word41 in NM. discriminate. }
  change (z2 :: w2 ++ y :: nm ++ w4) with rest.
  rewrite star_bt_back; [| exact N2 | |].
  - rewrite (ev_one UC _ _ (one_lit UC _)), N.eqb_refl. subst rest. rewrite jump_tail by assumption.
    subst p2 p3. cbn [length]. unfold cap_set. repeat (f_equal; try lia).
  - rewrite (ev_one UC _ _ (one_lit UC _)), N.eqb_refl. subst rest. rewrite jump_tail by assumption. discriminate.
  - intros b1 b2 E NE. pose proof (suffix_hd_no41 b1 b2 rest E NE NR) as H. rewrite (ev_one UC _ _ (one_lit UC _)).
    destruct b2 as [|c b2']; [reflexivity|]. cbn [hd_ok] in H. rewrite H. reflexivity.
Qed.

Theorem classify_jumpif_shape n w1 g T w2 name w4 e : white w1 -> white g -> nolf T -> white w2 -> w2 <> [] -> ident name = true ->
  white w4 -> parse_expression T = EOk e ->
  classify n (w1 ++ U "jumpif" ++ g ++ U "(" ++ T ++ U ")" ++ w2 ++ name ++ w4) = ROk (KJump name (Some e)).
Proof.
  intros W1 Wg NT W2 N2 ID W4 PT.
  destruct w2 as [|z2 w2']; [congruence|]. destruct name as [|y nm]; [discriminate|].
  destruct T as [|x T']; [exfalso; exact (parse_nil_not_ok e PT)|].
  cbn [ident] in ID. apply andb_true_iff in ID. destruct ID as [Y NM].
  change (U "jumpif") with [106; 117; 109; 112; 105; 102]%N. change (U "(") with [40%N]. change (U ")") with [41%N].
  set (r0 := (x :: T') ++ [41%N] ++ (z2 :: w2') ++ (y :: nm) ++ w4).
  assert (EA : rxm R_SCRIPT_ASSIGNMENT (w1 ++ 106%N :: [117; 109; 112; 105; 102]%N ++ g ++ 40%N :: r0) = MNo).
  { rewrite (rxm_assign_read w1 106 [117; 109; 112; 105; 102]%N g (40%N :: r0) W1 eq_refl eq_refl Wg).
    - rewrite kA_read. reflexivity.
    - destruct g as [|z g']; cbn [app hd_ok]; [exact word40|]. destruct (white_cons _ _ Wg) as [S _]. exact (space_not_word z S).
    - exact sp40. }
  assert (EL : rxm R_SCRIPT_LABEL (w1 ++ (106%N :: [117; 109; 112; 105; 102]%N) ++ g ++ 40%N :: r0) = MNo).
  { apply label_nomatch; try assumption; try reflexivity; [|discriminate].
    destruct g as [|z g']; cbn [app hd_ok]; [exact word40|]. destruct (white_cons _ _ Wg) as [S _]. exact (space_not_word z S). }
  pose proof (rxm_jumpif_shape w1 g x T' z2 w2' y nm w4 W1 Wg NT W2 Y NM W4) as EJ. cbv zeta in EJ.
  set (p2 := length w1 + 6 + length g + 1) in *. set (p3 := p2 + length (x :: T') + 1) in *.
  set (cc := cap_set 3 (p3 + length (z2 :: w2'), p3 + length (z2 :: w2') + length (y :: nm))
               (cap_set 1 (0, p3) (cap_set 2 (p2, p2 + length (x :: T')) []))) in *.
  set (line := w1 ++ [106; 117; 109; 112; 105; 102]%N ++ g ++ [40%N] ++ (x :: T') ++ [41%N] ++ (z2 :: w2') ++ (y :: nm) ++ w4).
  assert (G3 : gtext line cc R_SCRIPT_JUMP__name = y :: nm).
  { unfold gtext, group_text. change R_SCRIPT_JUMP__name with 3. subst cc. cbn [cap_get cap_set Nat.eqb].
    replace (p3 + length (z2 :: w2') + length (y :: nm) - (p3 + length (z2 :: w2'))) with (length (y :: nm)) by lia.
    subst line.
    replace (w1 ++ [106; 117; 109; 112; 105; 102]%N ++ g ++ [40%N] ++ (x :: T') ++ [41%N] ++ (z2 :: w2') ++ (y :: nm) ++ w4)
      with ((w1 ++ [106; 117; 109; 112; 105; 102]%N ++ g ++ [40%N] ++ (x :: T') ++ [41%N] ++ (z2 :: w2')) ++ (y :: nm) ++ w4)
      by (repeat rewrite <- app_assoc; reflexivity).
    replace (p3 + length (z2 :: w2')) with (length (w1 ++ [106; 117; 109; 112; 105; 102]%N ++ g ++ [40%N] ++ (x :: T') ++ [41%N] ++ (z2 :: w2')))
      by (subst p3 p2; repeat rewrite app_length; cbn [length]; repeat rewrite app_length; cbn [length]; lia).
    apply sub_list_at. }
  assert (G2 : gtext line cc R_SCRIPT_JUMP__expr = x :: T').
  { unfold gtext, group_text. change R_SCRIPT_JUMP__expr with 2. subst cc. cbn [cap_get cap_set Nat.eqb].
    replace (p2 + length (x :: T') - p2) with (length (x :: T')) by lia.
    subst line.
    replace (w1 ++ [106; 117; 109; 112; 105; 102]%N ++ g ++ [40%N] ++ (x :: T') ++ [41%N] ++ (z2 :: w2') ++ (y :: nm) ++ w4)
      with ((w1 ++ [106; 117; 109; 112; 105; 102]%N ++ g ++ [40%N]) ++ (x :: T') ++ ([41%N] ++ (z2 :: w2') ++ (y :: nm) ++ w4))
      by (repeat rewrite <- app_assoc; reflexivity).
    replace p2 with (length (w1 ++ [106; 117; 109; 112; 105; 102]%N ++ g ++ [40%N]))
      by (subst p2; repeat rewrite app_length; cbn [length]; repeat rewrite app_length; cbn [length]; lia).
    apply sub_list_at. }
  subst line r0. cbn [app] in *.
  set (t0 := 117%N :: 109%N :: 112%N :: 105%N :: 102%N :: g ++ 40%N :: x :: T' ++ 41%N :: z2 :: w2' ++ y :: nm ++ w4) in *.
  assert (EB : rxm R_SCRIPT_FUNCTION_BEGIN (w1 ++ 106%N :: t0) = MNo) by (apply fn_begin_nomatch; [exact W1 | apply rxm_rejects; reflexivity]).
  assert (E1 : rxm R_SCRIPT_FUNCTION_END (w1 ++ 106%N :: t0) = MNo) by tokno R_SCRIPT_FUNCTION_END W1.
  assert (E2 : rxm R_SCRIPT_IF_BEGIN (w1 ++ 106%N :: t0) = MNo) by tokno R_SCRIPT_IF_BEGIN W1.
  assert (E3 : rxm R_SCRIPT_IF_ELSE_IF (w1 ++ 106%N :: t0) = MNo) by tokno R_SCRIPT_IF_ELSE_IF W1.
  assert (E4 : rxm R_SCRIPT_IF_ELSE (w1 ++ 106%N :: t0) = MNo) by tokno R_SCRIPT_IF_ELSE W1.
  assert (E5 : rxm R_SCRIPT_IF_END (w1 ++ 106%N :: t0) = MNo) by tokno R_SCRIPT_IF_END W1.
  assert (E6 : rxm R_SCRIPT_WHILE_BEGIN (w1 ++ 106%N :: t0) = MNo) by tokno R_SCRIPT_WHILE_BEGIN W1.
  assert (E7 : rxm R_SCRIPT_WHILE_END (w1 ++ 106%N :: t0) = MNo) by tokno R_SCRIPT_WHILE_END W1.
  assert (E8 : rxm R_SCRIPT_FOR_BEGIN (w1 ++ 106%N :: t0) = MNo) by tokno R_SCRIPT_FOR_BEGIN W1.
  assert (E9 : rxm R_SCRIPT_FOR_END (w1 ++ 106%N :: t0) = MNo) by tokno R_SCRIPT_FOR_END W1.
  assert (E10 : rxm R_SCRIPT_BREAK (w1 ++ 106%N :: t0) = MNo) by tokno R_SCRIPT_BREAK W1.
  assert (E11 : rxm R_SCRIPT_CONTINUE (w1 ++ 106%N :: t0) = MNo) by tokno R_SCRIPT_CONTINUE W1.
  unfold classify. rewrite EA, EB, E1, E2, E3, E4, E5, E6, E7, E8, E9, E10, E11, EL, EJ. cbv zeta. rewrite G2, G3.
  unfold stmt_expr. rewrite PT. reflexivity.
Qed.

(* ====================================================== the relation, extended *)
Definition KW_RETURN : str := [114; 101; 116; 117; 114; 110]%N.
Definition KW_JUMP : str := [106; 117; 109; 112]%N.
Definition KW_JUMPIF : str := [106; 117; 109; 112; 105; 102]%N.

Inductive stmt_spaced2 : line_kind -> str -> str -> Prop :=
| ss2_base k l1 l2 : stmt_spaced k l1 l2 -> stmt_spaced2 k l1 l2
| ss2_return w1 w2 v1 v2 T1 T2 e :
    white w1 -> white w2 -> w2 <> [] -> nolf w2 -> white v1 -> white v2 -> v2 <> [] -> nolf v2 -> nolf T1 -> nolf T2 ->
    hd_ok is_sp T1 -> hd_ok is_sp T2 -> spaced T1 T2 -> parse_expression T1 = EOk e ->
    stmt_spaced2 (KReturn (Some e)) (w1 ++ KW_RETURN ++ w2 ++ T1) (v1 ++ KW_RETURN ++ v2 ++ T2)
| ss2_jump w1 w2 w4 v1 v2 v4 name :
    white w1 -> white w2 -> w2 <> [] -> white w4 -> white v1 -> white v2 -> v2 <> [] -> white v4 -> ident name = true ->
    stmt_spaced2 (KJump name None) (w1 ++ KW_JUMP ++ w2 ++ name ++ w4) (v1 ++ KW_JUMP ++ v2 ++ name ++ v4)
| ss2_jumpif w1 g w2 w4 v1 h v2 v4 T1 T2 name e :
    white w1 -> white g -> white w2 -> w2 <> [] -> white w4 -> white v1 -> white h -> white v2 -> v2 <> [] -> white v4 ->
    nolf T1 -> nolf T2 -> ident name = true -> spaced T1 T2 -> parse_expression T1 = EOk e ->
    stmt_spaced2 (KJump name (Some e))
      (w1 ++ KW_JUMPIF ++ g ++ [40%N] ++ T1 ++ [41%N] ++ w2 ++ name ++ w4)
      (v1 ++ KW_JUMPIF ++ h ++ [40%N] ++ T2 ++ [41%N] ++ v2 ++ name ++ v4).

Theorem stmt_spaced2_classify n k l1 l2 : stmt_spaced2 k l1 l2 -> classify n l1 = ROk k /\ classify n l2 = ROk k.
Proof.
  intros S. destruct S.
  - apply stmt_spaced_classify. assumption.
  - split; apply classify_return_shape; try assumption. eapply spaced_parse; eassumption.
  - split; apply classify_jump_shape; assumption.
  - split; apply classify_jumpif_shape; try assumption. eapply spaced_parse; eassumption.
Qed.

Lemma stmt_spaced2_sym k l1 l2 : stmt_spaced2 k l1 l2 -> stmt_spaced2 k l2 l1.
Proof.
  intros S. destruct S.
  - apply ss2_base. apply stmt_spaced_sym. assumption.
  - apply ss2_return; try assumption; [apply sp_sym; assumption | eapply spaced_parse; eassumption].
  - apply ss2_jump; assumption.
  - apply ss2_jumpif; try assumption; [apply sp_sym; assumption | eapply spaced_parse; eassumption].
Qed.

Lemma stmt_spaced2_examples :
  exists e, parse_expression (U "a<1") = EOk e /\
    stmt_spaced2 (KReturn (Some e)) (U "return a<1") (U "  return \000009a <  1 ") /\
    stmt_spaced2 (KJump (U "top") None) (U "jump top") (U " jump  top\000009") /\
    stmt_spaced2 (KJump (U "top") (Some e)) (U "jumpif(a<1) top") (U "  jumpif ( a<1 )\000009top ").
Proof.
  pose proof (whiteb_white [] eq_refl) as W0. pose proof (whiteb_white (U " ") eq_refl) as W1.
  pose proof (whiteb_white (U "  ") eq_refl) as W2. pose proof (whiteb_white (U "\000009") eq_refl) as WT.
  pose proof (whiteb_white (U " \000009") eq_refl) as W1T.
  assert (PE : exists e, parse_expression (U "a<1") = EOk e) by (eexists; vm_compute; reflexivity).
  destruct PE as (e & PE). exists e. split; [exact PE|].
  split; [|split].
  - change (U "return a<1") with ([] ++ KW_RETURN ++ U " " ++ U "a<1").
    change (U "  return \000009a <  1 ") with (U "  " ++ KW_RETURN ++ U " \000009" ++ U "a <  1 ").
    apply ss2_return; try assumption; try reflexivity; try discriminate. exact spaced_small.
  - change (U "jump top") with ([] ++ KW_JUMP ++ U " " ++ U "top" ++ []).
    change (U " jump  top\000009") with (U " " ++ KW_JUMP ++ U "  " ++ U "top" ++ U "\000009").
    apply ss2_jump; try assumption; try reflexivity; try discriminate.
  - change (U "jumpif(a<1) top") with ([] ++ KW_JUMPIF ++ [] ++ [40%N] ++ U "a<1" ++ [41%N] ++ U " " ++ U "top" ++ []).
    change (U "  jumpif ( a<1 )\000009top ") with (U "  " ++ KW_JUMPIF ++ U " " ++ [40%N] ++ U " a<1 " ++ [41%N] ++ U "\000009" ++ U "top" ++ U " ").
    apply ss2_jumpif; try assumption; try reflexivity; try discriminate.
    change (U "a<1") with ([] ++ U "a" ++ U "<1"). change (U " a<1 ") with (U " " ++ U "a" ++ U "<1 ").
    pose proof (sp_end _ _ W0 W1) as Hend.
    pose proof (sp_num (U "1") _ _ _ _ W0 W0 eq_refl Hend) as H1.
    pose proof (sp_bin (U "<") _ _ _ _ W0 W0 ltac:(vm_compute; tauto) H1) as H2.
    exact (sp_var (U "a") _ _ _ _ W0 W1 eq_refl H2).
Qed.
