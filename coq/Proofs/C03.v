(* Proofs/C03.v — expression evaluation: the typed operator table, short-circuit operators and if(), the six
   relational operators as sign tests of the value order, evaluation order of call arguments, built-in aliases. *)
From Coq Require Import Lia ZArith.
From BS Require Import Model.Base Model.Num Model.Arith Model.ExprParser Model.Script Model.Interp Gen.Library Proofs.InterpEq.

(* ---- the documented operator/type table (the SPEC, written out as data) ---- *)
Inductive vtag := GNull | GBool | GNum | GStr | GDate | GArr | GObj | GFun | GRegex.
Definition tag (v : value) : vtag :=
  match v with
  | VNull => GNull | VBool _ => GBool | VNum _ => GNum | VStr _ => GStr | VDate _ => GDate
  | VArr _ => GArr | VObj _ => GObj | VFun _ => GFun | VRegex _ => GRegex
  end.

Definition is_relational (op : str) : bool :=
  op_is op "==" || op_is op "!=" || op_is op "<=" || op_is op "<" || op_is op ">=" || op_is op ">".

(* + : number+number, string+any, any+string, datetime+number, number+datetime;  - : number-number, datetime-datetime;
   * / % ** : number op number;  the comparisons: every pair of types *)
Definition supported (op : str) (a b : vtag) : bool :=
  if op_is op "+" then
    match a, b with
    | GNum, GNum | GStr, _ | _, GStr | GDate, GNum | GNum, GDate => true
    | _, _ => false
    end
  else if op_is op "-" then
    match a, b with GNum, GNum | GDate, GDate => true | _, _ => false end
  else if is_relational op then true
  else match a, b with GNum, GNum => true | _, _ => false end.

(* any operator applied to operand types it does not support yields null *)
Lemma unsupported_is_null op w a b : supported op (tag a) (tag b) = false -> binop op w a b = OVal VNull.
Proof.
  unfold supported, binop, is_relational.
  destruct (op_is op "+"). { destruct a, b; cbn; intros H; try discriminate; reflexivity. }
  destruct (op_is op "-"). { destruct a, b; cbn; intros H; try discriminate; reflexivity. }
  destruct (op_is op "*"). { destruct (op_is op "=="), (op_is op "!="), (op_is op "<="), (op_is op "<"), (op_is op ">="), (op_is op ">");
                             cbn; try discriminate; destruct a, b; cbn; intros H; try discriminate; reflexivity. }
  destruct (op_is op "/"). { destruct (op_is op "=="), (op_is op "!="), (op_is op "<="), (op_is op "<"), (op_is op ">="), (op_is op ">");
                             cbn; try discriminate; destruct a, b; cbn; intros H; try discriminate; reflexivity. }
  destruct (op_is op "=="); [cbn; discriminate|].
  destruct (op_is op "!="); [cbn; discriminate|].
  destruct (op_is op "<="); [cbn; discriminate|].
  destruct (op_is op "<"); [cbn; discriminate|].
  destruct (op_is op ">="); [cbn; discriminate|].
  destruct (op_is op ">"); [cbn; discriminate|].
  cbn. destruct (op_is op "%"); destruct a, b; cbn; intros H; try discriminate; reflexivity.
Qed.

(* a supported arithmetic pair yields a number, or null when Python's operation raises (division by zero, overflow, a
   complex result), or the model declines the payload - never anything else *)
Lemma arithmetic_yields_number_or_null op w x y :
  is_relational op = false -> op_is op "+" = false ->
  (exists n, binop op w (VNum x) (VNum y) = OVal (VNum n)) \/ binop op w (VNum x) (VNum y) = OVal VNull \/
  binop op w (VNum x) (VNum y) = OOracle.
Proof.
  unfold is_relational, binop. intros Hr Hp. rewrite Hp.
  destruct (op_is op "-"). { destruct (num_sub x y) eqn:E; cbn; eauto. }
  destruct (op_is op "*"). { destruct (num_mul x y) eqn:E; cbn; eauto. }
  destruct (op_is op "/"). { destruct (num_div x y) eqn:E; cbn; eauto. }
  destruct (op_is op "=="); [discriminate|]. destruct (op_is op "!="); [discriminate|]. destruct (op_is op "<="); [discriminate|].
  destruct (op_is op "<"); [discriminate|]. destruct (op_is op ">="); [discriminate|]. destruct (op_is op ">"); [discriminate|].
  destruct (op_is op "%"). { destruct (num_mod x y) eqn:E; cbn; eauto. }
  destruct (num_pow x y) eqn:E; cbn; eauto.
Qed.

(* the six relational operators are exactly the sign tests of the value comparison *)
Definition sign_test (op : str) (c : comparison) : bool :=
  if op_is op "==" then match c with Eq => true | _ => false end
  else if op_is op "!=" then match c with Eq => false | _ => true end
  else if op_is op "<=" then match c with Gt => false | _ => true end
  else if op_is op "<" then match c with Lt => true | _ => false end
  else if op_is op ">=" then match c with Lt => false | _ => true end
  else match c with Gt => true | _ => false end.

Lemma relational_is_sign_test op w a b c :
  is_relational op = true -> op_is op "+" = false -> op_is op "-" = false -> op_is op "*" = false -> op_is op "/" = false ->
  vcompare (cmp_fuel w) w a b = Some c ->
  binop op w a b = OVal (VBool (sign_test op c)).
Proof.
  unfold is_relational, binop, sign_test, relop. intros Hr H1 H2 H3 H4 Hc. rewrite H1, H2, H3, H4, Hc.
  destruct (op_is op "=="); [reflexivity|]. destruct (op_is op "!="); [reflexivity|]. destruct (op_is op "<="); [reflexivity|].
  destruct (op_is op "<"); [reflexivity|]. destruct (op_is op ">="); [reflexivity|]. destruct (op_is op ">"); [reflexivity|].
  discriminate.
Qed.

Section Eval.
Variable cfg : config.
Variable lib : caller -> str -> list value -> world -> lres * world.
Variable url_rel : str -> str -> str.
Variable lint_lines : script -> list str.
Notation eval := (eval cfg lib url_rel lint_lines).
Notation call := (call cfg lib url_rel lint_lines).

(* && and || return one of their operands and do not evaluate the right operand when the left decides *)
Lemma and_short_circuit f l r loc bi um w lv w1 :
  eval f l loc bi um w = (OVal lv, w1) -> truthy w1 lv = false ->
  eval (S f) (EBin (U "&&") l r) loc bi um w = (OVal lv, w1).
Proof. intros H Ht. rewrite eval_S. cbn [eval_body]. rewrite H. change (op_is (U "&&") "&&") with true. cbv iota. rewrite Ht. reflexivity. Qed.

Lemma and_evaluates_right f l r loc bi um w lv w1 :
  eval f l loc bi um w = (OVal lv, w1) -> truthy w1 lv = true ->
  eval (S f) (EBin (U "&&") l r) loc bi um w = eval f r loc bi um w1.
Proof. intros H Ht. rewrite eval_S. cbn [eval_body]. rewrite H. change (op_is (U "&&") "&&") with true. cbv iota. rewrite Ht. reflexivity. Qed.

Lemma or_short_circuit f l r loc bi um w lv w1 :
  eval f l loc bi um w = (OVal lv, w1) -> truthy w1 lv = true ->
  eval (S f) (EBin (U "||") l r) loc bi um w = (OVal lv, w1).
Proof.
  intros H Ht. rewrite eval_S. cbn [eval_body]. rewrite H.
  change (op_is (U "||") "&&") with false. change (op_is (U "||") "||") with true. cbv iota. rewrite Ht. reflexivity.
Qed.

Lemma or_evaluates_right f l r loc bi um w lv w1 :
  eval f l loc bi um w = (OVal lv, w1) -> truthy w1 lv = false ->
  eval (S f) (EBin (U "||") l r) loc bi um w = eval f r loc bi um w1.
Proof.
  intros H Ht. rewrite eval_S. cbn [eval_body]. rewrite H.
  change (op_is (U "||") "&&") with false. change (op_is (U "||") "||") with true. cbv iota. rewrite Ht. reflexivity.
Qed.

(* every other binary operator evaluates the left operand, then the right operand, each exactly once, then applies the operator *)
Lemma strict_operator_order f op l r loc bi um w lv w1 rv w2 :
  op_is op "&&" = false -> op_is op "||" = false ->
  eval f l loc bi um w = (OVal lv, w1) -> eval f r loc bi um w1 = (OVal rv, w2) ->
  eval (S f) (EBin op l r) loc bi um w = (binop op w2 lv rv, w2).
Proof. intros Ha Ho H1 H2. rewrite eval_S. cbn [eval_body]. rewrite H1, Ha, Ho, H2. reflexivity. Qed.

(* if(c, a, b) evaluates the condition and then ONLY the selected branch *)
Lemma if_selects_one_branch f c a b loc bi um w cv w1 :
  eval f c loc bi um w = (OVal cv, w1) ->
  eval (S f) (ECall (U "if") [c; a; b]) loc bi um w = eval f (if truthy w1 cv then a else b) loc bi um w1.
Proof.
  intros H. rewrite eval_S. cbn [eval_body]. change (op_is (U "if") "if") with true. cbv iota zeta. cbn [nth_error].
  rewrite H. destruct (truthy w1 cv); reflexivity.
Qed.

(* call arguments are evaluated exactly once, left to right, threading the world; evaluation stops at the first
   argument that does not produce a value *)
Lemma eval_args_app ev loc bi um : forall l1 l2 w acc,
  eval_args ev loc bi um (l1 ++ l2) w acc =
  match eval_args ev loc bi um l1 w acc with
  | (inr vs, w1) => eval_args ev loc bi um l2 w1 (rev vs)
  | (inl o, w1) => (inl o, w1)
  end.
Proof.
  induction l1 as [|a t IH]; intros l2 w acc; cbn [app eval_args].
  - rewrite rev_involutive. reflexivity.
  - destruct (ev a loc bi um w) as [o w1]. destruct o; try reflexivity. apply IH.
Qed.

Lemma eval_args_values ev loc bi um : forall l w acc vs w1,
  eval_args ev loc bi um l w acc = (inr vs, w1) -> length vs = (length acc + length l)%nat.
Proof.
  induction l as [|a t IH]; intros w acc vs w1 H; cbn [eval_args] in H.
  - injection H as <- <-. rewrite rev_length. cbn. lia.
  - destruct (ev a loc bi um w) as [o w2]. destruct o; try discriminate. apply IH in H. cbn in *. lia.
Qed.

(* in expression mode a built-in alias that is not shadowed resolves to the library function it is documented to alias *)
Lemma alias_resolves name target loc w :
  (match loc with Some l => env_get name l | None => None end) = None ->
  env_get name (w_globals w) = None ->
  assoc name gen_expr_alias = Some target ->
  lookup_fn name loc true w = Some (VFun (FLib target)).
Proof. intros Hl Hg Ha. unfold lookup_fn. destruct loc as [l|]; [rewrite Hl|]; rewrite Hg, Ha; reflexivity. Qed.

(* ... and a name bound in locals or globals always wins over the built-in *)
Lemma bound_name_beats_builtin name loc w v :
  (match loc with Some l => env_get name l | None => None end) = None ->
  env_get name (w_globals w) = Some v ->
  lookup_fn name loc true w = Some v.
Proof. intros Hl Hg. unfold lookup_fn. destruct loc as [l|]; [rewrite Hl|]; rewrite Hg; reflexivity. Qed.

(* calling the alias is calling the target (when the target name itself is bound to the injected library function) *)
Lemma alias_call_is_target_call f a t args loc um w :
  op_is a "if" = false -> op_is t "if" = false -> c_debug cfg = false ->
  (forall w1, lookup_fn a loc true w1 = Some (VFun (FLib t))) ->
  (forall w1, lookup_fn t loc true w1 = Some (VFun (FLib t))) ->
  eval (S f) (ECall a args) loc true um w = eval (S f) (ECall t args) loc true um w.
Proof.
  intros Ha Ht Hd Hla Hlt. rewrite !eval_S. cbn [eval_body]. rewrite Ha, Ht.
  destruct (eval_args (eval f) loc true um args w []) as [[o|vs] w1]; [reflexivity|].
  rewrite Hla, Hlt. destruct (call f (VFun (FLib t)) vs um w1) as [o w2].
  unfold log_if. rewrite Hd. reflexivity.
Qed.

End Eval.

(* every alias of the GENERATED table targets a name of the GENERATED library table (decided by computation) *)
Lemma alias_targets_exist : forallb (fun at_ => str_mem (snd at_) gen_script_functions) gen_expr_alias = true.
Proof. vm_compute. reflexivity. Qed.
