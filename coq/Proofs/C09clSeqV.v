(* Proofs/C09clSeqV.v — the closure invariant on LibSeq's side of the lifting (Model/LibSeq.v, values and heap of Model/LibVal.v):
   every function of Q.lib keeps a heap of well-formed cells well-formed, never writes a protected (hidden) position, answers
   with a well-formed value, and only grows the heap.  Positions: [0, na) the interpreter's arrays, [na, na+no) its objects,
   beyond that the cells the call allocates.  A value is well-formed ([vokV]) when an array reference is an unprotected old
   array or a fresh ARRAY cell, and a function number decodes to a well-formed function reference. *)
From Coq Require Import List Lia ZArith Bool NArith.
From BS Require Import Model.Base Model.Num Model.Arith Model.ExprParser Model.Script Model.Interp Model.LibLift Gen.ArgSpecs
                       Proofs.BaseFacts Proofs.C09termClosure Proofs.C09clInv.
Import ListNotations.

Section SeqV.
Variable Hh : hid.
Variables na no : nat.
Hypothesis Hlt : forall p, Hh p -> (p < na)%nat.

Definition vokV (h : V.heap) (v : V.value) : Prop :=
  match v with
  | V.VArr p => ((p < na)%nat /\ ~ Hh p) \/ ((na + no <= p)%nat /\ exists xs, nth_error h p = Some (V.CArr xs))
  | V.VFun id => fn_ok Hh (dec_fn id)
  | _ => True
  end.
Definition cell_ok (h : V.heap) (c : V.cell) : Prop :=
  match c with V.CArr xs => Forall (vokV h) xs | V.CObj kv => Forall (fun p => vokV h (snd p)) kv end.

Definition kext (h h' : V.heap) : Prop :=
  (length h <= length h')%nat /\ forall p xs, nth_error h p = Some (V.CArr xs) -> exists xs', nth_error h' p = Some (V.CArr xs').
Definition frame (h h' : V.heap) : Prop := forall p, Hh p -> nth_error h' p = nth_error h p.
Definition StV (h : V.heap) : Prop :=
  (na + no <= length h)%nat /\ Forall (cell_ok h) h /\ forall p, Hh p -> exists xs, nth_error h p = Some (V.CArr xs).

Lemma kext_refl h : kext h h.
Proof. split; [lia|eauto]. Qed.
Lemma vokV_mono h h' v : kext h h' -> vokV h v -> vokV h' v.
Proof.
  intros [_ K]. destruct v; cbn; auto. intros [A|[A [xs E]]]; [left; exact A|right]. split; [exact A|]. apply (K _ _ E).
Qed.
Lemma vals_mono h h' vs : kext h h' -> Forall (vokV h) vs -> Forall (vokV h') vs.
Proof. intros K F. eapply Forall_impl; [|exact F]. intros v. apply vokV_mono. exact K. Qed.
Lemma cell_mono h h' c : kext h h' -> cell_ok h c -> cell_ok h' c.
Proof.
  intros K. destruct c; cbn; [apply vals_mono; exact K|]. intros F. eapply Forall_impl; [|exact F]. intros p. apply vokV_mono. exact K.
Qed.

Definition res_ok (h : V.heap) (r : Q.libres) : Prop :=
  match r with Q.LOk v | Q.LArgsErr v => vokV h v | _ => True end.
Definition GV (h : V.heap) (p : Q.libres * V.heap) : Prop :=
  StV (snd p) /\ kext h (snd p) /\ frame h (snd p) /\ res_ok (snd p) (fst p).

Lemma cell_at h l c : StV h -> nth_error h l = Some c -> cell_ok h c.
Proof. intros (_ & F & _) E. rewrite Forall_forall in F. apply F. eapply nth_error_In. exact E. Qed.

(* ---- leaves ---- *)
Lemma GV_same h r : StV h -> res_ok h r -> GV h (r, h).
Proof. intros S R. split; [exact S|]. split; [apply kext_refl|]. split; [intros p _; reflexivity|exact R]. Qed.

Lemma hset_length h : forall l c, length (Q.hset h l c) = length h.
Proof. induction h as [|x t IH]; intros [|l] c; cbn; auto. Qed.
Lemma hset_same h : forall l c, (l < length h)%nat -> nth_error (Q.hset h l c) l = Some c.
Proof. induction h as [|x t IH]; intros [|l] c L; cbn in *; try lia; [reflexivity|]. apply IH. lia. Qed.
Lemma hset_other h : forall l c p, l <> p -> nth_error (Q.hset h l c) p = nth_error h p.
Proof. induction h as [|x t IH]; intros [|l] c [|p] N; cbn; try reflexivity; try contradiction. apply IH. lia. Qed.
Lemma Forall_hset (P : V.cell -> Prop) h : forall l c, Forall P h -> P c -> Forall P (Q.hset h l c).
Proof. intros l c F Pc. revert l. induction F as [|x t Px Ft IH]; intros [|l]; cbn; constructor; auto. Qed.

Lemma kext_hset_arr h l xs xs' : nth_error h l = Some (V.CArr xs) -> kext h (Q.hset h l (V.CArr xs')).
Proof.
  intros E. split; [rewrite hset_length; lia|]. intros p ys Ep. destruct (Nat.eq_dec l p) as [->|N].
  - exists xs'. apply hset_same. apply nth_error_Some. rewrite Ep. discriminate.
  - exists ys. rewrite hset_other; assumption.
Qed.
Lemma kext_hset_obj h l kv kv' : nth_error h l = Some (V.CObj kv) -> kext h (Q.hset h l (V.CObj kv')).
Proof.
  intros E. split; [rewrite hset_length; lia|]. intros p ys Ep. destruct (Nat.eq_dec l p) as [->|N].
  - rewrite E in Ep. discriminate.
  - exists ys. rewrite hset_other; assumption.
Qed.

Lemma GV_hset h l c c0 r : StV h -> nth_error h l = Some c0 -> ~ Hh l -> kext h (Q.hset h l c) ->
  cell_ok h c -> res_ok h r -> GV h (r, Q.hset h l c).
Proof.
  intros (L & F & Hd) E Nh K C R. unfold GV. cbn [fst snd]. split; [|split; [exact K|split]].
  - split; [rewrite hset_length; exact L|]. split.
    + apply Forall_hset; [|eapply cell_mono; eassumption]. eapply Forall_impl; [|exact F]. intros c1. apply cell_mono. exact K.
    + intros p Hp. rewrite hset_other; [apply Hd; exact Hp|]. intros ->. contradiction.
  - intros p Hp. apply hset_other. intros ->. contradiction.
  - destruct r; cbn in *; auto; eapply vokV_mono; eassumption.
Qed.

Lemma vokV_arr_not_hidden h l : vokV h (V.VArr l) -> ~ Hh l.
Proof. intros [[_ N]|[A _]]; [exact N|]. intros Hl. apply Hlt in Hl. lia. Qed.

Lemma GV_hset_arr h l xs xs' r : StV h -> vokV h (V.VArr l) -> Q.hget h l = Some (V.CArr xs) -> Forall (vokV h) xs' -> res_ok h r ->
  GV h (r, Q.hset h l (V.CArr xs')).
Proof.
  intros S Vl E F R. eapply GV_hset; [exact S|exact E|eapply vokV_arr_not_hidden; exact Vl|eapply kext_hset_arr; exact E|exact F|exact R].
Qed.
Lemma GV_hset_obj h l kv kv' r : StV h -> Q.hget h l = Some (V.CObj kv) -> Forall (fun p => vokV h (snd p)) kv' -> res_ok h r ->
  GV h (r, Q.hset h l (V.CObj kv')).
Proof.
  intros S E F R. eapply GV_hset; [exact S|exact E| |eapply kext_hset_obj; exact E|exact F|exact R].
  intros Hl. destruct S as (_ & _ & Hd). destruct (Hd l Hl) as [xs Ex]. unfold Q.hget in E. rewrite E in Ex. discriminate.
Qed.

Lemma kext_app h c : kext h (h ++ [c]).
Proof.
  split; [rewrite app_length; lia|]. intros p xs E. exists xs. rewrite nth_error_app1; [exact E|]. apply nth_error_Some. rewrite E. discriminate.
Qed.
Lemma StV_app h c : StV h -> cell_ok h c -> StV (h ++ [c]) /\ frame h (h ++ [c]).
Proof.
  intros (L & F & Hd) C. pose proof (kext_app h c) as K. split; [split; [|split]|].
  - rewrite app_length. lia.
  - apply Forall_app. split; [eapply Forall_impl; [|exact F]; intros c1; apply cell_mono; exact K|].
    constructor; [eapply cell_mono; eassumption|constructor].
  - intros p Hp. destruct (Hd p Hp) as [xs E]. exists xs. rewrite nth_error_app1; [exact E|]. apply nth_error_Some. rewrite E. discriminate.
  - intros p Hp. destruct (Hd p Hp) as [xs E]. rewrite nth_error_app1; [reflexivity|]. apply nth_error_Some. rewrite E. discriminate.
Qed.
Lemma GV_alloc_arr h xs : StV h -> Forall (vokV h) xs -> GV h (Q.LOk (V.VArr (length h)), h ++ [V.CArr xs]).
Proof.
  intros S F. destruct (StV_app h (V.CArr xs) S F) as [S' Fr]. split; [exact S'|]. split; [apply kext_app|]. split; [exact Fr|].
  cbn. right. destruct S as (L & _). split; [exact L|]. exists xs. rewrite nth_error_app2 by lia. rewrite Nat.sub_diag. reflexivity.
Qed.
Lemma GV_alloc_obj h kv : StV h -> Forall (fun p => vokV h (snd p)) kv -> GV h (Q.LOk (V.VObj (length h)), h ++ [V.CObj kv]).
Proof.
  intros S F. destruct (StV_app h (V.CObj kv) S F) as [S' Fr]. split; [exact S'|]. split; [apply kext_app|]. split; [exact Fr|exact I].
Qed.

(* ---- list helpers ---- *)
Lemma Forall_remove_nth {A} (P : A -> Prop) l : forall i, Forall P l -> Forall P (Q.remove_nth l i).
Proof. induction l as [|x t IH]; intros [|i] F; cbn; auto; inversion F; subst; auto. Qed.
Lemma Forall_qset_nth {A} (P : A -> Prop) l : forall i v, Forall P l -> P v -> Forall P (Q.set_nth l i v).
Proof. induction l as [|x t IH]; intros [|i] v F Pv; cbn; auto; inversion F; subst; auto. Qed.
Lemma Forall_removelast {A} (P : A -> Prop) (l : list A) : Forall P l -> Forall P (removelast l).
Proof. induction 1 as [|x t Px Ft IH]; cbn; [constructor|]. destruct t; [constructor|constructor; auto]. Qed.
Lemma Forall_repeat {A} (P : A -> Prop) v n : P v -> Forall P (repeat v n).
Proof. intros Pv. induction n; cbn; constructor; auto. Qed.
Lemma Forall_firstn2 {A} (P : A -> Prop) n : forall l, Forall P l -> Forall P (firstn n l).
Proof. induction n as [|n IH]; intros l F; [constructor|]. destruct F; cbn; constructor; auto. Qed.
Lemma Forall_skipn2 {A} (P : A -> Prop) n : forall l, Forall P l -> Forall P (skipn n l).
Proof. induction n as [|n IH]; intros l F; [exact F|]. destruct F; cbn; [constructor|auto]. Qed.
Lemma Forall_py_slice {A} (P : A -> Prop) (l : list A) a b : Forall P l -> Forall P (Q.py_slice l a b).
Proof. intros F. unfold Q.py_slice. apply Forall_skipn2. apply Forall_firstn2. exact F. Qed.
Lemma dict_set_ok h kv k v : Forall (fun p => vokV h (snd p)) kv -> vokV h v -> Forall (fun p => vokV h (snd p)) (Q.dict_set kv k v).
Proof.
  intros F Hv. induction F as [|[k' v'] t Px Ft IH]; cbn; [constructor; [exact Hv|constructor]|].
  destruct (str_eqb k k'); constructor; auto.
Qed.
Lemma dict_del_ok h kv k : Forall (fun p => vokV h (snd p)) kv -> Forall (fun p => vokV h (snd p)) (Q.dict_del kv k).
Proof. induction 1 as [|[k' v'] t Px Ft IH]; cbn; [constructor|]. destruct (str_eqb k k'); [exact Ft|constructor; auto]. Qed.
Lemma dict_update_ok h kv2 : forall kv, Forall (fun p => vokV h (snd p)) kv -> Forall (fun p => vokV h (snd p)) kv2 ->
  Forall (fun p => vokV h (snd p)) (Q.dict_update kv kv2).
Proof.
  unfold Q.dict_update. induction kv2 as [|[k v] t IH]; intros kv F F2; cbn [fold_left]; [exact F|].
  inversion F2; subst. apply IH; [apply dict_set_ok; assumption|assumption].
Qed.
Lemma assoc_ok h k (kv : list (str * V.value)) v : Forall (fun p => vokV h (snd p)) kv -> assoc k kv = Some v -> vokV h v.
Proof. intros F E. apply assoc_In in E. rewrite Forall_forall in F. apply (F _ E). Qed.
Lemma rev_head_ok {A} (P : A -> Prop) (l : list A) x t : Forall P l -> rev l = x :: t -> P x.
Proof. intros F E. apply Forall_rev in F. rewrite E in F. inversion F; assumption. Qed.

(* ---- argument validation ---- *)
Definition varg_okV (h : V.heap) (a : Q.varg) : Prop := match a with Q.AV v => vokV h v | Q.AL l => Forall (vokV h) l end.

Lemma qvcons_ok a r va : Q.vcons a r = Q.VOk va -> exists va', r = Q.VOk va' /\ va = a :: va'.
Proof. destruct r; cbn; intros E; try discriminate. injection E as <-. eauto. Qed.

Lemma lit_vok h l : vokV h (V.lit_value l).
Proof. destruct l; exact I. Qed.

Lemma args_validate_ok h : forall specs args va,
  Forall (vokV h) args -> Q.args_validate h specs args = Q.VOk va -> Forall (varg_okV h) va.
Proof.
  induction specs as [|sp rest IH]; intros args va F E; cbn [Q.args_validate] in E.
  - destruct args; [injection E as <-; constructor|discriminate].
  - assert (K : forall X Y va, varg_okV h X -> Forall (vokV h) Y ->
                Q.vcons X (Q.args_validate h rest Y) = Q.VOk va -> Forall (varg_okV h) va).
    { intros X Y va0 HX HY E0. apply qvcons_ok in E0. destruct E0 as (va' & E' & ->). constructor; [exact HX|apply (IH Y va'); assumption]. }
    destruct args as [|a t].
    + repeat match type of E with
             | context [if ?c then _ else _] => destruct c
             | context [match ?x with _ => _ end] => destruct x
             end; try discriminate; (eapply K; [| |exact E]; cbn; auto using lit_vok).
    + apply Forall_cons_iff in F. destruct F as [Ha Ft].
      destruct (V.as_last sp); [eapply K; [| |exact E]; cbn; auto|].
      destruct (V.as_type sp) as [ty|]; [|eapply K; [| |exact E]; cbn; auto].
      destruct ty;
        repeat match type of E with
               | context [if ?c then _ else _] => destruct c
               | context [match ?x with _ => _ end] => destruct x
               end; try discriminate; (eapply K; [| |exact E]; cbn; auto).
Qed.

Lemma fail_value_ok h fv args : Forall (vokV h) args -> vokV h (Q.fail_value fv args).
Proof.
  intros F. destruct fv as [|l|k]; cbn; [exact I|apply lit_vok|].
  destruct (nth_error args k) as [v|] eqn:E; [|exact I]. apply nth_error_In in E. rewrite Forall_forall in F. apply F. exact E.
Qed.

Lemma validated_okV f args h k : StV h -> Forall (vokV h) args ->
  (forall va ret, Forall (varg_okV h) va -> GV h (k va ret)) -> GV h (Q.validated f args h k).
Proof.
  intros S F Hk. unfold Q.validated. destruct (Q.assoc_spec f gen_arg_specs) as [[specs fv]|]; [|apply GV_same; [exact S|exact I]].
  destruct (Q.args_validate h specs args) as [va| | |] eqn:E.
  - apply Hk. eapply args_validate_ok; eassumption.
  - apply GV_same; [exact S|]. cbn. apply fail_value_ok. exact F.
  - apply GV_same; [exact S|exact I].
  - apply GV_same; [exact S|exact I].
Qed.

(* ---- the functions ---- *)
Ltac inv_okV := repeat match goal with
  | F : Forall _ (_ :: _) |- _ => apply Forall_cons_iff in F; destruct F
  | F : varg_okV _ (Q.AV _) |- _ => cbn [varg_okV] in F
  | F : varg_okV _ (Q.AL _) |- _ => cbn [varg_okV] in F
  end.

Ltac vstep := match goal with
  | |- GV _ (if ?c then _ else _) => destruct c eqn:?
  | |- GV _ (let (_, _) := Q.halloc _ _ in _) => unfold Q.halloc
  | |- GV _ (match ?x with _ => _ end) => is_var x; destruct x; inv_okV
  | |- GV _ (match ?x with _ => _ end) => destruct x eqn:?
  end.

Ltac cellvals S := repeat match goal with
  | E : Q.hget ?h ?l = Some (V.CArr ?xs) |- _ =>
      lazymatch goal with F : Forall (vokV h) xs |- _ => fail | _ => pose proof (cell_at h l _ S E : Forall (vokV h) xs) end
  | E : Q.hget ?h ?l = Some (V.CObj ?kv) |- _ =>
      lazymatch goal with F : Forall (fun p => vokV h (snd p)) kv |- _ => fail | _ => pose proof (cell_at h l _ S E : Forall (fun p => vokV h (snd p)) kv) end
  end.

Ltac vleaf S := cellvals S; first
  [ apply GV_same; [exact S|cbn; auto; fail]
  | apply GV_alloc_arr; [exact S|auto using Forall_repeat, Forall_py_slice; fail]
  | apply GV_alloc_obj; [exact S|auto; fail]
  | eapply GV_hset_arr; [exact S|eassumption|eassumption| |cbn; auto]; auto using Forall_remove_nth, Forall_qset_nth, Forall_removelast; fail
  | eapply GV_hset_obj; [exact S|eassumption| |cbn; auto]; auto using dict_set_ok, dict_del_ok, dict_update_ok; fail ].

Lemma kfun_ok (k : Q.kfun) : In k (map snd Q.lib_table) -> forall h va, StV h -> Forall (varg_okV h) va -> GV h (k h va).
Proof.
  intros I h va S F. cbn in I.
  repeat (destruct I as [<-|I]); try contradiction;
    first [progress unfold Q.k_urlEncodeGen; unfold Q.stuck | match goal with |- GV _ (?f _ _) => unfold f, Q.stuck end];
    repeat vstep; try vleaf S.
  - (* arrayExtend *) cellvals S. eapply GV_hset_arr; [exact S|eassumption|eassumption| |cbn; auto]. apply Forall_app. split; assumption.
  - (* arrayGet *) cellvals S. apply GV_same; [exact S|]. cbn. eapply Forall_forall; [eassumption|]. eapply nth_error_In. eassumption.
  - (* arrayPop *) cellvals S. eapply GV_hset_arr; [exact S|eassumption|eassumption|apply Forall_removelast; assumption|].
    cbn. eapply rev_head_ok; eassumption.
  - (* arrayPush *) cellvals S. eapply GV_hset_arr; [exact S|eassumption|eassumption| |cbn; auto]. apply Forall_app. split; assumption.
  - (* arrayShift *) cellvals S. inv_okV. eapply GV_hset_arr; [exact S|eassumption|eassumption|assumption|cbn; assumption].
  - (* objectGet *) cellvals S. apply GV_same; [exact S|]. cbn. destruct (assoc _ _) eqn:Ea; [eapply assoc_ok; eassumption|assumption].
  - (* objectKeys *) apply GV_alloc_arr; [exact S|]. apply Forall_forall. intros x Hx. apply in_map_iff in Hx. destruct Hx as (p & <- & _). exact I.
  - (* stringSplit *) apply GV_alloc_arr; [exact S|]. apply Forall_forall. intros x Hx. apply in_map_iff in Hx. destruct Hx as (p & <- & _). exact I.
Qed.

Lemma raw_objectNew_ok h args : StV h -> Forall (vokV h) args -> GV h (Q.raw_objectNew h args).
Proof.
  intros S F. unfold Q.raw_objectNew.
  match goal with |- context [?f args [] (Datatypes.S (length args))] => set (go := f) end.
  assert (Hgo : forall fuel a acc kv, Forall (vokV h) a -> Forall (fun p => vokV h (snd p)) acc -> go a acc fuel = Some kv ->
                Forall (fun p => vokV h (snd p)) kv).
  { induction fuel as [|fu IH]; intros a acc kv Fa Fc E; destruct a as [|x t]; cbn in E; try discriminate.
    - injection E as <-. exact Fc.
    - destruct x; try discriminate. destruct t as [|v t]; [injection E as <-; apply dict_set_ok; [exact Fc|exact I]|].
      apply Forall_cons_iff in Fa. destruct Fa as [_ Fa]. apply Forall_cons_iff in Fa. destruct Fa as [Hv Fa].
      eapply (IH t); [exact Fa| |exact E]. apply dict_set_ok; assumption. }
  destruct (go args [] (Datatypes.S (length args))) as [kv|] eqn:E.
  - unfold Q.halloc. apply GV_alloc_obj; [exact S|]. eapply Hgo; [exact F|constructor|exact E].
  - apply GV_same; [exact S|exact I].
Qed.

Lemma raw_string_ok h args : StV h -> GV h (Q.raw_stringFromCharCode h args).
Proof.
  intros S. unfold Q.raw_stringFromCharCode.
  match goal with |- GV _ (match ?c with _ => _ end) => destruct c as [[zs|]|] end;
    [destruct (forallb _ zs)| |]; apply GV_same; try exact S; exact I.
Qed.

Theorem qlib_ok f args h : StV h -> Forall (vokV h) args -> GV h (Q.lib f args h).
Proof.
  intros S F. unfold Q.lib.
  destruct (assoc f Q.raw_table) as [gf|] eqn:Er.
  - apply assoc_In in Er. cbn in Er. destruct Er as [Er|[Er|[Er|[]]]]; injection Er as _ <-.
    + unfold Q.raw_arrayNew, Q.halloc. apply GV_alloc_arr; assumption.
    + apply raw_objectNew_ok; assumption.
    + apply raw_string_ok; assumption.
  - destruct (assoc f Q.lib_table) as [k|] eqn:Ek; [|apply GV_same; [exact S|exact I]].
    apply validated_okV; [exact S|exact F|]. intros va ret Fva. apply kfun_ok; [|exact S|exact Fva].
    apply assoc_In in Ek. apply in_map_iff. exists (f, k). split; [reflexivity|exact Ek].
Qed.
End SeqV.
