(* Proofs/NumLit.v — float() accepts every text that the number-literal regex of the expression parser captures:
       re_match UC R_EXPR_NUMBER text = MYes e c  ->  py_float (grp text c 1) <> None.
   Route: (1) invert the match (declarative relation of Proofs/RegexFacts.v) on the REGENERATED regex value
   Gen/Regexes.v:R_EXPR_NUMBER into the shape  sign? digit+ ('.' digit* )? ('e' sign digit+)?  of the captured text;
   (2) py_float (Model/Num.v) succeeds on every text of that shape.  The proof is tied to the regex value: if parser.py's
   _R_EXPR_NUMBER changes shape, step (1) breaks (intended: it is a proof obligation about the source). *)
From Coq Require Import Lia SpecFloat.
From BS Require Import Model.Base Model.Regex Model.Num Model.ExprParser Gen.Unicode Gen.Regexes Proofs.RegexFacts Proofs.NumSpace.

(* ================= A. the character classes ================= *)
Definition ranges_disjoint (l1 l2 : list (N * N)) : bool :=
  forallb (fun ab => forallb (fun cd => (snd ab <? fst cd)%N || (snd cd <? fst ab)%N) l2) l1.

Lemma in_ranges_In l c : in_ranges l c = true -> exists a b, In (a, b) l /\ (a <= c <= b)%N.
Proof.
  induction l as [|[a b] t IH]; cbn [in_ranges]; [discriminate|].
  destruct (c <? a)%N eqn:E1; [discriminate|]. destruct (c <=? b)%N eqn:E2.
  - intros _. exists a, b. split; [left; reflexivity|]. apply N.ltb_ge in E1. apply N.leb_le in E2. lia.
  - intros H. destruct (IH H) as (a' & b' & I & L). exists a', b'. split; [right; exact I | exact L].
Qed.

Lemma ranges_disjoint_sound l1 l2 c :
  ranges_disjoint l1 l2 = true -> in_ranges l1 c = true -> in_ranges l2 c = true -> False.
Proof.
  intros D H1 H2. apply in_ranges_In in H1. apply in_ranges_In in H2.
  destruct H1 as (a & b & I1 & L1). destruct H2 as (a' & b' & I2 & L2).
  unfold ranges_disjoint in D. rewrite forallb_forall in D. specialize (D _ I1). rewrite forallb_forall in D. specialize (D _ I2).
  cbn [fst snd] in D. apply orb_true_iff in D. destruct D as [D|D]; apply N.ltb_lt in D; lia.
Qed.

Lemma udigit_val_in_some l c : in_ranges l c = true -> exists d, udigit_val_in l c = Some d.
Proof.
  induction l as [|[a b] t IH]; cbn [in_ranges udigit_val_in]; [discriminate|].
  destruct (c <? a)%N; [discriminate|]. destruct (c <=? b)%N; [eauto | exact IH].
Qed.

Lemma udigit_val_in_none l c : in_ranges l c = false -> udigit_val_in l c = None.
Proof.
  induction l as [|[a b] t IH]; cbn [in_ranges udigit_val_in]; [reflexivity|].
  destruct (c <? a)%N; [reflexivity|]. destruct (c <=? b)%N; [discriminate | exact IH].
Qed.

(* `\d` of the regex engine and the digits float() reads are the same characters *)
Lemma is_digit_digit_val c : is_digit UC c = true <-> exists d, digit_val c = Some d.
Proof.
  unfold is_digit, digit_val. change (u_digit UC) with (in_ranges gen_udigit_ranges).
  destruct (c <? 128)%N.
  - destruct ((48 <=? c)%N && (c <=? 57)%N); split; eauto; try discriminate. intros [d H]; discriminate.
  - split; [apply udigit_val_in_some|]. intros [d H].
    destruct (in_ranges gen_udigit_ranges c) eqn:E; [reflexivity|]. rewrite udigit_val_in_none in H by exact E. discriminate.
Qed.

Definition isdig (c : N) : Prop := is_digit UC c = true.

Lemma digit_space_disjoint : ranges_disjoint gen_udigit_ranges gen_uspace_ranges = true.
Proof. vm_compute. reflexivity. Qed.

Lemma isdig_facts c : isdig c ->
  U_space c = false /\ c <> 95%N /\ c <> 43%N /\ c <> 45%N.
Proof.
  unfold isdig, is_digit, U_space. change (u_digit UC) with (in_ranges gen_udigit_ranges).
  destruct (c <? 128)%N eqn:E.
  - intros H. apply andb_true_iff in H. destruct H as [H1 H2]. apply N.leb_le in H1. apply N.leb_le in H2.
    split.
    + apply orb_false_iff. split; apply andb_false_iff.
      * right. apply N.leb_gt. lia.
      * right. apply N.leb_gt. lia.
    + repeat split; lia.
  - intros H. apply N.ltb_ge in E. split.
    + destruct (in_ranges gen_uspace_ranges c) eqn:S; [|reflexivity].
      exfalso. exact (ranges_disjoint_sound _ _ _ digit_space_disjoint H S).
    + repeat split; lia.
Qed.

(* ================= B. float() on a text of the literal's shape ================= *)
Definition stop (r : str) : Prop := match r with [] => True | c :: _ => digit_val c = None /\ c <> 95%N end.

Lemma scan_digits_run ds : forall r acc n us, Forall isdig ds -> stop r ->
  exists v, scan_digits (ds ++ r) acc n us = Some (v, (n + Z.of_nat (length ds))%Z, r).
Proof.
  induction ds as [|d ds IH]; intros r acc n us F S.
  - cbn [app length]. rewrite Z.add_0_r. destruct r as [|c t]; [exists acc; reflexivity|].
    destruct S as [S1 S2]. cbn [scan_digits]. rewrite S1.
    apply N.eqb_neq in S2. rewrite S2. cbn [andb]. exists acc. reflexivity.
  - inversion F as [|? ? Fd Fds]; subst. apply is_digit_digit_val in Fd. destruct Fd as [x Fx].
    cbn [app scan_digits]. rewrite Fx.
    destruct (IH r (acc * 10 + Z.of_N x)%Z (n + 1)%Z false Fds S) as [v E]. exists v. rewrite E.
    cbn [length]. f_equal. f_equal. f_equal. lia.
Qed.

(* the exponent part: absent, or 'e' sign digit+ *)
Definition exp_shape (ex : str) : Prop :=
  ex = [] \/ exists sg d3, ex = 101%N :: sg :: d3 /\ (sg = 43%N \/ sg = 45%N) /\ d3 <> [] /\ Forall isdig d3.
(* the fraction part: absent, or '.' digit* *)
Definition frac_shape (fr : str) : Prop := fr = [] \/ exists d2, fr = 46%N :: d2 /\ Forall isdig d2.
Definition sign_shape (sg : str) : Prop := sg = [] \/ sg = [43%N] \/ sg = [45%N].

Definition body_shape (b : str) : Prop :=
  exists d1 fr ex, b = d1 ++ fr ++ ex /\ d1 <> [] /\ Forall isdig d1 /\ frac_shape fr /\ exp_shape ex.
Definition num_shape (g : str) : Prop := exists sg b, g = sg ++ b /\ sign_shape sg /\ body_shape b.

Lemma exp_shape_stop ex : exp_shape ex -> stop ex.
Proof. intros [->|(sg & d3 & -> & _)]; [exact I|]. split; [reflexivity | discriminate]. Qed.

Lemma length_pos {A} (l : list A) : l <> [] -> (0 < Z.of_nat (length l))%Z.
Proof. destruct l; [congruence|]. cbn [length]. lia. Qed.

(* the tail of py_float_body after mantissa: stated on the same term *)
Lemma exp_tail neg mant nf ex : exp_shape ex ->
  match ex with
  | [] => Some (dec_to_sf neg mant (- nf))
  | e :: t =>
    if (lower_ascii e =? 101)%N then
      let '(eneg, t') := match t with 45%N :: t' => (true, t') | 43%N :: t' => (false, t') | _ => (false, t) end in
      match scan_digits t' 0 0 false with
      | Some (ev, ne, []) => if (ne =? 0)%Z then None else Some (dec_to_sf neg mant ((if eneg then - ev else ev) - nf))
      | _ => None
      end
    else None
  end <> None.
Proof.
  intros [->|(sg & d3 & -> & S & N3 & F3)]; [discriminate|].
  change (lower_ascii 101 =? 101)%N with true. cbv iota.
  destruct (scan_digits_run d3 [] 0%Z 0%Z false F3 I) as [v E]. rewrite app_nil_r in E.
  pose proof (length_pos d3 N3) as L.
  destruct S as [-> | ->]; cbv beta iota zeta; rewrite E;
    (destruct (0 + Z.of_nat (length d3) =? 0)%Z eqn:Z0; [apply Z.eqb_eq in Z0; lia | discriminate]).
Qed.

Lemma py_float_body_ok neg b : body_shape b -> py_float_body neg b <> None.
Proof.
  intros (d1 & fr & ex & -> & N1 & F1 & FR & EX).
  unfold py_float_body. cbv zeta.
  destruct (str_eqb _ _ || str_eqb _ _); [discriminate|].
  destruct (str_eqb _ _); [discriminate|].
  pose proof (exp_shape_stop ex EX) as SE.
  pose proof (length_pos d1 N1) as L1.
  destruct FR as [-> | (d2 & -> & F2)].
  - (* no fraction *)
    cbn [app].
    destruct (scan_digits_run d1 ex 0%Z 0%Z false F1 SE) as [v E]. rewrite E.
    assert (R : match ex return (Z * Z * str) with
                | 46%N :: t => match scan_digits t 0 0 false return (Z * Z * str) with
                               | Some x => x | None => @pair (Z * Z) str (0%Z, 0%Z) ex end
                | _ => @pair (Z * Z) str (0%Z, 0%Z) ex
                end = @pair (Z * Z) str (0%Z, 0%Z) ex).
    { destruct EX as [->|(sg & d3 & -> & _)]; reflexivity. }
    rewrite R.
    destruct (0 + Z.of_nat (length d1) + 0 =? 0)%Z eqn:Z0; [apply Z.eqb_eq in Z0; lia|].
    apply exp_tail. exact EX.
  - (* fraction *)
    assert (S1 : stop ((46%N :: d2) ++ ex)) by (split; [reflexivity | discriminate]).
    destruct (scan_digits_run d1 _ 0%Z 0%Z false F1 S1) as [v E]. rewrite E.
    cbn [app].
    destruct (scan_digits_run d2 ex 0%Z 0%Z false F2 SE) as [v2 E2]. rewrite E2.
    destruct (0 + Z.of_nat (length d1) + (0 + Z.of_nat (length d2)) =? 0)%Z eqn:Z0; [apply Z.eqb_eq in Z0; lia|].
    apply exp_tail. exact EX.
Qed.

(* strip is the identity on a text without any space character *)
Definition nonspace (c : N) : Prop := U_space c = false.

Lemma lstrip_nonspace s : Forall nonspace s -> lstrip s = s.
Proof. intros F. destruct s as [|c t]; [reflexivity|]. inversion F; subst. cbn [lstrip]. unfold nonspace in *. rewrite H1. reflexivity. Qed.

Lemma strip_nonspace s : Forall nonspace s -> strip s = s.
Proof.
  intros F. unfold strip, rstrip. rewrite (lstrip_nonspace s F).
  rewrite lstrip_nonspace; [apply rev_involutive|]. apply Forall_rev. exact F.
Qed.

Lemma digits_nonspace ds : Forall isdig ds -> Forall nonspace ds.
Proof. apply Forall_impl. intros c H. apply isdig_facts in H. apply H. Qed.

Lemma num_shape_nonspace g : num_shape g -> Forall nonspace g.
Proof.
  intros (sg & b & -> & S & (d1 & fr & ex & -> & _ & F1 & FR & EX)).
  apply Forall_app; split; [|apply Forall_app; split; [|apply Forall_app; split]].
  - destruct S as [->|[->| ->]]; repeat constructor.
  - apply digits_nonspace. exact F1.
  - destruct FR as [->|(d2 & -> & F2)]; [constructor|]. constructor; [reflexivity | apply digits_nonspace; exact F2].
  - destruct EX as [->|(s & d3 & -> & [-> | ->] & _ & F3)]; [constructor| |];
      (constructor; [reflexivity|]; constructor; [reflexivity|]; apply digits_nonspace; exact F3).
Qed.

Theorem py_float_num_shape g : num_shape g -> py_float g <> None.
Proof.
  intros G. unfold py_float. cbv zeta. rewrite (NumSpace.fstrip_id g (num_shape_nonspace g G)).
  destruct G as (sg & b & -> & S & B).
  destruct S as [->|[->| ->]]; cbn [app]; try (apply py_float_body_ok; exact B).
  (* no sign: the text starts with a digit, which is neither '-' nor '+' *)
  assert (H : forall neg, py_float_body neg b <> None) by (intros; apply py_float_body_ok; exact B).
  destruct B as (d1 & fr & ex & E & N1 & F1 & _). destruct d1 as [|d d1]; [congruence|].
  inversion F1; subst. cbn [app] in *.
  match goal with Hd : isdig d |- _ => apply isdig_facts in Hd; destruct Hd as (_ & _ & P & M) end.
  destruct d as [|p]; [apply H|].
  repeat (destruct p as [p|p|]; try apply H); congruence.
Qed.

(* ================= C. inverting the match of the number regex ================= *)
Section Seg.
Variable s : str.

Definition seg (a b : nat) : str := sub_list s a (b - a).

Lemma seg_nil a : seg a a = [].
Proof. unfold seg, sub_list. rewrite Nat.sub_diag. reflexivity. Qed.

Lemma skipn_nth_cons : forall (l : str) a y, nth_error l a = Some y -> skipn a l = y :: skipn (S a) l.
Proof.
  induction l as [|x l IH]; intros a y H; [destruct a; discriminate|].
  destruct a; cbn in H |- *; [inversion H; reflexivity | apply IH; exact H].
Qed.

Lemma seg_cons a b y : nth_error s a = Some y -> a < b -> seg a b = y :: seg (S a) b.
Proof.
  intros H L. unfold seg, sub_list. rewrite (skipn_nth_cons s a y H).
  replace (b - a) with (S (b - S a)) by lia. reflexivity.
Qed.

Lemma firstn_add {A} : forall n m (l : list A), firstn (n + m) l = firstn n l ++ firstn m (skipn n l).
Proof.
  induction n as [|n IH]; intros m l; [reflexivity|].
  destruct l as [|x l]; cbn; [rewrite firstn_nil; reflexivity | rewrite IH; reflexivity].
Qed.

Lemma skipn_add {A} : forall n m (l : list A), skipn m (skipn n l) = skipn (n + m) l.
Proof.
  induction n as [|n IH]; intros m l; [reflexivity|].
  destruct l as [|x l]; cbn; [apply skipn_nil | apply IH].
Qed.

Lemma seg_app a b c : a <= b -> b <= c -> seg a c = seg a b ++ seg b c.
Proof.
  intros L1 L2. unfold seg, sub_list. replace (c - a) with ((b - a) + (c - b)) by lia.
  rewrite firstn_add, skipn_add. replace (a + (b - a)) with b by lia. reflexivity.
Qed.

Lemma seg_length a b : b <= length s -> length (seg a b) = b - a.
Proof. intros L. unfold seg, sub_list. rewrite firstn_length, skipn_length. lia. Qed.

(* a repeat of a one-character class matches a run of characters of the class, leaves the captures alone and respects
   its bounds *)
Lemma rep_class_seg items r pos p c c' : Matches UC s r pos p c c' ->
  forall mn mx, r = RRep mn mx (RIn false items) ->
  c' = c /\ pos <= p /\ mn <= p - pos /\ match mx with Some k => p - pos <= k | None => True end /\
  Forall (fun y => class_match UC false items y = true) (seg pos p).
Proof.
  induction 1; intros mn' mx' E; try discriminate.
  - inversion E; subst. rewrite seg_nil, Nat.sub_diag. repeat split; try lia; [destruct mx'; [lia | exact I] | constructor].
  - inversion E; subst. clear IHMatches1.
    inversion H0; subst.
    destruct (IHMatches2 _ _ eq_refl) as (-> & L & M & X & F).
    split; [reflexivity|]. split; [lia|]. split; [lia|]. split.
    + destruct mx' as [k|]; [|exact I]. cbn in X. destruct k; [congruence | lia].
    + rewrite (seg_cons pos p y) by (assumption || lia). constructor; assumption.
Qed.

Lemma rep01 a pos p c c' :
  Matches UC s (RRep 0 (Some 1) a) pos p c c' -> (p = pos /\ c' = c) \/ Matches UC s a pos p c c'.
Proof.
  intros H. inversion H; subst; [left; split; reflexivity|]. right.
  cbn in *. match goal with H2 : Matches _ _ (RRep 0 (Some 0) _) _ _ _ _ |- _ => inversion H2; subst; [assumption | congruence] end.
Qed.
End Seg.

Lemma digit_class y : class_match UC false [CCat CatDigit] y = true -> isdig y.
Proof. unfold class_match. rewrite xorb_false_l. cbn [existsb item_match cat_match]. rewrite orb_false_r. exact (fun H => H). Qed.

Lemma sign_class y : class_match UC false [CLit 43; CLit 45] y = true -> y = 43%N \/ y = 45%N.
Proof.
  unfold class_match. rewrite xorb_false_l. cbn [existsb item_match]. rewrite orb_false_r. intros H.
  apply orb_true_iff in H. destruct H as [H|H]; apply N.eqb_eq in H; auto.
Qed.

Lemma digits_of_class l : Forall (fun y => class_match UC false [CCat CatDigit] y = true) l -> Forall isdig l.
Proof. apply Forall_impl. exact digit_class. Qed.

Theorem number_group_shape text e c : re_match UC R_EXPR_NUMBER text = MYes e c -> num_shape (grp text c 1).
Proof.
  intros H. apply re_match_sound in H. unfold R_EXPR_NUMBER in H.
  (* ^ \s* ( ... ) *)
  inversion H as [| | | | | | |? ? ? p0 ? ? c0 ? HB H1| | | | | | ]; subst; clear H.
  inversion HB; subst; clear HB.
  inversion H1 as [| | | | | | |? ? ? p1 ? ? c1 ? HS HG| | | | | | ]; subst; clear H1.
  pose proof (Matches_bounds _ _ _ _ _ _ _ HS (Nat.le_0_l _)) as B1.
  inversion HG as [| | | | | | | | | | | |? ? ? ? ? c2 HI|]; subst; clear HG.
  unfold grp, group_text. cbn [cap_get cap_set Nat.eqb]. fold (seg text p1 e).
  (* sign? digit+ frac? exp? *)
  inversion HI as [| | | | | | |? ? ? p2 ? ? c3 ? Hsg HI2| | | | | | ]; subst; clear HI.
  inversion HI2 as [| | | | | | |? ? ? p3 ? ? c4 ? Hd1 HI3| | | | | | ]; subst; clear HI2.
  inversion HI3 as [| | | | | | |? ? ? p4 ? ? c5 ? Hfr Hex| | | | | | ]; subst; clear HI3.
  assert (L1 : p1 <= length text) by lia.
  pose proof (Matches_bounds _ _ _ _ _ _ _ Hsg L1) as B2.
  pose proof (Matches_bounds _ _ _ _ _ _ _ Hd1 ltac:(lia)) as B3.
  pose proof (Matches_bounds _ _ _ _ _ _ _ Hfr ltac:(lia)) as B4.
  pose proof (Matches_bounds _ _ _ _ _ _ _ Hex ltac:(lia)) as B5.
  exists (seg text p1 p2), (seg text p2 e). split; [apply seg_app; lia|]. split.
  - (* sign *)
    destruct (rep_class_seg text _ _ _ _ _ _ Hsg _ _ eq_refl) as (_ & _ & _ & X & F).
    pose proof (seg_length text p1 p2 ltac:(lia)) as SL.
    destruct (seg text p1 p2) as [|y [|z t]]; cbn [length] in SL; [left; reflexivity| |lia].
    inversion F; subst. right. match goal with Hy : class_match _ _ _ y = true |- _ => apply sign_class in Hy; destruct Hy as [-> | ->]; auto end.
  - exists (seg text p2 p3), (seg text p3 p4), (seg text p4 e).
    split; [rewrite <- seg_app by lia; apply seg_app; lia|].
    destruct (rep_class_seg text _ _ _ _ _ _ Hd1 _ _ eq_refl) as (_ & _ & M1 & _ & F1).
    split; [|split; [apply digits_of_class; exact F1|split]].
    + intros E0. pose proof (seg_length text p2 p3 ltac:(lia)) as SL. rewrite E0 in SL. cbn in SL. lia.
    + (* fraction *)
      apply rep01 in Hfr. destruct Hfr as [[-> _]|Hfr]; [left; apply seg_nil|]. right.
      inversion Hfr as [| | | | | | |? ? ? q ? ? c6 ? Hdot Hd2| | | | | | ]; subst; clear Hfr.
      inversion Hdot; subst; clear Hdot.
      destruct (rep_class_seg text _ _ _ _ _ _ Hd2 _ _ eq_refl) as (_ & L & _ & _ & F2).
      exists (seg text (S p3) p4). split; [apply seg_cons; [assumption | lia] | apply digits_of_class; exact F2].
    + (* exponent *)
      apply rep01 in Hex. destruct Hex as [[-> _]|Hex]; [left; apply seg_nil|]. right.
      inversion Hex as [| | | | | | |? ? ? q ? ? c6 ? He Hex2| | | | | | ]; subst; clear Hex.
      inversion He; subst; clear He.
      inversion Hex2 as [| | | | | | |? ? ? q2 ? ? c7 ? Hs2 Hd3| | | | | | ]; subst; clear Hex2.
      inversion Hs2; subst; clear Hs2.
      destruct (rep_class_seg text _ _ _ _ _ _ Hd3 _ _ eq_refl) as (_ & L & M3 & _ & F3).
      match goal with Hy : class_match _ _ _ ?y = true |- _ => exists y, (seg text (S (S p4)) e); apply sign_class in Hy end.
      split; [|split; [assumption|split; [|apply digits_of_class; exact F3]]].
      * rewrite (seg_cons text p4 e 101%N) by (assumption || lia). f_equal. apply seg_cons; [assumption | lia].
      * intros E0. pose proof (seg_length text (S (S p4)) e ltac:(lia)) as SL. rewrite E0 in SL. cbn in SL. lia.
Qed.

Theorem number_literal_parses text e c :
  re_match UC R_EXPR_NUMBER text = MYes e c -> py_float (grp text c 1) <> None.
Proof. intros H. apply py_float_num_shape. eapply number_group_shape. exact H. Qed.
