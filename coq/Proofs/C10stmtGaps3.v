(* Proofs/C10stmtGaps3.v — INNER gaps, continued: the system include  include <url>.

     classify_include_system_shape   classify n (w1 ++ "include" ++ w2 ++ "<" ++ url ++ ">" ++ w4) = ROk (KInclude url true)

   for all white runs w1 w2 w4 (w2 non-empty) and every url without `>`. *)
From Coq Require Import Lia.
From BS Require Import Model.Base Model.Regex Model.Num Model.NumText Model.ExprParser Model.Script Model.Lower Gen.Unicode Gen.Regexes
  Proofs.RegexFacts Proofs.RegexComplete Proofs.RegexShift Proofs.RegexEval Proofs.C02rx Proofs.C10ws Proofs.C10wsExpr
  Proofs.C10wsFull Proofs.C10wsIndent Proofs.C10wsIndent2 Proofs.C10tokSpaced Proofs.RegexTrail Proofs.C10tokTrail Proofs.RegexTrail2
  Proofs.RegexTrail3 Proofs.C10stmtTrail Proofs.C10parseNoeq Proofs.C10classifyTrail Proofs.C10stmtGaps Proofs.C10stmtGaps2.

Definition KW_INCLUDE : str := [105; 110; 99; 108; 117; 100; 101]%N.
Definition TQ : regex :=
  RCat (RGroup 1 (RLit 39)) (RCat (RGroup 2 (RRep 0 None (RAlt (RCat (RLit 92) (RLit 39)) (RNotLit 39)))) (RCat (RLit 39) (RCat rsp REol))).
Definition TS : regex :=
  RCat (RGroup 1 (RLit 60)) (RCat (RGroup 2 (RRep 0 None (RNotLit 62))) (RCat (RLit 62) (RCat rsp REol))).

Lemma shape_include : R_SCRIPT_INCLUDE = RCat RBol (RCat rsp (lits KW_INCLUDE (RCat plus_sp TQ))). Proof. reflexivity. Qed.
Lemma shape_include_system : R_SCRIPT_INCLUDE_SYSTEM = RCat RBol (RCat rsp (lits KW_INCLUDE (RCat plus_sp TS))). Proof. reflexivity. Qed.

(* ^\s*include\s+ K  on  w1 include w2 r  with r not starting with a space, K refusing a leading space *)
Lemma include_prefix_read T w1 z2 w2 r : white w1 -> white (z2 :: w2) -> hd_ok is_sp r ->
  (forall q z t c, is_sp z = true -> ev UC T q (z :: t) c kfin = MNo) ->
  ev UC (RCat RBol (RCat rsp (lits KW_INCLUDE (RCat plus_sp T)))) 0 (w1 ++ KW_INCLUDE ++ (z2 :: w2) ++ r) [] kfin
  = ev UC T (length w1 + 7 + length (z2 :: w2)) r [] kfin.
Proof.
  intros W1 W2 HR K. rewrite ev_cat, ev_bol. cbn [Nat.eqb]. rewrite ev_cat.
  unfold rsp at 1. rewrite (ev_star UC _ _ (one_in UC false _)). fold cmWs.
  rewrite star_bt_longest.
  2:{ right. intros q z t c Sz. rewrite cmWs_is in Sz. apply lits_refuse. intros ->. unfold is_sp in Sz. rewrite sp105 in Sz. discriminate. }
  rewrite span_cmWs. rewrite (span_sp_stop' w1 _ W1) by (cbn [app hd_ok KW_INCLUDE]; exact sp105). cbn [fst snd].
  rewrite ev_lits. rewrite ev_cat. unfold plus_sp. rewrite (ev_plus UC _ _ (one_in UC false _)). fold cmWs.
  cbn [app]. rewrite cmWs_is. destruct (white_cons _ _ W2) as [S2 W2']. unfold is_sp at 1. rewrite S2.
  rewrite star_bt_longest.
  2:{ right. intros q z t c Sz. rewrite cmWs_is in Sz. apply K. exact Sz. }
  rewrite span_cmWs, (span_sp_stop' w2 r W2' HR). cbn [fst snd]. f_equal. cbn [length KW_INCLUDE]. lia.
Qed.

Lemma sp39 : is_space UC 39 = false. Proof. vm_compute. reflexivity. Qed.
Lemma sp60 : is_space UC 60 = false. Proof. vm_compute. reflexivity. Qed.

Lemma TQ_read p r c : ev UC TQ p r c kfin = match r with y :: t => if (y =? 39)%N then ev UC TQ p r c kfin else MNo | [] => MNo end.
Proof.
  destruct r as [|y t]; [reflexivity|]. destruct (y =? 39)%N eqn:E; [reflexivity|].
  unfold TQ. rewrite ev_cat, ev_group. rewrite (ev_one UC _ _ (one_lit UC _)). rewrite E. reflexivity.
Qed.

Definition not62 (y : N) : bool := negb (y =? 62)%N.

Lemma TS_read p url w4 c : forallb not62 url = true -> white w4 ->
  ev UC TS p (60%N :: url ++ 62%N :: w4) c kfin
  = MYes (p + 1 + length url + 1 + length w4) (cap_set 2 (p + 1, p + 1 + length url) (cap_set 1 (p, p + 1) c)).
Proof.
  intros NU W4. unfold TS. rewrite ev_cat, ev_group. rewrite (ev_one UC _ _ (one_lit UC _)), N.eqb_refl.
  rewrite ev_cat, ev_group. rewrite (ev_star UC _ _ (one_notlit UC _)). change (fun y : N => negb (y =? 62)%N) with not62.
  assert (SP : span not62 (url ++ 62%N :: w4) = (length url, 62%N :: w4)).
  { clear -NU. induction url as [|y u IH]; cbn [app span length forallb] in *; [reflexivity|].
    apply andb_true_iff in NU. destruct NU as [N1 N2]. rewrite N1, (IH N2). reflexivity. }
  assert (V : ev UC (RCat (RLit 62) (RCat rsp REol)) (S p + length url) (62%N :: w4) (cap_set 2 (S p, S p + length url) (cap_set 1 (p, S p) c)) kfin
              = MYes (S (S p + length url) + length w4) (cap_set 2 (S p, S p + length url) (cap_set 1 (p, S p) c))).
  { rewrite ev_cat. rewrite (ev_one UC _ _ (one_lit UC _)), N.eqb_refl. rewrite ev_eol_tail, (white_forallb_sp w4 W4). reflexivity. }
  rewrite star_bt_longest; rewrite SP; cbn [fst snd].
  - rewrite V. unfold cap_set. repeat (f_equal; try lia).
  - left. rewrite V. discriminate.
Qed.

Theorem classify_include_system_shape n w1 w2 url w4 : white w1 -> white w2 -> w2 <> [] -> white w4 ->
  (forall c, In c url -> c <> 62%N) ->
  classify n (w1 ++ U "include" ++ w2 ++ U "<" ++ url ++ U ">" ++ w4) = ROk (KInclude url true).
Proof.
  intros W1 W2 N2 W4 NU.
  destruct w2 as [|z2 w2']; [congruence|].
  assert (NU' : forallb not62 url = true).
  { apply forallb_forall. intros c I. unfold not62. destruct (c =? 62)%N eqn:E; [|reflexivity]. apply N.eqb_eq in E. exfalso. exact (NU c I E). }
  change (U "include") with KW_INCLUDE. change (U "<") with [60%N]. change (U ">") with [62%N].
  set (r0 := url ++ [62%N] ++ w4).
  pose proof (assign_nomatch_kw w1 105 [110; 99; 108; 117; 100; 101]%N z2 w2' 60 r0 W1 eq_refl eq_refl W2 sp60 ltac:(discriminate)) as EA.
  assert (EL : rxm R_SCRIPT_LABEL (w1 ++ KW_INCLUDE ++ (z2 :: w2') ++ 60%N :: r0) = MNo).
  { apply label_nomatch; try assumption; try reflexivity; [|discriminate].
    cbn [app hd_ok]. destruct (white_cons _ _ W2) as [S _]. exact (space_not_word z2 S). }
  assert (EQ : rxm R_SCRIPT_INCLUDE (w1 ++ KW_INCLUDE ++ (z2 :: w2') ++ 60%N :: r0) = MNo).
  { unfold rxm. rewrite re_match_ev, shape_include. rewrite (include_prefix_read TQ w1 z2 w2' (60%N :: r0) W1 W2 sp60).
    - rewrite TQ_read. reflexivity.
    - intros q z t c Sz. rewrite TQ_read. destruct (z =? 39)%N eqn:E; [|reflexivity]. apply N.eqb_eq in E. subst z.
      unfold is_sp in Sz. rewrite sp39 in Sz. discriminate. }
  assert (ES : rxm R_SCRIPT_INCLUDE_SYSTEM (w1 ++ KW_INCLUDE ++ (z2 :: w2') ++ 60%N :: r0)
               = MYes (length w1 + 7 + length (z2 :: w2') + 1 + length url + 1 + length w4)
                   (cap_set 2 (length w1 + 7 + length (z2 :: w2') + 1, length w1 + 7 + length (z2 :: w2') + 1 + length url)
                      (cap_set 1 (length w1 + 7 + length (z2 :: w2'), length w1 + 7 + length (z2 :: w2') + 1) []))).
  { unfold rxm. rewrite re_match_ev, shape_include_system. rewrite (include_prefix_read TS w1 z2 w2' (60%N :: r0) W1 W2 sp60).
    - subst r0. exact (TS_read _ url w4 [] NU' W4).
    - intros q z t c Sz. unfold TS. rewrite ev_cat, ev_group. rewrite (ev_one UC _ _ (one_lit UC _)).
      destruct (z =? 60)%N eqn:E; [|reflexivity]. apply N.eqb_eq in E. subst z. unfold is_sp in Sz. rewrite sp60 in Sz. discriminate. }
  set (cc := cap_set 2 (length w1 + 7 + length (z2 :: w2') + 1, length w1 + 7 + length (z2 :: w2') + 1 + length url)
               (cap_set 1 (length w1 + 7 + length (z2 :: w2'), length w1 + 7 + length (z2 :: w2') + 1) [])) in *.
  assert (G2 : gtext (w1 ++ KW_INCLUDE ++ (z2 :: w2') ++ 60%N :: r0) cc R_SCRIPT_INCLUDE_SYSTEM__url = url).
  { unfold gtext, group_text. change R_SCRIPT_INCLUDE_SYSTEM__url with 2. subst cc. cbn [cap_get cap_set Nat.eqb].
    replace (length w1 + 7 + length (z2 :: w2') + 1 + length url - (length w1 + 7 + length (z2 :: w2') + 1)) with (length url) by lia.
    subst r0.
    replace (w1 ++ KW_INCLUDE ++ (z2 :: w2') ++ 60%N :: url ++ [62%N] ++ w4)
      with ((w1 ++ KW_INCLUDE ++ (z2 :: w2') ++ [60%N]) ++ url ++ ([62%N] ++ w4)) by (repeat rewrite <- app_assoc; reflexivity).
    replace (length w1 + 7 + length (z2 :: w2') + 1) with (length (w1 ++ KW_INCLUDE ++ (z2 :: w2') ++ [60%N]))
      by (repeat rewrite app_length; cbn [length KW_INCLUDE]; lia).
    apply sub_list_at. }
  subst r0. unfold KW_INCLUDE in *. cbn [app] in *.
  set (t1 := 99%N :: 108%N :: 117%N :: 100%N :: 101%N :: z2 :: w2' ++ 60%N :: url ++ 62%N :: w4) in *.
  set (t0 := 110%N :: t1) in *.
  assert (EB : rxm R_SCRIPT_FUNCTION_BEGIN (w1 ++ 105%N :: t0) = MNo) by (apply fn_begin_nomatch; [exact W1 | apply rxm_rejects; reflexivity]).
  assert (E1 : rxm R_SCRIPT_FUNCTION_END (w1 ++ 105%N :: t0) = MNo) by tokno R_SCRIPT_FUNCTION_END W1.
  assert (E2 : rxm R_SCRIPT_IF_BEGIN (w1 ++ 105%N :: t0) = MNo).
  { rewrite (rxm_tok R_SCRIPT_IF_BEGIN _ w1 _ eq_refl eq_refl W1).
    assert (Z : rxm R_SCRIPT_IF_BEGIN (105%N :: 110%N :: t1) = MNo) by (unfold rxm; rewrite re_match_ev; vm_compute; reflexivity).
    subst t0. rewrite Z. reflexivity. }
  assert (E3 : rxm R_SCRIPT_IF_ELSE_IF (w1 ++ 105%N :: t0) = MNo) by tokno R_SCRIPT_IF_ELSE_IF W1.
  assert (E4 : rxm R_SCRIPT_IF_ELSE (w1 ++ 105%N :: t0) = MNo) by tokno R_SCRIPT_IF_ELSE W1.
  assert (E5 : rxm R_SCRIPT_IF_END (w1 ++ 105%N :: t0) = MNo) by tokno R_SCRIPT_IF_END W1.
  assert (E6 : rxm R_SCRIPT_WHILE_BEGIN (w1 ++ 105%N :: t0) = MNo) by tokno R_SCRIPT_WHILE_BEGIN W1.
  assert (E7 : rxm R_SCRIPT_WHILE_END (w1 ++ 105%N :: t0) = MNo) by tokno R_SCRIPT_WHILE_END W1.
  assert (E8 : rxm R_SCRIPT_FOR_BEGIN (w1 ++ 105%N :: t0) = MNo) by tokno R_SCRIPT_FOR_BEGIN W1.
  assert (E9 : rxm R_SCRIPT_FOR_END (w1 ++ 105%N :: t0) = MNo) by tokno R_SCRIPT_FOR_END W1.
  assert (E10 : rxm R_SCRIPT_BREAK (w1 ++ 105%N :: t0) = MNo) by tokno R_SCRIPT_BREAK W1.
  assert (E11 : rxm R_SCRIPT_CONTINUE (w1 ++ 105%N :: t0) = MNo) by tokno R_SCRIPT_CONTINUE W1.
  assert (EJ : rxm R_SCRIPT_JUMP (w1 ++ 105%N :: t0) = MNo) by (apply jump_nomatch; [exact W1 | apply rxm_rejects; reflexivity]).
  assert (ER : rxm R_SCRIPT_RETURN (w1 ++ 105%N :: t0) = MNo) by (apply return_nomatch; [exact W1 | apply rxm_rejects; reflexivity]).
  unfold classify. rewrite EA, EB, E1, E2, E3, E4, E5, E6, E7, E8, E9, E10, E11, EL, EJ, ER, EQ, ES. rewrite G2. reflexivity.
Qed.
