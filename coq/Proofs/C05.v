(* Proofs/C05.v — containment: evaluating an expression or executing a statement list never lets a host exception
   (OExc) escape, whatever the library does; a failed call evaluates to null / the documented failure value and
   evaluation goes on. *)
From Coq Require Import Lia ZArith.
From BS Require Import Model.Base Model.Num Model.Arith Model.ExprParser Model.Script Model.Interp Proofs.InterpEq.

Definition no_exc (o : outcome) : Prop := forall r m, o <> OExc r m.

Lemma no_exc_val v : no_exc (OVal v). Proof. intros r m H; discriminate. Qed.
Lemma no_exc_rt s : no_exc (ORt s). Proof. intros r m H; discriminate. Qed.
Lemma no_exc_fuel : no_exc OFuel. Proof. intros r m H; discriminate. Qed.
Lemma no_exc_oracle : no_exc OOracle. Proof. intros r m H; discriminate. Qed.
Lemma no_exc_parse e u : no_exc (OParse e u). Proof. intros r m H; discriminate. Qed.
#[global] Hint Resolve no_exc_val no_exc_rt no_exc_fuel no_exc_oracle no_exc_parse : noexc.

Lemma of_ares_no_exc r : no_exc (of_ares r).
Proof. destruct r; cbn; auto with noexc. Qed.

Lemma relop_no_exc w a b t : no_exc (relop w a b t).
Proof. unfold relop. destruct (vcompare _ w a b); auto with noexc. Qed.

Lemma concat_str_no_exc l r b : no_exc (concat_str l r b).
Proof. destruct r; cbn; auto with noexc. Qed.

Lemma date_add_ms_no_exc us n : no_exc (date_add_ms us n).
Proof.
  unfold date_add_ms. destruct (match n with NInt z => Some z | NFlt f => sf_integral f end).
  - destruct (_ <=? _)%Z; auto with noexc. destruct (_ && _)%bool; auto with noexc.
  - destruct n; auto with noexc. destruct (sf_is_finite f); auto with noexc.
Qed.

Lemma date_sub_no_exc a b : no_exc (date_sub a b).
Proof. unfold date_sub. cbv zeta. destruct (sf_trunc _); auto with noexc. Qed.

(* the operators themselves never fail: every Python exception of the operator block is turned into null *)
Lemma binop_no_exc op w a b : no_exc (binop op w a b).
Proof.
  unfold binop.
  repeat match goal with |- no_exc (if ?c then _ else _) => destruct c end;
    try apply relop_no_exc;
    repeat match goal with
           | |- no_exc (of_ares _) => apply of_ares_no_exc
           | |- no_exc (concat_str _ _ _) => apply concat_str_no_exc
           | |- no_exc (date_add_ms _ _) => apply date_add_ms_no_exc
           | |- no_exc (date_sub _ _) => apply date_sub_no_exc
           | |- no_exc (match ?x with _ => _ end) => destruct x
           | |- _ => solve [auto with noexc]
           end.
Qed.

Section Contain.
Variable cfg : config.
Variable lib : caller -> str -> list value -> world -> lres * world.
Variable url_rel : str -> str -> str.
Variable lint_lines : script -> list str.

(* PREMISE (discharged by C06 for the parser model): parsing an included text never lets a host exception escape *)
Definition parser_contained : Prop := forall txt what, parse_script [txt] 1 <> RHost what.
Hypothesis Hparse : parser_contained.

Definition ev_ok (ev : evalT) : Prop := forall e loc bi um w, no_exc (fst (ev e loc bi um w)).
Definition ex_ok (ex : execT) : Prop := forall code pc cache loc um w, no_exc (fst (fst (ex code pc cache loc um w))).

Lemma eval_args_ok ev loc bi um : ev_ok ev -> forall l w acc o w1, eval_args ev loc bi um l w acc = (inl o, w1) -> no_exc o.
Proof.
  intros Hev. induction l as [|a t IH]; intros w acc o w1 H; cbn [eval_args] in H; [discriminate|].
  pose proof (Hev a loc bi um w) as Ha. destruct (ev a loc bi um w) as [oa wa]. cbn [fst] in Ha.
  destruct oa; try (injection H as <- <-; exact Ha). eapply IH. exact H.
Qed.

(* for ANY call function cl - i.e. whatever the library or a host function does, including raising *)
Lemma eval_body_ok ev (cl : callT) : ev_ok ev -> ev_ok (eval_body cfg ev cl).
Proof.
  intros Hev e loc bi um w. destruct e as [n|s|x|name args|op l r|op e1|e1]; cbn [eval_body fst]; auto with noexc.
  - (* ECall *)
    destruct (op_is name "if").
    + cbv zeta.
      assert (H0 : no_exc (fst (match nth_error args 0 with Some ve => ev ve loc bi um w | None => (OVal (VBool false), w) end))).
      { destruct (nth_error args 0); [apply Hev|cbn; auto with noexc]. }
      destruct (match nth_error args 0 with Some ve => ev ve loc bi um w | None => (OVal (VBool false), w) end) as [o w1].
      cbn [fst] in H0. destruct o; cbn [fst]; auto with noexc.
      destruct (if truthy w1 v then nth_error args 1 else nth_error args 2) as [re|]; [apply Hev|cbn; auto with noexc].
    + destruct (eval_args ev loc bi um args w []) as [[o|vs] w1] eqn:Ea; cbn [fst].
      * eapply eval_args_ok; eassumption.
      * destruct (lookup_fn name loc bi w1) as [fv|]; cbn [fst]; auto with noexc.
        destruct fv; cbn [fst]; auto with noexc;
          (destruct (cl _ vs um w1) as [o2 w2]; destruct o2; cbn [fst]; auto with noexc).
  - (* EBin *)
    pose proof (Hev l loc bi um w) as H0. destruct (ev l loc bi um w) as [o w1]. cbn [fst] in H0.
    destruct o; cbn [fst]; auto with noexc; try exact H0.
    destruct (op_is op "&&"). { destruct (truthy w1 v); [apply Hev|cbn; auto with noexc]. }
    destruct (op_is op "||"). { destruct (truthy w1 v); [cbn; auto with noexc|apply Hev]. }
    pose proof (Hev r loc bi um w1) as H1. destruct (ev r loc bi um w1) as [o2 w2]. cbn [fst] in H1.
    destruct o2; cbn [fst]; auto with noexc; try exact H1. apply binop_no_exc.
  - (* EUn *)
    pose proof (Hev e1 loc bi um w) as H0. destruct (ev e1 loc bi um w) as [o w1]. cbn [fst] in H0.
    destruct o; cbn [fst]; auto with noexc; exact H0.
Qed.

Lemma run_incs_ok ex um : ex_ok ex -> forall l w o w1, run_incs cfg url_rel lint_lines ex um l w = (Some o, w1) -> no_exc o.
Proof.
  intros Hex. induction l as [|[u sys] t IH]; intros w o w1 H; cbn [run_incs] in H; [discriminate|].
  set (url := match sys, c_sysprefix cfg with true, Some p => url_rel p u | _, _ => if has_urlfn cfg um then apply_urlfn cfg url_rel um u else u end) in *.
  destruct (c_fetch cfg) as [fetch|]; [|injection H as <- <-; auto with noexc].
  destruct (fetch url) as [txt|]; [|injection H as <- <-; auto with noexc].
  destruct (parse_script [txt] 1) as [sc|pe|what|] eqn:Ep.
  - match type of H with context [ex sc 0%nat [] None (UBase url) ?w2] =>
      pose proof (Hex sc 0%nat [] None (UBase url) w2) as H3; destruct (ex sc 0%nat [] None (UBase url) w2) as [[o3 l3] w3] end.
    cbn [fst] in H3. destruct o3; try (injection H as <- <-; exact H3). eapply IH; exact H.
  - injection H as <- <-. auto with noexc.
  - exfalso. exact (Hparse _ _ Ep).
  - injection H as <- <-. auto with noexc.
Qed.

Lemma exec_body_ok ev ex : ev_ok ev -> ex_ok ex -> ex_ok (exec_body cfg url_rel lint_lines ev ex).
Proof.
  intros Hev Hex code pc cache loc um w. unfold exec_body.
  destruct (nth_error code pc) as [st|]; [|cbn; auto with noexc]. cbv zeta.
  set (w0 := upd_count w (w_count w + 1)).
  destruct ((0 <? c_max cfg)%Z && (c_max cfg <? w_count w0)%Z)%bool; [cbn; auto with noexc|].
  destruct st as [name e|label cond|re|lname|fname fargs fasync flast fbody|incs].
  - pose proof (Hev e loc false um w0) as H1. destruct (ev e loc false um w0) as [o w1]. cbn [fst] in H1.
    destruct o; cbn [fst]; auto with noexc; try exact H1.
    destruct name as [x|]; [destruct loc as [l|]|]; apply Hex.
  - destruct cond as [c|].
    + pose proof (Hev c loc false um w0) as H1. destruct (ev c loc false um w0) as [o w1]. cbn [fst] in H1.
      destruct o; cbn [fst]; auto with noexc; try exact H1.
      destruct (truthy w1 v); [|apply Hex].
      destruct (assoc label cache); [apply Hex|]. destruct (find_label label code); [apply Hex|cbn; auto with noexc].
    + destruct (assoc label cache); [apply Hex|]. destruct (find_label label code); [apply Hex|cbn; auto with noexc].
  - destruct re as [e|]; [|cbn; auto with noexc].
    pose proof (Hev e loc false um w0) as H1. destruct (ev e loc false um w0) as [o w1]. exact H1.
  - apply Hex.
  - apply Hex.
  - destruct (run_incs cfg url_rel lint_lines ex um incs w0) as [[o|] w1] eqn:Er; [|apply Hex].
    cbn [fst]. eapply run_incs_ok; eassumption.
Qed.

Notation eval := (eval cfg lib url_rel lint_lines).
Notation exec := (exec cfg lib url_rel lint_lines).

Theorem contained : forall fuel, ev_ok (eval fuel) /\ ex_ok (exec fuel).
Proof.
  induction fuel as [|f (He & Hx)].
  - split; intro; intros; cbn; auto with noexc.
  - split.
    + intros e loc bi um w. rewrite eval_S. apply eval_body_ok. exact He.
    + intros code pc cache loc um w. rewrite exec_S. apply exec_body_ok; assumption.
Qed.

(* a call that fails - the library function or host function raises anything but a runtime / parser error, reports an
   argument error, or the value is not callable - evaluates to null or to the documented failure value, is reported
   through logFn in debug mode, and evaluation continues with the world the call left behind *)
Lemma failed_call_is_null_and_continues : forall f name args loc bi um w vs w1 fv ret msg w2,
  op_is name "if" = false ->
  eval_args (eval f) loc bi um args w [] = (inr vs, w1) ->
  lookup_fn name loc bi w1 = Some fv -> fv <> VNull ->
  call cfg lib url_rel lint_lines f fv vs um w1 = (OExc ret msg, w2) ->
  eval (S f) (ECall name args) loc bi um w = (OVal ret, log_if cfg (c_debug cfg) w2 (msg_fn_failed name msg)).
Proof.
  intros f name args loc bi um w vs w1 fv ret msg w2 Hif Ha Hl Hnn Hc.
  rewrite eval_S. cbn [eval_body]. rewrite Hif, Ha, Hl.
  destruct fv; try congruence; rewrite Hc; reflexivity.
Qed.

(* what the call wrapper sees when the library reports an argument error / raises *)
Lemma lib_args_error_is_failure_value : forall f name args um w ret msg w1,
  lib (fun fv' args' w' => call cfg lib url_rel lint_lines f fv' args' um w') name args w = (LArgs ret msg, w1) ->
  call cfg lib url_rel lint_lines (S f) (VFun (FLib name)) args um w = (OExc ret msg, w1).
Proof. intros. rewrite call_S. cbn [call_body]. rewrite H. reflexivity. Qed.

Lemma lib_raise_is_null : forall f name args um w msg w1,
  lib (fun fv' args' w' => call cfg lib url_rel lint_lines f fv' args' um w') name args w = (LRaise msg, w1) ->
  call cfg lib url_rel lint_lines (S f) (VFun (FLib name)) args um w = (OExc VNull msg, w1).
Proof. intros. rewrite call_S. cbn [call_body]. rewrite H. reflexivity. Qed.

End Contain.
