(* Proofs/C12.v — one number type: the int and float spellings of an integral number are interchangeable. *)
From Coq Require Import Lia ZifyBool SpecFloat.
From BS Require Import Model.Base Model.Num Model.LibVal Gen.ArgSpecs Model.LibSeq Proofs.BaseFacts Proofs.C15.
Local Open Scope Z_scope.

(* two spellings of the same number: identical, or both integral with the same exact value *)
Definition nsim (a b : num) : Prop := a = b \/ exists z, integral a z /\ integral b z.

Lemma nsim_int_float : forall z f, integral (NFlt f) z -> nsim (NInt z) (NFlt f).
Proof. intros. right. exists z. split; auto using integral_int. Qed.

Lemma num_le_integral : forall n z w, integral n z -> num_le n (NInt w) = (z <=? w).
Proof. intros. unfold num_le. rewrite (num_cmp_integral _ _ w H). destruct (Z.compare_spec z w); lia. Qed.

Lemma py_int_sim : forall a b, nsim a b -> py_int a = py_int b.
Proof. intros a b [->|(z & [A _] & [B _])]; congruence. Qed.
Lemma num_gt_sim : forall a b w, nsim a b -> num_gt a (NInt w) = num_gt b (NInt w).
Proof. intros a b w [->|(z & A & B)]; auto. rewrite (num_gt_integral _ _ _ A), (num_gt_integral _ _ _ B). reflexivity. Qed.
Lemma num_ge_sim : forall a b w, nsim a b -> num_ge a (NInt w) = num_ge b (NInt w).
Proof. intros a b w [->|(z & A & B)]; auto. rewrite (num_ge_integral _ _ _ A), (num_ge_integral _ _ _ B). reflexivity. Qed.
Lemma num_lt_sim : forall a b w, nsim a b -> num_lt a (NInt w) = num_lt b (NInt w).
Proof. intros a b w [->|(z & A & B)]; auto. rewrite (num_lt_integral _ _ _ A), (num_lt_integral _ _ _ B). reflexivity. Qed.
Lemma num_le_sim : forall a b w, nsim a b -> num_le a (NInt w) = num_le b (NInt w).
Proof. intros a b w [->|(z & A & B)]; auto. rewrite (num_le_integral _ _ _ A), (num_le_integral _ _ _ B). reflexivity. Qed.
Lemma index_guard_sim : forall a b k, nsim a b -> index_guard (VNum a) k = index_guard (VNum b) k.
Proof. intros a b k [->|(z & A & B)]; auto. rewrite (index_guard_integral _ _ _ A), (index_guard_integral _ _ _ B). reflexivity. Qed.

(* every bound of the argument is an integer constant (true of every numeric bound in library.py: obligation below) *)
Definition int_bound (b : option lit) : bool := match b with None => true | Some (LInt _) => true | _ => false end.
Definition int_bounds (sp : argspec) : bool :=
  int_bound (as_lt sp) && int_bound (as_lte sp) && int_bound (as_gt sp) && int_bound (as_gte sp).

Lemma bound_fails_sim : forall test a b bd,
  (forall w, test a (NInt w) = test b (NInt w)) -> int_bound bd = true -> bound_fails test a bd = bound_fails test b bd.
Proof. intros test a b [[w| | |]|] T I; simpl in *; try discriminate; auto. rewrite T. reflexivity. Qed.

Lemma number_fails_sim : forall sp a b, int_bounds sp = true -> nsim a b -> number_fails sp a = number_fails sp b.
Proof.
  intros sp a b IB S. unfold int_bounds in IB. repeat (apply andb_true_iff in IB; destruct IB as [IB ?]).
  unfold number_fails.
  rewrite (bound_fails_sim num_lt a b), (bound_fails_sim num_le a b), (bound_fails_sim num_gt a b), (bound_fails_sim num_ge a b);
    auto using num_lt_sim, num_le_sim, num_gt_sim, num_ge_sim.
  destruct S as [->|(z & [A1 A2] & [B1 B2])]; auto. rewrite A1, B1, A2, B2. reflexivity.
Qed.

(* obligation on the generated table: every numeric bound in library.py is an integer constant *)
Lemma table_bounds_are_integers : forallb (fun e => forallb int_bounds (fst (snd e))) gen_arg_specs = true.
Proof. vm_compute. reflexivity. Qed.

(* ---- per function: respelling an integer argument changes nothing (result, failure, heap) ------------------------- *)
Ltac break_var := match goal with |- context [match ?x with _ => _ end] => is_var x; destruct x end.
Ltac break_goal := match goal with |- context [match ?x with _ => _ end] => destruct x eqn:? end.
Ltac sim_rw n1 n2 H :=
  first [ rewrite (number_fails_sim _ n1 n2) by (first [reflexivity | exact H])
        | rewrite (index_guard_sim n1 n2 _ H)
        | rewrite (py_int_sim n1 n2 H)
        | rewrite (num_gt_sim n1 n2 _ H)
        | rewrite (num_ge_sim n1 n2 _ H) ].
Ltac spell_go n1 n2 H :=
  repeat first
    [ reflexivity
    | sim_rw n1 n2 H
    | progress cbn [args_validate as_last as_default as_type as_nullable type_ok negb as_num vcons lit_value fail_value vint stuck]
    | break_var
    | match goal with |- context [number_fails ?sp ?n] => destruct (number_fails sp n) as [[]|] end
    | match goal with |- context [value_boolean ?h ?v] => destruct (value_boolean h v) end
    | match goal with |- context [hget ?h ?l] => destruct (hget h l) as [[?|?]|] end
    | match goal with |- context [index_guard ?v ?k] => destruct (index_guard v k) as [[?|]|] end
    | match goal with |- context [py_int ?n] => destruct (py_int n) end
    | break_goal ].
Ltac spell name k n1 n2 H := open_lib name; table_entry name k; unfold k; spell_go n1 n2 H.

Theorem spell_arrayGet : forall h a n1 n2 rest, nsim n1 n2 ->
  lib (U "arrayGet") (a :: VNum n1 :: rest) h = lib (U "arrayGet") (a :: VNum n2 :: rest) h.
Proof. intros h a n1 n2 rest H. spell (U "arrayGet") k_arrayGet n1 n2 H. Qed.
Theorem spell_arrayDelete : forall h a n1 n2 rest, nsim n1 n2 ->
  lib (U "arrayDelete") (a :: VNum n1 :: rest) h = lib (U "arrayDelete") (a :: VNum n2 :: rest) h.
Proof. intros h a n1 n2 rest H. spell (U "arrayDelete") k_arrayDelete n1 n2 H. Qed.
Theorem spell_arraySet : forall h a n1 n2 rest, nsim n1 n2 ->
  lib (U "arraySet") (a :: VNum n1 :: rest) h = lib (U "arraySet") (a :: VNum n2 :: rest) h.
Proof. intros h a n1 n2 rest H. spell (U "arraySet") k_arraySet n1 n2 H. Qed.
Theorem spell_arrayIndexOf : forall h a v n1 n2 rest, nsim n1 n2 ->
  lib (U "arrayIndexOf") (a :: v :: VNum n1 :: rest) h = lib (U "arrayIndexOf") (a :: v :: VNum n2 :: rest) h.
Proof. intros h a v n1 n2 rest H. spell (U "arrayIndexOf") k_arrayIndexOf n1 n2 H. Qed.
Theorem spell_arrayLastIndexOf : forall h a v n1 n2 rest, nsim n1 n2 ->
  lib (U "arrayLastIndexOf") (a :: v :: VNum n1 :: rest) h = lib (U "arrayLastIndexOf") (a :: v :: VNum n2 :: rest) h.
Proof. intros h a v n1 n2 rest H. spell (U "arrayLastIndexOf") k_arrayLastIndexOf n1 n2 H. Qed.
Theorem spell_arrayNewSize : forall h n1 n2 rest, nsim n1 n2 ->
  lib (U "arrayNewSize") (VNum n1 :: rest) h = lib (U "arrayNewSize") (VNum n2 :: rest) h.
Proof. intros h n1 n2 rest H. spell (U "arrayNewSize") k_arrayNewSize n1 n2 H. Qed.
Theorem spell_stringCharCodeAt : forall h a n1 n2 rest, nsim n1 n2 ->
  lib (U "stringCharCodeAt") (a :: VNum n1 :: rest) h = lib (U "stringCharCodeAt") (a :: VNum n2 :: rest) h.
Proof. intros h a n1 n2 rest H. spell (U "stringCharCodeAt") k_stringCharCodeAt n1 n2 H. Qed.
Theorem spell_stringRepeat : forall h a n1 n2 rest, nsim n1 n2 ->
  lib (U "stringRepeat") (a :: VNum n1 :: rest) h = lib (U "stringRepeat") (a :: VNum n2 :: rest) h.
Proof. intros h a n1 n2 rest H. spell (U "stringRepeat") k_stringRepeat n1 n2 H. Qed.

(* ---- coverage of the GENERATED list of integer arguments ------------------------------------------------------------ *)
Definition pair_mem (p : str * str) (l : list (str * str)) : bool :=
  existsb (fun q => str_eqb (fst p) (fst q) && str_eqb (snd p) (snd q)) l.
(* (function, argument) pairs with a spelling theorem (spell_<function>[_<argument>]) *)
Definition spelling_proved : list (str * str) :=
  [(U "arrayDelete", U "index"); (U "arrayGet", U "index"); (U "arrayIndexOf", U "index"); (U "arrayLastIndexOf", U "index");
   (U "arrayNewSize", U "size"); (U "arraySet", U "index"); (U "arraySlice", U "start"); (U "arraySlice", U "end");
   (U "stringCharCodeAt", U "index"); (U "stringIndexOf", U "index"); (U "stringLastIndexOf", U "index");
   (U "stringRepeat", U "count"); (U "stringSlice", U "start"); (U "stringSlice", U "end")].
(* functions with integer arguments that are NOT modelled: covered by the differential run (both spellings) only *)
Definition spelling_oracle_only : list str :=
  [U "dataTop"; U "datetimeNew"; U "jsonStringify"; U "mathRound"; U "numberParseInt"; U "numberToFixed"].

Lemma integer_args_covered :
  forallb (fun fa => pair_mem fa spelling_proved || str_mem (fst fa) spelling_oracle_only) gen_integer_args = true.
Proof. vm_compute. reflexivity. Qed.
Lemma modelled_integer_args_proved :
  forallb (fun fa => negb (str_mem (fst fa) modelled_functions) || pair_mem fa spelling_proved) gen_integer_args = true.
Proof. vm_compute. reflexivity. Qed.
Lemma oracle_only_not_modelled : forallb (fun f => negb (str_mem f modelled_functions)) spelling_oracle_only = true.
Proof. vm_compute. reflexivity. Qed.

(* non-vacuity: 2.0 and 2 are two spellings of one number; 2.5 is not integral *)
Example nsim_two : nsim (NInt 2) (NFlt (Z_to_sf 2)).
Proof. apply nsim_int_float. split; vm_compute; reflexivity. Qed.
Example nsim_big : nsim (NInt 123456789012345) (NFlt (Z_to_sf 123456789012345)).
Proof. apply nsim_int_float. split; vm_compute; reflexivity. Qed.
