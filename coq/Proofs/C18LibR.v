(* Proofs/C18LibR.v — the library premise [lib_okR] of the converse pointless-statement theorems (Proofs/C18SimR.v) holds for the
   library model Model/LibCore.v (it never looks at the function table or the statement counter: Proofs/C18Lib.v) and for the
   toy library that logs and calls back; and a class of pointless expressions that never decline. *)
From Coq Require Import Lia ZArith.
From BS Require Import Model.Base Model.Num Model.Arith Model.ExprParser Model.Script Model.Interp Model.LibCore Model.Lint
     Proofs.InterpEq Proofs.C18 Proofs.C18Lib.
From BS Require Proofs.C18Sim.
From BS Require Import Proofs.C18SimR.

Theorem libcore_lib_simR ok okr xo xn cfg : lib_sim ok okr xo xn (libcore cfg).
Proof.
  intros cb cb' _ name args w w' Hw. right.
  assert (E : w' = wframe w (w_funs w') (w_count w')).
  { destruct w, w'. destruct Hw as (Hg & Ha & Ho & Hl & Hft & _). cbn in *. subst. reflexivity. }
  change (libcore cfg cb' name args w') with (libcore cfg cb name args w'). rewrite E, libcore_wframe. cbn [fst snd].
  split; [reflexivity|]. destruct Hw as (_ & _ & _ & _ & _ & Hfu).
  repeat split; try reflexivity. cbn. rewrite libcore_funs. exact Hfu.
Qed.

Theorem libcore_lib_okR cfg ok : lib_okR (libcore cfg) ok.
Proof. intros okr xo xn. apply libcore_lib_simR. Qed.

Lemma toy_lib_simR ok okr xo xn : lib_sim ok okr xo xn C18Sim.toy_lib.
Proof.
  intros cb cb' Hcb name args w w' Hw. unfold C18Sim.toy_lib. destruct (op_is name "apply").
  - destruct args as [|fv rest]; [right; split; [reflexivity|exact Hw]|].
    destruct (Hcb fv rest w w' Hw) as [Hf|[Ho Hr]].
    + destruct (cb fv rest w) as [o w1]. cbn in Hf. destruct Hf as [->|[Hk ->]]; [left; left; reflexivity|left; right; split; [exact Hk|reflexivity]].
    + destruct (cb fv rest w) as [o w1], (cb' fv rest w') as [o' w1']. cbn in Ho, Hr. subst o'.
      destruct o; try (right; split; [reflexivity|exact Hr]).
      right. split; [reflexivity|]. apply wrel_add_log. exact Hr.
  - right. split; [reflexivity|]. apply wrel_add_log. exact Hw.
Qed.

Theorem toy_lib_okR ok : lib_okR C18Sim.toy_lib ok.
Proof. intros okr xo xn. apply toy_lib_simR. Qed.

(* ---- expressions that never decline: literals, variables, groups, unary operators, && and || (no arithmetic, no comparison) ---- *)
Fixpoint logic_only (e : expr) : bool :=
  match e with
  | ENum _ | EStr _ | EVar _ => true
  | EGroup a => logic_only a
  | EUn _ a => logic_only a
  | EBin op l r => (op_is op "&&" || op_is op "||") && logic_only l && logic_only r
  | ECall _ _ => false
  end.

Lemma logic_only_pointless e : logic_only e = true -> pointless e = true.
Proof.
  induction e as [n|s|x|name args|op l IHl r IHr|op e1 IH1|e1 IH1]; cbn; intros H; try reflexivity; try discriminate; auto.
  apply andb_prop in H. destruct H as [H Hr]. apply andb_prop in H. destruct H as [_ Hl]. rewrite IHl, IHr by assumption. reflexivity.
Qed.

Lemma logic_only_value cfg lib url_rel lint_lines : forall e, logic_only e = true ->
  forall loc bi um w, exists v, Interp.eval cfg lib url_rel lint_lines (S (edepth e)) e loc bi um w = (OVal v, w).
Proof.
  induction e as [n|s|x|name args|op l IHl r IHr|op e1 IH1|e1 IH1]; cbn [logic_only]; intros H loc bi um w; try discriminate;
    rewrite eval_S; cbn [eval_body edepth].
  - eexists; reflexivity.
  - eexists; reflexivity.
  - eexists; reflexivity.
  - apply andb_prop in H. destruct H as [H Hr]. apply andb_prop in H. destruct H as [Hop Hl].
    assert (Pl : pointless l = true) by (apply logic_only_pointless; exact Hl).
    assert (Pr : pointless r = true) by (apply logic_only_pointless; exact Hr).
    destruct (IHl Hl loc bi um w) as (lv & El).
    rewrite (pointless_eval_stable cfg lib url_rel lint_lines l Pl (S (Nat.max (edepth l) (edepth r))) (S (edepth l)) loc bi um w) by lia.
    rewrite El.
    destruct (IHr Hr loc bi um w) as (rv & Er).
    assert (Er' : Interp.eval cfg lib url_rel lint_lines (S (Nat.max (edepth l) (edepth r))) r loc bi um w = (OVal rv, w)).
    { rewrite (pointless_eval_stable cfg lib url_rel lint_lines r Pr _ (S (edepth r)) loc bi um w) by lia. exact Er. }
    destruct (op_is op "&&") eqn:Oa.
    + destruct (truthy w lv); [rewrite Er'|]; eexists; reflexivity.
    + destruct (op_is op "||") eqn:Oo; [|discriminate Hop].
      destruct (truthy w lv); [|rewrite Er']; eexists; reflexivity.
  - destruct (IH1 H loc bi um w) as (v & ->). eexists; reflexivity.
  - apply IH1. exact H.
Qed.

Theorem logic_only_never_declines cfg lib url_rel lint_lines e : logic_only e = true -> never_declines cfg lib url_rel lint_lines e.
Proof.
  intros H loc bi um w. exists (S (edepth e)). destruct (logic_only_value cfg lib url_rel lint_lines e H loc bi um w) as (v & ->).
  cbn. split; discriminate.
Qed.

(* ---- the premise [never_declines] is a real one: `2 ** -1` is pointless, and the model declines to evaluate it (a negative int
   power is libm's), in every world, at every fuel: a script made of this statement alone ends OOracle in the model while the
   edited (empty) script returns null ---- *)
Lemma pow_neg_declines cfg lib url_rel lint_lines :
  let e := EBin (U "**") (ENum (NInt 2)) (ENum (NInt (-1))) in
  pointless e = true /\
  (forall f loc bi um w, fst (Interp.eval cfg lib url_rel lint_lines f e loc bi um w) = OFuel \/
                         fst (Interp.eval cfg lib url_rel lint_lines f e loc bi um w) = OOracle) /\
  ~ never_declines cfg lib url_rel lint_lines e.
Proof.
  intros e. assert (P : pointless e = true) by reflexivity.
  assert (A : forall f loc bi um w, fst (Interp.eval cfg lib url_rel lint_lines f e loc bi um w) = OFuel \/
                                    fst (Interp.eval cfg lib url_rel lint_lines f e loc bi um w) = OOracle).
  { intros f loc bi um w. destruct f as [|[|f]]; [left; reflexivity|left; reflexivity|right].
    rewrite (pointless_eval_stable cfg lib url_rel lint_lines e P (S (S f)) 2 loc bi um w) by (cbn; lia). reflexivity. }
  split; [exact P|]. split; [exact A|]. intros N. destruct (N None false UHost (world0 [])) as (f & N1 & N2).
  destruct (A f None false UHost (world0 [])); contradiction.
Qed.
