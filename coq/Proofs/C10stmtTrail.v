(* Proofs/C10stmtTrail.v — TRAILING white space and the three statement regexes that are NOT of the shape  X \s*$
   (Proofs/RegexTrail2.v), at the level of the ENGINE, for an LF-free line and an LF-free run ws of `\s` characters:

     assign_trail   ^\s*(name)\s*=\s*(.+)$     RelA: "no match" on both, or a match on both with the same captures except that the
                    expr group (which runs to the end of the subject) is longer by the run — its text on  line ++ ws  is its
                    text on  line  followed by  ws  — or both expr texts are white space (`x =  `: the group backs off to
                    the last blank).  Premise: the line does not end with `=` (`x =` is not an assignment, `x =  ` is one).
     return_trail   ^(\s*return(?:\s+(\S.* ))?)\s*$     RelR: either the same captures (bare return) or the groups `return`
                    and `expr` both run to the end of the subject and are longer by the run;
     jump_trail     ^(\s*(?:jump|jumpif\s*\((.+)\)))\s+(name)\s*$     sim: same captures (the name cannot grow into the run).

   Method: Proofs/RegexTrail3.v ev_trail3 on the part of the regex in front of its last literal (`=`, the `n` of return,
   the `\s+` of jump), and a direct reading of the rest ("the tail") through RegexEval.star_bt. *)
From Coq Require Import Lia.
From BS Require Import Model.Base Model.Regex Model.NumText Model.Script Gen.Unicode Gen.Regexes Proofs.RegexFacts
  Proofs.RegexComplete Proofs.RegexShift Proofs.RegexEval Proofs.C02rx Proofs.C10ws Proofs.RegexTrail Proofs.RegexTrail2
  Proofs.RegexTrail3 Proofs.C10tokSpaced.

Definition notLF (y : N) : bool := negb (y =? 10)%N.
Definition nolf (s : str) : Prop := forallb notLF s = true.

Lemma nolf_tl y t : nolf (y :: t) -> nolf t.
Proof. unfold nolf. cbn [forallb]. intros H. apply andb_true_iff in H. exact (proj2 H). Qed.
Lemma nolf_app a b : nolf a -> nolf b -> nolf (a ++ b).
Proof. unfold nolf. intros A B. rewrite forallb_app, A, B. reflexivity. Qed.
Lemma nolf_skipn n : forall s, nolf s -> nolf (skipn n s).
Proof. induction n as [|n IH]; intros s H; [exact H|]. destruct s as [|y t]; [exact H|]. cbn [skipn]. apply IH. exact (nolf_tl _ _ H). Qed.

(* ---------- spans ---------- *)
Lemma span_all p : forall s, forallb p s = true -> span p s = (length s, []).
Proof.
  induction s as [|y t IH]; cbn [forallb span length]; intros H; [reflexivity|].
  apply andb_true_iff in H. destruct H as [H1 H2]. rewrite H1, (IH H2). reflexivity.
Qed.

Lemma span_app_stop p : forall a r, snd (span p a) <> [] -> span p (a ++ r) = (fst (span p a), snd (span p a) ++ r).
Proof.
  induction a as [|y t IH]; intros r H; cbn [span app] in *; [cbn [snd] in H; congruence|].
  destruct (p y).
  - destruct (span p t) as [n q] eqn:E. cbn [fst snd] in *. rewrite (IH r H). reflexivity.
  - reflexivity.
Qed.

Lemma span_nil_all p : forall s, snd (span p s) = [] -> forallb p s = true.
Proof.
  induction s as [|y t IH]; cbn [span forallb]; intros H; [reflexivity|]. destruct (p y).
  - destruct (span p t) as [n q] eqn:E. cbn [snd] in *. exact (IH H).
  - discriminate.
Qed.

Lemma forallb_sp_white w : forallb is_sp w = true -> white w.
Proof.
  induction w as [|y t IH]; cbn [forallb]; intros H; [apply white_nil|].
  apply andb_true_iff in H. destruct H as [H1 H2]. intros c [<-|I]; [exact H1 | exact (IH H2 c I)].
Qed.

Lemma forallb_cm_white w : forallb cmWs w = true -> white w.
Proof.
  induction w as [|y t IH]; cbn [forallb]; intros H; [apply white_nil|].
  apply andb_true_iff in H. destruct H as [H1 H2]. rewrite cmWs_is in H1. intros c [<-|I]; [exact H1 | exact (IH H2 c I)].
Qed.

Lemma white_skipn n w : white w -> white (skipn n w).
Proof.
  intros W c I. apply W. revert w W I. induction n as [|n IH]; intros w W I; [exact I|].
  destruct w as [|y t]; [exact I|]. right. apply (IH t (proj2 (white_cons _ _ W))). exact I.
Qed.

Lemma white_app2 a b : white a -> white b -> white (a ++ b).
Proof. intros A B c I. apply in_app_or in I. destruct I; auto. Qed.

Lemma sp61 : is_space UC 61 = false. Proof. vm_compute. reflexivity. Qed.
Lemma sp110 : is_space UC 110 = false. Proof. vm_compute. reflexivity. Qed.

Lemma white_not61 y u : white (y :: u) -> (y =? 61)%N = false.
Proof.
  intros W. destruct (white_cons _ _ W) as [S _]. destruct (y =? 61)%N eqn:E; [|reflexivity].
  apply N.eqb_eq in E. subst. rewrite sp61 in S. discriminate.
Qed.
Lemma white_not110 y u : white (y :: u) -> (y =? 110)%N = false.
Proof.
  intros W. destruct (white_cons _ _ W) as [S _]. destruct (y =? 110)%N eqn:E; [|reflexivity].
  apply N.eqb_eq in E. subst. rewrite sp110 in S. discriminate.
Qed.

(* ---------- does not end with `=` ---------- *)
Lemma noeq_end_nil : noeq_end [].
Proof. intros pre E. destruct pre; discriminate. Qed.

Lemma noeq_end_suffix a b : noeq_end b -> b <> [] -> noeq_end (a ++ b).
Proof.
  intros NB NE pre E. destruct (exists_last NE) as (b' & z & ->).
  rewrite app_assoc in E. apply app_inj_tail in E. destruct E as [_ ->]. exact (NB b' eq_refl).
Qed.

Lemma noeq_end_last b z : z <> 61%N -> noeq_end (b ++ [z]).
Proof. intros NZ pre E. apply app_inj_tail in E. destruct E as [_ ->]. congruence. Qed.

Lemma noeq_end_white_tail y t : y <> 61%N -> white t -> noeq_end (y :: t).
Proof.
  intros NY W. destruct t as [|z t'].
  - exact (noeq_end_last [] y NY).
  - destruct (@exists_last _ (z :: t') ltac:(discriminate)) as (b' & x & E). rewrite E.
    change (y :: b' ++ [x]) with ((y :: b') ++ [x]). apply noeq_end_last.
    intros ->. assert (I : In 61%N (z :: t')) by (rewrite E; apply in_or_app; right; left; reflexivity).
    pose proof (W _ I) as S. rewrite sp61 in S. discriminate.
Qed.

Lemma noeq_end_app_white a w : noeq_end a -> white w -> noeq_end (a ++ w).
Proof.
  intros NA W. destruct w as [|z t]; [rewrite app_nil_r; exact NA|].
  apply noeq_end_suffix; [|discriminate]. apply noeq_end_white_tail; [|exact (proj2 (white_cons _ _ W))].
  intros ->. destruct (white_cons _ _ W) as [S _]. rewrite sp61 in S. discriminate.
Qed.

(* ====================================================== the assignment tail  =\s*(.+)$  *)
Definition E_assign : regex := RCat (RGroup 2 (RRep 1 None RAny)) REol.
Definition T2_assign : regex := RCat rsp E_assign.
Definition T_assign : regex := RCat (RLit 61) T2_assign.
Definition A_assign : regex :=
  RCat RBol (RCat rsp (RCat (RGroup 1 (RCat (RIn false [CRange 65 90; CRange 97 122; CLit 95]) (RRep 0 None (RIn false [CCat CatWord])))) rsp)).

Lemma cut_assign : cut_at 3 R_SCRIPT_ASSIGNMENT = Some (A_assign, T_assign).
Proof. reflexivity. Qed.

Lemma anyE_read p r c : nolf r ->
  ev UC E_assign p r c kfin = match r with [] => MNo | _ => MYes (p + length r) (cap_set 2 (p, p + length r) c) end.
Proof.
  intros NL. unfold E_assign. rewrite ev_cat, ev_group. rewrite (ev_plus UC _ _ (one_any UC)).
  destruct r as [|y t]; [reflexivity|]. unfold nolf in NL. cbn [forallb] in NL. apply andb_true_iff in NL. destruct NL as [N1 N2].
  unfold notLF in N1. rewrite N1. change (fun y0 : N => negb (y0 =? 10)%N) with notLF.
  rewrite star_bt_longest; rewrite (span_all notLF t N2); cbn [fst snd].
  - cbn [ev length]. unfold kfin. replace (S p + length t) with (p + S (length t)) by lia. reflexivity.
  - left. cbn [ev]. discriminate.
Qed.

Definition estart (t : str) : nat := match snd (span is_sp t) with [] => length t - 1 | _ => fst (span is_sp t) end.

Lemma star_white_back : forall t p c, t <> [] -> white t -> nolf t ->
  star_bt cmWs (fun p r c => ev UC E_assign p r c kfin) p t c
  = MYes (p + length t) (cap_set 2 (p + length t - 1, p + length t) c).
Proof.
  induction t as [|y t IH]; intros p c NE W NL; [congruence|]. cbn [star_bt].
  destruct (white_cons _ _ W) as [Sy Wt]. rewrite cmWs_is. unfold is_sp at 1. rewrite Sy.
  destruct t as [|z t'].
  - cbn [star_bt]. rewrite !anyE_read by (exact NL || reflexivity). cbn [length].
    replace (p + 1 - 1) with p by lia. reflexivity.
  - rewrite IH; [|discriminate | exact Wt | exact (nolf_tl _ _ NL)]. cbn [length].
    replace (S p + S (length t')) with (p + S (S (length t'))) by lia. reflexivity.
Qed.

Lemma tailE_read p t c : nolf t -> t <> [] ->
  ev UC T2_assign p t c kfin = MYes (p + length t) (cap_set 2 (p + estart t, p + length t) c).
Proof.
  intros NL NE. unfold T2_assign. rewrite ev_cat. unfold rsp. rewrite (ev_star UC _ _ (one_in UC false _)). fold cmWs.
  unfold estart. rewrite <- (span_ext cmWs is_sp cmWs_is). destruct (snd (span cmWs t)) as [|x r2] eqn:E.
  - assert (W : white t).
    { apply forallb_cm_white. exact (span_nil_all cmWs t E). }
    rewrite (star_white_back t p c NE W NL). replace (p + (length t - 1)) with (p + length t - 1); [reflexivity|].
    destruct t; [congruence | cbn [length]; lia].
  - pose proof (span_length cmWs t) as SL. pose proof (span_skipn cmWs t) as SK. rewrite E in SL, SK.
    rewrite star_bt_longest; rewrite E.
    + rewrite anyE_read by (rewrite SK; apply nolf_skipn; exact NL). cbn [length] in *.
      replace (p + fst (span cmWs t) + S (length r2)) with (p + length t) by lia. reflexivity.
    + left. rewrite anyE_read by (rewrite SK; apply nolf_skipn; exact NL). discriminate.
Qed.

Lemma kA_read p r c : ev UC T_assign p r c kfin =
  match r with y :: t => if (y =? 61)%N then ev UC T2_assign (S p) t c kfin else MNo | [] => MNo end.
Proof. unfold T_assign. rewrite ev_cat. reflexivity. Qed.

Lemma kA_nofuel p r c : nolf r -> ev UC T_assign p r c kfin <> MFuel.
Proof.
  intros NL. rewrite kA_read. destruct r as [|y t]; [discriminate|]. destruct (y =? 61)%N; [|discriminate].
  destruct t as [|z t'].
  - unfold T2_assign. rewrite ev_cat. unfold rsp. rewrite (ev_star UC _ _ (one_in UC false _)). cbn [star_bt].
    rewrite anyE_read by reflexivity. discriminate.
  - rewrite tailE_read; [discriminate | exact (nolf_tl _ _ NL) | discriminate].
Qed.

Lemma kA_white p u c : white u -> ev UC T_assign p u c kfin = MNo.
Proof. intros Wu. rewrite kA_read. destruct u as [|y t]; [reflexivity|]. rewrite (white_not61 y t Wu). reflexivity. Qed.

Section Assign.
Variables line ws : str.
Hypothesis Wws : white ws.
Hypothesis NLws : nolf ws.
Let L := length line.
Let W := length ws.

Definition RelA (a b : mres) : Prop :=
  match a, b with
  | MNo, MNo => True
  | MYes _ ca, MYes _ cb =>
      exists c0 sa sb, ca = cap_set 2 (sa, L + W) c0 /\ cb = cap_set 2 (sb, L) c0 /\ sb <= L /\ sa <= L + W /\
        (skipn sa (line ++ ws) = skipn sb line ++ ws \/ (white (skipn sb line) /\ white (skipn sa (line ++ ws))))
  | _, _ => False
  end.

Definition PA (p : nat) (r : str) : Prop := r = skipn p line /\ p <= L /\ nolf r /\ noeq_end r.

Lemma PA_tl p y t : PA p (y :: t) -> PA (S p) t.
Proof.
  intros (E & Lp & N1 & N2). symmetry in E. pose proof (skipn_cons_nth line p y t E) as [Hn Ht].
  assert (p < L) by (apply nth_error_Some; congruence).
  repeat split; [exact Ht | lia | exact (nolf_tl _ _ N1) | exact (noeq_end_tl _ _ N2)].
Qed.

Lemma skipn_add (a b : nat) (l : str) : skipn (a + b) l = skipn b (skipn a l).
Proof.
  revert l. induction a as [|a IH]; intros l; [reflexivity|]. destruct l as [|y t]; [cbn [Nat.add skipn]; rewrite skipn_nil; reflexivity|].
  cbn [Nat.add skipn]. apply IH.
Qed.

Lemma kA_rel p r c : PA p r -> RelA (ev UC T_assign p (r ++ ws) c kfin) (ev UC T_assign p r c kfin).
Proof.
  intros (E & Lp & N1 & N2). destruct r as [|y t]; cbn [app].
  - rewrite (kA_white p ws c Wws). exact I.
  - rewrite !kA_read. cbn [app]. destruct (y =? 61)%N eqn:Ey; [|exact I]. apply N.eqb_eq in Ey. subst y.
    assert (NEt : t <> []) by (intros ->; exact (N2 [] eq_refl)).
    symmetry in E. pose proof (skipn_cons_nth line p _ t E) as [Hn Ht].
    assert (Lt : p < L) by (apply nth_error_Some; congruence).
    assert (LEN : S p + length t = L).
    { pose proof (f_equal (@length N) E) as LE. rewrite skipn_length in LE. cbn [length] in LE. fold L in LE. lia. }
    pose proof (nolf_tl _ _ N1) as Nt.
    rewrite (tailE_read (S p) t c Nt NEt).
    rewrite (tailE_read (S p) (t ++ ws) c (nolf_app _ _ Nt NLws)) by (destruct t; [congruence | discriminate]).
    cbn [RelA]. exists c, (S p + estart (t ++ ws)), (S p + estart t). rewrite app_length. fold W.
    assert (B1 : estart t <= length t).
    { unfold estart. pose proof (span_length is_sp t). destruct (snd (span is_sp t)); lia. }
    assert (B2 : estart (t ++ ws) <= length t + W).
    { unfold estart. pose proof (span_length is_sp (t ++ ws)) as SL. rewrite app_length in SL. fold W in SL.
      destruct (snd (span is_sp (t ++ ws))); rewrite ?app_length; fold W; lia. }
    split; [f_equal; f_equal; lia|]. split; [f_equal; f_equal; lia|]. split; [lia|]. split; [lia|].
    assert (S1 : forall e, skipn (S p + e) line = skipn e t) by (intros e; rewrite skipn_add, <- Ht; reflexivity).
    assert (S2 : forall e, skipn (S p + e) (line ++ ws) = skipn e (t ++ ws)).
    { intros e. rewrite skipn_add. f_equal. rewrite skipn_app. fold L. replace (S p - L) with 0 by lia. rewrite <- Ht. reflexivity. }
    rewrite S1, S2. destruct (snd (span is_sp t)) as [|x r2] eqn:Es.
    + right. assert (Wt : white t) by (apply forallb_sp_white; exact (span_nil_all is_sp t Es)).
      split; apply white_skipn; [exact Wt | apply white_app2; assumption].
    + left. assert (EE : estart (t ++ ws) = estart t).
      { unfold estart. rewrite (span_app_stop is_sp t ws) by (rewrite Es; discriminate). rewrite Es. reflexivity. }
      rewrite EE. rewrite skipn_app. replace (estart t - length t) with 0 by lia. reflexivity.
Qed.

Theorem assign_trail : nolf line -> noeq_end line ->
  RelA (rxm R_SCRIPT_ASSIGNMENT (line ++ ws)) (rxm R_SCRIPT_ASSIGNMENT line).
Proof.
  intros NL NQ. unfold rxm. rewrite !re_match_ev, !(ev_cut_at 3 _ _ _ cut_assign).
  apply (ev_trail3 ws Wws RelA) with (P := PA).
  - exact I.
  - intros a b. destruct a, b; cbn [RelA]; auto.
  - exact PA_tl.
  - reflexivity.
  - reflexivity.
  - repeat split; [lia | exact NL | exact NQ].
  - intros p r' c' PP. apply kA_rel. exact PP.
  - intros p u c' Wu. apply kA_white. exact Wu.
  - intros p r' c'. apply ev_nofuel. discriminate.
  - intros p r' c'. apply ev_nofuel. discriminate.
Qed.
End Assign.

(* ====================================================== the return tail  n(?:\s+(\S.* ))?  then (group 1 closes)  \s*$  *)
Definition G2_ret : regex := RGroup 2 (RCat (RIn false [CCat CatNotSpace]) (RRep 0 None RAny)).
Definition BODY_ret : regex := RCat (RRep 1 None (RIn false [CCat CatSpace])) G2_ret.
Definition OPT_ret : regex := RRep 0 (Some 1) BODY_ret.
Definition T_ret : regex := RCat (RLit 110) OPT_ret.
Definition A_ret : regex := RCat rsp (RCat (RLit 114) (RCat (RLit 101) (RCat (RLit 116) (RCat (RLit 117) (RLit 114))))).
Definition X_ret : regex :=
  RCat rsp (RCat (RLit 114) (RCat (RLit 101) (RCat (RLit 116) (RCat (RLit 117) (RCat (RLit 114) T_ret))))).
Definition KE (p : nat) (r : str) (c : caps) : mres := ev UC (RCat rsp REol) p r (cap_set 1 (0, p) c) kfin.
Definition kR (p : nat) (r : str) (c : caps) : mres := ev UC T_ret p r c KE.

Lemma shape_return : R_SCRIPT_RETURN = RCat RBol (RCat (RGroup 1 X_ret) (RCat rsp REol)).
Proof. reflexivity. Qed.
Lemma cut_ret : cut_at 5 X_ret = Some (A_ret, T_ret).
Proof. reflexivity. Qed.

Lemma rxm_return s : rxm R_SCRIPT_RETURN s = ev UC A_ret 0 s [] kR.
Proof.
  unfold rxm. rewrite re_match_ev, shape_return. rewrite ev_cat, ev_bol. cbn [Nat.eqb]. rewrite ev_cat, ev_group.
  rewrite (ev_cut_at 5 _ _ _ cut_ret). reflexivity.
Qed.

Lemma KE_read p r c : KE p r c = if forallb is_sp r then MYes (p + length r) (cap_set 1 (0, p) c) else MNo.
Proof. unfold KE. apply ev_eol_tail. Qed.

Definition cmNS : N -> bool := class_match UC false [CCat CatNotSpace].
Lemma cmNS_is y : cmNS y = negb (is_sp y).
Proof. unfold cmNS, class_match, is_sp. rewrite Bool.xorb_false_l. cbn [existsb item_match cat_match]. rewrite orb_false_r. reflexivity. Qed.

Lemma g2_read p r c K : nolf r -> K (p + length r) [] (cap_set 2 (p, p + length r) c) <> MNo ->
  ev UC G2_ret p r c K =
  match r with y :: _ => if is_sp y then MNo else K (p + length r) [] (cap_set 2 (p, p + length r) c) | [] => MNo end.
Proof.
  intros NL KN. unfold G2_ret. rewrite ev_group, ev_cat. rewrite (ev_one UC _ _ (one_in UC false _)). fold cmNS.
  destruct r as [|y t]; [reflexivity|]. rewrite cmNS_is. destruct (is_sp y); [reflexivity|]. cbn [negb].
  rewrite (ev_star UC _ _ (one_any UC)). change (fun y0 : N => negb (y0 =? 10)%N) with notLF.
  pose proof (nolf_tl _ _ NL) as Nt. cbn [length] in *.
  rewrite star_bt_longest; rewrite (span_all notLF t Nt); cbn [fst snd];
    replace (S p + length t) with (p + S (length t)) by lia; [reflexivity | left; exact KN].
Qed.

Lemma g2_space p y t c K : is_sp y = true -> ev UC G2_ret p (y :: t) c K = MNo.
Proof.
  intros S. unfold G2_ret. rewrite ev_group, ev_cat. rewrite (ev_one UC _ _ (one_in UC false _)). fold cmNS.
  rewrite cmNS_is, S. reflexivity.
Qed.

Lemma optE_read p t c : nolf t ->
  ev UC OPT_ret p t c KE =
  match snd (span is_sp t) with
  | [] => MYes (p + length t) (cap_set 1 (0, p) c)
  | _ :: _ => match fst (span is_sp t) with
              | O => MNo
              | S _ => MYes (p + length t) (cap_set 1 (0, p + length t) (cap_set 2 (p + fst (span is_sp t), p + length t) c))
              end
  end.
Proof.
  intros NL. unfold OPT_ret. rewrite ev_opt. unfold BODY_ret. rewrite ev_cat. rewrite (ev_plus UC _ _ (one_in UC false _)). fold cmWs.
  destruct t as [|y t'].
  - cbn [span snd]. rewrite KE_read. reflexivity.
  - rewrite cmWs_is. cbn [span]. destruct (is_sp y) eqn:Sy.
    + rewrite star_bt_longest by (right; intros q y0 t0 c0 S0; rewrite cmWs_is in S0; apply g2_space; exact S0).
      rewrite (span_ext cmWs is_sp cmWs_is).
      pose proof (span_length is_sp t') as SL. pose proof (span_skipn is_sp t') as SK. pose proof (span_stop is_sp t') as SS.
      destruct (span is_sp t') as [n r2] eqn:Esp. cbn [fst snd] in *. destruct r2 as [|x r3].
      * cbn [ev]. unfold G2_ret. rewrite ev_group, ev_cat. cbn [ev]. rewrite KE_read.
        assert (F : forallb is_sp (y :: t') = true).
        { cbn [forallb]. rewrite Sy. cbn [andb]. apply white_forallb_sp. apply forallb_sp_white.
          apply span_nil_all. rewrite Esp. reflexivity. }
        rewrite F. reflexivity.
      * assert (N2 : nolf (x :: r3)) by (rewrite SK; apply nolf_skipn; exact (nolf_tl _ _ NL)).
        assert (NE : Nat.eqb (S p + n + length (x :: r3)) p = false) by (apply Nat.eqb_neq; cbn [length]; lia).
        rewrite g2_read; [|exact N2|].
        -- rewrite SS. rewrite NE. rewrite KE_read. cbn [forallb length] in *.
           replace (S p + n + S (length r3)) with (p + S (length t')) by lia.
           replace (p + S (length t') + 0) with (p + S (length t')) by lia.
           replace (S p + n) with (p + S n) by lia. reflexivity.
        -- rewrite NE. rewrite KE_read. cbn [forallb]. discriminate.
    + cbn [fst snd]. rewrite KE_read. cbn [forallb]. rewrite Sy. reflexivity.
Qed.

Lemma kR_read p r c : kR p r c = match r with y :: t => if (y =? 110)%N then ev UC OPT_ret (S p) t c KE else MNo | [] => MNo end.
Proof. unfold kR, T_ret. rewrite ev_cat. reflexivity. Qed.

Lemma kR_white p u c : white u -> kR p u c = MNo.
Proof. intros Wu. rewrite kR_read. destruct u as [|y t]; [reflexivity|]. rewrite (white_not110 y t Wu). reflexivity. Qed.

Lemma KE_nofuel p r c : KE p r c <> MFuel.
Proof. rewrite KE_read. destruct (forallb is_sp r); discriminate. Qed.

Section Return.
Variables line ws : str.
Hypothesis Wws : white ws.
Hypothesis NLws : nolf ws.
Let L := length line.
Let W := length ws.

Definition RelR (a b : mres) : Prop :=
  match a, b with
  | MNo, MNo => True
  | MYes _ ca, MYes _ cb =>
      (ca = cb /\ noeq_end line) \/
      (exists c0 st, ca = cap_set 1 (0, L + W) (cap_set 2 (st, L + W) c0) /\ cb = cap_set 1 (0, L) (cap_set 2 (st, L) c0) /\ st < L)
  | _, _ => False
  end.

Definition PR (p : nat) (r : str) : Prop := r = skipn p line /\ p <= L /\ nolf r.

Lemma PR_tl p y t : PR p (y :: t) -> PR (S p) t.
Proof.
  intros (E & Lp & N1). symmetry in E. pose proof (skipn_cons_nth line p y t E) as [Hn Ht].
  assert (p < L) by (apply nth_error_Some; congruence).
  repeat split; [exact Ht | lia | exact (nolf_tl _ _ N1)].
Qed.

Lemma kR_rel p r c : PR p r -> RelR (kR p (r ++ ws) c) (kR p r c).
Proof.
  intros (E & Lp & N1). destruct r as [|y t]; cbn [app].
  - rewrite (kR_white p ws c Wws). exact I.
  - rewrite !kR_read. cbn [app]. destruct (y =? 110)%N eqn:Ey; [|exact I]. apply N.eqb_eq in Ey. subst y.
    symmetry in E. pose proof (skipn_cons_nth line p _ t E) as [Hn Ht].
    assert (Lt : p < L) by (apply nth_error_Some; congruence).
    assert (LEN : S p + length t = L).
    { pose proof (f_equal (@length N) E) as LE. rewrite skipn_length in LE. cbn [length] in LE. fold L in LE. lia. }
    pose proof (nolf_tl _ _ N1) as Nt.
    rewrite (optE_read (S p) t c Nt), (optE_read (S p) (t ++ ws) c (nolf_app _ _ Nt NLws)).
    rewrite app_length. fold W.
    destruct (snd (span is_sp t)) as [|x r2] eqn:Es.
    + assert (Wt : white t) by (apply forallb_sp_white; exact (span_nil_all is_sp t Es)).
      rewrite (span_all is_sp (t ++ ws)) by (apply white_forallb_sp; apply white_app2; assumption). cbn [snd RelR].
      left. split; [reflexivity|].
      rewrite <- (firstn_skipn p line), E. apply noeq_end_suffix; [|discriminate].
      apply noeq_end_white_tail; [discriminate | exact Wt].
    + rewrite (span_app_stop is_sp t ws) by (rewrite Es; discriminate). rewrite Es. cbn [fst snd app].
      destruct (fst (span is_sp t)) as [|n] eqn:En; [exact I|]. cbn [RelR]. right.
      exists c, (S p + S n). pose proof (span_length is_sp t) as SL. rewrite Es, En in SL. cbn [fst snd length] in SL.
      split; [f_equal; [f_equal; lia | f_equal; f_equal; lia]|]. split; [f_equal; [f_equal; lia | f_equal; f_equal; lia]|]. lia.
Qed.

Theorem return_trail : nolf line -> RelR (rxm R_SCRIPT_RETURN (line ++ ws)) (rxm R_SCRIPT_RETURN line).
Proof.
  intros NL. rewrite !rxm_return.
  apply (ev_trail3 ws Wws RelR) with (P := PR).
  - exact I.
  - intros a b. destruct a, b; cbn [RelR]; auto.
  - exact PR_tl.
  - reflexivity.
  - reflexivity.
  - repeat split; [lia | exact NL].
  - intros p r' c' PP. apply kR_rel. exact PP.
  - intros p u c' Wu. apply kR_white. exact Wu.
  - intros p r' c'. apply ev_nofuel. intros. apply KE_nofuel.
  - intros p r' c'. apply ev_nofuel. intros. apply KE_nofuel.
Qed.
End Return.

(* ====================================================== the jump tail  (name)\s*$  *)
Definition NAME_re : regex := RCat (RIn false [CRange 65 90; CRange 97 122; CLit 95]) (RRep 0 None (RIn false [CCat CatWord])).
Definition T_jump : regex := RCat (RGroup 3 NAME_re) (RCat rsp REol).
Definition A_jump : regex :=
  RCat RBol (RCat (RGroup 1 (RCat rsp (RCat (RLit 106) (RCat (RLit 117) (RCat (RLit 109) (RCat (RLit 112)
    (RAlt REps (RCat (RLit 105) (RCat (RLit 102) (RCat rsp (RCat (RLit 40) (RCat (RGroup 2 (RRep 1 None RAny)) (RLit 41)))))))))))))
    (RRep 1 None (RIn false [CCat CatSpace]))).

Lemma cut_jump : cut_at 2 R_SCRIPT_JUMP = Some (A_jump, T_jump).
Proof. reflexivity. Qed.

Lemma span_word_white t ws : white ws -> span cmWord (t ++ ws) = (fst (span cmWord t), snd (span cmWord t) ++ ws).
Proof.
  intros W. induction t as [|y t IH]; cbn [app span].
  - destruct ws as [|z u]; [reflexivity|]. cbn [span]. rewrite cmWord_is.
    destruct (white_cons _ _ W) as [S _]. rewrite (space_not_word z S). reflexivity.
  - destruct (cmWord y); [|reflexivity]. rewrite IH. destruct (span cmWord t). reflexivity.
Qed.

Lemma kJ_read p r c : ev UC T_jump p r c kfin =
  match r with
  | y :: t => if idstart y then
                (if forallb is_sp (snd (span cmWord t))
                 then MYes (S p + fst (span cmWord t) + length (snd (span cmWord t))) (cap_set 3 (p, S p + fst (span cmWord t)) c)
                 else MNo)
              else MNo
  | [] => MNo
  end.
Proof.
  unfold T_jump. rewrite ev_cat, ev_group. unfold NAME_re. rewrite ev_cat. rewrite (ev_one UC _ _ (one_in UC false _)). fold idstart.
  destruct r as [|y t]; [reflexivity|]. destruct (idstart y); [|reflexivity].
  rewrite (ev_star UC _ _ (one_in UC false _)). fold cmWord.
  rewrite star_bt_longest.
  - rewrite ev_eol_tail. reflexivity.
  - right. intros q y0 t0 c0 Wd. rewrite ev_eol_tail. cbn [forallb]. rewrite cmWord_is in Wd.
    unfold is_sp at 1. change (is_space UC y0) with (is_space_u y0). rewrite (word_not_space y0 Wd). reflexivity.
Qed.

Theorem jump_trail line ws : white ws -> sim (rxm R_SCRIPT_JUMP (line ++ ws)) (rxm R_SCRIPT_JUMP line).
Proof.
  intros W. unfold rxm. rewrite !re_match_ev, !(ev_cut_at 2 _ _ _ cut_jump).
  apply ev_trail2; try assumption; try reflexivity.
  - intros p r' c'. rewrite !kJ_read. destruct r' as [|y t]; cbn [app].
    + destruct ws as [|z u]; [exact I|]. destruct (white_cons _ _ W) as [S _].
      rewrite (idstart_not_space z S). exact I.
    + destruct (idstart y); [|exact I]. rewrite (span_word_white t ws W). cbn [fst snd].
      rewrite forallb_app, (white_forallb_sp ws W), andb_true_r.
      destruct (forallb is_sp (snd (span cmWord t))); [reflexivity | exact I].
  - intros p u c' Wu. rewrite kJ_read. destruct u as [|y t]; [reflexivity|]. destruct (white_cons _ _ Wu) as [S _].
    rewrite (idstart_not_space y S). reflexivity.
  - intros p r' c'. apply ev_nofuel. discriminate.
  - intros p r' c'. apply ev_nofuel. discriminate.
Qed.
