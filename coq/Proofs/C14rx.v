(* Proofs/C14rx.v — the "pin" of C14 as a THEOREM: for EVERY text, the clean-up pass of value_json run through the regex
   engine on the regex regenerated from value.py
        _R_VALUE_JSON_NUMBER_CLEANUP = (Q(?:[^Q\\]|\\.)*Q)|\.0*(?=[,}\]\n]|$)   (Q = the double quote)   .sub(lambda m: m.group(1) or '', text)
   is the direct scanner of Model/Json.v that all C14 theorems are about:
        cleanup_re s = Some (cleanup s)            hence   encode_re indent v = Some (encode indent v).
   Route: Proofs/RegexEval.v (engine with its fuel = the fuel-free evaluator ev, look-ahead included); then
     - the string-token alternative: the greedy loop over  [^Q\\] | \\.  followed by the closing quote reads exactly
       str_tok_len characters or fails (the two branches and the quote start with different characters, so backing off
       never helps) — tok_loop;
     - the fraction alternative: greedy 0* then the look-ahead, decided after the longest run of zeros — star_bt_longest;
     - re.sub: induction on the text, the callback's group(1) is the token itself.
   Stated about the generated constant R_VALUE_JSON_NUMBER_CLEANUP: a change of the pattern in value.py breaks the proof. *)
From Coq Require Import Lia.
From BS Require Import Model.Base Model.Regex Model.Json Model.JsonRe Gen.Unicode Gen.Regexes
  Proofs.BaseFacts Proofs.RegexFacts Proofs.RegexComplete Proofs.RegexShift Proofs.RegexEval Proofs.C14b.

Definition rTOKBODY : regex := RAlt (RIn true [CLit 34%N; CLit 92%N]) (RCat (RLit 92%N) RAny).
Definition rTOK : regex := RCat (RLit 34%N) (RCat (RRep 0 None rTOKBODY) (RLit 34%N)).
Definition rLOOK : regex := RLook (RAlt (RIn false [CLit 44%N; CLit 125%N; CLit 93%N; CLit 10%N]) REol).
Definition rFRAC : regex := RCat (RLit 46%N) (RCat (RRep 0 None (RLit 48%N)) rLOOK).

Lemma json_cleanup_regex_shape : R_VALUE_JSON_NUMBER_CLEANUP = RAlt (RGroup 1 rTOK) rFRAC.
Proof. reflexivity. Qed.

(* ---------- the string token ---------- *)
Definition plain (y : N) : bool := class_match UC true [CLit 34%N; CLit 92%N] y.
Lemma plain_is y : plain y = negb ((y =? 34) || (y =? 92))%N.
Proof. unfold plain, class_match. cbn [existsb item_match]. rewrite orb_false_r. rewrite Bool.xorb_true_l. reflexivity. Qed.

Lemma str_tok_len_cons c t :
  str_tok_len (c :: t) =
  if (c =? 34)%N then Some 1%nat
  else if (c =? 92)%N then
    match t with [] => None | d :: t' => if (d =? 10)%N then None else option_map (fun n => S (S n)) (str_tok_len t') end
  else option_map S (str_tok_len t).
Proof. reflexivity. Qed.

(* the loop  (?:[^Q\\]|\\.)*  followed by the closing quote and then k0 *)
Lemma tok_loop (k0 : kont) : forall n r p c, length r < n ->
  ev_rep (ev UC rTOKBODY) n 0 None p r c (fun p' r' c' => ev UC (RLit 34%N) p' r' c' k0) =
  match str_tok_len r with Some len => k0 (p + len) (skipn len r) c | None => MNo end.
Proof.
  induction n as [|n IH]; intros r p c L; [lia|].
  rewrite ev_rep_S. cbn [pred option_map]. unfold rTOKBODY at 1. rewrite ev_alt.
  rewrite (ev_one UC _ _ (one_in UC true _)). fold plain. rewrite ev_cat.
  rewrite (ev_one UC _ _ (one_lit UC 92)). rewrite (ev_one UC _ _ (one_lit UC 34)).
  destruct r as [|y t]; [reflexivity|]. rewrite str_tok_len_cons. rewrite plain_is. cbn [length] in L.
  destruct (y =? 34)%N eqn:E34.
  - (* closing quote *) cbn [orb negb].
    apply N.eqb_eq in E34. subst y. cbn [N.eqb Pos.eqb]. cbn [skipn]. replace (p + 1) with (S p) by lia. reflexivity.
  - destruct (y =? 92)%N eqn:E92; cbn [orb negb].
    + (* backslash: an escaped character follows, not a newline *)
      rewrite (ev_one UC _ _ (one_any UC)).
      destruct t as [|d t']; [reflexivity|]. destruct (d =? 10)%N; cbn [negb]; [reflexivity|].
      assert (N2 : Nat.eqb (S (S p)) p = false) by (apply Nat.eqb_neq; lia). rewrite N2.
      rewrite IH by (cbn [length] in L; lia).
      destruct (str_tok_len t') as [len|]; cbn [option_map]; [|reflexivity].
      cbn [skipn]. replace (S (S p) + len) with (p + S (S len)) by lia.
      destruct (k0 (p + S (S len)) (skipn len t') c); reflexivity.
    + (* any other character *)
      rewrite neq_succ. rewrite IH by lia.
      destruct (str_tok_len t) as [len|]; cbn [option_map]; [|reflexivity].
      cbn [skipn]. replace (S p + len) with (p + S len) by lia.
      destruct (k0 (p + S len) (skipn len t) c); reflexivity.
Qed.

Lemma ev_tok pos rest c (k0 : kont) :
  ev UC rTOK pos rest c k0 =
  match rest with
  | y :: t => if (y =? 34)%N then match str_tok_len t with Some len => k0 (S pos + len) (skipn len t) c | None => MNo end
              else MNo
  | [] => MNo
  end.
Proof.
  unfold rTOK. rewrite ev_cat. rewrite (ev_one UC _ _ (one_lit UC 34)).
  destruct rest as [|y t]; [reflexivity|]. destruct (y =? 34)%N; [|reflexivity].
  rewrite ev_cat. cbn [ev]. apply tok_loop. lia.
Qed.

(* ---------- the fraction ---------- *)
Definition is0 (y : N) : bool := (y =? 48)%N.
Definition k_look : kont := fun p r' c' => ev UC rLOOK p r' c' kfin.

Lemma k_look_is p r c : k_look p r c = if look_ok r then MYes p c else MNo.
Proof.
  unfold k_look, rLOOK. rewrite ev_look, ev_alt. rewrite (ev_one UC _ _ (one_in UC false _)). rewrite ev_eol.
  destruct r as [|y t]; [reflexivity|]. unfold look_ok, class_match. rewrite Bool.xorb_false_l. cbn [existsb item_match].
  rewrite orb_false_r. rewrite <- !orb_assoc.
  destruct ((y =? 44)%N || ((y =? 125)%N || ((y =? 93)%N || (y =? 10)%N))) eqn:E; [reflexivity|].
  apply orb_false_iff in E. destruct E as [_ E]. apply orb_false_iff in E. destruct E as [_ E].
  apply orb_false_iff in E. destruct E as [_ E]. rewrite E. destruct t; reflexivity.
Qed.

Lemma k_look_zero q y t c' : is0 y = true -> k_look q (y :: t) c' = MNo.
Proof. unfold is0. intros H. apply N.eqb_eq in H. subst. rewrite k_look_is. reflexivity. Qed.

Lemma zeros_len_span : forall t, fst (span is0 t) = zeros_len t.
Proof.
  induction t as [|y t IH]; [reflexivity|]. cbn [span zeros_len]. unfold is0 at 1.
  destruct (y =? 48)%N; [|reflexivity]. destruct (span is0 t). cbn [fst] in *. rewrite IH. reflexivity.
Qed.

Lemma ev_frac pos rest :
  ev UC rFRAC pos rest [] kfin =
  match rest with
  | y :: t => if (y =? 46)%N then (if look_ok (skipn (zeros_len t) t) then MYes (S pos + zeros_len t) [] else MNo) else MNo
  | [] => MNo
  end.
Proof.
  unfold rFRAC. rewrite ev_cat. rewrite (ev_one UC _ _ (one_lit UC 46)).
  destruct rest as [|y t]; [reflexivity|]. destruct (y =? 46)%N; [|reflexivity].
  rewrite ev_cat. rewrite (ev_star UC _ _ (one_lit UC 48)). fold is0. fold k_look.
  rewrite star_bt_longest by (right; intros q z t' c' Hz; apply k_look_zero; exact Hz).
  rewrite k_look_is. rewrite span_skipn. rewrite zeros_len_span. reflexivity.
Qed.

(* ---------- the engine's answer for the whole pattern at any position of any text ---------- *)
Lemma ev_json_cleanup pos rest :
  ev UC R_VALUE_JSON_NUMBER_CLEANUP pos rest [] kfin =
  match rest with
  | y :: t =>
      if (y =? 34)%N then
        match str_tok_len t with Some len => MYes (S pos + len) [(1%nat, (pos, S pos + len))] | None => MNo end
      else if (y =? 46)%N then
        (if look_ok (skipn (zeros_len t) t) then MYes (S pos + zeros_len t) [] else MNo)
      else MNo
  | [] => MNo
  end.
Proof.
  rewrite json_cleanup_regex_shape. rewrite ev_alt, ev_group, ev_tok, ev_frac.
  destruct rest as [|y t]; [reflexivity|].
  destruct (y =? 34)%N eqn:E34.
  - apply N.eqb_eq in E34. subst y. destruct (str_tok_len t); reflexivity.
  - reflexivity.
Qed.

(* ---------- re.sub with the callback  m.group(1) or ''  ---------- *)
Lemma scan_copy_n : forall n t, scan (CCopy n) t = firstn n t ++ scan CNorm (skipn n t).
Proof.
  induction n as [|n IH]; intros t; [apply scan_copy0|].
  destruct t as [|c t]; [reflexivity|]. cbn [scan firstn skipn app]. rewrite IH. reflexivity.
Qed.
Lemma scan_drop_n : forall n t, scan (CDrop n) t = scan CNorm (skipn n t).
Proof.
  induction n as [|n IH]; intros t; [apply scan_drop0|].
  destruct t as [|c t]; [reflexivity|]. cbn [scan skipn]. apply IH.
Qed.

Lemma scan_norm_cons y t :
  scan CNorm (y :: t) =
  if (y =? 34)%N then match str_tok_len t with Some n => y :: scan (CCopy n) t | None => y :: scan CNorm t end
  else if (y =? 46)%N then (if look_ok (skipn (zeros_len t) t) then scan (CDrop (zeros_len t)) t else y :: scan CNorm t)
  else y :: scan CNorm t.
Proof. reflexivity. Qed.

Lemma skipn_skipn {A} : forall n m (l : list A), skipn m (skipn n l) = skipn (n + m) l.
Proof. induction n as [|n IH]; intros m l; [reflexivity|]. destruct l as [|x l]; [destruct m; reflexivity|]. cbn [skipn Nat.add]. apply IH. Qed.

Lemma skipn_len_le {A} n (l : list A) : length (skipn n l) <= length l.
Proof. rewrite skipn_length. lia. Qed.

Lemma sub_scan whole : forall f rest pos, length rest < f -> rest = skipn pos whole ->
  re_sub_from UC R_VALUE_JSON_NUMBER_CLEANUP (cleanup_repl whole) whole f pos rest = Some (scan CNorm rest).
Proof.
  induction f as [|f IH]; intros rest pos Lf Hr; [lia|].
  assert (Lw : length rest <= length whole) by (subst rest; apply skipn_len_le).
  cbn [re_sub_from]. rewrite m_at_ev by exact Lw. rewrite ev_json_cleanup.
  destruct rest as [|y t]; [reflexivity|]. rewrite scan_norm_cons. cbn [length] in Lf.
  pose proof (skipn_cons_nth whole pos y t (eq_sym Hr)) as [_ Ht].
  destruct (y =? 34)%N.
  - destruct (str_tok_len t) as [len|].
    + assert (Hlt : Nat.ltb pos (S pos + len) = true) by (apply Nat.ltb_lt; lia). rewrite Hlt.
      replace (S pos + len - pos) with (S len) by lia. cbn [skipn].
      rewrite IH; [| pose proof (skipn_len_le len t); lia | rewrite Ht, skipn_skipn; f_equal; lia].
      cbn [option_map]. f_equal. rewrite scan_copy_n.
      unfold cleanup_repl, group_text, cap_set. cbn [cap_get Nat.eqb]. unfold sub_list. rewrite <- Hr.
      replace (S pos + len - pos) with (S len) by lia. reflexivity.
    + rewrite IH by (try lia; exact Ht). reflexivity.
  - destruct (y =? 46)%N.
    + destruct (look_ok (skipn (zeros_len t) t)).
      * assert (Hlt : Nat.ltb pos (S pos + zeros_len t) = true) by (apply Nat.ltb_lt; lia). rewrite Hlt.
        replace (S pos + zeros_len t - pos) with (S (zeros_len t)) by lia. cbn [skipn].
        rewrite IH; [| pose proof (skipn_len_le (zeros_len t) t); lia | rewrite Ht, skipn_skipn; f_equal; lia].
        cbn [option_map]. rewrite scan_drop_n. reflexivity.
      * rewrite IH by (try lia; exact Ht). reflexivity.
    + rewrite IH by (try lia; exact Ht). reflexivity.
Qed.

Theorem cleanup_re_is_cleanup s : cleanup_re s = Some (cleanup s).
Proof. unfold cleanup_re, re_sub, cleanup. apply sub_scan; [lia | reflexivity]. Qed.

Theorem encode_re_is_encode indent v : encode_re indent v = Some (encode indent v).
Proof. unfold encode_re, encode. apply cleanup_re_is_cleanup. Qed.

Theorem cleanup_agree_all s : cleanup_agree s = true.
Proof. unfold cleanup_agree. rewrite cleanup_re_is_cleanup. apply str_eqb_refl. Qed.

(* ---------- the property theorems about the text the CODE produces (regex pass run by the engine) ---------- *)
From BS Require Import Proofs.C14a Proofs.C14c Proofs.C14.

Theorem roundtrip_re indent v : wf v = true -> exists t, encode_re indent v = Some t /\ decode t = DecOk (canon v).
Proof. intros W. exists (encode indent v). split; [apply encode_re_is_encode | apply roundtrip; exact W]. Qed.

Theorem encode_re_injective indent v1 v2 : wf v1 = true -> wf v2 = true ->
  encode_re indent v1 = encode_re indent v2 -> canon v1 = canon v2.
Proof.
  intros W1 W2 E. rewrite !encode_re_is_encode in E. inversion E as [E']. exact (encode_injective indent v1 v2 W1 W2 E').
Qed.

Theorem encode_re_is_render_canon indent v : wf v = true ->
  encode_re indent v = Some (render (norm_indent indent) 0 (canon v)).
Proof. intros W. rewrite encode_re_is_encode. f_equal. apply encode_is_render_canon. exact W. Qed.

Theorem cleanup_re_string s r : exists t, cleanup_re r = Some t /\ cleanup_re (esc_string s ++ r) = Some (esc_string s ++ t).
Proof.
  exists (cleanup r). split; [apply cleanup_re_is_cleanup|]. rewrite cleanup_re_is_cleanup. f_equal. apply scan_string.
Qed.

Theorem cleanup_re_num n r : num_ok n = true -> look_ok r = true ->
  exists t, cleanup_re r = Some t /\ cleanup_re (num_text n ++ r) = Some (num_text (strip_num n) ++ t).
Proof.
  intros N L. exists (cleanup r). split; [apply cleanup_re_is_cleanup|]. rewrite cleanup_re_is_cleanup. f_equal.
  apply scan_num; assumption.
Qed.
