(* Proofs/C10stmtGaps9.v — function begin, the argument list: the model's re_split of the captured argument text at
   `\s*,\s*` IS the list of the argument names, for EVERY argument list.

     fn_args (Some (a1, [(u1, v1, a2); ...]))  =  ROk (Some [a1; a2; ...])       (aok: a_i identifiers, u_i v_i white)
     fn_args None                               =  ROk None

   The captured text  atext args = a1 u1 , v1 a2 ...  starts and ends with an identifier character: group 3 of the function
   begin regex ends right behind the last name (the white run in front of `...` or `)` belongs to the dots group / to the
   `\s*` in front of the parenthesis, see FB_ARGS_read), so the split never meets a leading or trailing white run and never
   produces an empty piece.

   re_split_from walks the text: at a character of a name the regex `\s*,\s*` answers MNo (the empty `\s*`, then a word
   character where the comma is required) and the character joins the current piece; at the first character of
   `u , v` the greedy reading takes all of u, the comma and all of v (the continuation is kfin, so the longest reading is
   the answer; v stops at the first character of the next name), the piece is closed and the walk goes on behind v. *)
From Coq Require Import Lia.
From BS Require Import Model.Base Model.Regex Model.Num Model.NumText Model.ExprParser Model.Script Model.Lower Gen.Unicode Gen.Regexes
  Proofs.RegexFacts Proofs.RegexComplete Proofs.RegexShift Proofs.RegexEval Proofs.C02rx Proofs.C10ws Proofs.C10wsExpr
  Proofs.C10wsFull Proofs.C10wsIndent Proofs.C10wsIndent2 Proofs.C10tokSpaced Proofs.RegexTrail Proofs.C10tokTrail Proofs.RegexTrail2
  Proofs.RegexTrail3 Proofs.C10stmtTrail Proofs.C10parseNoeq Proofs.C10classifyTrail Proofs.C10stmtGaps Proofs.C10stmtGaps2
  Proofs.C10stmtGaps3 Proofs.C10stmtGaps4 Proofs.C10stmtGaps5 Proofs.C10stmtGaps8.

Lemma shape_arg_split : R_SCRIPT_FUNCTION_ARG_SPLIT = RCat rsp (RCat (RLit 44) rsp).
Proof. reflexivity. Qed.

(* at a character of a name: no separator starts here *)
Lemma split_at_word y t pos : is_word_u y = true -> ev UC R_SCRIPT_FUNCTION_ARG_SPLIT pos (y :: t) [] kfin = MNo.
Proof.
  intros WY. rewrite shape_arg_split.
  apply (rsp_lit_fail 44 [] y t rsp pos [] kfin sp44 white_nil).
  - unfold is_sp. exact (word_not_space y WY).
  - intros ->. rewrite word44 in WY. discriminate.
Qed.

(* at the first character of  u , v  in front of a name: the whole separator is read *)
Lemma split_at_sep u v r pos : white u -> white v -> hd_ok is_sp r ->
  ev UC R_SCRIPT_FUNCTION_ARG_SPLIT pos (u ++ 44%N :: v ++ r) [] kfin = MYes (pos + length u + 1 + length v) [].
Proof.
  intros WU WV HR. rewrite shape_arg_split. rewrite (rsp_lit_read 44 u (v ++ r) rsp pos [] kfin sp44 WU).
  unfold rsp. rewrite (ev_star UC _ _ (one_in UC false _)). fold cmWs.
  rewrite star_bt_longest; rewrite span_cmWs, (span_sp_stop' v r WV HR); cbn [fst snd].
  - unfold kfin. f_equal. lia.
  - left. unfold kfin. discriminate.
Qed.

Definition name3 (x : arg3) : str := let '(u, v, a) := x in a.

Lemma skipn_app_len {A} (a b : list A) n : n = length a -> skipn n (a ++ b) = b.
Proof. intros ->. induction a as [|x a IH]; [reflexivity | exact IH]. Qed.

Lemma ident_words a : ident a = true -> forallb is_word_u a = true.
Proof.
  destruct a as [|y nm]; [discriminate|]. cbn [ident forallb]. intros H. apply andb_true_iff in H. destruct H as [Y NM].
  rewrite (idstart_word y Y), NM. reflexivity.
Qed.

Lemma ident_hd_sp a r : ident a = true -> hd_ok is_sp (a ++ r).
Proof.
  destruct a as [|y nm]; [discriminate|]. cbn [ident app hd_ok]. intros H. apply andb_true_iff in H. exact (idstart_sp y (proj1 H)).
Qed.

(* the walk of re_split_from over  a (u , v a_i)* : `a` is the rest of the name being read, `cur` its characters so far *)
Lemma split_walk whole : forall more a fuel pos cur,
  forallb is_word_u a = true -> mok more -> length (a ++ mtext more) < fuel -> length (a ++ mtext more) <= length whole ->
  re_split_from UC R_SCRIPT_FUNCTION_ARG_SPLIT whole fuel pos (a ++ mtext more) cur = Some ((rev cur ++ a) :: map name3 more).
Proof.
  induction more as [|[[u v] a'] more IHm].
  - (* the last name *)
    induction a as [|y a IHa]; intros fuel pos cur WA _ LF LW; (destruct fuel as [|fuel]; [lia|]); cbn [mtext app map re_split_from].
    + rewrite app_nil_r. reflexivity.
    + cbn [forallb] in WA. apply andb_true_iff in WA. destruct WA as [WY WA].
      cbn [mtext] in LF, LW. rewrite app_nil_r in LF, LW. rewrite app_nil_r. cbn [length] in LF, LW.
      rewrite (m_at_ev UC R_SCRIPT_FUNCTION_ARG_SPLIT whole pos (y :: a)) by (cbn [length]; lia).
      rewrite (split_at_word y a pos WY).
      specialize (IHa fuel (S pos) (y :: cur) WA I). cbn [mtext] in IHa. rewrite app_nil_r in IHa.
      rewrite IHa by lia. cbn [rev map]. rewrite <- app_assoc. reflexivity.
  - (* a name followed by a separator and further names *)
    induction a as [|y a IHa]; intros fuel pos cur WA MO LF LW; (destruct fuel as [|fuel]; [lia|]).
    + cbn [mok aok1] in MO. destruct MO as ((WU & WV & IA) & MO).
      assert (ER0 : mtext (@cons arg3 (u, v, a') more) = u ++ 44%N :: v ++ a' ++ mtext more).
      { cbn [mtext atext1]. repeat rewrite <- app_assoc. cbn [app]. rewrite <- app_assoc. reflexivity. }
      cbn [app] in LF, LW. cbn [app]. rewrite ER0 in LF, LW. rewrite ER0. clear ER0.
      assert (HR : hd_ok is_sp (a' ++ mtext more)) by exact (ident_hd_sp a' (mtext more) IA).
      set (rest := u ++ 44%N :: v ++ a' ++ mtext more) in *.
      assert (LR : length rest = length u + 1 + length v + length (a' ++ mtext more)).
      { subst rest. rewrite app_length. cbn [length]. rewrite app_length. lia. }
      assert (EV : m UC (fuel_for R_SCRIPT_FUNCTION_ARG_SPLIT whole) R_SCRIPT_FUNCTION_ARG_SPLIT pos rest [] (fun p _ c => MYes p c)
                   = MYes (pos + length u + 1 + length v) []).
      { rewrite (m_at_ev UC R_SCRIPT_FUNCTION_ARG_SPLIT whole pos rest LW). subst rest. exact (split_at_sep u v _ pos WU WV HR). }
      assert (LT : Nat.ltb pos (pos + length u + 1 + length v) = true) by (apply Nat.ltb_lt; lia).
      assert (SK : skipn (pos + length u + 1 + length v - pos) rest = a' ++ mtext more).
      { subst rest. change (u ++ 44%N :: v ++ a' ++ mtext more) with (u ++ [44%N] ++ v ++ a' ++ mtext more).
        rewrite (app_assoc u), (app_assoc (u ++ [44%N])). apply skipn_app_len. repeat rewrite app_length. cbn [length]. lia. }
      assert (L1 : length (a' ++ mtext more) < fuel) by lia.
      assert (L2 : length (a' ++ mtext more) <= length whole) by lia.
      destruct rest as [|y0 t0] eqn:ER.
      { cbn [length] in LR. lia. }
      cbn [re_split_from]. rewrite EV, LT, SK.
      rewrite (IHm a' fuel _ [] (ident_words a' IA) MO L1 L2).
      cbn [option_map rev app map name3]. rewrite app_nil_r. reflexivity.
    + cbn [forallb] in WA. apply andb_true_iff in WA. destruct WA as [WY WA].
      cbn [app length] in LF, LW. cbn [app re_split_from].
      rewrite (m_at_ev UC R_SCRIPT_FUNCTION_ARG_SPLIT whole pos (y :: a ++ mtext (@cons arg3 (u, v, a') more))) by (cbn [length]; lia).
      rewrite (split_at_word y _ pos WY).
      rewrite (IHa fuel (S pos) (y :: cur) WA MO) by lia.
      cbn [rev]. rewrite <- app_assoc. reflexivity.
Qed.

Definition fn_names (args : option (str * list arg3)) : option (list str) :=
  match args with Some (a1, more) => Some (a1 :: map name3 more) | None => None end.

Theorem fn_args_names args : aok args -> fn_args args = ROk (fn_names args).
Proof.
  intros AO. destruct args as [[a1 more]|]; [|reflexivity]. cbn [aok] in AO. destruct AO as [IA MO].
  unfold fn_args, fn_names, re_split. cbn [atext].
  rewrite (split_walk (a1 ++ mtext more) more a1 _ 0 [] (ident_words a1 IA) MO) by lia. reflexivity.
Qed.

Theorem classify_fn_begin_names n asy w1 w2 name w3 w4 args dots w6 w7 w8 :
  awhite asy -> white w1 -> white w2 -> w2 <> [] -> ident name = true -> white w3 -> white w4 -> aok args -> dwhite dots ->
  white w6 -> white w7 -> white w8 -> hd_ok is_sp (atext args ++ dtext dots ++ CL w6 w7 w8) ->
  classify n (astext asy ++ w1 ++ KW_FUNCTION ++ w2 ++ name ++ w3 ++ 40%N :: w4 ++ atext args ++ dtext dots ++ CL w6 w7 w8)
  = ROk (KFnBegin name (ROk (fn_names args)) (is_some asy) (is_some dots)).
Proof.
  intros AW W1 W2 N2 ID W3 W4 AO DW W6 W7 W8 HD. rewrite <- (fn_args_names args AO).
  apply classify_fn_begin_shape; assumption.
Qed.

(* non-vacuity: the example of C10stmtGaps8 through the theorem (no computation of the split), and the names do not depend
   on the runs *)
Lemma fn_names_examples :
  aok (Some (U "a", [(U " ", [], U "b1"); (U " \000009 ", U " ", U "c")])) /\
  fn_names (Some (U "a", [(U " ", [], U "b1"); (U " \000009 ", U " ", U "c")])) = Some [U "a"; U "b1"; U "c"] /\
  classify 2 (U "  async \000009function  f1 ( a ,b1 \000009 , c  ... ) :  ")
    = ROk (KFnBegin (U "f1") (ROk (Some [U "a"; U "b1"; U "c"])) true true) /\
  classify 2 (U "function f1(a,b1,c):") = ROk (KFnBegin (U "f1") (ROk (Some [U "a"; U "b1"; U "c"])) false false) /\
  classify 2 (U "function f1(a):") = ROk (KFnBegin (U "f1") (ROk (Some [U "a"])) false false) /\
  (* white space inside a name is outside the shape: the line is no function begin at all *)
  classify 2 (U "function f1(a b):") <> classify 2 (U "function f1(ab):").
Proof.
  assert (AO : aok (Some (U "a", [(U " ", [], U "b1"); (U " \000009 ", U " ", U "c")]))).
  { cbn [aok mok aok1]. repeat split; try (apply whiteb_white; reflexivity). }
  split; [exact AO|]. split; [reflexivity|]. split.
  - change (U "  async \000009function  f1 ( a ,b1 \000009 , c  ... ) :  ")
      with (astext (Some (U "  ")) ++ U " \000009" ++ KW_FUNCTION ++ U "  " ++ U "f1" ++ U " " ++ 40%N :: U " "
            ++ atext (Some (U "a", [(U " ", [], U "b1"); (U " \000009 ", U " ", U "c")])) ++ dtext (Some (U "  ")) ++ CL (U " ") (U " ") (U "  ")).
    change (Some [U "a"; U "b1"; U "c"]) with (fn_names (Some (U "a", [(U " ", [], U "b1"); (U " \000009 ", U " ", U "c")]))).
    apply classify_fn_begin_names; try (apply whiteb_white; reflexivity); try reflexivity; try discriminate. exact AO.
  - split; [vm_compute; reflexivity|]. split; [vm_compute; reflexivity|]. vm_compute. discriminate.
Qed.
