(* Proofs/C10wsIndent2.v — INDENTATION of jump / jumpif / return / function-begin lines (the three statement regexes whose
   leading `\s*` sits inside a capture group opened at the start of the line):
       ^(?P<jump>\s*(?:jump|jumpif...))...      ^(?P<return>\s*return...)\s*$      ^(?P<async>\s*async)?\s*function...
   grp_tok_shift / opt_tok_shift: the ENGINE's answer on  ws ++ line  is its answer on  line  with every position moved by
   |ws| except the start of the outer group, which stays 0 (Proofs/RegexShiftG.v shiftcg).  The captured texts of all OTHER
   groups are therefore unchanged, and so is "which groups matched"; the text of the outer group (`jump` / `return`, used
   only for the error column) grows by the indentation.
   classify_indent_all: indentation does not change the classification of ANY statement line (only restriction left: an
   elif whose condition does not parse, whose kind carries the error with its column). *)
From Coq Require Import Lia.
From BS Require Import Model.Base Model.Regex Model.Num Model.ExprParser Model.Script Model.Lower Gen.Unicode Gen.Regexes
  Proofs.RegexFacts Proofs.RegexComplete Proofs.RegexShift Proofs.ExprFuel Proofs.RegexShiftG
  Proofs.C10ws Proofs.C10wsExpr Proofs.C10wsIndent.

Lemma white_spaces ws : white ws -> forall y, In y ws -> is_space UC y = true.
Proof. intros W. exact W. Qed.

Lemma fuel_bound a A l L d k : a <= A -> l <= L -> a * (l + 1) <= k + (d + (A + 3) * (L + 1)).
Proof. intros H1 H2. assert (a * (l + 1) <= A * (L + 1)) by (apply Nat.mul_le_mono; lia). lia. Qed.

(* ================= ^(\s*Y)Z ================= *)
Lemma grp_tok_shift g Y Z ws text :
  no_bol Y = true -> nogrp g Y = true -> no_bol Z = true -> nogrp g Z = true -> fails_on_space UC Y -> white ws ->
  re_match UC (RCat RBol (RCat (RGroup g (RCat rsp Y)) Z)) (ws ++ text) =
  shiftrg (length ws) g (re_match UC (RCat RBol (RCat (RGroup g (RCat rsp Y)) Z)) text).
Proof.
  intros NY GY NZ GZ FS W. set (r := RCat RBol (RCat (RGroup g (RCat rsp Y)) Z)). set (d := length ws).
  assert (Rs : rsize r = rsize Y + rsize Z + 7) by (unfold r, rsp; cbn [rsize]; lia).
  set (L := length (ws ++ text)).
  assert (Lapp : L = d + length text) by apply app_length.
  set (G := d + (rsize r + 3) * (L + 1)).
  rewrite (re_match_as_m UC r (ws ++ text) (S (S (S (S G))))) by (unfold G; fold L; lia).
  assert (Hm : rsize r * (length text + 1) <= rsize r * (L + 1)) by (apply Nat.mul_le_mono_l; lia).
  rewrite (re_match_as_m UC r text (S (S (S (S G))))) by (unfold G; lia).
  unfold r. rewrite !grp_unfold.
  set (K2 := fun p2 (r2 : str) c2 => m UC (S (S G)) Z p2 r2 (cap_set g (0, p2) c2) kfin).
  set (KB := fun p (r' : str) c' => m UC G Y p r' c' K2).
  assert (K2n : forall p r' c', length r' <= L -> K2 p r' c' <> MFuel).
  { intros p r' c' Hl. unfold K2. apply m_no_fuel; [change (S (S G)) with (2 + G); unfold G; apply fuel_bound; lia | discriminate]. }
  assert (KBn : forall p r' c', length r' <= L -> KB p r' c' <> MFuel).
  { intros p r' c' Hl. unfold KB. apply m_no_fuel; [unfold G; apply (fuel_bound _ _ _ _ _ 0); lia|]. intros p2 q2 c2 Hp2 Hl2. apply K2n. lia. }
  apply (rsp_prefix UC d g ws text G KB).
  - exact W.
  - reflexivity.
  - unfold G. fold L. nia.
  - intros p y rest' c' Hy Hl. unfold KB. apply (fails_on_space_m UC Y G p y rest' c' K2 FS Hy). apply KBn. exact Hl.
  - intros p r' c' Hl. apply KBn. lia.
  - intros p r' c'. unfold KB. apply m_shiftg; [exact NY | exact GY |]. intros p2 q2 c2 _. unfold K2.
    assert (E : cap_set g (0, d + p2) (shiftcg d g c2) = shiftcg d g (cap_set g (0, p2) c2)).
    { unfold shiftcg, cap_set. cbn [map]. unfold shg at 2. cbn [fst snd]. rewrite Nat.eqb_refl. reflexivity. }
    rewrite E. apply m_shiftg; [exact NZ | exact GZ |]. intros p3 q3 c3 _. reflexivity.
Qed.

(* ================= ^(\s*A)?\s*F ================= *)
Lemma opt_tok_shift g A Fr ws text :
  no_bol A = true -> nogrp g A = true -> 1 <= minlen A -> fails_on_space UC A ->
  no_bol Fr = true -> nogrp g Fr = true -> fails_on_space UC Fr -> white ws ->
  re_match UC (RCat RBol (RCat (RRep 0 (Some 1) (RGroup g (RCat rsp A))) (RCat rsp Fr))) (ws ++ text) =
  shiftrg (length ws) g (re_match UC (RCat RBol (RCat (RRep 0 (Some 1) (RGroup g (RCat rsp A))) (RCat rsp Fr))) text).
Proof.
  intros NA GA MA FA NF GF FF W.
  set (Gp := RGroup g (RCat rsp A)). set (T := RCat rsp Fr).
  set (r := RCat RBol (RCat (RRep 0 (Some 1) Gp) T)). set (d := length ws).
  assert (Rs : rsize r = rsize A + rsize Fr + 11) by (unfold r, Gp, T, rsp; cbn [rsize]; lia).
  set (L := length (ws ++ text)).
  assert (Lapp : L = d + length text) by apply app_length.
  set (G := d + (rsize r + 3) * (L + 1)).
  rewrite (re_match_as_m UC r (ws ++ text) (S (S (S (S (S G)))))) by (unfold G; fold L; lia).
  assert (Hm : rsize r * (length text + 1) <= rsize r * (L + 1)) by (apply Nat.mul_le_mono_l; lia).
  rewrite (re_match_as_m UC r text (S (S (S (S (S G)))))) by (unfold G; lia).
  unfold r, Gp, T. rewrite !opt_unfold.
  set (KF := fun p (r' : str) c' => m UC (S (S G)) Fr p r' c' kfin).
  set (KT := fun p (r' : str) c' => m UC (S (S (S G))) T p r' c' kfin).
  set (K3 := fun p2 (r2 : str) c2 => if Nat.eqb p2 0 then MNo else m UC (S (S (S G))) (RCat rsp Fr) p2 r2 (cap_set g (0, p2) c2) kfin).
  set (KB := fun p (r' : str) c' => m UC G A p r' c' K3).
  assert (KFn : forall p r' c', length r' <= L -> KF p r' c' <> MFuel).
  { intros p r' c' Hl. unfold KF. apply m_no_fuel; [change (S (S G)) with (2 + G); unfold G; apply fuel_bound; lia | discriminate]. }
  assert (KTn : forall p r' c', length r' <= L -> KT p r' c' <> MFuel).
  { intros p r' c' Hl. unfold KT. apply m_no_fuel; [change (S (S (S G))) with (3 + G); unfold G; apply fuel_bound; [unfold T, rsp; cbn [rsize]; lia | lia] | discriminate]. }
  assert (KBn : forall p r' c', length r' <= L -> KB p r' c' <> MFuel).
  { intros p r' c' Hl. unfold KB. apply m_no_fuel; [unfold G; apply (fuel_bound _ _ _ _ _ 0); lia|]. intros p2 q2 c2 Hp2 Hl2. unfold K3.
    destruct (Nat.eqb p2 0); [discriminate|]. apply (KTn p2 q2 (cap_set g (0, p2) c2)). lia. }
  assert (KTs : forall p r' c', KT (d + p) r' (shiftcg d g c') = shiftrg d g (KT p r' c')).
  { intros p r' c'. unfold KT. apply m_shiftg; [unfold T; cbn [no_bol]; rewrite NF; reflexivity | unfold T; cbn [nogrp]; rewrite GF; reflexivity |].
    intros p3 q3 c3 _. reflexivity. }
  assert (E1 : m UC G rsp 0 (ws ++ text) [] KB = shiftrg d g (m UC G rsp 0 text [] KB)).
  { apply (rsp_prefix UC d g ws text G KB).
    - exact W.
    - reflexivity.
    - unfold G. fold L. lia.
    - intros p y rest' c' Hy Hl. unfold KB. apply (fails_on_space_m UC A G p y rest' c' K3 FA Hy). apply KBn. exact Hl.
    - intros p r' c' Hl. apply KBn. lia.
    - intros p r' c'. unfold KB. apply m_shiftg; [exact NA | exact GA |]. intros p2 q2 c2 Hp2. unfold K3.
      assert (Z1 : Nat.eqb (d + p2) 0 = false) by (apply Nat.eqb_neq; lia).
      assert (Z2 : Nat.eqb p2 0 = false) by (apply Nat.eqb_neq; lia).
      rewrite Z1, Z2.
      assert (E : cap_set g (0, d + p2) (shiftcg d g c2) = shiftcg d g (cap_set g (0, p2) c2)).
      { unfold shiftcg, cap_set. cbn [map]. unfold shg at 2. cbn [fst snd]. rewrite Nat.eqb_refl. reflexivity. }
      rewrite E. apply (KTs p2 q2 (cap_set g (0, p2) c2)). }
  assert (E2 : m UC (S (S G)) rsp 0 (ws ++ text) [] KF = shiftrg d g (m UC (S (S G)) rsp 0 text [] KF)).
  { apply (rsp_prefix UC d g ws text (S (S G)) KF).
    - exact W.
    - reflexivity.
    - unfold G. fold L. lia.
    - intros p y rest' c' Hy Hl. unfold KF. apply (fails_on_space_m UC Fr (S (S G)) p y rest' c' kfin FF Hy). apply KFn. exact Hl.
    - intros p r' c' Hl. apply KFn. lia.
    - intros p r' c'. unfold KF. apply m_shiftg; [exact NF | exact GF |]. intros p3 q3 c3 _. reflexivity. }
  rewrite E1, E2. destruct (m UC G rsp 0 text [] KB); reflexivity.
Qed.

(* ================= the three statement regexes ================= *)
Lemma jump_shift ws line : white ws ->
  rxm R_SCRIPT_JUMP (ws ++ line) = shiftrg (length ws) 1 (rxm R_SCRIPT_JUMP line).
Proof.
  intros W. unfold rxm, R_SCRIPT_JUMP.
  apply (grp_tok_shift 1 _ _ ws line); try reflexivity; [apply tok_ok_fails; reflexivity | exact W].
Qed.

Lemma return_shift ws line : white ws ->
  rxm R_SCRIPT_RETURN (ws ++ line) = shiftrg (length ws) 1 (rxm R_SCRIPT_RETURN line).
Proof.
  intros W. unfold rxm, R_SCRIPT_RETURN.
  apply (grp_tok_shift 1 _ _ ws line); try reflexivity; [apply tok_ok_fails; reflexivity | exact W].
Qed.

Lemma fn_begin_shift ws line : white ws ->
  rxm R_SCRIPT_FUNCTION_BEGIN (ws ++ line) = shiftrg (length ws) 1 (rxm R_SCRIPT_FUNCTION_BEGIN line).
Proof.
  intros W. unfold rxm, R_SCRIPT_FUNCTION_BEGIN.
  apply (opt_tok_shift 1 _ _ ws line); try reflexivity; [cbn; lia | apply tok_ok_fails; reflexivity | apply tok_ok_fails; reflexivity | exact W].
Qed.

Lemma gtext_shiftg g ws line c n : Nat.eqb n g = false -> gtext (ws ++ line) (shiftcg (length ws) g c) n = gtext line c n.
Proof. intros NE. unfold gtext. rewrite group_text_shiftg by exact NE. reflexivity. Qed.
Lemma ghas_shiftg d g c n : ghas (shiftcg d g c) n = ghas c n.
Proof. unfold ghas. apply cap_get_shiftcg_has. Qed.

Definition indent_kind_all (k : line_kind) : bool :=
  match k with
  | KElif (ROk _) => true
  | KElif _ => false
  | _ => true
  end.

Ltac tokrw R W := rewrite (rxm_tok R _ _ _ eq_refl eq_refl W).

Theorem classify_indent_all n ws line k : white ws -> indent_kind_all k = true ->
  classify n line = ROk k -> classify n (ws ++ line) = ROk k.
Proof.
  intros W IK. unfold classify.
  tokrw R_SCRIPT_ASSIGNMENT W. tokrw R_SCRIPT_FUNCTION_END W. tokrw R_SCRIPT_IF_BEGIN W. tokrw R_SCRIPT_IF_ELSE_IF W.
  tokrw R_SCRIPT_IF_ELSE W. tokrw R_SCRIPT_IF_END W. tokrw R_SCRIPT_WHILE_BEGIN W. tokrw R_SCRIPT_WHILE_END W.
  tokrw R_SCRIPT_FOR_BEGIN W. tokrw R_SCRIPT_FOR_END W. tokrw R_SCRIPT_BREAK W. tokrw R_SCRIPT_CONTINUE W.
  tokrw R_SCRIPT_LABEL W. tokrw R_SCRIPT_INCLUDE W. tokrw R_SCRIPT_INCLUDE_SYSTEM W.
  rewrite (fn_begin_shift ws line W), (jump_shift ws line W), (return_shift ws line W).
  (* assignment *)
  destruct (rxm R_SCRIPT_ASSIGNMENT line) as [|e c|]; cbn [shiftr]; [| |discriminate].
  2:{ rewrite !gtext_shift. destruct (stmt_expr _ line _ n) as [ex| | |] eqn:E; intros H; try discriminate H.
      rewrite (stmt_expr_ok _ _ _ (ws ++ line) (length (ws ++ line) - length (gtext line c R_SCRIPT_ASSIGNMENT__expr)) _ _ E). exact H. }
  (* function begin *)
  destruct (rxm R_SCRIPT_FUNCTION_BEGIN line) as [|e c|]; cbn [shiftrg]; [| |discriminate].
  2:{ rewrite !ghas_shiftg, !gtext_shiftg by reflexivity. exact (fun H => H). }
  destruct (rxm R_SCRIPT_FUNCTION_END line) as [|e c|]; cbn [shiftr]; [|exact (fun H => H)|discriminate].
  (* if *)
  destruct (rxm R_SCRIPT_IF_BEGIN line) as [|e c|]; cbn [shiftr]; [| |discriminate].
  2:{ rewrite !gtext_shift. destruct (stmt_expr _ line _ n) as [ex| | |] eqn:E; intros H; try discriminate H.
      rewrite (stmt_expr_ok _ _ _ (ws ++ line) (gstart (shiftc (length ws) c) R_SCRIPT_IF_BEGIN__expr) _ _ E). exact H. }
  (* elif *)
  destruct (rxm R_SCRIPT_IF_ELSE_IF line) as [|e c|]; cbn [shiftr]; [| |discriminate].
  2:{ rewrite !gtext_shift. intros H. injection H as <-. cbn [indent_kind_all] in IK.
      destruct (stmt_expr _ line _ n) as [ex| | |] eqn:E; try discriminate IK.
      rewrite (stmt_expr_ok _ _ _ (ws ++ line) (gstart (shiftc (length ws) c) R_SCRIPT_IF_ELSE_IF__expr) _ _ E). reflexivity. }
  destruct (rxm R_SCRIPT_IF_ELSE line) as [|e c|]; cbn [shiftr]; [|exact (fun H => H)|discriminate].
  destruct (rxm R_SCRIPT_IF_END line) as [|e c|]; cbn [shiftr]; [|exact (fun H => H)|discriminate].
  (* while *)
  destruct (rxm R_SCRIPT_WHILE_BEGIN line) as [|e c|]; cbn [shiftr]; [| |discriminate].
  2:{ rewrite !gtext_shift. destruct (stmt_expr _ line _ n) as [ex| | |] eqn:E; intros H; try discriminate H.
      rewrite (stmt_expr_ok _ _ _ (ws ++ line) (gstart (shiftc (length ws) c) R_SCRIPT_WHILE_BEGIN__expr) _ _ E). exact H. }
  destruct (rxm R_SCRIPT_WHILE_END line) as [|e c|]; cbn [shiftr]; [|exact (fun H => H)|discriminate].
  (* for *)
  destruct (rxm R_SCRIPT_FOR_BEGIN line) as [|e c|]; cbn [shiftr]; [| |discriminate].
  2:{ rewrite !gtext_shift. destruct (stmt_expr _ line _ n) as [ex| | |] eqn:E; intros H; try discriminate H.
      rewrite (stmt_expr_ok _ _ _ (ws ++ line) (gstart (shiftc (length ws) c) R_SCRIPT_FOR_BEGIN__values) _ _ E). exact H. }
  destruct (rxm R_SCRIPT_FOR_END line) as [|e c|]; cbn [shiftr]; [|exact (fun H => H)|discriminate].
  destruct (rxm R_SCRIPT_BREAK line) as [|e c|]; cbn [shiftr]; [|exact (fun H => H)|discriminate].
  destruct (rxm R_SCRIPT_CONTINUE line) as [|e c|]; cbn [shiftr]; [|exact (fun H => H)|discriminate].
  (* label *)
  destruct (rxm R_SCRIPT_LABEL line) as [|e c|]; cbn [shiftr]; [| |discriminate].
  2:{ rewrite gtext_shift. exact (fun H => H). }
  (* jump / jumpif *)
  destruct (rxm R_SCRIPT_JUMP line) as [|e c|]; cbn [shiftrg]; [| |discriminate].
  2:{ rewrite !(gtext_shiftg 1 ws line c R_SCRIPT_JUMP__expr), !(gtext_shiftg 1 ws line c R_SCRIPT_JUMP__name) by reflexivity.
      destruct (gtext line c R_SCRIPT_JUMP__expr) as [|x0 xt]; [exact (fun H => H)|].
      destruct (stmt_expr (x0 :: xt) line _ n) as [ex| | |] eqn:E; intros H; try discriminate H.
      rewrite (stmt_expr_ok _ _ _ (ws ++ line)
                 (length (gtext (ws ++ line) (shiftcg (length ws) 1 c) R_SCRIPT_JUMP__jump) - length (x0 :: xt) - 1) _ _ E). exact H. }
  (* return *)
  destruct (rxm R_SCRIPT_RETURN line) as [|e c|]; cbn [shiftrg]; [| |discriminate].
  2:{ rewrite !(gtext_shiftg 1 ws line c R_SCRIPT_RETURN__expr) by reflexivity.
      destruct (gtext line c R_SCRIPT_RETURN__expr) as [|x0 xt]; [exact (fun H => H)|].
      destruct (stmt_expr (x0 :: xt) line _ n) as [ex| | |] eqn:E; intros H; try discriminate H.
      rewrite (stmt_expr_ok _ _ _ (ws ++ line)
                 (length (gtext (ws ++ line) (shiftcg (length ws) 1 c) R_SCRIPT_RETURN__return) - length (x0 :: xt)) _ _ E). exact H. }
  (* include *)
  destruct (rxm R_SCRIPT_INCLUDE line) as [|e c|]; cbn [shiftr].
  - destruct (rxm R_SCRIPT_INCLUDE_SYSTEM line) as [|e c|]; cbn [shiftr]; [| |discriminate].
    + destruct (parse_expression line) as [ex| | |] eqn:E; intros H; try discriminate H.
      rewrite (parse_expression_ws_ok ws line ex W E). exact H.
    + rewrite gtext_shift. exact (fun H => H).
  - rewrite gtext_shift. destruct (unesc _ _); intros H; try discriminate H; exact H.
  - discriminate.
Qed.
