(* Proofs/C09termG.v — the termination theorem of Proofs/C09term.v with a WEAKER premise on the library.

   Proofs/C09term.v asks (lib_ranked) that a library function calls back only script functions and library functions of
   strictly lower RANK, a rank being a number per function NAME.  arraySort(a, arraySort) - or any library function that
   takes a function and is handed itself - violates it, although such a call terminates: the recursion through the library
   is well founded for a reason that depends on the ARGUMENTS and the HEAP, not on the name (a nested sort empties the list
   it sorts, so each level uses up one non-trivial list).

   Here the two premises lib_terminates / lib_ranked are replaced by ONE, [lib_wf mu Post]:
     * [mu name args w] is a measure of the library CALL (name, arguments, world at the call);
     * [Post name r] is something every answer of library function [name] satisfies, whatever its callback ([lib_post]);
     * a library call terminates as soon as the callbacks it is handed terminate (i) on everything that is not a library
       function (script functions: they start a statement, the budget pays) and (ii) on the library calls of SMALLER measure,
       with answers that satisfy Post.
   Nothing is assumed about callbacks on library calls of the same or a larger measure: the library function must not depend
   on them.  The old pair of premises implies the new one (lib_wf_of_ranked: mu = rank of the name, Post = True), so this is a
   generalisation; Proofs/C09termFullG.v instantiates it for the combined library libfull (arraySort handed arraySort
   included) and shows what is and is not true of closures. *)
From Coq Require Import Lia ZArith.
From BS Require Import Model.Base Model.Num Model.Arith Model.ExprParser Model.Script Model.Interp Proofs.InterpEq Proofs.C09 Proofs.C09term.
Local Open Scope Z_scope.

(* what the call wrapper (Model/Interp.v call_body) makes of a library function's answer *)
Definition wrap (r : lres * world) : outcome * world :=
  match r with
  | (LVal v, w1) => (OVal v, w1)
  | (LArgs ret msg, w1) => (OExc ret msg, w1)
  | (LRaise msg, w1) => (OExc VNull msg, w1)
  | (LRt msg, w1) => (ORt msg, w1)
  | (LFuel, w1) => (OFuel, w1)
  | (LOracle, w1) => (OOracle, w1)
  end.

Lemma wrap_count r : w_count (snd (wrap r)) = w_count (snd r).
Proof. destruct r as [lr w1]. destruct lr; reflexivity. Qed.

(* settles, does not lower the counter, and the answer satisfies Q *)
Definition TP {I : Type} (c0 : Z) (Q : outcome * world -> Prop) (run : I -> nat -> outcome * world) : Prop :=
  exists r, St run r /\ c0 <= w_count (snd r) /\ Q r.

Lemma TP_T {I} c0 Q (run : I -> nat -> outcome * world) : TP c0 Q run -> T c0 run.
Proof. intros (r & S & M & _). exists r. split; assumption. Qed.

Section TermG.
Variable cfg : config.
Variable lib : caller -> str -> list value -> world -> lres * world.
Variable url_rel : str -> str -> str.
Variable lint_lines : script -> list str.

Variable mu : str -> list value -> world -> nat.
Variable Post : str -> outcome * world -> Prop.

(* every answer of library function [name] satisfies [Post name], whatever the callback does *)
Definition lib_post : Prop := forall (cb : caller) name args w, Post name (wrap (lib cb name args w)).

(* THE PREMISE: a library call terminates once its callbacks terminate on non-library values and on smaller library calls *)
Definition lib_wf : Prop :=
  forall (J : Type) (c : Z) (cb : J -> nat -> caller) name args w, c <= w_count w ->
    (forall fv a' w', c <= w_count w' -> (forall nm, fv <> VFun (FLib nm)) -> T (w_count w') (fun j f => cb j f fv a' w')) ->
    (forall nm a' w', c <= w_count w' -> (mu nm a' w' < mu name args w)%nat ->
       TP (w_count w') (Post nm) (fun j f => cb j f (VFun (FLib nm)) a' w')) ->
    T (w_count w) (fun j f => lib (cb j f) name args w).

Hypothesis Hpos : 0 < c_max cfg.
Hypothesis Hpost : lib_post.
Hypothesis Hwf : lib_wf.

Variable I : Type.
Variable i0 : I.                                  (* the family is not empty *)
Variable ev : I -> nat -> evalT.
Variable cl : I -> nat -> callT.
Variable ex : I -> nat -> execT.
Hypothesis ev_S : forall i f e loc bi um w, ev i (S f) e loc bi um w = eval_body cfg (ev i f) (cl i f) e loc bi um w.
Hypothesis cl_S : forall i f fv a um w, cl i (S f) fv a um w = call_body lib (cl i f) (ex i f) fv a um w.
Hypothesis ex_S : forall i f code pc cache loc um w,
  ex i (S f) code pc cache loc um w = exec_body cfg url_rel lint_lines (ev i f) (ex i f) code pc cache loc um w.

Lemma cl_lib_wrap i f name a um w :
  cl i (S f) (VFun (FLib name)) a um w = wrap (lib (fun fv' a' w' => cl i f fv' a' um w') name a w).
Proof. rewrite cl_S. unfold call_body, wrap. reflexivity. Qed.

(* library calls, by induction on the measure of the call *)
Lemma lib_TG c : EXc I ex c -> forall n name a um w, (mu name a w < n)%nat -> c <= w_count w ->
  TP (w_count w) (Post name) (fun i f => cl i f (VFun (FLib name)) a um w).
Proof.
  intros HEX. induction n as [|n IHn]; intros name a um w Hn Hc; [lia|].
  assert (HT : T (w_count w) (fun i f => lib (fun fv' a' w' => cl i f fv' a' um w') name a w)).
  { apply (Hwf I c (fun i f fv' a' w' => cl i f fv' a' um w') name a w Hc).
    - intros fv a' w' Hc' Hfv. apply (cl_nonlib lib I cl ex cl_S c HEX fv Hfv a' um w' Hc').
    - intros nm a' w' Hc' Hlt. apply IHn; [lia|exact Hc']. }
  destruct HT as (rl & (f0 & S0) & M0).
  exists (wrap rl). split; [|split].
  - exists (S f0). intros i [|f] Hf; [lia|]. rewrite cl_lib_wrap. rewrite (S0 i f) by lia. reflexivity.
  - rewrite wrap_count. exact M0.
  - rewrite <- (S0 i0 f0 (le_n _)). apply Hpost.
Qed.

Lemma cl_of_exG c : EXc I ex c -> CLc I cl c.
Proof.
  intros HEX fv a um w Hc.
  destruct fv as [ |b|n|s|us|l|l|fr|id]; try (apply (cl_nonlib lib I cl ex cl_S c HEX); [intros nm; discriminate|exact Hc]).
  destruct fr as [nm|id]; [|apply (cl_nonlib lib I cl ex cl_S c HEX); [intros nm; discriminate|exact Hc]].
  eapply TP_T. apply (lib_TG c HEX (S (mu nm a w))); [lia|exact Hc].
Qed.

Lemma all_TG : forall n : nat,
  EXc I ex (c_max cfg - Z.of_nat n) /\ CLc I cl (c_max cfg - Z.of_nat n) /\ EVc I ev (c_max cfg - Z.of_nat n).
Proof.
  assert (Hall : forall c, EXc I ex c -> EXc I ex c /\ CLc I cl c /\ EVc I ev c).
  { intros c HEX. split; [exact HEX|]. split; [apply cl_of_exG; exact HEX|].
    apply (ev_of_cl cfg I ev cl ev_S c). apply cl_of_exG. exact HEX. }
  induction n as [|n (HX & _ & HE)]; apply Hall, (ex_step cfg url_rel lint_lines Hpos I ev ex ex_S).
  - intros H. lia.
  - intros _. replace (c_max cfg - Z.of_nat (S n) + 1) with (c_max cfg - Z.of_nat n) by lia. split; assumption.
Qed.

Theorem exec_terminatesG : forall code pc cache loc um w, T (w_count w) (fun i f => ex i f code pc cache loc um w).
Proof. intros. destruct (all_TG (Z.to_nat (c_max cfg - w_count w))) as (HX & _ & _). apply HX. lia. Qed.

Theorem eval_terminatesG : forall e loc bi um w, T (w_count w) (fun i f => ev i f e loc bi um w).
Proof. intros. destruct (all_TG (Z.to_nat (c_max cfg - w_count w))) as (_ & _ & HE). apply HE. lia. Qed.

Theorem call_terminatesG : forall fv a um w, T (w_count w) (fun i f => cl i f fv a um w).
Proof. intros. destruct (all_TG (Z.to_nat (c_max cfg - w_count w))) as (_ & HC & _). apply HC. lia. Qed.
End TermG.

(* ---- for the tower with its depth-0 answer as a parameter (Proofs/C09term.v evalB / callB / execB) ---- *)
Section MainG.
Variable cfg : config.
Variable lib : caller -> str -> list value -> world -> lres * world.
Variable url_rel : str -> str -> str.
Variable lint_lines : script -> list str.
Variable mu : str -> list value -> world -> nat.
Variable Post : str -> outcome * world -> Prop.
Hypothesis Hpos : 0 < c_max cfg.
Hypothesis Hpost : lib_post lib Post.
Hypothesis Hwf : lib_wf lib mu Post.

Notation evalB := (evalB cfg lib url_rel lint_lines).
Notation callB := (callB cfg lib url_rel lint_lines).
Notation execB := (execB cfg lib url_rel lint_lines).

Theorem exec_terminates_botG : forall code pc cache loc um w,
  exists fuel r, forall bot fuel', (fuel <= fuel')%nat -> execB bot fuel' code pc cache loc um w = r.
Proof.
  intros.
  destruct (exec_terminatesG cfg lib url_rel lint_lines mu Post Hpos Hpost Hwf outcome OFuel
              (fun b f => evalB b f) (fun b f => callB b f) (fun b f => execB b f)
              (fun _ _ _ _ _ _ _ => eq_refl) (fun _ _ _ _ _ _ => eq_refl) (fun _ _ _ _ _ _ _ _ => eq_refl)
              code pc cache loc um w) as (r & (f0 & S) & _).
  exists f0, r. exact S.
Qed.

Theorem eval_terminates_botG : forall e loc bi um w,
  exists fuel r, forall bot fuel', (fuel <= fuel')%nat -> evalB bot fuel' e loc bi um w = r.
Proof.
  intros.
  destruct (eval_terminatesG cfg lib url_rel lint_lines mu Post Hpos Hpost Hwf outcome OFuel
              (fun b f => evalB b f) (fun b f => callB b f) (fun b f => execB b f)
              (fun _ _ _ _ _ _ _ => eq_refl) (fun _ _ _ _ _ _ => eq_refl) (fun _ _ _ _ _ _ _ _ => eq_refl)
              e loc bi um w) as (r & (f0 & S) & _).
  exists f0, r. exact S.
Qed.

Theorem call_terminates_botG : forall fv a um w,
  exists fuel r, forall bot fuel', (fuel <= fuel')%nat -> callB bot fuel' fv a um w = r.
Proof.
  intros.
  destruct (call_terminatesG cfg lib url_rel lint_lines mu Post Hpos Hpost Hwf outcome OFuel
              (fun b f => evalB b f) (fun b f => callB b f) (fun b f => execB b f)
              (fun _ _ _ _ _ _ _ => eq_refl) (fun _ _ _ _ _ _ => eq_refl) (fun _ _ _ _ _ _ _ _ => eq_refl)
              fv a um w) as (r & (f0 & S) & _).
  exists f0, r. exact S.
Qed.

(* THE CLAUSE under the weaker premise *)
Theorem terminatesG : forall sc w,
  exists fuel r, forall bot fuel', (fuel <= fuel')%nat -> execute_script_bot cfg lib url_rel lint_lines bot fuel' sc w = r.
Proof.
  intros sc w. unfold execute_script_bot. cbv zeta.
  destruct (exec_terminates_botG sc 0%nat [] None UHost (upd_count (upd_globals w (inject_library (w_globals w))) 0)) as (f0 & r & S).
  exists f0, (fst (fst r), snd r). intros bot fuel' Hf. rewrite (S bot fuel' Hf). destruct r as [[o l] w2]. reflexivity.
Qed.

Corollary answer_never_from_fuelG : forall sc w,
  exists fuel, forall fuel', (fuel <= fuel')%nat -> forall bot,
    execute_script_bot cfg lib url_rel lint_lines bot fuel' sc w = execute_script cfg lib url_rel lint_lines fuel' sc w.
Proof.
  intros sc w. destruct (terminatesG sc w) as (f0 & r & S). exists f0. intros fuel' Hf bot.
  rewrite <- execute_script_bot_OFuel. rewrite (S bot fuel' Hf), (S OFuel fuel' Hf). reflexivity.
Qed.

Corollary settlesG : forall sc w,
  exists fuel, forall fuel', (fuel <= fuel')%nat ->
    execute_script cfg lib url_rel lint_lines fuel' sc w = execute_script cfg lib url_rel lint_lines fuel sc w.
Proof.
  intros sc w. destruct (terminatesG sc w) as (f0 & r & S). exists f0. intros fuel' Hf.
  rewrite <- execute_script_bot_OFuel. rewrite (S OFuel fuel' Hf), (S OFuel f0 (le_n _)). reflexivity.
Qed.
End MainG.

(* ---- the old premises imply the new one: mu = the rank of the name, Post = True ---- *)
Theorem lib_wf_of_ranked lib rank : lib_terminates lib -> lib_ranked lib rank ->
  lib_post lib (fun _ _ => True) /\ lib_wf lib (fun nm _ _ => rank nm) (fun _ _ => True).
Proof.
  intros Hterm Hrank. split; [intros cb name args w; exact Logic.I|].
  intros J c cb name args w Hc Hnon Hlow.
  pose (cb' := fun (j : J) (f : nat) (fv : value) (a' : list value) (w' : world) =>
                 match fv with
                 | VFun (FLib nm) => if (rank nm <? rank name)%nat then cb j f fv a' w' else (OExc VNull [], w')
                 | _ => cb j f fv a' w'
                 end).
  apply (T_ext _ _ _ (fun j f => lib (cb' j f) name args w)).
  { intros j f. apply Hrank. intros fv a' w' Hb. unfold cb'. destruct fv as [ |b|n|s|us|l|l|fr|id]; try reflexivity.
    destruct fr as [nm|id]; [|reflexivity]. cbn [below] in Hb. apply Nat.ltb_lt in Hb. rewrite Hb. reflexivity. }
  apply (Hterm J c cb'); [|exact Hc].
  intros fv a' w' Hc'. unfold cb'.
  destruct fv as [ |b|n|s|us|l|l|fr|id]; try (apply Hnon; [exact Hc'|intros nm; discriminate]).
  destruct fr as [nm|id]; [|apply Hnon; [exact Hc'|intros nm; discriminate]].
  destruct (rank nm <? rank name)%nat eqn:Hlt; [|apply T_const; cbn; lia].
  eapply TP_T. apply Hlow; [exact Hc'|apply Nat.ltb_lt in Hlt; exact Hlt].
Qed.
