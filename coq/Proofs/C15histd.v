(* Proofs/C15histd.v — C15 history, part 4: the commuting square over any history of OPS calls. *)
From Coq Require Import Lia ZifyBool SpecFloat.
From BS Require Import Model.Base Model.Num Model.LibVal Gen.ArgSpecs Model.LibSeq Proofs.BaseFacts Proofs.C15 Proofs.C15spec
  Proofs.C15hist Proofs.C15histb Proofs.C15histc.
Local Open Scope Z_scope.

(* ====================================================================== the step lemma for every operation of OPS *)
Theorem spec_call_refines : forall f, in_OPS f = true -> forall args h, abs_call (lib f args h) = spec_call f args (abs h).
Proof.
  intros f. unfold in_OPS, spec_call, spec_table. cbn [assoc].
  repeat match goal with
  | |- context [str_eqb f ?s] =>
      let E := fresh "E" in
      destruct (str_eqb f s) eqn:E;
      [ apply str_eqb_eq in E; subst f; intros _;
        first [ exact step_arrayNew | exact step_arrayNewSize | exact step_arrayCopy | exact step_arrayLength | exact step_arrayGet | exact step_arraySet
              | exact step_arrayDelete | exact step_arrayPush | exact step_arrayPop | exact step_arrayShift | exact step_arrayExtend
              | exact step_arraySlice | exact step_objectNew | exact step_objectCopy | exact step_objectKeys | exact step_objectGet
              | exact step_objectHas | exact step_objectSet | exact step_objectDelete | exact step_objectAssign ]
      | clear E ]
  end.
  discriminate.
Qed.

Lemma wrapper_res_abs : forall r, wrapper r = option_map sres_value (res_abs r).
Proof. destruct r; reflexivity. Qed.

Lemma run_op_refines : forall s o, op_in_OPS o = true -> abs_st (run_op s o) = spec_step (abs_st s) o.
Proof.
  intros [[e h]|] o O; [|reflexivity]. destruct o as [f l|n|v]; simpl.
  - destruct (eval_args e l) as [vs|]; [|reflexivity].
    rewrite <- (spec_call_refines f O vs h). unfold abs_call.
    destruct (lib f vs h) as [r h']. rewrite wrapper_res_abs. simpl. destruct (res_abs r); reflexivity.
  - destruct (nth_error e n); reflexivity.
  - reflexivity.
Qed.

(* HISTORY: abstraction commutes with running any list of OPS statements (results included: they are the
   variables appended to the environment, which both machines share) *)
Theorem history_refines_gen : forall ops s, forallb op_in_OPS ops = true ->
  abs_st (fold_left run_op ops s) = fold_left spec_step ops (abs_st s).
Proof.
  induction ops as [|o ops IH]; intros s H; [reflexivity|].
  simpl in H. apply andb_true_iff in H. destruct H as [O H]. simpl. rewrite IH by exact H. rewrite run_op_refines by exact O.
  reflexivity.
Qed.

Theorem history_refines : forall ops e h, forallb op_in_OPS ops = true ->
  abs_st (run_ops ops (e, h)) = spec_run ops (e, abs h).
Proof. intros. unfold run_ops, spec_run. rewrite history_refines_gen by assumption. reflexivity. Qed.
