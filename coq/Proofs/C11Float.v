(* Proofs/C11Float.v — float(int) is exact up to 2^53: the model's int -> binary64 conversion [Z_to_sf]
   (SpecFloat's binary_normalize) returns a float denoting the same integer.  Z only, no axioms. *)
From Coq Require Import ZArith Lia Bool SpecFloat.
From BS Require Import Model.Base Model.Num Proofs.FloatFacts Proofs.C11.
Local Open Scope Z_scope.

Lemma Z_to_sf_small sx p : Zpos p < 2 ^ 53 ->
  let d := Zpos (digits2_pos p) in
  binary_round prec emax sx p 0 = S754_finite sx (Z.to_pos (Zpos p * 2 ^ (53 - d))) (d - 53) /\ 1 <= d <= 53.
Proof.
  intros H d. assert (Hd : d <= 53) by (apply (Zdigits2_le (Zpos p) 53); lia).
  assert (1 <= d) by (unfold d; lia).
  rewrite br_exact by (fold d; lia). fold d. replace (d + 0 - 53) with (d - 53) by lia. auto.
Qed.

Lemma sf_exact_Z_shifted sx p k : 0 <= k ->
  sf_exact_Z (S754_finite sx (Z.to_pos (Zpos p * 2 ^ k)) (- k)) = Some (if sx then Zneg p else Zpos p).
Proof.
  intros Hk. assert (P : 0 < 2 ^ k) by (apply Z.pow_pos_nonneg; lia).
  unfold sf_exact_Z.
  assert (E : (if sx then Z.neg (Z.to_pos (Z.pos p * 2 ^ k)) else Z.pos (Z.to_pos (Z.pos p * 2 ^ k)))
              = (if sx then Zneg p else Zpos p) * 2 ^ k).
  { destruct sx; [rewrite <- Pos2Z.opp_pos|]; rewrite Z2Pos.id by lia; lia. }
  rewrite E. clear E. destruct (Z.leb_spec 0 (- k)) as [L|L].
  - assert (k = 0) by lia. subst k. change (2 ^ (- 0)) with 1. change (2 ^ 0) with 1. rewrite !Z.mul_1_r. reflexivity.
  - rewrite Z.opp_involutive, Z_mod_mult, Z.eqb_refl, Z.div_mul by lia. reflexivity.
Qed.

Theorem Z_to_sf_exact_upto_2_53 z : Z.abs z <= 2 ^ 53 -> sf_exact_Z (Z_to_sf z) = Some z.
Proof.
  intros H. unfold Z_to_sf, binary_normalize. destruct z as [|p|p].
  - reflexivity.
  - destruct (Z.eq_dec (Zpos p) (2 ^ 53)) as [E|E]; [injection E as ->; vm_compute; reflexivity|].
    destruct (Z_to_sf_small false p ltac:(lia)) as (-> & Hd).
    replace (Z.pos (digits2_pos p) - 53) with (- (53 - Z.pos (digits2_pos p))) by lia.
    apply (sf_exact_Z_shifted false). lia.
  - destruct (Z.eq_dec (Zpos p) (2 ^ 53)) as [E|E]; [injection E as ->; vm_compute; reflexivity|].
    destruct (Z_to_sf_small true p ltac:(lia)) as (-> & Hd).
    replace (Z.pos (digits2_pos p) - 53) with (- (53 - Z.pos (digits2_pos p))) by lia.
    apply (sf_exact_Z_shifted true). lia.
Qed.

(* the bound is sharp: 2^53 + 1 is the first integer that float() changes *)
Example Z_to_sf_first_inexact : sf_exact_Z (Z_to_sf (2 ^ 53 + 1)) <> Some (2 ^ 53 + 1).
Proof. vm_compute. discriminate. Qed.
