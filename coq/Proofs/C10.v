(* Proofs/C10.v — source layout does not change the parsed program: the line front end.
   About Model/Script.v (split_chunks, lstep, ploop via its proved factorisation llines ; pfold) and the direct
   line splitter split_direct of Model/ScriptX.v (tied to the regex-based split_lines by the correspondence). *)
From Coq Require Import Lia.
From BS Require Import Model.Base Model.Regex Model.Num Model.ExprParser Model.Script Model.ScriptX
  Gen.Unicode Gen.Regexes Proofs.BaseFacts Proofs.ScriptFacts Proofs.C06.

(* ---------- line ends ---------- *)
(* the text ends in a carriage return (cur = the reversed current line so far) *)
Fixpoint last_cr (a cur : str) : bool :=
  match a with
  | [] => match cur with 13%N :: _ => true | _ => false end
  | 10%N :: t => last_cr t []
  | c :: t => last_cr t (c :: cur)
  end.

Lemma split_aux_cons c t cur : c <> 10%N -> split_direct_aux (c :: t) cur = split_direct_aux t (c :: cur).
Proof.
  intros H. cbn [split_direct_aux].
  destruct c as [|p]; [reflexivity|].
  repeat (destruct p as [p|p|]; try reflexivity). congruence.
Qed.
Lemma last_cr_cons c t cur : c <> 10%N -> last_cr (c :: t) cur = last_cr t (c :: cur).
Proof.
  intros H. cbn [last_cr].
  destruct c as [|p]; [reflexivity|].
  repeat (destruct p as [p|p|]; try reflexivity). congruence.
Qed.

(* cutting a text at an LF: the pieces split independently (unless the left piece ends in CR, which the LF would absorb) *)
Lemma split_aux_cut_lf b : forall a cur, last_cr a cur = false ->
  split_direct_aux (a ++ 10%N :: b) cur = split_direct_aux a cur ++ split_direct b.
Proof.
  induction a as [|c a IH]; intros cur H.
  - cbn [app split_direct_aux last_cr] in *. unfold split_direct.
    destruct cur as [|x cur]; [reflexivity|].
    destruct (N.eq_dec x 13) as [->|N]; [discriminate|].
    destruct x as [|p]; [reflexivity|]. repeat (destruct p as [p|p|]; try reflexivity). congruence.
  - destruct (N.eq_dec c 10) as [->|N].
    + cbn [app split_direct_aux last_cr] in *. rewrite IH by exact H. reflexivity.
    + cbn [app]. rewrite !split_aux_cons by exact N. rewrite last_cr_cons in H by exact N. apply IH. exact H.
Qed.

(* cutting at a CRLF: always *)
Lemma split_aux_cut_crlf b : forall a cur,
  split_direct_aux (a ++ 13%N :: 10%N :: b) cur = split_direct_aux a cur ++ split_direct b.
Proof.
  induction a as [|c a IH]; intros cur.
  - reflexivity.
  - destruct (N.eq_dec c 10) as [->|N].
    + cbn [app split_direct_aux]. rewrite IH. reflexivity.
    + cbn [app]. rewrite !split_aux_cons by exact N. apply IH.
Qed.

Theorem split_cut_lf a b : last_cr a [] = false -> split_direct (a ++ 10%N :: b) = split_direct a ++ split_direct b.
Proof. apply split_aux_cut_lf. Qed.
Theorem split_cut_crlf a b : split_direct (a ++ 13%N :: 10%N :: b) = split_direct a ++ split_direct b.
Proof. apply split_aux_cut_crlf. Qed.

(* a line: no LF in it *)
Definition no_lf (l : str) : Prop := ~ In 10%N l.

Lemma split_aux_line l : forall cur, no_lf l -> split_direct_aux l cur = [rev cur ++ l].
Proof.
  induction l as [|c l IH]; intros cur H.
  - cbn. rewrite app_nil_r. reflexivity.
  - assert (N : c <> 10%N) by (intros ->; apply H; left; reflexivity).
    rewrite split_aux_cons by exact N. rewrite IH by (intros I; apply H; right; exact I).
    cbn [rev]. rewrite <- app_assoc. reflexivity.
Qed.
Lemma last_cr_line l : forall cur, no_lf l -> last_cr l cur = match rev l ++ cur with 13%N :: _ => true | _ => false end.
Proof.
  induction l as [|c l IH]; intros cur H; [reflexivity|].
  assert (N : c <> 10%N) by (intros ->; apply H; left; reflexivity).
  rewrite last_cr_cons by exact N. rewrite IH by (intros I; apply H; right; exact I).
  cbn [rev]. rewrite <- app_assoc. reflexivity.
Qed.

(* joining lines with LF or with CRLF and splitting again gives the lines back: LF and CRLF texts have the same lines *)
Definition ends_cr (l : str) : bool := match rev l with 13%N :: _ => true | _ => false end.

Theorem split_join_lf lines : lines <> [] -> Forall no_lf lines -> Forall (fun l => ends_cr l = false) lines ->
  split_direct (join_with [10%N] lines) = lines.
Proof.
  induction lines as [|l rest IH]; intros N F C; [congruence|].
  inversion F as [|? ? F1 F2]; inversion C as [|? ? C1 C2]; subst.
  destruct rest as [|l2 rest].
  - cbn [join_with]. unfold split_direct. rewrite split_aux_line by exact F1. reflexivity.
  - change (join_with [10%N] (l :: l2 :: rest)) with (l ++ 10%N :: join_with [10%N] (l2 :: rest)).
    rewrite split_cut_lf.
    + unfold split_direct at 1. rewrite split_aux_line by exact F1. rewrite IH; [reflexivity|discriminate|assumption|assumption].
    + rewrite last_cr_line by exact F1. rewrite app_nil_r. exact C1.
Qed.

Theorem split_join_crlf lines : lines <> [] -> Forall no_lf lines ->
  split_direct (join_with [13%N; 10%N] lines) = lines.
Proof.
  induction lines as [|l rest IH]; intros N F; [congruence|].
  inversion F as [|? ? F1 F2]; subst.
  destruct rest as [|l2 rest].
  - cbn [join_with]. unfold split_direct. rewrite split_aux_line by exact F1. reflexivity.
  - change (join_with [13%N; 10%N] (l :: l2 :: rest)) with (l ++ 13%N :: 10%N :: join_with [13%N; 10%N] (l2 :: rest)).
    rewrite split_cut_crlf. unfold split_direct at 1. rewrite split_aux_line by exact F1.
    rewrite IH; [reflexivity|discriminate|assumption].
Qed.

(* every line produced by the splitter is LF-free *)
Lemma split_aux_no_lf t : forall cur, no_lf cur -> Forall no_lf (split_direct_aux t cur).
Proof.
  induction t as [|c t IH]; intros cur H.
  - constructor; [|constructor]. intros I. apply in_rev in I. exact (H I).
  - destruct (N.eq_dec c 10) as [->|N].
    + cbn [split_direct_aux]. constructor; [|apply IH; intros []].
      intros I. apply in_rev in I. apply H. destruct cur as [|x cur]; [exact I|].
      destruct x as [|p]; try exact I. repeat (destruct p as [p|p|]; try exact I). right. exact I.
    + rewrite split_aux_cons by exact N. apply IH. intros [I|I]; [congruence | exact (H I)].
Qed.
Theorem split_direct_no_lf t : Forall no_lf (split_direct t).
Proof. apply split_aux_no_lf. intros []. Qed.

(* ---------- chunking ---------- *)
Theorem split_chunks_app a : forall b la lb,
  split_chunks a = ROk la -> split_chunks b = ROk lb -> split_chunks (a ++ b) = ROk (la ++ lb).
Proof.
  induction a as [|c a IH]; intros b la lb Ha Hb.
  - cbn in Ha. inversion Ha; subst. exact Hb.
  - change (split_chunks ((c :: a) ++ b)) with
      (match split_lines c, split_chunks (a ++ b) with
       | ROk x, ROk y => ROk (x ++ y)
       | RFuel, _ | _, RFuel => RFuel
       | RHost w, _ | _, RHost w => RHost w
       | RErr e, _ | _, RErr e => RErr e
       end).
    change (split_chunks (c :: a)) with
      (match split_lines c, split_chunks a with
       | ROk x, ROk y => ROk (x ++ y)
       | RFuel, _ | _, RFuel => RFuel
       | RHost w, _ | _, RHost w => RHost w
       | RErr e, _ | _, RErr e => RErr e
       end) in Ha.
    destruct (split_lines c) as [x| | |]; try discriminate;
      destruct (split_chunks a) as [y| | |]; try discriminate.
    inversion Ha; subst la. rewrite (IH b y lb eq_refl Hb). rewrite app_assoc. reflexivity.
Qed.

(* ---------- comment / blank lines anywhere, also inside a continued line ---------- *)
Inductive ins_comments : list str -> list str -> Prop :=
| ins_nil : ins_comments [] []
| ins_keep x l l' : ins_comments l l' -> ins_comments (x :: l) (x :: l')
| ins_add c l l' : is_comment c = ROk true -> ins_comments l l' -> ins_comments l (c :: l').

(* the front-end step does not look at indices: with equal pending parts it produces equal texts *)
Lemma lstep_cont ls ls' ix ix' part : l_cont ls = l_cont ls' ->
  match lstep ls ix part, lstep ls' ix' part with
  | LSkip a, LSkip b => l_cont a = l_cont b
  | LLine a _ l, LLine b _ l' => l_cont a = l_cont b /\ l' = l
  | LBad r, LBad r' => r = r'
  | _, _ => False
  end.
Proof.
  intros E. unfold lstep. rewrite <- E.
  destruct (is_comment part) as [[|]| | |]; try reflexivity; [exact E|].
  destruct (strip_continuation part) as [s| | |]; try reflexivity.
  destruct (negb (str_eqb part s)).
  - destruct (l_cont ls); reflexivity.
  - destruct (l_cont ls); cbn; split; reflexivity.
Qed.

Definition tail_same (t t' : ltail) : Prop :=
  match t, t' with
  | LDone a, LDone b => l_cont a = l_cont b
  | LFail r, LFail r' => r = r'
  | _, _ => False
  end.

Theorem llines_ins_comments l l' : ins_comments l l' -> forall ix ix' ls ls', l_cont ls = l_cont ls' ->
  map snd (fst (llines l ix ls)) = map snd (fst (llines l' ix' ls')) /\
  tail_same (snd (llines l ix ls)) (snd (llines l' ix' ls')).
Proof.
  induction 1 as [|x l l' I IH|c l l' C I IH]; intros ix ix' ls ls' E.
  - cbn. split; [reflexivity | exact E].
  - cbn [llines]. pose proof (lstep_cont ls ls' ix ix' x E) as L.
    destruct (lstep ls ix x) as [a|a i t|r]; destruct (lstep ls' ix' x) as [b|b j t'|r']; try contradiction.
    + apply IH. exact L.
    + destruct L as [L ->]. specialize (IH (S ix) (S ix') a b L).
      destruct (llines l (S ix) a) as [p tp]; destruct (llines l' (S ix') b) as [q tq]. cbn [fst snd map] in *.
      destruct IH as [I1 I2]. split; [rewrite I1; reflexivity | exact I2].
    + cbn. split; [reflexivity | exact L].
  - cbn [llines]. assert (S1 : lstep ls' ix' c = LSkip ls') by (unfold lstep; rewrite C; reflexivity).
    rewrite S1. apply IH. exact E.
Qed.

(* ---------- the model depends only on the TEXTS of the logical lines ---------- *)
Definition g0 (n : nat) : nat := 0.
Definition texts0 (ts : list str) : list (nat * str) := map (fun t => (0, t)) ts.

Lemma pfold_erase lls : forall ps start,
  map_sres g0 (map_ps g0) (pfold lls ps start) = pfold (texts0 (map snd lls)) (map_ps g0 ps) 0.
Proof.
  induction lls as [|[i line] t IH]; intros ps start; [reflexivity|].
  cbn [pfold map snd texts0]. change (0 + 0) with (g0 (start + i)). rewrite pstep_map.
  destruct (pstep ps (start + i) line); try reflexivity. cbn [map_sres]. apply IH.
Qed.

Lemma pfinish_erase ls ls' ps ps' start start' :
  l_cont ls = l_cont ls' -> map_ps g0 ps = map_ps g0 ps' ->
  map_sres g0 (fun s => s) (pfinish ls ps start) = map_sres g0 (fun s => s) (pfinish ls' ps' start').
Proof.
  intros E M. unfold pfinish. rewrite <- E. destruct (l_cont ls); [|reflexivity].
  destruct ps as [gl fn d fr ix]; destruct ps' as [gl' fn' d' fr' ix']. cbn in *.
  inversion M as [[M1 M2 M3 M4 M5]]. subst.
  destruct fr as [|f fr]; destruct fr' as [|f' fr']; try discriminate.
  - destruct fn as [fo|]; destruct fn' as [fo'|]; try discriminate; [|reflexivity].
    cbn in M2. inversion M2. destruct fo, fo'; cbn in *. subst. reflexivity.
  - cbn in M4. inversion M4. destruct f, f'; try discriminate; cbn in *; inversion H0; subst; reflexivity.
Qed.

Theorem parse_lines_texts l l' start start' :
  map snd (fst (llines l 0 ls_init)) = map snd (fst (llines l' 0 ls_init)) ->
  tail_same (snd (llines l 0 ls_init)) (snd (llines l' 0 ls_init)) ->
  map_sres g0 (fun s => s) (parse_lines l start) = map_sres g0 (fun s => s) (parse_lines l' start').
Proof.
  intros T S. rewrite !parse_lines_view.
  destruct (llines_bounds l 0 ls_init lok_init) as (_ & _ & B3).
  destruct (llines_bounds l' 0 ls_init lok_init) as (_ & _ & B3').
  destruct (llines l 0 ls_init) as [x tx]; destruct (llines l' 0 ls_init) as [y ty]. cbn [fst snd] in *.
  pose proof (pfold_erase x ps_init start) as P1. pose proof (pfold_erase y ps_init start') as P2.
  rewrite T in P1. rewrite <- P2 in P1. clear P2.
  destruct (pfold x ps_init start) as [ps1|e1|w1|]; destruct (pfold y ps_init start') as [ps2|e2|w2|]; try discriminate P1;
    try (cbn in P1 |- *; congruence).
  cbn [map_sres] in P1. assert (P : map_ps g0 ps1 = map_ps g0 ps2) by congruence.
  destruct tx as [a|r]; destruct ty as [b|r']; try contradiction.
  - apply pfinish_erase; [exact S | exact P].
  - rewrite (B3 r eq_refl), (B3' r' eq_refl). reflexivity.
Qed.

(* comment/blank lines inserted anywhere: identical model (and identical error text, line text and column) *)
Theorem parse_lines_ins_comments l l' start start' : ins_comments l l' ->
  map_sres g0 (fun s => s) (parse_lines l start) = map_sres g0 (fun s => s) (parse_lines l' start').
Proof.
  intros I. destruct (llines_ins_comments l l' I 0 0 ls_init ls_init eq_refl) as [A B].
  apply parse_lines_texts; assumption.
Qed.

Corollary parse_lines_ins_comments_ok l l' start start' s : ins_comments l l' ->
  parse_lines l start = ROk s -> parse_lines l' start' = ROk s.
Proof.
  intros I H. pose proof (parse_lines_ins_comments l l' start start' I) as E. rewrite H in E. cbn in E.
  destruct (parse_lines l' start'); cbn in E; congruence.
Qed.

(* ---------- continuation ---------- *)
(* a part that ends in a continuation (the regex removed something) followed by a part that does not: one logical line,
   first part rstripped, second stripped, one space between; numbered at the first part *)
Theorem continuation_two p1 s1 p2 ix :
  is_comment p1 = ROk false -> strip_continuation p1 = ROk s1 -> str_eqb p1 s1 = false ->
  is_comment p2 = ROk false -> strip_continuation p2 = ROk p2 ->
  llines [p1; p2] ix ls_init = ([(ix, rstrip s1 ++ [32%N] ++ strip p2)], LDone {| l_cont := []; l_ix := ix |}).
Proof.
  intros C1 S1 N1 C2 S2. cbn [llines]. unfold lstep at 1. rewrite C1, S1, N1. cbn [negb l_cont ls_init].
  unfold lstep. rewrite C2, S2. rewrite (str_eqb_refl p2). cbn. reflexivity.
Qed.

(* any number of continued parts *)
Definition continued (ps : str * str) : Prop :=
  is_comment (fst ps) = ROk false /\ strip_continuation (fst ps) = ROk (snd ps) /\ str_eqb (fst ps) (snd ps) = false.

Lemma continuation_run mids : forall acc i ix pl,
  Forall continued mids -> is_comment pl = ROk false -> strip_continuation pl = ROk pl -> acc <> [] ->
  llines (map fst mids ++ [pl]) ix {| l_cont := acc; l_ix := i |} =
  ([(i, join_with [32%N] (acc ++ map (fun ps => strip (snd ps)) mids ++ [strip pl]))], LDone {| l_cont := []; l_ix := i |}).
Proof.
  induction mids as [|[p s] mids IH]; intros acc i ix pl F C Sp N.
  - cbn [map app llines]. unfold lstep. rewrite C, Sp, (str_eqb_refl pl). cbn [l_cont l_ix].
    destruct acc as [|a0 acc]; [congruence|]. reflexivity.
  - inversion F as [|? ? (C1 & S1 & N1) F']; subst. cbn [fst snd] in *.
    cbn [map app llines fst]. unfold lstep at 1. rewrite C1, S1, N1. cbn [l_cont l_ix negb].
    destruct acc as [|a0 acc]; [congruence|]. cbn [negb].
    rewrite (IH ((a0 :: acc) ++ [strip s]) i (S ix) pl F' C Sp) by (destruct acc; discriminate).
    rewrite <- !app_assoc. reflexivity.
Qed.

Theorem continuation_many p1 s1 mids pl ix :
  continued (p1, s1) -> Forall continued mids -> is_comment pl = ROk false -> strip_continuation pl = ROk pl ->
  llines (p1 :: map fst mids ++ [pl]) ix ls_init =
  ([(ix, join_with [32%N] (rstrip s1 :: map (fun ps => strip (snd ps)) mids ++ [strip pl]))], LDone {| l_cont := []; l_ix := ix |}).
Proof.
  intros (C1 & S1 & N1) F C Sp. cbn [fst snd] in *.
  cbn [llines]. unfold lstep at 1. rewrite C1, S1, N1. cbn [negb l_cont ls_init app].
  rewrite (continuation_run mids [rstrip s1] ix (S ix) pl F C Sp) by discriminate. reflexivity.
Qed.
