(* Proofs/C09clMore.v — the closure invariant is preserved by the functions of Model/LibMore.v (JSON, number text, datetimes,
   math, arrayJoin, case mapping, systemIs, and the text of containers for stringNew / systemLog): [more_pres].
   They answer with numbers, strings, booleans, datetimes or null - except jsonParse, which allocates fresh arrays and objects
   of such values - and none of them writes into an existing array. *)
From Coq Require Import List Lia ZArith Bool NArith.
From BS Require Import Model.Base Model.Num Model.Arith Model.ExprParser Model.Script Model.Interp Model.LibCore Model.LibCall
                       Model.LibMore Model.LibAll Model.LibPartial Gen.ArgSpecs
                       Proofs.BaseFacts Proofs.C14b Proofs.C09termClosure Proofs.C09clInv Proofs.C09clLib Proofs.C09clSim Proofs.C09clTower.
Import ListNotations.

(* a world with given globals and heaps: wf H (mkw g a o) is wf3 H g a o *)
Definition mkw (g : env) (a : arrs_t) (o : objs_t) : world :=
  {| w_globals := g; w_arrs := a; w_objs := o; w_funs := []; w_log := []; w_count := 0; w_fetched := [] |}.

Definition pres_ok (H : hid) (g : env) (arrs : arrs_t) (p : pres) : Prop :=
  match p with (r, (a, o, _)) => wf3 H g a o /\ (length arrs <= length a)%nat /\ lres_ok H (length a) r end.

Section More.
Variable cfg : config.
Variable H : hid.
Variable g : env.

Lemma pval_ok v arrs objs : wf3 H g arrs objs -> simple_val v -> pres_ok H g arrs (pval v arrs objs).
Proof. intros W S. cbn. split; [exact W|]. split; [lia|]. destruct v; cbn in *; tauto. Qed.
Lemma poracle_ok arrs objs : wf3 H g arrs objs -> pres_ok H g arrs (poracle arrs objs).
Proof. intros W. cbn. auto. Qed.
Lemma pfail_ok r arrs objs : wf3 H g arrs objs -> lres_ok H (length arrs) r -> pres_ok H g arrs (pfail cfg r arrs objs).
Proof. intros W R. unfold pfail. cbn. split; [exact W|]. split; [lia|]. destruct (c_debug cfg); [exact I|exact R]. Qed.
Lemma praise_ok arrs objs : wf3 H g arrs objs -> pres_ok H g arrs (praise cfg arrs objs).
Proof. intros W. apply pfail_ok; [exact W|exact I]. Qed.
Lemma of_text_ok r arrs objs : wf3 H g arrs objs -> pres_ok H g arrs (of_text cfg r arrs objs).
Proof. intros W. destruct r; cbn [of_text]; [apply pval_ok; [exact W|exact I]|apply praise_ok; exact W|apply poracle_ok; exact W]. Qed.
Lemma of_opt_int_ok o arrs objs : wf3 H g arrs objs -> pres_ok H g arrs (of_opt_int cfg o arrs objs).
Proof. intros W. destruct o; cbn [of_opt_int]; [apply pval_ok; [exact W|exact I]|apply praise_ok; exact W]. Qed.

Definition fv_simple (f : str) : Prop :=
  match Q.assoc_spec f gen_arg_specs with Some (_, V.FArgOrNull _) => False | _ => True end.

Lemma lit_back_simple na no l : simple_val (of_v na no [] (V.lit_value l)).
Proof. destruct l; exact I. Qed.

Lemma validated_ok f args arrs objs k : wf3 H g arrs objs -> fv_simple f ->
  (forall va ret, simple_val ret -> pres_ok H g arrs (k va ret)) ->
  pres_ok H g arrs (validated cfg f args arrs objs k).
Proof.
  intros W Fs Hk. unfold validated. unfold fv_simple in Fs.
  destruct (Q.assoc_spec f gen_arg_specs) as [[specs fv]|]; [|apply poracle_ok; exact W].
  assert (Sr : simple_val (of_v (length arrs) (length objs) [] (Q.fail_value fv (map (to_v (length arrs)) args)))).
  { destruct fv as [|l|n]; [exact I|apply lit_back_simple|contradiction]. }
  destruct (Q.args_validate _ specs _).
  - apply Hk. exact Sr.
  - apply pfail_ok; [exact W|]. cbn. apply simple_val_ok. exact Sr.
  - apply praise_ok; exact W.
  - apply poracle_ok; exact W.
Qed.

(* ---- jsonParse ---- *)
Lemma wf3_grow arrs objs n' : wf3 H g arrs objs -> (length arrs <= n')%nat ->
  forall v, val_ok H (length arrs) v -> val_ok H n' v.
Proof. intros _ L v. apply val_ok_mono. apply ext_grow. exact L. Qed.

Lemma jnum_value_simple n v : jnum_value n = PJOk v -> simple_val v.
Proof.
  unfold jnum_value. intros E.
  repeat match type of E with
         | context [if ?c then _ else _] => destruct c
         | context [match ?x with _ => _ end] => destruct x
         end; try discriminate; injection E as <-; exact I.
Qed.

Lemma of_json_ok : forall j arrs objs v a o, wf3 H g arrs objs -> of_json j arrs objs = PJOk (v, a, o) ->
  wf3 H g a o /\ (length arrs <= length a)%nat /\ val_ok H (length a) v.
Proof.
  induction j as [| b | n | s | l IH | m IH] using jvalue_ind'; intros arrs objs v a o W E.
  - cbn in E. injection E as <- <- <-. split; [exact W|]. split; [lia|exact I].
  - cbn in E. injection E as <- <- <-. split; [exact W|]. split; [lia|exact I].
  - cbn [of_json] in E. destruct (jnum_value n) as [v0| |] eqn:En; try discriminate. injection E as <- <- <-.
    split; [exact W|]. split; [lia|]. apply simple_val_ok. eapply jnum_value_simple. exact En.
  - cbn in E. injection E as <- <- <-. split; [exact W|]. split; [lia|exact I].
  - cbn [of_json] in E.
    match type of E with context [match ?f l arrs objs with _ => _ end] => set (go := f) in E end.
    assert (Hgo : forall l, Forall (fun j => forall arrs objs v a o, wf3 H g arrs objs -> of_json j arrs objs = PJOk (v, a, o) ->
                                wf3 H g a o /\ (length arrs <= length a)%nat /\ val_ok H (length a) v) l ->
                  forall arrs objs vs a o, wf3 H g arrs objs -> go l arrs objs = PJOk (vs, a, o) ->
                  wf3 H g a o /\ (length arrs <= length a)%nat /\ Forall (val_ok H (length a)) vs).
    { clear. induction 1 as [|x t Hx Ft IHt]; intros arrs objs vs a o W E.
      - cbn in E. injection E as <- <- <-. split; [exact W|]. split; [lia|constructor].
      - cbn in E. destruct (of_json x arrs objs) as [[[v1 a1] o1]| |] eqn:E1; try discriminate.
        destruct (Hx _ _ _ _ _ W E1) as (W1 & L1 & V1).
        fold go in E. destruct (go t a1 o1) as [[[vs2 a2] o2]| |] eqn:E2; try discriminate.
        injection E as <- <- <-. destruct (IHt _ _ _ _ _ W1 E2) as (W2 & L2 & V2).
        split; [exact W2|]. split; [lia|]. constructor; [|exact V2]. eapply val_ok_mono; [|exact V1]. apply ext_grow. exact L2. }
    destruct (go l arrs objs) as [[[vs a1] o1]| |] eqn:Eg; try discriminate. injection E as <- <- <-.
    destruct (Hgo l IH _ _ _ _ _ W Eg) as (W1 & L1 & V1).
    destruct (wf_alloc_arr H (mkw g a1 o1) vs W1 V1) as [W2 V2]. split; [exact W2|].
    rewrite app_length. cbn [length]. split; [lia|]. rewrite Nat.add_1_r. exact V2.
  - cbn [of_json] in E.
    match type of E with context [match ?f m [] arrs objs with _ => _ end] => set (go := f) in E end.
    assert (Hgo : forall m, Forall (fun kv => forall arrs objs v a o, wf3 H g arrs objs -> of_json (snd kv) arrs objs = PJOk (v, a, o) ->
                                wf3 H g a o /\ (length arrs <= length a)%nat /\ val_ok H (length a) v) m ->
                  forall acc arrs objs kvs a o, wf3 H g arrs objs -> env_ok H (length arrs) acc -> go m acc arrs objs = PJOk (kvs, a, o) ->
                  wf3 H g a o /\ (length arrs <= length a)%nat /\ env_ok H (length a) kvs).
    { clear. induction 1 as [|[k x] t Hx Ft IHt]; intros acc arrs objs kvs a o W A E.
      - cbn in E. injection E as <- <- <-. split; [exact W|]. split; [lia|exact A].
      - cbn in E. cbn [snd] in Hx. destruct (of_json x arrs objs) as [[[v1 a1] o1]| |] eqn:E1; try discriminate.
        destruct (Hx _ _ _ _ _ W E1) as (W1 & L1 & V1). fold go in E.
        destruct (IHt _ _ _ _ _ _ W1 (env_set_ok H _ k v1 acc (env_ok_mono _ _ _ _ _ (ext_grow H _ _ L1) A) V1) E) as (W2 & L2 & V2).
        split; [exact W2|]. split; [lia|exact V2]. }
    destruct (go m [] arrs objs) as [[[kvs a1] o1]| |] eqn:Eg; try discriminate. injection E as <- <- <-.
    destruct (Hgo m IH _ _ _ _ _ _ W (Forall_nil _) Eg) as (W1 & L1 & V1).
    split; [apply (wf_alloc_obj H (mkw g a1 o1) kvs W1 V1)|]. split; [exact L1|exact I].
Qed.

Ltac mstep := match goal with
  | |- pres_ok _ _ _ (if ?c then _ else _) => destruct c eqn:?
  | |- pres_ok _ _ _ (match ?x with _ => _ end) => destruct x eqn:?
  end.

Ltac mleaf W := first
  [ apply pval_ok; [exact W|exact I]
  | apply poracle_ok; exact W
  | apply praise_ok; exact W
  | apply of_text_ok; exact W
  | apply of_opt_int_ok; exact W
  | apply pfail_ok; [exact W|exact I] ].

Ltac name_is E := unfold op_is in E; apply str_eqb_eq in E; subst.

Theorem libmore_pure_ok name args arrs objs : wf3 H g arrs objs -> pres_ok H g arrs (libmore_pure cfg name args arrs objs).
Proof.
  intros W. unfold libmore_pure, getter, declined.
  repeat match goal with
  | |- pres_ok _ _ _ (if op_is name ?s then _ else _) => let E := fresh "E" in destruct (op_is name s) eqn:E; [name_is E|]
  | |- pres_ok _ _ _ (if _ || _ then _ else _) => let E := fresh "E" in
       match goal with |- pres_ok _ _ _ (if ?c then _ else _) => destruct c eqn:E end;
       [repeat (apply orb_true_iff in E; destruct E as [E|E]); name_is E|]
  end.
  all: try (apply validated_ok; [exact W|vm_compute; exact I|intros va ret Hret]).
  all: repeat mstep; try mleaf W.
  - (* jsonParse *)
    match goal with E : of_json _ _ _ = PJOk _ |- _ => destruct (of_json_ok _ _ _ _ _ _ W E) as (W1 & L1 & V1) end.
    cbn. auto.
  - (* arrayJoin *)
    match goal with Hq : nth_error _ _ = Some _ |- _ => clear Hq end.
    match goal with |- pres_ok _ _ _ (?f ?xs []) => generalize (@nil str); induction xs as [|x t IHx]; intros acc end.
    + mleaf W.
    + cbn. destruct (vstring_full arrs objs x); [apply IHx|mleaf W|mleaf W].
Qed.
End More.

Lemma fold_add_log_same lg : forall w,
  w_globals (fold_left add_log lg w) = w_globals w /\ w_arrs (fold_left add_log lg w) = w_arrs w /\ w_objs (fold_left add_log lg w) = w_objs w.
Proof. induction lg as [|s t IH]; intros w; cbn [fold_left]; [auto|]. destruct (IH (add_log w s)) as (A1 & A2 & A3). auto. Qed.

Theorem libmore_pres : more_pres.
Proof.
  intros cfg H name args w Hw _. unfold libmore, lift_pure.
  pose proof (libmore_pure_ok cfg H (w_globals w) name args (w_arrs w) (w_objs w) Hw) as K.
  destruct (libmore_pure cfg name args (w_arrs w) (w_objs w)) as [r [[a o] lg]]. cbn in K. destruct K as (W & L & R).
  destruct (fold_add_log_same lg (upd_objs (upd_arrs w a) o)) as (A1 & A2 & A3). cbn in A1, A2, A3.
  exists H. cbn [fst snd]. unfold nA. rewrite A2. split; [apply ext_grow; exact L|]. split; [|exact R].
  unfold wf. rewrite A1, A2, A3. exact W.
Qed.

(* ---- the clause for libfull2, the lifted LibSeq functions left as the one premise ---- *)
Theorem libfull2_run_terminates_seq : seq_pres ->
  forall cfg cfg' url_rel lint_lines, (0 < c_max cfg)%Z ->
  forall sc w, closures_wf w ->
  exists fuel r, (forall bot fuel', (fuel <= fuel')%nat ->
                    C09term.execute_script_bot cfg (libfull2 cfg') url_rel lint_lines bot fuel' sc w = r) /\
                 closures_wf (snd r).
Proof. intros Hseq. exact (libfull2_run_terminates_wf Hseq libmore_pres). Qed.

Theorem libfull2_sim_seq : seq_pres -> forall poison cfg, LibSim poison (libfull2g cfg) (libfull2 cfg).
Proof. intros Hseq poison cfg. exact (libfull2_sim poison Hseq libmore_pres cfg). Qed.
