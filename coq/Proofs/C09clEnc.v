(* Proofs/C09clEnc.v — the numeral coding of function values in the lifting (Model/LibLift.v enc_fn / dec_fn) gives a
   well-formed function reference back: a script function and a sane library name exactly; a closure name [0; n] exactly when
   n + 1 < enc_base, otherwise as a sane name that is not a closure name.  ([fn_roundtrip] of Proofs/C09clSeq.v.) *)
From Coq Require Import List Lia ZArith Bool NArith.
From BS Require Import Model.Base Model.Interp Model.LibLift Model.LibPartial Proofs.C09clInv Proofs.C09clSeq.
Import ListNotations.
Local Open Scope N_scope.

Lemma enc_base_val : enc_base = 1114113.
Proof. reflexivity. Qed.

Lemma half_odd e : (2 * e + 1) / 2 = e.
Proof. rewrite N.mul_comm, N.div_add_l by discriminate. change (1 / 2) with 0. apply N.add_0_r. Qed.

Lemma enc_closure n : enc_str [0; n] = enc_base + (n + 1).
Proof. unfold enc_str. cbn [fold_left]. rewrite N.mul_0_l, !N.add_0_l, N.mul_1_l. reflexivity. Qed.

Lemma enc_snoc s c : enc_str (s ++ [c]) = enc_str s * enc_base + (c + 1).
Proof. unfold enc_str. rewrite fold_left_app. reflexivity. Qed.

Lemma dec_zero fuel acc : dec_str fuel 0 acc = acc.
Proof. destruct fuel; reflexivity. Qed.

Lemma dec_step f a d acc : 0 < d -> d < enc_base ->
  dec_str (S f) (a * enc_base + d) acc = dec_str f a ((d - 1) :: acc).
Proof.
  intros D0 D1. cbn [dec_str]. destruct (N.eqb_spec (a * enc_base + d) 0) as [E|_]; [lia|].
  assert (B0 : enc_base <> 0) by (rewrite enc_base_val; discriminate).
  rewrite (N.div_add_l a enc_base d B0), (N.div_small d enc_base D1), N.add_0_r.
  rewrite (N.add_comm (a * enc_base) d), (N.mod_add d a enc_base B0), (N.mod_small d enc_base D1).
  reflexivity.
Qed.

Lemma dec_enc : forall s, name_sane s -> forall fuel acc, (length s <= fuel)%nat -> dec_str fuel (enc_str s) acc = s ++ acc.
Proof.
  induction s as [|c t IH] using rev_ind; intros Sn fuel acc L; [apply dec_zero|].
  unfold name_sane in Sn. apply Forall_app in Sn. destruct Sn as [St Sc]. apply Forall_cons_iff in Sc. destruct Sc as [Sc _].
  rewrite app_length in L. cbn in L. destruct fuel as [|f]; [lia|].
  rewrite enc_snoc, dec_step by lia. rewrite IH; [|exact St|lia]. replace (c + 1 - 1) with c by lia. rewrite <- app_assoc. reflexivity.
Qed.

Lemma enc_lower : forall s, name_sane s -> 2 ^ N.of_nat (length s) <= enc_str s + 1.
Proof.
  induction s as [|c t IH] using rev_ind; intros Sn; [cbn; lia|].
  unfold name_sane in Sn. apply Forall_app in Sn. destruct Sn as [St _]. specialize (IH St).
  rewrite app_length, enc_snoc. cbn [length]. rewrite Nat.add_1_r, Nnat.Nat2N.inj_succ, N.pow_succ_r'. rewrite enc_base_val. lia.
Qed.

Lemma fuel_enough s : name_sane s -> (length s <= S (N.to_nat (N.log2 (enc_str s))))%nat.
Proof.
  intros Sn. destruct s as [|c t]; [cbn; lia|]. pose proof (enc_lower _ Sn) as L. set (m := enc_str (c :: t)) in *.
  cbn [length] in *. rewrite Nnat.Nat2N.inj_succ, N.pow_succ_r' in L.
  assert (P1 : 1 <= 2 ^ N.of_nat (length t)) by (apply N.lt_pred_le; apply N.neq_0_lt_0; apply N.pow_nonzero; discriminate).
  assert (M : 2 ^ N.of_nat (length t) <= m) by lia.
  assert (M0 : 0 < m) by lia.
  apply (N.log2_le_pow2 m _ M0) in M. lia.
Qed.

Lemma dec_sane : forall fuel x acc, name_sane acc -> name_sane (dec_str fuel x acc).
Proof.
  induction fuel as [|f IH]; intros x acc Sa; cbn [dec_str]; [exact Sa|]. destruct (x =? 0); [exact Sa|].
  apply IH. constructor; [|exact Sa].
  assert (B0 : enc_base <> 0) by (rewrite enc_base_val; discriminate).
  pose proof (N.mod_upper_bound x enc_base B0). rewrite enc_base_val in *. lia.
Qed.

Lemma dec_length : forall fuel x acc, (length acc <= length (dec_str fuel x acc))%nat.
Proof.
  induction fuel as [|f IH]; intros x acc; cbn [dec_str]; [lia|]. destruct (x =? 0); [lia|].
  specialize (IH (x / enc_base) ((x mod enc_base - 1) :: acc)). cbn [length] in IH. lia.
Qed.

Lemma long_not_closure (l : str) : (3 <= length l)%nat -> partial_loc l = None.
Proof. destruct l as [|a [|b [|c t]]]; cbn; try lia. intros _. destruct a; reflexivity. Qed.

Lemma odd_even e : N.even (2 * e + 1) = false.
Proof. rewrite N.add_comm, N.even_add_mul_2. reflexivity. Qed.

Lemma dec_enc_lib nm : dec_fn (enc_fn (FLib nm)) = FLib (dec_str (S (N.to_nat (N.log2 (enc_str nm)))) (enc_str nm) []).
Proof. unfold dec_fn, enc_fn. rewrite odd_even. cbv zeta. rewrite half_odd. reflexivity. Qed.

Lemma big_closure n : enc_base <= n + 1 ->
  partial_loc (dec_str (S (N.to_nat (N.log2 (enc_base + (n + 1))))) (enc_base + (n + 1)) []) = None.
Proof.
  intros Big. set (x := enc_base + (n + 1)).
  assert (X4 : 2 ^ 2 <= x) by (change (2 ^ 2) with 4; unfold x; rewrite enc_base_val in *; lia).
  assert (X0 : 0 < x) by (unfold x; lia).
  apply (N.log2_le_pow2 x 2 X0) in X4.
  destruct (N.to_nat (N.log2 x)) as [|[|f]] eqn:Ef; try lia.
  assert (B0 : enc_base <> 0) by (rewrite enc_base_val; discriminate).
  cbn [dec_str]. destruct (N.eqb_spec x 0) as [|_]; [lia|].
  set (q := x / enc_base).
  assert (Q2 : 2 <= q).
  { unfold q. apply N.div_le_lower_bound; [exact B0|]. unfold x. rewrite enc_base_val in *. lia. }
  destruct (N.eqb_spec q 0) as [|_]; [lia|].
  destruct (N.eqb_spec (q / enc_base) 0) as [Z|NZ].
  - apply N.div_small_iff in Z; [|exact B0]. rewrite (N.mod_small q enc_base Z).
    unfold partial_loc. destruct (q - 1) eqn:Eq; [lia|reflexivity].
  - apply long_not_closure.
    pose proof (dec_length f (q / enc_base / enc_base) [(q / enc_base) mod enc_base - 1; q mod enc_base - 1; x mod enc_base - 1]) as DL.
    cbn [length] in DL. lia.
Qed.

Theorem fn_roundtrip_holds : fn_roundtrip.
Proof.
  intros fr Pre. destruct fr as [nm|id].
  - assert (Exact : name_sane nm -> dec_fn (enc_fn (FLib nm)) = FLib nm).
    { intros Sn. rewrite dec_enc_lib. rewrite dec_enc; [rewrite app_nil_r; reflexivity|exact Sn|apply fuel_enough; exact Sn]. }
    destruct Pre as [Pc|Sn]; [|left; apply Exact; exact Sn].
    destruct (partial_loc nm) as [l|] eqn:P; [clear Pc|contradiction].
    destruct nm as [|a t]; [discriminate|]. destruct a; [|discriminate]. destruct t as [|n [|? ?]]; try discriminate.
    destruct (N.ltb_spec (n + 1) enc_base) as [Small|Big].
    + left. apply Exact. constructor; [cbv beta; rewrite enc_base_val; lia|constructor; [exact Small|constructor]].
    + right. rewrite dec_enc_lib. eexists. split; [reflexivity|]. split.
      * rewrite enc_closure. apply (big_closure n Big).
      * apply dec_sane. constructor.
  - left. unfold dec_fn, enc_fn. rewrite N.even_mul. cbn [N.even orb]. rewrite N.mul_comm, N.div_mul by discriminate.
    rewrite Nnat.Nat2N.id. reflexivity.
Qed.

Theorem lift_seq_pres_holds : BS.Proofs.C09clSim.seq_pres.
Proof. exact (lift_seq_pres fn_roundtrip_holds). Qed.
