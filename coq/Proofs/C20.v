(* Proofs/C20.v — diffLines (Model/Diff.v) reconstructs both inputs, for ALL line lists. *)
From Coq Require Import Lia ZifyBool.
From BS Require Import Model.Base Model.Regex Model.Diff Proofs.BaseFacts Gen.Unicode Gen.Includes.

(* ------------------------------------------------------------------ list facts *)
Lemma nth_skipn {A} (l : list A) : forall i x, nth_error l i = Some x -> skipn i l = x :: skipn (S i) l.
Proof.
  induction l as [|y l IH]; intros [|i] x H; cbn in *; try discriminate.
  - inversion H. reflexivity.
  - apply IH in H. exact H.
Qed.

Lemma firstn_plus {A} (l : list A) : forall a k, firstn (a + k) l = firstn a l ++ firstn k (skipn a l).
Proof.
  induction l as [|y l IH]; intros [|a] k; cbn; try reflexivity.
  - destruct k; reflexivity.
  - rewrite IH. reflexivity.
Qed.

Lemma firstn_mid {A} (l : list A) a b : a <= b -> firstn a l ++ firstn (b - a) (skipn a l) = firstn b l.
Proof. intros H. rewrite <- firstn_plus. f_equal. lia. Qed.

Lemma skipn_nonempty {A} (l : list A) a : a < length l -> skipn a l <> [].
Proof. intros H E. apply (f_equal (@length A)) in E. rewrite skipn_length in E. cbn in E. lia. Qed.

Lemma firstn_skipn_nonempty {A} (l : list A) a b : a < b -> b <= length l -> firstn (b - a) (skipn a l) <> [].
Proof.
  intros H1 H2 E. apply (f_equal (@length A)) in E. rewrite firstn_length, skipn_length in E. cbn in E. lia.
Qed.

Lemma aget_some (l : list str) i : i < length l -> exists x, aget l i = Some x.
Proof.
  intros H. unfold aget. destruct (nth_error l i) eqn:E; [eauto|]. apply nth_error_None in E. lia.
Qed.

Lemma veq_refl a : veq a a = true.
Proof. destruct a; cbn; [apply str_eqb_refl | reflexivity]. Qed.

Lemma aslice_tail (l : list str) a : a <= length l -> aslice l a None = Some (skipn a l).
Proof.
  intros H. unfold aslice.
  destruct (Nat.ltb (length l) a) eqn:E1; [lia|]. rewrite Nat.ltb_irrefl.
  rewrite firstn_all2; [reflexivity|]. rewrite skipn_length. lia.
Qed.

Lemma aslice_mid (l : list str) a b : a <= length l -> b <= length l ->
  aslice l a (Some b) = Some (firstn (b - a) (skipn a l)).
Proof.
  intros H1 H2. unfold aslice.
  destruct (Nat.ltb (length l) a) eqn:E1; [lia|]. destruct (Nat.ltb (length l) b) eqn:E2; [lia|]. reflexivity.
Qed.

(* ------------------------------------------------------------------ reconstruction functions *)
Lemma left_of_app d k ls :
  left_of (d ++ [mk k ls]) = left_of d ++ (if kind_eqb k Add then [] else ls).
Proof.
  unfold left_of. rewrite filter_app, map_app, concat_app. cbn.
  destruct (kind_eqb k Add); cbn; [reflexivity | rewrite app_nil_r; reflexivity].
Qed.

Lemma right_of_app d k ls :
  right_of (d ++ [mk k ls]) = right_of d ++ (if kind_eqb k Remove then [] else ls).
Proof.
  unfold right_of. rewrite filter_app, map_app, concat_app. cbn.
  destruct (kind_eqb k Remove); cbn; [reflexivity | rewrite app_nil_r; reflexivity].
Qed.

Lemma nonempty_app d k ls : forallb nonempty_block d = true -> ls <> [] -> forallb nonempty_block (d ++ [mk k ls]) = true.
Proof.
  intros H1 H2. rewrite forallb_app, H1. cbn. destruct ls; [contradiction | reflexivity].
Qed.

(* ------------------------------------------------------------------ the inner loops *)
Lemma scan_spec L R : forall fuel ixL ixR run,
  ixL <= length L -> ixR <= length R -> length L - ixL < fuel ->
  exists k,
    scan L R fuel ixL ixR run = DOk (run ++ firstn k (skipn ixL L), ixL + k, ixR + k) /\
    firstn k (skipn ixL L) = firstn k (skipn ixR R) /\
    length (firstn k (skipn ixL L)) = k /\
    ixL + k <= length L /\ ixR + k <= length R /\
    (ixL + k < length L -> ixR + k < length R -> veq (aget L (ixL + k)) (aget R (ixR + k)) = false).
Proof.
  induction fuel as [|f IH]; intros ixL ixR run HL HR Hf; [lia|].
  cbn [scan].
  destruct (Nat.ltb ixL (length L) && Nat.ltb ixR (length R) && veq (aget L ixL) (aget R ixR)) eqn:C.
  - apply andb_true_iff in C. destruct C as [C Hv]. apply andb_true_iff in C. destruct C as [C1 C2].
    apply Nat.ltb_lt in C1. apply Nat.ltb_lt in C2.
    destruct (aget_some L ixL C1) as [x Hx]. destruct (aget_some R ixR C2) as [y Hy].
    rewrite Hx, Hy in Hv. cbn in Hv. apply str_eqb_eq in Hv. subst y. rewrite Hx.
    destruct (IH (S ixL) (S ixR) (run ++ [x])) as [k [E [Hs [Hl [H1 [H2 H3]]]]]]; try lia.
    exists (S k). unfold aget in Hx, Hy.
    rewrite (nth_skipn L ixL x Hx), (nth_skipn R ixR x Hy). cbn [firstn].
    rewrite E. replace (S ixL + k) with (ixL + S k) by lia. replace (S ixR + k) with (ixR + S k) by lia.
    rewrite <- app_assoc. cbn [app].
    split; [reflexivity|]. split; [f_equal; exact Hs|]. split; [cbn; f_equal; exact Hl|].
    split; [lia|]. split; [lia|].
    replace (ixL + S k) with (S ixL + k) by lia. replace (ixR + S k) with (S ixR + k) by lia. exact H3.
  - exists 0. cbn. rewrite app_nil_r, !Nat.add_0_r. repeat split; try lia.
Qed.

Lemma look_in_spec L R iL : forall fuel iR, length R - iR < fuel ->
  (exists j, look_in L R fuel iL iR = DOk (true, j) /\ iR <= j /\ j < length R /\ veq (aget L iL) (aget R j) = true) \/
  (exists j, look_in L R fuel iL iR = DOk (false, j)).
Proof.
  induction fuel as [|f IH]; intros iR Hf; [lia|].
  cbn [look_in]. destruct (Nat.ltb iR (length R)) eqn:C.
  - apply Nat.ltb_lt in C. destruct (veq (aget L iL) (aget R iR)) eqn:V.
    + left. exists iR. repeat split; auto.
    + destruct (IH (S iR)) as [[j [E [H1 [H2 H3]]]]|[j E]]; try lia.
      * left. exists j. repeat split; auto. lia.
      * right. exists j. exact E.
  - right. exists iR. reflexivity.
Qed.

Lemma look_out_spec L R ixR : forall fuel iL iRo, length L - iL < fuel ->
  (exists i j, look_out L R fuel iL iRo ixR = DOk (true, i, Some j) /\ iL <= i /\ i < length L /\ ixR <= j /\ j < length R /\
               veq (aget L i) (aget R j) = true) \/
  (exists i jo, look_out L R fuel iL iRo ixR = DOk (false, i, jo)).
Proof.
  induction fuel as [|f IH]; intros iL iRo Hf; [lia|].
  cbn [look_out]. destruct (Nat.ltb iL (length L)) eqn:C.
  - apply Nat.ltb_lt in C.
    destruct (look_in_spec L R iL (S (length R)) ixR) as [[j [E [H1 [H2 H3]]]]|[j E]]; try lia; rewrite E.
    + left. exists iL, j. repeat split; auto.
    + destruct (IH (S iL) (Some j)) as [[i [j' [E' H]]]|[i [jo E']]]; try lia.
      * left. exists i, j'. split; [exact E'|]. repeat split; try tauto. lia.
      * right. exists i, jo. exact E'.
  - right. exists iL, iRo. reflexivity.
Qed.

(* ------------------------------------------------------------------ the outer loop *)
Definition Final (L R : list str) (d : list block) : Prop :=
  left_of d = L /\ right_of d = R /\ forallb nonempty_block d = true.

Lemma push_ok acc k ls : push acc k (Some ls) = DOk (acc ++ [mk k ls]).
Proof. reflexivity. Qed.

(* invariant: the blocks emitted so far reconstruct firstn ixL L / firstn ixR R; every entry of the body either
   ends the loop or strictly increases ixL + ixR, so the fuel |L| + |R| + 1 never runs out *)
Lemma outer_spec L R : forall fuel ixL ixR acc,
  ixL <= length L -> ixR <= length R ->
  left_of acc = firstn ixL L -> right_of acc = firstn ixR R -> forallb nonempty_block acc = true ->
  (length L + length R) - (ixL + ixR) < fuel ->
  exists d, outer_body L R fuel ixL ixR acc = DOk d /\ Final L R d.
Proof.
  induction fuel as [|f IH]; intros ixL ixR acc HL HR Il Ir Ine Hf; [lia|].
  cbn [outer_body].
  destruct (Nat.leb (length L) ixL) eqn:CL.
  { (* left side exhausted *)
    apply Nat.leb_le in CL. assert (ixL = length L) by lia. subst ixL.
    destruct (Nat.ltb ixR (length R)) eqn:CR.
    - apply Nat.ltb_lt in CR. rewrite aslice_tail by lia. rewrite push_ok. eexists. split; [reflexivity|].
      unfold Final. rewrite left_of_app, right_of_app. cbn. rewrite app_nil_r, Il, Ir, firstn_all, firstn_skipn.
      repeat split. apply nonempty_app; [exact Ine | apply skipn_nonempty; exact CR].
    - apply Nat.ltb_ge in CR. assert (ixR = length R) by lia. subst ixR.
      eexists. split; [reflexivity|]. unfold Final. rewrite Il, Ir, !firstn_all. auto. }
  apply Nat.leb_gt in CL.
  destruct (Nat.leb (length R) ixR) eqn:CR.
  { apply Nat.leb_le in CR. assert (ixR = length R) by lia. subst ixR.
    destruct (Nat.ltb ixL (length L)) eqn:CL'; [|apply Nat.ltb_ge in CL'; lia].
    rewrite aslice_tail by lia. rewrite push_ok. eexists. split; [reflexivity|].
    unfold Final. rewrite left_of_app, right_of_app. cbn. rewrite app_nil_r, Il, Ir, firstn_all, firstn_skipn.
    repeat split. apply nonempty_app; [exact Ine | apply skipn_nonempty; exact CL]. }
  apply Nat.leb_gt in CR.
  destruct (scan_spec L R (S (length L)) ixL ixR []) as [k [E [Hs [Hl [H1 [H2 H3]]]]]]; try lia.
  rewrite E. cbn [app].
  destruct (firstn k (skipn ixL L)) as [|x t] eqn:Erun.
  2:{ (* a run of identical lines: continue *)
    assert (Hk : 1 <= k) by (rewrite <- Hl; cbn; lia).
    apply IH; try lia.
    - change {| b_kind := Identical; b_lines := x :: t |} with (mk Identical (x :: t)).
      rewrite left_of_app. cbn. rewrite Il, <- Erun, <- firstn_plus. reflexivity.
    - change {| b_kind := Identical; b_lines := x :: t |} with (mk Identical (x :: t)).
      rewrite right_of_app. cbn. rewrite Ir, Hs, <- firstn_plus. reflexivity.
    - apply (nonempty_app acc Identical (x :: t)); [exact Ine | discriminate]. }
  (* no identical line here *)
  cbn in Hl. subst k. rewrite !Nat.add_0_r in *. specialize (H3 CL CR).
  destruct (look_out_spec L R ixR (S (length L)) ixL None) as [[i [j [E' [Hi1 [Hi2 [Hj1 [Hj2 Hv]]]]]]]|[i [jo E']]]; try lia;
    rewrite E'.
  - (* a matching pair ahead *)
    assert (Hprog : ixL < i \/ ixR < j).
    { destruct (Nat.eq_dec i ixL) as [->|]; [|lia]. destruct (Nat.eq_dec j ixR) as [->|]; [|lia]. congruence. }
    (* removed lines *)
    assert (S1 : exists acc1,
      (if Nat.ltb ixL i
       then match push acc Remove (aslice L ixL (Some i)) with DOk a => DOk (a, i) | DFuel => DFuel | DNull => DNull end
       else DOk (acc, ixL)) = DOk (acc1, i) /\
      left_of acc1 = firstn i L /\ right_of acc1 = firstn ixR R /\ forallb nonempty_block acc1 = true).
    { destruct (Nat.ltb ixL i) eqn:C.
      - apply Nat.ltb_lt in C. rewrite aslice_mid by lia. rewrite push_ok. eexists. split; [reflexivity|].
        rewrite left_of_app, right_of_app. cbn. rewrite app_nil_r, Il, Ir. rewrite firstn_mid by lia.
        repeat split. apply nonempty_app; [exact Ine | apply firstn_skipn_nonempty; lia].
      - apply Nat.ltb_ge in C. assert (i = ixL) by lia. subst i. exists acc. auto. }
    destruct S1 as [acc1 [-> [Il1 [Ir1 Ine1]]]].
    assert (S2 : exists acc2,
      (if Nat.ltb ixR j
       then match push acc1 Add (aslice R ixR (Some j)) with DOk a => DOk (a, j) | DFuel => DFuel | DNull => DNull end
       else DOk (acc1, ixR)) = DOk (acc2, j) /\
      left_of acc2 = firstn i L /\ right_of acc2 = firstn j R /\ forallb nonempty_block acc2 = true).
    { destruct (Nat.ltb ixR j) eqn:C.
      - apply Nat.ltb_lt in C. rewrite aslice_mid by lia. rewrite push_ok. eexists. split; [reflexivity|].
        rewrite left_of_app, right_of_app. cbn. rewrite app_nil_r, Il1, Ir1. rewrite firstn_mid by lia.
        repeat split. apply nonempty_app; [exact Ine1 | apply firstn_skipn_nonempty; lia].
      - apply Nat.ltb_ge in C. assert (j = ixR) by lia. subst j. exists acc1. auto. }
    destruct S2 as [acc2 [-> [Il2 [Ir2 Ine2]]]].
    apply Nat.ltb_lt in Hi2. rewrite Hi2. cbn [orb]. apply Nat.ltb_lt in Hi2.
    apply IH; try lia; assumption.
  - (* no match: the rest of both sides; continue *)
    apply Nat.ltb_lt in CL. rewrite CL. apply Nat.ltb_lt in CL.
    rewrite aslice_tail by lia. rewrite push_ok.
    apply Nat.ltb_lt in CR. rewrite CR. apply Nat.ltb_lt in CR.
    rewrite aslice_tail by lia. rewrite push_ok.
    apply IH; try lia.
    + rewrite left_of_app, left_of_app. cbn. rewrite app_nil_r, Il, firstn_skipn, firstn_all. reflexivity.
    + rewrite right_of_app, right_of_app. cbn. rewrite app_nil_r, Ir, firstn_skipn, firstn_all. reflexivity.
    + apply nonempty_app; [apply nonempty_app|]; [exact Ine | apply skipn_nonempty; exact CL | apply skipn_nonempty; exact CR].
Qed.

Theorem diff_lines_spec L R : exists d, diff_lines L R = DOk d /\ Final L R d.
Proof.
  unfold diff_lines. destruct (Nat.ltb 0 (length L) || Nat.ltb 0 (length R)) eqn:C.
  - apply outer_spec; try lia; reflexivity.
  - apply orb_false_iff in C. destruct C as [C1 C2]. apply Nat.ltb_ge in C1. apply Nat.ltb_ge in C2.
    destruct L; [|cbn in C1; lia]. destruct R; [|cbn in C2; lia].
    exists []. split; [reflexivity|]. repeat split.
Qed.

(* ------------------------------------------------------------------ the property clauses *)
Lemma nonempty_Forall d : forallb nonempty_block d = true -> Forall (fun b => b_lines b <> []) d.
Proof.
  intros H. apply Forall_forall. intros b Hb. rewrite forallb_forall in H. specialize (H b Hb).
  unfold nonempty_block in H. destruct (b_lines b); [discriminate | discriminate].
Qed.

Theorem diff_reconstruct L R d : diff_lines L R = DOk d ->
  left_of d = L /\ right_of d = R /\ Forall (fun b => b_lines b <> []) d.
Proof.
  intros H. destruct (diff_lines_spec L R) as [d' [E [F1 [F2 F3]]]]. rewrite E in H. inversion H. subst d'.
  repeat split; auto. apply nonempty_Forall, F3.
Qed.

Theorem diff_total L R : exists d, diff_lines L R = DOk d.
Proof. destruct (diff_lines_spec L R) as [d [E _]]. eauto. Qed.

Corollary diff_never_out_of_fuel L R : diff_lines L R <> DFuel /\ diff_lines L R <> DNull.
Proof. destruct (diff_total L R) as [d E]. rewrite E. split; discriminate. Qed.

(* identical inputs: one Identical block holding all lines (none for the empty list) *)
Theorem diff_identical L :
  diff_lines L L = DOk (match L with [] => [] | _ :: _ => [mk Identical L] end).
Proof.
  unfold diff_lines. destruct L as [|a L']; [reflexivity|].
  set (L := a :: L'). assert (HL : 1 <= length L) by (cbn; lia).
  replace (Nat.ltb 0 (length L) || Nat.ltb 0 (length L)) with true
    by (symmetry; apply orb_true_iff; left; apply Nat.ltb_lt; lia).
  replace (length L + length L + 1) with (S (S (length L + length L - 1))) by lia.
  cbn [outer_body].
  destruct (Nat.leb (length L) 0) eqn:C; [apply Nat.leb_le in C; lia|].
  destruct (scan_spec L L (S (length L)) 0 0 []) as [k [E [Hs [Hl [H1 [H2 H3]]]]]]; try lia.
  rewrite E. cbn [app plus].
  assert (Hk : k = length L).
  { destruct (Nat.eq_dec k (length L)); [assumption|]. assert (Hlt : k < length L) by lia.
    specialize (H3 Hlt Hlt). cbn [plus] in H3. rewrite veq_refl in H3. discriminate. }
  assert (Hrun : firstn k (skipn 0 L) = L) by (cbn [skipn]; subst k; apply firstn_all).
  rewrite Hrun. unfold L at 1. fold L.
  rewrite Hk. rewrite Nat.leb_refl. rewrite Nat.ltb_irrefl. reflexivity.
Qed.

Corollary diff_identical_only_identical L d : diff_lines L L = DOk d -> Forall (fun b => b_kind b = Identical) d.
Proof.
  rewrite diff_identical. intros H. inversion H. destruct L; constructor; [reflexivity | constructor].
Qed.

(* converse: a result without Add/Remove blocks means the inputs were equal *)
Lemma only_identical_same d : forallb (fun b => kind_eqb (b_kind b) Identical) d = true -> left_of d = right_of d.
Proof.
  unfold left_of, right_of. induction d as [|b d IH]; [reflexivity|]. cbn. intros H.
  apply andb_true_iff in H. destruct H as [Hb Hd]. destruct (b_kind b); try discriminate. cbn. f_equal. apply IH, Hd.
Qed.

Theorem diff_only_identical_iff L R d : diff_lines L R = DOk d ->
  (forallb (fun b => kind_eqb (b_kind b) Identical) d = true <-> L = R).
Proof.
  intros H. split.
  - intros Hall. destruct (diff_reconstruct L R d H) as [F1 [F2 _]]. rewrite <- F1, <- F2. apply only_identical_same, Hall.
  - intros <-. rewrite diff_identical in H. inversion H. destruct L; reflexivity.
Qed.

(* ------------------------------------------------------------------ string inputs: the line-split regex
   The regex value is REGENERATED from diff.bare (Gen/Includes.v).  [split_spec] is the meaning the property gives
   to "the lines of a text": LF or CRLF ends a line.  The lemmas below hold for the regex as it is in the code
   now; a changed pattern makes them fail to compile. *)
Fixpoint split_spec (s cur : str) : list str :=
  match s with
  | [] => [rev cur]
  | c :: t =>
    if (c =? 10)%N then rev cur :: split_spec t []
    else if (c =? 13)%N then
      match t with
      | c2 :: t2 => if (c2 =? 10)%N then rev cur :: split_spec t2 [] else split_spec t (c :: cur)
      | [] => split_spec t (c :: cur)
      end
    else split_spec t (c :: cur)
  end.

Definition line_break_at (pos : nat) (rest : str) : mres :=
  match rest with
  | c :: t =>
    if (c =? 13)%N then match t with c2 :: _ => if (c2 =? 10)%N then MYes (S (S pos)) [] else MNo | [] => MNo end
    else if (c =? 10)%N then MYes (S pos) [] else MNo
  | [] => MNo
  end.

Lemma m_line_split F pos rest : 6 <= F ->
  m UC F gen_diff_line_split pos rest [] (fun p _ c => MYes p c) = line_break_at pos rest.
Proof.
  intros HF. do 6 (destruct F as [|F]; [lia|]). clear HF.
  unfold gen_diff_line_split, line_break_at. cbn [m pred option_map].
  destruct rest as [|c t]; [reflexivity|].
  destruct (c =? 13)%N eqn:E13.
  - replace (Nat.eqb (S pos) pos) with false by (symmetry; apply Nat.eqb_neq; lia).
    destruct t as [|c2 t2].
    + apply N.eqb_eq in E13. subst c. reflexivity.
    + destruct (c2 =? 10)%N eqn:E10; [reflexivity|].
      apply N.eqb_eq in E13. subst c. reflexivity.
  - destruct (c =? 10)%N; reflexivity.
Qed.

Lemma fuel_for_line_split whole : 6 <= fuel_for gen_diff_line_split whole.
Proof. unfold fuel_for, gen_diff_line_split. cbn [rsize]. lia. Qed.

Lemma re_split_from_spec whole : forall fuel pos rest cur, length rest < fuel ->
  re_split_from UC gen_diff_line_split whole fuel pos rest cur = Some (split_spec rest cur).
Proof.
  induction fuel as [|f IH]; intros pos rest cur Hf; [lia|].
  cbn [re_split_from]. destruct rest as [|c t]; [reflexivity|].
  rewrite m_line_split by apply fuel_for_line_split.
  cbn [line_break_at split_spec]. cbn [length] in Hf.
  destruct (c =? 13)%N eqn:E13.
  - assert (E10 : (c =? 10)%N = false) by (apply N.eqb_eq in E13; subst c; reflexivity). rewrite E10.
    destruct t as [|c2 t2].
    + rewrite IH by (cbn; lia). reflexivity.
    + destruct (c2 =? 10)%N eqn:E.
      * replace (Nat.ltb pos (S (S pos))) with true by (symmetry; apply Nat.ltb_lt; lia).
        replace (S (S pos) - pos) with 2 by lia. cbn [skipn]. cbn [length] in Hf. rewrite IH by lia. reflexivity.
      * rewrite IH by (cbn [length] in *; lia). reflexivity.
  - destruct (c =? 10)%N eqn:E10.
    + replace (Nat.ltb pos (S pos)) with true by (symmetry; apply Nat.ltb_lt; lia).
      replace (S pos - pos) with 1 by lia. cbn [skipn]. rewrite IH by lia. reflexivity.
    + rewrite IH by lia. reflexivity.
Qed.

(* regexSplit(diffRegexLineSplit, s) never fails and is the LF/CRLF line split *)
Theorem split_lines_spec s : split_lines s = DOk (split_spec s []).
Proof. unfold split_lines, re_split. rewrite re_split_from_spec by lia. reflexivity. Qed.

(* ... and the LF/CRLF line split undoes the joining of CR/LF-free lines with any mixture of LF and CRLF *)
Definition clean_line (l : str) : bool := forallb (fun c => negb (c =? 10)%N && negb (c =? 13)%N) l.
Fixpoint unsplit (ls : list (str * bool)) (last : str) : str :=
  match ls with
  | [] => last
  | (l, crlf) :: t => l ++ (if crlf then [13; 10]%N else [10%N]) ++ unsplit t last
  end.

Lemma split_spec_clean l : forall rest cur, clean_line l = true ->
  split_spec (l ++ rest) cur = match rest with
                               | [] => [rev (rev l ++ cur)]
                               | _ => split_spec rest (rev l ++ cur)
                               end.
Proof.
  induction l as [|c l IH]; intros rest cur H.
  - cbn [app rev]. destruct rest; reflexivity.
  - cbn in H. apply andb_true_iff in H. destruct H as [Hc Hl]. apply andb_true_iff in Hc. destruct Hc as [H10 H13].
    apply negb_true_iff in H10. apply negb_true_iff in H13.
    cbn [app split_spec]. rewrite H10, H13. rewrite IH by exact Hl.
    cbn [rev]. rewrite <- app_assoc. reflexivity.
Qed.

Theorem split_spec_unsplit ls : forall last,
  forallb clean_line (map fst ls) = true -> clean_line last = true ->
  split_spec (unsplit ls last) [] = map fst ls ++ [last].
Proof.
  induction ls as [|[l crlf] ls IH]; intros last H Hlast.
  - cbn [unsplit map app]. rewrite <- (app_nil_r last) at 1. rewrite split_spec_clean by exact Hlast.
    rewrite app_nil_r, rev_involutive. reflexivity.
  - cbn in H. apply andb_true_iff in H. destruct H as [Hl Hls]. cbn [unsplit map fst].
    rewrite split_spec_clean by exact Hl. rewrite app_nil_r.
    destruct crlf; cbn [app split_spec N.eqb Pos.eqb]; rewrite rev_involutive, IH by assumption; reflexivity.
Qed.

(* the line list a diffLines argument stands for *)
Definition spec_lines (i : diff_input) : list str :=
  match i with InText s => split_spec s [] | InParts parts => flat_map (fun p => split_spec p []) parts end.

Lemma input_lines_spec i : input_lines i = DOk (spec_lines i).
Proof.
  destruct i as [s|parts]; cbn; [apply split_lines_spec|].
  induction parts as [|p t IH]; [reflexivity|]. cbn. rewrite split_lines_spec, IH. reflexivity.
Qed.

Theorem diff_inputs_spec a b : exists d, diff_inputs a b = DOk d /\ Final (spec_lines a) (spec_lines b) d.
Proof. unfold diff_inputs. rewrite !input_lines_spec. apply diff_lines_spec. Qed.

Theorem diff_inputs_reconstruct a b d : diff_inputs a b = DOk d ->
  left_of d = spec_lines a /\ right_of d = spec_lines b /\ Forall (fun b => b_lines b <> []) d.
Proof.
  intros H. destruct (diff_inputs_spec a b) as [d' [E [F1 [F2 F3]]]]. rewrite E in H. inversion H. subst d'.
  repeat split; auto. apply nonempty_Forall, F3.
Qed.

(* the same text with LF and with CRLF endings: only Identical blocks *)
Theorem diff_inputs_same_lines a b d : diff_inputs a b = DOk d -> spec_lines a = spec_lines b ->
  Forall (fun b => b_kind b = Identical) d.
Proof.
  unfold diff_inputs. rewrite !input_lines_spec. intros H E. rewrite E in H. apply diff_identical_only_identical in H. exact H.
Qed.

(* non-vacuity / sanity: F6's replay input, and the while+continue path *)
Example diff_example :
  diff_lines [U "a"; U "b"; U "c"] [U "a"; U "x"; U "c"] =
  DOk [mk Identical [U "a"]; mk Remove [U "b"]; mk Add [U "x"]; mk Identical [U "c"]].
Proof. vm_compute. reflexivity. Qed.

Example diff_example_crlf :
  diff_inputs (InText (U "a\00000d\00000ab\00000d\00000a")) (InParts [U "a\00000ab"; U ""]) =
  DOk [mk Identical [U "a"; U "b"; U ""]].
Proof. vm_compute. reflexivity. Qed.
