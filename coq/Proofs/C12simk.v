(* Proofs/C12simk.v — property C12: every function body of Model/LibSeq.v (the 34 validated ones and the 3 raw ones)
   maps arguments / heaps that are equal up to spelling to outcomes that are equal up to spelling. *)
From Coq Require Import Lia ZifyBool SpecFloat.
From BS Require Import Model.Base Model.Num Model.LibVal Gen.ArgSpecs Model.LibSeq Proofs.BaseFacts Proofs.C15 Proofs.C12 Proofs.C12sim.
Local Open Scope Z_scope.

Definition ksim (k : kfun) : Prop :=
  forall h h' va va', hsim h h' -> Forall2 vasim va va' -> osim (k h va) (k h' va').
Definition rawsim (g : rawfun) : Prop :=
  forall h h' args args', hsim h h' -> Forall2 vsim args args' -> osim (g h args) (g h' args').

Lemma osim_mk : forall r r' h h', rsim r r' -> hsim h h' -> osim (r, h) (r', h').
Proof. intros. split; assumption. Qed.
Lemma vsim_inv : forall v v', vsim v v' -> (exists n1 n2, v = VNum n1 /\ v' = VNum n2 /\ nsim n1 n2) \/ v' = v.
Proof. intros v v' [n1 n2 H|w]; [left; eauto | right; reflexivity]. Qed.

Lemma assoc_default_sim : forall k kv kv' d d', Forall2 psim kv kv' -> vsim d d' ->
  vsim (match assoc k kv with Some v => v | None => d end) (match assoc k kv' with Some v => v | None => d' end).
Proof. intros k kv kv' d d' H D. pose proof (assoc_sim k kv kv' H) as S. destruct (assoc k kv), (assoc k kv'); simpl in S; tauto. Qed.
Lemma assoc_has_sim : forall k kv kv', Forall2 psim kv kv' ->
  (match assoc k kv with Some _ => true | None => false end) = (match assoc k kv' with Some _ => true | None => false end).
Proof. intros k kv kv' H. pose proof (assoc_sim k kv kv' H) as S. destruct (assoc k kv), (assoc k kv'); simpl in S; tauto. Qed.

#[local] Hint Constructors vsim rsim csim vasim : sim.
#[local] Hint Resolve nsim_refl vssim_refl kvsim_refl hset_sim halloc_sim F2_skipn F2_firstn F2_rev F2_removelast F2_remove_nth
  F2_set_nth F2_repeat F2_py_slice Forall2_app dict_set_sim dict_del_sim dict_update_sim keys_sim assoc_default_sim
  null_default_sim : sim.

Ltac rd := cbv beta iota zeta.
(* rewrite the right-hand side's uses of a respelt number / value into the left-hand side's *)
Ltac norm :=
  repeat match goal with
  | F : Forall2 _ ?xs ?ys |- context [length ?ys] => rewrite <- (F2_length F)
  | N : nsim ?a ?b |- context [py_int ?b] => rewrite <- (py_int_sim a b N)
  | N : nsim ?a ?b |- context [num_gt ?b (NInt ?w)] => rewrite <- (num_gt_sim a b w N)
  | N : nsim ?a ?b |- context [index_guard (VNum ?b) ?k] => rewrite <- (index_guard_sim a b k N)
  | H : vsim ?v ?w |- context [index_guard ?w ?k] => is_var w; rewrite <- (index_guard_vsim v w k H)
  end.
Ltac leaf HL :=
  rewrite ?HL; apply osim_mk; [ first [ apply rs_same | eauto 8 with sim ] | eauto 8 with sim ].
Ltac inv_vsim H v :=
  let n1 := fresh "n" in let n2 := fresh "m" in let N := fresh "N" in
  destruct (vsim_inv _ _ H) as [(n1 & n2 & -> & -> & N)| ->]; clear H; [ | destruct v ]; rd; cbn [as_num]; rd.
Ltac kstep Hh HL :=
  norm;
  match goal with
  | |- osim (_, _) (_, _) => leaf HL
  | H : Forall2 vasim ?va _ |- osim (match ?va with _ => _ end) _ => inversion H; subst; clear H; rd
  | H : vasim ?a _ |- osim (match ?a with _ => _ end) _ => inversion H; subst; clear H; rd
  | H : vsim ?v _ |- osim (match ?v with _ => _ end) _ => inv_vsim H v
  | H : Forall2 vsim ?xs _ |- osim (match ?xs with _ => _ end) _ => inversion H; subst; clear H; rd
  | |- osim (match hget ?h ?l with _ => _ end) _ =>
      let F := fresh "F" in
      destruct (hget_sim_cases _ _ l Hh) as [[-> ->]|[(?xs & ?ys & -> & -> & F)|(?kv & ?kv' & -> & -> & F)]]; rd
  | F : Forall2 vsim ?xs ?ys |- osim (match rev ?xs with _ => _ end) _ =>
      let R := fresh "R" in
      pose proof (F2_rev _ _ _ F) as R; destruct R; rd
  | F : Forall2 vsim ?xs ?ys |- osim (match nth_error ?xs ?i with _ => _ end) _ =>
      let N := fresh "N" in
      pose proof (F2_nth_error _ _ _ i F) as N; destruct (nth_error xs i), (nth_error ys i); simpl in N; try contradiction; rd
  | |- osim (match index_of ?h ?xs ?v ?p with _ => _ end) (match index_of ?h' ?xs' ?v' ?p with _ => _ end) =>
      replace (index_of h' xs' v' p) with (index_of h xs v p) by (apply index_of_sim; auto with sim);
      destruct (index_of h xs v p) as [[?|]|]; rd
  | |- osim (match last_index_of ?h ?xs ?v ?p ?b with _ => _ end) (match last_index_of ?h' ?xs' ?v' ?p ?b with _ => _ end) =>
      replace (last_index_of h' xs' v' p b) with (last_index_of h xs v p b) by (apply last_index_of_sim; auto with sim);
      destruct (last_index_of h xs v p b) as [[?|]|]; rd
  | H : vsim ?v _ |- osim (match ?x with _ => _ end) _ =>
      match x with context [match v with _ => _ end] => inv_vsim H v | context [as_num v] => inv_vsim H v end
  | |- osim (match ?x with _ => _ end) _ => destruct x eqn:?; rd
  end.
Ltac ksim_tac k :=
  let Hh := fresh "Hh" in let Hva := fresh "Hva" in let HL := fresh "HL" in
  unfold ksim, k; intros h h' va va' Hh Hva; pose proof (hsim_length _ _ Hh) as HL;
  unfold halloc, stuck, len in *; rd; repeat (kstep Hh HL).

Lemma sim_arrayCopy : ksim k_arrayCopy. Proof. ksim_tac k_arrayCopy.
Qed.
Lemma sim_arrayDelete : ksim k_arrayDelete. Proof. ksim_tac k_arrayDelete. Qed.
Lemma sim_arrayExtend : ksim k_arrayExtend. Proof. ksim_tac k_arrayExtend. Qed.
Lemma sim_arrayGet : ksim k_arrayGet. Proof. ksim_tac k_arrayGet. Qed.
Lemma sim_arrayIndexOf : ksim k_arrayIndexOf. Proof. ksim_tac k_arrayIndexOf. Qed.
Lemma sim_arrayLastIndexOf : ksim k_arrayLastIndexOf. Proof. ksim_tac k_arrayLastIndexOf. Qed.
Lemma sim_arrayLength : ksim k_arrayLength. Proof. ksim_tac k_arrayLength. Qed.
Lemma sim_arrayNewSize : ksim k_arrayNewSize. Proof. ksim_tac k_arrayNewSize.
Qed.
Lemma sim_arrayPop : ksim k_arrayPop. Proof. ksim_tac k_arrayPop. Qed.
Lemma sim_arrayPush : ksim k_arrayPush. Proof. ksim_tac k_arrayPush. Qed.
Lemma sim_arraySet : ksim k_arraySet. Proof. ksim_tac k_arraySet. Qed.
Lemma sim_arrayShift : ksim k_arrayShift. Proof. ksim_tac k_arrayShift. Qed.
Lemma sim_arraySlice : ksim k_arraySlice. Proof. ksim_tac k_arraySlice. Qed.
Lemma sim_objectAssign : ksim k_objectAssign. Proof. ksim_tac k_objectAssign. Qed.
Lemma sim_objectCopy : ksim k_objectCopy. Proof. ksim_tac k_objectCopy. Qed.
Lemma sim_objectDelete : ksim k_objectDelete. Proof. ksim_tac k_objectDelete. Qed.
Lemma sim_objectGet : ksim k_objectGet. Proof. ksim_tac k_objectGet. Qed.
Lemma sim_objectHas : ksim k_objectHas.
Proof.
  unfold ksim, k_objectHas; intros h h' va va' Hh Hva; pose proof (hsim_length _ _ Hh) as HL; unfold stuck; rd.
  repeat first
    [ match goal with F : Forall2 psim ?kv ?kv' |- context [assoc ?k ?kv'] => rewrite <- (assoc_has_sim k kv kv' F) end
    | kstep Hh HL ].
Qed.
Lemma sim_objectKeys : ksim k_objectKeys. Proof. ksim_tac k_objectKeys. Qed.
Lemma sim_objectSet : ksim k_objectSet. Proof. ksim_tac k_objectSet. Qed.
Lemma sim_stringCharCodeAt : ksim k_stringCharCodeAt. Proof. ksim_tac k_stringCharCodeAt. Qed.
Lemma sim_stringEndsWith : ksim k_stringEndsWith. Proof. ksim_tac k_stringEndsWith. Qed.
Lemma sim_stringStartsWith : ksim k_stringStartsWith. Proof. ksim_tac k_stringStartsWith. Qed.
Lemma sim_stringIndexOf : ksim k_stringIndexOf. Proof. ksim_tac k_stringIndexOf. Qed.
Lemma sim_stringLastIndexOf : ksim k_stringLastIndexOf. Proof. ksim_tac k_stringLastIndexOf. Qed.
Lemma sim_stringLength : ksim k_stringLength. Proof. ksim_tac k_stringLength. Qed.
Lemma sim_stringRepeat : ksim k_stringRepeat. Proof. ksim_tac k_stringRepeat. Qed.
Lemma sim_stringReplace : ksim k_stringReplace. Proof. ksim_tac k_stringReplace. Qed.
Lemma sim_stringSlice : ksim k_stringSlice. Proof. ksim_tac k_stringSlice. Qed.
Lemma sim_stringSplit : ksim k_stringSplit. Proof. ksim_tac k_stringSplit. Qed.
Lemma sim_stringTrim : ksim k_stringTrim. Proof. ksim_tac k_stringTrim. Qed.
Lemma sim_regexEscape : ksim k_regexEscape. Proof. ksim_tac k_regexEscape. Qed.
Lemma sim_urlEncodeGen : forall f, ksim (k_urlEncodeGen f). Proof. intro f. ksim_tac k_urlEncodeGen. Qed.

Lemma lib_table_sim : Forall (fun p => ksim (snd p)) lib_table.
Proof.
  unfold lib_table.
  repeat (apply Forall_cons; [ first
    [ exact sim_arrayCopy | exact sim_arrayDelete | exact sim_arrayExtend | exact sim_arrayGet | exact sim_arrayIndexOf
    | exact sim_arrayLastIndexOf | exact sim_arrayLength | exact sim_arrayNewSize | exact sim_arrayPop | exact sim_arrayPush
    | exact sim_arraySet | exact sim_arrayShift | exact sim_arraySlice | exact sim_objectAssign | exact sim_objectCopy
    | exact sim_objectDelete | exact sim_objectGet | exact sim_objectHas | exact sim_objectKeys | exact sim_objectSet
    | exact sim_stringCharCodeAt | exact sim_stringEndsWith | exact sim_stringStartsWith | exact sim_stringIndexOf
    | exact sim_stringLastIndexOf | exact sim_stringLength | exact sim_stringRepeat | exact sim_stringReplace
    | exact sim_stringSlice | exact sim_stringSplit | exact sim_stringTrim | exact sim_regexEscape
    | exact (sim_urlEncodeGen _) ] | ]).
  apply Forall_nil.
Qed.

(* ---- the three functions that inspect their arguments by hand *)
Lemma sim_arrayNew : rawsim raw_arrayNew.
Proof.
  unfold rawsim, raw_arrayNew, halloc. intros h h' args args' Hh Ha. rewrite (hsim_length _ _ Hh).
  apply osim_mk; auto with sim.
Qed.

Fixpoint objnew_go (a : list value) (acc : list (str * value)) (fuel : nat) : option (list (str * value)) :=
  match fuel with O => None | S fu =>
  match a with
  | [] => Some acc
  | VStr k :: v :: t => objnew_go t (dict_set acc k v) fu
  | [VStr k] => Some (dict_set acc k VNull)
  | _ => None
  end end.
Lemma raw_objectNew_unfold : forall h args, raw_objectNew h args =
  match objnew_go args [] (S (length args)) with
  | Some kv => let (h', l') := halloc h (CObj kv) in (LOk (VObj l'), h')
  | None => (LArgsErr VNull, h)
  end.
Proof. reflexivity. Qed.
Lemma objnew_go_sim : forall fuel a a' acc acc', Forall2 vsim a a' -> Forall2 psim acc acc' ->
  orel (Forall2 psim) (objnew_go a acc fuel) (objnew_go a' acc' fuel).
Proof.
  induction fuel as [|fu IH]; intros a a' acc acc' A K; [destruct A; simpl; auto|].
  destruct A as [|x x' t t' X A1]; simpl; auto.
  destruct (vsim_inv _ _ X) as [(n1 & n2 & -> & -> & N)| ->]; simpl; auto.
  destruct x; simpl; auto.
  destruct A1 as [|y y' u u' Y A2]; simpl; auto with sim.
Qed.
Lemma sim_objectNew : rawsim raw_objectNew.
Proof.
  unfold rawsim. intros h h' args args' Hh Ha. rewrite !raw_objectNew_unfold. rewrite <- (F2_length Ha).
  pose proof (objnew_go_sim (S (length args)) args args' [] [] Ha (Forall2_nil _)) as G.
  destruct (objnew_go args [] (S (length args))), (objnew_go args' [] (S (length args))); simpl in G; try contradiction.
  - unfold halloc. rewrite (hsim_length _ _ Hh). apply osim_mk; auto with sim.
  - apply osim_mk; auto with sim.
Qed.

Fixpoint fcc_check (a : list value) : option (option (list Z)) :=
  match a with
  | [] => Some (Some [])
  | VNum n :: t =>
      match py_int n with
      | None => None
      | Some z => if negb (num_eq (NInt z) n) || num_lt n (NInt 0) then Some None
                  else match fcc_check t with Some (Some zs) => Some (Some (z :: zs)) | r => r end
      end
  | _ => Some None
  end.
Lemma raw_stringFromCharCode_unfold : forall h args, raw_stringFromCharCode h args =
  match fcc_check args with
  | None => (LRaise, h)
  | Some None => (LArgsErr VNull, h)
  | Some (Some zs) => if forallb (fun z => z <? 1114112) zs then (LOk (VStr (map Z.to_N zs)), h) else (LRaise, h)
  end.
Proof. reflexivity. Qed.
Lemma fcc_check_sim : forall a a', Forall2 vsim a a' -> fcc_check a = fcc_check a'.
Proof.
  intros a a' H. induction H as [|x x' t t' X H IH]; simpl; auto.
  destruct (vsim_inv _ _ X) as [(n1 & n2 & -> & -> & N)| ->]; [|destruct x; auto; rewrite IH; reflexivity].
  rewrite (py_int_sim n1 n2 N). destruct (py_int n2); auto.
  rewrite (num_eq_sim (NInt z) (NInt z) n1 n2 (nsim_refl _) N), (num_lt_sim n1 n2 0 N), IH. reflexivity.
Qed.
Lemma sim_stringFromCharCode : rawsim raw_stringFromCharCode.
Proof.
  unfold rawsim. intros h h' args args' Hh Ha. rewrite !raw_stringFromCharCode_unfold, (fcc_check_sim _ _ Ha).
  destruct (fcc_check args') as [[zs|]|]; [destruct (forallb _ zs)| |]; apply osim_mk; auto with sim.
Qed.

Lemma raw_table_sim : Forall (fun p => rawsim (snd p)) raw_table.
Proof.
  unfold raw_table. apply Forall_cons; [exact sim_arrayNew|]. apply Forall_cons; [exact sim_objectNew|].
  apply Forall_cons; [exact sim_stringFromCharCode|]. apply Forall_nil.
Qed.
