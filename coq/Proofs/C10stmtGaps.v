(* Proofs/C10stmtGaps.v — INNER gaps of statement lines: the white runs at the places where the statement regex has `\s*` /
   `\s+` do not matter.  For the kinds assignment, if, elif, while the classification of a line is computed from its PIECES:

     classify_assign_shape   classify n (w1 ++ name ++ w2 ++ "=" ++ T)            = ROk (KAssign name e)
     classify_if_shape       classify n (w1 ++ "if" ++ w2 ++ T ++ ":" ++ w4)      = ROk (KIf e)
     classify_elif_shape     classify n (w1 ++ "elif" ++ w2 ++ T ++ ":" ++ w4)    = ROk (KElif (ROk e))
     classify_while_shape    classify n (w1 ++ "while" ++ w2 ++ T ++ ":" ++ w4)   = ROk (KWhile e)

   for ALL white runs w1 w2 w4 (w2 non-empty after a keyword), every identifier name and every LF-free text T with
   parse_expression T = EOk e (T starts with a non-space character in the keyword forms; in the assignment T includes the
   run after `=`).  The run in front of the colon belongs to T (the regex group `(.+)` is greedy and takes it; the parser
   ignores it).  Together with C10tokSpaced.spaced_parse (gaps between the tokens of T) this is the relation  stmt_spaced.
   Method: direct readings of the regenerated regexes through RegexEval.star_bt (star_bt_longest / star_bt_back). *)
From Coq Require Import Lia.
From BS Require Import Model.Base Model.Regex Model.Num Model.NumText Model.ExprParser Model.Script Model.Lower Gen.Unicode Gen.Regexes
  Proofs.RegexFacts Proofs.RegexComplete Proofs.RegexShift Proofs.RegexEval Proofs.C02rx Proofs.C10ws Proofs.C10wsExpr
  Proofs.C10wsFull Proofs.C10wsIndent Proofs.C10wsIndent2 Proofs.C10tokSpaced Proofs.RegexTrail Proofs.C10tokTrail Proofs.RegexTrail2
  Proofs.RegexTrail3 Proofs.C10stmtTrail Proofs.C10parseNoeq Proofs.C10classifyTrail.

(* ---------- rejection by the first character ---------- *)
Definition rejects (R : regex) (y : N) : bool := negb (nullable R) && forallb (fun a => negb (atom_ok UC a y)) (firsts R).

Lemma rxm_rejects R y t : rejects R y = true -> rxm R (y :: t) = MNo.
Proof.
  unfold rejects. intros H. apply andb_true_iff in H. destruct H as [H1 H2]. apply negb_true_iff in H1.
  unfold rxm. apply re_match_none. intros e c M.
  apply (Matches_rejects UC _ _ _ _ _ _ y M H1 eq_refl). intros a I.
  rewrite forallb_forall in H2. specialize (H2 a I). apply negb_true_iff in H2. exact H2.
Qed.

(* an expression does not start with `=` *)
Lemma parse_unary_hd61 f t : forall x, parse_unary f (61%N :: t) <> POk x.
Proof.
  intros x. destruct f as [|f]; [discriminate|]. cbn [parse_unary]. unfold rx. fold (rxm R_EXPR_GROUP_OPEN (61%N :: t)).
  rewrite (rxm_rejects R_EXPR_GROUP_OPEN 61 t eq_refl).
  fold (rxm R_EXPR_UNARY_OP (61%N :: t)). rewrite (rxm_rejects R_EXPR_UNARY_OP 61 t eq_refl).
  fold (rxm R_EXPR_FUNCTION_OPEN (61%N :: t)). rewrite (rxm_rejects R_EXPR_FUNCTION_OPEN 61 t eq_refl).
  fold (rxm R_EXPR_NUMBER (61%N :: t)). rewrite (rxm_rejects R_EXPR_NUMBER 61 t eq_refl).
  fold (rxm R_EXPR_STRING (61%N :: t)). rewrite (rxm_rejects R_EXPR_STRING 61 t eq_refl).
  fold (rxm R_EXPR_STRING_DOUBLE (61%N :: t)). rewrite (rxm_rejects R_EXPR_STRING_DOUBLE 61 t eq_refl).
  fold (rxm R_EXPR_VARIABLE (61%N :: t)). rewrite (rxm_rejects R_EXPR_VARIABLE 61 t eq_refl).
  fold (rxm R_EXPR_VARIABLE_EX (61%N :: t)). rewrite (rxm_rejects R_EXPR_VARIABLE_EX 61 t eq_refl).
  discriminate.
Qed.

Lemma parse_hd_noeq t e : parse_expression (61%N :: t) <> EOk e.
Proof.
  unfold parse_expression. unfold expr_fuel. replace (2 * length (61%N :: t) + 4) with (S (2 * length (61%N :: t) + 3)) by lia.
  cbn [parse_binary]. pose proof (parse_unary_hd61 (2 * length (61%N :: t) + 3) t) as PU.
  destruct (parse_unary (2 * length (61%N :: t) + 3) (61%N :: t)) as [x| | |]; [exfalso; exact (PU x eq_refl) | | |]; discriminate.
Qed.

(* ---------- spans ---------- *)
Lemma span_sp_stop w z t : white w -> is_sp z = false -> span is_sp (w ++ z :: t) = (length w, z :: t).
Proof.
  intros W Z. induction w as [|y w IH]; cbn [app span length]; [rewrite Z; reflexivity|].
  destruct (white_cons _ _ W) as [S Ww]. unfold is_sp at 1. rewrite S. rewrite (IH Ww). reflexivity.
Qed.

Lemma span_sp_end w : white w -> span is_sp w = (length w, []).
Proof. intros W. apply span_all. apply white_forallb_sp. exact W. Qed.

Definition hd_ok (p : N -> bool) (r : str) : Prop := match r with z :: _ => p z = false | [] => True end.

Lemma span_sp_stop' w r : white w -> hd_ok is_sp r -> span is_sp (w ++ r) = (length w, r).
Proof.
  intros W H. destruct r as [|z t]; [rewrite app_nil_r; apply span_sp_end; exact W | apply span_sp_stop; assumption].
Qed.

Lemma span_word_stop nm r : forallb is_word_u nm = true -> hd_ok is_word_u r -> span is_word_u (nm ++ r) = (length nm, r).
Proof.
  intros F H. induction nm as [|y nm IH]; cbn [app span length forallb] in *.
  - destruct r as [|z t]; [reflexivity|]. cbn [span]. cbn [hd_ok] in H. rewrite H. reflexivity.
  - apply andb_true_iff in F. destruct F as [F1 F2]. rewrite F1, (IH F2). reflexivity.
Qed.

Lemma span_cmWs s : span cmWs s = span is_sp s. Proof. apply span_ext. exact cmWs_is. Qed.
Lemma span_cmWord s : span cmWord s = span is_word_u s. Proof. apply span_ext. exact cmWord_is. Qed.

Lemma word61 : is_word_u 61 = false. Proof. vm_compute. reflexivity. Qed.

(* ---------- the assignment regex, read directly up to its `=` ---------- *)
Lemma A_assign_read w1 y nm w2 r k : white w1 -> idstart y = true -> forallb is_word_u nm = true -> white w2 ->
  hd_ok is_word_u (w2 ++ r) -> hd_ok is_sp r ->
  (forall q z t c, is_sp z = true \/ is_word_u z = true -> k q (z :: t) c = MNo) ->
  ev UC A_assign 0 (w1 ++ y :: nm ++ w2 ++ r) [] k
  = k (length w1 + 1 + length nm + length w2) r (cap_set 1 (length w1, length w1 + 1 + length nm) []).
Proof.
  intros W1 Y NM W2 H1 H2 K. unfold A_assign. rewrite ev_cat, ev_bol. cbn [Nat.eqb]. rewrite ev_cat.
  unfold rsp at 1. rewrite (ev_star UC _ _ (one_in UC false _)). fold cmWs.
  assert (Ysp : is_sp y = false).
  { destruct (is_sp y) eqn:E; [|reflexivity]. unfold is_sp in E. rewrite (idstart_not_space y E) in Y. discriminate. }
  rewrite star_bt_longest.
  2:{ right. intros q z t c Sz. rewrite cmWs_is in Sz. rewrite ev_cat, ev_group, ev_cat.
      rewrite (ev_one UC _ _ (one_in UC false _)). fold idstart. rewrite (idstart_not_space z Sz). reflexivity. }
  rewrite span_cmWs, (span_sp_stop w1 y _ W1 Ysp). cbn [fst snd].
  rewrite ev_cat, ev_group, ev_cat. rewrite (ev_one UC _ _ (one_in UC false _)). fold idstart. rewrite Y.
  rewrite (ev_star UC _ _ (one_in UC false _)). fold cmWord.
  rewrite star_bt_longest.
  2:{ right. intros q z t c Wz. rewrite cmWord_is in Wz. unfold rsp. rewrite (ev_star UC _ _ (one_in UC false _)). fold cmWs.
      cbn [star_bt]. rewrite cmWs_is. unfold is_sp. change (is_space UC z) with (is_space_u z). rewrite (word_not_space z Wz).
      apply K. right. exact Wz. }
  rewrite span_cmWord, (span_word_stop nm (w2 ++ r) NM H1). cbn [fst snd].
  unfold rsp. rewrite (ev_star UC _ _ (one_in UC false _)). fold cmWs.
  rewrite star_bt_longest.
  2:{ right. intros q z t c Sz. rewrite cmWs_is in Sz. apply K. left. exact Sz. }
  rewrite span_cmWs, (span_sp_stop' w2 r W2 H2). cbn [fst snd].
  f_equal; [lia | f_equal; f_equal; lia].
Qed.

Lemma kA_refuses q z t c : is_sp z = true \/ is_word_u z = true -> ev UC T_assign q (z :: t) c kfin = MNo.
Proof.
  intros H. rewrite kA_read. destruct (z =? 61)%N eqn:E; [|reflexivity]. apply N.eqb_eq in E. subst z.
  destruct H as [H|H]; [unfold is_sp in H; rewrite sp61 in H | rewrite word61 in H]; discriminate.
Qed.

Lemma rxm_assign_read w1 y nm w2 r : white w1 -> idstart y = true -> forallb is_word_u nm = true -> white w2 ->
  hd_ok is_word_u (w2 ++ r) -> hd_ok is_sp r ->
  rxm R_SCRIPT_ASSIGNMENT (w1 ++ y :: nm ++ w2 ++ r)
  = ev UC T_assign (length w1 + 1 + length nm + length w2) r (cap_set 1 (length w1, length w1 + 1 + length nm) []) kfin.
Proof.
  intros. unfold rxm. rewrite re_match_ev, (ev_cut_at 3 _ _ _ cut_assign).
  apply (A_assign_read w1 y nm w2 r (fun p r c => ev UC T_assign p r c kfin)); try assumption.
  intros q z t c Hz. apply kA_refuses. exact Hz.
Qed.

(* ---------- captured texts by position ---------- *)
Lemma sub_list_at (a m b : str) : sub_list (a ++ m ++ b) (length a) (length m) = m.
Proof.
  unfold sub_list. rewrite skipn_app, Nat.sub_diag, skipn_all. cbn [app skipn].
  rewrite firstn_app, Nat.sub_diag, firstn_all. cbn [firstn]. apply app_nil_r.
Qed.

Lemma sub_list_tail (a t : str) k n : k + n = length t -> sub_list (a ++ t) (length a + k) n = skipn k t.
Proof.
  intros E. unfold sub_list. rewrite skipn_app. replace (length a + k - length a) with k by lia.
  rewrite (skipn_all2 (n := length a + k) a) by lia. cbn [app]. apply firstn_all2. rewrite skipn_length. lia.
Qed.

Lemma span_prefix_white : forall s, white (firstn (fst (span is_sp s)) s).
Proof.
  induction s as [|y t IH]; cbn [span]; [apply white_nil|]. destruct (is_sp y) eqn:E.
  - destruct (span is_sp t) as [n r]. cbn [fst firstn] in *. intros c [<-|I]; [exact E | exact (IH c I)].
  - cbn [fst firstn]. apply white_nil.
Qed.

Lemma parse_lstrip T e : parse_expression T = EOk e -> parse_expression (snd (span is_sp T)) = EOk e /\ snd (span is_sp T) <> [].
Proof.
  intros H. pose proof (span_app is_sp T) as SA. pose proof (span_prefix_white T) as PW.
  remember (firstn (fst (span is_sp T)) T) as w eqn:Ew. remember (snd (span is_sp T)) as T' eqn:ET. clear Ew ET. subst T.
  split.
  - pose proof (parse_expression_ws_full w T' PW) as R. rewrite H in R.
    destruct (parse_expression T'); cbn [eres_ws] in R; try contradiction. subst. reflexivity.
  - intros ->. rewrite app_nil_r in H. exact (parse_white_not_ok w e PW H).
Qed.

(* ====================================================== assignment *)
Theorem classify_assign_shape n w1 name w2 T e : white w1 -> white w2 -> ident name = true -> nolf T ->
  parse_expression T = EOk e -> classify n (w1 ++ name ++ w2 ++ 61%N :: T) = ROk (KAssign name e).
Proof.
  intros W1 W2 ID NT PT. destruct name as [|y nm]; [discriminate|]. cbn [ident] in ID. apply andb_true_iff in ID. destruct ID as [Y NM].
  destruct (parse_lstrip T e PT) as [PT' NE'].
  assert (TN : T <> []) by (intros ->; apply NE'; reflexivity).
  set (p := length w1 + 1 + length nm + length w2).
  set (c1 := cap_set 1 (length w1, length w1 + 1 + length nm) []).
  assert (E : rxm R_SCRIPT_ASSIGNMENT (w1 ++ (y :: nm) ++ w2 ++ 61%N :: T)
              = MYes (S p + length T) (cap_set 2 (S p + estart T, S p + length T) c1)).
  { cbn [app]. rewrite (rxm_assign_read w1 y nm w2 (61%N :: T) W1 Y NM W2).
    - fold p c1. rewrite kA_read. rewrite N.eqb_refl. apply tailE_read; assumption.
    - destruct w2 as [|z w2']; cbn [app hd_ok]; [exact word61|]. destruct (white_cons _ _ W2) as [S _]. exact (space_not_word z S).
    - exact sp61. }
  unfold classify. rewrite E. cbn [app] in *.
  assert (ES : estart T = fst (span is_sp T)).
  { unfold estart. destruct (snd (span is_sp T)); [congruence | reflexivity]. }
  assert (G2 : gtext (w1 ++ y :: nm ++ w2 ++ 61%N :: T) (cap_set 2 (S p + estart T, S p + length T) c1) R_SCRIPT_ASSIGNMENT__expr
               = snd (span is_sp T)).
  { unfold gtext, group_text. change R_SCRIPT_ASSIGNMENT__expr with 2. cbn [cap_get cap_set Nat.eqb].
    replace (w1 ++ y :: nm ++ w2 ++ 61%N :: T) with ((w1 ++ y :: nm ++ w2 ++ [61%N]) ++ T)
      by (rewrite <- !app_assoc; cbn [app]; rewrite <- !app_assoc; reflexivity).
    replace (S p + estart T) with (length (w1 ++ y :: nm ++ w2 ++ [61%N]) + estart T)
      by (subst p; rewrite !app_length; cbn [length]; rewrite !app_length; cbn [length]; lia).
    replace (S p + length T - (length (w1 ++ y :: nm ++ w2 ++ [61%N]) + estart T)) with (length T - estart T)
      by (subst p; rewrite !app_length; cbn [length]; rewrite !app_length; cbn [length]; lia).
    pose proof (span_length is_sp T) as SL.
    rewrite sub_list_tail by (rewrite ES; lia). rewrite ES. symmetry. apply span_skipn. }
  assert (G1 : gtext (w1 ++ y :: nm ++ w2 ++ 61%N :: T) (cap_set 2 (S p + estart T, S p + length T) c1) R_SCRIPT_ASSIGNMENT__name
               = y :: nm).
  { unfold gtext, group_text. change R_SCRIPT_ASSIGNMENT__name with 1. subst c1. cbn [cap_get cap_set Nat.eqb].
    replace (length w1 + 1 + length nm - length w1) with (length (y :: nm)) by (cbn [length]; lia).
    change (w1 ++ y :: nm ++ w2 ++ 61%N :: T) with (w1 ++ (y :: nm) ++ (w2 ++ 61%N :: T)). apply sub_list_at. }
  cbv zeta. rewrite G2, G1. unfold stmt_expr. rewrite PT'. reflexivity.
Qed.

(* ====================================================== if / elif / while:  ^\s*KW\s+(.+)\s*:\s*$  *)
Definition plus_sp : regex := RRep 1 None (RIn false [CCat CatSpace]).
Definition TAILC : regex := RCat rsp (RCat (RLit 58) (RCat rsp REol)).
Definition kwc_re (kw : str) : regex :=
  RCat RBol (RCat rsp (lits kw (RCat plus_sp (RCat (RGroup 1 (RRep 1 None RAny)) TAILC)))).

Lemma shape_if : R_SCRIPT_IF_BEGIN = kwc_re [105; 102]%N. Proof. reflexivity. Qed.
Lemma shape_elif : R_SCRIPT_IF_ELSE_IF = kwc_re [101; 108; 105; 102]%N. Proof. reflexivity. Qed.
Lemma shape_while : R_SCRIPT_WHILE_BEGIN = kwc_re [119; 104; 105; 108; 101]%N. Proof. reflexivity. Qed.

Lemma ev_lits kw tail : forall p r c k, ev UC (lits kw tail) p (kw ++ r) c k = ev UC tail (p + length kw) r c k.
Proof.
  induction kw as [|x kw IH]; intros p r c k; cbn [lits app length].
  - rewrite Nat.add_0_r. reflexivity.
  - rewrite ev_cat. cbn [ev]. rewrite N.eqb_refl. rewrite IH. f_equal. lia.
Qed.

Lemma lits_refuse x kw tail p z t c k : z <> x -> ev UC (lits (x :: kw) tail) p (z :: t) c k = MNo.
Proof. intros NE. cbn [lits]. rewrite ev_cat. cbn [ev]. destruct (z =? x)%N eqn:E; [apply N.eqb_eq in E; congruence | reflexivity]. Qed.

Lemma sp58 : is_space UC 58 = false. Proof. vm_compute. reflexivity. Qed.
Lemma white_not58 y u : white (y :: u) -> (y =? 58)%N = false.
Proof.
  intros W. destruct (white_cons _ _ W) as [S _]. destruct (y =? 58)%N eqn:E; [|reflexivity].
  apply N.eqb_eq in E. subst. rewrite sp58 in S. discriminate.
Qed.

Lemma KC_colon p w4 c : white w4 -> ev UC TAILC p (58%N :: w4) c kfin = MYes (S p + length w4) c.
Proof.
  intros W. unfold TAILC. rewrite ev_cat. unfold rsp at 1. rewrite (ev_star UC _ _ (one_in UC false _)). fold cmWs.
  cbn [star_bt]. rewrite cmWs_is. unfold is_sp. rewrite sp58. rewrite ev_cat. rewrite (ev_one UC _ _ (one_lit UC 58)).
  rewrite N.eqb_refl. rewrite ev_eol_tail, (white_forallb_sp w4 W). reflexivity.
Qed.

Lemma KC_white p u c : white u -> ev UC TAILC p u c kfin = MNo.
Proof.
  intros W. unfold TAILC. rewrite ev_cat. unfold rsp at 1. rewrite (ev_star UC _ _ (one_in UC false _)). fold cmWs.
  rewrite star_bt_longest.
  - rewrite span_cmWs, (span_sp_end u W). cbn [fst snd]. rewrite ev_cat. rewrite (ev_one UC _ _ (one_lit UC 58)). reflexivity.
  - right. intros q y t c' Sy. rewrite cmWs_is in Sy. rewrite ev_cat. rewrite (ev_one UC _ _ (one_lit UC 58)).
    destruct (y =? 58)%N eqn:E; [|reflexivity]. apply N.eqb_eq in E. subst y. unfold is_sp in Sy. rewrite sp58 in Sy. discriminate.
Qed.

Lemma star_bt_all_no p K : forall b pos c,
  (forall b1 b2, b = b1 ++ b2 -> b1 <> [] -> K (pos + length b1) b2 c = MNo) -> star_bt p K pos b c = K pos b c.
Proof.
  induction b as [|y t IH]; intros pos c H; [reflexivity|]. cbn [star_bt]. destruct (p y); [|reflexivity].
  rewrite IH.
  - pose proof (H [y] t eq_refl ltac:(discriminate)) as E2. cbn [length] in E2. replace (pos + 1) with (S pos) in E2 by lia.
    rewrite E2. reflexivity.
  - intros b1 b2 E NE. specialize (H (y :: b1) b2). cbn [app length] in H. replace (S pos + length b1) with (pos + S (length b1)) by lia.
    apply H; [rewrite E; reflexivity | discriminate].
Qed.

Lemma star_bt_back p K : forall a pos c b, forallb p a = true -> K (pos + length a) b c <> MNo ->
  (forall b1 b2, b = b1 ++ b2 -> b1 <> [] -> K (pos + length a + length b1) b2 c = MNo) ->
  star_bt p K pos (a ++ b) c = K (pos + length a) b c.
Proof.
  induction a as [|y a IH]; intros pos c b F OK H; cbn [app length] in *.
  - rewrite Nat.add_0_r in *. apply star_bt_all_no. exact H.
  - apply andb_true_iff in F. destruct F as [F1 F2]. cbn [star_bt]. rewrite F1.
    replace (pos + S (length a)) with (S pos + length a) in * by lia.
    rewrite (IH (S pos) c b F2 OK H). destruct (K (S pos + length a) b c); [congruence | reflexivity | reflexivity].
Qed.

Lemma is_suffix_white (b1 b2 w : str) y : y :: w = b1 ++ b2 -> b1 <> [] -> white w -> white b2.
Proof.
  intros E NE W. destruct b1 as [|z b1']; [congruence|]. cbn [app] in E. inversion E; subst.
  intros c I. apply W. apply in_or_app. right. exact I.
Qed.

Theorem rxm_kwc k0 kw w1 z2 w2 x T' w4 : is_sp k0 = false -> white w1 -> white (z2 :: w2) -> is_sp x = false -> nolf (x :: T') ->
  white w4 ->
  rxm (kwc_re (k0 :: kw)) (w1 ++ (k0 :: kw) ++ (z2 :: w2) ++ (x :: T') ++ 58%N :: w4)
  = MYes (length w1 + length (k0 :: kw) + length (z2 :: w2) + length (x :: T') + S (length w4))
         (cap_set 1 (length w1 + length (k0 :: kw) + length (z2 :: w2),
                     length w1 + length (k0 :: kw) + length (z2 :: w2) + length (x :: T')) []).
Proof.
  intros K0 W1 W2 X NT W4. unfold rxm. rewrite re_match_ev. unfold kwc_re. rewrite ev_cat, ev_bol. cbn [Nat.eqb]. rewrite ev_cat.
  unfold rsp at 1. rewrite (ev_star UC _ _ (one_in UC false _)). fold cmWs.
  rewrite star_bt_longest.
  2:{ right. intros q z t c Sz. rewrite cmWs_is in Sz. apply lits_refuse. intros ->. congruence. }
  rewrite span_cmWs. rewrite (span_sp_stop' w1 _ W1) by (cbn [app hd_ok]; exact K0). cbn [fst snd].
  rewrite ev_lits. rewrite ev_cat. unfold plus_sp. rewrite (ev_plus UC _ _ (one_in UC false _)). fold cmWs.
  cbn [app]. rewrite cmWs_is. destruct (white_cons _ _ W2) as [S2 W2']. unfold is_sp at 1. rewrite S2.
  set (p2 := length w1 + length (k0 :: kw) + length (z2 :: w2)).
  set (K := fun (p : nat) (r : str) (c : caps) => ev UC (RCat (RGroup 1 (RRep 1 None RAny)) TAILC) p r c kfin).
  assert (V : K p2 (x :: T' ++ 58%N :: w4) [] = MYes (p2 + length (x :: T') + S (length w4)) (cap_set 1 (p2, p2 + length (x :: T')) [])).
  { subst K. cbv beta. rewrite ev_cat, ev_group. rewrite (ev_plus UC _ _ (one_any UC)).
    unfold nolf in NT. cbn [forallb] in NT. apply andb_true_iff in NT. destruct NT as [N1 N2]. unfold notLF in N1. rewrite N1.
    change (fun y : N => negb (y =? 10)%N) with notLF.
    rewrite star_bt_back; [| exact N2 | |].
    - rewrite KC_colon by exact W4. cbn [length]. f_equal; [lia | f_equal; f_equal; lia].
    - rewrite KC_colon by exact W4. discriminate.
    - intros b1 b2 E NE. apply KC_white. exact (is_suffix_white b1 b2 w4 _ E NE W4). }
  rewrite star_bt_longest; rewrite span_cmWs, (span_sp_stop' w2 (x :: T' ++ 58%N :: w4) W2' X); cbn [fst snd].
  - change (fun (p : nat) (r' : str) (c' : caps) => ev UC (RCat (RGroup 1 (RRep 1 None RAny)) TAILC) p r' c' kfin) with K.
    replace (S (0 + length w1 + length (k0 :: kw)) + length w2) with p2 by (subst p2; cbn [length]; lia).
    rewrite V. f_equal; subst p2; lia.
  - left. change (fun (p : nat) (r' : str) (c' : caps) => ev UC (RCat (RGroup 1 (RRep 1 None RAny)) TAILC) p r' c' kfin) with K.
    replace (S (0 + length w1 + length (k0 :: kw)) + length w2) with p2 by (subst p2; cbn [length]; lia).
    rewrite V. discriminate.
Qed.

Lemma gtext_kwc (w1 kwd ws2 T rest : str) :
  gtext (w1 ++ kwd ++ ws2 ++ T ++ rest)
        (cap_set 1 (length w1 + length kwd + length ws2, length w1 + length kwd + length ws2 + length T) []) 1 = T.
Proof.
  unfold gtext, group_text. cbn [cap_get cap_set Nat.eqb].
  replace (length w1 + length kwd + length ws2 + length T - (length w1 + length kwd + length ws2)) with (length T) by lia.
  replace (w1 ++ kwd ++ ws2 ++ T ++ rest) with ((w1 ++ kwd ++ ws2) ++ T ++ rest) by (rewrite <- !app_assoc; reflexivity).
  replace (length w1 + length kwd + length ws2) with (length (w1 ++ kwd ++ ws2)) by (rewrite !app_length; lia).
  apply sub_list_at.
Qed.

(* the assignment regex does not match  KW <white> T...  when T does not start with `=` *)
Lemma assign_nomatch_kw w1 y nm z2 w2 x r : white w1 -> idstart y = true -> forallb is_word_u nm = true -> white (z2 :: w2) ->
  is_sp x = false -> x <> 61%N -> rxm R_SCRIPT_ASSIGNMENT (w1 ++ (y :: nm) ++ (z2 :: w2) ++ x :: r) = MNo.
Proof.
  intros W1 Y NM W2 X NE. change (w1 ++ (y :: nm) ++ (z2 :: w2) ++ x :: r) with (w1 ++ y :: nm ++ (z2 :: w2) ++ x :: r).
  rewrite (rxm_assign_read w1 y nm (z2 :: w2) (x :: r) W1 Y NM W2).
  - rewrite kA_read. destruct (x =? 61)%N eqn:E; [apply N.eqb_eq in E; congruence | reflexivity].
  - cbn [app hd_ok]. destruct (white_cons _ _ W2) as [S _]. exact (space_not_word z2 S).
  - exact X.
Qed.

Lemma tok_nomatch R B w1 y t : R = RCat RBol (RCat rsp B) -> tok_ok B = true -> white w1 -> rejects R y = true ->
  rxm R (w1 ++ y :: t) = MNo.
Proof. intros E T W RJ. rewrite (rxm_tok R B w1 (y :: t) E T W), (rxm_rejects R y t RJ). reflexivity. Qed.

Lemma parse_nil_not_ok e : parse_expression [] <> EOk e.
Proof. exact (parse_white_not_ok [] e white_nil). Qed.

Section KwShapes.
Variables (n : nat) (w1 w2 T w4 : str) (e : expr).
Hypothesis W1 : white w1.
Hypothesis W2 : white w2.
Hypothesis N2 : w2 <> [].
Hypothesis W4 : white w4.
Hypothesis NT : nolf T.
Hypothesis HT : hd_ok is_sp T.
Hypothesis PT : parse_expression T = EOk e.

Theorem classify_if_shape : classify n (w1 ++ [105; 102]%N ++ w2 ++ T ++ 58%N :: w4) = ROk (KIf e).
Proof.
  destruct w2 as [|z2 w2']; [congruence|]. destruct T as [|x T']; [exfalso; exact (parse_nil_not_ok e PT)|]. cbn [hd_ok] in HT.
  assert (X61 : x <> 61%N) by (intros ->; exact (parse_hd_noeq T' e PT)).
  pose proof (assign_nomatch_kw w1 105 [102]%N z2 w2' x (T' ++ 58%N :: w4) W1 eq_refl eq_refl W2 HT X61) as EA.
  pose proof (rxm_kwc 105 [102]%N w1 z2 w2' x T' w4 eq_refl W1 W2 HT NT W4) as EI. rewrite <- shape_if in EI.
  pose proof (gtext_kwc w1 [105; 102]%N (z2 :: w2') (x :: T') (58%N :: w4)) as GT.
  cbn [app] in *.
  assert (EB : rxm R_SCRIPT_FUNCTION_BEGIN (w1 ++ 105%N :: 102%N :: z2 :: w2' ++ x :: T' ++ 58%N :: w4) = MNo)
    by (apply fn_begin_nomatch; [exact W1 | apply rxm_rejects; reflexivity]).
  assert (EC : rxm R_SCRIPT_FUNCTION_END (w1 ++ 105%N :: 102%N :: z2 :: w2' ++ x :: T' ++ 58%N :: w4) = MNo)
    by (eapply tok_nomatch; [reflexivity | reflexivity | exact W1 | reflexivity]).
  unfold classify. rewrite EA, EB, EC, EI. change R_SCRIPT_IF_BEGIN__expr with 1. rewrite GT.
  unfold stmt_expr. rewrite PT. reflexivity.
Qed.

Theorem classify_elif_shape : classify n (w1 ++ [101; 108; 105; 102]%N ++ w2 ++ T ++ 58%N :: w4) = ROk (KElif (ROk e)).
Proof.
  destruct w2 as [|z2 w2']; [congruence|]. destruct T as [|x T']; [exfalso; exact (parse_nil_not_ok e PT)|]. cbn [hd_ok] in HT.
  assert (X61 : x <> 61%N) by (intros ->; exact (parse_hd_noeq T' e PT)).
  pose proof (assign_nomatch_kw w1 101 [108; 105; 102]%N z2 w2' x (T' ++ 58%N :: w4) W1 eq_refl eq_refl W2 HT X61) as EA.
  pose proof (rxm_kwc 101 [108; 105; 102]%N w1 z2 w2' x T' w4 eq_refl W1 W2 HT NT W4) as EI. rewrite <- shape_elif in EI.
  pose proof (gtext_kwc w1 [101; 108; 105; 102]%N (z2 :: w2') (x :: T') (58%N :: w4)) as GT.
  cbn [app] in *.
  set (t0 := 105%N :: 102%N :: z2 :: w2' ++ x :: T' ++ 58%N :: w4) in *.
  assert (EB : rxm R_SCRIPT_FUNCTION_BEGIN (w1 ++ 101%N :: 108%N :: t0) = MNo)
    by (apply fn_begin_nomatch; [exact W1 | apply rxm_rejects; reflexivity]).
  assert (EC : rxm R_SCRIPT_FUNCTION_END (w1 ++ 101%N :: 108%N :: t0) = MNo).
  { rewrite (rxm_tok R_SCRIPT_FUNCTION_END _ w1 _ eq_refl eq_refl W1).
    assert (Z : rxm R_SCRIPT_FUNCTION_END (101%N :: 108%N :: t0) = MNo) by (unfold rxm; rewrite re_match_ev; vm_compute; reflexivity).
    rewrite Z. reflexivity. }
  assert (ED : rxm R_SCRIPT_IF_BEGIN (w1 ++ 101%N :: 108%N :: t0) = MNo)
    by (eapply tok_nomatch; [reflexivity | reflexivity | exact W1 | reflexivity]).
  unfold classify. rewrite EA, EB, EC, ED, EI. change R_SCRIPT_IF_ELSE_IF__expr with 1. rewrite GT.
  unfold stmt_expr. rewrite PT. reflexivity.
Qed.

Theorem classify_while_shape : classify n (w1 ++ [119; 104; 105; 108; 101]%N ++ w2 ++ T ++ 58%N :: w4) = ROk (KWhile e).
Proof.
  destruct w2 as [|z2 w2']; [congruence|]. destruct T as [|x T']; [exfalso; exact (parse_nil_not_ok e PT)|]. cbn [hd_ok] in HT.
  assert (X61 : x <> 61%N) by (intros ->; exact (parse_hd_noeq T' e PT)).
  pose proof (assign_nomatch_kw w1 119 [104; 105; 108; 101]%N z2 w2' x (T' ++ 58%N :: w4) W1 eq_refl eq_refl W2 HT X61) as EA.
  pose proof (rxm_kwc 119 [104; 105; 108; 101]%N w1 z2 w2' x T' w4 eq_refl W1 W2 HT NT W4) as EI. rewrite <- shape_while in EI.
  pose proof (gtext_kwc w1 [119; 104; 105; 108; 101]%N (z2 :: w2') (x :: T') (58%N :: w4)) as GT.
  cbn [app] in *.
  set (t0 := 104%N :: 105%N :: 108%N :: 101%N :: z2 :: w2' ++ x :: T' ++ 58%N :: w4) in *.
  assert (EB : rxm R_SCRIPT_FUNCTION_BEGIN (w1 ++ 119%N :: t0) = MNo)
    by (apply fn_begin_nomatch; [exact W1 | apply rxm_rejects; reflexivity]).
  assert (E1 : rxm R_SCRIPT_FUNCTION_END (w1 ++ 119%N :: t0) = MNo) by (eapply tok_nomatch; [reflexivity | reflexivity | exact W1 | reflexivity]).
  assert (E2 : rxm R_SCRIPT_IF_BEGIN (w1 ++ 119%N :: t0) = MNo) by (eapply tok_nomatch; [reflexivity | reflexivity | exact W1 | reflexivity]).
  assert (E3 : rxm R_SCRIPT_IF_ELSE_IF (w1 ++ 119%N :: t0) = MNo) by (eapply tok_nomatch; [reflexivity | reflexivity | exact W1 | reflexivity]).
  assert (E4 : rxm R_SCRIPT_IF_ELSE (w1 ++ 119%N :: t0) = MNo) by (eapply tok_nomatch; [reflexivity | reflexivity | exact W1 | reflexivity]).
  assert (E5 : rxm R_SCRIPT_IF_END (w1 ++ 119%N :: t0) = MNo) by (eapply tok_nomatch; [reflexivity | reflexivity | exact W1 | reflexivity]).
  unfold classify. rewrite EA, EB, E1, E2, E3, E4, E5, EI. change R_SCRIPT_WHILE_BEGIN__expr with 1. rewrite GT.
  unfold stmt_expr. rewrite PT. reflexivity.
Qed.
End KwShapes.

(* ====================================================== the relation between two layouts of the same statement *)
Definition KW_IF : str := [105; 102]%N.
Definition KW_ELIF : str := [101; 108; 105; 102]%N.
Definition KW_WHILE : str := [119; 104; 105; 108; 101]%N.

(* stmt_spaced k l1 l2 : l1 and l2 consist of the same pieces (they determine the kind k), with arbitrary white runs at the
   places where the statement regex has `\s*` (possibly empty) or `\s+` (non-empty), and expression texts related by
   C10tokSpaced.spaced (the same tokens, arbitrary white runs between them, arbitrary trailing run) *)
Inductive stmt_spaced : line_kind -> str -> str -> Prop :=
| ss_assign w1 w2 v1 v2 name T1 T2 e :
    white w1 -> white w2 -> white v1 -> white v2 -> ident name = true -> nolf T1 -> nolf T2 ->
    spaced T1 T2 -> parse_expression T1 = EOk e ->
    stmt_spaced (KAssign name e) (w1 ++ name ++ w2 ++ 61%N :: T1) (v1 ++ name ++ v2 ++ 61%N :: T2)
| ss_if w1 w2 w4 v1 v2 v4 T1 T2 e :
    white w1 -> white w2 -> w2 <> [] -> white w4 -> white v1 -> white v2 -> v2 <> [] -> white v4 -> nolf T1 -> nolf T2 ->
    hd_ok is_sp T1 -> hd_ok is_sp T2 -> spaced T1 T2 -> parse_expression T1 = EOk e ->
    stmt_spaced (KIf e) (w1 ++ KW_IF ++ w2 ++ T1 ++ 58%N :: w4) (v1 ++ KW_IF ++ v2 ++ T2 ++ 58%N :: v4)
| ss_elif w1 w2 w4 v1 v2 v4 T1 T2 e :
    white w1 -> white w2 -> w2 <> [] -> white w4 -> white v1 -> white v2 -> v2 <> [] -> white v4 -> nolf T1 -> nolf T2 ->
    hd_ok is_sp T1 -> hd_ok is_sp T2 -> spaced T1 T2 -> parse_expression T1 = EOk e ->
    stmt_spaced (KElif (ROk e)) (w1 ++ KW_ELIF ++ w2 ++ T1 ++ 58%N :: w4) (v1 ++ KW_ELIF ++ v2 ++ T2 ++ 58%N :: v4)
| ss_while w1 w2 w4 v1 v2 v4 T1 T2 e :
    white w1 -> white w2 -> w2 <> [] -> white w4 -> white v1 -> white v2 -> v2 <> [] -> white v4 -> nolf T1 -> nolf T2 ->
    hd_ok is_sp T1 -> hd_ok is_sp T2 -> spaced T1 T2 -> parse_expression T1 = EOk e ->
    stmt_spaced (KWhile e) (w1 ++ KW_WHILE ++ w2 ++ T1 ++ 58%N :: w4) (v1 ++ KW_WHILE ++ v2 ++ T2 ++ 58%N :: v4).

Theorem stmt_spaced_classify n k l1 l2 : stmt_spaced k l1 l2 -> classify n l1 = ROk k /\ classify n l2 = ROk k.
Proof.
  intros S. destruct S.
  - split; apply classify_assign_shape; try assumption. eapply spaced_parse; eassumption.
  - split; apply classify_if_shape; try assumption. eapply spaced_parse; eassumption.
  - split; apply classify_elif_shape; try assumption. eapply spaced_parse; eassumption.
  - split; apply classify_while_shape; try assumption. eapply spaced_parse; eassumption.
Qed.

Lemma stmt_spaced_sym k l1 l2 : stmt_spaced k l1 l2 -> stmt_spaced k l2 l1.
Proof.
  intros S. destruct S.
  - apply ss_assign; try assumption; [apply sp_sym; assumption | eapply spaced_parse; eassumption].
  - apply ss_if; try assumption; [apply sp_sym; assumption | eapply spaced_parse; eassumption].
  - apply ss_elif; try assumption; [apply sp_sym; assumption | eapply spaced_parse; eassumption].
  - apply ss_while; try assumption; [apply sp_sym; assumption | eapply spaced_parse; eassumption].
Qed.

(* ---------- non-vacuity ---------- *)
Lemma spaced_small : spaced (U "a<1") (U "a <  1 ").
Proof.
  pose proof (whiteb_white [] eq_refl) as W0. pose proof (whiteb_white (U " ") eq_refl) as W1.
  pose proof (whiteb_white (U "  ") eq_refl) as W2.
  pose proof (sp_end _ _ W0 W1) as Hend.
  pose proof (sp_num (U "1") _ _ _ _ W0 W2 eq_refl Hend) as H1.
  pose proof (sp_bin (U "<") _ _ _ _ W0 W1 ltac:(vm_compute; tauto) H1) as H2.
  pose proof (sp_var (U "a") _ _ _ _ W0 W0 eq_refl H2) as H3.
  exact H3.
Qed.

Lemma stmt_spaced_examples :
  exists e, parse_expression (U "a<1") = EOk e /\
    stmt_spaced (KAssign (U "x1") e) (U "x1=a<1") (U " x1\000009 =  a <  1 ") /\
    stmt_spaced (KIf e) (U "if a<1:") (U "  if \000009a <  1 : ") /\
    stmt_spaced (KElif (ROk e)) (U "elif a<1:") (U "elif  a <  1 :") /\
    stmt_spaced (KWhile e) (U "while a<1:") (U "\000009while a <  1 :  ").
Proof.
  pose proof (whiteb_white [] eq_refl) as W0. pose proof (whiteb_white (U " ") eq_refl) as W1.
  pose proof (whiteb_white (U "  ") eq_refl) as W2. pose proof (whiteb_white (U "\000009") eq_refl) as WT.
  pose proof (whiteb_white (U "\000009 ") eq_refl) as WT1. pose proof (whiteb_white (U " \000009") eq_refl) as W1T.
  assert (PE : exists e, parse_expression (U "a<1") = EOk e) by (eexists; vm_compute; reflexivity).
  destruct PE as (e & PE). exists e. split; [exact PE|].
  split; [|split; [|split]].
  - change (U "x1=a<1") with ([] ++ U "x1" ++ [] ++ 61%N :: U "a<1").
    change (U " x1\000009 =  a <  1 ") with (U " " ++ U "x1" ++ U "\000009 " ++ 61%N :: U "  a <  1 ").
    apply ss_assign; try assumption; try reflexivity.
    change (U "  a <  1 ") with (U "  " ++ U "a" ++ U " <  1 ").
    change (U "a<1") with ([] ++ U "a" ++ U "<1").
    pose proof (sp_end _ _ W0 W1) as Hend.
    pose proof (sp_num (U "1") _ _ _ _ W0 W2 eq_refl Hend) as H1.
    pose proof (sp_bin (U "<") _ _ _ _ W0 W1 ltac:(vm_compute; tauto) H1) as H2.
    exact (sp_var (U "a") _ _ _ _ W0 W2 eq_refl H2).
  - change (U "if a<1:") with ([] ++ KW_IF ++ U " " ++ U "a<1" ++ 58%N :: []).
    change (U "  if \000009a <  1 : ") with (U "  " ++ KW_IF ++ U " \000009" ++ U "a <  1 " ++ 58%N :: U " ").
    apply ss_if; try assumption; try reflexivity; try discriminate. exact spaced_small.
  - change (U "elif a<1:") with ([] ++ KW_ELIF ++ U " " ++ U "a<1" ++ 58%N :: []).
    change (U "elif  a <  1 :") with ([] ++ KW_ELIF ++ U "  " ++ U "a <  1 " ++ 58%N :: []).
    apply ss_elif; try assumption; try reflexivity; try discriminate. exact spaced_small.
  - change (U "while a<1:") with ([] ++ KW_WHILE ++ U " " ++ U "a<1" ++ 58%N :: []).
    change (U "\000009while a <  1 :  ") with (U "\000009" ++ KW_WHILE ++ U " " ++ U "a <  1 " ++ 58%N :: U "  ").
    apply ss_while; try assumption; try reflexivity; try discriminate. exact spaced_small.
Qed.
