(* Proofs/C10parseNoeq.v — an expression text that ENDS with `=` never parses:

     parse_ok_noeq :  parse_expression t = EOk e  ->  noeq_end t.

   (Needed by the trailing-white-space theorem of classify: `x =` is not an assignment but `x =  ` is one — with the
   expression ` ` — so "the assignment regex does not match" is only stable under appended white space for lines that do
   not end with `=`; every line that classifies successfully is such a line, because its expression part parsed.)
   Proof: the remaining text of every parser function still ends with `=` (or the function fails): a token regex whose
   last character cannot be `=` (RegexTrail3.lasts) stops before the final `=`; the binary-operator regex may consume it
   (`<=`, `==`, ...) but is followed by parse_unary, which fails on the empty text; the final strip() is then not empty. *)
From Coq Require Import Lia.
From BS Require Import Model.Base Model.Num Model.Regex Model.NumText Model.ExprParser Model.Script Gen.Unicode Gen.Regexes
  Proofs.BaseFacts Proofs.RegexFacts Proofs.RegexComplete Proofs.RegexShift Proofs.RegexEval Proofs.C10ws Proofs.C10tokSpaced
  Proofs.RegexTrail Proofs.C10tokTrail Proofs.RegexTrail2 Proofs.RegexTrail3 Proofs.C10stmtTrail.

Definition ends61 (t : str) : Prop := exists pre, t = pre ++ [61%N].
Definition ends61' (t : str) : Prop := t = [] \/ ends61 t.

Lemma ends61_skipn e t : ends61 t -> ends61' (skipn e t).
Proof.
  intros (pre & ->). destruct (le_lt_dec e (length pre)) as [L|L].
  - right. exists (skipn e pre). rewrite skipn_app. replace (e - length pre) with 0 by lia. reflexivity.
  - left. apply skipn_all2. rewrite app_length. cbn [length]. lia.
Qed.

Definition no61 (R : regex) : bool := forallb (fun a => negb (atom_ok UC a 61%N)) (lasts R).

Lemma rx_rest_noeq R t e c : rx R t = MYes e c -> no61 R = true -> ends61 t -> ends61 (skipn e t).
Proof.
  intros H NA (pre & ->). unfold rx in H. apply re_match_sound in H.
  destruct (Nat.eq_dec e 0) as [->|NZ]; [exists pre; reflexivity|].
  destruct (Matches_last _ _ _ _ _ _ H ltac:(lia)) as (y & a & N1 & I1 & A1).
  assert (Y : y <> 61%N).
  { intros ->. unfold no61 in NA. rewrite forallb_forall in NA. specialize (NA a I1). rewrite A1 in NA. discriminate. }
  assert (B : e - 1 < length (pre ++ [61%N])) by (apply nth_error_Some; congruence).
  rewrite app_length in B. cbn [length] in B.
  assert (e - 1 <> length pre).
  { intros E. rewrite E, nth_error_last_app in N1. congruence. }
  exists (skipn e pre). rewrite skipn_app. replace (e - length pre) with 0 by lia. reflexivity.
Qed.

Lemma parse_unary_nil f : forall x, parse_unary f [] <> POk x.
Proof. intros x. destruct f as [|f]; [discriminate|]. vm_compute. discriminate. Qed.

Lemma rx_nil_close : rx R_EXPR_FUNCTION_CLOSE [] = MNo. Proof. vm_compute. reflexivity. Qed.
Lemma rx_nil_sep : rx R_EXPR_FUNCTION_SEPARATOR [] = MNo. Proof. vm_compute. reflexivity. Qed.

Lemma parser_noeq : forall fuel,
  (forall t left e rest, parse_binary fuel t left = POk (e, rest) ->
     match left with None => ends61' t | Some _ => ends61 t end -> ends61 rest) /\
  (forall t e rest, parse_unary fuel t = POk (e, rest) -> ends61' t -> ends61 rest) /\
  (forall t rv l rest, parse_args fuel t rv = POk (l, rest) -> ends61' t -> ends61 rest).
Proof.
  induction fuel as [|f (IHb & IHu & IHa)]; [repeat split; intros; discriminate|].
  split; [|split].
  - (* parse_binary *)
    intros t left e rest H E. cbn [parse_binary] in H.
    assert (G : exists l bt, (match left with Some l0 => POk (l0, t) | None => parse_unary f t end) = POk (l, bt) /\ ends61 bt /\
              match rx R_EXPR_BINARY_OP bt with
              | MFuel => PFuel
              | MNo => POk (l, bt)
              | MYes e0 c =>
                match parse_unary f (skipn e0 bt) with
                | POk (right_expr, next_text) => parse_binary f next_text (Some (insert l (grp bt c 1) right_expr))
                | PErr msg n => PErr msg n | PHost w => PHost w | PFuel => PFuel
                end
              end = POk (e, rest)).
    { destruct left as [l0|].
      - exists l0, t. split; [reflexivity|]. split; [exact E | exact H].
      - destruct (parse_unary f t) as [[l bt]| | |] eqn:PU; try discriminate H.
        exists l, bt. split; [reflexivity|]. split; [exact (IHu _ _ _ PU E) | exact H]. }
    destruct G as (l & bt & _ & Eb & H'). clear H.
    destruct (rx R_EXPR_BINARY_OP bt) as [|e0 c|]; [| |discriminate].
    + inversion H'; subst. exact Eb.
    + destruct (parse_unary f (skipn e0 bt)) as [[r nt]| | |] eqn:PU; try discriminate H'.
      pose proof (IHu _ _ _ PU (ends61_skipn e0 bt Eb)) as En.
      exact (IHb _ _ _ _ H' En).
  - (* parse_unary *)
    intros t e rest H E. destruct E as [->|E]; [exfalso; exact (parse_unary_nil (S f) _ H)|].
    cbn [parse_unary] in H.
    destruct (rx R_EXPR_GROUP_OPEN t) as [|e0 c0|] eqn:R1; [| |discriminate].
    2:{ destruct (parse_binary f (skipn e0 t) None) as [[ex nt]| | |] eqn:PB; try discriminate H.
        pose proof (IHb _ _ _ _ PB (ends61_skipn e0 t E)) as En.
        destruct (rx R_EXPR_GROUP_CLOSE nt) as [|e2 c2|] eqn:R2; try discriminate H.
        inversion H; subst. exact (rx_rest_noeq _ _ _ _ R2 eq_refl En). }
    destruct (rx R_EXPR_UNARY_OP t) as [|e0 c0|] eqn:R2; [| |discriminate].
    2:{ destruct (parse_unary f (skipn e0 t)) as [[ex nt]| | |] eqn:PU; try discriminate H.
        inversion H; subst. exact (IHu _ _ _ PU (ends61_skipn e0 t E)). }
    destruct (rx R_EXPR_FUNCTION_OPEN t) as [|e0 c0|] eqn:R3; [| |discriminate].
    2:{ destruct (parse_args f (skipn e0 t) []) as [[args rs]| | |] eqn:PA; try discriminate H.
        inversion H; subst. exact (IHa _ _ _ _ PA (ends61_skipn e0 t E)). }
    destruct (rx R_EXPR_NUMBER t) as [|e0 c0|] eqn:R4; [| |discriminate].
    2:{ destruct (py_float (grp t c0 1)); try discriminate H. inversion H; subst. exact (rx_rest_noeq _ _ _ _ R4 eq_refl E). }
    destruct (rx R_EXPR_STRING t) as [|e0 c0|] eqn:R5; [| |discriminate].
    2:{ destruct (unescape R_EXPR_STRING_ESCAPE (grp t c0 1)); try discriminate H. inversion H; subst.
        exact (rx_rest_noeq _ _ _ _ R5 eq_refl E). }
    destruct (rx R_EXPR_STRING_DOUBLE t) as [|e0 c0|] eqn:R6; [| |discriminate].
    2:{ destruct (unescape R_EXPR_STRING_DOUBLE_ESCAPE (grp t c0 1)); try discriminate H. inversion H; subst.
        exact (rx_rest_noeq _ _ _ _ R6 eq_refl E). }
    destruct (rx R_EXPR_VARIABLE t) as [|e0 c0|] eqn:R7; [| |discriminate].
    2:{ inversion H; subst. exact (rx_rest_noeq _ _ _ _ R7 eq_refl E). }
    destruct (rx R_EXPR_VARIABLE_EX t) as [|e0 c0|] eqn:R8; [discriminate| |discriminate].
    destruct (unescape R_EXPR_VARIABLE_EX_ESCAPE (grp t c0 1)); try discriminate H. inversion H; subst.
    exact (rx_rest_noeq _ _ _ _ R8 eq_refl E).
  - (* parse_args *)
    intros t rv l rest H E. cbn [parse_args] in H.
    destruct (rx R_EXPR_FUNCTION_CLOSE t) as [|e0 c0|] eqn:R1; [| |discriminate].
    2:{ inversion H; subst. destruct E as [->|E]; [rewrite rx_nil_close in R1; discriminate|].
        exact (rx_rest_noeq _ _ _ _ R1 eq_refl E). }
    assert (G : exists t', ends61' t' /\
              match parse_binary f t' None with
              | POk (a, next) => parse_args f next (a :: rv)
              | PErr msg n => PErr msg n | PHost w => PHost w | PFuel => PFuel
              end = POk (l, rest)).
    { destruct rv as [|a0 rv'].
      - exists t. split; [exact E | exact H].
      - destruct (rx R_EXPR_FUNCTION_SEPARATOR t) as [|e0 c0|] eqn:R2; try discriminate H.
        exists (skipn e0 t). split; [|exact H].
        destruct E as [->|E]; [rewrite rx_nil_sep in R2; discriminate | exact (ends61_skipn e0 t E)]. }
    destruct G as (t' & E' & H'). clear H.
    destruct (parse_binary f t' None) as [[a nt]| | |] eqn:PB; try discriminate H'.
    pose proof (IHb _ _ _ _ PB E') as En.
    exact (IHa _ _ _ _ H' (or_intror En)).
Qed.

Lemma sp61u : is_space_u 61 = false. Proof. vm_compute. reflexivity. Qed.

Theorem parse_ok_noeq t e : parse_expression t = EOk e -> noeq_end t.
Proof.
  intros H pre E. unfold parse_expression in H.
  destruct (parse_binary (expr_fuel t) t None) as [[ex nt]| | |] eqn:PB; try discriminate H.
  destruct (parser_noeq (expr_fuel t)) as (IHb & _ & _).
  assert (En : ends61 nt) by (apply (IHb _ _ _ _ PB); right; exists pre; exact E).
  destruct En as (q & ->).
  destruct (lstrip_cases (q ++ [61%N])) as [[_ W]|(w & c & r & E2 & Ww & C & _)].
  - assert (I : In 61%N (q ++ [61%N])) by (apply in_or_app; right; left; reflexivity).
    pose proof (W _ I) as S. rewrite sp61 in S. discriminate.
  - rewrite E2 in H. pose proof (strip_nonwhite w c r Ww C) as NS. destruct (strip (w ++ c :: r)); [congruence | discriminate].
Qed.

(* a white text is not an expression *)
Lemma parse_white_not_ok w e : white w -> parse_expression w <> EOk e.
Proof.
  intros W H. change w with ([] ++ w) in H. rewrite (parse_expression_trail [] w W) in H. vm_compute in H. discriminate.
Qed.
