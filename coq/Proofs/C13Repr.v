(* Proofs/C13Repr.v — the model's repr(float) (Model/LibMore.v repr_float: shortest round-trip digits, CPython's layout)
   reads back, through the model's float() (Model/Num.v py_float), as the same double.  This discharges, for the MODEL's
   repr, the contract that Section CPython of Proofs/C13.v takes as hypotheses.

     1. [short_digits_sound]   the digits accepted by short_digits convert (dec_to_sf) to the double they were made for:
                               a candidate is accepted only after that very test, and stripping trailing zeros keeps the
                               rational d * 10^k (Proofs/C13Ratio.v: dec_to_sf depends on the value only);
     2. [repr_layout_shape]    each of the four layouts is a text of the repr grammar (ReprG) and float() reads it as
                               d * 10^k  (up to a power of ten moved between mantissa and exponent);
     3. [repr_float_roundtrip], [repr_float_cleanup_roundtrip]   the round trip, plain and through value_string's clean-up.
   No validity hypothesis is needed here: acceptance is by construction.  Totality (some candidate IS accepted, at 17
   digits at the latest) is Proofs/C13Total.v. *)
From Coq Require Import Lia ZifyBool SpecFloat.
From BS Require Import Model.Base Model.Num Model.Regex Model.NumText Model.Arith Model.LibMore Gen.Unicode
  Proofs.BaseFacts Proofs.FloatFacts Proofs.FloatRound Proofs.C13 Proofs.C13Ratio.
Local Open Scope Z_scope.

(* ================================================================== 1. the accepted digits read back *)
Lemma sf_eqb_eq a b : sf_eqb a b = true -> a = b.
Proof.
  destruct a as [s|s| |s m e], b as [s'|s'| |s' m' e']; cbn; try discriminate; intros H.
  - apply Bool.eqb_prop in H. subst. reflexivity.
  - apply Bool.eqb_prop in H. subst. reflexivity.
  - reflexivity.
  - apply andb_true_iff in H. destruct H as [H H3]. apply andb_true_iff in H. destruct H as [H1 H2].
    apply Bool.eqb_prop in H1. apply Pos.eqb_eq in H2. apply Z.eqb_eq in H3. subst. reflexivity.
Qed.

Lemma strip_zeros_sound neg fuel : forall d k d' k', 0 <= d -> strip_zeros_Z fuel d k = (d', k') ->
  0 <= d' /\ dec_to_sf neg d' k' = dec_to_sf neg d k.
Proof.
  induction fuel as [|f IH]; intros d k d' k' Hd H; cbn [strip_zeros_Z] in H.
  - injection H as <- <-. split; [exact Hd|reflexivity].
  - destruct ((d mod 10 =? 0) && negb (d =? 0)) eqn:C.
    + assert (M : d mod 10 = 0) by lia.
      assert (E : d = d / 10 * 10 ^ 1) by (pose proof (Z.div_mod d 10 ltac:(lia)); lia).
      assert (Hq : 0 <= d / 10) by (apply Z.div_pos; lia).
      destruct (IH (d / 10) (k + 1) d' k' Hq H) as [P Q]. split; [exact P|]. rewrite Q.
      rewrite E at 2. replace k with (k + 1 - 1) at 2 by lia. symmetry. apply dec_to_sf_shift; lia.
    + injection H as <- <-. split; [exact Hd|reflexivity].
Qed.

Lemma accept_sound c k m e d k' : 0 <= c ->
  sf_eqb (dec_to_sf false c k) (S754_finite false m e) = true -> strip_zeros_Z 20 c k = (d, k') ->
  0 <= d /\ dec_to_sf false d k' = S754_finite false m e.
Proof.
  intros Hc A S. apply sf_eqb_eq in A. destruct (strip_zeros_sound false 20 c k d k' Hc S) as [P Q].
  split; [exact P|]. rewrite Q. exact A.
Qed.

Lemma short_digits_from_step todo n m e E :
  short_digits_from (S todo) n m e E =
    let k := E - (n - 1) in
    let num := (if 0 <=? e then Zpos m * 2 ^ e else Zpos m) * (if 0 <=? k then 1 else 10 ^ (- k)) in
    let den := (if 0 <=? e then 1 else 2 ^ (- e)) * (if 0 <=? k then 10 ^ k else 1) in
    let lo := num / den in
    let r := num mod den in
    let me := S754_finite false m e in
    let ok_lo := sf_eqb (dec_to_sf false lo k) me in
    let ok_hi := negb (r =? 0) && sf_eqb (dec_to_sf false (lo + 1) k) me in
    if ok_lo && ok_hi then
      (if 2 * r <? den then Some (strip_zeros_Z 20 lo k) else if den <? 2 * r then Some (strip_zeros_Z 20 (lo + 1) k)
       else Some (strip_zeros_Z 20 (if Z.even lo then lo else lo + 1) k))
    else if ok_lo then Some (strip_zeros_Z 20 lo k)
    else if ok_hi then Some (strip_zeros_Z 20 (lo + 1) k)
    else short_digits_from todo (n + 1) m e E.
Proof. reflexivity. Qed.

(* numerator and denominator of m * 2^e / 10^k *)
Lemma frac_signs (m : positive) e k :
  0 < (if 0 <=? e then Zpos m * 2 ^ e else Zpos m) * (if 0 <=? k then 1 else 10 ^ (- k)) /\
  0 < (if 0 <=? e then 1 else 2 ^ (- e)) * (if 0 <=? k then 10 ^ k else 1).
Proof.
  destruct (Z.leb_spec 0 e), (Z.leb_spec 0 k);
    repeat match goal with
           | |- context [2 ^ ?x] => let P := fresh "P" in assert (P : 0 < 2 ^ x) by (apply pow2_pos; lia); set (2 ^ x) in *
           | |- context [10 ^ ?x] => let P := fresh "P" in assert (P : 0 < 10 ^ x) by (apply pow10_pos; lia); set (10 ^ x) in *
           end; split; nia.
Qed.

Lemma Some_inj {A} (a b : A) : Some a = Some b -> a = b.
Proof. intros H. inversion H. reflexivity. Qed.

Lemma short_digits_from_sound todo : forall n m e E d k, short_digits_from todo n m e E = Some (d, k) ->
  0 <= d /\ dec_to_sf false d k = S754_finite false m e.
Proof.
  induction todo as [|t IH]; intros n m e E d k H; [discriminate|].
  rewrite short_digits_from_step in H. cbv zeta in H.
  set (k0 := E - (n - 1)) in *.
  destruct (frac_signs m e k0) as [Pn Pd].
  set (num := (if 0 <=? e then Zpos m * 2 ^ e else Zpos m) * (if 0 <=? k0 then 1 else 10 ^ (- k0))) in *.
  set (den := (if 0 <=? e then 1 else 2 ^ (- e)) * (if 0 <=? k0 then 10 ^ k0 else 1)) in *.
  assert (Hlo : 0 <= num / den) by (apply Z.div_pos; lia).
  set (lo := num / den) in *. set (r := num mod den) in *. clearbody lo r num den.
  destruct (sf_eqb (dec_to_sf false lo k0) (S754_finite false m e)) eqn:OL;
    destruct (negb (r =? 0) && sf_eqb (dec_to_sf false (lo + 1) k0) (S754_finite false m e)) eqn:OH;
    cbn [andb] in H.
  - apply andb_true_iff in OH. destruct OH as [_ OH].
    assert (Hhi : 0 <= lo + 1) by lia.
    destruct (2 * r <? den); [|destruct (den <? 2 * r); [|destruct (Z.even lo)]];
      apply Some_inj in H.
    + exact (accept_sound lo k0 m e d k Hlo OL H).
    + exact (accept_sound (lo + 1) k0 m e d k Hhi OH H).
    + exact (accept_sound lo k0 m e d k Hlo OL H).
    + exact (accept_sound (lo + 1) k0 m e d k Hhi OH H).
  - apply Some_inj in H. exact (accept_sound lo k0 m e d k Hlo OL H).
  - apply andb_true_iff in OH. destruct OH as [_ OH]. apply Some_inj in H.
    exact (accept_sound (lo + 1) k0 m e d k ltac:(lia) OH H).
  - apply (IH _ _ _ _ _ _ H).
Qed.

Theorem short_digits_sound m e d k : short_digits m e = Some (d, k) ->
  0 < d /\ dec_to_sf false d k = S754_finite false m e.
Proof.
  intros H. destruct (short_digits_from_sound _ _ _ _ _ _ _ H) as [P Q]. split; [|exact Q].
  destruct (Z.eq_dec d 0) as [Z|NZ]; [|lia]. subst d. rewrite dec_to_sf_zero in Q. discriminate.
Qed.

(* ================================================================== 2. the layouts *)
Lemma dval_app a b : dval (a ++ b) = dval a * 10 ^ len b + dval b.
Proof. unfold dval at 1. unfold dacc. rewrite fold_left_app. fold (dacc 0 a). fold (dval a). fold (dacc (dval a) b). apply dacc_split. Qed.

Lemma len_app a b : len (a ++ b) = len a + len b.
Proof. unfold len. rewrite app_length. lia. Qed.

Lemma zeros_all_d n : all_d (repeat 48%N n) = true.
Proof. induction n; [reflexivity|]. cbn [repeat]. apply all_d_cons. split; [reflexivity|exact IHn]. Qed.
Lemma zeros_dval n : dval (repeat 48%N n) = 0.
Proof. apply dval_all_zero. induction n; [reflexivity|]. cbn. exact IHn. Qed.
Lemma zeros_len n : len (repeat 48%N n) = Z.of_nat n.
Proof. unfold len. rewrite repeat_length. reflexivity. Qed.

Lemma all_d_firstn n ds : all_d ds = true -> all_d (firstn n ds) = true.
Proof. intros H. rewrite <- (firstn_skipn n ds) in H. apply all_d_app in H. tauto. Qed.
Lemma all_d_skipn n ds : all_d ds = true -> all_d (skipn n ds) = true.
Proof. intros H. rewrite <- (firstn_skipn n ds) in H. apply all_d_app in H. tauto. Qed.

Lemma Z_to_str_nonneg z : 0 <= z -> exists ds, Z_to_str z = ds /\ ds <> [] /\ all_d ds = true /\ dval ds = z.
Proof.
  intros H. destruct z as [|p|p]; [|apply N_to_str_spec|lia].
  exists [48%N]. repeat split; try reflexivity. discriminate.
Qed.

(* what float() reads, with any conversion of the same rational *)
Definition reads_as (neg : bool) (d k : Z) (s : str) : Prop :=
  exists j, 0 <= j /\ (j = 0 \/ j = k + 1) /\ py_dec s = Some (neg, PDec (d * 10 ^ j) (k - j)).

Lemma reads_as_0 neg d k s m e : py_dec s = Some (neg, PDec m e) -> m = d -> e = k -> reads_as neg d k s.
Proof. intros H -> ->. exists 0. split; [lia|]. split; [left; reflexivity|]. rewrite H, Z.pow_0_r, Z.mul_1_r, Z.sub_0_r. reflexivity. Qed.

Theorem repr_layout_shape neg d k : 0 < d -> ReprG (repr_layout neg d k) /\ reads_as neg d k (repr_layout neg d k).
Proof.
  intros Hd. unfold repr_layout.
  destruct (Z_to_str_nonneg d ltac:(lia)) as (ds & -> & NE & AD & DV).
  fold (len ds). set (n := len ds). set (decpt := n + k).
  assert (Hn : 1 <= n) by (unfold n, len; destruct ds; [congruence|cbn [length]; lia]).
  change (if neg then [45%N] else []) with (sgn neg).
  destruct ((decpt <=? -4) || (16 <? decpt)) eqn:EXP.
  - (* exponent form *)
    destruct ds as [|d0 F]; [congruence|]. pose proof AD as AD'. apply all_d_cons in AD'. destruct AD' as [Hd0 DF].
    set (ex := decpt - 1).
    destruct (Z_to_str_nonneg (Z.abs ex) ltac:(lia)) as (exd & -> & NEe & ADe & DVe).
    set (E' := match exd with [_] => 48%N :: exd | _ => exd end).
    assert (PE : all_d E' = true /\ E' <> [] /\ dval E' = Z.abs ex /\ (2 <= length E')%nat).
    { unfold E'. destruct exd as [|x [|y t]]; [congruence| |].
      - repeat split; [apply all_d_cons; split; [reflexivity|exact ADe]|discriminate| |cbn; lia].
        rewrite <- DVe. reflexivity.
      - repeat split; auto. cbn [length]. lia. }
    destruct PE as (ADE & NEE & DVE & LE).
    set (es := if ex <? 0 then 45%N else 43%N).
    assert (Hes : is_sign es = true) by (unfold es; destruct (ex <? 0); reflexivity).
    assert (EQ : firstn 1 (d0 :: F) ++ match skipn 1 (d0 :: F) with [] => [] | _ :: _ => 46%N :: skipn 1 (d0 :: F) end ++ [101%N; es] ++ E'
                 = d0 :: frac F ++ 101%N :: es :: E').
    { cbn [firstn skipn app]. destruct F; reflexivity. }
    match goal with |- ReprG (sgn neg ++ ?b) /\ _ => replace b with (d0 :: frac F ++ 101%N :: es :: E') end.
    2:{ rewrite <- EQ. cbn [firstn skipn]. destruct F; reflexivity. }
    split; [apply RG_exp; auto|].
    apply (reads_as_0 _ _ _ _ _ _ (py_dec_exp neg d0 F es E' Hd0 DF Hes ADE NEE)).
    + rewrite <- DV. change (d0 :: F) with ([d0] ++ F). rewrite dval_app. reflexivity.
    + unfold exp_val. rewrite DVE. unfold es, n, len in *. cbn [length] in *.
      destruct (Z.ltb_spec ex 0); cbn [N.eqb Pos.eqb]; unfold ex, decpt in *; lia.
  - destruct (Z.leb_spec decpt 0) as [L0|G0].
    + (* 0.000ddd *)
      set (zs := repeat 48%N (Z.to_nat (- decpt))).
      change ([48%N; 46%N] ++ zs ++ ds) with ([48%N] ++ 46%N :: (zs ++ ds)).
      assert (ADF : all_d (zs ++ ds) = true) by (apply all_d_app; split; [apply zeros_all_d|exact AD]).
      split.
      * apply RG_pos; auto; try discriminate. destruct zs; [exact NE|discriminate].
      * apply (reads_as_0 _ _ _ _ _ _ (py_dec_pos neg [48%N] (zs ++ ds) ltac:(discriminate) eq_refl ADF)).
        -- rewrite dval_app. unfold zs. rewrite zeros_dval. change (dval [48%N]) with 0. lia.
        -- rewrite len_app. unfold zs. rewrite zeros_len. fold n. lia.
    + destruct (Z.leb_spec n decpt) as [Ln|Gn].
      * (* ddd000.0 *)
        set (zs := repeat 48%N (Z.to_nat (decpt - n))).
        replace (ds ++ zs ++ [46%N; 48%N]) with ((ds ++ zs) ++ 46%N :: [48%N]) by (rewrite <- app_assoc; reflexivity).
        assert (ADI : all_d (ds ++ zs) = true) by (apply all_d_app; split; [exact AD|apply zeros_all_d]).
        assert (NI : ds ++ zs <> []) by (destruct ds; [congruence|discriminate]).
        split; [apply RG_pos; auto; discriminate|].
        exists (k + 1). split; [unfold decpt in *; lia|]. split; [right; reflexivity|].
        rewrite (py_dec_pos neg (ds ++ zs) [48%N] NI ADI eq_refl). do 3 f_equal.
        -- rewrite dval_app. unfold zs. rewrite zeros_dval, zeros_len, DV. change (dval [48%N]) with 0. change (len [48%N]) with 1.
           rewrite Z2Nat.id by lia. replace (decpt - n) with k by (unfold decpt; lia).
           rewrite Z.pow_add_r by (unfold decpt in *; lia). lia.
        -- change (len [48%N]) with 1. lia.
      * (* ddd.ddd *)
        set (p := Z.to_nat decpt).
        change (firstn p ds ++ [46%N] ++ skipn p ds) with (firstn p ds ++ 46%N :: skipn p ds).
        assert (Lp : (0 < p < length ds)%nat) by (unfold p, n, len in *; lia).
        assert (NI : firstn p ds <> []) by (destruct ds; [congruence|]; destruct p; [lia|discriminate]).
        assert (NF : skipn p ds <> []).
        { intros X. pose proof (skipn_length p ds) as SL. rewrite X in SL. cbn in SL. lia. }
        split; [apply RG_pos; auto using all_d_firstn, all_d_skipn|].
        apply (reads_as_0 _ _ _ _ _ _ (py_dec_pos neg (firstn p ds) (skipn p ds) NI (all_d_firstn p ds AD) (all_d_skipn p ds AD))).
        -- rewrite <- dval_app, firstn_skipn. exact DV.
        -- unfold len. rewrite skipn_length. unfold p, n, len, decpt in *. lia.
Qed.

(* float() on a text that reads as d * 10^k *)
Lemma reads_as_float neg d k s : 0 <= d -> reads_as neg d k s -> py_float s = Some (dec_to_sf neg d k).
Proof.
  intros Hd (j & Hj & _ & P). rewrite py_float_factors. unfold float_with. rewrite P. cbn [option_map to_flt].
  rewrite dec_to_sf_shift by lia. reflexivity.
Qed.

Theorem py_float_repr_layout neg d k : 0 < d -> py_float (repr_layout neg d k) = Some (dec_to_sf neg d k).
Proof. intros Hd. apply reads_as_float; [lia|]. apply repr_layout_shape. exact Hd. Qed.

(* the same through value_string's clean-up pass *)
Theorem py_float_cleanup_repr_layout neg d k : 0 < d -> py_float (cleanup (repr_layout neg d k)) = Some (dec_to_sf neg d k).
Proof.
  intros Hd. destruct (repr_layout_shape neg d k Hd) as [G (j & Hj & _ & P)].
  destruct (cleanup_value _ G) as (neg' & m & e & m' & e' & P1 & P2 & _ & q & Hq & Em & Ee).
  rewrite P in P1. injection P1 as <- <- <-.
  assert (Pq : 0 < 10 ^ q) by (apply pow10_pos; lia). assert (Pj : 0 < 10 ^ j) by (apply pow10_pos; lia).
  assert (Hm' : 0 <= m') by nia.
  rewrite py_float_factors. unfold float_with. rewrite P2. cbn [option_map to_flt]. f_equal.
  rewrite <- (dec_to_sf_shift neg m' e' q Hm' Hq), <- Em, <- Ee. apply dec_to_sf_shift; lia.
Qed.

(* ================================================================== 3. the round trip of the model's repr *)
Theorem repr_float_roundtrip f s : repr_float f = ARes s -> py_float s = Some f.
Proof.
  destruct f as [sg|sg| |sg m e]; try discriminate. cbn [repr_float].
  destruct (short_digits m e) as [[d k]|] eqn:S; [|discriminate]. intros H. injection H as <-.
  destruct (short_digits_sound m e d k S) as [Pd R].
  rewrite py_float_repr_layout by exact Pd. f_equal. apply dec_to_sf_sign; [lia|exact R].
Qed.

Theorem repr_float_in_grammar f s : repr_float f = ARes s -> ReprG s.
Proof.
  destruct f as [sg|sg| |sg m e]; try discriminate. cbn [repr_float].
  destruct (short_digits m e) as [[d k]|] eqn:S; [|discriminate]. intros H. injection H as <-.
  destruct (short_digits_sound m e d k S) as [Pd _]. apply repr_layout_shape. exact Pd.
Qed.

Theorem repr_float_cleanup_roundtrip f s : repr_float f = ARes s -> py_float (cleanup s) = Some f.
Proof.
  destruct f as [sg|sg| |sg m e]; try discriminate. cbn [repr_float].
  destruct (short_digits m e) as [[d k]|] eqn:S; [|discriminate]. intros H. injection H as <-.
  destruct (short_digits_sound m e d k S) as [Pd R].
  rewrite py_float_cleanup_repr_layout by exact Pd. f_equal. apply dec_to_sf_sign; [lia|exact R].
Qed.

(* repr_float answers only for finite non-zero doubles *)
Lemma repr_float_finite f s : repr_float f = ARes s -> exists sg m e, f = S754_finite sg m e.
Proof. destruct f as [sg|sg| |sg m e]; try discriminate. intros _. exists sg, m, e. reflexivity. Qed.

(* ================================================================== 4. the boolean recogniser accepts the whole grammar *)
Lemma nd_cons_nondigit c t : is_d c = false -> nd (c :: t) = true.
Proof. intros H. cbn. rewrite H. reflexivity. Qed.

Lemma repr_body_ok_pos I F : I <> [] -> all_d I = true -> F <> [] -> all_d F = true -> repr_body_ok (I ++ 46%N :: F) = true.
Proof.
  intros NI AI NF AF. unfold repr_body_ok. rewrite (span_d_app I (46%N :: F) AI eq_refl).
  destruct I as [|i I']; [congruence|]. cbv iota beta.
  assert (SF : span_d F = (F, [])) by (pose proof (span_d_app F [] AF eq_refl) as X; rewrite app_nil_r in X; exact X).
  rewrite SF. destruct F as [|f F']; [congruence|]. destruct I'; reflexivity.
Qed.

Lemma repr_body_ok_exp d F es E : is_d d = true -> all_d F = true -> is_sign es = true -> all_d E = true -> (2 <= length E)%nat ->
  repr_body_ok (d :: frac F ++ 101%N :: es :: E) = true.
Proof.
  intros Hd AF Hs AE LE.
  assert (X : exp_ok (es :: E) = true).
  { cbn [exp_ok]. unfold is_sign in Hs. rewrite Hs, AE. cbn [andb]. apply Nat.leb_le. exact LE. }
  assert (D1 : all_d [d] = true) by (apply all_d_cons; split; [exact Hd|reflexivity]).
  unfold repr_body_ok. destruct F as [|f F'].
  - cbn [frac app]. change (d :: 101%N :: es :: E) with ([d] ++ 101%N :: es :: E).
    rewrite (span_d_app [d] (101%N :: es :: E) D1 eq_refl). cbv iota beta. exact X.
  - change (d :: frac (f :: F') ++ 101%N :: es :: E) with ([d] ++ 46%N :: (f :: F') ++ 101%N :: es :: E).
    rewrite (span_d_app [d] (46%N :: (f :: F') ++ 101%N :: es :: E) D1 eq_refl). cbv iota beta.
    rewrite (span_d_app (f :: F') (101%N :: es :: E) AF eq_refl). cbv iota beta. cbn [length Nat.eqb andb]. exact X.
Qed.

Theorem repr_ok_complete s : ReprG s -> repr_ok s = true.
Proof.
  intros H. inversion H as [neg I F HI DI HF DF E|neg d F es E Hd DF Hs DE HL Eq]; subst; unfold repr_ok; rewrite neg_match.
  - destruct neg; cbn [sgn app].
    + cbn [N.eqb Pos.eqb]. apply repr_body_ok_pos; auto.
    + destruct I as [|i I']; [congruence|]. cbn [app]. pose proof DI as DI'. apply all_d_cons in DI'. destruct DI' as [Hi _].
      apply is_d_range in Hi. replace (i =? 45)%N with false by lia. apply (repr_body_ok_pos (i :: I') F); auto.
  - destruct neg; cbn [sgn app].
    + cbn [N.eqb Pos.eqb]. apply repr_body_ok_exp; auto.
    + pose proof Hd as Hd'. apply is_d_range in Hd'. replace (d =? 45)%N with false by lia. apply repr_body_ok_exp; auto.
Qed.

Theorem repr_float_repr_ok f s : repr_float f = ARes s -> repr_ok s = true.
Proof. intros H. apply repr_ok_complete. exact (repr_float_in_grammar f s H). Qed.
