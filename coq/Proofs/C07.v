(* Proofs/C07.v — C07: lowered code is well formed.  The invariant of the label/jump lowering over
   Model/Lower.kstep (arbitrary sequences of line kinds, two scopes), lifted to Script.parse_script through
   Proofs/C07eq.pstep_classify.  Ported from the design prototype .scratch/c07.v (abstract labels, single scope)
   to the real model: string labels (injectivity of lbl proved here), option-valued retarget, the frame
   stack split at the function floor. *)
From Coq Require Import Lia ZifyBool Arith.
From BS Require Import Model.Base Model.Regex Model.Num Model.ExprParser Model.Script Model.Lower Proofs.BaseFacts Proofs.C07eq Gen.Regexes Gen.Unicode.

(* ================= A. generated label names are injective ================= *)
Definition dec (l : str) (a : N) : N := fold_left (fun a d => (a * 10 + (d - 48))%N) l a.

Lemma pdf_dec : forall f n acc, (n < 2 ^ N.of_nat f)%N -> dec (pos_digits_fuel f n acc) 0 = dec acc n.
Proof.
  induction f as [|f IH]; intros n acc H.
  - cbn in *. assert (n = 0%N) by lia. subst. reflexivity.
  - rewrite Nat2N.inj_succ, N.pow_succ_r' in H.
    cbn [pos_digits_fuel]. cbv zeta.
    pose proof (N.div_mod' n 10) as DM. pose proof (N.mod_lt n 10 ltac:(lia)) as ML.
    assert (Hq : (n / 10 < 2 ^ N.of_nat f)%N) by (apply N.div_lt_upper_bound; lia).
    set (q := (n / 10)%N) in *. set (d := (n mod 10)%N) in *. clearbody q d.
    destruct (N.eqb_spec q 0) as [E|E].
    + unfold dec. cbn [fold_left]. f_equal. lia.
    + rewrite IH.
      * unfold dec. cbn [fold_left]. f_equal. lia.
      * exact Hq.
Qed.

Lemma N_to_str_dec n : dec (N_to_str n) 0 = n.
Proof.
  unfold N_to_str. rewrite pdf_dec; [reflexivity|].
  rewrite Nat2N.inj_succ, N2Nat.id.
  destruct (N.eq_dec n 0) as [->|Hn]; [cbn; lia|].
  apply N.log2_spec. lia.
Qed.

Lemma nat_to_str_inj a b : nat_to_str a = nat_to_str b -> a = b.
Proof.
  unfold nat_to_str. intros H. apply (f_equal (fun s => dec s 0)) in H.
  rewrite !N_to_str_dec in H. lia.
Qed.

Inductive lkind := KdIf | KdDone | KdLoop | KdCont.
Definition pfx (k : lkind) : str :=
  match k with KdIf => L_If | KdDone => L_Done | KdLoop => L_Loop | KdCont => L_Continue end.
Definition glbl (k : lkind) (n : nat) : str := lbl (pfx k) n.

Lemma pfx_disjoint k k' x y : pfx k ++ x = pfx k' ++ y -> k = k'.
Proof. destruct k, k'; intros H; try reflexivity; cbv in H; discriminate. Qed.

Lemma glbl_inj k n k' n' : glbl k n = glbl k' n' -> k = k' /\ n = n'.
Proof.
  unfold glbl, lbl. intros H. pose proof (pfx_disjoint _ _ _ _ H) as ->.
  apply app_inv_head in H. apply nat_to_str_inj in H. auto.
Qed.

Lemma glbl_reserved k n : reserved (glbl k n) = true.
Proof. destruct k; reflexivity. Qed.
Arguments glbl : simpl never.
Arguments reserved : simpl never.

(* ================= B. counting definitions and references ================= *)
Lemma str_eqb_spec a b : reflect (a = b) (str_eqb a b).
Proof. destruct (str_eqb a b) eqn:E; constructor; [apply str_eqb_eq, E | apply str_eqb_neq, E]. Qed.

Lemma defs_app l a b : defs l (a ++ b) = defs l a + defs l b.
Proof. induction a; cbn; lia. Qed.
Lemma refs_app l a b : refs l (a ++ b) = refs l a + refs l b.
Proof. induction a; cbn; lia. Qed.

Lemma retarget_S p d s c : retarget (S p) d (s :: c) = option_map (cons s) (retarget p d c).
Proof. destruct s; reflexivity. Qed.
Lemma retarget_0 d s c : retarget 0 d (s :: c) = match s with SJump _ cnd => Some (SJump d cnd :: c) | _ => None end.
Proof. destruct s; reflexivity. Qed.
Lemma retarget_nil p d : retarget p d [] = None.
Proof. destruct p; reflexivity. Qed.

Lemma retarget_defs l d : forall c pos c', retarget pos d c = Some c' -> defs l c' = defs l c.
Proof.
  induction c as [|s c IH]; intros [|p] c' H; rewrite ?retarget_nil, ?retarget_S, ?retarget_0 in H; try discriminate.
  - destruct s; try discriminate. injection H as <-. reflexivity.
  - destruct (retarget p d c) as [c0|] eqn:E; [|discriminate]. injection H as <-. cbn. erewrite IH; eauto.
Qed.

Lemma retarget_refs d p cnd : forall c pos c', nth_error c pos = Some (SJump p cnd) -> retarget pos d c = Some c' ->
  forall l, refs l c' + (if str_eqb l p then 1 else 0) = refs l c + (if str_eqb l d then 1 else 0).
Proof.
  induction c as [|s c IH]; intros [|n] c' H R l; rewrite ?retarget_nil, ?retarget_S, ?retarget_0 in R; cbn in H; try discriminate.
  - injection H as ->. injection R as <-. cbn. lia.
  - destruct (retarget n d c) as [c0|] eqn:E; [|discriminate]. injection R as <-. cbn.
    specialize (IH n c0 H E l). lia.
Qed.

Lemma retarget_some d p cnd : forall c pos, nth_error c pos = Some (SJump p cnd) -> exists c', retarget pos d c = Some c'.
Proof.
  induction c as [|s c IH]; intros [|n] H; cbn in H; try discriminate.
  - injection H as ->. cbn. eauto.
  - rewrite retarget_S. destruct (IH n H) as [c' ->]. cbn. eauto.
Qed.

Lemma retarget_nth_other d : forall c pos c' pos', retarget pos d c = Some c' -> pos' <> pos -> nth_error c' pos' = nth_error c pos'.
Proof.
  induction c as [|s c IH]; intros [|p] c' [|p'] H Hne; rewrite ?retarget_nil, ?retarget_S, ?retarget_0 in H; try discriminate; try lia.
  - destruct s; try discriminate. injection H as <-. reflexivity.
  - destruct (retarget p d c) as [c0|] eqn:E; [|discriminate]. injection H as <-. reflexivity.
  - destruct (retarget p d c) as [c0|] eqn:E; [|discriminate]. injection H as <-. cbn. eapply IH; eauto.
Qed.

Lemma retarget_refs_other d p cnd c pos c' l : nth_error c pos = Some (SJump p cnd) -> retarget pos d c = Some c' ->
  l <> p -> l <> d -> refs l c' = refs l c.
Proof.
  intros H R H1 H2. pose proof (retarget_refs d p cnd c pos c' H R l) as E.
  destruct (str_eqb_spec l p); [congruence|]. destruct (str_eqb_spec l d); [congruence|]. lia.
Qed.

(* function bodies occurring in a statement list *)
Definition fbodies (c : list stmt) : list (list stmt) :=
  flat_map (fun s => match s with SFunction _ _ _ _ b => [b] | _ => [] end) c.
Lemma fbodies_app a b : fbodies (a ++ b) = fbodies a ++ fbodies b.
Proof. apply flat_map_app. Qed.
Lemma retarget_fbodies d : forall c pos c', retarget pos d c = Some c' -> fbodies c' = fbodies c.
Proof.
  induction c as [|s c IH]; intros [|p] c' H; rewrite ?retarget_nil, ?retarget_S, ?retarget_0 in H; try discriminate.
  - destruct s; try discriminate. injection H as <-. reflexivity.
  - destruct (retarget p d c) as [c0|] eqn:E; [|discriminate]. injection H as <-.
    unfold fbodies in *. cbn. erewrite IH; eauto.
Qed.

(* ================= C. the invariant of one scope ================= *)
Definition owned (f : frame) : list str :=
  match f with
  | FIf _ p d false _ _ => [p; d]
  | FIf _ _ d true _ _ => [d]
  | FWhile l _ d _ _ _ _ => [l; d]
  | FFor l c d _ _ _ _ _ _ _ => [l; c; d]
  end.

Definition fok (o : list stmt) (f : frame) : Prop :=
  match f with
  | FIf pos p d false _ _ => defs d o = 0 /\ defs p o = 0 /\ refs p o = 1 /\ exists cnd, nth_error o pos = Some (SJump p cnd)
  | FIf _ _ d true _ _ => defs d o = 0 /\ 1 <= refs d o
  | FWhile l c d _ _ _ _ => c = l /\ defs l o = 1 /\ defs d o = 0 /\ 1 <= refs d o
  | FFor l c d _ _ _ _ hc _ _ => defs l o = 1 /\ defs d o = 0 /\ 1 <= refs d o /\ defs c o = 0 /\
                                 (if hc then 1 <= refs c o else refs c o = 0)
  end.

Definition closed (o : list stmt) (l : str) : Prop :=
  (defs l o = 1 /\ 1 <= refs l o) \/ (defs l o = 0 /\ refs l o = 0).

Definition allowned (fs : list frame) := flat_map owned fs.

(* l is a generated label with an index below n *)
Definition genlt (n : nat) (l : str) : Prop := exists k m, m < n /\ l = glbl k m.

Record SInv (n : nat) (o : list stmt) (fs : list frame) : Prop := {
  inv_nodup : NoDup (allowned fs);
  inv_fok : Forall (fok o) fs;
  inv_closed : forall l, reserved l = true -> ~ In l (allowned fs) -> closed o l;
  inv_fresh : forall k m, n <= m -> defs (glbl k m) o = 0 /\ refs (glbl k m) o = 0;
  inv_lt : forall l, In l (allowned fs) -> genlt n l }.

Definition untouched (add : list stmt) (l : str) := defs l add = 0 /\ refs l add = 0.

Lemma genlt_reserved n l : genlt n l -> reserved l = true.
Proof. intros (k & m & _ & ->). apply glbl_reserved. Qed.

Lemma fok_app o add f : (forall l, In l (owned f) -> untouched add l) -> fok o f -> fok (o ++ add) f.
Proof.
  intros U H. destruct f as [pos p d [|] ln lno|l c d e hc ln lno|l c d ix vs len v hc ln lno]; cbn in *.
  - destruct (U d (or_introl eq_refl)) as [D R]. rewrite defs_app, refs_app. lia.
  - destruct (U p (or_introl eq_refl)) as [Dp Rp]. destruct (U d (or_intror (or_introl eq_refl))) as [Dd Rd].
    destruct H as (H1 & H2 & H3 & cnd & H4). rewrite !defs_app, !refs_app.
    split; [lia|]. split; [lia|]. split; [lia|]. exists cnd.
    rewrite nth_error_app1; [exact H4|]. apply nth_error_Some. congruence.
  - destruct (U l (or_introl eq_refl)) as [Dl Rl]. destruct (U d (or_intror (or_introl eq_refl))) as [Dd Rd].
    destruct H as (Hc & H). split; [exact Hc|]. rewrite !defs_app, !refs_app. lia.
  - destruct (U l (or_introl eq_refl)) as [Dl Rl]. destruct (U c (or_intror (or_introl eq_refl))) as [Dc Rc].
    destruct (U d (or_intror (or_intror (or_introl eq_refl)))) as [Dd Rd].
    destruct H as (H1 & H2 & H3 & H4 & H5). rewrite !defs_app, !refs_app.
    split; [lia|]. split; [lia|]. split; [lia|]. split; [lia|]. destruct hc; lia.
Qed.

Lemma closed_app o add l : untouched add l -> closed o l -> closed (o ++ add) l.
Proof. intros [D R] H. unfold closed in *. rewrite defs_app, refs_app. lia. Qed.

Lemma fresh_app o add n : (forall k m, n <= m -> defs (glbl k m) o = 0 /\ refs (glbl k m) o = 0) ->
  (forall k m, n <= m -> untouched add (glbl k m)) ->
  forall k m, n <= m -> defs (glbl k m) (o ++ add) = 0 /\ refs (glbl k m) (o ++ add) = 0.
Proof. intros H U k m Hl. destruct (H k m Hl), (U k m Hl). rewrite defs_app, refs_app. lia. Qed.

Ltac lblcases :=
  repeat match goal with
  | |- context [str_eqb ?a ?b] => destruct (str_eqb_spec a b)
  | H : context [str_eqb ?a ?b] |- _ => destruct (str_eqb_spec a b)
  end.
Ltac dgen := repeat match goal with H : genlt _ _ |- _ => destruct H as (? & ? & ? & ?) end.
Ltac inj := repeat match goal with H : glbl _ _ = glbl _ _ |- _ => apply glbl_inj in H; destruct H end.
Ltac ut := unfold untouched; unfold allowned in *; cbn [defs refs d1 r1 app]; lblcases; dgen; subst; inj; subst;
           cbn [In] in *; try lia; try congruence; try solve [intuition congruence].

Lemma In_allowned_cons f fs l : In l (allowned (f :: fs)) <-> In l (owned f) \/ In l (allowned fs).
Proof. unfold allowned; cbn. rewrite in_app_iff. tauto. Qed.
Lemma allowned_app a b : allowned (a ++ b) = allowned a ++ allowned b.
Proof. apply flat_map_app. Qed.

Lemma Forall_fok_app o add fs :
  (forall l, In l (allowned fs) -> untouched add l) -> Forall (fok o) fs -> Forall (fok (o ++ add)) fs.
Proof.
  intros U F. induction F as [|f fs Hf F IH]; constructor.
  - apply fok_app; [|exact Hf]. intros l Hl. apply U. apply In_allowned_cons. auto.
  - apply IH. intros l Hl. apply U. apply In_allowned_cons. auto.
Qed.

(* statements that touch no reserved label (assignments, expressions, returns, includes, functions,
   and user labels/jumps whose name is not reserved) *)
Lemma step_other n o fs add : (forall l, reserved l = true -> untouched add l) -> SInv n o fs -> SInv n (o ++ add) fs.
Proof.
  intros U [N F C Fr L]. constructor; auto.
  - apply Forall_fok_app; [|exact F]. intros l Hl. apply U. eapply genlt_reserved; eauto.
  - intros l Hr Hl. apply closed_app; auto.
  - apply fresh_app; auto. intros. apply U, glbl_reserved.
Qed.

Lemma SInv_mono n n' o fs : n <= n' -> SInv n o fs -> SInv n' o fs.
Proof.
  intros Hn [N F C Fr L]. constructor; auto.
  - intros k m Hm. apply Fr. lia.
  - intros l Hl. destruct (L l Hl) as (k & m & Hm & ->). exists k, m. split; [lia|reflexivity].
Qed.

Lemma SInv_nil n : SInv n [] [].
Proof.
  constructor; cbn.
  - constructor.
  - constructor.
  - intros l _ _. right. auto.
  - auto.
  - tauto.
Qed.

(* replacing the scope's statement list by one with the same counts and the same jumps at the same places *)
Lemma SInv_equiv n o o' fs :
  (forall l, defs l o' = defs l o /\ refs l o' = refs l o) ->
  (forall pos p cnd, nth_error o pos = Some (SJump p cnd) -> nth_error o' pos = Some (SJump p cnd)) ->
  SInv n o fs -> SInv n o' fs.
Proof.
  intros E J [N F C Fr L]. constructor; auto.
  - eapply Forall_impl; [|exact F]. intros f Hf.
    destruct f as [pos p d [|] ln lno|l c d e hc ln lno|l c d ix vs len v hc ln lno]; cbn in *.
    + destruct (E d) as [-> ->]. exact Hf.
    + destruct (E d) as [-> _]. destruct (E p) as [-> ->]. destruct Hf as (H1 & H2 & H3 & cnd & H4).
      split; [auto|]. split; [auto|]. split; [auto|]. exists cnd. auto.
    + destruct (E d) as [-> ->]. destruct (E l) as [-> _]. exact Hf.
    + destruct (E d) as [-> ->]. destruct (E l) as [-> _]. destruct (E c) as [-> ->]. exact Hf.
  - intros l Hr Hl. unfold closed. destruct (E l) as [-> ->]. apply C; auto.
  - intros k m Hm. destruct (E (glbl k m)) as [-> ->]. auto.
Qed.

Lemma step_if n o fs e ln lno : SInv n o fs ->
  SInv (S n) (o ++ [SJump (glbl KdIf n) e]) (FIf (length o) (glbl KdIf n) (glbl KdDone n) false ln lno :: fs).
Proof.
  intros [N F C Fr L].
  constructor.
  - unfold allowned; cbn. constructor; [|constructor]; [| |exact N].
    + intros [E|H]; [apply glbl_inj in E; destruct E; discriminate|]. apply L in H. ut.
    + intros H. apply L in H. ut.
  - constructor.
    + cbn. destruct (Fr KdDone n) as [D1 R1]; [lia|]. destruct (Fr KdIf n) as [D2 R2]; [lia|].
      rewrite !defs_app, !refs_app, D1, D2, R2. cbn. lblcases; try congruence.
      split; [auto|]. split; [auto|]. split; [auto|]. exists e.
      rewrite nth_error_app2 by lia. rewrite Nat.sub_diag. reflexivity.
    + apply Forall_fok_app; [|exact F]. intros l Hl. apply L in Hl. ut.
  - intros l Hr Hl. rewrite In_allowned_cons in Hl. cbn in Hl.
    apply closed_app; [ut | apply C; auto].
  - apply fresh_app; [intros k m Hl; apply Fr; lia | intros k m Hl; ut].
  - intros l Hl. rewrite In_allowned_cons in Hl. cbn in Hl. destruct Hl as [[<-|[<-|[]]]|H].
    + exists KdIf, n. auto.
    + exists KdDone, n. auto.
    + apply L in H. destruct H as (k & m & Hm & ->). exists k, m. auto.
Qed.

Lemma NoDup_app_l {A} (a b : list A) : NoDup (a ++ b) -> NoDup a.
Proof. induction a; cbn; intros H; [constructor|]. inversion H; subst. constructor; [rewrite in_app_iff in *; tauto | auto]. Qed.
Lemma NoDup_app_r {A} (a b : list A) : NoDup (a ++ b) -> NoDup b.
Proof. induction a; cbn; intros H; auto. inversion H; auto. Qed.
Lemma NoDup_app_disj {A} (a b : list A) x : NoDup (a ++ b) -> In x a -> In x b -> False.
Proof. induction a; cbn; intros H Ha Hb; [tauto|]. destruct Ha as [->|Ha]; inversion H; subst; [rewrite in_app_iff in *; tauto | eauto]. Qed.

Lemma genlt_S n l : genlt n l -> genlt (S n) l.
Proof. intros (k & m & Hm & ->). exists k, m. auto. Qed.
Lemma genlt_new k n : genlt (S n) (glbl k n).
Proof. exists k, n. auto. Qed.
Lemma genlt_neq n l k m : genlt n l -> n <= m -> l <> glbl k m.
Proof. intros (k' & m' & Hm & ->) Hn E. apply glbl_inj in E. lia. Qed.

Lemma step_elif n o pos p d ln lno r e : SInv n o (FIf pos p d false ln lno :: r) ->
  SInv (S n) (o ++ [SJump d None; SLabel p; SJump (glbl KdIf n) e]) (FIf (length o + 2) (glbl KdIf n) d false ln lno :: r).
Proof.
  intros [N F C Fr L].
  unfold allowned in N, C, L; cbn in N, C, L.
  assert (Lp : genlt n p) by (apply L; auto).
  assert (Ld : genlt n d) by (apply L; auto).
  inversion N as [|? ? Np N1]; subst. inversion N1 as [|? ? Nd Nr]; subst. cbn in Np.
  inversion F as [|? ? Fp Fr']; subst. cbn in Fp. destruct Fp as (Dd & Dp & Rp & cnd & Hn).
  assert (Hpd : p <> d) by (intros ->; apply Np; auto).
  assert (Hpn : p <> glbl KdIf n) by (eapply genlt_neq; eauto).
  assert (Hdn : d <> glbl KdIf n) by (eapply genlt_neq; eauto).
  constructor.
  - unfold allowned; cbn. constructor; [|constructor]; auto.
    intros [H|H]; [congruence|]. apply (fun h => L _ (or_intror (or_intror h))) in H. eapply genlt_neq in H; eauto.
  - constructor.
    + cbn. destruct (Fr KdIf n) as [D2 R2]; [lia|].
      rewrite !defs_app, !refs_app, Dd, D2, R2. cbn [defs refs d1 r1]. lblcases; try congruence.
      split; [lia|]. split; [lia|]. split; [lia|]. exists e. rewrite nth_error_app2 by lia.
      replace (length o + 2 - length o) with 2 by lia. reflexivity.
    + apply Forall_fok_app; [|exact Fr']. intros l Hl.
      assert (genlt n l) by (apply L; auto).
      assert (l <> glbl KdIf n) by (eapply genlt_neq; eauto).
      assert (l <> p) by (intros ->; apply Np; auto).
      assert (l <> d) by (intros ->; apply Nd; auto).
      unfold untouched. cbn [defs refs d1 r1]. lblcases; try congruence. lia.
  - intros l Hr Hl. unfold allowned in Hl; cbn in Hl.
    destruct (str_eqb_spec l p) as [->|Hlp].
    + left. rewrite defs_app, refs_app, Dp, Rp. cbn [defs refs d1 r1]. lblcases; try congruence. lia.
    + apply closed_app; [|apply C; intuition congruence].
      unfold untouched. cbn [defs refs d1 r1]. lblcases; try congruence; try lia; exfalso; apply Hl; auto.
  - apply fresh_app; [intros k m Hl; apply Fr; lia |]. intros k m Hl.
    assert (p <> glbl k m) by (eapply genlt_neq; eauto; lia).
    assert (d <> glbl k m) by (eapply genlt_neq; eauto; lia).
    unfold untouched. cbn [defs refs d1 r1]. lblcases; try congruence; try lia. inj. lia.
  - intros l Hl. unfold allowned in Hl; cbn in Hl. destruct Hl as [<-|[<-|H]].
    + apply genlt_new.
    + apply genlt_S, Ld.
    + apply genlt_S, L. auto.
Qed.

Lemma step_else n o pos p d ln lno r : SInv n o (FIf pos p d false ln lno :: r) ->
  SInv n (o ++ [SJump d None; SLabel p]) (FIf pos p d true ln lno :: r).
Proof.
  intros [N F C Fr L].
  unfold allowned in N, C, L; cbn in N, C, L.
  assert (Lp : genlt n p) by (apply L; auto).
  assert (Ld : genlt n d) by (apply L; auto).
  inversion N as [|? ? Np N1]; subst. inversion N1 as [|? ? Nd Nr]; subst. cbn in Np.
  inversion F as [|? ? Fp Fr']; subst. cbn in Fp. destruct Fp as (Dd & Dp & Rp & cnd & Hn).
  assert (Hpd : p <> d) by (intros ->; apply Np; auto).
  constructor.
  - unfold allowned; cbn. exact N1.
  - constructor.
    + cbn. rewrite !defs_app, !refs_app, Dd. cbn [defs refs d1 r1]. lblcases; try congruence. lia.
    + apply Forall_fok_app; [|exact Fr']. intros l Hl.
      assert (l <> p) by (intros ->; apply Np; auto).
      assert (l <> d) by (intros ->; apply Nd; auto).
      unfold untouched. cbn [defs refs d1 r1]. lblcases; try congruence. lia.
  - intros l Hr Hl. unfold allowned in Hl; cbn in Hl.
    destruct (str_eqb_spec l p) as [->|Hlp].
    + left. rewrite defs_app, refs_app, Dp, Rp. cbn [defs refs d1 r1]. lblcases; try congruence. lia.
    + apply closed_app; [|apply C; intuition congruence].
      unfold untouched. cbn [defs refs d1 r1]. lblcases; try congruence; try lia; exfalso; apply Hl; auto.
  - apply fresh_app; [exact Fr|]. intros k m Hl.
    assert (p <> glbl k m) by (eapply genlt_neq; eauto).
    assert (d <> glbl k m) by (eapply genlt_neq; eauto).
    unfold untouched. cbn [defs refs d1 r1]. lblcases; try congruence; lia.
  - intros l Hl. unfold allowned in Hl; cbn in Hl. apply L. tauto.
Qed.

Lemma fok_retarget o o' pos p cnd d f : nth_error o pos = Some (SJump p cnd) -> retarget pos d o = Some o' ->
  ~ In p (owned f) -> ~ In d (owned f) -> fok o f -> fok o' f.
Proof.
  intros Hn R Hp Hd H.
  destruct f as [pos' p' d' [|] ln lno|l' c' d' e hc ln lno|l' c' d' ix vs len v hc ln lno]; cbn in *;
    rewrite ?(retarget_defs _ _ _ _ _ R).
  - rewrite (retarget_refs_other d p cnd o pos o' d') by intuition congruence. exact H.
  - destruct H as (H1 & H2 & H3 & cnd' & H4).
    rewrite (retarget_refs_other d p cnd o pos o' p') by intuition congruence.
    split; [auto|]. split; [auto|]. split; [auto|]. exists cnd'.
    erewrite retarget_nth_other; [exact H4|exact R|]. intros ->. rewrite Hn in H4. injection H4 as -> _. tauto.
  - rewrite (retarget_refs_other d p cnd o pos o' d') by intuition congruence. exact H.
  - rewrite (retarget_refs_other d p cnd o pos o' d') by intuition congruence.
    rewrite (retarget_refs_other d p cnd o pos o' c') by intuition congruence. exact H.
Qed.

Lemma step_endif_else n o pos p d ln lno r : SInv n o (FIf pos p d true ln lno :: r) -> SInv n (o ++ [SLabel d]) r.
Proof.
  intros [N F C Fr L]. inversion F as [|? ? Fp Fr']; subst.
  unfold allowned in N, C, L; cbn in N, C, L. inversion N as [|? ? Nd Nr]; subst.
  cbn in Fp. destruct Fp as (Dd & Rd).
  assert (Ld : genlt n d) by (apply L; auto).
  constructor.
  - exact Nr.
  - apply Forall_fok_app; [|exact Fr']. intros l Hl. assert (l <> d) by (intros ->; auto).
    unfold untouched. cbn [defs refs d1 r1]. lblcases; try congruence. lia.
  - intros l Hr Hl. destruct (str_eqb_spec l d) as [->|Hld].
    + left. rewrite defs_app, refs_app, Dd. cbn [defs refs d1 r1]. lblcases; try congruence. lia.
    + apply closed_app; [|apply C; intuition congruence].
      unfold untouched. cbn [defs refs d1 r1]. lblcases; try congruence. lia.
  - apply fresh_app; [exact Fr|]. intros k m Hl. assert (d <> glbl k m) by (eapply genlt_neq; eauto).
    unfold untouched. cbn [defs refs d1 r1]. lblcases; try congruence. lia.
  - intros l Hl. apply L. auto.
Qed.

Lemma step_endif_noelse n o o' pos p d ln lno r : SInv n o (FIf pos p d false ln lno :: r) ->
  retarget pos d o = Some o' -> SInv n (o' ++ [SLabel d]) r.
Proof.
  intros [N F C Fr L] R. inversion F as [|? ? Fp Fr']; subst.
  unfold allowned in N, C, L; cbn in N, C, L.
  inversion N as [|? ? Np N1]; subst. inversion N1 as [|? ? Nd Nr]; subst. cbn in Np.
  cbn in Fp. destruct Fp as (Dd & Dp & Rp & cnd & Hn).
  assert (Hpd : p <> d) by (intros ->; apply Np; auto).
  assert (Lp : genlt n p) by (apply L; auto).
  assert (Ld : genlt n d) by (apply L; auto).
  pose proof (retarget_refs d p cnd o pos o' Hn R) as RR.
  pose proof (fun l => retarget_defs l d o pos o' R) as RD.
  constructor.
  - exact Nr.
  - apply Forall_fok_app.
    + intros l Hl. assert (l <> d) by (intros ->; auto).
      unfold untouched. cbn [defs refs d1 r1]. lblcases; try congruence. lia.
    + apply Forall_forall. intros f Hf. apply (fok_retarget o o' pos p cnd d); auto.
      * intros Hin. apply Np. right. apply in_flat_map. eauto.
      * intros Hin. apply Nd. apply in_flat_map. eauto.
      * rewrite Forall_forall in Fr'. auto.
  - intros l Hr Hl. unfold closed. rewrite defs_app, refs_app, RD. specialize (RR l).
    cbn [defs refs d1 r1].
    destruct (str_eqb_spec l d) as [Eld|Hld].
    + subst l. destruct (str_eqb_spec d p); [congruence|]. lia.
    + destruct (str_eqb_spec l p) as [Elp|Hlp].
      * subst l. lia.
      * assert (CC : closed o l) by (apply C; intuition congruence). unfold closed in CC. lia.
  - intros k m Hl. rewrite defs_app, refs_app, RD. specialize (RR (glbl k m)). destruct (Fr k m Hl) as [D0 R0].
    assert (p <> glbl k m) by (eapply genlt_neq; eauto).
    assert (d <> glbl k m) by (eapply genlt_neq; eauto).
    cbn [defs refs d1 r1]. lblcases; try congruence; lia.
  - intros l Hl. apply L. auto.
Qed.

Lemma step_while n o fs e e' ln lno : SInv n o fs ->
  SInv (S n) (o ++ [SJump (glbl KdDone n) e; SLabel (glbl KdLoop n)])
       (FWhile (glbl KdLoop n) (glbl KdLoop n) (glbl KdDone n) e' false ln lno :: fs).
Proof.
  intros [N F C Fr L].
  constructor.
  - unfold allowned; cbn. constructor; [|constructor]; [| |exact N].
    + intros [E|H]; [apply glbl_inj in E; destruct E; discriminate|]. apply L in H. eapply genlt_neq in H; eauto.
    + intros H. apply L in H. eapply genlt_neq in H; eauto.
  - constructor.
    + cbn. destruct (Fr KdDone n) as [D1 R1]; [lia|]. destruct (Fr KdLoop n) as [D2 R2]; [lia|].
      rewrite !defs_app, !refs_app, D1, D2, R1. cbn [defs refs d1 r1]. lblcases; inj; try congruence. split; [reflexivity|lia].
    + apply Forall_fok_app; [|exact F]. intros l Hl. apply L in Hl.
      assert (l <> glbl KdDone n) by (eapply genlt_neq; eauto).
      assert (l <> glbl KdLoop n) by (eapply genlt_neq; eauto).
      unfold untouched. cbn [defs refs d1 r1]. lblcases; try congruence. lia.
  - intros l Hr Hl. rewrite In_allowned_cons in Hl. cbn in Hl.
    apply closed_app; [|apply C; tauto].
    unfold untouched. cbn [defs refs d1 r1]. lblcases; try congruence; try lia; exfalso; apply Hl; auto.
  - apply fresh_app; [intros k m Hl; apply Fr; lia |]. intros k m Hl.
    unfold untouched. cbn [defs refs d1 r1]. lblcases; inj; try congruence; lia.
  - intros l Hl. rewrite In_allowned_cons in Hl. cbn in Hl. destruct Hl as [[<-|[<-|[]]]|H].
    + apply genlt_new.
    + apply genlt_new.
    + apply genlt_S, L, H.
Qed.

Lemma step_endwhile n o l c d e e' hc ln lno r : SInv n o (FWhile l c d e hc ln lno :: r) ->
  SInv n (o ++ [SJump l e'; SLabel d]) r.
Proof.
  intros [N F C Fr L].
  unfold allowned in N, C, L; cbn in N, C, L.
  inversion N as [|? ? Nl N1]; subst. inversion N1 as [|? ? Nd Nr]; subst. cbn in Nl.
  inversion F as [|? ? Fp Fr']; subst. cbn in Fp. destruct Fp as (Hc & Dl & Dd & Rd).
  assert (Hld : l <> d) by (intros ->; apply Nl; auto).
  assert (Ll : genlt n l) by (apply L; auto).
  assert (Ld : genlt n d) by (apply L; auto).
  constructor.
  - exact Nr.
  - apply Forall_fok_app; [|exact Fr']. intros x Hx.
    assert (x <> l) by (intros ->; apply Nl; auto).
    assert (x <> d) by (intros ->; apply Nd; auto).
    unfold untouched. cbn [defs refs d1 r1]. lblcases; try congruence. lia.
  - intros x Hr Hx. unfold closed. rewrite defs_app, refs_app. cbn [defs refs d1 r1].
    destruct (str_eqb_spec x l) as [Exl|Hxl]; [subst x|destruct (str_eqb_spec x d) as [Exd|Hxd]; [subst x|]].
    + lblcases; try congruence; lia.
    + lblcases; try congruence; lia.
    + assert (CC : closed o x) by (apply C; intuition congruence). unfold closed in CC. lia.
  - apply fresh_app; [exact Fr|]. intros k m Hx.
    assert (l <> glbl k m) by (eapply genlt_neq; eauto).
    assert (d <> glbl k m) by (eapply genlt_neq; eauto).
    unfold untouched. cbn [defs refs d1 r1]. lblcases; try congruence. lia.
  - intros x Hx. apply L. auto.
Qed.

Definition plain (s : stmt) : Prop := forall l, d1 l s = 0 /\ r1 l s = 0.

Lemma step_for n o fs s1 s2 e s4 s6 ix vs len v ln lno : SInv n o fs -> plain s1 -> plain s2 -> plain s4 -> plain s6 ->
  SInv (S n) (o ++ [s1; s2; SJump (glbl KdDone n) e; s4; SLabel (glbl KdLoop n); s6])
       (FFor (glbl KdLoop n) (glbl KdCont n) (glbl KdDone n) ix vs len v false ln lno :: fs).
Proof.
  intros [N F C Fr L] P1 P2 P4 P6.
  assert (CNT : forall x, defs x [s1; s2; SJump (glbl KdDone n) e; s4; SLabel (glbl KdLoop n); s6] = (if str_eqb x (glbl KdLoop n) then 1 else 0)
                       /\ refs x [s1; s2; SJump (glbl KdDone n) e; s4; SLabel (glbl KdLoop n); s6] = (if str_eqb x (glbl KdDone n) then 1 else 0)).
  { intros x. cbn [defs refs]. destruct (P1 x) as [-> ->], (P2 x) as [-> ->], (P4 x) as [-> ->], (P6 x) as [-> ->]. cbn. lia. }
  constructor.
  - unfold allowned; cbn. constructor; [|constructor; [|constructor]]; [| | |exact N].
    + intros [E|[E|H]]; try (apply glbl_inj in E; destruct E; discriminate). apply L in H. eapply genlt_neq in H; eauto.
    + intros [E|H]; try (apply glbl_inj in E; destruct E; discriminate). apply L in H. eapply genlt_neq in H; eauto.
    + intros H. apply L in H. eapply genlt_neq in H; eauto.
  - constructor.
    + cbn. destruct (Fr KdDone n) as [D1 R1]; [lia|]. destruct (Fr KdLoop n) as [D2 R2]; [lia|].
      destruct (Fr KdCont n) as [D3 R3]; [lia|].
      rewrite !defs_app, !refs_app, D1, D2, D3, R1, R3.
      destruct (CNT (glbl KdLoop n)) as [-> _]. destruct (CNT (glbl KdDone n)) as [-> ->]. destruct (CNT (glbl KdCont n)) as [-> ->].
      lblcases; inj; try congruence. lia.
    + apply Forall_fok_app; [|exact F]. intros l Hl. apply L in Hl.
      assert (l <> glbl KdDone n) by (eapply genlt_neq; eauto).
      assert (l <> glbl KdLoop n) by (eapply genlt_neq; eauto).
      unfold untouched. destruct (CNT l) as [-> ->]. lblcases; try congruence. lia.
  - intros l Hr Hl. rewrite In_allowned_cons in Hl. cbn in Hl.
    apply closed_app; [|apply C; tauto].
    unfold untouched. destruct (CNT l) as [-> ->]. lblcases; try congruence; try lia; exfalso; apply Hl; auto.
  - apply fresh_app; [intros k m Hl; apply Fr; lia |]. intros k m Hl.
    unfold untouched. destruct (CNT (glbl k m)) as [-> ->]. lblcases; inj; try congruence; lia.
  - intros l Hl. rewrite In_allowned_cons in Hl. cbn in Hl. destruct Hl as [[<-|[<-|[<-|[]]]]|H].
    + apply genlt_new.
    + apply genlt_new.
    + apply genlt_new.
    + apply genlt_S, L, H.
Qed.

Lemma step_endfor n o l c d ix vs len v hc ln lno r s1 e : SInv n o (FFor l c d ix vs len v hc ln lno :: r) -> plain s1 ->
  SInv n (o ++ (if hc then [SLabel c] else []) ++ [s1; SJump l e; SLabel d]) r.
Proof.
  intros [N F C Fr L] P1.
  unfold allowned in N, C, L; cbn in N, C, L.
  inversion N as [|? ? Nl N1]; subst. inversion N1 as [|? ? Nc N2]; subst. inversion N2 as [|? ? Nd Nr]; subst.
  cbn in Nl, Nc.
  inversion F as [|? ? Fp Fr']; subst. cbn in Fp. destruct Fp as (Dl & Dd & Rd & Dc & Rc).
  assert (Hlc : l <> c) by (intros ->; apply Nl; auto).
  assert (Hld : l <> d) by (intros ->; apply Nl; auto).
  assert (Hcd : c <> d) by (intros ->; apply Nc; auto).
  assert (Ll : genlt n l) by (apply L; auto).
  assert (Lc : genlt n c) by (apply L; auto).
  assert (Ld : genlt n d) by (apply L; auto).
  assert (CNT : forall x, defs x ((if hc then [SLabel c] else []) ++ [s1; SJump l e; SLabel d]) =
                            (if hc then (if str_eqb x c then 1 else 0) else 0) + (if str_eqb x d then 1 else 0)
                       /\ refs x ((if hc then [SLabel c] else []) ++ [s1; SJump l e; SLabel d]) = (if str_eqb x l then 1 else 0)).
  { intros x. rewrite defs_app, refs_app. cbn [defs refs]. destruct (P1 x) as [-> ->]. destruct hc; cbn; lia. }
  constructor.
  - exact Nr.
  - apply Forall_fok_app; [|exact Fr']. intros x Hx.
    assert (x <> l) by (intros ->; apply Nl; auto).
    assert (x <> c) by (intros ->; apply Nc; auto).
    assert (x <> d) by (intros ->; apply Nd; auto).
    unfold untouched. destruct (CNT x) as [-> ->]. lblcases; try congruence. destruct hc; lia.
  - intros x Hr Hx. unfold closed. rewrite (defs_app x o), (refs_app x o). destruct (CNT x) as [-> ->].
    destruct (str_eqb_spec x l) as [Exl|Hxl]; [subst x|destruct (str_eqb_spec x d) as [Exd|Hxd];
      [subst x|destruct (str_eqb_spec x c) as [Exc|Hxc]; [subst x|]]].
    + lblcases; try congruence. destruct hc; lia.
    + lblcases; try congruence. destruct hc; lia.
    + destruct hc; lia.
    + assert (CC : closed o x) by (apply C; intuition congruence). unfold closed in CC. destruct hc; lia.
  - apply fresh_app; [exact Fr|]. intros k m Hx.
    assert (l <> glbl k m) by (eapply genlt_neq; eauto).
    assert (c <> glbl k m) by (eapply genlt_neq; eauto).
    assert (d <> glbl k m) by (eapply genlt_neq; eauto).
    unfold untouched. destruct (CNT (glbl k m)) as [-> ->]. lblcases; try congruence. destruct hc; lia.
  - intros x Hx. apply L. auto.
Qed.

(* ---- break / continue: a jump to a label owned by an open loop frame ---- *)
Lemma find_loop_ge : forall fs k0 k f, find_loop fs k0 = Some (k, f) -> k0 <= k.
Proof.
  induction fs as [|x fs IH]; cbn; intros k0 k f H; [discriminate|].
  destruct (is_if_frame x); [apply IH in H; lia | injection H as <- _; lia].
Qed.

Lemma find_loop_split : forall fs k0 k f, find_loop fs k0 = Some (k, f) ->
  exists pre post, fs = pre ++ f :: post /\ is_if_frame f = false /\ k = k0 + length pre.
Proof.
  induction fs as [|x fs IH]; cbn; intros k0 k f H; [discriminate|].
  destruct (is_if_frame x) eqn:E.
  - destruct (IH _ _ _ H) as (pre & post & -> & Hf & ->). exists (x :: pre), post. cbn. repeat split; auto; lia.
  - injection H as <- <-. exists [], fs. cbn. repeat split; auto.
Qed.

Lemma find_loop_app : forall top bot k0,
  find_loop (top ++ bot) k0 = match find_loop top k0 with Some r => Some r | None => find_loop bot (k0 + length top) end.
Proof.
  induction top as [|x top IH]; cbn; intros bot k0; [f_equal; lia|].
  destruct (is_if_frame x); [|reflexivity]. rewrite IH. replace (S k0 + length top) with (k0 + S (length top)) by lia. reflexivity.
Qed.

Lemma set_nth_frame_split : forall pre f post g, set_nth_frame (pre ++ f :: post) (length pre) g = pre ++ g :: post.
Proof. induction pre as [|x pre IH]; cbn; intros; [reflexivity|]. rewrite IH. reflexivity. Qed.

Lemma Forall_fok_jump_others o t cnd fs : ~ In t (allowned fs) -> Forall (fok o) fs -> Forall (fok (o ++ [SJump t cnd])) fs.
Proof.
  intros Hn F. apply Forall_fok_app; [|exact F]. intros l Hl. assert (l <> t) by (intros ->; auto).
  unfold untouched. cbn [defs refs d1 r1]. lblcases; try congruence. lia.
Qed.

Lemma step_jump_owned n o fs fs' t cnd : SInv n o fs -> allowned fs' = allowned fs -> In t (allowned fs) ->
  Forall (fok (o ++ [SJump t cnd])) fs' -> SInv n (o ++ [SJump t cnd]) fs'.
Proof.
  intros [N F C Fr L] Ha Hin Hf. constructor; rewrite ?Ha; auto.
  - intros l Hr Hl. apply closed_app; [|auto]. assert (l <> t) by (intros ->; auto).
    unfold untouched. cbn [defs refs d1 r1]. lblcases; try congruence. lia.
  - apply fresh_app; [exact Fr|]. intros k m Hl. apply L in Hin. assert (t <> glbl k m) by (eapply genlt_neq; eauto).
    unfold untouched. cbn [defs refs d1 r1]. lblcases; try congruence. lia.
Qed.

Lemma NoDup_mid_out (A B X : list str) t : NoDup (A ++ X ++ B) -> In t X -> ~ In t A /\ ~ In t B.
Proof.
  intros N Ht. split; intros H.
  - eapply (NoDup_app_disj A (X ++ B)); eauto. apply in_app_iff; auto.
  - apply NoDup_app_r in N. eapply (NoDup_app_disj X B); eauto.
Qed.

Lemma step_break n o pre f post : SInv n o (pre ++ f :: post) -> is_if_frame f = false ->
  SInv n (o ++ [SJump (frame_done f) None]) (pre ++ f :: post).
Proof.
  intros I Hf. pose proof I as [N F C Fr L].
  rewrite allowned_app in N. change (allowned (f :: post)) with (owned f ++ allowned post) in N.
  apply Forall_app in F. destruct F as [Fpre F]. inversion F as [|? ? Ff Fpost]; subst.
  assert (Hin : In (frame_done f) (owned f)) by (destruct f as [? ? ? []| |]; cbn; auto; discriminate).
  destruct (NoDup_mid_out _ _ _ _ N Hin) as [Npre Npost].
  apply (step_jump_owned n o (pre ++ f :: post)); auto.
  - rewrite allowned_app. apply in_app_iff. right. apply In_allowned_cons. auto.
  - apply Forall_app. split; [apply Forall_fok_jump_others; auto|]. constructor; [|apply Forall_fok_jump_others; auto].
    apply NoDup_app_r, NoDup_app_l in N.
    destruct f as [? ? ? ? ? ?|l c d e hc ln lno|l c d ix vs len v hc ln lno]; [discriminate| |]; cbn in *.
    + rewrite !defs_app, !refs_app. cbn [defs refs d1 r1]. destruct Ff as (Hc & ?). split; [exact Hc|]. lia.
    + inversion N as [|? ? Nl N1]; subst. inversion N1 as [|? ? Nc N2]; subst. cbn in Nc.
      rewrite !defs_app, !refs_app. cbn [defs refs d1 r1].
      destruct (str_eqb_spec c d) as [->|]; [exfalso; apply Nc; auto|]. destruct hc; lia.
Qed.

Lemma step_continue n o pre f post : SInv n o (pre ++ f :: post) -> is_if_frame f = false ->
  SInv n (o ++ [SJump (frame_continue f) None]) (pre ++ mark_continue f :: post).
Proof.
  intros I Hf. pose proof I as [N F C Fr L].
  rewrite allowned_app in N. change (allowned (f :: post)) with (owned f ++ allowned post) in N.
  apply Forall_app in F. destruct F as [Fpre F]. inversion F as [|? ? Ff Fpost]; subst.
  assert (Hin : In (frame_continue f) (owned f)).
  { destruct f as [? ? ? []|l c d e hc ln lno|]; cbn; auto; try discriminate. cbn in Ff. destruct Ff as (-> & _). auto. }
  assert (Hown : owned (mark_continue f) = owned f) by (destruct f as [? ? ? []| |]; reflexivity).
  destruct (NoDup_mid_out _ _ _ _ N Hin) as [Npre Npost].
  apply (step_jump_owned n o (pre ++ f :: post)); auto.
  - rewrite !allowned_app. f_equal. change (allowned (?x :: post)) with (owned x ++ allowned post). rewrite Hown. reflexivity.
  - rewrite allowned_app. apply in_app_iff. right. apply In_allowned_cons. auto.
  - apply Forall_app. split; [apply Forall_fok_jump_others; auto|]. constructor; [|apply Forall_fok_jump_others; auto].
    apply NoDup_app_r, NoDup_app_l in N.
    destruct f as [? ? ? ? ? ?|l c d e hc ln lno|l c d ix vs len v hc ln lno]; [discriminate| |]; cbn in *.
    + rewrite !defs_app, !refs_app. cbn [defs refs d1 r1]. destruct Ff as (Hc & ?). split; [exact Hc|]. lia.
    + rewrite !defs_app, !refs_app. cbn [defs refs d1 r1].
      destruct (str_eqb_spec c c) as [_|]; [|congruence]. destruct hc; lia.
Qed.

(* ================= D. the whole parser state: two scopes ================= *)
Definition scope_wf (c : list stmt) : Prop :=
  forall l, reserved l = true -> (1 <= refs l c -> defs l c = 1) /\ (1 <= defs l c -> 1 <= refs l c).
Definition fns_wf (g : list stmt) : Prop := Forall scope_wf (fbodies g).
Definition script_wf (c : script) : Prop := scope_wf c /\ fns_wf c.

Lemma SInv_done n o : SInv n o [] -> scope_wf o.
Proof. intros I l Hr. destruct (inv_closed _ _ _ I l Hr) as [[D R]|[D R]]; [cbn; tauto| lia | lia]. Qed.

(* frames = top ++ bot: the top frames belong to the scope under construction (the function body, or the
   global list when no function is open); the bottom depth_floor frames are the global frames suspended
   while a function is open *)
Definition PInv (ps : pstate) : Prop :=
  exists top bot,
    ps_frames ps = top ++ bot /\ length bot = depth_floor ps /\
    SInv (ps_index ps) (cur_stmts ps) top /\
    match ps_fn ps with Some _ => SInv (ps_index ps) (ps_global ps) bot | None => True end /\
    fns_wf (ps_global ps).

Definition put (ps : pstate) (o' : list stmt) (fr' : list frame) (n' : nat) : pstate :=
  {| ps_global := match ps_fn ps with None => o' | Some _ => ps_global ps end;
     ps_fn := match ps_fn ps with
              | Some fo => Some {| fo_name := fo_name fo; fo_args := fo_args fo; fo_async := fo_async fo; fo_lastarg := fo_lastarg fo;
                                   fo_body := o'; fo_line := fo_line fo; fo_lineno := fo_lineno fo |}
              | None => None end;
     ps_fn_depth := ps_fn_depth ps; ps_frames := fr'; ps_index := n' |}.

Lemma put_emit ps l : emit ps l = put ps (cur_stmts ps ++ l) (ps_frames ps) (ps_index ps).
Proof. destruct ps as [g [fo|] fd fr ix]; reflexivity. Qed.
Lemma put_set_stmts ps o' : set_stmts ps o' = put ps o' (ps_frames ps) (ps_index ps).
Proof. destruct ps as [g [fo|] fd fr ix]; reflexivity. Qed.
Lemma put_set_frames ps o' fr0 n0 fr' : set_frames (put ps o' fr0 n0) fr' = put ps o' fr' n0.
Proof. destruct ps as [g [fo|] fd fr ix]; reflexivity. Qed.
Lemma put_bump ps o' fr0 n0 : bump (put ps o' fr0 n0) = put ps o' fr0 (S n0).
Proof. destruct ps as [g [fo|] fd fr ix]; reflexivity. Qed.
Lemma put_emit_set_frames ps fr' l : emit (set_frames ps fr') l = put ps (cur_stmts ps ++ l) fr' (ps_index ps).
Proof. destruct ps as [g [fo|] fd fr ix]; reflexivity. Qed.

Lemma PInv_put ps top bot o' top' n' :
  ps_frames ps = top ++ bot -> length bot = depth_floor ps ->
  match ps_fn ps with Some _ => SInv (ps_index ps) (ps_global ps) bot | None => True end ->
  fns_wf (ps_global ps) ->
  ps_index ps <= n' -> fbodies o' = fbodies (cur_stmts ps) -> SInv n' o' top' -> PInv (put ps o' (top' ++ bot) n').
Proof.
  destruct ps as [g [fo|] fd fr ix]; cbn -[fbodies]; intros Hfr Hlen Hg Hf Hn Hb HI; exists top', bot; cbn -[fbodies].
  - split; [reflexivity|]. split; [exact Hlen|]. split; [exact HI|]. split; [eapply SInv_mono; eauto|exact Hf].
  - split; [reflexivity|]. split; [exact Hlen|]. split; [exact HI|]. split; [exact I|]. unfold fns_wf in *. rewrite Hb. exact Hf.
Qed.

Lemma visible_top ps top bot : ps_frames ps = top ++ bot -> length bot = depth_floor ps ->
  (if Nat.ltb (depth_floor ps) (length (ps_frames ps)) then ps_frames ps else []) = match top with [] => [] | f :: t => f :: t ++ bot end.
Proof.
  intros -> <-. rewrite app_length. destruct top as [|f t]; cbn [length app].
  - replace (length bot <? 0 + length bot) with false by (symmetry; apply Nat.ltb_ge; lia). reflexivity.
  - replace (length bot <? S (length t) + length bot) with true by (symmetry; apply Nat.ltb_lt; lia). reflexivity.
Qed.

Lemma leb_top ps top bot : ps_frames ps = top ++ bot -> length bot = depth_floor ps ->
  Nat.leb (length (ps_frames ps)) (depth_floor ps) = match top with [] => true | _ => false end.
Proof.
  intros -> <-. rewrite app_length. destruct top as [|f t]; cbn [length].
  - apply Nat.leb_le. lia.
  - apply Nat.leb_gt. lia.
Qed.

Lemma plain_expr n e : plain (SExpr n e).
Proof. intros l. split; reflexivity. Qed.

Lemma untouched_plain s l : plain s -> untouched [s] l.
Proof. intros P. destruct (P l) as [A B]. unfold untouched. cbn. lia. Qed.

Lemma last_is_include_spec l front incs : last_is_include l = Some (front, incs) -> l = front ++ [SInclude incs].
Proof.
  unfold last_is_include. destruct (rev l) as [|[] t] eqn:E; try discriminate.
  intros H. injection H as <- <-. rewrite <- (rev_involutive l), E. reflexivity.
Qed.

Ltac rok H := first [discriminate H | injection H as H; subst].

Theorem kstep_inv ps lineno line k ps' :
  kind_clean k = true -> PInv ps -> kstep ps lineno line k = ROk ps' -> PInv ps'.
Proof.
  intros Hk (top & bot & Hfr & Hlen & HI & Hg & Hf) H.
  pose proof (PInv_put ps top bot) as PUT. specialize (fun o' top' n' => PUT o' top' n' Hfr Hlen Hg Hf).
  destruct k as [nm e|nm args asy la| |e|re| | |e| |vn ixn e| | | |name|name cnd|e|url sys|e]; cbn [kstep kind_clean] in H, Hk.
  - (* assignment *)
    rok H. rewrite put_emit, Hfr. apply PUT; [lia|rewrite fbodies_app, app_nil_r; reflexivity|].
    apply step_other; auto. intros; apply untouched_plain, plain_expr.
  - (* function begin *)
    destruct (ps_fn ps) eqn:Efn; [discriminate|]. destruct args as [a| | |]; try discriminate. rok H.
    unfold depth_floor in Hlen. rewrite Efn in Hlen. destruct bot; [|discriminate]. rewrite app_nil_r in Hfr.
    unfold cur_stmts in HI. rewrite Efn in HI.
    exists [], top. cbn. rewrite Hfr. split; [reflexivity|]. split; [reflexivity|]. split; [apply SInv_nil|]. split; [exact HI|exact Hf].
  - (* function end *)
    destruct (ps_fn ps) as [fo|] eqn:Efn; [|discriminate].
    destruct (Nat.ltb_spec (ps_fn_depth ps) (length (ps_frames ps))) as [Hlt|Hge]; [destruct (ps_frames ps); discriminate|].
    rok H. unfold depth_floor in Hlen. rewrite Efn in Hlen. rewrite Hfr, app_length in Hge.
    destruct top; [|cbn in Hge; lia]. cbn in Hfr. unfold cur_stmts in HI. rewrite Efn in HI.
    exists bot, []. cbn. rewrite app_nil_r. split; [exact Hfr|]. split; [reflexivity|]. split; [|split; [exact I|]].
    + apply step_other; auto. intros l _. split; reflexivity.
    + unfold fns_wf in *. rewrite fbodies_app. apply Forall_app. split; auto. cbn. constructor; [|constructor].
      apply SInv_done in HI. exact HI.
  - (* if *)
    rok H. rewrite put_emit, put_set_frames, put_bump, Hfr.
    change (?f :: top ++ bot) with ((f :: top) ++ bot).
    apply PUT; [lia|rewrite fbodies_app, app_nil_r; reflexivity|]. apply step_if. exact HI.
  - (* elif *)
    rewrite (visible_top ps top bot Hfr Hlen) in H.
    destruct top as [|[pos p d [|] ln lno| |] top]; try discriminate. destruct re as [e| | |]; try discriminate. rok H.
    rewrite put_emit, put_set_frames, put_bump.
    change (?f :: top ++ bot) with ((f :: top) ++ bot).
    apply PUT; [lia|rewrite fbodies_app, app_nil_r; reflexivity|]. eapply step_elif. exact HI.
  - (* else *)
    rewrite (visible_top ps top bot Hfr Hlen) in H.
    destruct top as [|[pos p d [|] ln lno| |] top]; try discriminate. rok H.
    rewrite put_emit, put_set_frames.
    change (?f :: top ++ bot) with ((f :: top) ++ bot).
    apply PUT; [lia|rewrite fbodies_app, app_nil_r; reflexivity|]. apply step_else. exact HI.
  - (* endif *)
    rewrite (visible_top ps top bot Hfr Hlen) in H.
    destruct top as [|[pos p d [|] ln lno| |] top]; try discriminate.
    + rok H. rewrite put_set_stmts, put_set_frames.
      apply PUT; [lia|rewrite fbodies_app, app_nil_r; reflexivity|]. eapply step_endif_else. exact HI.
    + destruct (retarget pos d (cur_stmts ps)) as [o'|] eqn:R; [|discriminate]. rok H.
      rewrite put_set_stmts, put_set_frames.
      apply PUT; [lia|rewrite fbodies_app, app_nil_r; eapply retarget_fbodies; eauto|]. eapply step_endif_noelse; eauto.
  - (* while *)
    rok H. rewrite put_emit, put_set_frames, put_bump, Hfr.
    change (?f :: top ++ bot) with ((f :: top) ++ bot).
    apply PUT; [lia|rewrite fbodies_app, app_nil_r; reflexivity|]. apply step_while. exact HI.
  - (* endwhile *)
    rewrite (leb_top ps top bot Hfr Hlen) in H. rewrite Hfr in H.
    destruct top as [|[|l c d e hc ln lno|] top]; try discriminate. cbn [app] in H. rok H.
    rewrite put_emit, put_set_frames.
    apply PUT; [lia|rewrite fbodies_app, app_nil_r; reflexivity|]. eapply step_endwhile. exact HI.
  - (* for *)
    rok H. rewrite put_emit, put_set_frames, put_bump, Hfr.
    change (?f :: top ++ bot) with ((f :: top) ++ bot).
    apply PUT; [lia|rewrite fbodies_app, app_nil_r; reflexivity|].
    apply step_for; auto using plain_expr.
  - (* endfor *)
    rewrite (leb_top ps top bot Hfr Hlen) in H. rewrite Hfr in H.
    destruct top as [|[| |l c d ix vs len v hc ln lno] top]; try discriminate. cbn [app] in H. rok H.
    rewrite put_emit, put_set_frames.
    apply PUT; [lia| |].
    + rewrite fbodies_app. destruct hc; cbn; rewrite app_nil_r; reflexivity.
    + eapply step_endfor; [exact HI|apply plain_expr].
  - (* break *)
    destruct (find_loop (ps_frames ps) 0) as [[k f]|] eqn:E; [|discriminate].
    destruct (Nat.ltb_spec (length (ps_frames ps) - 1 - k) (depth_floor ps)) as [Hlt|Hge]; [discriminate|]. rok H.
    rewrite Hfr, find_loop_app in E. rewrite Hfr, app_length, <- Hlen in Hge.
    destruct (find_loop top 0) as [[k1 f1]|] eqn:E1.
    + injection E as <- <-. destruct (find_loop_split _ _ _ _ E1) as (pre & post & -> & Hif & ->).
      rewrite put_emit, Hfr. apply PUT; [lia|rewrite fbodies_app, app_nil_r; reflexivity|]. apply step_break; auto.
    + destruct (find_loop_split _ _ _ _ E) as (pre & post & Hb & _ & Hk1). rewrite Hb, app_length in Hge. cbn in Hge, Hk1. lia.
  - (* continue *)
    destruct (find_loop (ps_frames ps) 0) as [[k f]|] eqn:E; [|discriminate].
    destruct (Nat.ltb_spec (length (ps_frames ps) - 1 - k) (depth_floor ps)) as [Hlt|Hge]; [discriminate|]. rok H.
    rewrite Hfr, find_loop_app in E. rewrite Hfr, app_length, <- Hlen in Hge.
    destruct (find_loop top 0) as [[k1 f1]|] eqn:E1.
    + injection E as <- <-. destruct (find_loop_split _ _ _ _ E1) as (pre & post & -> & Hif & ->).
      rewrite put_emit_set_frames, Hfr. cbn [plus]. rewrite <- app_assoc. cbn [app]. rewrite set_nth_frame_split.
      change (pre ++ ?g :: post ++ bot) with (pre ++ (g :: post) ++ bot). rewrite app_assoc.
      apply PUT; [lia|rewrite fbodies_app, app_nil_r; reflexivity|]. apply step_continue; auto.
    + destruct (find_loop_split _ _ _ _ E) as (pre & post & Hb & _ & Hk1). rewrite Hb, app_length in Hge. cbn in Hge, Hk1. lia.
  - (* user label *)
    rok H. rewrite put_emit, Hfr. apply PUT; [lia|rewrite fbodies_app, app_nil_r; reflexivity|].
    apply step_other; auto. intros l Hr. assert (l <> name) by (intros ->; rewrite Hr in Hk; discriminate).
    unfold untouched. cbn [defs refs d1 r1]. lblcases; try congruence. lia.
  - (* user jump *)
    rok H. rewrite put_emit, Hfr. apply PUT; [lia|rewrite fbodies_app, app_nil_r; reflexivity|].
    apply step_other; auto. intros l Hr. assert (l <> name) by (intros ->; rewrite Hr in Hk; discriminate).
    unfold untouched. cbn [defs refs d1 r1]. lblcases; try congruence. lia.
  - (* return *)
    rok H. rewrite put_emit, Hfr. apply PUT; [lia|rewrite fbodies_app, app_nil_r; reflexivity|].
    apply step_other; auto. intros l _. split; reflexivity.
  - (* include *)
    destruct (last_is_include (cur_stmts ps)) as [[front incs]|] eqn:E; rok H.
    + apply last_is_include_spec in E. rewrite put_set_stmts, Hfr.
      apply PUT; [lia|rewrite E, !fbodies_app; reflexivity|]. rewrite E in HI.
      eapply SInv_equiv; [| |exact HI].
      * intros l. rewrite !defs_app, !refs_app. cbn. auto.
      * intros pos p cnd Hn. assert (pos < length front).
        { destruct (Nat.lt_ge_cases pos (length front)) as [|Hge]; [auto|]. rewrite nth_error_app2 in Hn by lia.
          destruct (pos - length front) as [|[|q]]; cbn in Hn; discriminate. }
        rewrite nth_error_app1 in * by lia. exact Hn.
    + rewrite put_emit, Hfr. apply PUT; [lia|rewrite fbodies_app, app_nil_r; reflexivity|].
      apply step_other; auto. intros l _. split; reflexivity.
  - (* expression *)
    rok H. rewrite put_emit, Hfr. apply PUT; [lia|rewrite fbodies_app, app_nil_r; reflexivity|].
    apply step_other; auto. intros; apply untouched_plain, plain_expr.
Qed.

(* ================= E. from one line to the whole script ================= *)
Lemma PInv_init : PInv ps_init.
Proof. exists [], []. cbn. split; [reflexivity|]. split; [reflexivity|]. split; [apply SInv_nil|]. split; [exact I|constructor]. Qed.

Lemma pstep_inv ps n line ps' : line_clean n line = true -> PInv ps -> pstep ps n line = ROk ps' -> PInv ps'.
Proof.
  intros Hc HI H. rewrite pstep_classify in H. unfold line_clean in Hc.
  destruct (classify n line) as [k| | |]; try discriminate. cbn in H. eapply kstep_inv; eauto.
Qed.

Lemma ploop_inv : forall lines ix ls ps start ls' ps',
  forallb (fun il => line_clean (start + fst il) (snd il)) (logical_lines lines ix ls) = true ->
  PInv ps -> ploop lines ix ls ps start = ROk (ls', ps') -> PInv ps'.
Proof.
  induction lines as [|part rest IH]; intros ix ls ps start ls' ps' Hc HI H; cbn in H, Hc.
  - injection H as _ <-. exact HI.
  - destruct (lstep ls ix part) as [st|st ixl line|bad].
    + eapply IH; eauto.
    + cbn in Hc. apply andb_true_iff in Hc. destruct Hc as [Hc1 Hc2].
      destruct (pstep ps (start + ixl) line) as [ps1| | |] eqn:E; try discriminate.
      eapply IH; [exact Hc2| |exact H]. eapply pstep_inv; eauto.
    + destruct bad; discriminate.
Qed.

Theorem parse_script_wf chunks start code :
  parse_script chunks start = ROk code -> user_clean chunks start = true -> script_wf code.
Proof.
  unfold parse_script, user_clean, script_lines. intros H Hc.
  destruct (split_chunks chunks) as [lines| | |]; try discriminate.
  destruct (ploop lines 0 _ ps_init start) as [[ls ps]| | |] eqn:E; try discriminate.
  pose proof (ploop_inv _ _ _ _ _ _ _ Hc PInv_init E) as (top & bot & Hfr & Hlen & HI & Hg & Hf).
  unfold pfinish in H. destruct (l_cont ls); [|discriminate].
  destruct (ps_frames ps) eqn:Efr; [|discriminate]. destruct (ps_fn ps) eqn:Efn; [discriminate|]. injection H as <-.
  symmetry in Hfr. apply app_eq_nil in Hfr. destruct Hfr as [-> ->].
  unfold cur_stmts in HI. rewrite Efn in HI. split; [eapply SInv_done; eauto|exact Hf].
Qed.

(* ---- the boolean form of the scope check ---- *)
Lemma refs_pos_In l c : 1 <= refs l c <-> exists cnd, In (SJump l cnd) c.
Proof.
  induction c as [|s c IH]; cbn; [split; [lia|intros [? []]]|].
  split.
  - intros H. destruct s as [| l' cnd | | | |]; cbn in H; try (apply IH in H; destruct H as [x Hx]; eauto).
    destruct (str_eqb_spec l l') as [->|]; [eauto|]. apply IH in H; destruct H as [x Hx]; eauto.
  - intros [cnd [->|H]]; [cbn; rewrite str_eqb_refl; lia|]. assert (1 <= refs l c) by (apply IH; eauto). lia.
Qed.
Lemma defs_pos_In l c : 1 <= defs l c <-> In (SLabel l) c.
Proof.
  induction c as [|s c IH]; cbn; [split; [lia|intros []]|].
  split.
  - intros H. destruct s as [| | | l' | |]; cbn in H; try (apply IH in H; auto).
    destruct (str_eqb_spec l l') as [->|]; [auto|]. apply IH in H; auto.
  - intros [->|H]; [cbn; rewrite str_eqb_refl; lia|]. assert (1 <= defs l c) by (apply IH; eauto). lia.
Qed.

Lemma scope_wfb_iff c : scope_wfb c = true <-> scope_wf c.
Proof.
  unfold scope_wfb, scope_wf. rewrite forallb_forall. split.
  - intros H l Hr. split.
    + intros R. apply refs_pos_In in R. destruct R as [cnd Hin]. specialize (H _ Hin). cbn in H. rewrite Hr in H.
      cbn in H. apply Nat.eqb_eq in H. exact H.
    + intros D. apply defs_pos_In in D. specialize (H _ D). cbn in H. rewrite Hr in H. cbn in H. destruct (refs l c); [discriminate|lia].
  - intros H s Hin. destruct s as [| l cnd | | l | |]; auto.
    + destruct (reserved l) eqn:Hr; [|reflexivity]. cbn. apply Nat.eqb_eq. apply (H l Hr). apply refs_pos_In. eauto.
    + destruct (reserved l) eqn:Hr; [|reflexivity]. cbn -[Nat.leb]. apply Nat.leb_le. apply (H l Hr). apply defs_pos_In. auto.
Qed.

Lemma fns_wf_iff c : forallb (fun s => match s with SFunction _ _ _ _ b => scope_wfb b | _ => true end) c = true <-> fns_wf c.
Proof.
  unfold fns_wf. induction c as [|s c IH]; [cbn; split; [constructor|reflexivity]|].
  cbn [forallb]. rewrite andb_true_iff, IH.
  change (fbodies (s :: c)) with ((match s with SFunction _ _ _ _ b => [b] | _ => [] end) ++ fbodies c).
  destruct s; cbn [app]; try tauto.
  rewrite scope_wfb_iff. split; [intros [? ?]; constructor; auto | intros F; inversion F; auto].
Qed.

Lemma script_wfb_iff c : script_wfb c = true <-> script_wf c.
Proof. unfold script_wfb, script_wf. rewrite andb_true_iff, scope_wfb_iff, fns_wf_iff. tauto. Qed.

(* the scopes of a script: the global list and every function body *)
Definition is_scope (code : script) (c : list stmt) : Prop := c = code \/ In c (fbodies code).

Lemma script_wf_scope code c : script_wf code -> is_scope code c -> scope_wf c.
Proof. intros [G F] [->|H]; [exact G|]. unfold fns_wf in F. rewrite Forall_forall in F. auto. Qed.

(* ---- corollary: the runtime's label lookup never fails for a reserved label ---- *)
Lemma find_first_label_some l : forall c ix, In (SLabel l) c -> exists j, find_first_label l c ix = Some j.
Proof.
  induction c as [|s c IH]; intros ix H; [destruct H|].
  destruct H as [->|H].
  - cbn. rewrite str_eqb_refl. eauto.
  - destruct s; cbn; try (apply IH; exact H). destruct (str_eqb name l); [eauto|apply IH; exact H].
Qed.

Lemma scope_wf_jump_resolves c l cnd : scope_wf c -> reserved l = true -> In (SJump l cnd) c ->
  exists j, find_first_label l c 0 = Some j.
Proof.
  intros W Hr Hin. apply find_first_label_some. apply defs_pos_In.
  destruct (W l Hr) as [A _]. rewrite A; [lia|]. apply refs_pos_In. eauto.
Qed.

(* ---- corollary: lint's label checks report no reserved label ---- *)
Lemma labels_defined_In l c : In l (labels_defined c) <-> In (SLabel l) c.
Proof.
  induction c as [|s c IH]; cbn; [tauto|]. destruct s; cbn; rewrite ?IH; try (split; [auto|intros [H|H]; [discriminate|auto]]).
  split; intros [H|H]; auto; [left; congruence | injection H as ->; auto].
Qed.
Lemma labels_used_In l c : In l (labels_used c) <-> exists cnd, In (SJump l cnd) c.
Proof.
  induction c as [|s c IH]; cbn; [split; [tauto|intros [? []]]|].
  destruct s; cbn; rewrite ?IH; try (split; [intros [x Hx]; eauto | intros [x [Hx|Hx]]; [discriminate|eauto]]).
  split.
  - intros [<-|[x Hx]]; eauto.
  - intros [x [Hx|Hx]]; [injection Hx as -> _; auto|eauto].
Qed.

Lemma lint_redefined_twice l : forall c seen, In l (lint_redefined c seen) ->
  (In l seen /\ 1 <= defs l c) \/ 2 <= defs l c.
Proof.
  induction c as [|s c IH]; cbn; intros seen H; [destruct H|].
  destruct s as [| | | l' | |]; cbn; try (apply IH in H; exact H).
  destruct (str_mem l' seen) eqn:M.
  - destruct H as [->|H].
    + apply str_mem_In in M. left. rewrite str_eqb_refl. split; [auto|lia].
    + apply IH in H. destruct H as [[A B]|B]; [left; split; [auto|lia] | right; lia].
  - apply IH in H. destruct H as [[[<-|A] B]|B].
    + right. rewrite str_eqb_refl. lia.
    + left. split; [auto|lia].
    + right. lia.
Qed.

Lemma scope_wf_lint_quiet c l : scope_wf c -> In l (lint_labels c) -> reserved l = false.
Proof.
  intros W H. destruct (reserved l) eqn:Hr; [exfalso|reflexivity]. destruct (W l Hr) as [A B].
  unfold lint_labels in H. rewrite !in_app_iff in H. destruct H as [H|[H|H]].
  - apply lint_redefined_twice in H. destruct H as [[[] _]|H].
    assert (1 <= refs l c) by (apply B; lia). specialize (A H0). lia.
  - unfold lint_unused in H. apply filter_In in H. destruct H as [D U]. apply labels_defined_In, defs_pos_In in D.
    specialize (B D). apply refs_pos_In, labels_used_In, str_mem_In in B. rewrite B in U. discriminate.
  - unfold lint_unknown in H. apply filter_In in H. destruct H as [R U]. apply labels_used_In, refs_pos_In in R.
    specialize (A R). assert (D : 1 <= defs l c) by lia. apply defs_pos_In, labels_defined_In, str_mem_In in D.
    rewrite D in U. discriminate.
Qed.

(* ================= F. the schema (statement level) ================= *)
Lemma re_split_from_nonempty U r whole : forall fuel pos rest cur l,
  re_split_from U r whole fuel pos rest cur = Some l -> l <> [].
Proof.
  induction fuel as [|f IH]; intros pos rest cur l H; cbn -[Nat.ltb skipn] in H.
  - injection H as <-. discriminate.
  - destruct rest as [|y t]; [injection H as <-; discriminate|].
    destruct (m _ _ _ _ _ _ _) as [|p c|]; [eapply IH; eauto| |discriminate].
    destruct (Nat.ltb pos p); [|eapply IH; eauto].
    destruct (re_split_from U r whole f p _ []); cbn in H; [|discriminate]. injection H as <-. discriminate.
Qed.
Lemma re_split_nonempty U r s l : re_split U r s = Some l -> l <> [].
Proof. apply re_split_from_nonempty. Qed.

Definition kind_args_ok (k : line_kind) : bool :=
  match k with KFnBegin _ (ROk (Some [])) _ _ => false | _ => true end.

Ltac cls H := first [discriminate H | injection H as <-; reflexivity].
Lemma classify_args_ok n line k : classify n line = ROk k -> kind_args_ok k = true.
Proof.
  unfold classify. intros H.
  destruct (rxm R_SCRIPT_ASSIGNMENT line); [|destruct (stmt_expr _ _ _ _); cls H|cls H].
  destruct (rxm R_SCRIPT_FUNCTION_BEGIN line) as [|ep c|]; [| |cls H].
  2:{ injection H as <-. unfold kind_args_ok. destruct (ghas c R_SCRIPT_FUNCTION_BEGIN__args); [|reflexivity].
      destruct (re_split UC R_SCRIPT_FUNCTION_ARG_SPLIT (gtext line c R_SCRIPT_FUNCTION_BEGIN__args)) as [[|a l]|] eqn:E; try reflexivity.
      apply re_split_nonempty in E. congruence. }
  destruct (rxm R_SCRIPT_FUNCTION_END line); [|cls H|cls H].
  destruct (rxm R_SCRIPT_IF_BEGIN line); [|destruct (stmt_expr _ _ _ _); cls H|cls H].
  destruct (rxm R_SCRIPT_IF_ELSE_IF line); [|cls H|cls H].
  destruct (rxm R_SCRIPT_IF_ELSE line); [|cls H|cls H].
  destruct (rxm R_SCRIPT_IF_END line); [|cls H|cls H].
  destruct (rxm R_SCRIPT_WHILE_BEGIN line); [|destruct (stmt_expr _ _ _ _); cls H|cls H].
  destruct (rxm R_SCRIPT_WHILE_END line); [|cls H|cls H].
  destruct (rxm R_SCRIPT_FOR_BEGIN line); [|destruct (stmt_expr _ _ _ _); cls H|cls H].
  destruct (rxm R_SCRIPT_FOR_END line); [|cls H|cls H].
  destruct (rxm R_SCRIPT_BREAK line); [|cls H|cls H].
  destruct (rxm R_SCRIPT_CONTINUE line); [|cls H|cls H].
  destruct (rxm R_SCRIPT_LABEL line); [|cls H|cls H].
  destruct (rxm R_SCRIPT_JUMP line) as [|ep c|];
    [|destruct (gtext line c R_SCRIPT_JUMP__expr); [cls H|destruct (stmt_expr _ _ _ _); cls H]|cls H].
  destruct (rxm R_SCRIPT_RETURN line) as [|ep c|];
    [|destruct (gtext line c R_SCRIPT_RETURN__expr); [cls H|destruct (stmt_expr _ _ _ _); cls H]|cls H].
  destruct (rxm R_SCRIPT_INCLUDE line).
  - destruct (rxm R_SCRIPT_INCLUDE_SYSTEM line); [|cls H|cls H].
    destruct (parse_expression line); cls H.
  - destruct (unesc _ _); cls H.
  - cls H.
Qed.

Definition frame_schema (f : frame) : Prop :=
  match f with FWhile _ _ _ e _ _ _ => expr_schema e = true | _ => True end.

Definition st_schema (ps : pstate) : Prop :=
  forallb stmt_schema (cur_stmts ps) = true /\
  match ps_fn ps with Some fo => script_schema (ps_global ps) = true /\ fo_args fo <> Some [] | None => True end /\
  Forall frame_schema (ps_frames ps).

Lemma st_schema_put ps o' fr' n' : st_schema ps -> forallb stmt_schema o' = true -> Forall frame_schema fr' ->
  st_schema (put ps o' fr' n').
Proof. destruct ps as [g [fo|] fd fr ix]; unfold st_schema; cbn; intros (A & B & C) Ho Hf; auto. Qed.

Lemma if_nil_cons {A} (b : bool) (l : list A) x r : (if b then l else []) = x :: r -> l = x :: r.
Proof. destruct b; [auto|discriminate]. Qed.

Lemma find_loop_In : forall fs k0 k f, find_loop fs k0 = Some (k, f) -> In f fs.
Proof.
  induction fs as [|x fs IH]; cbn; intros k0 k f H; [discriminate|].
  destruct (is_if_frame x); [right; eapply IH; eauto|injection H as _ <-; auto].
Qed.
Lemma Forall_set_nth (P : frame -> Prop) g : forall fs k, Forall P fs -> P g -> Forall P (set_nth_frame fs k g).
Proof.
  induction fs as [|x fs IH]; intros [|k] F Hg; cbn; auto; inversion F; subst; constructor; auto.
Qed.

Lemma retarget_schema d : forall c pos c', retarget pos d c = Some c' -> forallb stmt_schema c = true -> forallb stmt_schema c' = true.
Proof.
  induction c as [|s c IH]; intros [|p] c' H S; rewrite ?retarget_nil, ?retarget_S, ?retarget_0 in H; try discriminate.
  - destruct s; try discriminate. injection H as <-. exact S.
  - destruct (retarget p d c) as [c0|] eqn:E; [|discriminate]. injection H as <-. cbn in *.
    apply andb_true_iff in S. destruct S as [S1 S2]. rewrite S1. cbn. eapply IH; eauto.
Qed.

Theorem kstep_schema ps lineno line k ps' :
  kind_schema k = true -> kind_args_ok k = true -> st_schema ps -> kstep ps lineno line k = ROk ps' -> st_schema ps'.
Proof.
  intros Hk Ha HS H. pose proof HS as (So & Sg & Sf).
  assert (APP : forall add, forallb stmt_schema add = true -> forallb stmt_schema (cur_stmts ps ++ add) = true)
    by (intros add Hadd; rewrite forallb_app, So, Hadd; reflexivity).
  destruct k as [nm e|nm args asy la| |e|re| | |e| |vn ixn e| | | |name|name cnd|e|url sys|e]; cbn [kstep kind_schema kind_args_ok] in H, Hk, Ha.
  - rok H. rewrite put_emit. apply st_schema_put; auto. apply APP. cbn. rewrite Hk. reflexivity.
  - destruct (ps_fn ps) eqn:Efn; [discriminate|]. destruct args as [a| | |]; try discriminate. rok H.
    unfold st_schema, cur_stmts in *. rewrite Efn in *. cbn. repeat split; auto. intros ->. discriminate.
  - destruct (ps_fn ps) as [fo|] eqn:Efn; [|discriminate].
    destruct (Nat.ltb (ps_fn_depth ps) (length (ps_frames ps))); [destruct (ps_frames ps); discriminate|]. rok H.
    unfold st_schema, cur_stmts in *. rewrite Efn in *. cbn. destruct Sg as [Sg Sa]. repeat split; auto.
    unfold script_schema in *. rewrite forallb_app, Sg. cbn. rewrite So. destruct (fo_args fo) as [[|]|]; try reflexivity. congruence.
  - rok H. rewrite put_emit, put_set_frames, put_bump. apply st_schema_put; auto; try (apply APP; cbn; rewrite ?Hk; reflexivity); try (constructor; [first [exact I | assumption]|auto]).
  - destruct (if Nat.ltb (depth_floor ps) (length (ps_frames ps)) then ps_frames ps else []) as [|[pos p d [|] ln lno| |] rest] eqn:E; try discriminate.
    apply if_nil_cons in E. destruct re as [e| | |]; try discriminate. rok H.
    rewrite put_emit, put_set_frames, put_bump. rewrite E in Sf. inversion Sf; subst.
    apply st_schema_put; auto; try (apply APP; cbn; rewrite ?Hk; reflexivity); try (constructor; [first [exact I | assumption]|auto]).
  - destruct (if Nat.ltb (depth_floor ps) (length (ps_frames ps)) then ps_frames ps else []) as [|[pos p d [|] ln lno| |] rest] eqn:E; try discriminate.
    apply if_nil_cons in E. rok H.
    rewrite put_emit, put_set_frames. apply st_schema_put; auto.
    rewrite E in Sf. inversion Sf; subst. constructor; [exact I|auto].
  - destruct (if Nat.ltb (depth_floor ps) (length (ps_frames ps)) then ps_frames ps else []) as [|[pos p d he ln lno| |] rest] eqn:E; try discriminate.
    apply if_nil_cons in E. rewrite E in Sf. inversion Sf; subst.
    destruct he.
    + rok H. rewrite put_set_stmts, put_set_frames. apply st_schema_put; auto.
    + destruct (retarget pos d (cur_stmts ps)) as [o'|] eqn:R; [|discriminate]. rok H.
      rewrite put_set_stmts, put_set_frames. apply st_schema_put; auto.
      rewrite forallb_app. erewrite retarget_schema; eauto.
  - rok H. rewrite put_emit, put_set_frames, put_bump. apply st_schema_put; auto; try (apply APP; cbn; rewrite ?Hk; reflexivity); try (constructor; [first [exact I | assumption]|auto]).
  - destruct (Nat.leb _ _); [discriminate|]. destruct (ps_frames ps) as [|[|l c d e hc ln lno|] rest] eqn:E; try discriminate. rok H.
    inversion Sf; subst. rewrite put_emit, put_set_frames. apply st_schema_put; auto.
    apply APP. cbn in *. rewrite H1. reflexivity.
  - rok H. rewrite put_emit, put_set_frames, put_bump. apply st_schema_put; auto; try (apply APP; cbn; rewrite ?Hk; reflexivity); try (constructor; [first [exact I | assumption]|auto]).
  - destruct (Nat.leb _ _); [discriminate|]. destruct (ps_frames ps) as [|[| |l c d ix vs len v hc ln lno] rest] eqn:E; try discriminate. rok H.
    inversion Sf; subst. rewrite put_emit, put_set_frames. apply st_schema_put; auto.
    apply APP. destruct hc; reflexivity.
  - destruct (find_loop (ps_frames ps) 0) as [[k f]|] eqn:E; [|discriminate].
    destruct (Nat.ltb _ _); [discriminate|]. rok H. rewrite put_emit. apply st_schema_put; auto.
  - destruct (find_loop (ps_frames ps) 0) as [[k f]|] eqn:E; [|discriminate].
    destruct (Nat.ltb _ _); [discriminate|]. rok H. rewrite put_emit_set_frames. apply st_schema_put; auto.
    apply Forall_set_nth; auto. apply find_loop_In in E. rewrite Forall_forall in Sf. specialize (Sf _ E).
    destruct f; cbn in *; auto.
  - rok H. rewrite put_emit. apply st_schema_put; auto.
  - rok H. rewrite put_emit. apply st_schema_put; auto. apply APP. cbn. rewrite Hk. reflexivity.
  - rok H. rewrite put_emit. apply st_schema_put; auto. apply APP. cbn. rewrite Hk. reflexivity.
  - destruct (last_is_include (cur_stmts ps)) as [[front incs]|] eqn:E; rok H.
    + apply last_is_include_spec in E. rewrite put_set_stmts. apply st_schema_put; auto.
      rewrite E, forallb_app in So. apply andb_true_iff in So. destruct So as [So _].
      rewrite forallb_app, So. cbn. destruct incs; reflexivity.
    + rewrite put_emit. apply st_schema_put; auto.
  - rok H. rewrite put_emit. apply st_schema_put; auto. apply APP. cbn. rewrite Hk. reflexivity.
Qed.

Lemma st_schema_init : st_schema ps_init.
Proof. unfold st_schema. cbn. auto. Qed.

Lemma pstep_schema ps n line ps' : line_schema n line = true -> st_schema ps -> pstep ps n line = ROk ps' -> st_schema ps'.
Proof.
  intros Hc HI H. rewrite pstep_classify in H. unfold line_schema in Hc.
  destruct (classify n line) as [k| | |] eqn:E; try discriminate. cbn in H.
  eapply kstep_schema; eauto. eapply classify_args_ok; eauto.
Qed.

Lemma ploop_schema : forall lines ix ls ps start ls' ps',
  forallb (fun il => line_schema (start + fst il) (snd il)) (logical_lines lines ix ls) = true ->
  st_schema ps -> ploop lines ix ls ps start = ROk (ls', ps') -> st_schema ps'.
Proof.
  induction lines as [|part rest IH]; intros ix ls ps start ls' ps' Hc HI H; cbn in H, Hc.
  - injection H as _ <-. exact HI.
  - destruct (lstep ls ix part) as [st|st ixl line|bad].
    + eapply IH; eauto.
    + cbn in Hc. apply andb_true_iff in Hc. destruct Hc as [Hc1 Hc2].
      destruct (pstep ps (start + ixl) line) as [ps1| | |] eqn:E; try discriminate.
      eapply IH; [exact Hc2| |exact H]. eapply pstep_schema; eauto.
    + destruct bad; discriminate.
Qed.

Theorem parse_script_schema chunks start code :
  parse_script chunks start = ROk code -> user_exprs_schema chunks start = true -> script_schema code = true.
Proof.
  unfold parse_script, user_exprs_schema, script_lines. intros H Hc.
  destruct (split_chunks chunks) as [lines| | |]; try discriminate.
  destruct (ploop lines 0 _ ps_init start) as [[ls ps]| | |] eqn:E; try discriminate.
  pose proof (ploop_schema _ _ _ _ _ _ _ Hc st_schema_init E) as (So & Sg & Sf).
  unfold pfinish in H. destruct (l_cont ls); [|discriminate].
  destruct (ps_frames ps) eqn:Efr; [|discriminate]. destruct (ps_fn ps) eqn:Efn; [discriminate|]. injection H as <-.
  unfold cur_stmts in So. rewrite Efn in So. exact So.
Qed.

(* ================= G. statements in the vocabulary of Script.v ================= *)
Definition LABEL_PREFIXES : list str := [L_If; L_Done; L_Loop; L_Continue].

Lemma lbl_inj P n P' n' : In P LABEL_PREFIXES -> In P' LABEL_PREFIXES -> lbl P n = lbl P' n' -> P = P' /\ n = n'.
Proof.
  intros HP HP' H.
  assert (EP : exists k, P = pfx k) by (cbn in HP; destruct HP as [<-|[<-|[<-|[<-|[]]]]]; [exists KdIf|exists KdDone|exists KdLoop|exists KdCont]; reflexivity).
  assert (EP' : exists k, P' = pfx k) by (cbn in HP'; destruct HP' as [<-|[<-|[<-|[<-|[]]]]]; [exists KdIf|exists KdDone|exists KdLoop|exists KdCont]; reflexivity).
  destruct EP as [k ->], EP' as [k' ->]. apply (glbl_inj k n k' n') in H. destruct H as [-> ->]. auto.
Qed.

Lemma lbl_reserved P n : In P LABEL_PREFIXES -> reserved (lbl P n) = true.
Proof. intros HP. cbn in HP. destruct HP as [<-|[<-|[<-|[<-|[]]]]]; reflexivity. Qed.

(* the model's endif never fails to find the pending jump it has to retarget *)
Lemma endif_finds_its_jump ps n line w : PInv ps -> kstep ps n line KEndif <> RHost w.
Proof.
  intros (top & bot & Hfr & Hlen & HI & _) H. cbn [kstep] in H. rewrite (visible_top ps top bot Hfr Hlen) in H.
  destruct top as [|[pos p d [|] ln lno| |] top]; try discriminate.
  pose proof (inv_fok _ _ _ HI) as F. inversion F as [|? ? Ff F']; subst. cbn in Ff. destruct Ff as (_ & _ & _ & cnd & Hn).
  destruct (retarget_some d p cnd _ _ Hn) as [c' R]. rewrite R in H. discriminate.
Qed.

Theorem parse_script_scopes_wf chunks start code :
  parse_script chunks start = ROk code -> user_clean chunks start = true ->
  forall c, is_scope code c -> forall l, reserved l = true ->
    (1 <= refs l c -> defs l c = 1) /\ (1 <= defs l c -> 1 <= refs l c).
Proof. intros H Hc c Hs. eapply script_wf_scope; [eapply parse_script_wf; eauto|exact Hs]. Qed.

Theorem parse_script_wfb chunks start code :
  parse_script chunks start = ROk code -> user_clean chunks start = true -> script_wfb code = true.
Proof. intros H Hc. apply script_wfb_iff. eapply parse_script_wf; eauto. Qed.

Theorem parse_script_no_unknown_label chunks start code :
  parse_script chunks start = ROk code -> user_clean chunks start = true ->
  forall c l cnd, is_scope code c -> In (SJump l cnd) c -> reserved l = true -> exists j, find_first_label l c 0 = Some j.
Proof.
  intros H Hc c l cnd Hs Hin Hr. eapply scope_wf_jump_resolves; eauto.
  eapply script_wf_scope; [eapply parse_script_wf; eauto|exact Hs].
Qed.

Theorem parse_script_lint_quiet chunks start code :
  parse_script chunks start = ROk code -> user_clean chunks start = true ->
  forall c l, is_scope code c -> In l (lint_labels c) -> reserved l = false.
Proof.
  intros H Hc c l Hs Hin. eapply scope_wf_lint_quiet; eauto.
  eapply script_wf_scope; [eapply parse_script_wf; eauto|exact Hs].
Qed.
