(* Proofs/C15histg.v — C15 history with strings: the commuting square for OPS_S = OPS + the 15 string functions. *)
From Coq Require Import Lia.
From BS Require Import Model.Base Model.Num Model.LibVal Gen.ArgSpecs Model.LibSeq Proofs.BaseFacts Proofs.C15 Proofs.C15spec
  Proofs.C15hist Proofs.C15histd Proofs.C15spec2 Proofs.C15hists Proofs.C15histt.
Local Open Scope Z_scope.

(* ---- the square over any table of operations each of which the model refines *)
Definition tbl_refined (tbl : list (str * spfun)) : Prop :=
  forall f, in_tbl tbl f = true -> forall args h, abs_call (lib f args h) = call_in tbl f args (abs h).

Lemma run_op_refines_in : forall tbl, tbl_refined tbl ->
  forall s o, op_in_tbl tbl o = true -> abs_st (run_op s o) = step_in tbl (abs_st s) o.
Proof.
  intros tbl T [[e h]|] o O; [|reflexivity]. destruct o as [f l|n|v]; simpl.
  - destruct (eval_args e l) as [vs|]; [|reflexivity].
    rewrite <- (T f O vs h). unfold abs_call.
    destruct (lib f vs h) as [r h']. rewrite wrapper_res_abs. simpl. destruct (res_abs r); reflexivity.
  - destruct (nth_error e n); reflexivity.
  - reflexivity.
Qed.

Theorem history_refines_in : forall tbl, tbl_refined tbl ->
  forall ops s, forallb (op_in_tbl tbl) ops = true ->
  abs_st (fold_left run_op ops s) = fold_left (step_in tbl) ops (abs_st s).
Proof.
  intros tbl T. induction ops as [|o ops IH]; intros s H; [reflexivity|].
  simpl in H. apply andb_true_iff in H. destruct H as [O H]. simpl. rewrite IH by exact H.
  rewrite (run_op_refines_in tbl T) by exact O. reflexivity.
Qed.

(* ---- the 15 string functions *)
Theorem string_table_refined : tbl_refined string_table.
Proof.
  intros f. unfold in_tbl, call_in, string_table. cbn [assoc].
  repeat match goal with
  | |- context [str_eqb f ?s] =>
      let E := fresh "E" in
      destruct (str_eqb f s) eqn:E;
      [ apply str_eqb_eq in E; subst f; intros _;
        first [ exact step_stringCharCodeAt | exact step_stringEndsWith | exact step_stringStartsWith | exact step_stringFromCharCode
              | exact step_stringIndexOf | exact step_stringLastIndexOf | exact step_stringLength | exact step_stringRepeat
              | exact step_stringReplace | exact step_stringSlice | exact step_stringSplit | exact step_stringTrim
              | exact step_regexEscape | exact step_urlEncode | exact step_urlEncodeComponent ]
      | clear E ]
  end.
  discriminate.
Qed.

Lemma assoc_app : forall {A} (k : str) (l1 l2 : list (str * A)),
  assoc k (l1 ++ l2) = match assoc k l1 with Some v => Some v | None => assoc k l2 end.
Proof. induction l1 as [|[k' v] l1 IH]; intros; simpl; [reflexivity|]. destruct (str_eqb k k'); auto. Qed.

Theorem spec_table_s_refined : tbl_refined spec_table_s.
Proof.
  intros f. unfold in_tbl, call_in, spec_table_s. rewrite assoc_app. intros I args h.
  destruct (assoc f spec_table) as [g|] eqn:E.
  - rewrite (spec_call_refines f). + unfold spec_call. rewrite E. reflexivity. + unfold in_OPS. rewrite E. reflexivity.
  - apply (string_table_refined f). exact I.
Qed.

(* OPS_S extends OPS conservatively *)
Lemma spec_call_s_conservative : forall f, in_OPS f = true -> forall args m, spec_call_s f args m = spec_call f args m.
Proof.
  intros f I args m. unfold spec_call_s, call_in, spec_table_s, spec_call, in_OPS in *. rewrite assoc_app.
  destruct (assoc f spec_table); [reflexivity|discriminate].
Qed.
Lemma in_OPS_in_OPS_s : forall f, in_OPS f = true -> in_OPS_s f = true.
Proof. intros f I. unfold in_OPS_s, in_tbl, spec_table_s, in_OPS in *. rewrite assoc_app. destruct (assoc f spec_table); [reflexivity|discriminate]. Qed.

Theorem spec_call_s_refines : forall f, in_OPS_s f = true -> forall args h, abs_call (lib f args h) = spec_call_s f args (abs h).
Proof. exact spec_table_s_refined. Qed.

(* HISTORY with strings *)
Theorem history_refines_s : forall ops s, forallb op_in_OPS_s ops = true ->
  abs_st (fold_left run_op ops s) = fold_left spec_step_s ops (abs_st s).
Proof. exact (history_refines_in spec_table_s spec_table_s_refined). Qed.
