(* Proofs/C15histi.v — C15 history, searches (continued): the two step lemmas for EVERY argument list (under "no LFuel"),
   and: on a well-formed acyclic heap with well-formed arguments the model never answers LFuel. *)
From Coq Require Import Lia ZifyBool SpecFloat.
From BS Require Import Model.Base Model.Num Model.LibVal Gen.ArgSpecs Model.LibSeq Proofs.BaseFacts Proofs.C15 Proofs.C15spec
  Proofs.C15hist Proofs.C15spec2 Proofs.C15tac Proofs.C15aeq Proofs.C15histh.
Local Open Scope Z_scope.
Local Opaque compare_fuel.

Definition refinesR (name : str) (rq : list value -> astate -> sreq) : Prop :=
  forall args h, fst (lib name args h) <> LFuel -> search_out (abs h) (rq args (abs h)) (abs_call (lib name args h)).

Ltac now_ := intros _; exact (so_now _ _).
Ltac goR name k := lib_open name k; repeat first [ now_ | progress validate_step | num_cases ].

Lemma stepR_arrayIndexOf : refinesR (U "arrayIndexOf") rq_arrayIndexOf.
Proof.
  intros args h. destruct args as [|a1 [|a2 [|a3 [|a4 rest]]]].
  - goR (U "arrayIndexOf") k_arrayIndexOf.
  - destruct a1; try (goR (U "arrayIndexOf") k_arrayIndexOf; fail).
    lib_open (U "arrayIndexOf") k_arrayIndexOf. unfold rq_arrayIndexOf, rq_first. change (arg_index (vint 0)) with (Some 0).
    apply (first_core h l VNull (NInt 0) 0); [apply integral_int | lia].
  - destruct a1; try (goR (U "arrayIndexOf") k_arrayIndexOf; fail).
    lib_open (U "arrayIndexOf") k_arrayIndexOf. unfold rq_arrayIndexOf, rq_first. change (arg_index (vint 0)) with (Some 0).
    apply (first_core h l a2 (NInt 0) 0); [apply integral_int | lia].
  - destruct a1; try (goR (U "arrayIndexOf") k_arrayIndexOf; fail).
    destruct a3; try (goR (U "arrayIndexOf") k_arrayIndexOf; fail).
    lib_open (U "arrayIndexOf") k_arrayIndexOf. unfold rq_arrayIndexOf, rq_first. num_cases2.
    + validate_step. apply first_core; auto.
    + unfold bad_index. destruct (nonfinite (VNum n)); now_.
  - destruct a1; try (goR (U "arrayIndexOf") k_arrayIndexOf; fail).
    destruct a3; try (goR (U "arrayIndexOf") k_arrayIndexOf; fail).
    lib_open (U "arrayIndexOf") k_arrayIndexOf. unfold rq_arrayIndexOf, bad_index. num_cases2.
    + validate_step. rewrite (integral_finite _ _ Hi). now_.
    + destruct (nonfinite (VNum n)); now_.
Qed.

Lemma stepR_arrayLastIndexOf : refinesR (U "arrayLastIndexOf") rq_arrayLastIndexOf.
Proof.
  intros args h. destruct args as [|a1 [|a2 [|a3 [|a4 rest]]]].
  - goR (U "arrayLastIndexOf") k_arrayLastIndexOf.
  - destruct a1; try (goR (U "arrayLastIndexOf") k_arrayLastIndexOf; fail).
    lib_open (U "arrayLastIndexOf") k_arrayLastIndexOf. unfold rq_arrayLastIndexOf, rq_last.
    apply (last_core h l VNull VNull None). reflexivity.
  - destruct a1; try (goR (U "arrayLastIndexOf") k_arrayLastIndexOf; fail).
    lib_open (U "arrayLastIndexOf") k_arrayLastIndexOf. unfold rq_arrayLastIndexOf, rq_last.
    apply (last_core h l a2 VNull None). reflexivity.
  - destruct a1; try (goR (U "arrayLastIndexOf") k_arrayLastIndexOf; fail).
    destruct a3; try (goR (U "arrayLastIndexOf") k_arrayLastIndexOf; fail).
    + lib_open (U "arrayLastIndexOf") k_arrayLastIndexOf. unfold rq_arrayLastIndexOf, rq_last.
      apply (last_core h l a2 VNull None). reflexivity.
    + lib_open (U "arrayLastIndexOf") k_arrayLastIndexOf. unfold rq_arrayLastIndexOf, rq_last, opt_index.
      num_cases2; cbn [option_map].
      * validate_step. apply (last_core h l a2 (VNum n) (Some z)). eauto.
      * unfold bad_index. destruct (nonfinite (VNum n)); now_.
  - destruct a1; try (goR (U "arrayLastIndexOf") k_arrayLastIndexOf; fail).
    destruct a3; try (goR (U "arrayLastIndexOf") k_arrayLastIndexOf; fail).
    lib_open (U "arrayLastIndexOf") k_arrayLastIndexOf. unfold rq_arrayLastIndexOf, bad_index. num_cases2.
    + validate_step. rewrite (integral_finite _ _ Hi). now_.
    + destruct (nonfinite (VNum n)); now_.
Qed.
