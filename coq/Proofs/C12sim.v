(* Proofs/C12sim.v — property C12, the simulation "equal up to the spelling of integral numbers":
   the relations on values / cells / heaps / results, and the congruence lemmas of every primitive of Model/LibSeq.v
   that looks at a value (exact comparison, int(), the guards, the fuelled deep equality veq, lists, dicts, the heap).

   WHICH NUMBERS ARE RELATED.  [nsim a b] (Proofs/C12.v): a and b are the SAME num, or both are integral with the same
   exact value z (NInt z, and every NFlt whose exact value is z: 2 ~ 2.0, 0 ~ 0.0 ~ -0.0, no magnitude bound).
   Non-integral numbers, infinities and nan are related only to themselves (same spec_float).  Everything that is not
   a number is related only to itself: same strings, same booleans, same dates, SAME LOCATIONS. *)
From Coq Require Import Lia ZifyBool SpecFloat.
From BS Require Import Model.Base Model.Num Model.LibVal Gen.ArgSpecs Model.LibSeq Proofs.BaseFacts Proofs.C15 Proofs.C12.
Local Open Scope Z_scope.

(* ====================================================================== the relations *)
Inductive vsim : value -> value -> Prop :=
| vs_num : forall n1 n2, nsim n1 n2 -> vsim (VNum n1) (VNum n2)
| vs_same : forall v, vsim v v.
Definition psim (p q : str * value) : Prop := fst p = fst q /\ vsim (snd p) (snd q).
Definition vssim := Forall2 vsim.
Definition kvsim := Forall2 psim.
Inductive csim : cell -> cell -> Prop :=
| cs_arr : forall xs ys, Forall2 vsim xs ys -> csim (CArr xs) (CArr ys)
| cs_obj : forall kv kv', Forall2 psim kv kv' -> csim (CObj kv) (CObj kv').
Definition hsim : heap -> heap -> Prop := Forall2 csim.
Inductive rsim : libres -> libres -> Prop :=
| rs_ok : forall v v', vsim v v' -> rsim (LOk v) (LOk v')
| rs_err : forall v v', vsim v v' -> rsim (LArgsErr v) (LArgsErr v')
| rs_same : forall r, rsim r r.
(* outcome of a call: result (or failure) and the heap afterwards *)
Definition osim (p q : libres * heap) : Prop := rsim (fst p) (fst q) /\ hsim (snd p) (snd q).

Inductive vasim : varg -> varg -> Prop :=
| va_v : forall v v', vsim v v' -> vasim (AV v) (AV v')
| va_l : forall l l', Forall2 vsim l l' -> vasim (AL l) (AL l').
Inductive vrsim : vres -> vres -> Prop :=
| vr_ok : forall l l', Forall2 vasim l l' -> vrsim (VOk l) (VOk l')
| vr_same : forall r, vrsim r r.

Definition orel {A} (R : A -> A -> Prop) (a b : option A) : Prop :=
  match a, b with Some x, Some y => R x y | None, None => True | _, _ => False end.

(* ====================================================================== numbers *)
Lemma integral_fun : forall n z w, integral n z -> integral n w -> z = w.
Proof. intros n z w [A _] [B _]. congruence. Qed.
Lemma nsim_refl : forall a, nsim a a.
Proof. left. reflexivity. Qed.
Lemma nsim_sym : forall a b, nsim a b -> nsim b a.
Proof. intros a b [->|(z & A & B)]; [left; reflexivity | right; exists z; auto]. Qed.
Lemma nsim_trans : forall a b c, nsim a b -> nsim b c -> nsim a c.
Proof.
  intros a b c [->|(z & A & B)] H; auto. destruct H as [<-|(w & C & D)]; [right; exists z; auto|].
  rewrite <- (integral_fun _ _ _ B C) in D. right. exists z. auto.
Qed.

(* comparing two dyadics: any common scaling gives the same answer *)
Lemma dy_scale : forall m1 e1 m2 e2 K, 0 <= e1 + K -> 0 <= e2 + K ->
  (m1 * 2 ^ (e1 - Z.min e1 e2) ?= m2 * 2 ^ (e2 - Z.min e1 e2)) = (m1 * 2 ^ (e1 + K) ?= m2 * 2 ^ (e2 + K)).
Proof.
  intros m1 e1 m2 e2 K H1 H2. set (mn := Z.min e1 e2). assert (Hm : mn <= e1 /\ mn <= e2 /\ 0 <= mn + K) by (unfold mn; lia).
  replace (e1 + K) with ((e1 - mn) + (mn + K)) by lia. replace (e2 + K) with ((e2 - mn) + (mn + K)) by lia.
  rewrite (Z.pow_add_r 2 (e1 - mn) (mn + K)), (Z.pow_add_r 2 (e2 - mn) (mn + K)) by lia. rewrite !Z.mul_assoc.
  apply Zmult_compare_compat_r. pose proof (pow2_pos (mn + K)). lia.
Qed.

(* numbers with equal exact value compare alike with every third number, on either side *)
Lemma xcmp_congr : forall x1 x2, xcmp x1 x2 = Some Eq -> forall y, xcmp x1 y = xcmp x2 y /\ xcmp y x1 = xcmp y x2.
Proof.
  intros x1 x2 H y.
  destruct x1 as [|s1|m1 e1]; [discriminate| |].
  - destruct x2 as [|s2|m2 e2]; try discriminate; [|destruct s1; discriminate]. destruct s1, s2; try discriminate; split; reflexivity.
  - destruct x2 as [|s2|m2 e2]; try discriminate; [destruct s2; discriminate|].
    destruct y as [|s|m e]; [split; reflexivity | split; reflexivity |].
    set (K := Z.max 0 (Z.max (- e1) (Z.max (- e2) (- e)))).
    assert (HK : 0 <= e1 + K /\ 0 <= e2 + K /\ 0 <= e + K) by (unfold K; lia). destruct HK as (K1 & K2 & K3).
    unfold xcmp in *. injection H as H. rewrite (dy_scale _ _ _ _ K K1 K2) in H. apply Z.compare_eq in H.
    rewrite (dy_scale _ _ _ _ K K1 K3), (dy_scale _ _ _ _ K K2 K3), (dy_scale _ _ _ _ K K3 K1), (dy_scale _ _ _ _ K K3 K2).
    rewrite H. auto.
Qed.

Lemma num_cmp_integral_l : forall a z b, integral a z -> num_cmp a b = num_cmp (NInt z) b.
Proof.
  intros a z b [_ H]. unfold num_eq, num_cmp in *.
  assert (E : xcmp (num_x (NInt z)) (num_x a) = Some Eq) by (destruct (xcmp (num_x (NInt z)) (num_x a)) as [[]|]; congruence).
  symmetry. apply (xcmp_congr _ _ E).
Qed.
Lemma num_cmp_integral_r : forall a z b, integral a z -> num_cmp b a = num_cmp b (NInt z).
Proof.
  intros a z b [_ H]. unfold num_eq, num_cmp in *.
  assert (E : xcmp (num_x (NInt z)) (num_x a) = Some Eq) by (destruct (xcmp (num_x (NInt z)) (num_x a)) as [[]|]; congruence).
  symmetry. apply (xcmp_congr _ _ E).
Qed.
Lemma num_cmp_sim : forall a a' b b', nsim a a' -> nsim b b' -> num_cmp a b = num_cmp a' b'.
Proof.
  intros a a' b b' [->|(z & A & A')] [->|(w & B & B')]; auto.
  - rewrite (num_cmp_integral_r _ _ _ B), (num_cmp_integral_r _ _ _ B'). reflexivity.
  - rewrite (num_cmp_integral_l _ _ _ A), (num_cmp_integral_l _ _ _ A'). reflexivity.
  - rewrite (num_cmp_integral_l _ _ _ A), (num_cmp_integral_l _ _ _ A'), (num_cmp_integral_r _ _ _ B), (num_cmp_integral_r _ _ _ B').
    reflexivity.
Qed.
(* Python's == on numbers respects the spelling relation in BOTH operands (needles, elements) *)
Lemma num_eq_sim : forall a a' b b', nsim a a' -> nsim b b' -> num_eq a b = num_eq a' b'.
Proof. intros. unfold num_eq. rewrite (num_cmp_sim a a' b b'); auto. Qed.

(* ====================================================================== values *)
Lemma vsim_refl : forall v, vsim v v. Proof. exact vs_same. Qed.
Lemma vsim_sym : forall a b, vsim a b -> vsim b a.
Proof. intros a b [n1 n2 H|v]; [apply vs_num, nsim_sym, H | apply vs_same]. Qed.
Lemma vsim_trans : forall a b c, vsim a b -> vsim b c -> vsim a c.
Proof.
  intros a b c H1 H2. inversion H1; subst; auto. inversion H2; subst; auto. apply vs_num. eapply nsim_trans; eauto.
Qed.
Lemma vsim_vint : forall z, vsim (vint z) (vint z). Proof. intro. apply vs_same. Qed.

Lemma as_num_sim : forall v v', vsim v v' -> orel nsim (as_num v) (as_num v').
Proof. intros v v' [n1 n2 H|[]]; simpl; auto using nsim_refl. Qed.
Lemma type_name_sim : forall v v', vsim v v' -> type_name v = type_name v'.
Proof. intros v v' [n1 n2 H|w]; reflexivity. Qed.
Lemma type_ok_sim : forall t v v', vsim v v' -> type_ok t v = type_ok t v'.
Proof. intros t v v' [n1 n2 H|w]; reflexivity. Qed.
Lemma index_guard_vsim : forall v v' k, vsim v v' -> index_guard v k = index_guard v' k.
Proof. intros v v' k [n1 n2 H|w]; [apply index_guard_sim; exact H | reflexivity]. Qed.
Lemma null_default_sim : forall v v' d, vsim v v' ->
  vsim (match v with VNull => d | _ => v end) (match v' with VNull => d | _ => v' end).
Proof. intros v v' d [n1 n2 H|[]]; try apply vs_same. apply vs_num, H. Qed.

(* ====================================================================== lists *)
Lemma F2_refl : forall {A} (R : A -> A -> Prop), (forall x, R x x) -> forall l, Forall2 R l l.
Proof. intros A R H l. induction l; constructor; auto. Qed.
Lemma vssim_refl : forall l, Forall2 vsim l l. Proof. apply F2_refl, vs_same. Qed.
Lemma psim_refl : forall p, psim p p. Proof. intro. split; [reflexivity | apply vs_same]. Qed.
Lemma kvsim_refl : forall l, Forall2 psim l l. Proof. apply F2_refl, psim_refl. Qed.
Lemma csim_refl : forall c, csim c c. Proof. intros [xs|kv]; constructor; [apply vssim_refl | apply kvsim_refl]. Qed.
Lemma hsim_refl : forall h, hsim h h. Proof. apply F2_refl, csim_refl. Qed.

Lemma F2_length : forall {A} (R : A -> A -> Prop) xs ys, Forall2 R xs ys -> length xs = length ys.
Proof. intros A R xs ys H. induction H; simpl; auto. Qed.
Arguments F2_length {A R xs ys} _.
Lemma F2_nth_error : forall {A} (R : A -> A -> Prop) xs ys i, Forall2 R xs ys -> orel R (nth_error xs i) (nth_error ys i).
Proof. intros A R xs ys i H. revert i. induction H; intros [|i]; simpl; auto. Qed.
Lemma F2_skipn : forall {A} (R : A -> A -> Prop) n xs ys, Forall2 R xs ys -> Forall2 R (skipn n xs) (skipn n ys).
Proof. intros A R n. induction n; intros xs ys H; simpl; auto. destruct H; auto. Qed.
Lemma F2_firstn : forall {A} (R : A -> A -> Prop) n xs ys, Forall2 R xs ys -> Forall2 R (firstn n xs) (firstn n ys).
Proof. intros A R n. induction n; intros xs ys H; simpl; auto. destruct H; auto. Qed.
Lemma F2_rev : forall {A} (R : A -> A -> Prop) xs ys, Forall2 R xs ys -> Forall2 R (rev xs) (rev ys).
Proof. intros A R xs ys H. induction H; simpl; auto using Forall2_app. Qed.
Lemma F2_removelast : forall {A} (R : A -> A -> Prop) xs ys, Forall2 R xs ys -> Forall2 R (removelast xs) (removelast ys).
Proof. intros A R xs ys H. induction H; simpl; auto. destruct H0; auto. Qed.
Lemma F2_remove_nth : forall {A} (R : A -> A -> Prop) i xs ys, Forall2 R xs ys -> Forall2 R (remove_nth xs i) (remove_nth ys i).
Proof. intros A R i xs ys H. revert i. induction H; intros [|i]; simpl; auto. Qed.
Lemma F2_set_nth : forall {A} (R : A -> A -> Prop) i xs ys v w, Forall2 R xs ys -> R v w ->
  Forall2 R (set_nth xs i v) (set_nth ys i w).
Proof. intros A R i xs ys v w H V. revert i. induction H; intros [|i]; simpl; auto. Qed.
Lemma F2_repeat : forall {A} (R : A -> A -> Prop) n v w, R v w -> Forall2 R (repeat v n) (repeat w n).
Proof. intros A R n v w H. induction n; simpl; auto. Qed.
Lemma F2_py_slice : forall {A} (R : A -> A -> Prop) xs ys a b, Forall2 R xs ys -> Forall2 R (py_slice xs a b) (py_slice ys a b).
Proof. intros A R xs ys a b H. unfold py_slice. rewrite <- (F2_length H). apply F2_skipn, F2_firstn, H. Qed.

(* ====================================================================== dicts *)
Lemma assoc_sim : forall k kv kv', Forall2 psim kv kv' -> orel vsim (assoc k kv) (assoc k kv').
Proof.
  intros k kv kv' H. induction H as [|[k1 v1] [k2 v2] l l' [E V] H IH]; simpl in *; auto. subst.
  destruct (str_eqb k k2); auto.
Qed.
Lemma dict_set_sim : forall k v v' kv kv', Forall2 psim kv kv' -> vsim v v' -> Forall2 psim (dict_set kv k v) (dict_set kv' k v').
Proof.
  intros k v v' kv kv' H V. induction H as [|[k1 v1] [k2 v2] l l' [E W] H IH]; simpl in *.
  - constructor; [split; auto | constructor].
  - subst. destruct (str_eqb k k2); constructor; auto; split; auto.
Qed.
Lemma dict_del_sim : forall k kv kv', Forall2 psim kv kv' -> Forall2 psim (dict_del kv k) (dict_del kv' k).
Proof.
  intros k kv kv' H. induction H as [|[k1 v1] [k2 v2] l l' [E W] H IH]; simpl in *; auto. subst.
  destruct (str_eqb k k2); auto. constructor; auto. split; auto.
Qed.
Lemma dict_update_sim : forall kv2 kv2' kv kv', Forall2 psim kv2 kv2' -> Forall2 psim kv kv' ->
  Forall2 psim (dict_update kv kv2) (dict_update kv' kv2').
Proof.
  unfold dict_update. intros kv2 kv2' kv kv' H. revert kv kv'.
  induction H as [|p q l l' [E W] H IH]; simpl; intros kv kv' K; auto. apply IH. rewrite E. apply dict_set_sim; auto.
Qed.
Lemma keys_sim : forall kv kv', Forall2 psim kv kv' ->
  Forall2 vsim (map (fun p => VStr (fst p)) kv) (map (fun p => VStr (fst p)) kv').
Proof. intros kv kv' H. induction H as [|p q l l' [E W] H IH]; simpl; constructor; auto. rewrite E. apply vs_same. Qed.
Lemma insert_key_sim : forall p q l l', psim p q -> Forall2 psim l l' -> Forall2 psim (insert_key p l) (insert_key q l').
Proof.
  intros p q l l' P H. induction H as [|x y l l' X H IH]; simpl.
  - repeat constructor; apply P.
  - destruct P as [E1 V1]. destruct X as [E2 V2]. rewrite <- E1, <- E2.
    destruct (str_compare (fst p) (fst x)); repeat (constructor; auto); try (split; auto).
Qed.
Lemma sort_keys_sim : forall l l', Forall2 psim l l' -> Forall2 psim (sort_keys l) (sort_keys l').
Proof. intros l l' H. unfold sort_keys. induction H; simpl; auto. apply insert_key_sim; auto. Qed.

(* ====================================================================== the heap *)
Lemma hget_sim : forall h h' l, hsim h h' -> orel csim (hget h l) (hget h' l).
Proof. intros. unfold hget. apply F2_nth_error. assumption. Qed.
Lemma hget_sim_cases : forall h h' l, hsim h h' ->
  (hget h l = None /\ hget h' l = None)
  \/ (exists xs ys, hget h l = Some (CArr xs) /\ hget h' l = Some (CArr ys) /\ Forall2 vsim xs ys)
  \/ (exists kv kv', hget h l = Some (CObj kv) /\ hget h' l = Some (CObj kv') /\ Forall2 psim kv kv').
Proof.
  intros h h' l H. pose proof (hget_sim h h' l H) as S. destruct (hget h l) as [c|], (hget h' l) as [c'|]; simpl in S; try contradiction; auto.
  right. destruct S; [left | right]; eauto.
Qed.
Lemma hset_sim : forall h h' l c c', hsim h h' -> csim c c' -> hsim (hset h l c) (hset h' l c').
Proof. unfold hsim. intros h h' l c c' H C. revert l. induction H; intros [|n]; simpl; constructor; auto. Qed.
Lemma hsim_length : forall h h', hsim h h' -> length h' = length h.
Proof. intros h h' H. symmetry. apply (F2_length H). Qed.
Lemma halloc_sim : forall h h' c c', hsim h h' -> csim c c' -> hsim (h ++ [c]) (h' ++ [c']).
Proof. intros. apply Forall2_app; auto. Qed.

Lemma value_boolean_sim : forall h h' v v', hsim h h' -> vsim v v' -> value_boolean h v = value_boolean h' v'.
Proof.
  intros h h' v v' H [n1 n2 N|w].
  - simpl. rewrite (num_eq_sim n1 n2 (NInt 0) (NInt 0)); auto using nsim_refl.
  - destruct w; simpl; auto.
    destruct (hget_sim_cases h h' l H) as [[-> ->]|[(xs & ys & -> & -> & F)|(kv & kv' & -> & -> & F)]]; auto.
    destruct F; reflexivity.
Qed.

(* ====================================================================== deep equality (value_compare(a, b) == 0) *)
Definition all2_of (e : value -> value -> option bool) : list value -> list value -> option bool :=
  fix all2 (xs ys : list value) : option bool :=
    match xs, ys with
    | [], [] => Some true
    | x :: xs', y :: ys' => match e x y with Some true => all2 xs' ys' | r => r end
    | _, _ => Some false
    end.
Definition all2kv_of (e : value -> value -> option bool) : list (str * value) -> list (str * value) -> option bool :=
  fix all2kv (xs ys : list (str * value)) : option bool :=
    match xs, ys with
    | [], [] => Some true
    | (k1, x) :: xs', (k2, y) :: ys' =>
        if str_eqb k1 k2 then match e x y with Some true => all2kv xs' ys' | r => r end else Some false
    | _, _ => Some false
    end.
Lemma veq_unfold : forall f h a b, veq (S f) h a b =
    match a, b with
    | VNull, VNull => Some true
    | VNull, _ | _, VNull => Some false
    | VStr s1, VStr s2 => Some (str_eqb s1 s2)
    | VBool b1, VBool b2 => Some (Bool.eqb b1 b2)
    | VNum n1, VNum n2 => Some (num_eq n1 n2)
    | VDate d1, VDate d2 => Some (d1 =? d2)
    | VArr l1, VArr l2 =>
        match hget h l1, hget h l2 with
        | Some (CArr xs), Some (CArr ys) => all2_of (veq f h) xs ys
        | _, _ => None
        end
    | VObj l1, VObj l2 =>
        match hget h l1, hget h l2 with
        | Some (CObj xs), Some (CObj ys) => all2kv_of (veq f h) (sort_keys xs) (sort_keys ys)
        | _, _ => None
        end
    | _, _ => Some (str_eqb (type_name a) (type_name b))
    end.
Proof. reflexivity. Qed.

Lemma all2_sim : forall e e', (forall x x' y y', vsim x x' -> vsim y y' -> e x y = e' x' y') ->
  forall xs xs', Forall2 vsim xs xs' -> forall ys ys', Forall2 vsim ys ys' -> all2_of e xs ys = all2_of e' xs' ys'.
Proof.
  intros e e' E xs xs' HX. induction HX as [|x x' xs xs' X HX IH]; intros ys ys' HY; destruct HY as [|y y' ys ys' Y HY]; simpl; auto.
  rewrite (E x x' y y' X Y). destruct (e' x' y') as [[]|]; auto.
Qed.
Lemma all2kv_sim : forall e e', (forall x x' y y', vsim x x' -> vsim y y' -> e x y = e' x' y') ->
  forall xs xs', Forall2 psim xs xs' -> forall ys ys', Forall2 psim ys ys' -> all2kv_of e xs ys = all2kv_of e' xs' ys'.
Proof.
  intros e e' E xs xs' HX. induction HX as [|[k1 x] [k1' x'] xs xs' [K X] HX IH]; intros ys ys' HY;
    destruct HY as [|[k2 y] [k2' y'] ys ys' [K2 Y] HY]; simpl in *; auto. subst.
  rewrite (E x x' y y' X Y). destruct (str_eqb k1' k2'); auto. destruct (e' x' y') as [[]|]; auto.
Qed.

Theorem veq_sim : forall fuel h h', hsim h h' -> forall a a' b b', vsim a a' -> vsim b b' -> veq fuel h a b = veq fuel h' a' b'.
Proof.
  induction fuel as [|f IH]; intros h h' H a a' b b' A B; [reflexivity|].
  rewrite !veq_unfold.
  assert (ARR : forall l1 l2,
    match hget h l1, hget h l2 with Some (CArr xs), Some (CArr ys) => all2_of (veq f h) xs ys | _, _ => None end =
    match hget h' l1, hget h' l2 with Some (CArr xs), Some (CArr ys) => all2_of (veq f h') xs ys | _, _ => None end).
  { intros l1 l2.
    destruct (hget_sim_cases h h' l1 H) as [[-> ->]|[(xs & xs' & -> & -> & F)|(kv & kv' & -> & -> & F)]]; auto.
    destruct (hget_sim_cases h h' l2 H) as [[-> ->]|[(ys & ys' & -> & -> & G)|(kw & kw' & -> & -> & G)]]; auto.
    apply all2_sim; auto. }
  assert (OBJ : forall l1 l2,
    match hget h l1, hget h l2 with Some (CObj xs), Some (CObj ys) => all2kv_of (veq f h) (sort_keys xs) (sort_keys ys) | _, _ => None end =
    match hget h' l1, hget h' l2 with Some (CObj xs), Some (CObj ys) => all2kv_of (veq f h') (sort_keys xs) (sort_keys ys) | _, _ => None end).
  { intros l1 l2.
    destruct (hget_sim_cases h h' l1 H) as [[-> ->]|[(xs & xs' & -> & -> & F)|(kv & kv' & -> & -> & F)]]; auto.
    destruct (hget_sim_cases h h' l2 H) as [[-> ->]|[(ys & ys' & -> & -> & G)|(kw & kw' & -> & -> & G)]]; auto.
    apply all2kv_sim; auto using sort_keys_sim. }
  destruct A as [n1 n2 N|a]; destruct B as [m1 m2 M|b].
  - rewrite (num_eq_sim n1 n2 m1 m2); auto.
  - destruct b; try reflexivity. rewrite (num_eq_sim n1 n2 n n); auto using nsim_refl.
  - destruct a; try reflexivity. rewrite (num_eq_sim n n m1 m2); auto using nsim_refl.
  - destruct a, b; try reflexivity; auto.
Qed.

Lemma compare_fuel_sim : forall h h', hsim h h' -> compare_fuel h' = compare_fuel h.
Proof. intros. unfold compare_fuel. rewrite (hsim_length h h'); auto. Qed.
Lemma index_of_sim : forall h h' v v', hsim h h' -> vsim v v' -> forall xs xs', Forall2 vsim xs xs' ->
  forall pos, index_of h xs v pos = index_of h' xs' v' pos.
Proof.
  intros h h' v v' H V xs xs' F. induction F as [|x x' xs xs' X F IH]; intros pos; cbn [index_of]; auto.
  rewrite (compare_fuel_sim h h' H), (veq_sim _ h h' H x x' v v' X V). destruct (veq _ h' x' v') as [[]|]; auto.
Qed.
Lemma last_index_of_sim : forall h h' v v', hsim h h' -> vsim v v' -> forall xs xs', Forall2 vsim xs xs' ->
  forall pos best, last_index_of h xs v pos best = last_index_of h' xs' v' pos best.
Proof.
  intros h h' v v' H V xs xs' F. induction F as [|x x' xs xs' X F IH]; intros pos best; cbn [last_index_of]; auto.
  rewrite (compare_fuel_sim h h' H), (veq_sim _ h h' H x x' v v' X V). destruct (veq _ h' x' v') as [[]|]; auto.
Qed.
